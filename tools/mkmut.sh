#!/bin/bash
# mkmut.sh <id>: create a scratch worktree of /repo at /tmp/mut/<id> with a configured+built cmake build dir (_build)
# for a seeded-change sub-agent.  Remove with: git -C /repo worktree remove --force /tmp/mut/<id>
set -eu
ID=$1; WT=/tmp/mut/$ID
mkdir -p /tmp/mut
[ -d "$WT" ] || git -C /repo worktree add --detach -q "$WT" HEAD
cd "$WT"
cmake -G Ninja -S cmake -B _build -DCMAKE_BUILD_TYPE=RelWithDebInfo -DCMAKE_CXX_FLAGS=-Wno-error -DBUILD_TESTS=ON -DBUILD_TOOLS=ON -DBUILD_UNITTESTS=ON -DCOLVARS_OPENMP=ON -DCOLVARS_TCL=OFF -DCOLVARS_LEPTON=OFF > /tmp/mut/$ID.cmake.log 2>&1
cmake --build _build -j6 >> /tmp/mut/$ID.cmake.log 2>&1
mkdir -p demo
echo "ready: $WT"
