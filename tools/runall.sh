#!/bin/bash
# runall.sh [tier]: every claimed check against /repo itself, 4 at a time; one summary line per property
cd "$(dirname "$0")/.."
T=${1:-quick}
ls props | xargs -P 4 -I{} sh -c "./check {} --tier $T > build/runall_{}.log 2>&1; echo \"{} exit=\$? \$(grep -c '^VIOLATION' build/runall_{}.log) violation(s): \$(tail -1 build/runall_{}.log | cut -c1-140)\""
