#!/bin/bash
# pick_fixes.sh <branch>: cherry-pick onto /repo main the commits of <branch> (a fix-Cnn branch of /repo's git) whose
# patch is not already in main (compared by git patch-id); stops at the first conflict.
set -u
B=$1
cd /repo || exit 2
[ "$(git rev-parse --abbrev-ref HEAD)" = main ] || { echo "not on main"; exit 2; }
have=$(git log --format=%H 81f59e92..main | while read h; do git show $h | git patch-id --stable | cut -d' ' -f1; done)
for h in $(git log --reverse --format=%H main..$B); do
  pid=$(git show $h | git patch-id --stable | cut -d' ' -f1)
  subj=$(git log -1 --format=%s $h)
  if echo "$have" | grep -q "$pid"; then echo "skip (already in main): $subj"; continue; fi
  if git log --format=%s 81f59e92..main | grep -qxF "$subj"; then echo "skip (same subject in main): $subj"; continue; fi
  case "$subj" in fix:*) ;; *) echo "REFUSED (subject does not start with fix:): $subj"; continue;; esac
  if git cherry-pick -x $h >/dev/null 2>&1; then echo "picked: $subj"; have="$have $pid"
  else echo "CONFLICT on: $subj ($h)"; git cherry-pick --abort; exit 1; fi
done
