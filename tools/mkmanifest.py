#!/usr/bin/env python3
# Regenerates MANIFEST.json from props/*/meta.json (claimed) and tools/not_applicable.json (not claimed).
import json, os, glob
ROOT = os.path.dirname(os.path.dirname(os.path.abspath(__file__)))
ids = [json.loads(l)["id"] for l in open(os.path.join(ROOT, "properties.jsonl"))]
na_reasons = json.load(open(os.path.join(ROOT, "tools", "not_applicable.json")))
checks, na = [], []
hold = json.load(open(os.path.join(ROOT, "tools", "hold.json")))   # slices present but not yet claimed
for pid in ids:
    mp = os.path.join(ROOT, "props", pid, "meta.json")
    if pid in hold:
        na.append({"property_id": pid, "reason": hold[pid]})
    elif os.path.exists(mp) and os.path.exists(os.path.join(ROOT, "props", pid, "check.py")):
        m = json.load(open(mp))
        checks.append({
            "property_id": pid,
            "quick_cmd": "./check %s --tier quick" % pid,
            "thorough_cmd": "./check %s --tier thorough" % pid,
            "evidence_file": "evidence/%s.json" % pid,
            "replay_cmd_template": "./check %s --replay {path}" % pid,
            "engine": "coq-model+correspondence",
            "level_claimed": m["level_claimed"],
            "level_note": m["level_note"],
            "technique": m.get("technique", "Coq proof + correspondence"),
        })
    else:
        na.append({"property_id": pid, "reason": na_reasons.get(pid, "no check is built for this property in this commit (planned in DESIGN.md section 8); nothing is claimed")})
man = {
    "version": 1,
    "setup_cmd": "./setup.sh",
    "hooks": {
        "guard": "COLVARS_VERIF",
        "enable": "checks compile /repo/src/*.cpp from the working tree with g++ -std=c++11 -fopenmp -DCOLVARS_VERIF (lib/vcommon.py build_lib)",
        "baseline_off_cmd": "cmake --build /repo/_build && ctest --test-dir /repo/_build -j8 --timeout 900",
        "source_commits": json.load(open(os.path.join(ROOT, "tools", "hook_commits.json"))),
        "add_only": True,
    },
    "engines": [{"name": "coq-model+correspondence", "path": "check", "serves_properties": [c["property_id"] for c in checks],
                 "kind_free_text": "Coq 8.16 theorems about hand-written Gallina models (coq/), extracted to OCaml and run against the C++ rebuilt from /repo's working tree (harness/, props/*/)"}],
    "checks": checks,
    "not_applicable": na,
    "notes": "See DESIGN.md. known_findings.txt lists recorded findings and fixed defects.",
}
json.dump(man, open(os.path.join(ROOT, "MANIFEST.json"), "w"), indent=1)
print("claimed:", [c["property_id"] for c in checks])
