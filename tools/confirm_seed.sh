#!/bin/bash
# confirm_seed.sh <worktree> <seed-id>: confirm a seeded breaking change (tests still pass, demo fails
# with it and passes without), then store it under seeded/<seed-id>/.  The worktree has the change applied.
set -u
WT=$1; ID=$2
ROOT=$(cd "$(dirname "$0")/.." && pwd)
cd "$WT" || exit 2
git diff -- src > /tmp/confirm_$ID.diff
[ -s /tmp/confirm_$ID.diff ] || { echo "no change in src/"; exit 2; }
cmake --build _build -j8 > /tmp/confirm_$ID.build.log 2>&1 || { echo "BUILD FAILED"; tail -5 /tmp/confirm_$ID.build.log; exit 1; }
ctest --test-dir _build -j8 --timeout 900 > /tmp/confirm_$ID.ctest.log 2>&1
PASSED=$(grep -c "Passed" /tmp/confirm_$ID.ctest.log); FAILED=$(grep "\*\*\*Failed\|Failed " /tmp/confirm_$ID.ctest.log | grep -v customfunction | grep -c "Test ")
echo "tests: passed=$PASSED other-failures=$FAILED"
timeout 900 bash demo/run.sh > /tmp/confirm_$ID.with.log 2>&1; W=$?
echo "demo with change: exit $W"
git apply -R /tmp/confirm_$ID.diff || exit 2
cmake --build _build -j8 > /dev/null 2>&1
timeout 900 bash demo/run.sh > /tmp/confirm_$ID.without.log 2>&1; WO=$?
echo "demo without change: exit $WO"
git apply /tmp/confirm_$ID.diff
cmake --build _build -j8 > /dev/null 2>&1
if [ "$PASSED" = "92" ] && [ "$FAILED" = "0" ] && [ $W -ne 0 ] && [ $WO -eq 0 ]; then
  mkdir -p "$ROOT/seeded/$ID"
  cp /tmp/confirm_$ID.diff "$ROOT/seeded/$ID/patch.diff"
  rsync -a --exclude '*.o' --exclude 'build*' --exclude '*.a' --exclude 'patch.diff' --exclude '_work' --exclude '_build*' --exclude '*.exe' --exclude 'out*' demo/ "$ROOT/seeded/$ID/demo/"
  tail -5 /tmp/confirm_$ID.with.log > "$ROOT/seeded/$ID/demo_with_change.log"
  tail -5 /tmp/confirm_$ID.without.log > "$ROOT/seeded/$ID/demo_without_change.log"
  echo CONFIRMED
else
  echo NOT-CONFIRMED; exit 1
fi
