#!/usr/bin/env python3
# sync_known.py Cnn [Cmm ...]: after merging wk-Cnn, make the lines of known_findings.txt for that property exactly those of
# the branch (the union merge driver keeps `known:` lines that the branch deliberately turned into `fixed:` lines).
import subprocess, re, sys
def prop(l):
    m = re.match(r'(?:known|fixed):\s+property=(\S+)', l); return m.group(1) if m else None
main = open('/verif/known_findings.txt').read().split('\n')
for p in sys.argv[1:]:
    b = subprocess.run(['git', '-C', '/verif', 'show', 'wk-%s:known_findings.txt' % p], stdout=subprocess.PIPE, text=True).stdout.split('\n')
    mine = [l for l in b if prop(l) == p]
    dropped = [l[:110] for l in main if prop(l) == p and l not in mine]
    if dropped:
        print(p, 'dropping stale:', dropped)
    main = [l for l in main if prop(l) != p] + mine
open('/verif/known_findings.txt', 'w').write('\n'.join([l for l in main if l.strip()]) + '\n')
