#!/bin/bash
# run_seed.sh <seed-id> <PID> [tier]: run ./check PID against a scratch worktree of /repo with seeded/<seed-id>/patch.diff applied
# (equivalent to `git -C /repo apply ...; ./check; git -C /repo checkout -- .` but does not disturb other users of /repo)
set -u
ID=$1; PID=$2; TIER=${3:-quick}
ROOT=$(cd "$(dirname "$0")/.." && pwd)
WT=/tmp/seedrun/$ID
rm -rf "$WT"; mkdir -p /tmp/seedrun
git -C /repo worktree add --detach -q "$WT" || exit 2
# patch_rebased.diff: the same change re-made on top of later fix: commits that touched the same lines
P="$ROOT/seeded/$ID/patch.diff"; [ -f "$ROOT/seeded/$ID/patch_rebased.diff" ] && P="$ROOT/seeded/$ID/patch_rebased.diff"
git -C "$WT" apply "$P" || { echo "patch does not apply"; git -C /repo worktree remove --force "$WT"; exit 2; }
cd "$ROOT" && VERIF_REPO="$WT" ./check "$PID" --tier "$TIER"; RC=$?
git -C /repo worktree remove --force "$WT"
# the library objects in build/ now correspond to the scratch tree; the next run against /repo rebuilds what differs
exit $RC
