#!/usr/bin/env python3
import sys, os, glob, importlib.util
ROOT = os.path.dirname(os.path.dirname(os.path.abspath(__file__)))
sys.path.insert(0, os.path.join(ROOT, "lib"))
import vcommon as V
V.build_lib("plain")
V.build_prog("vsim", ["harness/vsim_main.cpp"])
mods = []
for p in sorted(glob.glob(os.path.join(ROOT, "props", "*", "check.py"))):
    pid = os.path.basename(os.path.dirname(p))
    spec = importlib.util.spec_from_file_location("check_" + pid, p)
    mod = importlib.util.module_from_spec(spec)
    sys.path.insert(0, os.path.dirname(p))
    try:
        spec.loader.exec_module(mod)
        mods.append((pid, mod))
        # presetup(): regenerate coq/Gen/*.v (tables dumped from the freshly built binary) BEFORE the Coq build
        if hasattr(mod, "presetup"):
            mod.presetup()
    except Exception as ex:
        print("presetup of %s: %s" % (pid, ex))
    sys.path.pop(0)
V.coq_project()
rc, o, e = V.sh(["make", "-k", "-j%d" % V.NPROC], cwd=V.COQ, timeout=7200)
print(o[-2000:]); print(e[-2000:])
for f in glob.glob(os.path.join(V.COQ, "*.ml")) + glob.glob(os.path.join(V.COQ, "*.mli")):
    os.remove(f)
# per-property setup hooks (build harness programs and models)
for pid, mod in mods:
    sys.path.insert(0, os.path.join(ROOT, "props", pid))
    try:
        if hasattr(mod, "setup"):
            mod.setup()
    except Exception as ex:
        print("setup of %s: %s" % (pid, ex))
    sys.path.pop(0)
if rc != 0:
    # a Coq file that no longer compiles is a verdict about ONE property (its check re-proves its own property file
    # and reports the broken theorem); it must not prevent the other checks from being set up
    print("setup: the Coq build reported errors (see above); the affected property's check will report them")
sys.exit(0)
