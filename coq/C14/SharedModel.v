(* C14: models of the two multiple-walker data exchanges of Colvars.  Definitions only (extracted);
   proofs are in SharedProofs.v.

   (a) Shared ABF (src/colvarbias_abf.cpp replica_share(), replica_share_CZAR(), read_state_data();
       src/colvargrid.h delta_grid/add_grid/copy_grid/raw_data_in/raw_data_out).  Every walker holds three
       grids of the same shape: the global data G (samples / gradients), the snapshot L taken at the last
       exchange (last_samples / last_gradients) and its own accumulated contribution Loc (local_samples /
       local_gradients).  A grid is a total function from the flat address in the `data` array to a value
       of a commutative group (counts: integers; gradient sums: numbers); the count grid and the gradient
       grid go through the same sequence of operations, so one generic model serves both.
   (b) File-based multiple-walker metadynamics (src/colvarbias_meta.cpp update_replicas_registry(),
       read_replica_files(), read_hill_template_(), write_state_to_replicas(), write_replica_state_file(),
       reopen_replica_buffer_file(), setup_output()): what one walker (the writer) leaves in the file
       system and what another walker (the reader) makes of it in its mirror bias. *)
From Coq Require Import ZArith List Bool.
Import ListNotations.
Local Open Scope Z_scope.

(* ------------------------------------------------------------------------------------------- *)
(* (a) shared ABF                                                                               *)
(* ------------------------------------------------------------------------------------------- *)

Record GrpOps (A : Type) := mkGrpOps { g0 : A; gadd : A -> A -> A; gsub : A -> A -> A }.
Arguments g0 {A}. Arguments gadd {A}. Arguments gsub {A}.

Fixpoint upd_nth {X : Type} (n : nat) (f : X -> X) (l : list X) {struct l} : list X :=
  match l with
  | [] => []
  | x :: tl => match n with O => f x :: tl | S k => x :: upd_nth k f tl end
  end.

Section ABF.
  Context {A : Type} (G : GrpOps A).

  Definition grid := Z -> A.
  Definition grid0 : grid := fun _ => g0 G.
  (* colvar_grid::add_grid: this[i] += other[i] *)
  Definition grid_add (this other : grid) : grid := fun i => gadd G (this i) (other i).
  (* colvar_grid::delta_grid: this[i] = other[i] - this[i] *)
  Definition grid_delta (this other : grid) : grid := fun i => gsub G (other i) (this i).
  (* acc_force / incr_count on the element with flat address i *)
  Definition grid_acc (g : grid) (i : Z) (a : A) : grid :=
    fun j => if Z.eqb j i then gadd G (g j) a else g j.

  Record walker := mkW { wG : grid; wL : grid; wLoc : grid; wlast : Z }.

  (* colvarbias_abf::init: empty grids, shared_last_step = step at initialisation *)
  Definition w_init (t : Z) : walker := mkW grid0 grid0 grid0 t.

  (* colvarbias_abf::update, part I: one force sample lands on address i of the global grid *)
  Definition w_sample (w : walker) (i : Z) (a : A) : walker :=
    mkW (grid_acc (wG w) i a) (wL w) (wLoc w) (wlast w).

  (* the gate in update(): shared_on && shared_freq && shared_last_step >= 0 &&
     step > shared_last_step && step % shared_freq == 0 *)
  Definition share_due (freq t : Z) (w : walker) : bool :=
    negb (freq =? 0) && (0 <=? wlast w) && (wlast w <? t) && (t mod freq =? 0).

  (* replica_share(), every replica: last := G - last (the delta since the last exchange);
     local += last *)
  Definition w_prepare (w : walker) : walker :=
    let d := grid_delta (wL w) (wG w) in
    mkW (wG w) d (grid_add (wLoc w) d) (wlast w).

  (* replica 0: for p = 1 .. n-1 in this order: receive the delta of p into last (raw_data_in erases
     it each time), G += last *)
  Fixpoint root_collect (r : walker) (msgs : list grid) : walker :=
    match msgs with
    | [] => r
    | m :: tl => root_collect (mkW (grid_add (wG r) m) m (wLoc r) (wlast r)) tl
    end.

  (* replicas p > 0: send last (their delta), receive the combined grid from replica 0 into G *)
  Definition w_receive (b : grid) (w : walker) : walker := mkW b (wL w) (wLoc w) (wlast w).

  (* every replica after the barrier: last := G, shared_last_step := step *)
  Definition w_finish (t : Z) (w : walker) : walker := mkW (wG w) (wG w) (wLoc w) t.

  (* one exchange round at step t; the head of the list is replica 0 *)
  Definition exchange (t : Z) (ws : list walker) : list walker :=
    match map w_prepare ws with
    | [] => []
    | r :: others =>
        let r' := root_collect r (map wL others) in
        map (w_finish t) (r' :: map (w_receive (wG r')) others)
    end.

  (* ---- a round that does not complete (round 5): a peer is dead, absent or too slow, and a blocking call of
     replica_share() returns an error.  The repaired replica_share() is a transaction: a walker either completes the
     round (Committed: what `exchange` gives it) or is exactly as it was before the call (Aborted).  Which walkers
     commit depends on where the failure happens (replica 0 commits only when it received every delta; another replica
     only when it received the sum from replica 0); the statements hold for every assignment. *)
  Inductive outcome := Committed | Aborted.
  Definition exchange_partial (t : Z) (oc : list outcome) (ws : list walker) : list walker :=
    map (fun x : outcome * (walker * walker) =>
           match fst x with Committed => snd (snd x) | Aborted => fst (snd x) end)
        (combine oc (combine ws (exchange t ws))).

  (* what a walker itself has sampled, as recoverable from its three grids: local + (global - snapshot) *)
  Definition own_data (w : walker) : grid := fun i => gadd G (wLoc w i) (gsub G (wG w i) (wL w i)).

  (* replica_share() before that repair, on replica 0, when the receive from the (k+1)-th other replica fails: the
     deltas of the k replicas before it are already added to the global grid, the snapshot grid holds the last delta
     that was unpacked into it (its own when k = 0), the local grid already has the own delta; return *)
  Definition root_fail_old (k : nat) (ws : list walker) : option walker :=
    match map w_prepare ws with
    | [] => None
    | r :: others => Some (root_collect r (firstn k (map wL others)))
    end.

  (* a walker that starts from data read through inputPrefix (read_gradients_samples): every replica reads the same
     grid I; it is recorded as exchanged already (snapshot := I), so nobody sends it.  Before the repair of round 5 this
     was only done with "shared on" in the configuration: with sharing enabled later by a script the snapshot was empty *)
  Definition w_init_input (I : grid) (t : Z) : walker := mkW I I grid0 t.
  Definition w_init_input_old (I : grid) (t : Z) : walker := mkW I grid0 grid0 t.

  (* restart through a state file: samples/gradients, local_* and (since the repair) last_* are
     written and read back; shared_last_step := step of the restart *)
  Definition w_restart (t : Z) (w : walker) : walker := mkW (wG w) (wL w) (wLoc w) t.
  (* the behaviour before the repair: read_state_data() set last := G *)
  Definition w_restart_old (t : Z) (w : walker) : walker := mkW (wG w) (wG w) (wLoc w) t.

  Inductive ev : Type :=
  | ESample (w : nat) (i : Z) (a : A)     (* walker w accumulates a at address i *)
  | EExchange (t : Z)                     (* all walkers run replica_share() at step t *)
  | ERestart (w : nat) (t : Z).           (* walker w is restarted from its state file at step t *)

  Definition apply_ev (old : bool) (ws : list walker) (e : ev) : list walker :=
    match e with
    | ESample w i a => upd_nth w (fun x => w_sample x i a) ws
    | EExchange t => exchange t ws
    | ERestart w t => upd_nth w (if old then w_restart_old t else w_restart t) ws
    end.

  Definition run (old : bool) (es : list ev) (ws : list walker) : list walker :=
    fold_left (apply_ev old) es ws.

  Definition init (n : nat) : list walker := repeat (w_init 0) n.

  (* ---- the exchange round in small steps: what each replica does between its blocking calls.
     Replica 0 and the others are kept apart; n_k = the replica whose delta replica 0 waits for next
     (it receives from 1, 2, .. in this order, each receive blocks until that replica has sent);
     n_bc = replica 0 has sent the combined grid.  A message is "in flight" from the moment its sender
     has performed the send until the receiver performs the receive: sends never block (buffered). *)
  Inductive phase : Type := PhIdle | PhSent | PhGot | PhCollect | PhDone.
  Record net := mkNet { n_root : walker * phase; n_others : list (walker * phase); n_k : nat; n_bc : bool }.

  Inductive act : Type :=
  | ASample (w : nat) (i : Z) (a : A)    (* a walker outside replica_share() accumulates a sample *)
  | ARestart (w : nat) (t : Z)           (* ... or is restarted *)
  | AStart (w : nat)                     (* walker w enters replica_share(): delta, local += delta; w > 0 sends its delta *)
  | ARecv                                (* replica 0 receives the delta of replica n_k (which must have sent it) *)
  | ABcast                               (* replica 0, having received all deltas, sends the combined grid to every replica *)
  | AGet (w : nat)                       (* replica w > 0 receives the combined grid *)
  | AFinish (t : Z).                     (* the barrier opens (all replicas are there): last := G, shared_last_step := t *)

  Definition is_idle (x : walker * phase) : bool := match snd x with PhIdle => true | _ => false end.
  Definition is_sent (x : walker * phase) : bool := match snd x with PhSent => true | _ => false end.
  Definition is_got (x : walker * phase) : bool := match snd x with PhGot => true | _ => false end.

  Definition on_walker (s : net) (w : nat) (f : walker -> walker * phase) : option net :=
    match w with
    | O => if is_idle (n_root s) then Some (mkNet (f (fst (n_root s))) (n_others s) (n_k s) (n_bc s)) else None
    | S j => match nth_error (n_others s) j with
             | Some x => if is_idle x
                         then Some (mkNet (n_root s) (upd_nth j (fun y => f (fst y)) (n_others s)) (n_k s) (n_bc s))
                         else None
             | None => None
             end
    end.

  Definition sstep (s : net) (a : act) : option net :=
    match a with
    | ASample w i x => on_walker s w (fun c => (w_sample c i x, PhIdle))
    | ARestart w t => on_walker s w (fun c => (w_restart t c, PhIdle))
    | AStart O => if is_idle (n_root s)
                  then Some (mkNet (w_prepare (fst (n_root s)), PhCollect) (n_others s) 1 (n_bc s)) else None
    | AStart (S j) => on_walker s (S j) (fun c => (w_prepare c, PhSent))
    | ARecv => match snd (n_root s), nth_error (n_others s) (n_k s - 1) with
               | PhCollect, Some x =>
                   if is_sent x
                   then let r := fst (n_root s) in
                        Some (mkNet (mkW (grid_add (wG r) (wL (fst x))) (wL (fst x)) (wLoc r) (wlast r), PhCollect)
                                    (n_others s) (S (n_k s)) (n_bc s))
                   else None
               | _, _ => None
               end
    | ABcast => match snd (n_root s) with
                | PhCollect => if Nat.eqb (n_k s) (S (length (n_others s)))
                               then Some (mkNet (fst (n_root s), PhDone) (n_others s) (n_k s) true) else None
                | _ => None
                end
    | AGet O => None
    | AGet (S j) => match nth_error (n_others s) j with
                    | Some x => if is_sent x && n_bc s
                                then Some (mkNet (n_root s)
                                                 (upd_nth j (fun y => (w_receive (wG (fst (n_root s))) (fst y), PhGot)) (n_others s))
                                                 (n_k s) (n_bc s))
                                else None
                    | None => None
                    end
    | AFinish t => match snd (n_root s) with
                   | PhDone => if forallb is_got (n_others s)
                               then Some (mkNet (w_finish t (fst (n_root s)), PhIdle)
                                                (map (fun y => (w_finish t (fst y), PhIdle)) (n_others s)) 0 false)
                               else None
                   | _ => None
                   end
    end.

  Fixpoint srun (acts : list act) (s : net) : option net :=
    match acts with
    | [] => Some s
    | a :: tl => match sstep s a with Some s' => srun tl s' | None => None end
    end.

  Definition sinit (n : nat) : net :=
    mkNet (w_init 0, PhIdle) (repeat (w_init 0, PhIdle) (pred n)) 0 false.

  Definition all_idle (s : net) : bool := is_idle (n_root s) && forallb is_idle (n_others s).
  Definition walkers_of (s : net) : list walker := fst (n_root s) :: map fst (n_others s).

  (* the exchange-level trace an action sequence amounts to *)
  Fixpoint project (acts : list act) : list ev :=
    match acts with
    | [] => []
    | ASample w i x :: tl => ESample w i x :: project tl
    | ARestart w t :: tl => ERestart w t :: project tl
    | AFinish t :: tl => EExchange t :: project tl
    | _ :: tl => project tl
    end.

  (* replica_share_CZAR(): replica 0 copies its own z grids and adds those of p = 1 .. n-1 *)
  Definition czar_gather (zs : list grid) : grid :=
    match zs with
    | [] => grid0
    | z0 :: others => fold_left grid_add others z0
    end.

  (* a walker of shared eABF: the three grids of shared ABF, its z grids (CZAR) and, on replica 0, the gathered
     z grids; replica_share_CZAR() (run by write_output_files() on every replica, i.e. between two exchanges)
     must change nothing but replica 0's gathered grids -- in particular not the snapshot last_* *)
  Record ewalker := mkEW { e_w : walker; e_z : grid; e_gz : grid }.
  Definition czar_gather_step (ws : list ewalker) : list ewalker :=
    match ws with
    | [] => []
    | r :: others => mkEW (e_w r) (e_z r) (czar_gather (map e_z ws)) :: others
    end.

  (* the gather as replica_share_CZAR() performed it when sharing had been enabled by a script ("cv bias <name> share",
     no "shared on" in the configuration) before the repair of round 4: the grids for the gathered data were still
     aliases of replica 0's own z grids, so the sum landed in those *)
  Definition czar_gather_step_alias (ws : list ewalker) : list ewalker :=
    match ws with
    | [] => []
    | r :: others => let g := czar_gather (map e_z ws) in mkEW (e_w r) g g :: others
    end.

  (* restart of a walker of shared eABF: the state holds (and read_state_data() reads back) the three grids of shared
     ABF with the snapshot, and the z grids; the gathered grids are rebuilt by the next gather *)
  Definition ew_restart (t : Z) (w : ewalker) : ewalker := mkEW (w_restart t (e_w w)) (e_z w) (e_gz w).

  (* restart of a walker whose sharing had been enabled by a script, as read_state_data() performed it before the
     repair of round 4: the run is configured without "shared on", the local_* and last_* sections of the state
     were not read: snapshot and local grids start from zero, the global grids hold the restored collective data *)
  Definition w_restart_unshared (t : Z) (w : walker) : walker := mkW (wG w) grid0 grid0 t.

  (* ---- specification side: the sampling history, kept per walker as
     (samples already exchanged, samples collected since the last exchange) *)
  Definition sample := (Z * A)%type.
  Definition hist := list (list sample * list sample).

  Definition h_apply (h : hist) (e : ev) : hist :=
    match e with
    | ESample w i a => upd_nth w (fun su => (fst su, snd su ++ [(i, a)])) h
    | EExchange _ => map (fun su => (fst su ++ snd su, [])) h
    | ERestart _ _ => h
    end.
  Definition h_run (es : list ev) (h : hist) : hist := fold_left h_apply es h.
  Definition h_init (n : nat) : hist := repeat ([], []) n.

  (* the samples that walker w was fed in a trace, in order *)
  Fixpoint samples_of (w : nat) (es : list ev) : list sample :=
    match es with
    | [] => []
    | ESample v i a :: tl => if Nat.eqb v w then (i, a) :: samples_of w tl else samples_of w tl
    | _ :: tl => samples_of w tl
    end.
  (* the trace up to and including its last exchange *)
  Fixpoint upto_last_exchange (es : list ev) : list ev :=
    match es with
    | [] => []
    | e :: tl => match upto_last_exchange tl with
                 | [] => match e with EExchange _ => [e] | _ => [] end
                 | r => e :: r
                 end
    end.

  (* the grid that holds every sample of the list exactly once *)
  Fixpoint gsum (l : list sample) : grid :=
    match l with
    | [] => grid0
    | (i, a) :: tl => fun j => gadd G (if Z.eqb j i then a else g0 G) (gsum tl j)
    end.

  (* all samples exchanged so far by all walkers, each exactly once *)
  Fixpoint union_shared (h : hist) : grid :=
    match h with
    | [] => grid0
    | su :: tl => fun j => gadd G (gsum (fst su) j) (union_shared tl j)
    end.
  (* the same, read directly off a trace: for walkers k0 .. k0+n-1, every sample fed to them up to the
     last exchange of the trace, each exactly once *)
  Fixpoint fed_from (n k0 : nat) (f : nat -> list sample) : grid :=
    match n with
    | O => grid0
    | S m => fun j => gadd G (gsum (f k0) j) (fed_from m (S k0) f j)
    end.
  Definition fed_union (n : nat) (es : list ev) : grid :=
    fed_from n 0 (fun v => samples_of v (upto_last_exchange es)).
End ABF.

Definition Zgrp : GrpOps Z := mkGrpOps Z 0 Z.add Z.sub.

(* ------------------------------------------------------------------------------------------- *)
(* (a') OPES with multiple walkers (colvarbias_opes::update_opes): at a deposition step every walker    *)
(* contributes one kernel; heights, centres, sigmas and log-weights are gathered on replica 0 in rank   *)
(* order and broadcast; every walker then adds all the kernels in rank order.                           *)
(* ------------------------------------------------------------------------------------------- *)
Section OPES.
  Context {K : Type}.
  (* replica 0: all[0] := own; for p = 1..n-1: all[p] := received from p *)
  Definition opes_gather (contrib : list K) : list K := contrib.
  (* every walker: for k in all: addKernel(k) (compression off) *)
  Definition opes_round (contrib : list K) (ws : list (list K)) : list (list K) :=
    map (fun l => l ++ opes_gather contrib) ws.
  Definition opes_run (rounds : list (list K)) (n : nat) : list (list K) :=
    fold_left (fun ws c => opes_round c ws) rounds (repeat [] n).
End OPES.

(* the sums of weights that normalise the OPES bias: at a deposition step every walker contributes the weight of
   its new kernel; replica 0 adds the contributions of replicas 1, 2, .. to its own in this order and sends the
   total to everybody; every walker adds the total to its running sum (the same code runs for the sum of the
   squared weights) *)
Definition opes_sum_round {A : Type} (G : GrpOps A) (s : A) (hs : list A) : A :=
  match hs with
  | [] => s
  | h0 :: others => gadd G s (fold_left (gadd G) others h0)
  end.
Definition opes_sums {A : Type} (G : GrpOps A) (s : A) (rounds : list (list A)) : A :=
  fold_left (opes_sum_round G) rounds s.

(* ------------------------------------------------------------------------------------------- *)
(* (b) file-based multiple-walker metadynamics: one writer, one reader                          *)
(* ------------------------------------------------------------------------------------------- *)

Record hill := mkHill { hit : Z; hpay : Z }.     (* step of deposition, payload (centre / weight id) *)

Definition hill_eqb (a b : hill) : bool := (hit a =? hit b) && (hpay a =? hpay b).

(* the state file of a replica: the step it was written at and every hill deposited until then
   (as grid data; hills kept explicitly in the file carry steps <= that step and are skipped on reading) *)
Record sfile := mkSF { sf_step : Z; sf_hills : list hill }.

Record writer := mkWr {
  w_D : list hill;       (* everything this walker has deposited (its own hills list and grids) *)
  w_reg : bool;          (* setup_output() done: record in the registry, list file written *)
  w_name : Z;            (* output prefix generation = the names of state file and hills file in the list file *)
  w_state : sfile;       (* content of the state file of that name (written to .tmp, then renamed) *)
  w_file : list hill;    (* records written to the hills file of that name since it was (re)opened *)
  w_vis : Z;             (* how many complete records of that file a reader finds (any prefix) *)
  w_lost : list hill;    (* records of a hills file that has just been removed and that the state file in place does
                            not cover yet (between the two halves of write_state_to_replicas); nobody can read them *)
  w_sok : bool;          (* the state file is completely visible to a reader (false: it sees a proper prefix of it) *)
  w_rv : Z;              (* what a reader finds of this walker's record in the registry: 0 nothing, 2 all of it, anything
                            else a record cut inside the name of the list file *)
  w_lv : Z               (* ... and of its list file: 0 nothing usable (absent, or cut before the end of the state file
                            name), 2 all of it, anything else = the state file name and a hills file name cut short
                            (different values: cut at different places) *)
}.

Definition wr_init : writer := mkWr [] false 0 (mkSF 0 []) [] 0 [] true 2 2.

(* update_bias(): add_hill + write_hill to the replica hills file (buffered) *)
Definition wr_deposit (w : writer) (h : hill) : writer :=
  mkWr (w_D w ++ [h]) (w_reg w) (w_name w) (w_state w) (w_file w ++ [h]) (w_vis w) (w_lost w) (w_sok w) (w_rv w) (w_lv w).

(* what a reader sees of the hills file: flushes, page write-back, network file systems... any prefix *)
Definition wr_vis (w : writer) (c : Z) : writer :=
  mkWr (w_D w) (w_reg w) (w_name w) (w_state w) (w_file w)
       (Z.max 0 (Z.min c (Z.of_nat (length (w_file w))))) (w_lost w) (w_sok w) (w_rv w) (w_lv w).

(* ... of the registry record and of the list file of this walker *)
Definition wr_rvis (w : writer) (k : Z) : writer :=
  mkWr (w_D w) (w_reg w) (w_name w) (w_state w) (w_file w) (w_vis w) (w_lost w) (w_sok w) k (w_lv w).
Definition wr_lvis (w : writer) (k : Z) : writer :=
  mkWr (w_D w) (w_reg w) (w_name w) (w_state w) (w_file w) (w_vis w) (w_lost w) (w_sok w) (w_rv w) k.

(* ... and of the state file: all of it, or a proper prefix *)
Definition wr_svis (w : writer) (b : bool) : writer :=
  mkWr (w_D w) (w_reg w) (w_name w) (w_state w) (w_file w) (w_vis w) (w_lost w) b (w_rv w) (w_lv w).

(* read_hill_template_(): a record with h_it < state_file_step is parsed and dropped (<= before repair 11) *)
Definition keep (S : Z) (h : hill) : bool := S <=? hit h.

(* write_state_to_replicas() as one event: the hills file is restarted and the state file written *)
Definition wr_state (w : writer) (S : Z) : writer :=
  mkWr (w_D w) (w_reg w) (w_name w) (mkSF S (w_D w)) [] 0 [] true (w_rv w) (w_lv w).

(* its two halves, as a reader on another machine may find them.
   (b) reopen_replica_buffer_file(): the hills file is removed and created again; what it held and the state
       file in place does not cover is, for the moment, nowhere on disk;
   (a) write_replica_state_file(): the state file is renamed into place.
   Since repair 8 the code runs (b) then (a); before, (a) then (b). *)
Definition wr_state_b (w : writer) : writer :=
  let f := w_lost w ++ w_file w in
  (* how many of these records the state file in place already holds (all of them in the old order, none in the new) *)
  let covered := (length (sf_hills (w_state w)) + length f - length (w_D w))%nat in
  mkWr (w_D w) (w_reg w) (w_name w) (w_state w) [] 0 (skipn covered f) (w_sok w) (w_rv w) (w_lv w).
Definition wr_state_a (w : writer) (S : Z) : writer :=
  mkWr (w_D w) (w_reg w) (w_name w) (mkSF S (w_D w)) (w_file w) (w_vis w) [] true (w_rv w) (w_lv w).

(* setup_output() at the start of a run (first one, restart, new output prefix): new hills file,
   state file, list file, record in the registry *)
Definition wr_setup (w : writer) (S : Z) (newname : bool) : writer :=
  mkWr (w_D w) true (if newname then w_name w + 1 else w_name w) (mkSF S (w_D w)) [] 0 [] true 2 2.

(* the mirror bias that a reader keeps for one peer (replicas[ir]) *)
Record mirror := mkM {
  m_name : option Z;     (* replica_state_file last taken from the list file ("" = None) *)
  m_sync : bool;         (* replica_state_file_in_sync *)
  m_has : bool;          (* has_data *)
  m_pos : Z;             (* replica_hills_file_pos, in records (all records of a replica have one length) *)
  m_S : Z;               (* state_file_step *)
  m_cont : list hill;    (* hills represented in the mirror: its grids plus its hills list *)
  m_lf : bool;           (* replica_list_file is the peer's list file (false: a name cut short, nothing can be read from it) *)
  m_hf : Z               (* replica_hills_file: 2 = the peer's hills file, 0 = none yet, anything else = a name cut short *)
}.

Definition m_new : mirror := mkM None false false 0 0 [] false 0.

Definition name_is (o : option Z) (n : Z) : bool :=
  match o with Some k => k =? n | None => false end.

(* records a .. b-1 of a file *)
Definition sub (l : list hill) (a b : Z) : list hill :=
  firstn (Z.to_nat (b - a)) (skipn (Z.to_nat a) l).

(* update_replicas_registry(): the record of the peer in the registry (a new one => a new mirror; the list file name
   is taken from the record at every update, repair 4) and the peer's list file (both file names are taken whenever
   either differs from what the mirror knows, repair 6; a new name schedules a reread).  Only what the mirror knows
   about file names changes here. *)
Definition share_names (w : writer) (om : option mirror) : option mirror :=
  (* the registry *)
  let om0 := if w_reg w && negb (w_rv w =? 0)
             then let m := match om with None => m_new | Some m => m end in
                  Some (mkM (m_name m) (m_sync m) (m_has m) (m_pos m) (m_S m) (m_cont m) (w_rv w =? 2) (m_hf m))
             else om in
  (* the list file of every replica already known *)
  match om0 with
  | None => None
  | Some m0 =>
      if m_lf m0 && negb (w_lv w =? 0) && negb (name_is (m_name m0) (w_name w) && (m_hf m0 =? w_lv w))
      then Some (mkM (Some (w_name w)) false (m_has m0) (m_pos m0) (m_S m0) (m_cont m0) (m_lf m0) (w_lv w))
      else Some m0
  end.

(* read_replica_files() for one peer.
   fix1: the read position is reset when the state file has been read (repair 1);
   fix2: a state file rewritten under the same name is noticed by its step number (repair 2).
   With both false this is the code as it was. *)
Definition share_read (fix1 fix2 : bool) (w : writer) (m1 : mirror) : mirror :=
  match m_name m1 with
  | None => m1           (* no state file name yet: "the state file of replica .. is currently undefined" *)
  | Some _ =>
  (* (repair 9) a state file that is not all there: nothing of this replica is read now *)
  if negb (w_sok w) then m1 else
  (* (repair 2) compare the step recorded in the state file *)
  let m2 := if fix2 && m_has m1 && m_sync m1 && negb (sf_step (w_state w) =? m_S m1)
            then mkM (m_name m1) false (m_has m1) (m_pos m1) (m_S m1) (m_cont m1) (m_lf m1) (m_hf m1) else m1 in
  (* (re)read the state file if necessary: grids replaced, hills list pruned *)
  let m3 := if negb (m_has m2) || negb (m_sync m2)
            then mkM (m_name m2) true true (if fix1 then 0 else m_pos m2)
                     (sf_step (w_state w)) (sf_hills (w_state w)) (m_lf m2) (m_hf m2)
            else m2 in
  (* read complete records of the hills file from the stored position -- if the mirror knows its name *)
  let c := w_vis w in
  if (m_hf m3 =? 2) && (m_pos m3 <=? c)
  then mkM (m_name m3) (m_sync m3) true c (m_S m3)
           (m_cont m3 ++ filter (keep (m_S m3)) (sub (w_file w) (m_pos m3) c)) (m_lf m3) (m_hf m3)
  else m3
  end.

(* One replica_share() of the reader as far as this peer is concerned. *)
Definition share (fix1 fix2 : bool) (w : writer) (om : option mirror) : option mirror :=
  match share_names w om with
  | None => None
  | Some m1 => Some (share_read fix1 fix2 w m1)
  end.

(* the reader writes its own state (write_state_to_replicas): every mirror is scheduled for a reread *)
Definition m_unsync (om : option mirror) : option mirror :=
  match om with
  | None => None
  | Some m => Some (mkM (m_name m) false (m_has m) (m_pos m) (m_S m) (m_cont m) (m_lf m) (m_hf m))
  end.

Inductive pev : Type :=
| PDeposit (h : hill)                (* writer deposits a hill *)
| PVis (c : Z)                       (* the first c complete records of the writer's hills file become what a reader sees *)
| PWState (St : Z)                   (* writer: write_state_to_replicas() at step S *)
| PWStateA (St : Z)                  (* writer: the half of it that renames the state file into place *)
| PWStateB                           (* writer: the half that removes the hills file and creates it again *)
| PSVis (b : bool)                   (* the reader sees all of the writer's state file (true) or a proper prefix *)
| PRVis (k : Z)                      (* ... of its record in the registry: 0 nothing, 2 all, else cut *)
| PLVis (k : Z)                      (* ... of its list file: 0 nothing usable, 2 all, else the hills file name cut *)
| PSetup (St : Z) (newname : bool)   (* writer: setup_output() at step S, possibly with a new output prefix *)
| RShare                             (* reader: replica_share() *)
| RWState                            (* reader: its own write_state_to_replicas() *)
| RRestart.                          (* reader: new process, mirrors gone *)

Definition pstate := (writer * option mirror)%type.

Definition pstep (fix1 fix2 : bool) (st : pstate) (e : pev) : pstate :=
  let (w, m) := st in
  match e with
  | PDeposit h => (wr_deposit w h, m)
  | PVis c => (wr_vis w c, m)
  | PWState s => (wr_state w s, m)
  | PWStateA s => (wr_state_a w s, m)
  | PWStateB => (wr_state_b w, m)
  | PSVis b => (wr_svis w b, m)
  | PRVis k => (wr_rvis w k, m)
  | PLVis k => (wr_lvis w k, m)
  | PSetup s nn => (wr_setup w s nn, m)
  | RShare => (w, share fix1 fix2 w m)
  | RWState => (w, m_unsync m)
  | RRestart => (w, None)
  end.

Definition prun (fix1 fix2 : bool) (es : list pev) (st : pstate) : pstate :=
  fold_left (pstep fix1 fix2) es st.

Definition pinit : pstate := (wr_init, None).

(* every record of the hills file is later than the state file (false only in the old protocol, between the
   renaming of the state file and the restart of the hills file) *)
Definition file_fresh (w : writer) : bool :=
  forallb (fun h => sf_step (w_state w) <=? hit h) (w_file w).

Definition is_nil (l : list hill) : bool := match l with [] => true | _ => false end.

(* a state file written at step s: not before the state file in place nor before any hill, and at a later step than
   the state file in place unless nothing was deposited since (two state files with the same step hold the same) *)
Definition steps_ok (w : writer) (s : Z) : bool :=
  (sf_step (w_state w) <=? s) && forallb (fun x => hit x <=? s) (w_D w) &&
  ((sf_step (w_state w) <? s) || (is_nil (w_lost w) && is_nil (w_file w))).

(* What is assumed of a trace: facts about how a walker numbers its own steps and orders its own actions.
   A hill is deposited at a step not before the state file in place (at the same step: stepZeroData at the first
   step of a run), and not in the middle of a state-file rewrite; a state file is written at a step not before any
   hill in it and after the previous state file (or at the same step with nothing deposited in between).
   proto = true: write_state_to_replicas() restarts the hills file first and then renames the state file
   (PWStateB, PWStateA; the code since repair 8); proto = false: the other way round (the code before).
   NOTHING is assumed of the reader: it may exchange at any moment, also between the two halves. *)
Definition ev_ok (proto : bool) (w : writer) (e : pev) : bool :=
  match e with
  | PDeposit h => is_nil (w_lost w) && file_fresh w && (sf_step (w_state w) <=? hit h)
  | PWState s | PSetup s _ => is_nil (w_lost w) && file_fresh w && steps_ok w s
  | PWStateB => if proto then file_fresh w else negb (file_fresh w) || is_nil (w_file w)
  | PWStateA s => if proto then is_nil (w_file w) && steps_ok w s
                  else is_nil (w_lost w) && file_fresh w && steps_ok w s
  | _ => true
  end.

Fixpoint trace_ok (proto fix1 fix2 : bool) (es : list pev) (st : pstate) : bool :=
  match es with
  | [] => true
  | e :: tl => ev_ok proto (fst st) e && trace_ok proto fix1 fix2 tl (pstep fix1 fix2 st e)
  end.

(* l1 is a prefix of l2 *)
Fixpoint prefixb (l1 l2 : list hill) : bool :=
  match l1, l2 with
  | [], _ => true
  | a :: t1, b :: t2 => hill_eqb a b && prefixb t1 t2
  | _ :: _, [] => false
  end.

(* everything of the peer that the reader can see: the state file and the visible records *)
Definition visible (w : writer) : list hill :=
  if w_sok w && (w_rv w =? 2) && (w_lv w =? 2) then sf_hills (w_state w) ++ firstn (Z.to_nat (w_vis w)) (w_file w) else [].

(* ------------------------------------------------------------------------------------------- *)
(* (c) n walkers, each both writer and reader of every other one                                *)
(* ------------------------------------------------------------------------------------------- *)

(* a walker: what it leaves in the file system, and its mirror biases indexed by the peer's number
   (its own slot is never used) *)
Record wk := mkWk { k_w : writer; k_m : list (option mirror) }.
Definition sys := list wk.

Inductive sev : Type :=
| SDeposit (i : nat) (h : hill)
| SVis (i : nat) (c : Z)
| SSVis (i : nat) (b : bool)
| SRVis (i : nat) (k : Z)
| SLVis (i : nat) (k : Z)
| SWState (i : nat) (St : Z)             (* write_state_to_replicas() of walker i as one event *)
| SWStateB (i : nat)                     (* its first half: hills file restarted *)
| SWStateA (i : nat) (St : Z)            (* its second half: state file renamed; mirrors of i scheduled for a reread *)
| SSetup (i : nat) (St : Z) (newname : bool)
| SShare (i : nat)                       (* replica_share() of walker i: every registered peer is read *)
| SRestart (i : nat).                    (* new process: the mirrors of walker i are gone *)

(* read_replica_files(): the loop over the peers; j = number of the peer at the head of the lists *)
Fixpoint share_all (i : nat) (ws : list writer) (j : nat) (ms : list (option mirror)) : list (option mirror) :=
  match ws, ms with
  | w :: wt, m :: mt => (if Nat.eqb j i then m else share true true w m) :: share_all i wt (S j) mt
  | _, _ => []
  end.

Definition on_writer (f : writer -> writer) (x : wk) : wk := mkWk (f (k_w x)) (k_m x).
Definition unsync_all (x : wk) : wk := mkWk (k_w x) (map m_unsync (k_m x)).

Definition sys_step (s : sys) (e : sev) : sys :=
  match e with
  | SDeposit i h => upd_nth i (on_writer (fun w => wr_deposit w h)) s
  | SVis i c => upd_nth i (on_writer (fun w => wr_vis w c)) s
  | SSVis i b => upd_nth i (on_writer (fun w => wr_svis w b)) s
  | SRVis i k => upd_nth i (on_writer (fun w => wr_rvis w k)) s
  | SLVis i k => upd_nth i (on_writer (fun w => wr_lvis w k)) s
  | SWState i t => upd_nth i (fun x => unsync_all (on_writer (fun w => wr_state w t) x)) s
  | SWStateB i => upd_nth i (on_writer wr_state_b) s
  | SWStateA i t => upd_nth i (fun x => unsync_all (on_writer (fun w => wr_state_a w t) x)) s
  | SSetup i t nn => upd_nth i (fun x => unsync_all (on_writer (fun w => wr_setup w t nn) x)) s
  | SShare i => upd_nth i (fun x => mkWk (k_w x) (share_all i (map k_w s) 0 (k_m x))) s
  | SRestart i => upd_nth i (fun x => mkWk (k_w x) (map (fun _ => None) (k_m x))) s
  end.

Definition sys_run (es : list sev) (s : sys) : sys := fold_left sys_step es s.
Definition sys_init (n : nat) : sys := repeat (mkWk wr_init (repeat None n)) n.

(* what walker r holds for walker p, together with what p has left in the file system *)
Definition pair_of (s : sys) (r p : nat) : pstate :=
  (k_w (nth p s (mkWk wr_init [])), nth p (k_m (nth r s (mkWk wr_init []))) None).

(* the events of the system as the pair (reader r, peer p) lives them *)
Definition pproj (r p : nat) (e : sev) : list pev :=
  match e with
  | SDeposit i h => if Nat.eqb i p then [PDeposit h] else []
  | SVis i c => if Nat.eqb i p then [PVis c] else []
  | SSVis i b => if Nat.eqb i p then [PSVis b] else []
  | SRVis i k => if Nat.eqb i p then [PRVis k] else []
  | SLVis i k => if Nat.eqb i p then [PLVis k] else []
  | SWState i t => (if Nat.eqb i p then [PWState t] else []) ++ (if Nat.eqb i r then [RWState] else [])
  | SWStateB i => if Nat.eqb i p then [PWStateB] else []
  | SWStateA i t => (if Nat.eqb i p then [PWStateA t] else []) ++ (if Nat.eqb i r then [RWState] else [])
  | SSetup i t nn => (if Nat.eqb i p then [PSetup t nn] else []) ++ (if Nat.eqb i r then [RWState] else [])
  | SShare i => if Nat.eqb i r then [RShare] else []
  | SRestart i => if Nat.eqb i r then [RRestart] else []
  end.

(* every walker follows the writer-side protocol: checked pair by pair on the projected traces *)
Definition sys_ok (n : nat) (es : list sev) : bool :=
  forallb (fun r => forallb (fun p => Nat.eqb r p || trace_ok true true true (flat_map (pproj r p) es) pinit)
                            (seq 0 n)) (seq 0 n).
