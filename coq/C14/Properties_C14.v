(* C14: multiple-walker sharing combines every walker's data exactly once (statements only; proofs in
   SharedProofs.v, models in SharedModel.v). *)
From Coq Require Import ZArith List Bool Permutation.
From CV Require Import C14.SharedModel C14.SharedProofs C14.StepProofs C14.SysProofs.
Import ListNotations.
Local Open Scope Z_scope.

(* ---- shared ABF.  A trace is any interleaving of samples of any walker, exchange rounds and restarts of
   any walker (restarts anywhere, not only at exchange boundaries); n walkers, n arbitrary; grid values in
   any commutative monoid with (a+b)-a = b (counts: Z; gradient sums: numbers). *)

(* After every exchange round, every walker's global grid (and its snapshot) holds, at every address,
   the sum over all walkers of all samples they were fed up to this exchange, each exactly once. *)
Theorem C14_abf_union_once : forall (A : Type) (G : GrpOps A), GrpLaws G ->
  forall (n : nat) (es : list (ev (A:=A))) (t : Z) (k : nat) (w : walker (A:=A)),
  nth_error (run G false (es ++ [EExchange t]) (init G n)) k = Some w ->
  forall i, wG w i = fed_union G n (es ++ [EExchange t]) i /\ wL w i = fed_union G n (es ++ [EExchange t]) i.
Proof. exact abf_union_once_fed. Qed.
Print Assumptions C14_abf_union_once.

(* At any moment of any trace: snapshot = the union up to the last exchange; global = that union plus the
   walker's own samples collected since; local = the walker's own samples up to the last exchange. *)
Theorem C14_abf_state_any_time : forall (A : Type) (G : GrpOps A), GrpLaws G ->
  forall (n : nat) (es : list (ev (A:=A))) (k : nat) (w : walker (A:=A)),
  nth_error (run G false es (init G n)) k = Some w ->
  exists su, nth_error (h_run es (h_init n)) k = Some su /\
    fst su = samples_of k (upto_last_exchange es) /\ fst su ++ snd su = samples_of k es /\
    forall i, wL w i = fed_union G n es i /\
              wG w i = gadd G (fed_union G n es i) (gsum G (snd su) i) /\
              wLoc w i = gsum G (fst su) i.
Proof. exact abf_state_any_time. Qed.
Print Assumptions C14_abf_state_any_time.

(* Each walker's own contribution stays separately recoverable: the local grid holds exactly its own
   samples up to the last exchange, and local + (global - snapshot) exactly all its own samples. *)
Theorem C14_abf_local_recoverable : forall (A : Type) (G : GrpOps A), GrpLaws G ->
  forall (n : nat) (es : list (ev (A:=A))) (k : nat) (w : walker (A:=A)),
  nth_error (run G false es (init G n)) k = Some w ->
  forall i, wLoc w i = gsum G (samples_of k (upto_last_exchange es)) i /\
            gadd G (wLoc w i) (gsub G (wG w i) (wL w i)) = gsum G (samples_of k es) i.
Proof. exact @abf_local_recoverable. Qed.
Print Assumptions C14_abf_local_recoverable.

(* The order in which the deltas of the other replicas reach replica 0 does not matter. *)
Theorem C14_abf_order_of_sends : forall (A : Type) (G : GrpOps A), GrpLaws G ->
  forall (r : walker (A:=A)) ms ms' j, Permutation ms ms' ->
  wG (root_collect G r ms) j = wG (root_collect G r ms') j.
Proof. exact @root_collect_order. Qed.
Print Assumptions C14_abf_order_of_sends.

(* CZAR gather on replica 0: the sum of the z grids of all walkers, each once. *)
Theorem C14_abf_czar_gather : forall (A : Type) (G : GrpOps A), GrpLaws G ->
  forall (zs : list (grid (A:=A))) j, czar_gather G zs j = msum G zs j.
Proof. exact @czar_gather_sum. Qed.
Print Assumptions C14_abf_czar_gather.

(* replica_share_CZAR() runs between exchanges (from write_output_files): it must leave global, snapshot and local
   grids and the z grids of every walker untouched, whatever they hold; only replica 0's gathered grids change,
   to the sum of all z grids. *)
Theorem C14_abf_czar_gather_frame : forall (A : Type) (G : GrpOps A), GrpLaws G -> forall (ws : list (ewalker (A:=A))),
  map e_w (czar_gather_step G ws) = map e_w ws /\ map e_z (czar_gather_step G ws) = map e_z ws /\
  (forall r others j, ws = r :: others ->
     exists r', czar_gather_step G ws = r' :: others /\ e_gz r' j = msum G (map e_z ws) j).
Proof. exact @czar_gather_frame. Qed.
Print Assumptions C14_abf_czar_gather_frame.

(* write_output_files() performs the gather at EVERY output: after any number of gathers replica 0 holds what it
   holds after one (every walker's z data once), and -- by the frame theorem -- nobody's own grids have moved. *)
Theorem C14_abf_czar_gather_repeated : forall (A : Type) (G : GrpOps A) (k : nat) (ws : list (ewalker (A:=A))),
  Nat.iter (S k) (czar_gather_step G) ws = czar_gather_step G ws.
Proof. exact @czar_gather_repeated. Qed.
Print Assumptions C14_abf_czar_gather_repeated.

(* The job is stopped and started again (every eABF walker through its state file: ew_restart keeps the three grids
   of shared ABF and the z grids): the next gather gives replica 0 the sum of the z grids from before the restart. *)
Theorem C14_abf_czar_gather_after_restarts : forall (A : Type) (G : GrpOps A), GrpLaws G ->
  forall t (ws : list (ewalker (A:=A))) j r others,
  czar_gather_step G (map (ew_restart t) ws) = r :: others -> e_gz r j = msum G (map e_z ws) j.
Proof. exact @czar_gather_after_restarts. Qed.
Print Assumptions C14_abf_czar_gather_after_restarts.

(* Sharing enabled by a script ("cv bias <name> share", no "shared on" in the configuration) is the same exchange at
   the steps the script chooses: C14_abf_union_once quantifies over EExchange ANYWHERE in the trace, share_due is only
   what update() uses when a frequency is configured.  Two things were particular to that way of enabling it, and
   wrong before the repairs of round 4:
   (1) the gather wrote into replica 0's own z grids (czar_gather_step_alias): two outputs in a row leave replica 0
       with walker 1's sample twice, in its own z grid and in the gathered one; *)
Theorem C14_abf_czar_gather_alias_refuted :
  exists r others, czar_gather_step_alias Zgrp (czar_gather_step_alias Zgrp czar_alias_witness) = r :: others /\
    e_z r 1 = 2 /\ e_gz r 1 = 2 /\ msum Zgrp (map e_z czar_alias_witness) 1 = 1.
Proof. exact czar_alias_refuted. Qed.
Print Assumptions C14_abf_czar_gather_alias_refuted.

(* (2) the restarted run did not read the local_*/last_* sections of its own state (w_restart_unshared): two walkers,
       one sample each, exchange, both restarted, exchange again without any new sample: replica 0 holds 4, fed were 2. *)
Theorem C14_abf_script_restart_before_repair_refuted :
  exists w, nth_error (exchange Zgrp 2 (map (w_restart_unshared Zgrp 1) (run Zgrp false script_restart_witness (init Zgrp 2)))) 0 = Some w /\
    wG w 0 = 4 /\ fed_union Zgrp 2 (script_restart_witness ++ [EExchange 2]) 0 = 2.
Proof. exact script_restart_refuted. Qed.
Print Assumptions C14_abf_script_restart_before_repair_refuted.

(* A round that does not complete: a peer is dead, absent or too slow and a blocking call inside replica_share() fails,
   at any point of the round.  replica_share() is a transaction: every walker either completes the round or is exactly
   as before the call (which walkers do depends on where the failure happens; the statement holds for EVERY assignment
   of outcomes), and in both cases what the walker has sampled itself -- local + (global - snapshot) -- is untouched. *)
Theorem C14_abf_exchange_transaction : forall (A : Type) (G : GrpOps A), GrpLaws G ->
  forall t oc (ws : list (walker (A:=A))) k w w',
  nth_error ws k = Some w -> nth_error (exchange_partial G t oc ws) k = Some w' ->
  (w' = w \/ nth_error (exchange G t ws) k = Some w') /\ forall i, own_data G w' i = own_data G w i.
Proof. exact @exchange_transaction. Qed.
Print Assumptions C14_abf_exchange_transaction.

(* a round in which every walker gives up leaves every grid of every walker as it was *)
Theorem C14_abf_exchange_all_aborted : forall (A : Type) (G : GrpOps A) t (ws : list (walker (A:=A))),
  exchange_partial G t (repeat Aborted (length ws)) ws = ws.
Proof. exact @exchange_all_aborted. Qed.
Print Assumptions C14_abf_exchange_all_aborted.

(* replica_share() as it was: replica 0 returned from a failed receive with the deltas of the lower ranks added to its
   global grid, its own delta added to the local grid and a delta in the snapshot grid (root_fail_old). *)
Theorem C14_abf_peer_death_before_repair_refuted :
  exists r w, nth_error (run Zgrp false peer_death_witness (init Zgrp 3)) 0 = Some w /\
    root_fail_old Zgrp 1 (run Zgrp false peer_death_witness (init Zgrp 3)) = Some r /\
    own_data Zgrp w 0 = 2 /\ own_data Zgrp r 0 <> 2.
Proof. exact peer_death_old_refuted. Qed.
Print Assumptions C14_abf_peer_death_before_repair_refuted.

(* Walkers that all read the same data I through inputPrefix (w_init_input: recorded as exchanged already) and exchange:
   everybody holds I, once, however many walkers there are ... *)
Theorem C14_abf_input_once : forall (A : Type) (G : GrpOps A), GrpLaws G ->
  forall (I : grid (A:=A)) t t' (n : nat) k w,
  nth_error (exchange G t' (repeat (w_init_input G I t) n)) k = Some w -> forall j, wG w j = I j /\ wL w j = I j.
Proof. exact @input_once. Qed.
Print Assumptions C14_abf_input_once.

(* ... which failed when sharing was enabled by a script (snapshot empty: w_init_input_old): two walkers, one input
   sample: 2 after the exchange. *)
Theorem C14_abf_input_before_repair_refuted :
  exists w, nth_error (exchange Zgrp 1 (repeat (w_init_input_old Zgrp (one_at 0) 0) 2)) 0 = Some w /\ wG w 0 = 2.
Proof. exact input_old_refuted. Qed.
Print Assumptions C14_abf_input_before_repair_refuted.

(* A restart through a state file of the repaired code (last_* saved) is the identity on the three grids, at any
   point of a run -- which is why C14_abf_union_once and C14_abf_interleavings_union_once quantify over traces with
   ERestart / ARestart ANYWHERE, not only at exchange boundaries. *)
Theorem C14_abf_restart_identity : forall (A : Type) t (w : walker (A:=A)),
  wG (w_restart t w) = wG w /\ wL (w_restart t w) = wL w /\ wLoc (w_restart t w) = wLoc w.
Proof. exact @restart_identity. Qed.
Print Assumptions C14_abf_restart_identity.

(* Walkers that hold the same shared_last_step agree on which steps are exchange steps, and an exchange
   leaves all of them with the same shared_last_step (no walker waits for a round the others skip). *)
Theorem C14_abf_exchange_points_agree : forall (A : Type) (G : GrpOps A) freq t t' (ws : list (walker (A:=A))) w w',
  In w (exchange G t ws) -> In w' (exchange G t ws) -> share_due freq t' w = share_due freq t' w'.
Proof. exact abf_exchange_points_agree. Qed.
Print Assumptions C14_abf_exchange_points_agree.

(* The exchange round is not atomic in the code: every replica runs replica_share() at its own pace between
   blocking receives and a barrier.  The protocol in small steps (SharedModel.sstep: a replica enters, replica 0
   receives the deltas of 1, 2, .. in this order as they arrive, sends the combined grid, the others receive it,
   the barrier opens; walkers outside the exchange go on sampling and restarting) refines the atomic round:
   EVERY execution that the blocking calls allow and that ends with all replicas outside replica_share()
   leaves the walkers exactly as the atomic model does on the projected trace (no law on the values needed). *)
Theorem C14_abf_interleavings_refine : forall (A : Type) (G : GrpOps A) (n : nat) (acts : list (act (A:=A))) (s : net (A:=A)),
  (1 <= n)%nat -> srun G acts (sinit G n) = Some s -> all_idle s = true ->
  walkers_of s = run G false (project acts) (init G n).
Proof. exact @interleavings_refine. Qed.
Print Assumptions C14_abf_interleavings_refine.

(* ... hence union-exactly-once for every such execution: when the barrier of a round opens, every walker
   holds the sum of all samples all walkers were fed before entering that round, each exactly once. *)
Theorem C14_abf_interleavings_union_once : forall (A : Type) (G : GrpOps A), GrpLaws G ->
  forall n acts t s k (w : walker (A:=A)), (1 <= n)%nat ->
  srun G (acts ++ [AFinish t]) (sinit G n) = Some s ->
  nth_error (walkers_of s) k = Some w ->
  forall i, wG w i = fed_union G n (project (acts ++ [AFinish t])) i /\
            wL w i = fed_union G n (project (acts ++ [AFinish t])) i.
Proof. exact interleavings_union_once. Qed.
Print Assumptions C14_abf_interleavings_union_once.

(* OPES with multiple walkers: after every deposition round all walkers hold the same kernel list, the
   concatenation in rank order of what each walker contributed in each round (kernel compression off). *)
Theorem C14_opes_same_list : forall (K : Type) (rounds : list (list K)) (n k : nat) (l : list K),
  nth_error (opes_run rounds n) k = Some l -> l = concat rounds.
Proof. exact @opes_same_list. Qed.
Print Assumptions C14_opes_same_list.

(* Exactly once, by position: when every round has one kernel per walker (n of them, in rank order), the list that any
   walker holds has rounds*n entries, and entry r*n+p is the kernel walker p contributed in round r. *)
Theorem C14_opes_every_kernel_once : forall (K : Type) (rounds : list (list K)) (n k : nat) (l : list K),
  Forall (fun c => length c = n) rounds -> nth_error (opes_run rounds n) k = Some l ->
  length l = (length rounds * n)%nat /\
  forall r p c, nth_error rounds r = Some c -> (p < n)%nat -> nth_error l (r * n + p) = nth_error c p.
Proof. exact @opes_every_kernel_once. Qed.
Print Assumptions C14_opes_every_kernel_once.

(* ... and the sums of weights that normalise the bias (sum of weights, sum of squared weights; neff, rct and the
   kernel normalisation are functions of them and of the common counter): the running sum that every walker holds
   is its initial value plus every contribution of every walker of every round, each exactly once. *)
Theorem C14_opes_sums_total : forall (A : Type) (G : GrpOps A), GrpLaws G ->
  forall (rounds : list (list A)) (s : A), opes_sums G s rounds = fold_left (gadd G) (concat rounds) s.
Proof. exact opes_sums_total. Qed.
Print Assumptions C14_opes_sums_total.

(* The code before the repair of read_state_data (last := G on restart) violated the statement:
   C14_abf_union_once with `run G true`:  a sample collected after the last exchange is lost by a restart. *)
Theorem C14_abf_union_once_before_repair_refuted :
  exists es : list (ev (A:=Z)), exists w, nth_error (run Zgrp true es (init Zgrp 2)) 1 = Some w /\
    wG w 0 <> union_shared Zgrp (h_run es (h_init 2)) 0.
Proof. exact abf_old_refuted. Qed.
Print Assumptions C14_abf_union_once_before_repair_refuted.

(* ---- file-based multiple-walker metadynamics: one peer (writer) and one reader; a trace is any
   interleaving of the peer's deposits, of what the reader can see of the peer's hills file (any prefix) and of
   its state file (all of it, or a proper prefix), of its record in the registry and of its list file (nothing, all,
   or cut inside a file name: PRVis, PLVis), of the peer's state-file rewrites -- as one event or as their
   two halves, hills file restarted (PWStateB) then state file renamed (PWStateA) -- and restarts (with or
   without a new output prefix), and of the reader's exchanges, own state-file writes and restarts.
   trace_ok true = the peer numbers its own steps sensibly (hills not before the state file in place; state files
   not earlier than their hills, and later than the previous one unless nothing was deposited in between) and
   performs the two halves in the order of the repaired code.
   NOTHING is assumed of the reader: it may exchange at any moment, also between the two halves. *)

(* Whatever the interleaving: the hills the reader holds for the peer are a prefix of the peer's deposited
   sequence (no loss inside, no duplicate, in order); and right after each exchange of the reader with a
   registered peer whose registry record and list file are all there, everything visible of the peer (state file,
   if all of it is visible, + complete visible records) is in it -- whatever was half-written before; a partly
   visible state file leaves what the reader holds untouched.  (The first part holds with any registry record and
   list file: a name cut short only means that nothing can be read.) *)
Theorem C14_meta_prefix :
  (forall es w m, trace_ok true true true es pinit = true ->
     prun true true es pinit = (w, Some m) -> prefix (m_cont m) (w_D w)) /\
  (forall es w om, trace_ok true true true (es ++ [RShare]) pinit = true ->
     prun true true (es ++ [RShare]) pinit = (w, om) -> w_reg w = true -> w_rv w = 2 -> w_lv w = 2 ->
     exists m, om = Some m /\ prefix (visible w) (m_cont m) /\ prefix (m_cont m) (w_D w) /\
               (w_sok w = true -> m_sync m = true) /\
               (w_sok w = false -> m_cont m = cont_of (prun true true es pinit))).
Proof. exact meta_prefix_both. Qed.
Print Assumptions C14_meta_prefix.

(* ANY number of walkers, each writing its own files and reading those of all the others (sys_step: the loop of
   read_replica_files over the peers; a state-file write of a walker also schedules its own mirrors for a reread).
   Seen by any ordered pair (reader r, peer p) the system is the one-writer/one-reader system on the projected
   trace, so for every interleaving of all walkers' events and every pair: what r holds for p is a prefix of what p
   deposited, and after an exchange of r everything visible of p is in it. *)
Theorem C14_meta_all_walkers_projection : forall n es s r p, wfs n s -> (r < n)%nat -> (p < n)%nat -> r <> p ->
  pair_of (sys_run es s) r p = prun true true (flat_map (pproj r p) es) (pair_of s r p).
Proof. exact pair_run. Qed.
Print Assumptions C14_meta_all_walkers_projection.

Theorem C14_meta_all_walkers_prefix : forall n es r p m, sys_ok n es = true -> (r < n)%nat -> (p < n)%nat -> r <> p ->
  snd (pair_of (sys_run es (sys_init n)) r p) = Some m ->
  prefix (m_cont m) (w_D (fst (pair_of (sys_run es (sys_init n)) r p))).
Proof. exact sys_prefix. Qed.
Print Assumptions C14_meta_all_walkers_prefix.

Theorem C14_meta_all_walkers_complete : forall n es r p, sys_ok n (es ++ [SShare r]) = true -> (r < n)%nat -> (p < n)%nat -> r <> p ->
  let st := pair_of (sys_run (es ++ [SShare r]) (sys_init n)) r p in
  w_reg (fst st) = true -> w_rv (fst st) = 2 -> w_lv (fst st) = 2 ->
  exists m, snd st = Some m /\ prefix (visible (fst st)) (m_cont m) /\ prefix (m_cont m) (w_D (fst st)).
Proof. exact sys_share_complete. Qed.
Print Assumptions C14_meta_all_walkers_complete.

(* A peer's (re)read state file replaces, never adds to, what was read before: for ANY previous mirror
   content and read position the result is the state file plus the visible later records. *)
Theorem C14_meta_restart : forall w m k0, m_name m = Some k0 -> m_hf m = 2 -> w_sok w = true ->
  (m_sync m = false \/ m_has m = false \/ (m_S m <> sf_step (w_state w) /\ m_has m = true)) ->
  let m' := share_read true true w m in
    m_cont m' = sf_hills (w_state w) ++
                filter (keep (sf_step (w_state w))) (firstn (Z.to_nat (w_vis w)) (w_file w)) /\
    m_S m' = sf_step (w_state w) /\ m_pos m' = Z.max 0 (w_vis w).
Proof. exact meta_state_replaces. Qed.
Print Assumptions C14_meta_restart.

(* The writer's own hills change only by its own deposits, whatever any reader does. *)
Theorem C14_meta_own_untouched : forall f1 f2 st e,
  match e with
  | PDeposit h => w_D (fst (pstep f1 f2 st e)) = w_D (fst st) ++ [h]
  | _ => w_D (fst (pstep f1 f2 st e)) = w_D (fst st)
  end.
Proof. exact meta_own_untouched. Qed.
Print Assumptions C14_meta_own_untouched.

(* The code before the two repairs of read_replica_files violated C14_meta_prefix:
   (1) read position not reset after rereading a state file; (2) state file rewritten under the same name
   not noticed. *)
Theorem C14_meta_prefix_before_repair1_refuted : exists es, trace_ok true false false es pinit = true /\
  prefixb (cont_of (prun false false es pinit)) (w_D (fst (prun false false es pinit))) = false.
Proof. exact meta_old1_refuted. Qed.
Print Assumptions C14_meta_prefix_before_repair1_refuted.

Theorem C14_meta_prefix_before_repair2_refuted : exists es, trace_ok true true false es pinit = true /\
  prefixb (cont_of (prun true false es pinit)) (w_D (fst (prun true false es pinit))) = false.
Proof. exact meta_old2_refuted. Qed.
Print Assumptions C14_meta_prefix_before_repair2_refuted.

(* With the two halves in the order the code used before repair 8 (trace_ok false: state file renamed, then
   hills file restarted) C14_meta_prefix is false even with the other repairs: a reader that exchanges between
   the two later reads the new hills file from the position reached in the old one. *)
Theorem C14_meta_prefix_old_order_refuted : exists es, trace_ok false true true es pinit = true /\
  prefixb (cont_of (prun true true es pinit)) (w_D (fst (prun true true es pinit))) = false.
Proof. exact meta_old_order_refuted. Qed.
Print Assumptions C14_meta_prefix_old_order_refuted.

(* ---- non-vacuity of the premises *)
Example C14_ex_group : GrpLaws Zgrp.
Proof. exact Zgrp_laws. Qed.

Example C14_ex_abf : exists w, nth_error (run Zgrp false ([ESample 0%nat 1 5; ESample 1%nat 1 7; ERestart 1%nat 1] ++ [EExchange 2]) (init Zgrp 2)) 1 = Some w
  /\ wG w 1 = 12 /\ wLoc w 1 = 7 /\ fed_union Zgrp 2 ([ESample 0%nat 1 5; ESample 1%nat 1 7; ERestart 1%nat 1] ++ [EExchange 2]) 1 = 12.
Proof. eexists. split; [reflexivity|]. vm_compute. auto. Qed.

Example C14_ex_meta : trace_ok true true true (meta_w1 ++ [RShare]) pinit = true /\
  w_reg (fst (prun true true (meta_w1 ++ [RShare]) pinit)) = true /\
  cont_of (prun true true meta_w1 pinit) = [H 1; H 2; H 3; H 4; H 5].
Proof. vm_compute. auto. Qed.

(* the scenario of the old-order witness with the halves in the repaired order: the reader exchanges between
   them and nothing is lost; and a trace in which the state file is partly visible at an exchange *)
Example C14_ex_meta_two_stage : trace_ok true true true meta_w3_new pinit = true /\
  cont_of (prun true true meta_w3_new pinit) = [H 1; H 2; H 3; H 4; H 5].
Proof. exact meta_w3_new_ok. Qed.

Example C14_ex_meta_partial_state :
  trace_ok true true true [PSetup 0 false; PDeposit (H 1); PVis 1; RShare; PWState 1; PDeposit (H 2); PVis 1; PSVis false; RShare] pinit = true /\
  cont_of (prun true true [PSetup 0 false; PDeposit (H 1); PVis 1; RShare; PWState 1; PDeposit (H 2); PVis 1; PSVis false; RShare] pinit) = [H 1] /\
  cont_of (prun true true [PSetup 0 false; PDeposit (H 1); PVis 1; RShare; PWState 1; PDeposit (H 2); PVis 1; PSVis false; RShare; PSVis true; RShare] pinit) = [H 1; H 2].
Proof. vm_compute. auto. Qed.

Example C14_ex_all_walkers : sys_ok 3 ex_sys = true /\
  map (fun rp => cont_of (pair_of (sys_run ex_sys (sys_init 3)) (fst rp) (snd rp))) [(1, 0); (2, 0); (0, 2); (2, 1)]%nat
  = [[H 1; H 3]; [H 1; H 3]; [H 2]; [H 1]].
Proof. exact ex_sys_ok. Qed.

(* stepZeroData: a hill deposited at the very step of the state file that setup_output has just written *)
Example C14_ex_meta_step_zero_hill :
  trace_ok true true true [PSetup 4 false; PDeposit (H 4); PVis 1; RShare] pinit = true /\
  cont_of (prun true true [PSetup 4 false; PDeposit (H 4); PVis 1; RShare] pinit) = [H 4].
Proof. vm_compute. auto. Qed.

Example C14_ex_meta_restart : let w := fst (prun true true meta_w2 pinit) in
  w_reg w = true /\ w_sok w = true /\ w_rv w = 2 /\ w_lv w = 2 /\
  exists m, m_name m = Some 0 /\ m_hf m = 2 /\ m_sync m = false.
Proof. repeat (split; [vm_compute; reflexivity|]). exists (mkM (Some 0) false false 0 0 [] true 2). auto. Qed.

(* half-written registry record and list file: nothing is read until they are complete, then everything is *)
Example C14_ex_meta_half_written_names :
  let t1 := [PSetup 0 false; PDeposit (H 1); PVis 1; PRVis 7; RShare] in
  let t2 := t1 ++ [PRVis 2; PLVis 5; RShare] in
  let t3 := t2 ++ [PLVis 2; RShare] in
  trace_ok true true true t3 pinit = true /\
  cont_of (prun true true t1 pinit) = [] /\ cont_of (prun true true t2 pinit) = [] /\ cont_of (prun true true t3 pinit) = [H 1].
Proof. vm_compute. auto. Qed.

(* a 3-walker execution in which walker 1 enters the round first and walkers 0 and 2 go on sampling meanwhile *)
Example C14_ex_interleaving : match srun Zgrp ex_acts (sinit Zgrp 3) with
  | Some s => all_idle s = true /\ map (fun w => (wG w 0, wG w 1)) (walkers_of s) = [(7, 5); (7, 6); (7, 5)]
  | None => False end.
Proof. exact ex_acts_run. Qed.

Example C14_ex_opes : nth_error (opes_run [[1; 2]; [3; 4]] 2) 1 = Some [1; 2; 3; 4].
Proof. reflexivity. Qed.

(* the premise of C14_abf_interleavings_union_once: an accepted execution that ends with the barrier of a round *)
Example C14_ex_interleaving_round : exists s, srun Zgrp (firstn 11 ex_acts ++ [AFinish 2]) (sinit Zgrp 3) = Some s.
Proof. eexists. vm_compute. reflexivity. Qed.

Example C14_ex_exchange_agree : exists w, In w (exchange Zgrp 4 (init Zgrp 3)).
Proof. eexists. left. reflexivity. Qed.
