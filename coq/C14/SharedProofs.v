(* C14: proofs about the models of SharedModel.v. *)
From Coq Require Import ZArith List Bool Lia Permutation Arith.
From CV Require Import C14.SharedModel.
Import ListNotations.
Local Open Scope Z_scope.

(* ------------------------------------------------------------------------------------------- *)
(* (a) shared ABF                                                                               *)
(* ------------------------------------------------------------------------------------------- *)

(* what is assumed of the values stored in a grid: a commutative monoid in which (a + b) - a = b *)
Record GrpLaws {A : Type} (G : GrpOps A) : Prop := mkGrpLaws {
  gl_comm : forall a b, gadd G a b = gadd G b a;
  gl_assoc : forall a b c, gadd G (gadd G a b) c = gadd G a (gadd G b c);
  gl_0r : forall a, gadd G a (g0 G) = a;
  gl_sub : forall a b, gsub G (gadd G a b) a = b
}.

Lemma Zgrp_laws : GrpLaws Zgrp.
Proof. constructor; simpl; intros; lia. Qed.

Section ABFProofs.
  Context {A : Type} (G : GrpOps A) (HL : GrpLaws G).

  Notation "a ⊕ b" := (gadd G a b) (at level 50, left associativity).
  Notation W := (walker (A:=A)).
  Notation SU := (list (sample (A:=A)) * list (sample (A:=A)))%type.

  Lemma g0l : forall a, g0 G ⊕ a = a.
  Proof. intros a. rewrite (gl_comm G HL). apply (gl_0r G HL). Qed.

  Lemma swap4 : forall a b c d : A, (a ⊕ b) ⊕ (c ⊕ d) = (a ⊕ c) ⊕ (b ⊕ d).
  Proof.
    intros a b c d. rewrite !(gl_assoc G HL). f_equal.
    rewrite <- !(gl_assoc G HL). f_equal. apply (gl_comm G HL).
  Qed.

  Lemma gsum_app : forall l1 l2 j, gsum G (l1 ++ l2) j = gsum G l1 j ⊕ gsum G l2 j.
  Proof.
    induction l1 as [|[i a] tl IH]; intros l2 j.
    - cbn [app gsum]. unfold grid0. now rewrite g0l.
    - cbn [app gsum]. rewrite IH. now rewrite (gl_assoc G HL).
  Qed.

  Lemma gsum_one : forall i a j, gsum G [(i, a)] j = if Z.eqb j i then a else g0 G.
  Proof. intros i a j. cbn [gsum]. unfold grid0. apply (gl_0r G HL). Qed.

  (* ---- the invariant *)
  Definition winv (U : grid (A:=A)) (w : W) (su : SU) : Prop :=
    forall i, wLoc w i = gsum G (fst su) i /\ wL w i = U i /\ wG w i = U i ⊕ gsum G (snd su) i.

  Definition inv (ws : list W) (h : hist (A:=A)) : Prop :=
    Forall2 (winv (union_shared G h)) ws h.

  Lemma winv_ext : forall U U' w su, (forall i, U i = U' i) -> winv U w su -> winv U' w su.
  Proof.
    intros U U' w su HU H i. destruct (H i) as (H1 & H2 & H3). rewrite <- HU. auto.
  Qed.

  Lemma Forall2_winv_ext : forall U U' ws h, (forall i, U i = U' i) ->
    Forall2 (winv U) ws h -> Forall2 (winv U') ws h.
  Proof.
    intros U U' ws h HU H. induction H as [|w su ws h Hw _ IH]; constructor; auto.
    eapply winv_ext; eauto.
  Qed.

  (* a sample does not change what has been exchanged *)
  Lemma union_shared_sample : forall (h : hist (A:=A)) w i a j,
    union_shared G (upd_nth w (fun su => (fst su, snd su ++ [(i, a)])) h) j = union_shared G h j.
  Proof.
    induction h as [|su tl IH]; intros w i a j; [reflexivity|].
    destruct w as [|k]; cbn [upd_nth union_shared fst]; [reflexivity|]. now rewrite IH.
  Qed.

  Lemma Forall2_upd_nth : forall (P : W -> SU -> Prop) f g ws h n,
    Forall2 P ws h -> (forall w su, P w su -> P (f w) (g su)) ->
    Forall2 P (upd_nth n f ws) (upd_nth n g h).
  Proof.
    intros P f g ws h n H Hfg. revert n.
    induction H as [|w su ws h Hw Ht IH]; intros n; [constructor|].
    destruct n as [|k]; cbn [upd_nth]; constructor; auto.
  Qed.

  Lemma inv_sample : forall ws h w i a, inv ws h ->
    inv (upd_nth w (fun x => w_sample G x i a) ws) (upd_nth w (fun su => (fst su, snd su ++ [(i, a)])) h).
  Proof.
    intros ws h w i a H. unfold inv.
    apply Forall2_winv_ext with (U := union_shared G h).
    - intros j. symmetry. apply union_shared_sample.
    - apply Forall2_upd_nth; auto.
      intros x su Hx j. destruct (Hx j) as (H1 & H2 & H3).
      unfold w_sample; cbn [wLoc wL wG fst snd]. repeat split; auto.
      unfold grid_acc. rewrite gsum_app, gsum_one.
      destruct (Z.eqb j i).
      + rewrite H3. now rewrite (gl_assoc G HL).
      + rewrite (gl_0r G HL). exact H3.
  Qed.

  Lemma inv_restart : forall ws h w t, inv ws h -> inv (upd_nth w (w_restart t) ws) h.
  Proof.
    intros ws h w t H. unfold inv.
    replace h with (upd_nth w (fun su => su) h) at 2.
    - apply Forall2_upd_nth; auto.
    - clear. revert w. induction h as [|su tl IH]; intros [|k]; cbn [upd_nth]; auto. now rewrite IH.
  Qed.

  (* ---- the exchange round *)
  (* sum of the messages at one address, in the order replica 0 receives them *)
  Fixpoint msum (ms : list (grid (A:=A))) (j : Z) : A :=
    match ms with [] => g0 G | m :: tl => m j ⊕ msum tl j end.

  Lemma root_collect_G : forall ms r j, wG (root_collect G r ms) j = wG r j ⊕ msum ms j.
  Proof.
    induction ms as [|m tl IH]; intros r j; cbn [root_collect msum].
    - now rewrite (gl_0r G HL).
    - rewrite IH. cbn [wG]. unfold grid_add. now rewrite (gl_assoc G HL).
  Qed.

  Lemma root_collect_Loc : forall ms r, wLoc (root_collect G r ms) = wLoc r.
  Proof. induction ms as [|m tl IH]; intros r; cbn [root_collect]; auto. now rewrite IH. Qed.

  (* the order in which the deltas reach replica 0 does not matter *)
  Lemma msum_perm : forall ms ms' j, Permutation ms ms' -> msum ms j = msum ms' j.
  Proof.
    intros ms ms' j H. induction H as [|m l l' _ IH|m m' l|l l' l'' _ IH1 _ IH2]; cbn [msum]; auto.
    - now rewrite IH.
    - rewrite <- !(gl_assoc G HL). f_equal. apply (gl_comm G HL).
    - now rewrite IH1.
  Qed.

  (* samples not yet exchanged, all walkers *)
  Fixpoint usum (h : hist (A:=A)) (j : Z) : A :=
    match h with [] => g0 G | su :: tl => gsum G (snd su) j ⊕ usum tl j end.

  Definition h_exch (h : hist (A:=A)) : hist := map (fun su => (fst su ++ snd su, [])) h.

  Lemma union_shared_exch : forall h j, union_shared G (h_exch h) j = union_shared G h j ⊕ usum h j.
  Proof.
    induction h as [|su tl IH]; intros j; cbn [h_exch map union_shared usum fst].
    - unfold grid0. now rewrite (gl_0r G HL).
    - fold (h_exch tl). rewrite IH, gsum_app. apply swap4.
  Qed.

  Lemma msum_prepared : forall U ws h j, Forall2 (winv U) ws h ->
    msum (map wL (map (w_prepare G) ws)) j = usum h j.
  Proof.
    intros U ws h j H. induction H as [|w su ws h Hw _ IH]; cbn [map msum usum]; auto.
    rewrite IH. f_equal. destruct (Hw j) as (_ & H2 & H3).
    unfold w_prepare; cbn [wL]. unfold grid_delta. rewrite H3, H2. apply (gl_sub G HL).
  Qed.

  Lemma finish_others : forall U U' (B : grid (A:=A)) t ws h,
    Forall2 (winv U) ws h -> (forall j, B j = U' j) ->
    Forall2 (winv U') (map (w_finish t) (map (w_receive B) (map (w_prepare G) ws))) (h_exch h).
  Proof.
    intros U U' B t ws h H HB. induction H as [|w su ws h Hw _ IH]; cbn [map h_exch]; constructor; auto.
    intros j. unfold w_finish, w_receive, w_prepare; cbn [wLoc wL wG fst snd gsum]. unfold grid0.
    rewrite (gl_0r G HL). repeat split; try apply HB.
    unfold grid_add, grid_delta. destruct (Hw j) as (H1 & H2 & H3).
    rewrite gsum_app, H1, H3, H2. f_equal. apply (gl_sub G HL).
  Qed.

  Lemma inv_exchange : forall ws h t, inv ws h -> inv (exchange G t ws) (h_exch h).
  Proof.
    intros ws0 h0 t H. unfold inv in *.
    destruct ws0 as [|w0 ws]; destruct h0 as [|su0 h]; try (inversion H; fail); [constructor|].
    assert (H0 : winv (union_shared G (su0 :: h)) w0 su0) by (inversion H; auto).
    assert (Hr : Forall2 (winv (union_shared G (su0 :: h))) ws h) by (inversion H; auto).
    clear H.
    unfold exchange. cbn [map].
    set (r := w_prepare G w0). set (others := map (w_prepare G) ws).
    set (r' := root_collect G r (map wL others)).
    assert (HG : forall j, wG r' j = union_shared G (h_exch (su0 :: h)) j).
    { intros j. unfold r'. rewrite root_collect_G. rewrite union_shared_exch.
      unfold others. rewrite (msum_prepared _ _ _ j Hr).
      cbn [usum]. unfold r, w_prepare; cbn [wG]. destruct (H0 j) as (_ & _ & H3). rewrite H3.
      now rewrite (gl_assoc G HL). }
    cbn [h_exch map]. fold (h_exch h). constructor.
    - intros j. unfold w_finish; cbn [wLoc wL wG fst snd gsum]. unfold grid0.
      rewrite (gl_0r G HL). repeat split; try apply HG.
      unfold r'. rewrite root_collect_Loc. unfold r, w_prepare; cbn [wLoc]. unfold grid_add, grid_delta.
      destruct (H0 j) as (H1 & H2 & H3). rewrite gsum_app, H1, H3, H2. f_equal. apply (gl_sub G HL).
    - unfold others. eapply finish_others; eauto.
  Qed.

  Lemma inv_init : forall n, inv (init G n) (h_init n).
  Proof.
    intros n. unfold inv, init, h_init.
    assert (HU : forall m j, union_shared G (repeat (([], []) : SU) m) j = g0 G).
    { intros m j. induction m as [|k IH]; cbn [repeat union_shared fst gsum]; auto.
      unfold grid0 at 1. rewrite IH. apply (gl_0r G HL). }
    assert (HF : forall U m, (forall j, U j = g0 G) ->
                 Forall2 (winv U) (repeat (w_init G 0) m) (repeat (([], []) : SU) m)).
    { intros U m HUj. induction m as [|k IH]; cbn [repeat]; constructor; auto.
      intros j. unfold w_init; cbn [wLoc wL wG fst snd gsum]. unfold grid0. rewrite HUj.
      repeat split; auto. now rewrite (gl_0r G HL). }
    apply HF. apply HU.
  Qed.

  Lemma h_apply_exch : forall h t, h_apply h (EExchange t) = h_exch h.
  Proof. reflexivity. Qed.

  Theorem inv_run : forall es ws h, inv ws h -> inv (run G false es ws) (h_run es h).
  Proof.
    induction es as [|e tl IH]; intros ws h H; [exact H|].
    cbn [run h_run fold_left]. apply IH.
    destruct e as [w i a|t|w t]; cbn [apply_ev h_apply].
    - apply inv_sample; auto.
    - apply inv_exchange; auto.
    - apply inv_restart; auto.
  Qed.

  (* ---- reading the invariant *)
  Lemma Forall2_nth : forall (P : W -> SU -> Prop) ws h n w,
    Forall2 P ws h -> nth_error ws n = Some w -> exists su, nth_error h n = Some su /\ P w su.
  Proof.
    intros P ws h n w H. revert n. induction H as [|x su ws h Hx _ IH]; intros n Hn.
    - destruct n; discriminate.
    - destruct n as [|k]; cbn [nth_error] in *.
      + injection Hn as <-. eauto.
      + apply IH; auto.
  Qed.

  (* after any trace, for every walker: local = its own exchanged samples; last = all exchanged samples
     of all walkers; global = last + its own samples collected since *)
  Theorem abf_state : forall n es k w,
    nth_error (run G false es (init G n)) k = Some w ->
    exists su, nth_error (h_run es (h_init n)) k = Some su /\
      forall i, wLoc w i = gsum G (fst su) i /\
                wL w i = union_shared G (h_run es (h_init n)) i /\
                wG w i = union_shared G (h_run es (h_init n)) i ⊕ gsum G (snd su) i.
  Proof.
    intros n es k w Hk.
    pose proof (inv_run es _ _ (inv_init n)) as H.
    destruct (Forall2_nth _ _ _ _ _ H Hk) as (su & Hsu & Hw). eauto.
  Qed.

  Lemma h_run_app : forall es1 es2 (h : hist (A:=A)), h_run (es1 ++ es2) h = h_run es2 (h_run es1 h).
  Proof. intros. unfold h_run. apply fold_left_app. Qed.

  Lemma run_app : forall old es1 es2 ws, run G old (es1 ++ es2) ws = run G old es2 (run G old es1 ws).
  Proof. intros. unfold run. apply fold_left_app. Qed.

  (* right after an exchange round every walker holds exactly the union *)
  Theorem abf_union_once : forall n es t k w,
    nth_error (run G false (es ++ [EExchange t]) (init G n)) k = Some w ->
    forall i, wG w i = union_shared G (h_run (es ++ [EExchange t]) (h_init n)) i /\
              wL w i = union_shared G (h_run (es ++ [EExchange t]) (h_init n)) i.
  Proof.
    intros n es t k w Hk i.
    destruct (abf_state _ _ _ _ Hk) as (su & Hsu & Hw).
    destruct (Hw i) as (_ & H2 & H3). split; auto.
    rewrite H3. rewrite h_run_app in Hsu. cbn [h_run fold_left h_apply] in Hsu.
    rewrite nth_error_map in Hsu. destruct (nth_error (h_run es (h_init n)) k) as [su'|]; [|discriminate].
    injection Hsu as <-. cbn [snd gsum]. unfold grid0. apply (gl_0r G HL).
  Qed.

  (* ---- the history lists are exactly what was fed *)
  Lemma samples_of_app : forall w es1 es2, samples_of (A:=A) w (es1 ++ es2) = samples_of w es1 ++ samples_of w es2.
  Proof.
    intros w es1 es2. induction es1 as [|e tl IH]; [reflexivity|].
    destruct e as [v i a|t|v t]; cbn [app samples_of]; auto.
    destruct (Nat.eqb v w); cbn [app]; now rewrite IH.
  Qed.

  Lemma upto_snoc_x : forall (es : list (ev (A:=A))) t, upto_last_exchange (es ++ [EExchange t]) = es ++ [EExchange t].
  Proof.
    induction es as [|e tl IH]; intros t; [reflexivity|].
    cbn [app upto_last_exchange]. rewrite IH. destruct (tl ++ [EExchange t]) eqn:E; auto.
    destruct tl; discriminate.
  Qed.

  Lemma upto_snoc_other : forall (es : list (ev (A:=A))) e, (forall t, e <> EExchange t) ->
    upto_last_exchange (es ++ [e]) = upto_last_exchange es.
  Proof.
    induction es as [|x tl IH]; intros e He.
    - cbn [app upto_last_exchange]. destruct e; auto. exfalso. eapply He; eauto.
    - cbn [app upto_last_exchange]. now rewrite IH.
  Qed.

  Lemma nth_upd_nth_same : forall {X} (f : X -> X) l n x, nth_error l n = Some x ->
    nth_error (upd_nth n f l) n = Some (f x).
  Proof.
    intros X f l. induction l as [|y tl IH]; intros [|k] x H; cbn [nth_error upd_nth] in *; try discriminate.
    - now injection H as <-.
    - auto.
  Qed.

  Lemma nth_upd_nth_other : forall {X} (f : X -> X) l n m, n <> m ->
    nth_error (upd_nth n f l) m = nth_error l m.
  Proof.
    intros X f l. induction l as [|y tl IH]; intros [|k] [|m] H; cbn [nth_error upd_nth]; auto;
      try congruence; apply IH; congruence.
  Qed.

  Lemma nth_upd_nth_none : forall {X} (f : X -> X) l n m, nth_error l m = None ->
    nth_error (upd_nth n f l) m = None.
  Proof.
    intros X f l. induction l as [|y tl IH]; intros [|k] [|m] H; cbn [nth_error upd_nth] in *; auto; discriminate.
  Qed.

  Theorem hist_is_fed : forall n (es : list (ev (A:=A))) k (su : SU),
    nth_error (h_run es (h_init n)) k = Some su ->
    fst su = samples_of k (upto_last_exchange es) /\
    fst su ++ snd su = samples_of k es.
  Proof.
    intros n es. induction es as [|e tl IH] using rev_ind; intros k su Hk.
    - cbn [h_run fold_left] in Hk. unfold h_init in Hk.
      apply nth_error_In in Hk. apply repeat_spec in Hk. subst su. split; reflexivity.
    - rewrite h_run_app in Hk. cbn [h_run fold_left] in Hk. fold (h_run tl (h_init n)) in Hk.
      rewrite samples_of_app.
      destruct e as [v i a|t|v t]; cbn [h_apply] in Hk.
      + rewrite upto_snoc_other by (intros; discriminate).
        destruct (Nat.eq_dec v k) as [->|Hne].
        * destruct (nth_error (h_run tl (h_init n)) k) as [su'|] eqn:E.
          -- rewrite (nth_upd_nth_same _ _ _ _ E) in Hk. injection Hk as <-. cbn [fst snd].
             destruct (IH _ _ E) as (H1 & H2). split; auto.
             cbn [samples_of]. rewrite Nat.eqb_refl. now rewrite <- H2, <- app_assoc.
          -- rewrite nth_upd_nth_none in Hk by auto. discriminate.
        * rewrite nth_upd_nth_other in Hk by auto. destruct (IH _ _ Hk) as (H1 & H2). split; auto.
          cbn [samples_of]. apply Nat.eqb_neq in Hne. rewrite Hne. now rewrite app_nil_r.
      + rewrite upto_snoc_x. rewrite samples_of_app. cbn [samples_of]. rewrite !app_nil_r.
        rewrite nth_error_map in Hk. destruct (nth_error (h_run tl (h_init n)) k) as [su'|] eqn:E; [|discriminate].
        injection Hk as <-. cbn [fst snd]. destruct (IH _ _ E) as (H1 & H2). rewrite app_nil_r. auto.
      + rewrite upto_snoc_other by (intros; discriminate).
        destruct (IH _ _ Hk) as (H1 & H2). split; auto. cbn [samples_of]. now rewrite app_nil_r.
  Qed.

  (* the walker's own samples are recoverable at any time: local + (global - last) *)
  Theorem abf_local_recoverable : forall n es k w,
    nth_error (run G false es (init G n)) k = Some w ->
    forall i, wLoc w i = gsum G (samples_of k (upto_last_exchange es)) i /\
              wLoc w i ⊕ gsub G (wG w i) (wL w i) = gsum G (samples_of k es) i.
  Proof.
    intros n es k w Hk i.
    destruct (abf_state _ _ _ _ Hk) as (su & Hsu & Hw).
    destruct (hist_is_fed _ _ _ _ Hsu) as (F1 & F2).
    destruct (Hw i) as (H1 & H2 & H3). split.
    - now rewrite H1, F1.
    - rewrite H3, H2, (gl_sub G HL), H1, <- F2. symmetry. apply gsum_app.
  Qed.

  (* CZAR gather on replica 0: the sum of every walker's z grids, each once *)
  Lemma fold_grid_add : forall zs z j, fold_left (grid_add G) zs z j = z j ⊕ msum zs j.
  Proof.
    induction zs as [|m tl IH]; intros z j; cbn [fold_left msum].
    - now rewrite (gl_0r G HL).
    - rewrite IH. unfold grid_add. now rewrite (gl_assoc G HL).
  Qed.

  Theorem czar_gather_sum : forall zs j, czar_gather G zs j = msum zs j.
  Proof.
    intros [|z0 tl] j; cbn [czar_gather msum]; [reflexivity|]. apply fold_grid_add.
  Qed.

  (* replica 0 could receive the deltas in any order *)
  Theorem root_collect_order : forall r ms ms' j, Permutation ms ms' ->
    wG (root_collect G r ms) j = wG (root_collect G r ms') j.
  Proof. intros. rewrite !root_collect_G. f_equal. now apply msum_perm. Qed.

  (* all walkers with the same shared_last_step agree on whether a step is an exchange step *)
  Theorem share_due_agree : forall freq t (w w' : walker (A:=A)), wlast w = wlast w' ->
    share_due freq t w = share_due freq t w'.
  Proof. intros. unfold share_due. now rewrite H. Qed.

  Lemma run_length : forall old es ws, length (run G old es ws) = length ws.
  Proof.
    intros old es. induction es as [|e tl IH]; intros ws; [reflexivity|].
    cbn [run fold_left]. fold (run G old tl (apply_ev G old ws e)). rewrite IH.
    assert (Hu : forall {X} n (f : X -> X) l, length (upd_nth n f l) = length l).
    { intros X n f l. revert n. induction l as [|x l IHl]; intros [|k]; cbn [upd_nth length]; auto. }
    destruct e as [w i a|t|w t]; cbn [apply_ev]; try apply Hu.
    unfold exchange. destruct ws as [|w0 ws]; [reflexivity|]. cbn [map length]. now rewrite !map_length.
  Qed.

  (* after an exchange all walkers hold the same shared_last_step *)
  Theorem exchange_sets_last : forall t ws w, In w (exchange G t ws) -> wlast w = t.
  Proof.
    intros t ws w H. unfold exchange in H. destruct (map (w_prepare G) ws) as [|r others]; [destruct H|].
    apply in_map_iff in H. destruct H as (x & <- & _). reflexivity.
  Qed.
End ABFProofs.

(* the behaviour before the repair loses the samples collected after the last exchange:
   two walkers, walker 1 collects one sample (address 0, value 1), is restarted, exchange at step 2:
   replica 0 never receives the sample and walker 1's global grid, overwritten by the broadcast, loses it *)
Definition abf_old_witness : list (ev (A:=Z)) := [ESample 1%nat 0 1; ERestart 1%nat 1; EExchange 2].

Lemma abf_old_refuted :
  exists es : list (ev (A:=Z)), exists w, nth_error (run Zgrp true es (init Zgrp 2)) 1 = Some w /\
    wG w 0 <> union_shared Zgrp (h_run es (h_init 2)) 0.
Proof.
  exists abf_old_witness. eexists. split; [reflexivity|]. vm_compute. discriminate.
Qed.

(* the same trace with the repaired restart *)
Lemma abf_new_witness_ok :
  exists w, nth_error (run Zgrp false abf_old_witness (init Zgrp 2)) 1 = Some w /\
    wG w 0 = union_shared Zgrp (h_run abf_old_witness (h_init 2)) 0 /\ wG w 0 = 1.
Proof. eexists. split; [reflexivity|]. vm_compute. auto. Qed.
