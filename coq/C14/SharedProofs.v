(* C14: proofs about the models of SharedModel.v. *)
From Coq Require Import ZArith List Bool Lia Permutation Arith.
From CV Require Import C14.SharedModel.
Import ListNotations.
Local Open Scope Z_scope.

(* ------------------------------------------------------------------------------------------- *)
(* (a) shared ABF                                                                               *)
(* ------------------------------------------------------------------------------------------- *)

(* what is assumed of the values stored in a grid: a commutative monoid in which (a + b) - a = b *)
Record GrpLaws {A : Type} (G : GrpOps A) : Prop := mkGrpLaws {
  gl_comm : forall a b, gadd G a b = gadd G b a;
  gl_assoc : forall a b c, gadd G (gadd G a b) c = gadd G a (gadd G b c);
  gl_0r : forall a, gadd G a (g0 G) = a;
  gl_sub : forall a b, gsub G (gadd G a b) a = b
}.

Lemma Zgrp_laws : GrpLaws Zgrp.
Proof. constructor; simpl; intros; lia. Qed.

Section ABFProofs.
  Context {A : Type} (G : GrpOps A) (HL : GrpLaws G).

  Notation "a ⊕ b" := (gadd G a b) (at level 50, left associativity).
  Notation W := (walker (A:=A)).
  Notation SU := (list (sample (A:=A)) * list (sample (A:=A)))%type.

  Lemma g0l : forall a, g0 G ⊕ a = a.
  Proof. intros a. rewrite (gl_comm G HL). apply (gl_0r G HL). Qed.

  Lemma swap4 : forall a b c d : A, (a ⊕ b) ⊕ (c ⊕ d) = (a ⊕ c) ⊕ (b ⊕ d).
  Proof.
    intros a b c d. rewrite !(gl_assoc G HL). f_equal.
    rewrite <- !(gl_assoc G HL). f_equal. apply (gl_comm G HL).
  Qed.

  Lemma gsum_app : forall l1 l2 j, gsum G (l1 ++ l2) j = gsum G l1 j ⊕ gsum G l2 j.
  Proof.
    induction l1 as [|[i a] tl IH]; intros l2 j.
    - cbn [app gsum]. unfold grid0. now rewrite g0l.
    - cbn [app gsum]. rewrite IH. now rewrite (gl_assoc G HL).
  Qed.

  Lemma gsum_one : forall i a j, gsum G [(i, a)] j = if Z.eqb j i then a else g0 G.
  Proof. intros i a j. cbn [gsum]. unfold grid0. apply (gl_0r G HL). Qed.

  (* ---- the invariant *)
  Definition winv (U : grid (A:=A)) (w : W) (su : SU) : Prop :=
    forall i, wLoc w i = gsum G (fst su) i /\ wL w i = U i /\ wG w i = U i ⊕ gsum G (snd su) i.

  Definition inv (ws : list W) (h : hist (A:=A)) : Prop :=
    Forall2 (winv (union_shared G h)) ws h.

  Lemma winv_ext : forall U U' w su, (forall i, U i = U' i) -> winv U w su -> winv U' w su.
  Proof.
    intros U U' w su HU H i. destruct (H i) as (H1 & H2 & H3). rewrite <- HU. auto.
  Qed.

  Lemma Forall2_winv_ext : forall U U' ws h, (forall i, U i = U' i) ->
    Forall2 (winv U) ws h -> Forall2 (winv U') ws h.
  Proof.
    intros U U' ws h HU H. induction H as [|w su ws h Hw _ IH]; constructor; auto.
    eapply winv_ext; eauto.
  Qed.

  (* a sample does not change what has been exchanged *)
  Lemma union_shared_sample : forall (h : hist (A:=A)) w i a j,
    union_shared G (upd_nth w (fun su => (fst su, snd su ++ [(i, a)])) h) j = union_shared G h j.
  Proof.
    induction h as [|su tl IH]; intros w i a j; [reflexivity|].
    destruct w as [|k]; cbn [upd_nth union_shared fst]; [reflexivity|]. now rewrite IH.
  Qed.

  Lemma Forall2_upd_nth : forall (P : W -> SU -> Prop) f g ws h n,
    Forall2 P ws h -> (forall w su, P w su -> P (f w) (g su)) ->
    Forall2 P (upd_nth n f ws) (upd_nth n g h).
  Proof.
    intros P f g ws h n H Hfg. revert n.
    induction H as [|w su ws h Hw Ht IH]; intros n; [constructor|].
    destruct n as [|k]; cbn [upd_nth]; constructor; auto.
  Qed.

  Lemma inv_sample : forall ws h w i a, inv ws h ->
    inv (upd_nth w (fun x => w_sample G x i a) ws) (upd_nth w (fun su => (fst su, snd su ++ [(i, a)])) h).
  Proof.
    intros ws h w i a H. unfold inv.
    apply Forall2_winv_ext with (U := union_shared G h).
    - intros j. symmetry. apply union_shared_sample.
    - apply Forall2_upd_nth; auto.
      intros x su Hx j. destruct (Hx j) as (H1 & H2 & H3).
      unfold w_sample; cbn [wLoc wL wG fst snd]. repeat split; auto.
      unfold grid_acc. rewrite gsum_app, gsum_one.
      destruct (Z.eqb j i).
      + rewrite H3. now rewrite (gl_assoc G HL).
      + rewrite (gl_0r G HL). exact H3.
  Qed.

  Lemma inv_restart : forall ws h w t, inv ws h -> inv (upd_nth w (w_restart t) ws) h.
  Proof.
    intros ws h w t H. unfold inv.
    replace h with (upd_nth w (fun su => su) h) at 2.
    - apply Forall2_upd_nth; auto.
    - clear. revert w. induction h as [|su tl IH]; intros [|k]; cbn [upd_nth]; auto. now rewrite IH.
  Qed.

  (* ---- the exchange round *)
  (* sum of the messages at one address, in the order replica 0 receives them *)
  Fixpoint msum (ms : list (grid (A:=A))) (j : Z) : A :=
    match ms with [] => g0 G | m :: tl => m j ⊕ msum tl j end.

  Lemma root_collect_G : forall ms r j, wG (root_collect G r ms) j = wG r j ⊕ msum ms j.
  Proof.
    induction ms as [|m tl IH]; intros r j; cbn [root_collect msum].
    - now rewrite (gl_0r G HL).
    - rewrite IH. cbn [wG]. unfold grid_add. now rewrite (gl_assoc G HL).
  Qed.

  Lemma root_collect_Loc : forall ms r, wLoc (root_collect G r ms) = wLoc r.
  Proof. induction ms as [|m tl IH]; intros r; cbn [root_collect]; auto. now rewrite IH. Qed.

  (* ---- the exchange as a transaction: whatever happens to the round, what a walker has sampled itself stays
     recoverable from its own three grids *)
  Lemma gsub_self : forall a, gsub G a a = g0 G.
  Proof. intros a. rewrite <- (gl_0r G HL a) at 1. apply (gl_sub G HL). Qed.

  Lemma own_prepare_finish : forall t (w x : W), wLoc x = wLoc (w_prepare G w) ->
    forall i, own_data G (w_finish t x) i = own_data G w i.
  Proof.
    intros t w x E i. unfold own_data, w_finish; cbn [wG wL wLoc]. rewrite E. cbn [w_prepare wLoc].
    rewrite gsub_self, (gl_0r G HL). reflexivity.
  Qed.

  Lemma exchange_own : forall t (ws : list W) k w w',
    nth_error ws k = Some w -> nth_error (exchange G t ws) k = Some w' ->
    forall i, own_data G w' i = own_data G w i.
  Proof.
    intros t ws k w w' Hw Hw' i. unfold exchange in Hw'.
    destruct ws as [|r others]; [destruct k; discriminate|]. cbn [map] in Hw'.
    destruct k as [|k]; cbn [nth_error] in Hw, Hw'.
    - injection Hw as <-. injection Hw' as <-. apply own_prepare_finish. apply root_collect_Loc.
    - rewrite map_map, map_map in Hw'. rewrite nth_error_map in Hw'. rewrite Hw in Hw'. cbn in Hw'.
      injection Hw' as <-. apply own_prepare_finish. reflexivity.
  Qed.

  Theorem exchange_transaction : forall t oc (ws : list W) k w w',
    nth_error ws k = Some w -> nth_error (exchange_partial G t oc ws) k = Some w' ->
    (w' = w \/ nth_error (exchange G t ws) k = Some w') /\ forall i, own_data G w' i = own_data G w i.
  Proof.
    intros t oc ws k w w' Hw Hw'. unfold exchange_partial in Hw'.
    rewrite nth_error_map in Hw'.
    destruct (nth_error (combine oc (combine ws (exchange G t ws))) k) as [[o [a b]]|] eqn:E; [|discriminate].
    cbn in Hw'. injection Hw' as <-.
    assert (Ha : nth_error ws k = Some a /\ nth_error (exchange G t ws) k = Some b).
    { clear Hw. remember (exchange G t ws) as xs eqn:X. clear X. revert oc ws xs E.
      induction k as [|k IH]; intros oc ws xs E.
      - destruct oc, ws, xs; try discriminate. cbn in E. injection E as _ <- <-. split; reflexivity.
      - destruct oc, ws, xs; try discriminate. cbn in E. apply (IH oc ws xs E). }
    destruct Ha as [Ha Hb]. rewrite Hw in Ha. injection Ha as <-.
    destruct o; cbn.
    - split; [right; exact Hb|]. apply (exchange_own t ws k w b Hw Hb).
    - split; [left; reflexivity|]. reflexivity.
  Qed.

  (* a round that every walker aborts changes nothing at all; one that every walker commits is the exchange *)
  Theorem exchange_all_aborted : forall t (ws : list W),
    exchange_partial G t (repeat Aborted (length ws)) ws = ws.
  Proof.
    intros t ws. unfold exchange_partial.
    assert (L : length (exchange G t ws) = length ws).
    { unfold exchange. destruct ws as [|r o]; [reflexivity|]. cbn [map]. cbn [length]. now rewrite !map_length. }
    revert L. generalize (exchange G t ws) as xs. induction ws as [|w tl IH]; intros xs L; [reflexivity|].
    destruct xs as [|x xs]; [discriminate|]. cbn. f_equal. apply IH. now injection L.
  Qed.

  (* walkers that all start from the same input data I and exchange before sampling anything hold I, once *)
  Lemma map_repeat_ : forall (X Y : Type) (f : X -> Y) x (k : nat), map f (repeat x k) = repeat (f x) k.
  Proof. induction k as [|k IH]; cbn [repeat map]; [reflexivity|]. now rewrite IH. Qed.

  Theorem input_once : forall (I : grid (A:=A)) t t' (n : nat) k w,
    nth_error (exchange G t' (repeat (w_init_input G I t) n)) k = Some w -> forall j, wG w j = I j /\ wL w j = I j.
  Proof.
    intros I t t' n k w Hk j. apply nth_error_In in Hk. unfold exchange in Hk.
    destruct n as [|n]; [destruct Hk|]. cbn [repeat map] in Hk. rewrite map_repeat_ in Hk.
    set (d := w_prepare G (w_init_input G I t)) in Hk.
    assert (Hd : forall j, wL d j = g0 G). { intro j0. unfold d; cbn. apply gsub_self. }
    assert (HG : forall j, wG (root_collect G d (map wL (repeat d n))) j = I j).
    { intro j0. rewrite root_collect_G. rewrite map_repeat_.
      assert (E : forall m j1, msum (repeat (wL d) m) j1 = g0 G).
      { induction m as [|m IH]; intros j1; cbn [repeat msum]; [reflexivity|]. rewrite IH, Hd. apply (gl_0r G HL). }
      rewrite E. unfold d; cbn. apply (gl_0r G HL). }
    cbn [map] in Hk. destruct Hk as [<-|Hk].
    - cbn [w_finish wG wL]. split; apply HG.
    - rewrite map_map in Hk. apply in_map_iff in Hk. destruct Hk as (x & <- & _). cbn [w_finish w_receive wG wL]. split; apply HG.
  Qed.

  (* the order in which the deltas reach replica 0 does not matter *)
  Lemma msum_perm : forall ms ms' j, Permutation ms ms' -> msum ms j = msum ms' j.
  Proof.
    intros ms ms' j H. induction H as [|m l l' _ IH|m m' l|l l' l'' _ IH1 _ IH2]; cbn [msum]; auto.
    - now rewrite IH.
    - rewrite <- !(gl_assoc G HL). f_equal. apply (gl_comm G HL).
    - now rewrite IH1.
  Qed.

  (* samples not yet exchanged, all walkers *)
  Fixpoint usum (h : hist (A:=A)) (j : Z) : A :=
    match h with [] => g0 G | su :: tl => gsum G (snd su) j ⊕ usum tl j end.

  Definition h_exch (h : hist (A:=A)) : hist := map (fun su => (fst su ++ snd su, [])) h.

  Lemma union_shared_exch : forall h j, union_shared G (h_exch h) j = union_shared G h j ⊕ usum h j.
  Proof.
    induction h as [|su tl IH]; intros j; cbn [h_exch map union_shared usum fst].
    - unfold grid0. now rewrite (gl_0r G HL).
    - fold (h_exch tl). rewrite IH, gsum_app. apply swap4.
  Qed.

  Lemma msum_prepared : forall U ws h j, Forall2 (winv U) ws h ->
    msum (map wL (map (w_prepare G) ws)) j = usum h j.
  Proof.
    intros U ws h j H. induction H as [|w su ws h Hw _ IH]; cbn [map msum usum]; auto.
    rewrite IH. f_equal. destruct (Hw j) as (_ & H2 & H3).
    unfold w_prepare; cbn [wL]. unfold grid_delta. rewrite H3, H2. apply (gl_sub G HL).
  Qed.

  Lemma finish_others : forall U U' (B : grid (A:=A)) t ws h,
    Forall2 (winv U) ws h -> (forall j, B j = U' j) ->
    Forall2 (winv U') (map (w_finish t) (map (w_receive B) (map (w_prepare G) ws))) (h_exch h).
  Proof.
    intros U U' B t ws h H HB. induction H as [|w su ws h Hw _ IH]; cbn [map h_exch]; constructor; auto.
    intros j. unfold w_finish, w_receive, w_prepare; cbn [wLoc wL wG fst snd gsum]. unfold grid0.
    rewrite (gl_0r G HL). repeat split; try apply HB.
    unfold grid_add, grid_delta. destruct (Hw j) as (H1 & H2 & H3).
    rewrite gsum_app, H1, H3, H2. f_equal. apply (gl_sub G HL).
  Qed.

  Lemma inv_exchange : forall ws h t, inv ws h -> inv (exchange G t ws) (h_exch h).
  Proof.
    intros ws0 h0 t H. unfold inv in *.
    destruct ws0 as [|w0 ws]; destruct h0 as [|su0 h]; try (inversion H; fail); [constructor|].
    assert (H0 : winv (union_shared G (su0 :: h)) w0 su0) by (inversion H; auto).
    assert (Hr : Forall2 (winv (union_shared G (su0 :: h))) ws h) by (inversion H; auto).
    clear H.
    unfold exchange. cbn [map].
    set (r := w_prepare G w0). set (others := map (w_prepare G) ws).
    set (r' := root_collect G r (map wL others)).
    assert (HG : forall j, wG r' j = union_shared G (h_exch (su0 :: h)) j).
    { intros j. unfold r'. rewrite root_collect_G. rewrite union_shared_exch.
      unfold others. rewrite (msum_prepared _ _ _ j Hr).
      cbn [usum]. unfold r, w_prepare; cbn [wG]. destruct (H0 j) as (_ & _ & H3). rewrite H3.
      now rewrite (gl_assoc G HL). }
    cbn [h_exch map]. fold (h_exch h). constructor.
    - intros j. unfold w_finish; cbn [wLoc wL wG fst snd gsum]. unfold grid0.
      rewrite (gl_0r G HL). repeat split; try apply HG.
      unfold r'. rewrite root_collect_Loc. unfold r, w_prepare; cbn [wLoc]. unfold grid_add, grid_delta.
      destruct (H0 j) as (H1 & H2 & H3). rewrite gsum_app, H1, H3, H2. f_equal. apply (gl_sub G HL).
    - unfold others. eapply finish_others; eauto.
  Qed.

  Lemma inv_init : forall n, inv (init G n) (h_init n).
  Proof.
    intros n. unfold inv, init, h_init.
    assert (HU : forall m j, union_shared G (repeat (([], []) : SU) m) j = g0 G).
    { intros m j. induction m as [|k IH]; cbn [repeat union_shared fst gsum]; auto.
      unfold grid0 at 1. rewrite IH. apply (gl_0r G HL). }
    assert (HF : forall U m, (forall j, U j = g0 G) ->
                 Forall2 (winv U) (repeat (w_init G 0) m) (repeat (([], []) : SU) m)).
    { intros U m HUj. induction m as [|k IH]; cbn [repeat]; constructor; auto.
      intros j. unfold w_init; cbn [wLoc wL wG fst snd gsum]. unfold grid0. rewrite HUj.
      repeat split; auto. now rewrite (gl_0r G HL). }
    apply HF. apply HU.
  Qed.

  Lemma h_apply_exch : forall h t, h_apply h (EExchange t) = h_exch h.
  Proof. reflexivity. Qed.

  Theorem inv_run : forall es ws h, inv ws h -> inv (run G false es ws) (h_run es h).
  Proof.
    induction es as [|e tl IH]; intros ws h H; [exact H|].
    cbn [run h_run fold_left]. apply IH.
    destruct e as [w i a|t|w t]; cbn [apply_ev h_apply].
    - apply inv_sample; auto.
    - apply inv_exchange; auto.
    - apply inv_restart; auto.
  Qed.

  (* ---- reading the invariant *)
  Lemma Forall2_nth : forall (P : W -> SU -> Prop) ws h n w,
    Forall2 P ws h -> nth_error ws n = Some w -> exists su, nth_error h n = Some su /\ P w su.
  Proof.
    intros P ws h n w H. revert n. induction H as [|x su ws h Hx _ IH]; intros n Hn.
    - destruct n; discriminate.
    - destruct n as [|k]; cbn [nth_error] in *.
      + injection Hn as <-. eauto.
      + apply IH; auto.
  Qed.

  (* after any trace, for every walker: local = its own exchanged samples; last = all exchanged samples
     of all walkers; global = last + its own samples collected since *)
  Theorem abf_state : forall n es k w,
    nth_error (run G false es (init G n)) k = Some w ->
    exists su, nth_error (h_run es (h_init n)) k = Some su /\
      forall i, wLoc w i = gsum G (fst su) i /\
                wL w i = union_shared G (h_run es (h_init n)) i /\
                wG w i = union_shared G (h_run es (h_init n)) i ⊕ gsum G (snd su) i.
  Proof.
    intros n es k w Hk.
    pose proof (inv_run es _ _ (inv_init n)) as H.
    destruct (Forall2_nth _ _ _ _ _ H Hk) as (su & Hsu & Hw). eauto.
  Qed.

  Lemma h_run_app : forall es1 es2 (h : hist (A:=A)), h_run (es1 ++ es2) h = h_run es2 (h_run es1 h).
  Proof. intros. unfold h_run. apply fold_left_app. Qed.

  Lemma run_app : forall old es1 es2 ws, run G old (es1 ++ es2) ws = run G old es2 (run G old es1 ws).
  Proof. intros. unfold run. apply fold_left_app. Qed.

  (* right after an exchange round every walker holds exactly the union *)
  Theorem abf_union_once : forall n es t k w,
    nth_error (run G false (es ++ [EExchange t]) (init G n)) k = Some w ->
    forall i, wG w i = union_shared G (h_run (es ++ [EExchange t]) (h_init n)) i /\
              wL w i = union_shared G (h_run (es ++ [EExchange t]) (h_init n)) i.
  Proof.
    intros n es t k w Hk i.
    destruct (abf_state _ _ _ _ Hk) as (su & Hsu & Hw).
    destruct (Hw i) as (_ & H2 & H3). split; auto.
    rewrite H3. rewrite h_run_app in Hsu. cbn [h_run fold_left h_apply] in Hsu.
    rewrite nth_error_map in Hsu. destruct (nth_error (h_run es (h_init n)) k) as [su'|]; [|discriminate].
    injection Hsu as <-. cbn [snd gsum]. unfold grid0. apply (gl_0r G HL).
  Qed.

  (* ---- the history lists are exactly what was fed *)
  Lemma samples_of_app : forall w es1 es2, samples_of (A:=A) w (es1 ++ es2) = samples_of w es1 ++ samples_of w es2.
  Proof.
    intros w es1 es2. induction es1 as [|e tl IH]; [reflexivity|].
    destruct e as [v i a|t|v t]; cbn [app samples_of]; auto.
    destruct (Nat.eqb v w); cbn [app]; now rewrite IH.
  Qed.

  Lemma upto_snoc_x : forall (es : list (ev (A:=A))) t, upto_last_exchange (es ++ [EExchange t]) = es ++ [EExchange t].
  Proof.
    induction es as [|e tl IH]; intros t; [reflexivity|].
    cbn [app upto_last_exchange]. rewrite IH. destruct (tl ++ [EExchange t]) eqn:E; auto.
    destruct tl; discriminate.
  Qed.

  Lemma upto_snoc_other : forall (es : list (ev (A:=A))) e, (forall t, e <> EExchange t) ->
    upto_last_exchange (es ++ [e]) = upto_last_exchange es.
  Proof.
    induction es as [|x tl IH]; intros e He.
    - cbn [app upto_last_exchange]. destruct e; auto. exfalso. eapply He; eauto.
    - cbn [app upto_last_exchange]. now rewrite IH.
  Qed.

  Lemma nth_upd_nth_same : forall {X} (f : X -> X) l n x, nth_error l n = Some x ->
    nth_error (upd_nth n f l) n = Some (f x).
  Proof.
    intros X f l. induction l as [|y tl IH]; intros [|k] x H; cbn [nth_error upd_nth] in *; try discriminate.
    - now injection H as <-.
    - auto.
  Qed.

  Lemma nth_upd_nth_other : forall {X} (f : X -> X) l n m, n <> m ->
    nth_error (upd_nth n f l) m = nth_error l m.
  Proof.
    intros X f l. induction l as [|y tl IH]; intros [|k] [|m] H; cbn [nth_error upd_nth]; auto;
      try congruence; apply IH; congruence.
  Qed.

  Lemma nth_upd_nth_none : forall {X} (f : X -> X) l n m, nth_error l m = None ->
    nth_error (upd_nth n f l) m = None.
  Proof.
    intros X f l. induction l as [|y tl IH]; intros [|k] [|m] H; cbn [nth_error upd_nth] in *; auto; discriminate.
  Qed.

  Theorem hist_is_fed : forall n (es : list (ev (A:=A))) k (su : SU),
    nth_error (h_run es (h_init n)) k = Some su ->
    fst su = samples_of k (upto_last_exchange es) /\
    fst su ++ snd su = samples_of k es.
  Proof.
    intros n es. induction es as [|e tl IH] using rev_ind; intros k su Hk.
    - cbn [h_run fold_left] in Hk. unfold h_init in Hk.
      apply nth_error_In in Hk. apply repeat_spec in Hk. subst su. split; reflexivity.
    - rewrite h_run_app in Hk. cbn [h_run fold_left] in Hk. fold (h_run tl (h_init n)) in Hk.
      rewrite samples_of_app.
      destruct e as [v i a|t|v t]; cbn [h_apply] in Hk.
      + rewrite upto_snoc_other by (intros; discriminate).
        destruct (Nat.eq_dec v k) as [->|Hne].
        * destruct (nth_error (h_run tl (h_init n)) k) as [su'|] eqn:E.
          -- rewrite (nth_upd_nth_same _ _ _ _ E) in Hk. injection Hk as <-. cbn [fst snd].
             destruct (IH _ _ E) as (H1 & H2). split; auto.
             cbn [samples_of]. rewrite Nat.eqb_refl. now rewrite <- H2, <- app_assoc.
          -- rewrite nth_upd_nth_none in Hk by auto. discriminate.
        * rewrite nth_upd_nth_other in Hk by auto. destruct (IH _ _ Hk) as (H1 & H2). split; auto.
          cbn [samples_of]. apply Nat.eqb_neq in Hne. rewrite Hne. now rewrite app_nil_r.
      + rewrite upto_snoc_x. rewrite samples_of_app. cbn [samples_of]. rewrite !app_nil_r.
        rewrite nth_error_map in Hk. destruct (nth_error (h_run tl (h_init n)) k) as [su'|] eqn:E; [|discriminate].
        injection Hk as <-. cbn [fst snd]. destruct (IH _ _ E) as (H1 & H2). rewrite app_nil_r. auto.
      + rewrite upto_snoc_other by (intros; discriminate).
        destruct (IH _ _ Hk) as (H1 & H2). split; auto. cbn [samples_of]. now rewrite app_nil_r.
  Qed.

  Lemma h_run_length : forall (es : list (ev (A:=A))) h, length (h_run es h) = length h.
  Proof.
    induction es as [|e tl IH]; intros h; [reflexivity|].
    cbn [h_run fold_left]. fold (h_run tl (h_apply h e)). rewrite IH.
    destruct e as [w i a|t|w t]; cbn [h_apply]; auto.
    - revert w. induction h as [|x l IHl]; intros [|k]; cbn [upd_nth length]; auto.
    - apply map_length.
  Qed.

  Lemma union_shared_fed : forall (h : hist (A:=A)) f k0 j,
    (forall k su, nth_error h k = Some su -> fst su = f (k0 + k)%nat) ->
    union_shared G h j = fed_from G (length h) k0 f j.
  Proof.
    induction h as [|su tl IH]; intros f k0 j Hf; [reflexivity|].
    cbn [union_shared length fed_from]. f_equal.
    - rewrite (Hf 0%nat su eq_refl). now rewrite Nat.add_0_r.
    - apply IH. intros k su' Hk. rewrite (Hf (S k) su' Hk). f_equal. lia.
  Qed.

  Theorem union_shared_is_fed : forall n (es : list (ev (A:=A))) j,
    union_shared G (h_run es (h_init n)) j = fed_union G n es j.
  Proof.
    intros n es j. unfold fed_union.
    replace n with (length (h_run es (h_init n))) at 2.
    - apply union_shared_fed. intros k su Hk. cbn [Nat.add]. now destruct (hist_is_fed _ _ _ _ Hk).
    - rewrite h_run_length. unfold h_init. apply repeat_length.
  Qed.

  (* the walker's own samples are recoverable at any time: local + (global - last) *)
  Theorem abf_local_recoverable : forall n es k w,
    nth_error (run G false es (init G n)) k = Some w ->
    forall i, wLoc w i = gsum G (samples_of k (upto_last_exchange es)) i /\
              wLoc w i ⊕ gsub G (wG w i) (wL w i) = gsum G (samples_of k es) i.
  Proof.
    intros n es k w Hk i.
    destruct (abf_state _ _ _ _ Hk) as (su & Hsu & Hw).
    destruct (hist_is_fed _ _ _ _ Hsu) as (F1 & F2).
    destruct (Hw i) as (H1 & H2 & H3). split.
    - now rewrite H1, F1.
    - rewrite H3, H2, (gl_sub G HL), H1, <- F2. symmetry. apply gsum_app.
  Qed.

  (* CZAR gather on replica 0: the sum of every walker's z grids, each once *)
  Lemma fold_grid_add : forall zs z j, fold_left (grid_add G) zs z j = z j ⊕ msum zs j.
  Proof.
    induction zs as [|m tl IH]; intros z j; cbn [fold_left msum].
    - now rewrite (gl_0r G HL).
    - rewrite IH. unfold grid_add. now rewrite (gl_assoc G HL).
  Qed.

  Theorem czar_gather_sum : forall zs j, czar_gather G zs j = msum zs j.
  Proof.
    intros [|z0 tl] j; cbn [czar_gather msum]; [reflexivity|]. apply fold_grid_add.
  Qed.

  (* the CZAR gather leaves the grids of shared ABF and the z grids of every walker as they are; replica 0 ends
     up with the sum of all z grids *)
  Theorem czar_gather_frame : forall (ws : list (ewalker (A:=A))),
    map e_w (czar_gather_step G ws) = map e_w ws /\ map e_z (czar_gather_step G ws) = map e_z ws /\
    (forall r others j, ws = r :: others ->
       exists r', czar_gather_step G ws = r' :: others /\ e_gz r' j = msum (map e_z ws) j).
  Proof.
    intros [|r others]; cbn [czar_gather_step map]; repeat split; auto; try discriminate.
    intros r0 o j E. injection E as <- <-. eexists. split; [reflexivity|]. cbn [e_gz].
    apply (czar_gather_sum (e_z r :: map e_z others)).
  Qed.

  (* write_output_files() runs the gather at every output: however often, replica 0 holds every walker's z data
     once, and nobody's own grids move (the gather reads e_z only, and leaves it alone) *)
  Theorem czar_gather_idempotent : forall (ws : list (ewalker (A:=A))),
    czar_gather_step G (czar_gather_step G ws) = czar_gather_step G ws.
  Proof. intros [|r others]; reflexivity. Qed.

  Theorem czar_gather_repeated : forall (k : nat) (ws : list (ewalker (A:=A))),
    Nat.iter (S k) (czar_gather_step G) ws = czar_gather_step G ws.
  Proof.
    induction k as [|k IH]; intros ws; [reflexivity|].
    change (Nat.iter (S (S k)) (czar_gather_step G) ws) with (czar_gather_step G (Nat.iter (S k) (czar_gather_step G) ws)).
    rewrite IH. apply czar_gather_idempotent.
  Qed.

  (* a restart of an eABF walker changes nothing it holds; a gather after it sees the same z grids *)
  Theorem ew_restart_identity : forall t (w : ewalker (A:=A)),
    wG (e_w (ew_restart t w)) = wG (e_w w) /\ wL (e_w (ew_restart t w)) = wL (e_w w) /\
    wLoc (e_w (ew_restart t w)) = wLoc (e_w w) /\ e_z (ew_restart t w) = e_z w.
  Proof. intros; repeat split. Qed.

  Theorem czar_gather_after_restarts : forall t (ws : list (ewalker (A:=A))) j r others,
    czar_gather_step G (map (ew_restart t) ws) = r :: others -> e_gz r j = msum (map e_z ws) j.
  Proof.
    intros t ws j r others H.
    destruct (czar_gather_frame (map (ew_restart t) ws)) as (_ & _ & F).
    destruct ws as [|w0 tl]; [discriminate|].
    destruct (F (ew_restart t w0) (map (ew_restart t) tl) j eq_refl) as (r' & E & Hg).
    rewrite E in H. injection H as <- _. rewrite Hg. rewrite map_map. reflexivity.
  Qed.

  (* a restart through a state file written by the repaired code (last_* saved) changes none of the three grids,
     wherever it happens *)
  Theorem restart_identity : forall t (w : W), wG (w_restart t w) = wG w /\ wL (w_restart t w) = wL w /\ wLoc (w_restart t w) = wLoc w.
  Proof. intros; repeat split. Qed.

  (* replica 0 could receive the deltas in any order *)
  Theorem root_collect_order : forall r ms ms' j, Permutation ms ms' ->
    wG (root_collect G r ms) j = wG (root_collect G r ms') j.
  Proof. intros. rewrite !root_collect_G. f_equal. now apply msum_perm. Qed.

  (* all walkers with the same shared_last_step agree on whether a step is an exchange step *)
  Theorem share_due_agree : forall freq t (w w' : walker (A:=A)), wlast w = wlast w' ->
    share_due freq t w = share_due freq t w'.
  Proof. intros. unfold share_due. now rewrite H. Qed.

  Lemma run_length : forall old es ws, length (run G old es ws) = length ws.
  Proof.
    intros old es. induction es as [|e tl IH]; intros ws; [reflexivity|].
    cbn [run fold_left]. fold (run G old tl (apply_ev G old ws e)). rewrite IH.
    assert (Hu : forall {X} n (f : X -> X) l, length (upd_nth n f l) = length l).
    { intros X n f l. revert n. induction l as [|x l IHl]; intros [|k]; cbn [upd_nth length]; auto. }
    destruct e as [w i a|t|w t]; cbn [apply_ev]; try apply Hu.
    unfold exchange. destruct ws as [|w0 ws]; [reflexivity|]. cbn [map length]. now rewrite !map_length.
  Qed.

  (* after an exchange all walkers hold the same shared_last_step *)
  Theorem exchange_sets_last : forall t ws w, In w (exchange G t ws) -> wlast w = t.
  Proof.
    intros t ws w H. unfold exchange in H. destruct (map (w_prepare G) ws) as [|r others]; [destruct H|].
    apply in_map_iff in H. destruct H as (x & <- & _). reflexivity.
  Qed.
End ABFProofs.

(* the behaviour before the repair loses the samples collected after the last exchange:
   two walkers, walker 1 collects one sample (address 0, value 1), is restarted, exchange at step 2:
   replica 0 never receives the sample and walker 1's global grid, overwritten by the broadcast, loses it *)
Definition abf_old_witness : list (ev (A:=Z)) := [ESample 1%nat 0 1; ERestart 1%nat 1; EExchange 2].

(* sharing enabled by a script, before the repairs of round 4.
   (1) two eABF walkers with one z sample each (addresses 0 and 1): two outputs in a row leave replica 0 with
       walker 1's sample twice in its OWN z grid;
   (2) two walkers, one sample each, exchange, both restarted by the old reading rule, exchange again with no new
       sample: every walker holds each sample twice. *)
Definition one_at (i : Z) : grid (A:=Z) := fun j => if Z.eqb i j then 1 else 0.
Definition czar_alias_witness : list (ewalker (A:=Z)) :=
  [mkEW (w_init Zgrp 0) (one_at 0) (grid0 Zgrp); mkEW (w_init Zgrp 0) (one_at 1) (grid0 Zgrp)].

Lemma czar_alias_refuted :
  exists r others, czar_gather_step_alias Zgrp (czar_gather_step_alias Zgrp czar_alias_witness) = r :: others /\
    e_z r 1 = 2 /\ e_gz r 1 = 2 /\ msum Zgrp (map e_z czar_alias_witness) 1 = 1.
Proof. eexists. eexists. split; [reflexivity|]. vm_compute. auto. Qed.

Lemma czar_alias_witness_ok :
  exists r others, czar_gather_step Zgrp (czar_gather_step Zgrp czar_alias_witness) = r :: others /\
    e_z r 1 = 0 /\ e_gz r 1 = 1.
Proof. eexists. eexists. split; [reflexivity|]. vm_compute. auto. Qed.

(* replica_share() before it was made a transaction: three walkers, walkers 0 and 1 sample once, exchange, both sample
   once more; in the next round replica 0 receives the delta of walker 1 and then fails on walker 2 (dead).  What replica 0
   can recover as its own data is then 3 samples at address 0; it sampled 2. *)
Definition peer_death_witness : list (ev (A:=Z)) :=
  [ESample 0%nat 0 1; ESample 1%nat 0 1; EExchange 1; ESample 0%nat 0 1; ESample 1%nat 0 1].

Lemma peer_death_old_refuted :
  exists r w, nth_error (run Zgrp false peer_death_witness (init Zgrp 3)) 0 = Some w /\
    root_fail_old Zgrp 1 (run Zgrp false peer_death_witness (init Zgrp 3)) = Some r /\
    own_data Zgrp w 0 = 2 /\ own_data Zgrp r 0 <> 2.
Proof. eexists. eexists. split; [reflexivity|]. split; [reflexivity|]. vm_compute. split; [reflexivity|discriminate]. Qed.

(* inputPrefix with sharing enabled by a script, before the repair: two walkers read one sample at address 0 and exchange *)
Lemma input_old_refuted :
  exists w, nth_error (exchange Zgrp 1 (repeat (w_init_input_old Zgrp (one_at 0) 0) 2)) 0 = Some w /\ wG w 0 = 2.
Proof. eexists. split; [reflexivity|]. vm_compute. reflexivity. Qed.

Definition script_restart_witness : list (ev (A:=Z)) := [ESample 0%nat 0 1; ESample 1%nat 0 1; EExchange 1].

Lemma script_restart_refuted :
  exists w, nth_error (exchange Zgrp 2 (map (w_restart_unshared Zgrp 1) (run Zgrp false script_restart_witness (init Zgrp 2)))) 0 = Some w /\
    wG w 0 = 4 /\ fed_union Zgrp 2 (script_restart_witness ++ [EExchange 2]) 0 = 2.
Proof. eexists. split; [reflexivity|]. vm_compute. auto. Qed.

Lemma script_restart_witness_ok :
  exists w, nth_error (exchange Zgrp 2 (map (w_restart 1) (run Zgrp false script_restart_witness (init Zgrp 2)))) 0 = Some w /\
    wG w 0 = 2.
Proof. eexists. split; [reflexivity|]. vm_compute. auto. Qed.

Lemma abf_old_refuted :
  exists es : list (ev (A:=Z)), exists w, nth_error (run Zgrp true es (init Zgrp 2)) 1 = Some w /\
    wG w 0 <> union_shared Zgrp (h_run es (h_init 2)) 0.
Proof.
  exists abf_old_witness. eexists. split; [reflexivity|]. vm_compute. discriminate.
Qed.

(* the same trace with the repaired restart *)
Lemma abf_new_witness_ok :
  exists w, nth_error (run Zgrp false abf_old_witness (init Zgrp 2)) 1 = Some w /\
    wG w 0 = union_shared Zgrp (h_run abf_old_witness (h_init 2)) 0 /\ wG w 0 = 1.
Proof. eexists. split; [reflexivity|]. vm_compute. auto. Qed.

(* ---- the statements of Properties_C14.v (shared ABF) *)
Lemma abf_union_once_fed : forall (A : Type) (G : GrpOps A), GrpLaws G ->
  forall (n : nat) (es : list (ev (A:=A))) (t : Z) (k : nat) (w : walker (A:=A)),
  nth_error (run G false (es ++ [EExchange t]) (init G n)) k = Some w ->
  forall i, wG w i = fed_union G n (es ++ [EExchange t]) i /\ wL w i = fed_union G n (es ++ [EExchange t]) i.
Proof.
  intros A G HL n es t k w Hk i. rewrite <- (union_shared_is_fed G). apply (abf_union_once G HL _ _ _ _ _ Hk).
Qed.

Lemma abf_state_any_time : forall (A : Type) (G : GrpOps A), GrpLaws G ->
  forall (n : nat) (es : list (ev (A:=A))) (k : nat) (w : walker (A:=A)),
  nth_error (run G false es (init G n)) k = Some w ->
  exists su, nth_error (h_run es (h_init n)) k = Some su /\
    fst su = samples_of k (upto_last_exchange es) /\ fst su ++ snd su = samples_of k es /\
    forall i, wL w i = fed_union G n es i /\
              wG w i = gadd G (fed_union G n es i) (gsum G (snd su) i) /\
              wLoc w i = gsum G (fst su) i.
Proof.
  intros A G HL n es k w Hk. destruct (abf_state G HL _ _ _ _ Hk) as (su & Hsu & Hw).
  exists su. destruct (hist_is_fed _ _ _ _ Hsu) as (F1 & F2).
  split; [auto|]. split; [auto|]. split; [auto|]. intros i. destruct (Hw i) as (H1 & H2 & H3).
  rewrite <- (union_shared_is_fed G). auto.
Qed.

Lemma abf_exchange_points_agree : forall (A : Type) (G : GrpOps A) freq t t' (ws : list (walker (A:=A))) w w',
  In w (exchange G t ws) -> In w' (exchange G t ws) -> share_due freq t' w = share_due freq t' w'.
Proof.
  intros A G freq t t' ws w w' Hw Hw'. apply share_due_agree.
  rewrite (exchange_sets_last G _ _ _ Hw), (exchange_sets_last G _ _ _ Hw'). reflexivity.
Qed.

(* ---- OPES with multiple walkers: after any number of deposition rounds every walker holds the same
   kernel list, the concatenation in rank order of what the walkers contributed in each round *)
Lemma opes_same_list : forall {K : Type} (rounds : list (list K)) (n k : nat) (l : list K),
  nth_error (opes_run rounds n) k = Some l -> l = concat rounds.
Proof.
  intros K rounds n k l.
  assert (Hgen : forall rs (ws : list (list K)) pre, (forall x, In x ws -> x = pre) ->
            forall y, In y (fold_left (fun ws c => opes_round c ws) rs ws) -> y = pre ++ concat rs).
  { induction rs as [|c tl IH]; intros ws pre Hws y Hy; cbn [fold_left concat] in *.
    - rewrite app_nil_r. auto.
    - rewrite app_assoc. apply (IH (opes_round c ws) (pre ++ c)); auto.
      intros x Hx. unfold opes_round, opes_gather in Hx. apply in_map_iff in Hx. destruct Hx as (x0 & <- & Hx0).
      now rewrite (Hws x0 Hx0). }
  intros Hk. apply nth_error_In in Hk. unfold opes_run in Hk.
  apply (Hgen rounds (repeat [] n) []); auto. intros x Hx. now apply repeat_spec in Hx.
Qed.

(* ... so position r*n+p of every walker's list is the kernel that walker p contributed in round r, and there are no
   other positions: every kernel of every walker of every round is held exactly once, by everybody *)
Lemma concat_nth_uniform : forall {K : Type} (n : nat) (rounds : list (list K)),
  Forall (fun c => length c = n) rounds ->
  length (concat rounds) = (length rounds * n)%nat /\
  forall r p c, nth_error rounds r = Some c -> (p < n)%nat -> nth_error (concat rounds) (r * n + p) = nth_error c p.
Proof.
  intros K n rounds H. induction H as [|c0 tl Hc Htl IH].
  - split; [reflexivity|]. intros [|r] p c E; discriminate.
  - destruct IH as [IHl IHn]. split.
    + cbn [concat length]. rewrite app_length, IHl, Hc. reflexivity.
    + intros [|r] p c E Hp; cbn [nth_error] in E.
      * injection E as <-. cbn [concat]. change (0 * n + p)%nat with p. apply nth_error_app1. now rewrite Hc.
      * cbn [concat]. rewrite nth_error_app2 by (rewrite Hc; cbn; lia).
        rewrite Hc. replace (S r * n + p - n)%nat with (r * n + p)%nat by (cbn; lia). now apply IHn.
Qed.

Lemma opes_every_kernel_once : forall {K : Type} (rounds : list (list K)) (n k : nat) (l : list K),
  Forall (fun c => length c = n) rounds -> nth_error (opes_run rounds n) k = Some l ->
  length l = (length rounds * n)%nat /\
  forall r p c, nth_error rounds r = Some c -> (p < n)%nat -> nth_error l (r * n + p) = nth_error c p.
Proof.
  intros K rounds n k l HF Hk. rewrite (opes_same_list rounds n k l Hk). now apply concat_nth_uniform.
Qed.

(* the running sum of weights of every walker = its initial value plus every contribution of every walker of
   every round, each exactly once *)
Lemma opes_sums_total : forall (A : Type) (G : GrpOps A), GrpLaws G ->
  forall (rounds : list (list A)) (s : A), opes_sums G s rounds = fold_left (gadd G) (concat rounds) s.
Proof.
  intros A G HL.
  assert (Hf : forall l a b, fold_left (gadd G) l (gadd G a b) = gadd G a (fold_left (gadd G) l b)).
  { induction l as [|x tl IH]; intros a b; cbn [fold_left]; [reflexivity|]. now rewrite (gl_assoc G HL), IH. }
  assert (Hr : forall hs s, opes_sum_round G s hs = fold_left (gadd G) hs s).
  { intros [|h0 tl] s; cbn [opes_sum_round fold_left]; [reflexivity|]. now rewrite Hf. }
  induction rounds as [|r tl IH]; intros s; cbn [opes_sums fold_left concat]; [reflexivity|].
  fold (opes_sums G (opes_sum_round G s r) tl). rewrite IH, Hr. now rewrite fold_left_app.
Qed.

(* ------------------------------------------------------------------------------------------- *)
(* (b) file-based multiple-walker metadynamics                                                  *)
(* ------------------------------------------------------------------------------------------- *)

Definition prefix (l1 l2 : list hill) : Prop := exists rest, l2 = l1 ++ rest.

Lemma prefix_refl : forall l, prefix l l.
Proof. intros l. exists []. now rewrite app_nil_r. Qed.

Lemma prefix_trans : forall a b c, prefix a b -> prefix b c -> prefix a c.
Proof. intros a b c [r1 ->] [r2 ->]. exists (r1 ++ r2). now rewrite app_assoc. Qed.

Lemma prefix_app : forall a b, prefix a (a ++ b).
Proof. intros a b. now exists b. Qed.

Lemma prefix_app_l : forall a b c, prefix b c -> prefix (a ++ b) (a ++ c).
Proof. intros a b c [r ->]. exists r. now rewrite app_assoc. Qed.

Lemma hill_eqb_eq : forall a b, hill_eqb a b = true <-> a = b.
Proof.
  intros [i p] [j q]. unfold hill_eqb; cbn [hit hpay]. rewrite andb_true_iff, !Z.eqb_eq. split.
  - intros [-> ->]. reflexivity.
  - intros H. injection H as -> ->. auto.
Qed.

Lemma prefixb_spec : forall l1 l2, prefixb l1 l2 = true <-> prefix l1 l2.
Proof.
  induction l1 as [|a t1 IH]; intros l2.
  - cbn [prefixb]. split; auto. intros _. now exists l2.
  - destruct l2 as [|b t2]; cbn [prefixb].
    + split; [discriminate|]. intros [r H]. discriminate.
    + rewrite andb_true_iff, hill_eqb_eq, IH. split.
      * intros [-> [r ->]]. now exists r.
      * intros [r H]. cbn [app] in H. injection H as -> ->. split; auto. now exists r.
Qed.

Lemma firstn_plus : forall {X} (n m : nat) (l : list X), firstn (n + m) l = firstn n l ++ firstn m (skipn n l).
Proof.
  intros X n. induction n as [|k IH]; intros m l; [reflexivity|].
  destruct l as [|x tl]; cbn [Nat.add firstn skipn app].
  - now rewrite firstn_nil.
  - now rewrite IH.
Qed.

Lemma firstn_sub : forall l a b, 0 <= a <= b -> firstn (Z.to_nat a) l ++ sub l a b = firstn (Z.to_nat b) l.
Proof.
  intros l a b H. unfold sub. rewrite <- firstn_plus. f_equal. lia.
Qed.

Lemma firstn_prefix_le : forall (l : list hill) n m, (n <= m)%nat -> prefix (firstn n l) (firstn m l).
Proof.
  intros l n m H. replace m with (n + (m - n))%nat by lia. rewrite firstn_plus. apply prefix_app.
Qed.

Lemma firstn_prefix : forall (l : list hill) n, prefix (firstn n l) l.
Proof. intros l n. exists (skipn n l). symmetry. apply firstn_skipn. Qed.

Lemma Forall_firstn_ : forall {X} (P : X -> Prop) n l, Forall P l -> Forall P (firstn n l).
Proof.
  intros X P n. induction n as [|k IH]; intros l H; [constructor|].
  destruct H as [|x tl Hx Ht]; cbn [firstn]; constructor; auto.
Qed.

Lemma Forall_skipn_ : forall {X} (P : X -> Prop) n l, Forall P l -> Forall P (skipn n l).
Proof.
  intros X P n. induction n as [|k IH]; intros l H; [exact H|].
  destruct H as [|x tl Hx Ht]; cbn [skipn]; auto.
Qed.

Lemma filter_keep_all : forall s l, Forall (fun h => s <= hit h) l -> filter (keep s) l = l.
Proof.
  intros s l H. induction H as [|h tl Hh _ IH]; [reflexivity|].
  cbn [filter]. unfold keep at 1. destruct (Z.leb_spec s (hit h)); [now rewrite IH|lia].
Qed.

Definition cont_of (st : pstate) : list hill := match snd st with Some m => m_cont m | None => [] end.

(* ---- invariants *)
(* F = what has been written after the state file in place: the records of the hills file, or (between the
   two halves of a state-file rewrite) the records of the hills file that has just been removed *)
Definition wF (w : writer) : list hill := w_lost w ++ w_file w.

Definition WInv (w : writer) : Prop :=
  w_D w = sf_hills (w_state w) ++ wF w /\
  (w_lost w = [] \/ (w_file w = [] /\ w_vis w = 0)) /\
  Forall (fun h => sf_step (w_state w) <= hit h) (wF w) /\
  0 <= w_vis w <= Z.of_nat (length (w_file w)).

(* the mirror holds the state file that is in place (whatever file names it remembers: a change of names only
   forces it to read the state file again) *)
Definition current (w : writer) (m : mirror) : Prop :=
  m_has m = true /\ m_S m = sf_step (w_state w).

Definition MInv (w : writer) (om : option mirror) : Prop :=
  match om with
  | None => True
  | Some m =>
      (m_has m = false -> m_cont m = []) /\
      (m_has m = true -> m_S m <= sf_step (w_state w)) /\
      (current w m -> m_cont m = sf_hills (w_state w) ++ firstn (Z.to_nat (m_pos m)) (wF w) /\
                      0 <= m_pos m <= Z.of_nat (length (wF w))) /\
      (~ current w m -> prefix (m_cont m) (sf_hills (w_state w)))
  end.

Definition pinv (st : pstate) : Prop := WInv (fst st) /\ MInv (fst st) (snd st).

Lemma current_dec : forall w m, current w m \/ ~ current w m.
Proof.
  intros w m. unfold current. destruct (m_has m); [|right; intros [H _]; discriminate].
  destruct (Z.eq_dec (m_S m) (sf_step (w_state w))) as [HS|HS]; [left; auto|right; intros [_ H]; auto].
Qed.

Lemma pinv_init : pinv pinit.
Proof.
  unfold pinv, pinit, WInv, wr_init, wF; cbn. repeat split; auto; try lia.
Qed.

Lemma forallb_le : forall s l, forallb (fun x => hit x <=? s) l = true -> Forall (fun x => hit x <= s) l.
Proof.
  intros s l H. apply Forall_forall. intros x Hx. rewrite forallb_forall in H.
  specialize (H x Hx). lia.
Qed.

Lemma is_nil_spec : forall l, is_nil l = true -> l = [].
Proof. intros [|x l] H; [reflexivity|discriminate]. Qed.

Lemma steps_ok_spec : forall w s, steps_ok w s = true ->
  sf_step (w_state w) <= s /\ Forall (fun x => hit x <= s) (w_D w) /\
  (sf_step (w_state w) = s -> wF w = []).
Proof.
  intros w s H. unfold steps_ok in H. apply andb_true_iff in H. destruct H as [H H3].
  apply andb_true_iff in H. destruct H as [H1 H2].
  apply Z.leb_le in H1. apply forallb_le in H2. repeat split; auto.
  intros E. apply orb_true_iff in H3. destruct H3 as [H3|H3]; [apply Z.ltb_lt in H3; lia|].
  apply andb_true_iff in H3. destruct H3 as [Ha Hb]. unfold wF. now rewrite (is_nil_spec _ Ha), (is_nil_spec _ Hb).
Qed.

(* the state file is replaced by (s, everything deposited) and nothing is left outside it *)
Lemma MInv_newstate : forall w w' m s, WInv w -> MInv w (Some m) ->
  sf_step (w_state w) <= s -> (sf_step (w_state w) = s -> wF w = []) ->
  w_state w' = mkSF s (w_D w) -> wF w' = [] ->
  MInv w' (Some m).
Proof.
  intros w w' m s HW (Hnd & HSle & Hcur & Hnc) Hs Hsame0 Hst' Hf'. unfold MInv.
  assert (Hsame : current w' m -> current w m /\ wF w = []).
  { intros (Hh & HS). rewrite Hst' in HS; cbn [sf_step] in HS. specialize (HSle Hh).
    assert (E : sf_step (w_state w) = s) by lia.
    split; [split; auto; lia|]. apply Hsame0, E. }
  split; [auto|]. split; [|split].
  - intros Hh. rewrite Hst'; cbn [sf_step]. specialize (HSle Hh). lia.
  - intros Hc'. destruct (Hsame Hc') as (Hc & Hfe). destruct (Hcur Hc) as (Hcont & Hp).
    rewrite Hst', Hf'; cbn [sf_hills length]. rewrite firstn_nil, app_nil_r.
    rewrite Hfe in Hp, Hcont. cbn [length] in Hp. rewrite firstn_nil, app_nil_r in Hcont.
    destruct HW as (HD & _). rewrite HD, Hfe, app_nil_r. split; auto.
  - intros Hnc'. rewrite Hst'; cbn [sf_hills]. destruct HW as (HD & _).
    destruct (current_dec w m) as [Hc|Hc].
    + destruct (Hcur Hc) as (Hcont & _). rewrite Hcont, HD. apply prefix_app_l. apply firstn_prefix.
    + specialize (Hnc Hc). rewrite HD. eapply prefix_trans; [exact Hnc|]. apply prefix_app.
Qed.

Lemma WInv_newstate : forall w w' s, w_D w' = w_D w -> w_state w' = mkSF s (w_D w) ->
  w_lost w' = [] -> w_file w' = [] -> w_vis w' = 0 -> WInv w'.
Proof.
  intros w w' s HD Hst Hl Hf Hv. unfold WInv, wF. rewrite HD, Hst, Hl, Hf, Hv. cbn. rewrite app_nil_r.
  repeat split; auto; lia.
Qed.

(* the invariant of a mirror only looks at these parts of the writer *)
Lemma MInv_ext : forall w w' om, w_state w' = w_state w -> wF w' = wF w -> MInv w om -> MInv w' om.
Proof.
  intros w w' [m|] Hst HF H; [|exact I]. unfold MInv, current in *. rewrite Hst, HF. exact H.
Qed.

(* what update_replicas_registry() does to a mirror: only what it knows about file names changes *)
Lemma share_names_frame : forall w om m1, share_names w om = Some m1 ->
  let m0 := match om with None => m_new | Some m => m end in
  m_has m1 = m_has m0 /\ m_pos m1 = m_pos m0 /\ m_S m1 = m_S m0 /\ m_cont m1 = m_cont m0.
Proof.
  intros w om m1 H. unfold share_names in H.
  destruct (w_reg w && negb (w_rv w =? 0)).
  - cbn [m_lf m_name m_hf] in H.
    destruct ((w_rv w =? 2) && negb (w_lv w =? 0) &&
              negb (name_is (m_name match om with None => m_new | Some m => m end) (w_name w) &&
                    (m_hf match om with None => m_new | Some m => m end =? w_lv w)));
      injection H as <-; cbn; auto.
  - destruct om as [m|]; [|discriminate].
    destruct (m_lf m && negb (w_lv w =? 0) && negb (name_is (m_name m) (w_name w) && (m_hf m =? w_lv w)));
      injection H as <-; cbn; auto.
Qed.

Lemma share_names_none : forall w om, share_names w om = None -> om = None.
Proof.
  intros w om H. unfold share_names in H. destruct (w_reg w && negb (w_rv w =? 0)).
  - match type of H with (if ?c then _ else _) = _ => destruct c end; discriminate.
  - destruct om as [m|]; auto.
    destruct (m_lf m && negb (w_lv w =? 0) && negb (name_is (m_name m) (w_name w) && (m_hf m =? w_lv w))); discriminate.
Qed.

Lemma MInv_frame : forall w m m', MInv w (Some m) ->
  m_has m' = m_has m -> m_pos m' = m_pos m -> m_S m' = m_S m -> m_cont m' = m_cont m -> MInv w (Some m').
Proof.
  intros w m m' H Hh Hp HS Hc. unfold MInv, current in *. rewrite Hh, Hp, HS, Hc. exact H.
Qed.

Lemma MInv_new : forall w, MInv w (Some m_new).
Proof.
  intros w. unfold MInv, m_new, current; cbn [m_has m_cont m_S m_pos].
  split; [auto|]. split; [discriminate|]. split; [intros [H0 _]; discriminate|].
  intros _. exists (sf_hills (w_state w)). reflexivity.
Qed.

Lemma MInv_names : forall w om m1, MInv w om -> share_names w om = Some m1 -> MInv w (Some m1).
Proof.
  intros w om m1 HM H. destruct (share_names_frame w om m1 H) as (H1 & H2 & H3 & H4).
  destruct om as [m|].
  - eapply MInv_frame; eauto.
  - eapply MInv_frame; [apply MInv_new| | | |]; auto.
Qed.

(* with the complete registry record and the complete list file the mirror knows the right file names *)
Lemma share_names_complete : forall w om, w_reg w = true -> w_rv w = 2 -> w_lv w = 2 ->
  exists m1, share_names w om = Some m1 /\ m_name m1 = Some (w_name w) /\ m_hf m1 = 2.
Proof.
  intros w om Hreg Hrv Hlv. unfold share_names. rewrite Hreg, Hrv, Hlv. cbn [Z.eqb Pos.eqb negb andb m_lf m_name m_hf].
  set (m0 := match om with None => m_new | Some m => m end).
  destruct (name_is (m_name m0) (w_name w) && (m_hf m0 =? 2)) eqn:E; cbn [negb]; eexists; split; try reflexivity; cbn [m_name m_hf]; auto.
  apply andb_true_iff in E. destruct E as [E1 E2]. apply Z.eqb_eq in E2. split; auto.
  unfold name_is in E1. destruct (m_name m0) as [k|]; [|discriminate]. apply Z.eqb_eq in E1. now subst.
Qed.

Lemma share_read_skip : forall f1 f2 w m1, m_name m1 = None \/ w_sok w = false -> share_read f1 f2 w m1 = m1.
Proof.
  intros f1 f2 w m1 [H|H]; unfold share_read; [now rewrite H|]. destruct (m_name m1); auto. now rewrite H.
Qed.

(* read_replica_files() for a mirror that knows a state file name, when the peer's state file is all there
   (all repairs in place) *)
Lemma share_read_spec : forall w m1 k0, WInv w -> MInv w (Some m1) -> m_name m1 = Some k0 -> w_sok w = true ->
  let m := share_read true true w m1 in
    current w m /\ m_sync m = true /\
    m_cont m = sf_hills (w_state w) ++ firstn (Z.to_nat (m_pos m)) (wF w) /\
    0 <= m_pos m <= Z.of_nat (length (wF w)) /\
    (m_hf m1 = 2 -> w_lost w = [] -> w_vis w <= m_pos m).
Proof.
  intros w m1 k0 (HD & Hlf & HF & Hv) HM Hname Hsok. cbv zeta.
  unfold share_read. rewrite Hname, Hsok. cbn [negb].
  set (m2 := if true && m_has m1 && m_sync m1 && negb (sf_step (w_state w) =? m_S m1)
             then mkM (Some k0) false (m_has m1) (m_pos m1) (m_S m1) (m_cont m1) (m_lf m1) (m_hf m1) else m1).
  set (m3 := if negb (m_has m2) || negb (m_sync m2)
             then mkM (m_name m2) true true 0 (sf_step (w_state w)) (sf_hills (w_state w)) (m_lf m2) (m_hf m2) else m2).
  assert (Hhf : m_hf m3 = m_hf m1).
  { unfold m3, m2. destruct (true && m_has m1 && m_sync m1 && negb (sf_step (w_state w) =? m_S m1)); cbn [m_has m_sync m_hf];
      match goal with |- m_hf (if ?c then _ else _) = _ => destruct c end; reflexivity. }
  assert (H3 : current w m3 /\ m_sync m3 = true /\
               m_cont m3 = sf_hills (w_state w) ++ firstn (Z.to_nat (m_pos m3)) (wF w) /\
               0 <= m_pos m3 <= Z.of_nat (length (wF w))).
  { destruct (negb (m_has m2) || negb (m_sync m2)) eqn:Ere.
    - unfold m3. try rewrite Ere. cbn [m_name m_has m_sync m_pos m_cont m_S]. unfold current; cbn [m_S m_has].
      rewrite firstn_O, app_nil_r. repeat split; auto; lia.
    - unfold m3. try rewrite Ere. apply orb_false_elim in Ere. destruct Ere as [Eh Es].
      apply negb_false_iff in Eh. apply negb_false_iff in Es.
      assert (E21 : m2 = m1 /\ (sf_step (w_state w) =? m_S m1) = true).
      { unfold m2 in *. destruct (true && m_has m1 && m_sync m1 && negb (sf_step (w_state w) =? m_S m1)) eqn:E.
        - cbn [m_sync] in Es. discriminate.
        - split; auto. cbn [andb] in E. rewrite Eh, Es in E. cbn [andb] in E. now apply negb_false_iff in E. }
      destruct E21 as [E21 ES]. rewrite E21 in *. apply Z.eqb_eq in ES.
      destruct HM as (Hnd & HSle & Hcur & Hnc).
      assert (Hc : current w m1) by (split; auto).
      destruct (Hcur Hc) as (Hcont & Hp). repeat split; auto; lia. }
  destruct H3 as (Hc3 & Hs3 & Hcont3 & Hp3).
  destruct ((m_hf m3 =? 2) && (m_pos m3 <=? w_vis w)) eqn:Eread.
  - apply andb_true_iff in Eread. destruct Eread as [_ Hle]. apply Z.leb_le in Hle.
    cbn [m_name m_has m_sync m_pos m_cont m_S m_hf].
    destruct Hlf as [Hl | [Hf Hv0]].
    + assert (EF : wF w = w_file w) by (unfold wF; now rewrite Hl). rewrite EF in *.
      split; [destruct Hc3; split; auto|]. repeat split; auto; try lia.
      rewrite Hcont3, <- app_assoc. f_equal. rewrite filter_keep_all.
      * apply firstn_sub. lia.
      * destruct Hc3 as (_ & ->). unfold sub. apply Forall_firstn_, Forall_skipn_. exact HF.
    + assert (Ep : m_pos m3 = 0) by lia.
      split; [destruct Hc3; split; auto|]. rewrite Hf. unfold sub. rewrite skipn_nil, firstn_nil. cbn [filter].
      rewrite app_nil_r. rewrite Hv0. rewrite Ep in *. repeat split; auto; try lia.
  - split; [exact Hc3|]. split; [exact Hs3|]. split; [exact Hcont3|]. split; [exact Hp3|].
    intros Hh2 _. rewrite Hhf, Hh2 in Eread. cbn [Z.eqb Pos.eqb andb] in Eread. apply Z.leb_gt in Eread. lia.
Qed.

Lemma MInv_of_current : forall w m, current w m ->
  m_cont m = sf_hills (w_state w) ++ firstn (Z.to_nat (m_pos m)) (wF w) ->
  0 <= m_pos m <= Z.of_nat (length (wF w)) -> MInv w (Some m).
Proof.
  intros w m Hc Hcont Hp. unfold MInv. destruct Hc as (Hh & HS).
  repeat split; auto; try lia.
  - intros Hf. congruence.
  - intros Hnc. exfalso. apply Hnc. split; auto.
Qed.

(* whatever is visible of the registry record, the list file and the state file: the invariant survives an exchange *)
Lemma MInv_share : forall w om, WInv w -> MInv w om -> MInv w (share true true w om).
Proof.
  intros w om HW HM. unfold share. destruct (share_names w om) as [m1|] eqn:E; [|exact I].
  pose proof (MInv_names w om m1 HM E) as HM1.
  destruct (m_name m1) as [k0|] eqn:En.
  - destruct (w_sok w) eqn:Hsok.
    + destruct (share_read_spec w m1 k0 HW HM1 En Hsok) as (Hc & _ & Hcont & Hp & _).
      apply MInv_of_current; auto.
    + rewrite share_read_skip; auto.
  - rewrite share_read_skip; auto.
Qed.

Lemma MInv_deposit : forall w om h, w_lost w = [] -> MInv w om -> MInv (wr_deposit w h) om.
Proof.
  intros w [m|] h Hl H; [|exact I]. destruct H as (Hnd & HSle & Hcur & Hnc).
  unfold MInv, wr_deposit, current, wF in *; cbn [w_state w_file w_lost] in *. rewrite Hl in *. cbn [app] in *.
  repeat split; auto.
  - destruct (Hcur H) as (Hc & Hp). rewrite Hc. f_equal.
    rewrite firstn_app. replace (Z.to_nat (m_pos m) - length (w_file w))%nat with 0%nat by lia.
    now rewrite firstn_O, app_nil_r.
  - destruct (Hcur H); lia.
  - destruct (Hcur H) as (_ & Hp). rewrite app_length. cbn [length]. lia.
Qed.

Lemma WInv_deposit : forall w h, WInv w -> w_lost w = [] -> sf_step (w_state w) <= hit h -> WInv (wr_deposit w h).
Proof.
  intros w h (HD & Hlf & HF & Hv) Hl Hh. unfold WInv, wr_deposit, wF in *; cbn [w_D w_state w_file w_vis w_lost] in *.
  rewrite Hl in *. cbn [app] in *. repeat split; auto.
  - rewrite HD. now rewrite app_assoc.
  - apply Forall_app. split; auto.
  - lia.
  - rewrite app_length. cbn [length]. lia.
Qed.

Lemma WInv_fresh : forall w, WInv w -> file_fresh w = true.
Proof.
  intros w (_ & _ & HF & _). unfold file_fresh. apply forallb_forall. intros h Hh.
  rewrite Forall_forall in HF. apply Z.leb_le. apply HF. unfold wF. apply in_or_app. auto.
Qed.

Lemma writer_eq : forall a b, w_D a = w_D b -> w_reg a = w_reg b -> w_name a = w_name b ->
  w_state a = w_state b -> w_file a = w_file b -> w_vis a = w_vis b -> w_lost a = w_lost b ->
  w_sok a = w_sok b -> w_rv a = w_rv b -> w_lv a = w_lv b -> a = b.
Proof. intros [] []; cbn; intros; subst; reflexivity. Qed.

(* one event of the repaired protocol (restart the hills file, then rename the state file) *)
Lemma pinv_step : forall st e, pinv st -> ev_ok true (fst st) e = true -> pinv (pstep true true st e).
Proof.
  intros [w om] e [HW HM] Hok. cbn [fst snd] in *.
  destruct e as [h|c|s|s| |b|k|k|s nn| | |]; cbn [pstep ev_ok] in *.
  - (* deposit *)
    apply andb_true_iff in Hok. destruct Hok as [Hok H3]. apply andb_true_iff in Hok. destruct Hok as [H1 _].
    apply is_nil_spec in H1. apply Z.leb_le in H3.
    split; cbn [fst snd]; [apply WInv_deposit|apply MInv_deposit]; auto.
  - (* visibility of the hills file *)
    split; cbn [fst snd].
    + destruct HW as (HD & Hlf & HF & Hv). unfold WInv, wr_vis, wF in *; cbn [w_D w_state w_file w_vis w_lost] in *.
      repeat split; auto; try lia. destruct Hlf as [Hl|[Hf Hv0]]; auto. right. split; auto. rewrite Hf. cbn [length]. lia.
    + eapply MInv_ext; [| |exact HM]; reflexivity.
  - (* state-file rewrite as one event *)
    apply andb_true_iff in Hok. destruct Hok as [_ Hok]. destruct (steps_ok_spec _ _ Hok) as (H1 & H2 & H2s).
    split; cbn [fst snd]; [eapply (WInv_newstate w); reflexivity|].
    destruct om as [m|]; [|exact I]. eapply (MInv_newstate w); eauto.
  - (* renaming the state file: the hills file has been restarted (or was empty) *)
    apply andb_true_iff in Hok. destruct Hok as [Hn Hok]. apply is_nil_spec in Hn.
    destruct (steps_ok_spec _ _ Hok) as (H1 & H2 & H2s).
    assert (Hv0 : w_vis w = 0) by (destruct HW as (_ & _ & _ & Hv); rewrite Hn in Hv; cbn [length] in Hv; lia).
    split; cbn [fst snd].
    + eapply (WInv_newstate w); cbn; auto.
    + destruct om as [m|]; [|exact I]. eapply (MInv_newstate w); eauto; try (unfold wF; cbn; now rewrite Hn).
  - (* restarting the hills file: what it held stays outside every file until the state file is renamed *)
    assert (EF : wF (wr_state_b w) = wF w).
    { destruct HW as (HD & Hlf & _). unfold wF, wr_state_b; cbn [w_lost w_file]. rewrite app_nil_r.
      fold (wF w). rewrite HD, app_length. replace (length (sf_hills (w_state w)) + length (wF w) - (length (sf_hills (w_state w)) + length (wF w)))%nat with 0%nat by lia.
      reflexivity. }
    split; cbn [fst snd].
    + destruct HW as (HD & Hlf & HF & Hv). unfold WInv. rewrite EF. cbn [wr_state_b w_D w_state w_file w_vis w_lost].
      repeat split; auto; try lia; cbn [length]; lia.
    + eapply MInv_ext; [| |exact HM]; auto.
  - (* visibility of the state file *)
    split; cbn [fst snd].
    + destruct HW as (HD & Hlf & HF & Hv). unfold WInv, wr_svis, wF in *; cbn in *. repeat split; auto; lia.
    + eapply MInv_ext; [| |exact HM]; reflexivity.
  - (* ... of the registry record *)
    split; cbn [fst snd].
    + destruct HW as (HD & Hlf & HF & Hv). unfold WInv, wr_rvis, wF in *; cbn in *. repeat split; auto; lia.
    + eapply MInv_ext; [| |exact HM]; reflexivity.
  - (* ... of the list file *)
    split; cbn [fst snd].
    + destruct HW as (HD & Hlf & HF & Hv). unfold WInv, wr_lvis, wF in *; cbn in *. repeat split; auto; lia.
    + eapply MInv_ext; [| |exact HM]; reflexivity.
  - (* setup_output *)
    apply andb_true_iff in Hok. destruct Hok as [_ Hok]. destruct (steps_ok_spec _ _ Hok) as (H1 & H2 & H2s).
    split; cbn [fst snd]; [eapply (WInv_newstate w); reflexivity|].
    destruct om as [m|]; [|exact I]. eapply (MInv_newstate w); eauto.
  - (* the reader exchanges *)
    split; cbn [fst snd]; auto. apply MInv_share; auto.
  - split; cbn [fst snd]; auto. destruct om as [m|]; [|exact I]. exact HM.
  - split; cbn [fst snd]; auto. exact I.
Qed.

Lemma pinv_run : forall es st, pinv st -> trace_ok true true true es st = true -> pinv (prun true true es st).
Proof.
  induction es as [|e tl IH]; intros st H Hok; [exact H|].
  cbn [trace_ok] in Hok. apply andb_true_iff in Hok. destruct Hok as [H1 H2].
  cbn [prun fold_left]. apply IH; auto. apply pinv_step; auto.
Qed.

(* at any moment of any trace: what the reader holds for the peer is a prefix of what the peer deposited *)
Theorem meta_prefix_always : forall es w m, trace_ok true true true es pinit = true ->
  prun true true es pinit = (w, Some m) -> prefix (m_cont m) (w_D w).
Proof.
  intros es w m Hok Hrun. pose proof (pinv_run es pinit pinv_init Hok) as H. rewrite Hrun in H.
  destruct H as [(HD & _) (Hnd & HSle & Hcur & Hnc)]. cbn [fst snd] in *.
  rewrite HD. destruct (current_dec w m) as [Hc|Hc].
  - destruct (Hcur Hc) as (-> & _). apply prefix_app_l, firstn_prefix.
  - eapply prefix_trans; [apply (Hnc Hc)|apply prefix_app].
Qed.

Lemma prun_app : forall f1 f2 es1 es2 st, prun f1 f2 (es1 ++ es2) st = prun f1 f2 es2 (prun f1 f2 es1 st).
Proof. intros. unfold prun. apply fold_left_app. Qed.

Lemma trace_ok_app : forall sr f1 f2 es1 es2 st, trace_ok sr f1 f2 (es1 ++ es2) st = true ->
  trace_ok sr f1 f2 es1 st = true /\ trace_ok sr f1 f2 es2 (prun f1 f2 es1 st) = true.
Proof.
  intros sr f1 f2 es1. induction es1 as [|e tl IH]; intros es2 st H; [auto|].
  cbn [app trace_ok] in H. apply andb_true_iff in H. destruct H as [H1 H2].
  destruct (IH _ _ H2) as [H3 H4]. cbn [trace_ok prun fold_left]. rewrite H1, H3. auto.
Qed.

(* right after a replica_share() of the reader, at ANY moment of the peer's activity, when the peer's record in the
   registry and its list file are all there: everything of the peer that is visible (its state file, if all of it
   is visible, and the complete records of its hills file) is in the mirror, once and in order, and nothing else than
   hills of the peer; a partly visible state file leaves the content untouched *)
Theorem meta_share_complete : forall es w om, trace_ok true true true (es ++ [RShare]) pinit = true ->
  prun true true (es ++ [RShare]) pinit = (w, om) -> w_reg w = true -> w_rv w = 2 -> w_lv w = 2 ->
  exists m, om = Some m /\ prefix (visible w) (m_cont m) /\ prefix (m_cont m) (w_D w) /\
            (w_sok w = true -> m_sync m = true) /\
            (w_sok w = false -> m_cont m = cont_of (prun true true es pinit)).
Proof.
  intros es w om Hok Hrun Hreg Hrv Hlv. rewrite prun_app in Hrun.
  destruct (trace_ok_app _ _ _ _ _ _ Hok) as [Hok1 _].
  pose proof (pinv_run es pinit pinv_init Hok1) as H.
  destruct (prun true true es pinit) as [w' om'] eqn:E. cbn [prun fold_left pstep] in Hrun.
  injection Hrun as <- <-. destruct H as [HW HM]. cbn [fst snd] in *.
  destruct (share_names_complete w' om' Hreg Hrv Hlv) as (m1 & Hn & Hname & Hhf).
  pose proof (MInv_names w' om' m1 HM Hn) as HM1.
  destruct (share_names_frame w' om' m1 Hn) as (_ & _ & _ & Hc1).
  unfold share. rewrite Hn.
  exists (share_read true true w' m1). split; auto.
  destruct (w_sok w') eqn:Hsok.
  - destruct (share_read_spec w' m1 _ HW HM1 Hname Hsok) as (Hc & Hsy & Hcont & Hp & Hvis).
    destruct HW as (HD & Hlf & HF & Hv).
    split; [|split; [|split; [auto|discriminate]]].
    + unfold visible. rewrite Hsok, Hrv, Hlv. cbn [Z.eqb Pos.eqb andb]. rewrite Hcont. apply prefix_app_l.
      destruct Hlf as [Hl|[Hf Hv0]].
      * unfold wF. rewrite Hl. cbn [app]. apply firstn_prefix_le. specialize (Hvis Hhf Hl). lia.
      * rewrite Hf, firstn_nil. exists (firstn (Z.to_nat (m_pos (share_read true true w' m1))) (wF w')). reflexivity.
    + rewrite Hcont, HD. apply prefix_app_l, firstn_prefix.
  - rewrite share_read_skip by auto.
    split; [|split; [|split; [discriminate|]]].
    + unfold visible. rewrite Hsok. exists (m_cont m1). reflexivity.
    + destruct HM1 as (Hnd & HSle & Hcur & Hnc). destruct HW as (HD & _). rewrite HD.
      destruct (current_dec w' m1) as [Hc|Hc].
      * destruct (Hcur Hc) as (-> & _). apply prefix_app_l, firstn_prefix.
      * eapply prefix_trans; [apply (Hnc Hc)|apply prefix_app].
    + intros _. rewrite Hc1. unfold cont_of. cbn [snd]. destruct om'; reflexivity.
Qed.

(* a (re)read state file replaces whatever the mirror held: the result does not depend on the previous
   content or read position *)
Theorem meta_state_replaces : forall w m k0, m_name m = Some k0 -> m_hf m = 2 -> w_sok w = true ->
  (m_sync m = false \/ m_has m = false \/ (m_S m <> sf_step (w_state w) /\ m_has m = true)) ->
  let m' := share_read true true w m in
    m_cont m' = sf_hills (w_state w) ++
                filter (keep (sf_step (w_state w))) (firstn (Z.to_nat (w_vis w)) (w_file w)) /\
    m_S m' = sf_step (w_state w) /\ m_pos m' = Z.max 0 (w_vis w).
Proof.
  intros w m k0 Hname Hhf Hsok Hcase. cbv zeta. unfold share_read. rewrite Hname, Hsok. cbn [negb].
  set (m2 := if true && m_has m && m_sync m && negb (sf_step (w_state w) =? m_S m)
             then mkM (Some k0) false (m_has m) (m_pos m) (m_S m) (m_cont m) (m_lf m) (m_hf m) else m).
  assert (Hre : negb (m_has m2) || negb (m_sync m2) = true).
  { unfold m2. destruct (true && m_has m && m_sync m && negb (sf_step (w_state w) =? m_S m)) eqn:E.
    - cbn [m_sync m_has]. apply orb_true_r.
    - cbn [andb] in E. destruct Hcase as [H|[H|[H1 H2]]].
      + rewrite H. apply orb_true_r.
      + rewrite H. reflexivity.
      + rewrite H2 in *. cbn [andb negb orb] in *. destruct (m_sync m); cbn [andb negb] in *; auto.
        apply negb_false_iff, Z.eqb_eq in E. congruence. }
  assert (Hhf2 : m_hf m2 = 2).
  { unfold m2. destruct (true && m_has m && m_sync m && negb (sf_step (w_state w) =? m_S m)); auto. }
  rewrite Hre. cbn [m_pos m_S m_cont m_name m_sync m_hf]. rewrite Hhf2. cbn [Z.eqb Pos.eqb andb].
  destruct (Z.leb_spec 0 (w_vis w)) as [Hv|Hv]; cbn [m_cont m_S m_pos].
  - repeat split; try lia. f_equal. f_equal. unfold sub. rewrite skipn_O. f_equal. lia.
  - repeat split; try lia. replace (Z.to_nat (w_vis w)) with 0%nat by lia. now rewrite firstn_O, app_nil_r.
Qed.

(* the writer's own data: nothing the reader does changes what the writer deposited, and the writer's
   own list only grows by its own deposits *)
Theorem meta_own_untouched : forall f1 f2 st e,
  match e with
  | PDeposit h => w_D (fst (pstep f1 f2 st e)) = w_D (fst st) ++ [h]
  | _ => w_D (fst (pstep f1 f2 st e)) = w_D (fst st)
  end.
Proof. intros f1 f2 [w m] e. destruct e; reflexivity. Qed.

(* ---- the code before the repairs *)

Definition H (i : Z) : hill := mkHill i i.

(* repair 1 missing (both walkers write their state files at the same steps, as with one restart
   frequency): the peer deposits hills 1,2 (read), writes its state at step 2, deposits 3,4,5;
   the reader writes its own state, rereads the peer's state file but keeps read position 2 in the new
   hills file: it gets hill 5 without 3 and 4 *)
Definition meta_w1 : list pev :=
  [PSetup 0 false; PDeposit (H 1); PDeposit (H 2); PVis 2; RShare;
   PWState 2; RWState; PDeposit (H 3); PDeposit (H 4); PDeposit (H 5); PVis 3; RShare].

(* repair 2 missing: the reader does not write state files; the peer writes one at step 2 and
   deposits 3,4,5: the reader goes on reading the new hills file at the old position *)
Definition meta_w2 : list pev :=
  [PSetup 0 false; PDeposit (H 1); PDeposit (H 2); PVis 2; RShare;
   PWState 2; PDeposit (H 3); PDeposit (H 4); PDeposit (H 5); PVis 3; RShare].


Lemma meta_old1_refuted : exists es, trace_ok true false false es pinit = true /\
  prefixb (cont_of (prun false false es pinit)) (w_D (fst (prun false false es pinit))) = false.
Proof. exists meta_w1. split; vm_compute; reflexivity. Qed.

Lemma meta_old2_refuted : exists es, trace_ok true true false es pinit = true /\
  prefixb (cont_of (prun true false es pinit)) (w_D (fst (prun true false es pinit))) = false.
Proof. exists meta_w2. split; vm_compute; reflexivity. Qed.

Lemma meta_witnesses_repaired :
  cont_of (prun true true meta_w1 pinit) = [H 1; H 2; H 3; H 4; H 5] /\
  cont_of (prun true true meta_w2 pinit) = [H 1; H 2; H 3; H 4; H 5] /\
  trace_ok true true true meta_w1 pinit = true /\ trace_ok true true true meta_w2 pinit = true.
Proof. vm_compute. auto. Qed.

(* the order of the two halves before repair 8 (state file renamed, then hills file restarted): a reader that
   exchanges in between rereads the state file, skips the old records by their steps and remembers their number;
   once the hills file has been restarted it reads the new file from that position: hills 3 and 4 are lost
   until the next state file *)
Definition meta_w3 : list pev :=
  [PSetup 0 false; PDeposit (H 1); PDeposit (H 2); PVis 2; RShare;
   PWStateA 2; RShare; PWStateB; PDeposit (H 3); PDeposit (H 4); PDeposit (H 5); PVis 3; RShare].

Lemma meta_old_order_refuted : exists es, trace_ok false true true es pinit = true /\
  prefixb (cont_of (prun true true es pinit)) (w_D (fst (prun true true es pinit))) = false.
Proof. exists meta_w3. split; vm_compute; reflexivity. Qed.

(* the same scenario with the halves in the order of the repaired code *)
Definition meta_w3_new : list pev :=
  [PSetup 0 false; PDeposit (H 1); PDeposit (H 2); PVis 2; RShare;
   PWStateB; RShare; PWStateA 2; PDeposit (H 3); PDeposit (H 4); PDeposit (H 5); PVis 3; RShare].

Lemma meta_w3_new_ok : trace_ok true true true meta_w3_new pinit = true /\
  cont_of (prun true true meta_w3_new pinit) = [H 1; H 2; H 3; H 4; H 5].
Proof. vm_compute. auto. Qed.

Lemma meta_prefix_both :
  (forall es w m, trace_ok true true true es pinit = true ->
     prun true true es pinit = (w, Some m) -> prefix (m_cont m) (w_D w)) /\
  (forall es w om, trace_ok true true true (es ++ [RShare]) pinit = true ->
     prun true true (es ++ [RShare]) pinit = (w, om) -> w_reg w = true -> w_rv w = 2 -> w_lv w = 2 ->
     exists m, om = Some m /\ prefix (visible w) (m_cont m) /\ prefix (m_cont m) (w_D w) /\
               (w_sok w = true -> m_sync m = true) /\
               (w_sok w = false -> m_cont m = cont_of (prun true true es pinit))).
Proof. split; [exact meta_prefix_always|exact meta_share_complete]. Qed.
