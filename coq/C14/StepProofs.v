(* C14: the exchange round of shared ABF in small steps refines the atomic round of SharedModel.exchange.
   No law about the grid values is needed: the refinement is structural. *)
From Coq Require Import ZArith List Bool Lia Arith.
From CV Require Import C14.SharedModel.
Import ListNotations.

Section StepProofs.
  Context {A : Type} (G : GrpOps A).
  Notation W := (walker (A:=A)).
  Notation WP := (walker (A:=A) * phase)%type.

  (* ---- list helpers *)
  Lemma firstn_upd_nth_ge : forall {X} (f : X -> X) (l : list X) j m, (m <= j)%nat ->
    firstn m (upd_nth j f l) = firstn m l.
  Proof.
    intros X f l. induction l as [|x tl IH]; intros j m H; [destruct j; reflexivity|].
    destruct m as [|m']; [reflexivity|]. destruct j as [|j']; [lia|].
    cbn [upd_nth firstn]. f_equal. apply IH. lia.
  Qed.

  Lemma firstn_S_nth : forall {X} (l : list X) m b, nth_error l m = Some b ->
    firstn (S m) l = firstn m l ++ [b].
  Proof.
    intros X l. induction l as [|x tl IH]; intros m b H; [destruct m; discriminate|].
    destruct m as [|m']; cbn [nth_error] in H.
    - injection H as <-. reflexivity.
    - cbn [firstn app]. f_equal. change (firstn (S m') tl = firstn m' tl ++ [b]). now apply IH.
  Qed.

  Lemma Forall2_nth_l : forall {X Y} (P : X -> Y -> Prop) l1 l2 j x, Forall2 P l1 l2 ->
    nth_error l1 j = Some x -> exists y, nth_error l2 j = Some y /\ P x y.
  Proof.
    intros X Y P l1 l2 j x H. revert j. induction H as [|a b l1 l2 Hab _ IH]; intros j Hj.
    - destruct j; discriminate.
    - destruct j as [|j']; cbn [nth_error] in *.
      + injection Hj as <-. eauto.
      + apply IH; auto.
  Qed.

  Lemma Forall2_upd_nth_at : forall {X Y} (P : X -> Y -> Prop) (f : X -> X) (g : Y -> Y) l1 l2 j,
    Forall2 P l1 l2 ->
    (forall x y, nth_error l1 j = Some x -> nth_error l2 j = Some y -> P x y -> P (f x) (g y)) ->
    Forall2 P (upd_nth j f l1) (upd_nth j g l2).
  Proof.
    intros X Y P f g l1 l2 j H. revert j. induction H as [|a b l1 l2 Hab Ht IH]; intros j Hfg; [constructor|].
    destruct j as [|j']; cbn [upd_nth].
    - constructor; [apply Hfg; auto | auto].
    - constructor; [auto | apply IH; intros x y Hx Hy; apply Hfg; auto].
  Qed.

  Lemma Forall2_upd_nth_l : forall {X Y} (P : X -> Y -> Prop) (f : X -> X) l1 l2 j,
    Forall2 P l1 l2 ->
    (forall x y, nth_error l1 j = Some x -> nth_error l2 j = Some y -> P x y -> P (f x) y) ->
    Forall2 P (upd_nth j f l1) l2.
  Proof.
    intros X Y P f l1 l2 j H Hf.
    replace l2 with (upd_nth j (fun y => y) l2).
    - apply Forall2_upd_nth_at; auto.
    - clear. revert j. induction l2 as [|y tl IH]; intros [|j]; cbn [upd_nth]; auto. now rewrite IH.
  Qed.

  Lemma Forall2_len : forall {X Y} (P : X -> Y -> Prop) l1 l2, Forall2 P l1 l2 -> length l1 = length l2.
  Proof. intros X Y P l1 l2 H. induction H; cbn [length]; auto. Qed.

  Lemma Forall_upd_nth : forall {X} (P : X -> Prop) (f : X -> X) l j, Forall P l ->
    (forall x, nth_error l j = Some x -> P (f x)) -> Forall P (upd_nth j f l).
  Proof.
    intros X P f l j H. revert j. induction H as [|a l Ha Ht IH]; intros j Hf; [destruct j; constructor|].
    destruct j as [|j']; cbn [upd_nth]; constructor; auto.
  Qed.

  Lemma Forall_firstn_ : forall {X} (P : X -> Prop) n l, Forall P l -> Forall P (firstn n l).
  Proof.
    intros X P n. induction n as [|k IH]; intros l H; [constructor|].
    destruct H as [|x tl Hx Ht]; cbn [firstn]; constructor; auto.
  Qed.

  Lemma Forall_nth : forall {X} (P : X -> Prop) l j x, Forall P l -> nth_error l j = Some x -> P x.
  Proof.
    intros X P l j x H Hj. apply nth_error_In in Hj. rewrite Forall_forall in H. auto.
  Qed.

  Lemma firstn_nth : forall {X} (l : list X) m j x, (j < m)%nat -> nth_error l j = Some x ->
    nth_error (firstn m l) j = Some x.
  Proof.
    intros X l. induction l as [|y tl IH]; intros m j x H Hj; [destruct j; discriminate|].
    destruct m as [|m']; [lia|]. destruct j as [|j']; cbn [firstn nth_error] in *; auto. apply IH; auto. lia.
  Qed.

  (* ---- the relation between a small-step state and the walkers of the atomic model *)
  Definition deltas (bs : list W) : list (grid (A:=A)) := map wL (map (w_prepare G) bs).

  Definition orel (bc : bool) (rootc : W) (x : WP) (b : W) : Prop :=
    match snd x with
    | PhIdle => fst x = b
    | PhSent => fst x = w_prepare G b
    | PhGot => bc = true /\ fst x = w_receive (wG rootc) (w_prepare G b)
    | _ => False
    end.

  Definition rrel (s : net (A:=A)) (b0 : W) (bs : list W) : Prop :=
    match snd (n_root s) with
    | PhIdle => fst (n_root s) = b0 /\ n_bc s = false
    | PhCollect => n_bc s = false /\ (1 <= n_k s)%nat /\ (n_k s - 1 <= length bs)%nat /\
                   fst (n_root s) = root_collect G (w_prepare G b0) (deltas (firstn (n_k s - 1) bs)) /\
                   Forall (fun x => is_sent x = true) (firstn (n_k s - 1) (n_others s))
    | PhDone => n_bc s = true /\ fst (n_root s) = root_collect G (w_prepare G b0) (deltas bs) /\
                Forall (fun x => is_idle x = false) (n_others s)
    | _ => False
    end.

  Definition srel (s : net (A:=A)) (B : list W) : Prop :=
    match B with
    | [] => False
    | b0 :: bs => rrel s b0 bs /\ Forall2 (orel (n_bc s) (fst (n_root s))) (n_others s) bs
    end.

  (* while replica 0 has not sent the combined grid nobody holds it: the relation of the others does not
     depend on replica 0's current grids *)
  Lemma orel_false_root : forall r r' l bs, Forall2 (orel false r) l bs -> Forall2 (orel false r') l bs.
  Proof.
    intros r r' l bs H. induction H as [|x b l bs Hx _ IH]; constructor; auto.
    unfold orel in *. destruct (snd x); auto. destruct Hx; discriminate.
  Qed.

  Lemma orel_true : forall r l bs, Forall2 (orel false r) l bs -> Forall2 (orel true r) l bs.
  Proof.
    intros r l bs H. induction H as [|x b l bs Hx _ IH]; constructor; auto.
    unfold orel in *. destruct (snd x); auto. destruct Hx; discriminate.
  Qed.

  Lemma root_collect_app : forall ms (r : W) m,
    root_collect G r (ms ++ [m]) =
    let r' := root_collect G r ms in mkW (grid_add G (wG r') m) m (wLoc r') (wlast r').
  Proof. induction ms as [|x tl IH]; intros r m; cbn [app root_collect]; auto. Qed.

  (* what the atomic model does for an action *)
  Definition big (B : list W) (a : act (A:=A)) : list W :=
    match a with
    | ASample w i x => apply_ev G false B (ESample w i x)
    | ARestart w t => apply_ev G false B (ERestart w t)
    | AFinish t => exchange G t B
    | _ => B
    end.

  Lemma upd_nth_length_ : forall {X} (f : X -> X) l j, length (upd_nth j f l) = length l.
  Proof. intros X f l. induction l as [|x tl IH]; intros [|j]; cbn [upd_nth length]; auto. Qed.

  (* a walker outside the exchange does something local (sample, restart) *)
  Lemma local_step : forall s B w (f : W -> W) s',
    srel s B -> on_walker s w (fun c => (f c, PhIdle)) = Some s' -> srel s' (upd_nth w f B).
  Proof.
    intros s B w f s' H Hs. destruct B as [|b0 bs]; [destruct H|]. destruct H as [Hr Ho].
    destruct w as [|j]; cbn [on_walker] in Hs.
    - destruct (is_idle (n_root s)) eqn:Ei; [|discriminate]. injection Hs as <-.
      unfold is_idle in Ei. unfold rrel in Hr. destruct (snd (n_root s)) eqn:Eph; try discriminate.
      destruct Hr as [Hr1 Hr2]. cbn [upd_nth srel]. split.
      + unfold rrel; cbn [n_root snd fst n_bc]. rewrite Hr1. auto.
      + cbn [n_bc n_root n_others fst]. rewrite Hr2 in *. eapply orel_false_root; eauto.
    - destruct (nth_error (n_others s) j) as [x|] eqn:Ex; [|discriminate].
      destruct (is_idle x) eqn:Ei; [|discriminate]. injection Hs as <-.
      cbn [upd_nth srel]. split.
      + unfold rrel in *; cbn [n_root n_bc n_k n_others]. destruct (snd (n_root s)) eqn:Eph; auto.
        * destruct Hr as (H1 & H2 & H3 & H4 & H5).
          assert (Hj : (n_k s - 1 <= j)%nat).
          { destruct (le_lt_dec (n_k s - 1) j) as [Hle|Hlt]; auto. exfalso.
            pose proof (firstn_nth _ _ _ _ Hlt Ex) as Hx. pose proof (Forall_nth _ _ _ _ H5 Hx) as Hsent.
            unfold is_idle, is_sent in *. destruct (snd x); discriminate. }
          rewrite upd_nth_length_. rewrite !firstn_upd_nth_ge by auto. auto.
        * destruct Hr as (H1 & H2 & H3). exfalso. pose proof (Forall_nth _ _ _ _ H3 Ex) as Hn. congruence.
      + cbn [n_bc n_root n_others]. apply Forall2_upd_nth_at; auto.
        intros x' y Hx' Hy Hxy. rewrite Ex in Hx'. injection Hx' as <-.
        unfold orel in *. unfold is_idle in Ei. destruct (snd x); try discriminate. cbn [snd fst]. now rewrite Hxy.
  Qed.

  (* an idle replica among the others sits after everything replica 0 has already received *)
  Lemma idle_after_received : forall (l : list WP) m j x,
    Forall (fun y => is_sent y = true) (firstn m l) -> nth_error l j = Some x -> is_idle x = true -> (m <= j)%nat.
  Proof.
    intros l m j x H5 Ex Ei. destruct (le_lt_dec m j) as [Hle|Hlt]; auto. exfalso.
    pose proof (firstn_nth _ _ _ _ Hlt Ex) as Hx. pose proof (Forall_nth _ _ _ _ H5 Hx) as Hsent.
    unfold is_idle, is_sent in *. destruct (snd x); discriminate.
  Qed.

  Theorem step_refines : forall s B a s', srel s B -> sstep G s a = Some s' -> srel s' (big B a).
  Proof.
    intros s B a s' H Hs. destruct a as [w i x|w t|w| | |w|t]; cbn [sstep big apply_ev] in *.
    - eapply local_step; eauto.
    - eapply local_step; eauto.
    - (* AStart *)
      destruct B as [|b0 bs]; [destruct H|]. destruct H as [Hr Ho]. destruct w as [|j].
      + destruct (is_idle (n_root s)) eqn:Ei; [|discriminate]. injection Hs as <-.
        unfold is_idle in Ei. unfold rrel in Hr. destruct (snd (n_root s)) eqn:Eph; try discriminate.
        destruct Hr as [Hr1 Hr2]. split.
        * unfold rrel; cbn [n_root snd fst n_bc n_k n_others]. rewrite Hr1.
          repeat split; auto; try lia. cbn [Nat.sub firstn]. constructor.
        * cbn [n_bc n_root n_others fst]. rewrite Hr2 in *. eapply orel_false_root; eauto.
      + cbn [on_walker] in Hs. destruct (nth_error (n_others s) j) as [x|] eqn:Ex; [|discriminate].
        destruct (is_idle x) eqn:Ei; [|discriminate]. injection Hs as <-. split.
        * unfold rrel in *; cbn [n_root n_bc n_k n_others]. destruct (snd (n_root s)) eqn:Eph; auto.
          -- destruct Hr as (H1 & H2 & H3 & H4 & H5). repeat split; auto.
             rewrite firstn_upd_nth_ge; auto. eapply idle_after_received; eauto.
          -- destruct Hr as (H1 & H2 & H3). exfalso. pose proof (Forall_nth _ _ _ _ H3 Ex) as Hn. congruence.
        * cbn [n_bc n_root n_others]. apply Forall2_upd_nth_l; auto.
          intros x' y Hx' Hy Hxy. rewrite Ex in Hx'. injection Hx' as <-.
          unfold orel in *. unfold is_idle in Ei. destruct (snd x); try discriminate. cbn [snd fst]. now rewrite Hxy.
    - (* ARecv *)
      destruct B as [|b0 bs]; [destruct H|]. destruct H as [Hr Ho].
      unfold rrel in Hr. destruct (snd (n_root s)) eqn:Eph; try discriminate.
      destruct (nth_error (n_others s) (n_k s - 1)) as [x|] eqn:Ex; [|discriminate].
      destruct (is_sent x) eqn:Es; [|discriminate]. injection Hs as <-.
      destruct Hr as (H1 & H2 & H3 & H4 & H5).
      destruct (Forall2_nth_l _ _ _ _ _ Ho Ex) as (b & Hb & Hxb).
      assert (Hx : fst x = w_prepare G b).
      { unfold orel in Hxb. unfold is_sent in Es. destruct (snd x); try discriminate. exact Hxb. }
      assert (Hk : (S (n_k s) - 1 = S (n_k s - 1))%nat) by lia.
      split.
      + unfold rrel; cbn [n_root snd fst n_bc n_k n_others]. rewrite Hk.
        assert (Hlen : (n_k s - 1 < length bs)%nat) by (apply nth_error_Some; congruence).
        repeat split; auto; try lia.
        * rewrite (firstn_S_nth _ _ _ Hb). unfold deltas. rewrite !map_app. cbn [map].
          rewrite root_collect_app. cbn zeta. fold (deltas (firstn (n_k s - 1) bs)). rewrite <- H4, Hx. reflexivity.
        * rewrite (firstn_S_nth _ _ _ Ex). apply Forall_app. split; auto.
      + cbn [n_bc n_root n_others fst]. rewrite H1 in *. eapply orel_false_root; eauto.
    - (* ABcast *)
      destruct B as [|b0 bs]; [destruct H|]. destruct H as [Hr Ho].
      unfold rrel in Hr. destruct (snd (n_root s)) eqn:Eph; try discriminate.
      destruct (Nat.eqb (n_k s) (S (length (n_others s)))) eqn:Ek; [|discriminate]. injection Hs as <-.
      apply Nat.eqb_eq in Ek. destruct Hr as (H1 & H2 & H3 & H4 & H5).
      pose proof (Forall2_len _ _ _ Ho) as Hlen.
      assert (Hkk : (n_k s - 1 = length bs)%nat) by lia.
      split.
      + unfold rrel; cbn [n_root snd fst n_bc n_k n_others]. repeat split; auto.
        * rewrite H4, Hkk, firstn_all. reflexivity.
        * rewrite Hkk, <- Hlen, firstn_all in H5. eapply Forall_impl; [|exact H5].
          intros y Hy. unfold is_sent, is_idle in *. destruct (snd y); auto; discriminate.
      + cbn [n_bc n_root n_others fst]. rewrite H1 in Ho. apply orel_true. exact Ho.
    - (* AGet *)
      destruct w as [|j]; [discriminate|].
      destruct B as [|b0 bs]; [destruct H|]. destruct H as [Hr Ho].
      destruct (nth_error (n_others s) j) as [x|] eqn:Ex; [|discriminate].
      destruct (is_sent x && n_bc s) eqn:Eg; [|discriminate]. injection Hs as <-.
      apply andb_true_iff in Eg. destruct Eg as [Es Ebc]. split.
      + unfold rrel in *; cbn [n_root n_bc n_k n_others]. destruct (snd (n_root s)) eqn:Eph; auto.
        * destruct Hr as (H1 & _). congruence.
        * destruct Hr as (H1 & H2 & H3). repeat split; auto.
          apply Forall_upd_nth; auto.
      + cbn [n_bc n_root n_others]. apply Forall2_upd_nth_l; auto.
        intros x' y Hx' Hy Hxy. rewrite Ex in Hx'. injection Hx' as <-.
        unfold orel in *. unfold is_sent in Es. destruct (snd x); try discriminate. cbn [snd fst].
        split; auto. now rewrite Hxy.
    - (* AFinish *)
      destruct B as [|b0 bs]; [destruct H|]. destruct H as [Hr Ho].
      unfold rrel in Hr. destruct (snd (n_root s)) eqn:Eph; try discriminate.
      destruct (forallb is_got (n_others s)) eqn:Eg; [|discriminate]. injection Hs as <-.
      destruct Hr as (H1 & H2 & H3).
      unfold exchange. cbn [map]. fold (deltas bs). rewrite <- H2.
      cbn [map srel]. split.
      + unfold rrel; cbn [n_root snd fst n_bc]. auto.
      + cbn [n_bc n_root n_others fst].
        rewrite forallb_forall in Eg. clear H3 H2.
        induction Ho as [|x b l bs' Hx _ IH]; cbn [map]; constructor.
        * unfold orel in *. cbn [snd fst]. assert (Hgx : is_got x = true) by (apply Eg; left; reflexivity).
          unfold is_got in Hgx. destruct (snd x); try discriminate. destruct Hx as [_ Hx]. now rewrite Hx.
        * apply IH. intros y Hy. apply Eg. right. exact Hy.
  Qed.

  Lemma srun_refines : forall acts s B s', srel s B -> srun G acts s = Some s' ->
    srel s' (run G false (project acts) B).
  Proof.
    induction acts as [|a tl IH]; intros s B s' H Hs.
    - cbn in Hs. injection Hs as <-. exact H.
    - cbn [srun] in Hs. destruct (sstep G s a) as [s1|] eqn:E; [|discriminate].
      pose proof (step_refines _ _ _ _ H E) as H1.
      destruct a as [w i x|w t|w| | |w|t]; cbn [project run fold_left big] in *; eauto.
  Qed.

  Lemma srel_init : forall n, (1 <= n)%nat -> srel (sinit G n) (init G n).
  Proof.
    intros n Hn. destruct n as [|m]; [lia|]. unfold sinit, init. cbn [pred repeat srel]. split.
    - unfold rrel; cbn. auto.
    - cbn [n_bc n_root n_others fst]. clear Hn. induction m as [|k IH]; cbn [repeat]; [constructor|].
      constructor; [reflexivity | exact IH].
  Qed.

  (* every execution of the protocol (any interleaving of the replicas' actions that the blocking calls
     allow) that ends with all replicas outside replica_share() leaves the walkers exactly as the atomic
     model does on the projected trace *)
  Theorem interleavings_refine : forall n acts s, (1 <= n)%nat ->
    srun G acts (sinit G n) = Some s -> all_idle s = true ->
    walkers_of s = run G false (project acts) (init G n).
  Proof.
    intros n acts s Hn Hs Hi. pose proof (srun_refines _ _ _ _ (srel_init n Hn) Hs) as H.
    destruct (run G false (project acts) (init G n)) as [|b0 bs]; [destruct H|]. destruct H as [Hr Ho].
    unfold all_idle in Hi. apply andb_true_iff in Hi. destruct Hi as [Hi0 Hio].
    unfold walkers_of. f_equal.
    - unfold rrel in Hr. unfold is_idle in Hi0. destruct (snd (n_root s)); try discriminate. apply Hr.
    - rewrite forallb_forall in Hio. clear Hr.
      induction Ho as [|x b l bs' Hx _ IH]; cbn [map]; [reflexivity|]. f_equal.
      + assert (Hix : is_idle x = true) by (apply Hio; left; reflexivity).
        unfold orel in Hx. unfold is_idle in Hix. destruct (snd x); try discriminate. exact Hx.
      + apply IH. intros y Hy. apply Hio. right. exact Hy.
  Qed.

  Lemma srun_app : forall a1 a2 s, srun G (a1 ++ a2) s =
    match srun G a1 s with Some s1 => srun G a2 s1 | None => None end.
  Proof.
    induction a1 as [|a tl IH]; intros a2 s; [reflexivity|].
    cbn [app srun]. destruct (sstep G s a); auto.
  Qed.

  Lemma project_app : forall a1 a2, project (A:=A) (a1 ++ a2) = project a1 ++ project a2.
  Proof.
    induction a1 as [|a tl IH]; intros a2; [reflexivity|].
    destruct a; cbn [app project]; rewrite ?IH; reflexivity.
  Qed.

  Lemma finish_all_idle : forall s t s', sstep G s (AFinish t) = Some s' -> all_idle s' = true.
  Proof.
    intros s t s' H. cbn [sstep] in H. destruct (snd (n_root s)); try discriminate.
    destruct (forallb is_got (n_others s)); [|discriminate]. injection H as <-.
    unfold all_idle; cbn [n_root n_others is_idle snd andb].
    induction (n_others s) as [|x tl IH]; cbn [map forallb]; auto.
  Qed.
End StepProofs.

From CV Require Import C14.SharedProofs.

(* every execution of the protocol that ends with the barrier of an exchange round leaves every walker with
   the union of what all walkers were fed up to that exchange *)
Lemma interleavings_union_once : forall (A : Type) (G : GrpOps A), GrpLaws G ->
  forall n acts t s k (w : walker (A:=A)), (1 <= n)%nat ->
  srun G (acts ++ [AFinish t]) (sinit G n) = Some s ->
  nth_error (walkers_of s) k = Some w ->
  forall i, wG w i = fed_union G n (project (acts ++ [AFinish t])) i /\
            wL w i = fed_union G n (project (acts ++ [AFinish t])) i.
Proof.
  intros A G HL n acts t s k w Hn Hs Hk i.
  assert (Hidle : all_idle s = true).
  { rewrite srun_app in Hs. destruct (srun G acts (sinit G n)) as [s1|]; [|discriminate].
    cbn [srun] in Hs. destruct (sstep G s1 (AFinish t)) as [s2|] eqn:E; [|discriminate].
    injection Hs as <-. eapply finish_all_idle; eauto. }
  rewrite (interleavings_refine G n _ s Hn Hs Hidle) in Hk.
  rewrite project_app in *. cbn [project] in *.
  apply (abf_union_once_fed A G HL n (project acts) t k w Hk).
Qed.

Local Open Scope Z_scope.

Definition ex_acts : list (act (A:=Z)) :=
  [ASample 1%nat 0 3; AStart 1%nat; ASample 0%nat 0 4; ASample 2%nat 1 5; AStart 0%nat; AStart 2%nat;
   ARecv; ARecv; ABcast; AGet 2%nat; AGet 1%nat; AFinish 2; ASample 1%nat 1 1].

Lemma ex_acts_run : match srun Zgrp ex_acts (sinit Zgrp 3) with
                    | Some s => all_idle s = true /\ map (fun w => (wG w 0, wG w 1)) (walkers_of s) = [(7, 5); (7, 6); (7, 5)]
                    | None => False end.
Proof. vm_compute. auto. Qed.

(* a receive is refused while the expected delta has not been sent: replica 0 blocks *)
Lemma ex_blocked : srun Zgrp [AStart 0%nat; ARecv] (sinit Zgrp 2) = None.
Proof. reflexivity. Qed.
