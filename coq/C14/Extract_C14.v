From Coq Require Import Extraction ExtrOcamlBasic.
From CV Require Import Base.Num C14.SharedModel.
Extraction Language OCaml.
(* mkNumOps only because the shared OCaml prelude ocaml/fops.ml defines the float instance of NumOps *)
Extraction "model.ml" mkNumOps mkGrpOps upd_nth mkW grid0 w_init w_sample share_due exchange Committed exchange_partial own_data w_restart w_restart_old
  ESample apply_ev run init czar_gather mkEW czar_gather_step ASample sstep srun sinit all_idle walkers_of project opes_run opes_sums
  mkHill mkSF mkWr mkM wr_init share m_unsync PDeposit pstep prun pinit file_fresh ev_ok trace_ok prefixb visible SDeposit sys_step sys_run sys_init pair_of pproj sys_ok.
