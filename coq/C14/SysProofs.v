(* C14: n walkers, each both writer and reader.  The system of SharedModel.sys_step, seen by any ordered pair
   (reader r, peer p), is the one-writer/one-reader system of pstep on the projected trace; the theorems about
   pairs therefore hold for every pair of every system. *)
From Coq Require Import ZArith List Bool Lia Arith.
From CV Require Import C14.SharedModel C14.SharedProofs.
Import ListNotations.

Definition wk0 : wk := mkWk wr_init [].

Definition wfs (n : nat) (s : sys) : Prop :=
  length s = n /\ Forall (fun x => length (k_m x) = n) s.

Lemma upd_nth_len : forall {X} (f : X -> X) l i, length (upd_nth i f l) = length l.
Proof. intros X f l. induction l as [|x tl IH]; intros [|i]; cbn [upd_nth length]; auto. Qed.

Lemma nth_upd_eq : forall {X} (f : X -> X) l i d, (i < length l)%nat -> nth i (upd_nth i f l) d = f (nth i l d).
Proof.
  intros X f l. induction l as [|x tl IH]; intros i d H; cbn [length] in H; [lia|].
  destruct i as [|i]; cbn [upd_nth nth]; auto. apply IH. lia.
Qed.

Lemma nth_upd_neq : forall {X} (f : X -> X) l i j d, i <> j -> nth j (upd_nth i f l) d = nth j l d.
Proof.
  intros X f l. induction l as [|x tl IH]; intros i j d H; [destruct i; reflexivity|].
  destruct i as [|i]; destruct j as [|j]; cbn [upd_nth nth]; auto; try congruence; apply IH; congruence.
Qed.

Lemma Forall_upd : forall {X} (P : X -> Prop) (f : X -> X) l i, Forall P l -> (forall x, P x -> P (f x)) ->
  Forall P (upd_nth i f l).
Proof.
  intros X P f l i H Hf. revert i. induction H as [|x tl Hx Ht IH]; intros [|i]; cbn [upd_nth]; constructor; auto.
Qed.

Lemma share_all_len : forall i ws j ms, length ws = length ms -> length (share_all i ws j ms) = length ms.
Proof.
  intros i ws. induction ws as [|w wt IH]; intros j [|m mt] H; cbn [share_all length] in *; try lia.
  rewrite IH; auto.
Qed.

Lemma nth_share_all : forall i ws k ms j dw, length ws = length ms -> (j < length ms)%nat ->
  nth j (share_all i ws k ms) None =
  if Nat.eqb (k + j) i then nth j ms None else share true true (nth j ws dw) (nth j ms None).
Proof.
  intros i ws. induction ws as [|w wt IH]; intros k [|m mt] j dw Hl Hj; cbn [length] in *; try lia.
  destruct j as [|j]; cbn [share_all nth].
  - now rewrite Nat.add_0_r.
  - rewrite (IH (S k) mt j dw) by lia. replace (S k + j)%nat with (k + S j)%nat by lia. reflexivity.
Qed.

Lemma wfs_step : forall n s e, wfs n s -> wfs n (sys_step s e).
Proof.
  intros n s e [Hl Hm]. unfold wfs.
  assert (Hg : forall i (f : wk -> wk), (forall x, length (k_m x) = n -> length (k_m (f x)) = n) ->
               length (upd_nth i f s) = n /\ Forall (fun x => length (k_m x) = n) (upd_nth i f s)).
  { intros i f Hf. split; [now rewrite upd_nth_len|]. apply Forall_upd; auto. }
  destruct e; cbn [sys_step]; apply Hg; intros x Hx; cbn [on_writer unsync_all k_m]; auto;
    try (rewrite map_length; exact Hx).
  rewrite share_all_len; auto. rewrite map_length. lia.
Qed.

Lemma nth_map_unsync : forall ms p, nth p (map m_unsync ms) None = m_unsync (nth p ms None).
Proof. intros ms p. change None with (m_unsync None) at 1. apply map_nth. Qed.

Lemma nth_map_none : forall (ms : list (option mirror)) p, nth p (map (fun _ => None) ms) None = (None : option mirror).
Proof.
  induction ms as [|m mt IH]; intros [|p]; cbn [map nth]; auto.
Qed.

Lemma nth_kw : forall s p, nth p (map k_w s) wr_init = k_w (nth p s wk0).
Proof. intros s p. change wr_init with (k_w wk0). apply map_nth. Qed.

(* one event of the system = the projected events of the pair *)
Lemma pair_step : forall n s e r p, wfs n s -> (r < n)%nat -> (p < n)%nat -> r <> p ->
  pair_of (sys_step s e) r p = fold_left (pstep true true) (pproj r p e) (pair_of s r p).
Proof.
  intros n s e r p [Hl Hm] Hr Hp Hrp. unfold pair_of. fold wk0.
  assert (Hmr : length (k_m (nth r s wk0)) = n).
  { rewrite Forall_forall in Hm. apply Hm. apply nth_In. lia. }
  (* an event that changes walker i by f *)
  assert (Hw : forall i (f : wk -> wk),
            (k_w (nth p (upd_nth i f s) wk0), nth p (k_m (nth r (upd_nth i f s) wk0)) None) =
            ((if Nat.eqb i p then k_w (f (nth p s wk0)) else k_w (nth p s wk0)),
             (if Nat.eqb i r then nth p (k_m (f (nth r s wk0))) None else nth p (k_m (nth r s wk0)) None))).
  { intros i f. destruct (Nat.eqb_spec i p) as [Hip|Hip]; destruct (Nat.eqb_spec i r) as [Hir|Hir]; subst;
      try congruence;
      rewrite ?nth_upd_eq by lia; rewrite ?(nth_upd_neq f s _ _ wk0) by congruence; reflexivity. }
  destruct e as [i h|i c|i b|i k|i k|i t|i|i t|i t nn|i|i]; cbn [sys_step pproj]; rewrite Hw;
    destruct (Nat.eqb_spec i p) as [Hip|Hip]; destruct (Nat.eqb_spec i r) as [Hir|Hir]; subst; try congruence;
    cbn [app fold_left pstep on_writer unsync_all k_w k_m]; rewrite ?nth_map_unsync, ?nth_map_none; try reflexivity.
  (* the exchange of walker r: its mirror of p is updated from p's files *)
  rewrite (nth_share_all r (map k_w s) 0 (k_m (nth r s wk0)) p wr_init) by (rewrite ?map_length; lia).
  cbn [Nat.add]. destruct (Nat.eqb_spec p r) as [E|_]; [congruence|]. now rewrite nth_kw.
Qed.

Lemma wfs_run : forall n es s, wfs n s -> wfs n (sys_run es s).
Proof.
  intros n es. induction es as [|e tl IH]; intros s H; [exact H|]. cbn [sys_run fold_left]. apply IH, wfs_step, H.
Qed.

Theorem pair_run : forall n es s r p, wfs n s -> (r < n)%nat -> (p < n)%nat -> r <> p ->
  pair_of (sys_run es s) r p = prun true true (flat_map (pproj r p) es) (pair_of s r p).
Proof.
  intros n es. induction es as [|e tl IH]; intros s r p H Hr Hp Hrp; [reflexivity|].
  cbn [sys_run fold_left flat_map]. fold (sys_run tl (sys_step s e)).
  rewrite (IH _ r p (wfs_step n s e H) Hr Hp Hrp). rewrite (pair_step n s e r p H Hr Hp Hrp).
  unfold prun. now rewrite fold_left_app.
Qed.

Lemma wfs_init : forall n, wfs n (sys_init n).
Proof.
  intros n. unfold wfs, sys_init. split; [apply repeat_length|].
  apply Forall_forall. intros x Hx. apply repeat_spec in Hx. subst x. cbn [k_m]. apply repeat_length.
Qed.

Lemma nth_repeat : forall {X} (x d : X) n p, (p < n)%nat -> nth p (repeat x n) d = x.
Proof.
  intros X x d n. induction n as [|k IH]; intros p H; [lia|]. destruct p as [|p]; cbn [repeat nth]; auto. apply IH. lia.
Qed.

Lemma pair_init : forall n r p, (r < n)%nat -> (p < n)%nat -> pair_of (sys_init n) r p = pinit.
Proof.
  intros n r p Hr Hp. unfold pair_of, sys_init, pinit. fold wk0.
  rewrite !(nth_repeat _ wk0) by lia. cbn [k_w k_m]. now rewrite nth_repeat.
Qed.

Lemma sys_ok_pair : forall n es r p, sys_ok n es = true -> (r < n)%nat -> (p < n)%nat -> r <> p ->
  trace_ok true true true (flat_map (pproj r p) es) pinit = true.
Proof.
  intros n es r p H Hr Hp Hrp. unfold sys_ok in H. rewrite forallb_forall in H.
  assert (Hir : In r (seq 0 n)) by (apply in_seq; lia).
  specialize (H r Hir). rewrite forallb_forall in H.
  assert (Hip : In p (seq 0 n)) by (apply in_seq; lia).
  specialize (H p Hip). apply orb_true_iff in H. destruct H as [H|H]; auto.
  apply Nat.eqb_eq in H. congruence.
Qed.

(* any number of walkers, each writing its own files and reading those of all the others, any interleaving:
   what walker r holds for walker p is always a prefix of what p deposited; a walker's own deposits are what its
   own sequence holds *)
Theorem sys_prefix : forall n es r p m, sys_ok n es = true -> (r < n)%nat -> (p < n)%nat -> r <> p ->
  snd (pair_of (sys_run es (sys_init n)) r p) = Some m ->
  prefix (m_cont m) (w_D (fst (pair_of (sys_run es (sys_init n)) r p))).
Proof.
  intros n es r p m Hok Hr Hp Hrp Hm.
  rewrite (pair_run n es _ r p (wfs_init n) Hr Hp Hrp), (pair_init n r p Hr Hp) in *.
  destruct (prun true true (flat_map (pproj r p) es) pinit) as [w om] eqn:E. cbn [fst snd] in *. subst om.
  apply (meta_prefix_always _ w m (sys_ok_pair n es r p Hok Hr Hp Hrp) E).
Qed.

(* right after an exchange of walker r: for every registered peer p everything visible is in r's mirror of p *)
Theorem sys_share_complete : forall n es r p, sys_ok n (es ++ [SShare r]) = true -> (r < n)%nat -> (p < n)%nat -> r <> p ->
  let st := pair_of (sys_run (es ++ [SShare r]) (sys_init n)) r p in
  w_reg (fst st) = true -> w_rv (fst st) = 2%Z -> w_lv (fst st) = 2%Z ->
  exists m, snd st = Some m /\ prefix (visible (fst st)) (m_cont m) /\ prefix (m_cont m) (w_D (fst st)).
Proof.
  intros n es r p Hok Hr Hp Hrp st Hreg Hrv Hlv. subst st.
  rewrite (pair_run n _ _ r p (wfs_init n) Hr Hp Hrp), (pair_init n r p Hr Hp) in *.
  pose proof (sys_ok_pair n _ r p Hok Hr Hp Hrp) as Hok'.
  rewrite flat_map_app in *. cbn [flat_map pproj] in *. rewrite Nat.eqb_refl in *. cbn [app] in *.
  try rewrite app_nil_r in *.
  destruct (prun true true (flat_map (pproj r p) es ++ [RShare]) pinit) as [w om] eqn:E. cbn [fst snd] in *.
  destruct (meta_share_complete _ w om Hok' E Hreg Hrv Hlv) as (m & -> & H1 & H2 & _). eauto.
Qed.

(* a 3-walker system in which everybody deposits, exchanges and rewrites its state file *)
Definition ex_sys : list sev :=
  [SSetup 0 0 false; SSetup 1 0 false; SSetup 2 0 false;
   SDeposit 0 (H 1); SDeposit 1 (H 1); SVis 0 1; SShare 1; SShare 2; SDeposit 2 (H 2); SVis 2 1; SVis 1 1;
   SWStateB 0; SShare 1; SWStateA 0 1; SDeposit 0 (H 3); SVis 0 1; SShare 0; SShare 1; SShare 2; SRestart 2; SShare 2]%Z.

Lemma ex_sys_ok : sys_ok 3 ex_sys = true /\
  map (fun rp => cont_of (pair_of (sys_run ex_sys (sys_init 3)) (fst rp) (snd rp))) [(1, 0); (2, 0); (0, 2); (2, 1)]%nat
  = [[H 1; H 3]; [H 1; H 3]; [H 2]; [H 1]]%Z.
Proof. vm_compute. auto. Qed.
