(* C13: the table theorems, checked on the tables regenerated from the binary (Gen/GenDeps.v). *)
From Coq Require Import ZArith List Bool Arith Lia.
From CV Require Import C13.DepsModel C13.DepsProofs Gen.GenDeps.
Import ListNotations.

Lemma gen_acyclic : Forall acyclic gen_tables /\ Forall acyclic gen_tables_lagged.
Proof.
  split; apply (Forall_forallb acyclic_check acyclic _ acyclic_check_sound); vm_compute; reflexivity.
Qed.

Lemma gen_exclusions_symmetric : Forall exclusions_symmetric gen_tables /\ Forall exclusions_symmetric gen_tables_lagged.
Proof.
  split; apply (Forall_forallb excl_sym_check exclusions_symmetric _ excl_sym_check_sound); vm_compute; reflexivity.
Qed.

Lemma gen_children_ids_valid : children_ids_valid gen_tables /\ children_ids_valid gen_tables_lagged.
Proof.
  split; apply children_ids_check_sound; vm_compute; reflexivity.
Qed.
