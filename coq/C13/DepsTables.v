(* C13: the table theorems, checked on the tables regenerated from the binary (Gen/GenDeps.v). *)
From Coq Require Import ZArith List Bool Arith Lia.
From CV Require Import C13.DepsModel C13.DepsProofs Gen.GenDeps.
Import ListNotations.

Lemma gen_acyclic : Forall acyclic gen_tables /\ Forall acyclic gen_tables_lagged.
Proof.
  split; apply (Forall_forallb acyclic_check acyclic _ acyclic_check_sound); vm_compute; reflexivity.
Qed.

Lemma gen_exclusions_symmetric : Forall exclusions_symmetric gen_tables /\ Forall exclusions_symmetric gen_tables_lagged.
Proof.
  split; apply (Forall_forallb excl_sym_check exclusions_symmetric _ excl_sym_check_sound); vm_compute; reflexivity.
Qed.

Lemma gen_children_ids_valid : children_ids_valid gen_tables /\ children_ids_valid gen_tables_lagged.
Proof.
  split; apply children_ids_check_sound; vm_compute; reflexivity.
Qed.

(* ------------------------------------------------------------------------------------------
   Counterexamples (over the real tables): the places where the code does not have the property. *)
Open Scope nat_scope.

(* a variable without components: every feature available; scalar (34) and linear (35) set as
   colvar::init does for a scalar linear variable *)
Definition w_cv (on : list nat) (parents : list nat) : obj :=
  mkObj 1 (map (fun i => mkFstate true (mem_nat i on) 0%Z []) (seq 0 38)) [] parents.
Definition w_bias (children : list nat) : obj :=
  mkObj 0 (map (fun i => mkFstate true false 0%Z []) (seq 0 17)) children [].

Ltac wit := repeat (split; [vm_compute; first [reflexivity | auto 12] |]); vm_compute; first [reflexivity | auto 12].

(* F3: output_total_force (20) requires total_force (7); one dependent gives ref_count 1 and
   disable() refuses only ref_count > 1 *)
Definition w3_s0 : state := [w_cv [34; 35] []].

Lemma w3_witness : exists s s',
  enable gen_tables 20 0 20 false true false w3_s0 = Some (true, s) /\
  In 7 (f_self (feat gen_tables (cls_of s 0) 20)) /\ is_enabled s 0 20 = true /\ is_enabled s 0 7 = true /\
  fs_rc (get_fs s 0 7) = 1%Z /\
  disable gen_tables 20 0 7 s = Some (true, s') /\
  is_enabled s' 0 20 = true /\ is_enabled s' 0 7 = false.
Proof. do 2 eexists. wit. Qed.

(* F4: collect_gradient (4) requires gradient (3), scalar (34), collect_atom_ids (5); on a
   non-scalar variable the call fails at 34 after 3 has been enabled with one reference *)
Definition w4_s0 : state := [w_cv [] []].

Lemma w4_witness : exists s',
  enable gen_tables 20 0 4 false true false w4_s0 = Some (false, s') /\
  is_enabled w4_s0 0 3 = false /\ is_enabled s' 0 3 = true /\ fs_rc (get_fs s' 0 3) = 1%Z /\ is_enabled s' 0 4 = false.
Proof. do 1 eexists. wit. Qed.

(* F1 (repaired in the code, fix "deleting a sleeping bias released its variables' dependencies twice"):
   variable 0, biases 1 and 2 on it, both active and applying forces; bias 1 is put to sleep (disable active:
   its children references are released), then deleted.  Regression example on the real tables: the
   requirement of the surviving bias 2 stays enabled in the variable. *)
Definition w1_s0 : state := [w_cv [34; 35] [1; 2]; w_bias [0]; w_bias [0]].
Definition w1_ops : list (op) :=
  [OpEnable 0 0 false true false; OpEnable 1 0 false true false; OpEnable 1 3 false true false;
   OpEnable 2 0 false true false; OpEnable 2 3 false true false; OpDisable 1 0].
Definition run_ops (T : tables) (n : nat) (ops : list op) (s : state) : option state :=
  fold_left (fun acc p => match acc with None => None | Some s => match run_op T n p s with None => None | Some (_, s') => Some s' end end)
            ops (Some s).

Lemma w1_regression : exists s s',
  run_ops gen_tables 20 w1_ops w1_s0 = Some s /\
  is_enabled s 1 0 = false /\ is_enabled s 1 3 = true /\
  is_enabled s 2 0 = true /\ is_enabled s 2 3 = true /\ In 2 (f_children (feat gen_tables 0 3)) /\
  In 0 (o_children (get_obj s 2)) /\ is_enabled s 0 2 = true /\ fs_rc (get_fs s 0 2) = 1%Z /\
  delete_bias gen_tables 20 1 s = Some s' /\
  is_enabled s' 2 3 = true /\ In 0 (o_children (get_obj s' 2)) /\ is_enabled s' 0 2 = true /\ fs_rc (get_fs s' 0 2) = 1%Z /\
  o_parents (get_obj s' 0) = [2].
Proof. do 2 eexists. wit. Qed.

(* F2: an active variable (toplevel enable: ref_count 0), a bias is linked to it, activated, deleted *)
Definition w2_s0 : state := [w_cv [34; 35] []; w_bias []].

Lemma w2_witness : exists s0 s1 s2 s3,
  enable gen_tables 20 0 0 false true false w2_s0 = Some (true, s0) /\ is_enabled s0 0 0 = true /\
  add_child gen_tables 20 1 0 s0 = Some s1 /\
  enable gen_tables 20 1 0 false true false s1 = Some (true, s2) /\
  delete_bias gen_tables 20 1 s2 = Some s3 /\
  o_children (get_obj s3 1) = [] /\ o_parents (get_obj s3 0) = [] /\ is_enabled s3 0 0 = false.
Proof. do 4 eexists. wit. Qed.

(* ------------------------------------------------------------------------------------------
   Termination of enable on the real tables (both variants): table lengths <= 38, so fuel above
   height(o) * 39 + 38 suffices; with the four levels bias(3) > variable(2) > component(1) > atom group(0)
   that is at most 155. *)
Lemma gen_enable_terminates : forall T, T = gen_tables \/ T = gen_tables_lagged ->
  forall (h : nat -> nat) (s0 : state), (forall o c, In c (o_children (get_obj s0 o)) -> h c < h o) ->
  forall n o f dry top err s, same_shape s0 s -> h o * 39 + 38 < n ->
  exists r s', enable T n o f dry top err s = Some (r, s') /\ same_shape s0 s'.
Proof.
  intros T [HT|HT]; subst T; apply (enable_terminates_tables _ 38); vm_compute; reflexivity.
Qed.

Lemma gen_restore_terminates : forall T, T = gen_tables \/ T = gen_tables_lagged ->
  forall (h : nat -> nat) (s0 : state), (forall o c, In c (o_children (get_obj s0 o)) -> h c < h o) ->
  forall n o s, same_shape s0 s -> h o * 39 <= n ->
  exists s', restore_children_deps T n o s = Some s' /\ same_shape s0 s'.
Proof.
  intros T [HT|HT]; subst T; apply (restore_terminates_tables _ 38); vm_compute; reflexivity.
Qed.
