(* C13: default names of unnamed biases (colvarmodule::parse_biases_type, colvarbias::colvarbias):
   name = <type keyword in lower case><rank>, rank = ++num_biases_types_used[type] -- a per-type counter that counts every
   definition of that type (named or not, successful or not), never goes down when a bias is deleted, and is cleared by
   colvarmodule::reset.  Model: a default name is the pair (type, rank). *)
From Coq Require Import List Bool Arith Lia.
Import ListNotations.

Record nstate := mkN { n_count : nat -> nat; n_live : list (nat * nat) }.

Inductive nop :=
| NDefine (k : nat) (unnamed ok : bool)     (* a bias of type k is defined; it stays (ok) or its init fails *)
| NDelete (k r : nat)                       (* the unnamed bias (k, r) is deleted *)
| NReset.

Definition pair_eqb (a b : nat * nat) : bool := (fst a =? fst b) && (snd a =? snd b).

Definition n_step (p : nop) (s : nstate) : nstate :=
  match p with
  | NDefine k unnamed ok =>
    let c := S (n_count s k) in
    mkN (fun x => if x =? k then c else n_count s x) (if unnamed && ok then n_live s ++ [(k, c)] else n_live s)
  | NDelete k r => mkN (n_count s) (filter (fun a => negb (pair_eqb a (k, r))) (n_live s))
  | NReset => mkN (fun _ => 0) []
  end.

Definition n_run (ps : list nop) (s : nstate) : nstate := fold_left (fun st p => n_step p st) ps s.
Definition n_empty : nstate := mkN (fun _ => 0) [].

(* ---- live default names are pairwise distinct, for every sequence of operations *)
Definition n_inv (s : nstate) : Prop := NoDup (n_live s) /\ forall k r, In (k, r) (n_live s) -> r <= n_count s k.

Lemma NoDup_snoc {A} (l : list A) x : NoDup l -> ~ In x l -> NoDup (l ++ [x]).
Proof.
  induction l as [|a l IH]; intros ND N; cbn [app]; [constructor; [intros []|constructor]|].
  inversion ND as [|? ? Ha ND']; subst. constructor.
  - intros H. apply in_app_or in H. destruct H as [H|[H|[]]]; [contradiction | subst; apply N; left; reflexivity].
  - apply IH; [exact ND' | intros H; apply N; right; exact H].
Qed.

Lemma n_step_inv p s : n_inv s -> n_inv (n_step p s).
Proof.
  intros [ND B]. destruct p as [k unnamed ok|k r|]; cbn [n_step n_live n_count].
  - assert (Bnd : forall k0 r0, In (k0, r0) (n_live s) -> r0 <= (if k0 =? k then S (n_count s k) else n_count s k0)).
    { intros k0 r0 H. specialize (B k0 r0 H). destruct (k0 =? k) eqn:E; [apply Nat.eqb_eq in E; subst; lia | exact B]. }
    destruct (unnamed && ok); [|split; [exact ND | exact Bnd]]. split.
    + apply NoDup_snoc; [exact ND|]. intros H. specialize (B k (S (n_count s k)) H). lia.
    + intros k0 r0 H. apply in_app_or in H. destruct H as [H|[H|[]]]; [cbn [n_count]; apply Bnd; exact H|].
      injection H as Hk Hr. cbn [n_count]. destruct (k0 =? k) eqn:E; [lia | apply Nat.eqb_neq in E; congruence].
  - split; [apply NoDup_filter; exact ND|]. intros k0 r0 H. apply filter_In in H. apply B. apply H.
  - split; [constructor | intros k r []].
Qed.

Theorem default_names_distinct ps : forall s, n_inv s -> n_inv (n_run ps s).
Proof.
  unfold n_run. induction ps as [|p ps IH]; intros s H; cbn [fold_left]; [exact H|]. apply IH. apply n_step_inv. exact H.
Qed.

Lemma n_empty_inv : n_inv n_empty.
Proof. split; [constructor | intros k r []]. Qed.
