(* C13: executable definitions of the reference-count accounting of the dependency state (no proofs; extracted):
   need T s o g   = number of references the state accounts for on feature g of object o:
                    enabled features of o listing g in requires_self (with multiplicity)
                  + recorded alternate_refs of the features of o
                  + for every ACTIVE object p, (occurrences of o among p's children) x (enabled features of p listing g
                    in requires_children);
   excess = ref_count - need;  consistent_check = excess >= 0 and "a disabled feature has ref_count <= 0" on a finite
   range, with the side conditions that make the finite range sufficient (DepsInv.consistent_check_sound). *)
From Coq Require Import ZArith List Bool Arith Lia.
From CV Require Import C13.DepsModel.
Import ListNotations.
Open Scope Z_scope.

Definition cnt (x : nat) (l : list nat) : nat := count_occ Nat.eq_dec l x.
Definition zcnt (x : nat) (l : list nat) : Z := Z.of_nat (cnt x l).


Fixpoint zsum (l : list nat) (F : nat -> Z) : Z :=
  match l with [] => 0 | x :: r => F x + zsum r F end.


Section Need.
  Variable T : tables.

  Definition nf (s : state) (o : nat) : nat := length (o_fs (get_obj s o)).
  Definition rc (s : state) (o g : nat) : Z := fs_rc (get_fs s o g).

  Definition termS (s : state) (o g f : nat) : Z :=
    if is_enabled s o f then zcnt g (f_self (feat T (cls_of s o) f)) else 0.
  Definition termA (s : state) (o g f : nat) : Z := zcnt g (fs_alt (get_fs s o f)).
  Definition termC (s : state) (p g f : nat) : Z :=
    if is_enabled s p f then zcnt g (f_children (feat T (cls_of s p) f)) else 0.

  Definition need_self (s : state) (o g : nat) : Z := zsum (seq 0 (nf s o)) (termS s o g).
  Definition need_alt (s : state) (o g : nat) : Z := zsum (seq 0 (nf s o)) (termA s o g).
  Definition wch (s : state) (p g : nat) : Z := zsum (seq 0 (nf s p)) (termC s p g).
  Definition termP (s : state) (o g p : nat) : Z :=
    if is_enabled s p 0 then zcnt o (o_children (get_obj s p)) * wch s p g else 0.
  Definition need_par (s : state) (o g : nat) : Z := zsum (seq 0 (length s)) (termP s o g).

  Definition need (s : state) (o g : nat) : Z := need_self s o g + need_alt s o g + need_par s o g.
  Definition excess (s : state) (o g : nat) : Z := rc s o g - need s o g.


  (* finite check of consistency: G bounds the feature numbers *)
  Definition ids_below (G : nat) (l : list nat) : bool := forallb (fun g => (g <? G)%nat) l.

  Definition range_check (s : state) (G : nat) : bool :=
    forallb (fun p =>
      (nf s p <=? G)%nat &&
      forallb (fun c => (c <? length s)%nat) (o_children (get_obj s p)) &&
      forallb (fun f =>
        ids_below G (f_self (feat T (cls_of s p) f)) && ids_below G (f_children (feat T (cls_of s p) f)) &&
        ids_below G (fs_alt (get_fs s p f))) (seq 0 (nf s p)))
    (seq 0 (length s)).

  Definition consistent_check (s : state) (G : nat) : bool :=
    range_check s G &&
    forallb (fun o => forallb (fun g =>
      (0 <=? excess s o g) && (is_enabled s o g || (rc s o g <=? 0))) (seq 0 G)) (seq 0 (length s)).
End Need.
