(* C13 x C08: the small dependency engine inside the C08 model (coq/C08/ModuleModel.v: var_ref_active, var_decr_active,
   var_enable_awake, var_disable_awake, var_ref_apply, var_decr_apply on the features active / awake / apply_force of a
   variable) agrees with the general engine of C13 (DepsModel.v: enable / disable / decr_ref_count) instantiated with the
   tables regenerated from the binary.  Checked by computation for every combination of the flags and every reference
   count in -1 .. 3 (all branches of both models: the tests are `<= 0`, `- 1 = 0`, `> 1`); re-checked on every run, so a
   change of the tables (or of either model) that makes them disagree breaks this file. *)
From Coq Require Import ZArith List Bool Arith.
From CV Require Import Base.Num C13.DepsModel C08.ModuleModel Gen.GenDeps.
Import ListNotations.
Open Scope Z_scope.

Section Cross.
  Context {T : Type} (O : NumOps T).

  Definition bs := unit.
  Definition c8var (a : bool) (rc : Z) (w ap : bool) (arc : Z) : @var T :=
    mkVar 1 a rc w ap arc (n0 O) [] (n0 O) (n0 O) (n0 O).

  (* the same variable for the general engine: a scalar, linear variable without components;
     features 0 active, 1 awake, 2 apply_force, 34 scalar, 35 linear of the regenerated colvar table *)
  Definition c13var (a : bool) (rc : Z) (w ap : bool) (arc : Z) : state :=
    [mkObj 1 (map (fun i =>
        match i with
        | 0%nat => mkFstate true a rc []
        | 1%nat => mkFstate true w 0 []
        | 2%nat => mkFstate true ap arc []
        | 34%nat | 35%nat => mkFstate true true 0 []
        | _ => mkFstate true false 0 []
        end) (seq 0 (nfeat gen_tables 1))) [] []].

  Definition proj13 (s : state) : bool * Z * bool * bool * Z :=
    (is_enabled s 0 0, fs_rc (get_fs s 0 0), is_enabled s 0 1, is_enabled s 0 2, fs_rc (get_fs s 0 2)).
  Definition proj8 (v : @var T) : bool * Z * bool * bool * Z :=
    (v_active v, v_rc v, v_awake v, v_apply v, v_arc v).

  Definition eqp (x y : bool * Z * bool * bool * Z) : bool :=
    let '(a1, r1, w1, p1, q1) := x in let '(a2, r2, w2, p2, q2) := y in
    Bool.eqb a1 a2 && (r1 =? r2) && Bool.eqb w1 w2 && Bool.eqb p1 p2 && (q1 =? q2).

  Definition after (r : res) (dflt : state) : state := match r with Some (_, s) => s | None => dflt end.
  Definition returned (r : res) : bool := match r with Some _ => true | None => false end.

  Definition bools := [true; false].
  Definition counts := [-1; 0; 1; 2; 3].

  Definition all_cases (chk : bool -> Z -> bool -> bool -> Z -> bool) : bool :=
    forallb (fun a => forallb (fun rc => forallb (fun w => forallb (fun ap => forallb (fun arc => chk a rc w ap arc) counts) bools) bools) counts) bools.

  Definition agree (op13 : state -> res) (op8 : @var T -> @var T) : bool :=
    all_cases (fun a rc w ap arc =>
      let s := c13var a rc w ap arc in
      returned (op13 s) && eqp (proj13 (after (op13 s) s)) (proj8 (op8 (c8var a rc w ap arc)))).

  Definition cross_check (tabs : tables) : bool :=
    agree (enable tabs 20 0 0 false false false) var_ref_active &&
    agree (decr_ref_count tabs 20 0 0) (fun v => fst (var_decr_active v)) &&
    agree (enable tabs 20 0 1 false true false) var_enable_awake &&
    agree (disable tabs 20 0 1) (fun v => fst (var_disable_awake v)) &&
    agree (enable tabs 20 0 2 false false false) var_ref_apply &&
    agree (decr_ref_count tabs 20 0 2) (fun v => fst (var_decr_apply v)) &&
    (* the error flag of decr_ref_count: refused exactly when the count is not positive *)
    all_cases (fun a rc w ap arc =>
      Bool.eqb (snd (var_decr_active (c8var a rc w ap arc)))
               (match decr_ref_count tabs 20 0 0 (c13var a rc w ap arc) with Some (ok, _) => negb ok | None => false end)).
End Cross.

(* for every NumOps instance (the numeric fields are not touched by these operations) and both table variants *)
Lemma c08_engine_agrees {T : Type} (O : NumOps T) :
  cross_check O gen_tables = true /\ cross_check O gen_tables_lagged = true.
Proof. split; vm_compute; reflexivity. Qed.
