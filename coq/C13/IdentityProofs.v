(* C13: define-then-delete is the identity (model level), first case: a bias whose enabled features require of its
   variable only capabilities that are already ON and REFERENCED (ref_count >= 1 for dynamic ones, >= 0 otherwise).
   Linking the variable (colvardeps::add_child) then only adds references, deleting the bias (colvarbias::clear +
   ~colvardeps) only drops them, in the same order, and no automatic disable is triggered: every feature state, every
   children list and every parents list of every object is what it was.  The side condition excludes exactly the finding
   variable-deactivated-when-last-bias-deleted (F2: a required dynamic feature enabled at top level, count 0) and the
   case where the bias has to switch capabilities on (not covered here). *)
From Coq Require Import ZArith List Bool Arith Lia.
From CV Require Import C13.DepsModel C13.InvModel C13.DepsProofs C13.ModuleProofs C13.DepsInv.
Import ListNotations.
Open Scope Z_scope.

Definition add_rc (x : fstate) (k : Z) : fstate := mkFstate (fs_avail x) (fs_enabled x) (fs_rc x + k) (fs_alt x).

Lemma loop_all_cons (call : nat -> state -> res) g r st :
  loop_all call (g :: r) st = match call g st with None => None | Some (_, st') => loop_all call r st' end.
Proof. reflexivity. Qed.

Lemma loop_all_nil (call : nat -> state -> res) st : loop_all call [] st = Some st.
Proof. reflexivity. Qed.

Section Identity.
  Variable T : tables.
  Variable s : state.             (* the state before the bias is linked *)

  (* t has the classes, numbers of features and feature states of s, reference counts shifted by D *)
  Definition fsoff (t : state) (D : nat -> nat -> Z) : Prop :=
    (forall o, cls_of t o = cls_of s o) /\ (forall o, nf t o = nf s o) /\
    forall o f, (f < nf s o)%nat -> get_fs t o f = add_rc (get_fs s o f) (D o f).

  Definition bumpD (D : nat -> nat -> Z) (v g : nat) (k : Z) : nat -> nat -> Z :=
    fun o f => if ((o =? v) && (f =? g))%nat then D o f + k else D o f.

  Lemma fsoff_enabled t D o f : fsoff t D -> is_enabled t o f = is_enabled s o f.
  Proof.
    intros (_ & N & H). unfold is_enabled. destruct (Nat.lt_ge_cases f (nf s o)) as [L|L]; [rewrite (H o f L); reflexivity|].
    unfold get_fs. rewrite !nth_overflow; [reflexivity | exact L | fold (nf t o); rewrite N; exact L].
  Qed.

  Lemma fsoff_rc t D o f : fsoff t D -> (f < nf s o)%nat -> rc t o f = rc s o f + D o f.
  Proof. intros (_ & _ & H) L. unfold rc. rewrite (H o f L). reflexivity. Qed.

  Lemma fsoff_set t D v g u k : fsoff t D -> (g < nf s v)%nat ->
    (forall x, u x = add_rc x k) -> fsoff (set_fs t v g u) (bumpD D v g k).
  Proof.
    intros (C & N & H) L Hu. split; [intros o; rewrite set_fs_cls; apply C|]. split; [intros o; rewrite set_fs_nf; apply N|].
    intros o f Lf. unfold bumpD. destruct ((o =? v) && (f =? g))%nat eqn:E.
    - apply andb_true_iff in E. destruct E as [E1 E2]. apply Nat.eqb_eq in E1. apply Nat.eqb_eq in E2. subst o f.
      rewrite get_fs_same by (apply Nat.ltb_lt; rewrite N; exact L). rewrite Hu, (H v g L). unfold add_rc. cbn. f_equal. lia.
    - rewrite get_fs_other; [apply H; exact Lf|]. apply andb_false_iff in E. destruct E as [E|E]; apply Nat.eqb_neq in E; auto.
  Qed.

  Variables (b v : nat).
  (* what the bias requires of its variable, and in what state these capabilities are *)
  Hypothesis PC : forall fid g, is_enabled s b fid = true -> In g (f_children (feat T (cls_of s b) fid)) ->
    is_enabled s v g = true /\ (g < nfeat T (cls_of s v))%nat /\ 0 <= rc s v g /\
    (is_dynamic (feat T (cls_of s v) g) = true -> 1 <= rc s v g).

  Definition dv (D : nat -> nat -> Z) (W : nat -> Z) (sign : Z) : nat -> nat -> Z :=
    fun o f => if (o =? v)%nat then D o f + sign * W f else D o f.

  Lemma bumpD_dv D g W sign : forall o f, bumpD (dv D W sign) v g sign o f = dv D (fun x => W x + (if Nat.eq_dec g x then 1 else 0)) sign o f.
  Proof.
    intros o f. unfold bumpD, dv. destruct (o =? v)%nat eqn:Eo; cbn [andb]; [|reflexivity].
    destruct (f =? g)%nat eqn:Ef; destruct (Nat.eq_dec g f) as [Heq|Hne]; try lia.
    - apply Nat.eqb_eq in Ef. congruence.
    - apply Nat.eqb_neq in Ef. congruence.
  Qed.

  Lemma fsoff_ext t D D' : (forall o f, D o f = D' o f) -> fsoff t D -> fsoff t D'.
  Proof. intros E (C & N & H). split; [exact C|]. split; [exact N|]. intros o f L. rewrite <- E. apply H. exact L. Qed.

  (* ---- taking the references: the inner loop of add_child / restore_children_deps for one feature of the bias *)
  Lemma take_list n GL : forall t D W,
    (forall g, In g GL -> is_enabled s v g = true /\ (g < nfeat T (cls_of s v))%nat) ->
    fsoff t (dv D W 1) ->
    exists t', loop_all (fun g st2 => match loop_all (fun c st3 => enable T (S n) c g false false false st3) [v] st2 with
                                      | None => None | Some x => Some (true, x) end) GL t = Some t' /\
               fsoff t' (dv D (fun x => W x + zcnt x GL) 1).
  Proof.
    induction GL as [|g GL IH]; intros t D W Hg F; cbn [loop_all].
    - exists t. split; [reflexivity|]. eapply fsoff_ext; [|exact F]. intros o f. unfold dv. rewrite zcnt_nil. destruct (o =? v)%nat; lia.
    - destruct (Hg g (or_introl eq_refl)) as (En & Lg).
      assert (Et : is_enabled t v g = true) by (rewrite (fsoff_enabled t _ v g F); exact En).
      assert (Lt : (g < nfeat T (cls_of t v))%nat) by (destruct F as (C & _); rewrite C; exact Lg).
      rewrite (enable_enabled_bumps T n v g false t Lt Et).
      assert (Rg : (g < nf s v)%nat) by (apply Nat.ltb_lt; apply enabled_in_range; exact En).
      pose proof (fsoff_set t _ v g fs_bump 1 F Rg (fun x => eq_refl)) as F1.
      destruct (IH (set_fs t v g fs_bump) D (fun x => W x + (if Nat.eq_dec g x then 1 else 0))) as (t' & E' & F').
      + intros g' Hg'. apply Hg. right. exact Hg'.
      + eapply fsoff_ext; [|exact F1]. apply bumpD_dv.
      + exists t'. split; [exact E'|]. eapply fsoff_ext; [|exact F']. intros o f. unfold dv. rewrite zcnt_cons. destruct (o =? v)%nat; lia.
  Qed.

  Lemma take_all n FL : forall t D W, fsoff t (dv D W 1) ->
    exists t', loop_all (fun fid st1 =>
        if is_enabled st1 b fid then
          match loop_all (fun g st2 => match loop_all (fun c st3 => enable T (S n) c g false false false st3) [v] st2 with
                                        | None => None | Some x => Some (true, x) end)
                         (f_children (feat T (cls_of st1 b) fid)) st1 with
          | None => None | Some x => Some (true, x) end
        else Some (true, st1)) FL t = Some t' /\
      fsoff t' (dv D (fun x => W x + zsum FL (termC T s b x)) 1).
  Proof.
    induction FL as [|fid FL IH]; intros t D W F.
    - rewrite loop_all_nil. exists t. split; [reflexivity|]. eapply fsoff_ext; [|exact F]. intros o f. unfold dv. cbn [zsum]. destruct (o =? v)%nat; lia.
    - rewrite loop_all_cons. rewrite (fsoff_enabled t _ b fid F). assert (Cb : cls_of t b = cls_of s b) by (destruct F as (C & _); apply C). rewrite Cb.
      destruct (is_enabled s b fid) eqn:Eb.
      + destruct (take_list n (f_children (feat T (cls_of s b) fid)) t D W) as (t1 & E1 & F1); [|exact F|].
        { intros g Hg. destruct (PC fid g Eb Hg) as (A & B & _). auto. }
        rewrite E1. destruct (IH t1 D (fun x => W x + zcnt x (f_children (feat T (cls_of s b) fid))) F1) as (t' & E' & F').
        exists t'. split; [exact E'|]. eapply fsoff_ext; [|exact F']. intros o f. unfold dv. cbn [zsum].
        assert (Ht : termC T s b f fid = zcnt f (f_children (feat T (cls_of s b) fid))) by (unfold termC; rewrite Eb; reflexivity).
        rewrite Ht. destruct (o =? v)%nat; lia.
      + destruct (IH t D W F) as (t' & E' & F'). exists t'. split; [exact E'|]. eapply fsoff_ext; [|exact F'].
        intros o f. unfold dv. cbn [zsum].
        assert (Ht : termC T s b f fid = 0) by (unfold termC; rewrite Eb; reflexivity).
        rewrite Ht. destruct (o =? v)%nat; lia.
  Qed.

  (* ---- dropping them: free_children_deps, children list [v] *)
  Variable Dd : dfun.
  Hypothesis DdShape : forall o f a r c, Dd o f a = Some (r, c) -> same_shape a c.

  Lemma drop_list GL : forall t D W,
    (forall g, In g GL -> is_enabled s v g = true /\ 0 <= rc s v g /\ (is_dynamic (feat T (cls_of s v) g) = true -> 1 <= rc s v g)) ->
    (forall x, zcnt x GL <= D v x - W x) -> (forall x, 0 <= W x) ->
    fsoff t (dv D W (-1)) ->
    exists t', decr_children T Dd [v] GL t = Some t' /\ fsoff t' (dv D (fun x => W x + zcnt x GL) (-1)).
  Proof.
    unfold decr_children. induction GL as [|g GL IH]; intros t D W Hg Hb Hw F; cbn [loop_all].
    - exists t. split; [reflexivity|]. eapply fsoff_ext; [|exact F]. intros o f. unfold dv. rewrite zcnt_nil. destruct (o =? v)%nat; lia.
    - destruct (Hg g (or_introl eq_refl)) as (En & R0 & Rd).
      assert (Rg : (g < nf s v)%nat) by (apply Nat.ltb_lt; apply enabled_in_range; exact En).
      assert (Rt : rc t v g = rc s v g + (D v g - W g)).
      { rewrite (fsoff_rc t _ v g F Rg). unfold dv. rewrite Nat.eqb_refl. lia. }
      pose proof (Hb g) as Hbg. rewrite zcnt_cons in Hbg. destruct (Nat.eq_dec g g) as [_|X]; [|congruence].
      pose proof (zcnt_nonneg g GL) as Hz.
      unfold decr_with at 1. fold (rc t v g).
      assert (E1 : (rc t v g <=? 0) = false) by (apply Z.leb_gt; lia). rewrite E1.
      assert (E2 : ((rc t v g - 1 =? 0) && is_dynamic (feat T (cls_of t v) g))%bool = false).
      { destruct F as (C & _). rewrite C. destruct (is_dynamic (feat T (cls_of s v) g)) eqn:Ed; [|apply andb_false_r].
        specialize (Rd eq_refl). apply andb_false_iff. left. apply Z.eqb_neq. lia. }
      rewrite E2.
      pose proof (fsoff_set t _ v g fs_decr (-1) F Rg (fun x => eq_refl)) as F1.
      destruct (IH (set_fs t v g fs_decr) D (fun x => W x + (if Nat.eq_dec g x then 1 else 0))) as (t' & E' & F').
      + intros g' Hg'. apply Hg. right. exact Hg'.
      + intros x. specialize (Hb x). rewrite zcnt_cons in Hb. lia.
      + intros x. specialize (Hw x). destruct (Nat.eq_dec g x); lia.
      + eapply fsoff_ext; [|exact F1]. intros o f. rewrite bumpD_dv. reflexivity.
      + exists t'. split; [exact E'|]. eapply fsoff_ext; [|exact F']. intros o f. unfold dv. rewrite zcnt_cons. destruct (o =? v)%nat; lia.
  Qed.

  Definition same_links (t t' : state) : Prop :=
    length t' = length t /\ forall x, o_children (get_obj t' x) = o_children (get_obj t x) /\ o_parents (get_obj t' x) = o_parents (get_obj t x).

  Lemma same_links_refl t : same_links t t.
  Proof. split; auto. Qed.

  Lemma same_links_trans a c d : same_links a c -> same_links c d -> same_links a d.
  Proof. intros [L1 H1] [L2 H2]. split; [congruence|]. intros x. destruct (H1 x), (H2 x). split; congruence. Qed.

  Lemma same_links_shape t t' : same_shape t t' -> same_links t t'.
  Proof. intros [L H]. split; [exact L|]. intros x. destruct (H x) as (_ & A & B & _). auto. Qed.

  Lemma drop_all FL : forall t D W,
    o_children (get_obj t b) = [v] ->
    (forall x, zsum FL (termC T s b x) <= D v x - W x) -> (forall x, 0 <= W x) ->
    fsoff t (dv D W (-1)) ->
    exists t', loop_all (fun fid st1 =>
        if is_enabled st1 b fid then
          match decr_children T Dd (o_children (get_obj st1 b)) (f_children (feat T (cls_of st1 b) fid)) st1 with
          | None => None | Some x => Some (true, x) end
        else Some (true, st1)) FL t = Some t' /\
      fsoff t' (dv D (fun x => W x + zsum FL (termC T s b x)) (-1)) /\ same_links t t'.
  Proof.
    induction FL as [|fid FL IH]; intros t D W Hch Hb Hw F.
    - rewrite loop_all_nil. exists t. split; [reflexivity|]. split; [|apply same_links_refl].
      eapply fsoff_ext; [|exact F]. intros o f. unfold dv. cbn [zsum]. destruct (o =? v)%nat; lia.
    - rewrite loop_all_cons. rewrite (fsoff_enabled t _ b fid F). assert (Cb : cls_of t b = cls_of s b) by (destruct F as (C & _); apply C).
      rewrite Cb, Hch.
      assert (Zn : forall x, 0 <= zsum FL (termC T s b x)) by (intros x; apply zsum_nonneg; intros; apply termC_nonneg).
      destruct (is_enabled s b fid) eqn:Eb.
      + assert (Ht : forall x, termC T s b x fid = zcnt x (f_children (feat T (cls_of s b) fid))) by (intros x; unfold termC; rewrite Eb; reflexivity).
        destruct (drop_list (f_children (feat T (cls_of s b) fid)) t D W) as (t1 & E1 & F1); try assumption.
        { intros g Hg. destruct (PC fid g Eb Hg) as (A & _ & B & C). auto. }
        { intros x. specialize (Hb x). cbn [zsum] in Hb. rewrite Ht in Hb. specialize (Zn x). lia. }
        rewrite E1.
        assert (L1 : same_links t t1).
        { apply same_links_shape. eapply (decr_children_rel T same_shape same_shape_refl same_shape_trans); [| |exact E1].
          - intros; apply set_fs_shape; intros y; reflexivity.
          - exact DdShape. }
        destruct (IH t1 D (fun x => W x + zcnt x (f_children (feat T (cls_of s b) fid)))) as (t' & E' & F' & L').
        * destruct L1 as [_ L1]. destruct (L1 b) as (A & _). rewrite A. exact Hch.
        * intros x. specialize (Hb x). cbn [zsum] in Hb. rewrite Ht in Hb. lia.
        * intros x. specialize (Hw x). pose proof (zcnt_nonneg x (f_children (feat T (cls_of s b) fid))). lia.
        * exact F1.
        * exists t'. split; [exact E'|]. split; [|eapply same_links_trans; eassumption].
          eapply fsoff_ext; [|exact F']. intros o f. unfold dv. cbn [zsum]. rewrite Ht. destruct (o =? v)%nat; lia.
      + assert (Ht : forall x, termC T s b x fid = 0) by (intros x; unfold termC; rewrite Eb; reflexivity).
        destruct (IH t D W Hch) as (t' & E' & F' & L'); try assumption.
        { intros x. specialize (Hb x). cbn [zsum] in Hb. rewrite Ht in Hb. lia. }
        exists t'. split; [exact E'|]. split; [|exact L'].
        eapply fsoff_ext; [|exact F']. intros o f. unfold dv. cbn [zsum]. rewrite Ht. destruct (o =? v)%nat; lia.
  Qed.
End Identity.

Lemma rl1_snoc b l : rl1 b (l ++ [b]) = l.
Proof.
  unfold rl1. induction l as [|a l IH]; cbn [app remove_last].
  - rewrite Nat.eqb_refl. reflexivity.
  - destruct (remove_last b (l ++ [b])) as [r found] eqn:E. cbn [fst] in IH. subst r.
    assert (F : found = true).
    { destruct (remove_last_spec b (l ++ [b])) as [(A & _)|(_ & B & _)]; [rewrite E in A; exact A|].
      exfalso. apply B. apply in_or_app. right. left. reflexivity. }
    subst found. reflexivity.
Qed.

(* Linking a variable to an (active, so far childless) bias and deleting the bias is the identity on every feature state and
   every link of every object, when what the bias requires of the variable is already on and referenced. *)
Theorem link_then_delete_bias_identity (T : tables) n m (s : state) (b v : nat) s1 s2 :
  (b < length s)%nat -> (v < length s)%nat -> b <> v -> o_children (get_obj s b) = [] ->
  is_enabled s b 0 = true ->
  (forall fid g, is_enabled s b fid = true -> In g (f_children (feat T (cls_of s b) fid)) ->
     is_enabled s v g = true /\ (g < nfeat T (cls_of s v))%nat /\ 0 <= rc s v g /\
     (is_dynamic (feat T (cls_of s v) g) = true -> 1 <= rc s v g)) ->
  add_child T (S n) b v s = Some s1 -> delete_bias T m b s1 = Some s2 ->
  length s2 = length s /\
  (forall o f, get_fs s2 o f = get_fs s o f) /\
  (forall o, cls_of s2 o = cls_of s o /\ o_children (get_obj s2 o) = o_children (get_obj s o) /\
             o_parents (get_obj s2 o) = o_parents (get_obj s o)).
Proof.
  intros Lb Lv Nbv Hch Hact PC H1 H2.
  unfold add_child in H1.
  set (st2 := upd_obj (upd_obj s b (fun ob => mkObj (o_class ob) (o_fs ob) (o_children ob ++ [v]) (o_parents ob)))
                      v (fun ob => mkObj (o_class ob) (o_fs ob) (o_children ob) (o_parents ob ++ [b]))) in *.
  assert (G2 : forall o, get_obj st2 o = let ob := get_obj s o in
             mkObj (o_class ob) (o_fs ob) (if (o =? b)%nat then o_children ob ++ [v] else o_children ob)
                   (if (o =? v)%nat then o_parents ob ++ [b] else o_parents ob)).
  { intros o. unfold st2. rewrite get_obj_upd_obj, length_upd_obj, get_obj_upd_obj.
    apply Nat.ltb_lt in Lb. apply Nat.ltb_lt in Lv. rewrite Lb, Lv, !andb_true_r.
    destruct (o =? v)%nat; destruct (o =? b)%nat; cbn zeta; destruct (get_obj s o); reflexivity. }
  assert (F2 : fsoff s st2 (dv v (fun _ _ => 0) (fun _ => 0) 1)).
  { split; [intros o; unfold cls_of; rewrite G2; reflexivity|]. split; [intros o; unfold nf; rewrite G2; reflexivity|].
    intros o f _. unfold get_fs. rewrite G2. cbn [o_fs]. unfold add_rc, dv. destruct (o =? v)%nat; destruct (nth f (o_fs (get_obj s o)) fs_default); cbn; f_equal; lia. }
  unfold restore_with in H1.
  assert (PC1 : forall fid g, is_enabled s b fid = true -> In g (f_children (feat T (cls_of s b) fid)) ->
            is_enabled s v g = true /\ (g < nfeat T (cls_of s v))%nat /\ 0 <= rc s v g /\
            (is_dynamic (feat T (cls_of s v) g) = true -> 1 <= rc s v g)) by exact PC.
  destruct (take_all T s b v PC1 n (seq 0 (length (o_fs (get_obj st2 b)))) st2 (fun _ _ => 0) (fun _ => 0) F2) as (t1 & E1 & F1).
  rewrite E1 in H1. inversion H1; subst t1. clear H1.
  assert (Enf : length (o_fs (get_obj st2 b)) = nf s b) by (rewrite G2; reflexivity).
  rewrite Enf in F1.
  (* links of s1 = links of st2 *)
  assert (Sh1 : same_shape st2 s1).
  { eapply (restore_with_rel T same_shape same_shape_refl same_shape_trans (enable T (S n))); [|unfold restore_with; exact E1].
    intros x f d t e a r c H0. eapply (enable_rel T same_shape same_shape_refl same_shape_trans); try exact H0; intros; apply set_fs_shape; intros y; reflexivity. }
  destruct Sh1 as [Ls1 Sh1].
  assert (Ch1 : o_children (get_obj s1 b) = [v]).
  { destruct (Sh1 b) as (_ & A & _). rewrite A, G2. cbn. rewrite Nat.eqb_refl, Hch. reflexivity. }
  (* deletion *)
  unfold delete_bias in H2. rewrite (fsoff_enabled s s1 _ b 0 F1), Hact in H2.
  unfold free_children_deps, free_with in H2.
  assert (Enf1 : length (o_fs (get_obj s1 b)) = nf s b) by (destruct F1 as (_ & N & _); apply N).
  rewrite Enf1 in H2.
  assert (F1' : fsoff s s1 (dv v (fun o f => if (o =? v)%nat then wch T s b f else 0) (fun _ => 0) (-1))).
  { eapply fsoff_ext; [|exact F1]. intros o f. unfold dv, wch. destruct (o =? v)%nat; lia. }
  destruct (drop_all T s b v PC1 (disable T m) (disable_dshape T m) (seq 0 (nf s b)) s1 (fun o f => if (o =? v)%nat then wch T s b f else 0) (fun _ => 0) Ch1) as (t2 & E2 & F2' & L2); try exact F1'.
  { intros x. rewrite Nat.eqb_refl. unfold wch. lia. }
  { intros x. lia. }
  rewrite E2 in H2. inversion H2; subst s2. clear H2.
  assert (Fin : forall o f, get_fs t2 o f = get_fs s o f).
  { intros o f. destruct F2' as (_ & N & H). destruct (Nat.lt_ge_cases f (nf s o)) as [L|L].
    - rewrite (H o f L).
      match goal with |- add_rc _ ?k = _ => assert (Z0 : k = 0) by (unfold dv, wch; destruct (o =? v)%nat; lia); rewrite Z0 end.
      unfold add_rc. destruct (get_fs s o f); cbn. f_equal. lia.
    - unfold get_fs. rewrite !nth_overflow; [reflexivity | exact L | fold (nf t2 o); rewrite N; exact L]. }
  destruct L2 as [Ll2 L2].
  assert (Llen : length t2 = length s) by (rewrite Ll2, Ls1; unfold st2; rewrite !length_upd_obj; reflexivity).
  split; [rewrite remove_all_children_length; exact Llen|]. split.
  - intros o f. rewrite remove_all_children_fs. apply Fin.
  - intros o. unfold cls_of. rewrite !remove_all_children_obj. cbn zeta. cbn [o_class o_children o_parents].
    destruct (L2 o) as (Lc & Lp). destruct (Sh1 o) as (Kc & Kch & Kpa & _).
    assert (Cb2 : o_children (get_obj t2 b) = [v]) by (destruct (L2 b) as (A & _); rewrite A; exact Ch1).
    split; [|split].
    + destruct F2' as (C & _). apply (C o).
    + rewrite Lc, Kch, G2. cbn [o_children]. destruct (o =? b)%nat eqn:Eo.
      * apply Nat.eqb_eq in Eo. subst o. assert (Lt : (b <? length t2)%nat = true) by (apply Nat.ltb_lt; rewrite Llen; exact Lb). rewrite Lt. cbn. rewrite Hch. reflexivity.
      * reflexivity.
    + rewrite Cb2, Lp, Kpa, G2. cbn [o_parents].
      assert (Lo : (o <? length t2)%nat = (o <? length s)%nat) by (rewrite Llen; reflexivity). rewrite Lo.
      destruct (o =? v)%nat eqn:Eo.
      * apply Nat.eqb_eq in Eo. subst o. apply Nat.ltb_lt in Lv. rewrite Lv. rewrite cnt_single. destruct (Nat.eq_dec v v); [|congruence].
        cbn [rl_iter]. apply rl1_snoc.
      * apply Nat.eqb_neq in Eo. rewrite cnt_single. destruct (Nat.eq_dec v o); [congruence|]. destruct (o <? length s)%nat; reflexivity.
Qed.

(* finite check of the side condition on a concrete state *)
Definition pc_check (T : tables) (s : state) (b v : nat) : bool :=
  forallb (fun fid => negb (is_enabled s b fid) ||
     forallb (fun g => is_enabled s v g && (g <? nfeat T (cls_of s v))%nat && (0 <=? rc s v g) &&
                       (negb (is_dynamic (feat T (cls_of s v) g)) || (1 <=? rc s v g)))
             (f_children (feat T (cls_of s b) fid)))
          (seq 0 (nf s b)).

Lemma pc_check_sound T s b v : pc_check T s b v = true ->
  forall fid g, is_enabled s b fid = true -> In g (f_children (feat T (cls_of s b) fid)) ->
     is_enabled s v g = true /\ (g < nfeat T (cls_of s v))%nat /\ 0 <= rc s v g /\
     (is_dynamic (feat T (cls_of s v) g) = true -> 1 <= rc s v g).
Proof.
  unfold pc_check. intros H fid g He Hg. pose proof (enabled_in_range _ _ _ He) as R. apply Nat.ltb_lt in R.
  pose proof (forallb_seq _ _ H fid R) as H1. cbv beta in H1. rewrite He in H1. cbn [negb orb] in H1.
  rewrite forallb_forall in H1. specialize (H1 g Hg).
  apply andb_true_iff in H1. destruct H1 as [H1 D]. apply andb_true_iff in H1. destruct H1 as [H1 C]. apply andb_true_iff in H1. destruct H1 as [A B].
  split; [exact A|]. split; [apply Nat.ltb_lt; exact B|]. split; [apply Z.leb_le; exact C|].
  intros Dy. rewrite Dy in D. cbn [negb orb] in D. apply Z.leb_le. exact D.
Qed.
