(* C13: the awake/asleep scheduling of colvarmodule::calc_colvars (ModuleModel.sched) is a composition of top-level
   enable(awake) / disable(awake) calls: it keeps the shape and, on tables passing the exclusion check, mutual exclusion. *)
From Coq Require Import ZArith List Bool Arith Lia.
From CV Require Import C13.DepsModel C13.InvModel C13.DepsProofs C13.ModuleModel C13.EnableExcl.
Import ListNotations.
Open Scope nat_scope.

Section SchedProofs.
  Variable T : tables.

  Definition sgood (ht : nat -> nat) (s s' : state) : Prop :=
    same_shape s s' /\ (excl_tables_check T = true -> heights_of ht s -> excl_inv T s -> excl_inv T s').

  Lemma heights_shape ht s s' : same_shape s s' -> heights_of ht s -> heights_of ht s'.
  Proof. intros [_ Sh] H p c Hc. apply H. destruct (Sh p) as (_ & A & _). rewrite <- A. exact Hc. Qed.

  Lemma sgood_refl ht s : sgood ht s s.
  Proof. split; [apply same_shape_refl | auto]. Qed.

  Lemma sgood_trans ht a b c : sgood ht a b -> sgood ht b c -> sgood ht a c.
  Proof.
    intros [S1 E1] [S2 E2]. split; [eapply same_shape_trans; eassumption|].
    intros Hc Hh Hx. apply E2; [exact Hc | eapply heights_shape; eassumption | apply E1; assumption].
  Qed.

  Lemma after_op_sgood ht n p s s' : after_op T n p s = Some s' -> sgood ht s s'.
  Proof.
    unfold after_op. destruct (run_op T n p s) as [[r s1]|] eqn:E; [|discriminate]. intros H; inversion H; subst. clear H.
    split; [eapply run_op_shape; exact E|]. intros Hc Hh Hx.
    destruct (release_op p) eqn:Rp; [eapply release_preserves_excl; eassumption|].
    destruct p as [o f dry top err|o f|o f|o|o]; cbn [release_op] in Rp; try discriminate; cbn [run_op] in E.
    - eapply enable_preserves_exclusion; eassumption.
    - destruct (restore_children_deps T n o s) as [s2|] eqn:E2; [|discriminate]. inversion E; subst.
      eapply restore_preserves_exclusion; eassumption.
  Qed.

  Lemma sched_one_sgood ht n step ot s s' : sched_one T n step ot s = Some s' -> sgood ht s s'.
  Proof.
    destruct ot as [o tsf]. unfold sched_one. destruct (1 <? tsf); [|intros H; inversion H; subst; apply sgood_refl].
    destruct (step mod tsf =? 0); [apply after_op_sgood|].
    destruct (is_enabled s o 0 && negb (is_enabled s o 1)).
    - destruct (after_op T n (OpEnable o 1 false true false) s) as [s1|] eqn:E1; [|discriminate]. intros H.
      eapply sgood_trans; [eapply after_op_sgood; exact E1 | eapply after_op_sgood; exact H].
    - apply after_op_sgood.
  Qed.

  Theorem sched_good ht n step ots : forall s s', sched T n step ots s = Some s' -> sgood ht s s'.
  Proof.
    induction ots as [|ot ots IH]; intros s s' H; cbn [sched] in H; [inversion H; subst; apply sgood_refl|].
    destruct (sched_one T n step ot s) as [s1|] eqn:E; [|discriminate].
    eapply sgood_trans; [eapply sched_one_sgood; exact E | eapply IH; exact H].
  Qed.
End SchedProofs.
