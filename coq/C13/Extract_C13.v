From Coq Require Import Extraction ExtrOcamlBasic.
From CV Require Import C13.DepsModel C13.InvModel C13.ModuleModel C13.EnableExcl C13.NameModel C13.NameRefModel Gen.GenDeps.
Extraction Language OCaml.
Extraction "model.ml" mkFeature mkFstate mkObj run_op delete_bias add_child remove_all_children gen_tables gen_tables_lagged
  mkInfo mkM m_step m_run m_empty m_sched consistent_check wf_check acct_check excl_check n_run n_empty r_run r_empty resolve.
