(* C13: only DYNAMIC features are switched by reference counting.  A feature that is not dynamic (user-controlled: set from
   the configuration or by script; static: set by the init code) changes state only as the explicit target of a top-level
   enable or of a disable call:
   - release family (disable with all its cascades, decr_ref_count, free_children_deps, deletion of a bias): every enabled
     non-dynamic feature other than the target of the disable call stays enabled (colvardeps::decr_ref_count auto-disables
     `rc == 0 && f->is_dynamic()` only);
   - enable family: whatever becomes enabled is dynamic, except the target of a top-level call
     ("... cannot be enabled automatically"). *)
From Coq Require Import ZArith List Bool Arith Lia.
From CV Require Import C13.DepsModel C13.InvModel C13.DepsProofs C13.ModuleProofs C13.DepsInv.
Import ListNotations.
Open Scope nat_scope.

Section Release.
  Variable T : tables.
  Variables (o' g : nat).

  Definition nd (s : state) : Prop := is_dynamic (feat T (cls_of s o') g) = false.
  Definition stays (s s' : state) : Prop := nd s -> nd s' /\ (is_enabled s o' g = true -> is_enabled s' o' g = true).

  Lemma stays_refl s : stays s s.
  Proof. intros H. auto. Qed.

  Lemma stays_trans a b c : stays a b -> stays b c -> stays a c.
  Proof. intros H1 H2 N. destruct (H1 N) as (N1 & E1). destruct (H2 N1) as (N2 & E2). auto. Qed.

  Lemma stays_set_fs s o h u : ((o, h) <> (o', g) \/ forall x, fs_enabled (u x) = fs_enabled x) -> stays s (set_fs s o h u).
  Proof.
    intros H N. split; [unfold nd in *; rewrite set_fs_cls; exact N|].
    intros E. unfold is_enabled in *. destruct H as [H|H].
    - rewrite get_fs_other; [exact E|]. destruct (Nat.eq_dec o' o) as [->|]; [|left; congruence]. right. intros ->. apply H. reflexivity.
    - rewrite get_fs_set_fs. destruct (_ && _); [rewrite H|]; exact E.
  Qed.

  Definition dstays (D : dfun) : Prop := forall o h s r s', D o h s = Some (r, s') -> (o, h) <> (o', g) -> stays s s'.

  Lemma stays_loop_all (call : nat -> state -> res) :
    (forall x s r s', call x s = Some (r, s') -> stays s s') -> forall gs s s', loop_all call gs s = Some s' -> stays s s'.
  Proof. apply (loop_all_rel stays stays_refl stays_trans). Qed.

  (* decr_ref_count, on any target: a non-dynamic feature is never auto-disabled *)
  Lemma stays_decr_with D : dstays D -> forall o h s r s', decr_with T D o h s = Some (r, s') -> stays s s'.
  Proof.
    intros HD o h s r s' H. unfold decr_with in H.
    destruct (fs_rc (get_fs s o h) <=? 0)%Z; [inversion H; subst; apply stays_refl|].
    pose proof (stays_set_fs s o h fs_decr (or_intror (fun x => eq_refl))) as K1.
    destruct ((fs_rc (get_fs s o h) - 1 =? 0)%Z && is_dynamic (feat T (cls_of s o) h))%bool eqn:Ez.
    - destruct (D o h (set_fs s o h fs_decr)) as [[b s2]|] eqn:E2; [|discriminate]. inversion H; subst.
      intros N. apply andb_true_iff in Ez. destruct Ez as [_ Ez].
      assert (Ne : (o, h) <> (o', g)) by (intros Heq; inversion Heq; subst; unfold nd in N; congruence).
      apply (stays_trans _ _ _ K1 (HD _ _ _ _ _ E2 Ne) N).
    - inversion H; subst. exact K1.
  Qed.

  Lemma stays_decr_children D : dstays D -> forall cs gs s s', decr_children T D cs gs s = Some s' -> stays s s'.
  Proof.
    intros HD cs gs s s'. unfold decr_children. apply stays_loop_all. intros x s1 r s2 H.
    destruct (loop_all _ cs s1) as [s3|] eqn:E1; [|discriminate]. inversion H; subst.
    revert E1. apply stays_loop_all. intros c s4 r' s5 H2. eapply stays_decr_with; eassumption.
  Qed.

  Lemma stays_free_with D : dstays D -> forall o s s', free_with T D o s = Some s' -> stays s s'.
  Proof.
    intros HD o s s'. unfold free_with. apply stays_loop_all. intros fid s1 r s2 H.
    destruct (is_enabled s1 o fid).
    - destruct (decr_children T D _ _ s1) as [s3|] eqn:E1; [|discriminate]. inversion H; subst. eapply stays_decr_children; eassumption.
    - inversion H; subst. apply stays_refl.
  Qed.

  Lemma disable_dstays n : dstays (disable T n).
  Proof.
    induction n as [|n IH]; intros o h s r s' H N; cbn [disable] in H; [discriminate|].
    destruct (negb (fs_enabled (get_fs s o h))); [inversion H; subst; apply stays_refl|].
    destruct (1 <? fs_rc (get_fs s o h))%Z; [inversion H; subst; apply stays_refl|].
    destruct (loop_all _ (f_self (feat T (cls_of s o) h)) s) as [s1|] eqn:E1; [|discriminate].
    assert (K1 : stays s s1) by (revert E1; apply stays_loop_all; intros x a r0 b H0; eapply stays_decr_with; eassumption).
    destruct (loop_all _ (fs_alt (get_fs s1 o h)) s1) as [s2|] eqn:E2; [|discriminate].
    assert (K2 : stays s1 s2) by (revert E2; apply stays_loop_all; intros x a r0 b H0; eapply stays_decr_with; eassumption).
    set (s3 := set_fs s2 o h fs_clear_alt) in *.
    assert (K3 : stays s2 s3) by (apply stays_set_fs; left; exact N).
    destruct (if is_enabled s3 o 0 then decr_children T (disable T n) (o_children (get_obj s3 o)) (f_children (feat T (cls_of s o) h)) s3 else Some s3) as [s4|] eqn:E4; [|discriminate].
    assert (K4 : stays s3 s4) by (destruct (is_enabled s3 o 0); [eapply stays_decr_children; eassumption | inversion E4; subst; apply stays_refl]).
    assert (K5 : stays s4 (set_fs s4 o h fs_turn_off)) by (apply stays_set_fs; left; exact N).
    assert (K05 : stays s (set_fs s4 o h fs_turn_off)).
    { eapply stays_trans; [exact K1|]. eapply stays_trans; [exact K2|]. eapply stays_trans; [exact K3|]. eapply stays_trans; eassumption. }
    destruct (h =? 0).
    - destruct (free_with T (disable T n) o _) as [s6|] eqn:E6; [|discriminate]. inversion H; subst.
      eapply stays_trans; [exact K05|]. eapply stays_free_with; eassumption.
    - inversion H; subst. exact K05.
  Qed.
End Release.

(* every release primitive *)
Theorem release_keeps_non_dynamic (T : tables) n p s r s' o' g :
  release_op p = true -> run_op T n p s = Some (r, s') ->
  is_dynamic (feat T (cls_of s o') g) = false -> (forall o f, p = OpDisable o f -> (o, f) <> (o', g)) ->
  is_enabled s o' g = true -> is_enabled s' o' g = true.
Proof.
  intros Hp H N Hne E. destruct p as [o f dry top err|o f|o f|o|o]; cbn [release_op] in Hp; try discriminate; cbn [run_op] in H.
  - apply (disable_dstays T o' g n o f s r s' H (Hne o f eq_refl) N). exact E.
  - apply (stays_decr_with T o' g (disable T n) (disable_dstays T o' g n) o f s r s' H N). exact E.
  - destruct (free_children_deps T n o s) as [s2|] eqn:E2; [|discriminate]. inversion H; subst.
    apply (stays_free_with T o' g (disable T n) (disable_dstays T o' g n) o s s' E2 N). exact E.
Qed.

Theorem delete_bias_keeps_non_dynamic (T : tables) n b s s' o' g :
  delete_bias T n b s = Some s' -> is_dynamic (feat T (cls_of s o') g) = false ->
  is_enabled s o' g = true -> is_enabled s' o' g = true.
Proof.
  intros H N E. unfold delete_bias in H.
  assert (R : forall s1, is_enabled (remove_all_children b s1) o' g = is_enabled s1 o' g).
  { intros s1. unfold is_enabled. rewrite remove_all_children_fs. reflexivity. }
  destruct (is_enabled s b 0).
  - destruct (free_children_deps T n b s) as [s1|] eqn:E1; [|discriminate]. inversion H; subst. rewrite R.
    apply (stays_free_with T o' g (disable T n) (disable_dstays T o' g n) b s s1 E1 N). exact E.
  - inversion H; subst. rewrite R. exact E.
Qed.

(* ------------------------------------------------------------------------------------------ enable family *)
Section Enable.
  Variable T : tables.

  (* whatever is enabled afterwards was enabled before, or is dynamic, or is the exempted (object, feature) *)
  Definition only_dyn (ex : option (nat * nat)) (s s' : state) : Prop :=
    (forall o, cls_of s' o = cls_of s o) /\
    forall o g, is_enabled s' o g = true ->
      is_enabled s o g = true \/ is_dynamic (feat T (cls_of s o) g) = true \/ ex = Some (o, g).

  Lemma only_dyn_refl ex s : only_dyn ex s s.
  Proof. split; auto. Qed.

  Lemma only_dyn_trans ex a b c : only_dyn ex a b -> only_dyn ex b c -> only_dyn ex a c.
  Proof.
    intros [C1 H1] [C2 H2]. split; [intros o; rewrite C2; apply C1|].
    intros o g E. destruct (H2 o g E) as [X|[X|X]]; auto. rewrite C1 in X. auto.
  Qed.

  Lemma only_dyn_weaken ex s s' : only_dyn None s s' -> only_dyn ex s s'.
  Proof. intros [C H]. split; [exact C|]. intros o g E. destruct (H o g E) as [X|[X|X]]; auto. discriminate. Qed.

  Lemma only_dyn_set_fs ex s o f u : (forall x, fs_enabled (u x) = fs_enabled x) -> only_dyn ex s (set_fs s o f u).
  Proof.
    intros He. split; [intros x; apply set_fs_cls|]. intros x g E. left. unfold is_enabled in *. rewrite get_fs_set_fs in E.
    destruct (_ && _); [rewrite He in E|]; exact E.
  Qed.

  Notation Q := (only_dyn None).

  Lemma Q_loop_abort (call : nat -> state -> res) :
    (forall x s r s', call x s = Some (r, s') -> Q s s') -> forall gs s r s', loop_abort call gs s = Some (r, s') -> Q s s'.
  Proof. apply (loop_abort_rel Q (only_dyn_refl None) (only_dyn_trans None)). Qed.

  Lemma Q_loop_all (call : nat -> state -> res) :
    (forall x s r s', call x s = Some (r, s') -> Q s s') -> forall gs s s', loop_all call gs s = Some s' -> Q s s'.
  Proof. apply (loop_all_rel Q (only_dyn_refl None) (only_dyn_trans None)). Qed.

  Lemma enable_only_dyn n : forall o f dry top err s r s',
    enable T n o f dry top err s = Some (r, s') -> only_dyn (if top then Some (o, f) else None) s s'.
  Proof.
    induction n as [|n IH]; intros o f dry top err s r s' H; cbn [enable] in H; [discriminate|].
    assert (Nested : forall x y d e a rr b, enable T n x y d false e a = Some (rr, b) -> Q a b) by (intros x y d e a rr b H0; apply (IH x y d false e a rr b H0)).
    set (EX := if top then Some (o, f) else None).
    destruct (negb (f <? nfeat T (cls_of s o))); [inversion H; subst; apply only_dyn_refl|].
    destruct (fs_enabled (get_fs s o f)).
    { inversion H; subst. destruct (negb (dry || top)); [apply only_dyn_set_fs; intros x; reflexivity | apply only_dyn_refl]. }
    destruct (negb (fs_avail (get_fs s o f))); [inversion H; subst; apply only_dyn_refl|].
    destruct (negb top && negb (is_dynamic (feat T (cls_of s o) f))) eqn:Eauto; [inversion H; subst; apply only_dyn_refl|].
    destruct (existsb _ _); [inversion H; subst; apply only_dyn_refl|].
    destruct (loop_abort _ (f_self (feat T (cls_of s o) f)) s) as [[b1 s1]|] eqn:E1; [|discriminate].
    assert (G1 : Q s s1) by (revert E1; apply Q_loop_abort; intros x a rr b H0; eapply Nested; exact H0).
    destruct b1; [|inversion H; subst; apply only_dyn_weaken; exact G1].
    destruct (loop_alts (enable T n) o f dry err (f_alt (feat T (cls_of s o) f)) s1) as [[b2 s2]|] eqn:E2; [|discriminate].
    assert (G2 : Q s1 s2).
    { assert (Galt : forall alts a r0 b, loop_alts (enable T n) o f dry err alts a = Some (r0, b) -> Q a b); [|exact (Galt _ _ _ _ E2)].
      induction alts as [|gs alts IHa]; intros a r0 b Hl; cbn [loop_alts] in Hl; [inversion Hl; subst; apply only_dyn_refl|].
      destruct (alt_one (enable T n) o f dry err gs a) as [[bb a1]|] eqn:Eo; [|discriminate].
      assert (Gone : Q a a1).
      { unfold alt_one in Eo. destruct (alt_probe (enable T n) o f dry err gs a) as [[pb p1]|] eqn:Ep; [|discriminate].
        assert (Gp : Q a p1).
        { clear Eo. revert a pb p1 Ep. induction gs as [|x gl IHg]; intros a pb p1 Ep; cbn [alt_probe] in Ep; [inversion Ep; subst; apply only_dyn_refl|].
          destruct (enable T n o x true false err a) as [[q a2]|] eqn:Eq; [|discriminate].
          pose proof (Nested _ _ _ _ _ _ _ Eq) as Gq. destruct q.
          - destruct (negb dry || err).
            + destruct (enable T n o x false false err a2) as [[q3 a3]|] eqn:Eq3; [|discriminate]. inversion Ep; subst.
              eapply only_dyn_trans; [exact Gq|]. eapply only_dyn_trans; [eapply Nested; exact Eq3|]. apply only_dyn_set_fs; intros y; reflexivity.
            + inversion Ep; subst. exact Gq.
          - eapply only_dyn_trans; [exact Gq|]. eapply IHg; exact Ep. }
        destruct pb; [inversion Eo; subst; exact Gp|].
        destruct (negb dry).
        - destruct (loop_all _ gs p1) as [p2|] eqn:El; [|discriminate]. inversion Eo; subst.
          eapply only_dyn_trans; [exact Gp|]. revert El. apply Q_loop_all. intros x y rr z H0. eapply Nested; exact H0.
        - inversion Eo; subst. exact Gp. }
      destruct bb.
      - eapply only_dyn_trans; [exact Gone|]. eapply IHa; exact Hl.
      - inversion Hl; subst. exact Gone. }
    assert (G02 : Q s s2) by (eapply only_dyn_trans; eassumption).
    destruct b2; [|inversion H; subst; apply only_dyn_weaken; exact G02].
    destruct (loop_abort _ (f_children (feat T (cls_of s o) f)) s2) as [[b3 s3]|] eqn:E3; [|discriminate].
    assert (G3 : Q s2 s3).
    { revert E3. apply Q_loop_abort. intros x a rr b H0. revert H0. apply Q_loop_abort. intros c y rr' z H1. eapply Nested; exact H1. }
    assert (G03 : Q s s3) by (eapply only_dyn_trans; eassumption).
    destruct b3; [|inversion H; subst; apply only_dyn_weaken; exact G03].
    destruct dry; [inversion H; subst; apply only_dyn_weaken; exact G03|].
    (* the feature itself: either a top-level request, or dynamic (otherwise the call was refused above) *)
    assert (G4 : only_dyn EX s3 (set_fs s3 o f (fs_turn_on top))).
    { split; [intros x; apply set_fs_cls|]. intros x y E. unfold is_enabled in E. rewrite get_fs_set_fs in E.
      destruct (((x =? o) && (o <? length s3)) && ((y =? f) && (f <? length (o_fs (get_obj s3 x))))) eqn:Eb; [|left; exact E].
      apply andb_true_iff in Eb. destruct Eb as [Eb1 Eb2]. apply andb_true_iff in Eb1. apply andb_true_iff in Eb2.
      destruct Eb1 as [Eb1 _]. destruct Eb2 as [Eb2 _]. apply Nat.eqb_eq in Eb1. apply Nat.eqb_eq in Eb2. subst x y.
      unfold EX. destruct top; [right; right; reflexivity|]. right; left. cbn [negb andb] in Eauto. apply negb_false_iff in Eauto.
      destruct G03 as [C03 _]. rewrite C03. exact Eauto. }
    assert (G04 : only_dyn EX s (set_fs s3 o f (fs_turn_on top))) by (eapply only_dyn_trans; [apply only_dyn_weaken; exact G03 | exact G4]).
    destruct (f =? 0).
    - destruct (restore_with T (enable T n) o _ _) as [s5|] eqn:E5; [|discriminate]. inversion H; subst.
      eapply only_dyn_trans; [exact G04|]. apply only_dyn_weaken.
      revert E5. unfold restore_with. apply Q_loop_all. intros fid a rr b H0.
      destruct (is_enabled a o fid); [|inversion H0; subst; apply only_dyn_refl].
      destruct (loop_all _ (f_children (feat T (cls_of a o) fid)) a) as [a1|] eqn:Ea; [|discriminate]. inversion H0; subst.
      revert Ea. apply Q_loop_all. intros x y rr' z H1.
      destruct (loop_all _ _ y) as [y1|] eqn:Ey; [|discriminate]. inversion H1; subst.
      revert Ey. apply Q_loop_all. intros c u rr'' w H2. eapply Nested; exact H2.
    - inversion H; subst. exact G04.
  Qed.
End Enable.

(* a non-dynamic feature that becomes enabled by an enable call is the target of a top-level call *)
Theorem enable_enables_only_dynamic (T : tables) n o f dry top err s r s' o' g :
  enable T n o f dry top err s = Some (r, s') ->
  is_enabled s o' g = false -> is_enabled s' o' g = true -> is_dynamic (feat T (cls_of s o') g) = false ->
  top = true /\ (o', g) = (o, f).
Proof.
  intros H E0 E1 N. destruct (enable_only_dyn T n o f dry top err s r s' H) as [_ X].
  destruct (X o' g E1) as [Y|[Y|Y]]; [congruence | congruence|].
  destruct top; [inversion Y; auto | discriminate].
Qed.

(* ------------------------------------------------------------------------------------------
   For every sequence of module-level operations: a non-dynamic feature of an existing object changes state only at an
   operation that is an explicit request on it. *)
From CV Require Import C13.ModuleModel C13.ModuleInv.

Section Sequences.
  Variable T : tables.
  Variables (o g : nat).

  Notation ndyn := (nd T o g).
  (* class kept, enabled flag kept *)
  Definition frozen (s s' : state) : Prop := ndyn s -> cls_of s' o = cls_of s o /\ is_enabled s' o g = is_enabled s o g.

  Lemma frozen_refl s : frozen s s.
  Proof. intros _. auto. Qed.

  Lemma frozen_trans a b c : frozen a b -> frozen b c -> frozen a c.
  Proof.
    intros H1 H2 N. destruct (H1 N) as (C1 & E1). assert (N1 : ndyn b) by (unfold nd in *; rewrite C1; exact N).
    destruct (H2 N1) as (C2 & E2). split; congruence.
  Qed.

  Lemma frozen_same_fs s s' : cls_of s' o = cls_of s o -> get_fs s' o g = get_fs s o g -> frozen s s'.
  Proof. intros C E _. split; [exact C | unfold is_enabled; rewrite E; reflexivity]. Qed.

  Definition requests (p : op) : bool :=
    match p with
    | OpEnable o1 f1 _ true _ => (o1 =? o) && (f1 =? g)
    | OpDisable o1 f1 => (o1 =? o) && (f1 =? g)
    | _ => false
    end.

  Lemma bool_eq_of_imp (a b : bool) : (a = true -> b = true) -> (b = true -> a = true) -> b = a.
  Proof.
    intros H1 H2. destruct a, b; try reflexivity.
    - apply H1. reflexivity.
    - symmetry. apply H2. reflexivity.
  Qed.

  Lemma restore_children_only_dyn n x s s' : restore_children_deps T n x s = Some s' -> only_dyn T None s s'.
  Proof.
    unfold restore_children_deps, restore_with. apply Q_loop_all. intros fid a rr b H0.
    destruct (is_enabled a x fid); [|inversion H0; subst; apply only_dyn_refl].
    destruct (loop_all _ (f_children (feat T (cls_of a x) fid)) a) as [a1|] eqn:Ea; [|discriminate]. inversion H0; subst.
    revert Ea. apply Q_loop_all. intros y z rr' w H1.
    destruct (loop_all _ _ z) as [z1|] eqn:Ez; [|discriminate]. inversion H1; subst.
    revert Ez. apply Q_loop_all. intros c u rr'' v H2. apply (enable_only_dyn T n c y false false false u rr'' v H2).
  Qed.

  Lemma run_op_frozen n p s r s' : run_op T n p s = Some (r, s') -> requests p = false -> frozen s s'.
  Proof.
    intros H Hr N. destruct (run_op_shape T n p s r s' H) as [_ Sh]. destruct (Sh o) as (Cl & _).
    split; [exact Cl|]. apply bool_eq_of_imp.
    - (* stays enabled *)
      intros E. destruct (release_op p) eqn:Rp.
      + refine (release_keeps_non_dynamic T n p s r s' o g Rp H N _ E).
        intros o1 f1 -> Heq. inversion Heq; subst. cbn [requests] in Hr. rewrite !Nat.eqb_refl in Hr. discriminate.
      + apply (enable_family_never_disables T n p s r s' Rp H o g E).
    - (* stays disabled *)
      intros E. destruct (release_op p) eqn:Rp; [apply (release_never_enables T n p s r s' Rp H o g E)|].
      destruct (is_enabled s o g) eqn:E0; [reflexivity|]. exfalso.
      destruct p as [o1 f1 dry top err|o1 f1|o1 f1|o1|o1]; cbn [release_op] in Rp; try discriminate; cbn [run_op] in H.
      * destruct (enable_enables_only_dynamic T n o1 f1 dry top err s r s' o g H E0 E N) as (Ht & Heq). inversion Heq; subst.
        cbn [requests] in Hr. rewrite !Nat.eqb_refl in Hr. discriminate.
      * destruct (restore_children_deps T n o1 s) as [s2|] eqn:E2; [|discriminate]. inversion H; subst.
        destruct (restore_children_only_dyn n o1 s s' E2) as [_ X]. destruct (X o g E) as [Y|[Y|Y]]; [congruence | unfold nd in N; congruence | discriminate].
  Qed.

  Lemma rac_frozen b s : frozen s (remove_all_children b s).
  Proof.
    apply frozen_same_fs; [unfold cls_of; rewrite remove_all_children_obj; reflexivity | apply remove_all_children_fs].
  Qed.

  Lemma fold_rac_frozen cs : forall s, frozen s (fold_rac cs s).
  Proof.
    induction cs as [|c cs IH]; intros s; cbn [fold_rac fold_left]; [apply frozen_refl|].
    eapply frozen_trans; [apply rac_frozen | apply IH].
  Qed.

  Lemma delete_bias_frozen n b s s' : delete_bias T n b s = Some s' -> frozen s s'.
  Proof.
    intros H. unfold delete_bias in H. destruct (is_enabled s b 0).
    - destruct (free_children_deps T n b s) as [s1|] eqn:E1; [|discriminate]. inversion H; subst.
      eapply frozen_trans; [|apply rac_frozen].
      apply (run_op_frozen n (OpFree b) s true s1); [cbn [run_op]; rewrite E1; reflexivity | reflexivity].
    - inversion H; subst. apply rac_frozen.
  Qed.

  Definition mfrozen (m m' : mstate) : Prop := frozen (m_objs m) (m_objs m').

  Lemma m_delete_bias_frozen n b m m' : m_delete_bias T n b m = Some m' -> mfrozen m m'.
  Proof.
    unfold m_delete_bias, mfrozen. intros H. destruct (alive m b && (class_of m b =? 0)); [|inversion H; subst; apply frozen_refl].
    destruct (delete_bias T n b (m_objs m)) as [s'|] eqn:E; [|discriminate]. inversion H; subst. cbn [m_objs].
    eapply delete_bias_frozen; exact E.
  Qed.

  Lemma delete_biases_frozen n bs : forall m m', delete_biases T n bs m = Some m' -> mfrozen m m'.
  Proof.
    induction bs as [|b bs IH]; intros m m' H; cbn [delete_biases] in H; [inversion H; subst; apply frozen_refl|].
    destruct (m_delete_bias T n b m) as [m1|] eqn:E; [|discriminate].
    eapply frozen_trans; [eapply m_delete_bias_frozen; exact E | eapply IH; exact H].
  Qed.

  Lemma m_delete_colvar_frozen n v m m' : m_delete_colvar T n v m = Some m' -> mfrozen m m'.
  Proof.
    unfold m_delete_colvar, mfrozen. intros H. destruct (alive m v && (class_of m v =? 1)); [|inversion H; subst; apply frozen_refl].
    cbv zeta in H.
    set (s2 := fold_left (fun st c => remove_all_children c st) (rev (o_children (get_obj (m_objs m) v))) (remove_all_children v (m_objs m))) in *.
    set (m3 := fold_left _ _ (mkM s2 (m_info m) (m_atoms m))) in *.
    destruct (delete_biases T n _ m3) as [m4|] eqn:E4; [|discriminate]. inversion H; subst. cbn [m_objs].
    assert (O3 : m_objs m3 = s2) by (unfold m3; apply fold_kill_cvc_objs).
    eapply frozen_trans; [|eapply delete_biases_frozen; exact E4]. rewrite O3.
    eapply frozen_trans; [apply rac_frozen | apply (fold_rac_frozen _ (remove_all_children v (m_objs m)))].
  Qed.

  Lemma delete_colvars_frozen n vs : forall m m', delete_colvars T n vs m = Some m' -> mfrozen m m'.
  Proof.
    induction vs as [|v vs IH]; intros m m' H; cbn [delete_colvars] in H; [inversion H; subst; apply frozen_refl|].
    destruct (m_delete_colvar T n v m) as [m1|] eqn:E; [|discriminate].
    eapply frozen_trans; [eapply m_delete_colvar_frozen; exact E | eapply IH; exact H].
  Qed.

  (* definitions: existing objects are only linked; what add_child enables in them is requested with toplevel = false *)
  Lemma push_frozen cls avail atoms m : o < length (m_objs m) -> mfrozen m (push_obj cls avail atoms m).
  Proof.
    intros L. unfold mfrozen, push_obj. cbn [m_objs]. apply frozen_same_fs.
    - unfold cls_of. rewrite get_obj_app_l by exact L. reflexivity.
    - unfold get_fs. rewrite get_obj_app_l by exact L. reflexivity.
  Qed.

  Lemma link_frozen n p c m m' : link T n p c m = Some m' -> mfrozen m m'.
  Proof.
    unfold link, mfrozen. intros H. destruct (add_child T n p c (m_objs m)) as [s'|] eqn:E; [|discriminate]. inversion H; subst. cbn [m_objs].
    unfold add_child in E.
    set (s2 := upd_obj (upd_obj (m_objs m) p _) c _) in *.
    assert (F2 : frozen (m_objs m) s2).
    { apply frozen_same_fs.
      - unfold s2, cls_of. rewrite !get_obj_upd_obj. destruct (_ && _); destruct (_ && _); reflexivity.
      - unfold s2. rewrite !get_fs_upd_obj_links by (intros ob; reflexivity). reflexivity. }
    eapply frozen_trans; [exact F2|]. intros N.
    assert (Sh : same_shape s2 s').
    { eapply (restore_with_rel T same_shape same_shape_refl same_shape_trans (enable T n)); [|exact E].
      intros x f d t e a r b H0. eapply (enable_rel T same_shape same_shape_refl same_shape_trans); try exact H0; intros; apply set_fs_shape; intros y; reflexivity. }
    destruct Sh as [_ Sh]. destruct (Sh o) as (Cl & _). split; [exact Cl|].
    assert (Q2 : only_dyn T None s2 s').
    { revert E. unfold restore_with. apply Q_loop_all. intros fid a rr b H0.
      destruct (is_enabled a p fid); [|inversion H0; subst; apply only_dyn_refl].
      destruct (loop_all _ (f_children (feat T (cls_of a p) fid)) a) as [a1|] eqn:Ea; [|discriminate]. inversion H0; subst.
      revert Ea. apply Q_loop_all. intros y z rr' w H1.
      destruct (loop_all _ [c] z) as [z1|] eqn:Ez; [|discriminate]. inversion H1; subst.
      revert Ez. apply Q_loop_all. intros c0 u rr'' v H2. apply (enable_only_dyn T n c0 y false false false u rr'' v H2). }
    assert (ND : never_disables s2 s').
    { eapply (restore_with_rel T never_disables); [| | |exact E].
      - intros ? ? ? X; exact X.
      - intros a b c0 H1 H2 x y X; apply H2; apply H1; exact X.
      - intros x f d t e a r b H0. eapply (enable_rel T never_disables); try exact H0.
        + intros ? ? ? X; exact X.
        + intros a0 b0 c0 H1 H2 x0 y0 X; apply H2; apply H1; exact X.
        + intros; apply set_fs_never_disables; intros z X; exact X.
        + intros; apply set_fs_never_disables; intros z X; exact X.
        + intros; apply set_fs_never_disables; intros z X; reflexivity. }
    apply bool_eq_of_imp; [apply ND|]. intros E1. destruct Q2 as [_ X]. destruct (X o g E1) as [Y|[Y|Y]]; [exact Y | unfold nd in N; congruence | discriminate].
  Qed.

  (* ---- the number of objects never goes down *)
  Lemma delete_bias_len n b s s' : delete_bias T n b s = Some s' -> length s' = length s.
  Proof.
    unfold delete_bias. intros H. destruct (is_enabled s b 0).
    - destruct (free_children_deps T n b s) as [s1|] eqn:E; [|discriminate]. inversion H; subst.
      rewrite remove_all_children_length. destruct (free_children_deps_shape T n b s s1 E) as [L _]. exact L.
    - inversion H; subst. apply remove_all_children_length.
  Qed.

  Lemma m_delete_bias_len n b m m' : m_delete_bias T n b m = Some m' -> length (m_objs m') = length (m_objs m).
  Proof.
    unfold m_delete_bias. intros H. destruct (alive m b && (class_of m b =? 0)); [|inversion H; subst; reflexivity].
    destruct (delete_bias T n b (m_objs m)) as [s'|] eqn:E; [|discriminate]. inversion H; subst. cbn [m_objs]. eapply delete_bias_len; exact E.
  Qed.

  Lemma delete_biases_len n bs : forall m m', delete_biases T n bs m = Some m' -> length (m_objs m') = length (m_objs m).
  Proof.
    induction bs as [|b bs IH]; intros m m' H; cbn [delete_biases] in H; [inversion H; subst; reflexivity|].
    destruct (m_delete_bias T n b m) as [m1|] eqn:E; [|discriminate]. rewrite (IH m1 m' H). eapply m_delete_bias_len; exact E.
  Qed.

  Lemma fold_rac_len cs : forall s, length (fold_rac cs s) = length s.
  Proof. induction cs as [|c cs IH]; intros s; cbn [fold_rac fold_left]; [reflexivity|]. change (length (fold_rac cs (remove_all_children c s)) = length s). rewrite IH. apply remove_all_children_length. Qed.

  Lemma m_delete_colvar_len n v m m' : m_delete_colvar T n v m = Some m' -> length (m_objs m') = length (m_objs m).
  Proof.
    unfold m_delete_colvar. intros H. destruct (alive m v && (class_of m v =? 1)); [|inversion H; subst; reflexivity].
    cbv zeta in H.
    set (s2 := fold_left (fun st c => remove_all_children c st) (rev (o_children (get_obj (m_objs m) v))) (remove_all_children v (m_objs m))) in *.
    set (m3 := fold_left _ _ (mkM s2 (m_info m) (m_atoms m))) in *.
    destruct (delete_biases T n _ m3) as [m4|] eqn:E4; [|discriminate]. inversion H; subst. cbn [m_objs].
    rewrite (delete_biases_len n _ m3 m4 E4). unfold m3. rewrite fold_kill_cvc_objs. cbn [m_objs]. unfold s2.
    change (length (fold_rac (rev (o_children (get_obj (m_objs m) v))) (remove_all_children v (m_objs m))) = length (m_objs m)).
    rewrite fold_rac_len. apply remove_all_children_length.
  Qed.

  Lemma delete_colvars_len n vs : forall m m', delete_colvars T n vs m = Some m' -> length (m_objs m') = length (m_objs m).
  Proof.
    induction vs as [|v vs IH]; intros m m' H; cbn [delete_colvars] in H; [inversion H; subst; reflexivity|].
    destruct (m_delete_colvar T n v m) as [m1|] eqn:E; [|discriminate]. rewrite (IH m1 m' H). eapply m_delete_colvar_len; exact E.
  Qed.

  Lemma link_len' n p c m m' : link T n p c m = Some m' -> length (m_objs m') = length (m_objs m).
  Proof.
    unfold link. intros H. destruct (add_child T n p c (m_objs m)) as [s'|] eqn:E; [|discriminate]. inversion H; subst. cbn [m_objs].
    destruct (add_child_shape T n p c _ _ E) as [L _]. rewrite !length_upd_obj in L. exact L.
  Qed.

  Lemma push_len' cls avail atoms m : length (m_objs (push_obj cls avail atoms m)) = S (length (m_objs m)).
  Proof. unfold push_obj. cbn [m_objs]. rewrite app_length. cbn. lia. Qed.

  (* ---- definitions *)
  Lemma add_groups_frozen n c gs : forall m m', o < length (m_objs m) -> add_groups T n c gs m = Some m' ->
    mfrozen m m' /\ length (m_objs m) <= length (m_objs m').
  Proof.
    induction gs as [|[av atoms] gs IH]; intros m m' L H; cbn [add_groups] in H; [inversion H; subst; split; [apply frozen_refl | lia]|].
    destruct (link T n c (length (m_objs m)) (push_obj 3 av atoms m)) as [m1|] eqn:E; [|discriminate].
    pose proof (push_len' 3 av atoms m) as L0. pose proof (link_len' _ _ _ _ _ E) as L1.
    destruct (IH m1 m' ltac:(lia) H) as (F & L2). split; [|lia].
    eapply frozen_trans; [apply push_frozen; exact L|]. eapply frozen_trans; [eapply link_frozen; exact E | exact F].
  Qed.

  Lemma add_cvcs_frozen n v cs : forall m m', o < length (m_objs m) -> add_cvcs T n v cs m = Some m' ->
    mfrozen m m' /\ length (m_objs m) <= length (m_objs m').
  Proof.
    induction cs as [|[av gs] cs IH]; intros m m' L H; cbn [add_cvcs] in H; [inversion H; subst; split; [apply frozen_refl | lia]|].
    destruct (add_groups T n (length (m_objs m)) gs (push_obj 2 av [] m)) as [m1|] eqn:E1; [|discriminate].
    destruct (link T n v (length (m_objs m)) m1) as [m2|] eqn:E2; [|discriminate].
    pose proof (push_len' 2 av [] m) as L0.
    destruct (add_groups_frozen n (length (m_objs m)) gs (push_obj 2 av [] m) m1 ltac:(lia) E1) as (F1 & L1). pose proof (link_len' _ _ _ _ _ E2) as L2.
    destruct (IH m2 m' ltac:(lia) H) as (F3 & L3). split; [|lia].
    eapply frozen_trans; [apply push_frozen; exact L|]. eapply frozen_trans; [exact F1|]. eapply frozen_trans; [eapply link_frozen; exact E2 | exact F3].
  Qed.

  Lemma add_colvars_frozen n b vs : forall m m', add_colvars T n b vs m = Some m' ->
    mfrozen m m' /\ length (m_objs m') = length (m_objs m).
  Proof.
    induction vs as [|v vs IH]; intros m m' H; cbn [add_colvars] in H; [inversion H; subst; split; [apply frozen_refl | reflexivity]|].
    destruct (alive m v && (class_of m v =? 1)); [|apply IH; exact H].
    destruct (link T n b v m) as [m1|] eqn:E; [|discriminate].
    destruct (IH m1 m' H) as (F & L). split; [eapply frozen_trans; [eapply link_frozen; exact E | exact F] | rewrite L; eapply link_len'; exact E].
  Qed.

  Definition mrequests (p : mop) : bool := match p with MPrim q => requests q | _ => false end.

  Lemma m_step_frozen n p m m' : o < length (m_objs m) -> mrequests p = false -> m_step T n p m = Some m' ->
    mfrozen m m' /\ length (m_objs m) <= length (m_objs m').
  Proof.
    intros L Hr H. destruct p as [av cs|av vs|q|b|v|]; cbn [m_step] in H.
    - unfold new_colvar in H. pose proof (push_len' 1 av [] m) as L0.
      destruct (add_cvcs_frozen n (length (m_objs m)) cs (push_obj 1 av [] m) m' ltac:(lia) H) as (F & L1). split; [|lia].
      eapply frozen_trans; [apply push_frozen; exact L | exact F].
    - unfold new_bias in H. pose proof (push_len' 0 av [] m) as L0.
      destruct (add_colvars_frozen n _ vs _ m' H) as (F & L1). split; [|lia].
      eapply frozen_trans; [apply push_frozen; exact L | exact F].
    - unfold m_prim in H. destruct (alive m (op_target q)); [|inversion H; subst; split; [apply frozen_refl | lia]].
      destruct (run_op T n q (m_objs m)) as [[r s]|] eqn:E; [|discriminate]. inversion H; subst. cbn [m_objs]. split.
      + eapply run_op_frozen; [exact E | exact Hr].
      + destruct (run_op_shape T n q _ _ _ E) as [Ls _]. lia.
    - split; [eapply m_delete_bias_frozen; exact H | rewrite (m_delete_bias_len n b m m' H); lia].
    - split; [eapply m_delete_colvar_frozen; exact H | rewrite (m_delete_colvar_len n v m m' H); lia].
    - unfold m_reset in H. destruct (delete_biases T n _ m) as [m1|] eqn:E1; [|discriminate]. split.
      + eapply frozen_trans; [eapply delete_biases_frozen; exact E1 | eapply delete_colvars_frozen; exact H].
      + rewrite (delete_colvars_len n _ m1 m' H), (delete_biases_len n _ m m1 E1). lia.
  Qed.

  Theorem non_dynamic_changes_only_on_request n ps : forall m m',
    o < length (m_objs m) -> is_dynamic (feat T (cls_of (m_objs m) o) g) = false ->
    forallb (fun p => negb (mrequests p)) ps = true -> m_run T n ps m = Some m' ->
    is_enabled (m_objs m') o g = is_enabled (m_objs m) o g.
  Proof.
    induction ps as [|p ps IH]; intros m m' L N Hp H; cbn [m_run] in H; [inversion H; subst; reflexivity|].
    cbn [forallb] in Hp. apply andb_true_iff in Hp. destruct Hp as [Hp1 Hp2]. apply negb_true_iff in Hp1.
    destruct (m_step T n p m) as [m1|] eqn:E; [|discriminate].
    destruct (m_step_frozen n p m m1 L Hp1 E) as (F & L1). destruct (F N) as (C1 & E1).
    rewrite <- E1. apply IH; [lia | rewrite C1; exact N | exact Hp2 | exact H].
  Qed.
End Sequences.

(* ------------------------------------------------------------------------------------------
   Uncounted top-level requests made by a holder on another object (colvarbias_abf::init: variables->enable(hide_Jacobian),
   enable(grid); histogram / metadynamics: enable(grid); colvar::parse_analysis: cv2->enable(fdiff_velocity)) are plain
   `MPrim (OpEnable v g false true false)` operations of the lifecycle model: nothing records that the holder needs them.
   Consequence, for EVERY sequence of deletions (biases, variables with their biases, reset): a feature that is not dynamic
   keeps its state in every object that existed -- whoever asked for it, however many holders there were. *)
Theorem deletions_keep_uncounted_requests (T : tables) n (ps : list mop) m m' o g :
  forallb deletion_op ps = true -> m_run T n ps m = Some m' ->
  (o < length (m_objs m))%nat -> is_dynamic (feat T (cls_of (m_objs m) o) g) = false ->
  is_enabled (m_objs m') o g = is_enabled (m_objs m) o g.
Proof.
  intros Hd H L N. apply (non_dynamic_changes_only_on_request T o g n ps m m' L N); [|exact H].
  clear H. induction ps as [|p ps IH]; [reflexivity|]. cbn [forallb] in *. apply andb_true_iff in Hd. destruct Hd as [H1 H2].
  rewrite (IH H2), andb_true_r. destruct p; cbn in *; try reflexivity; discriminate.
Qed.

(* ---- F9: the ONLY holder of an uncounted request is deleted (real tables) ----
   variable 0 (component 1, atom group 2), bias 3 on it; the bias requests hide_Jacobian_force (12, user) of the variable by a
   top-level enable; the bias is deleted: the feature stays on, whereas in the history without the bias it is off *)
From CV Require Import Gen.GenDeps.
Import ListNotations.
Definition f9_avail (k : nat) : list bool := repeat true k.
Definition f9_base : list mop :=
  [MNewColvar (f9_avail 38) [(f9_avail 18, [(f9_avail 11, [1])])];
   MPrim (OpEnable 0 34 false true false); MPrim (OpEnable 0 35 false true false); MPrim (OpEnable 0 0 false true false)].
Definition f9_holder : list mop :=
  [MNewBias (f9_avail 17) [0]; MPrim (OpEnable 3 0 false true false); MPrim (OpEnable 0 12 false true false)].

Lemma only_holder_witness : exists m0 m m',
  m_run gen_tables 40 f9_base (m_empty 3) = Some m0 /\ is_enabled (m_objs m0) 0 12 = false /\
  m_run gen_tables 40 f9_holder m0 = Some m /\ is_enabled (m_objs m) 0 12 = true /\ rc (m_objs m) 0 12 = 0%Z /\
  m_run gen_tables 40 [MDeleteBias 3] m = Some m' /\ alive_in (m_info m') 3 = false /\
  is_enabled (m_objs m') 0 12 = true /\ is_enabled (m_objs m') 0 11 = true.
Proof.
  do 3 eexists. split; [vm_compute; reflexivity|]. repeat (split; [vm_compute; reflexivity|]). vm_compute. reflexivity.
Qed.
