(* C13: executable model of the run-time definition and deletion of objects on top of DepsModel.v:
   the dependency links made when a variable / a bias is defined (colvardeps::add_child), the destructor sequences
   colvar::~colvar (src/colvar.cpp), colvar::cvc::~cvc (src/colvarcomp.cpp), cvm::atom_group::~atom_group and
   cvm::atom::~atom (src/colvaratoms.cpp), colvarbias::~colvarbias / clear (src/colvarbias.cpp),
   colvarmodule::reset (src/colvarmodule.cpp) and the engine-side atom reference counts
   (colvarproxy_atoms::add_atom_slot / increase_refcount / clear_atom, src/colvarproxy.cpp).
   Objects are numbered in order of creation and are never renumbered: a destroyed object stays in place, marked
   dead (the C++ frees it; a reference to a dead number is a dangling pointer).
   Not modelled: which features the init functions of the four classes request (any sequence of primitive calls
   may follow a definition), values, forces. *)
From Coq Require Import ZArith List Bool Arith Lia.
From CV Require Import C13.DepsModel C13.InvModel.
Import ListNotations.
Open Scope nat_scope.

Record oinfo := mkInfo {
  i_alive : bool;
  i_atoms : list nat            (* atom slots held by an atom group (its own atoms and those of its fitting group) *)
}.

Record mstate := mkM {
  m_objs : state;
  m_info : list oinfo;
  m_atoms : list Z              (* colvarproxy_atoms::atoms_refcount, by atom slot *)
}.

Definition info_default := mkInfo false [].
Definition get_info (m : mstate) (o : nat) : oinfo := nth o (m_info m) info_default.
Definition alive (m : mstate) (o : nat) : bool := i_alive (get_info m o).
Definition class_of (m : mstate) (o : nat) : nat := o_class (get_obj (m_objs m) o).

Definition kill (info : list oinfo) (o : nat) : list oinfo :=
  upd_nth info o (fun i => mkInfo false []).

(* cvm::atom::atom(atom const &) / init_atom on a slot already requested: one more reference *)
Definition acquire (atoms : list Z) (a : nat) : list Z := upd_nth atoms a (fun r => (r + 1)%Z).
(* cvm::atom::~atom -> colvarproxy_atoms::clear_atom: "if (atoms_refcount[index] > 0) atoms_refcount[index] -= 1" *)
Definition release (atoms : list Z) (a : nat) : list Z :=
  upd_nth atoms a (fun r => if (0 <? r)%Z then (r - 1)%Z else r).

Definition new_fs (avail : list bool) : list fstate := map (fun a => mkFstate a false 0%Z []) avail.

Section Module.
  Variable T : tables.

  (* a fresh object, no links, every feature off *)
  Definition push_obj (cls : nat) (avail : list bool) (atoms : list nat) (m : mstate) : mstate :=
    mkM (m_objs m ++ [mkObj cls (new_fs avail) [] []])
        (m_info m ++ [mkInfo true atoms])
        (fold_left acquire atoms (m_atoms m)).

  Definition link (n : nat) (p c : nat) (m : mstate) : option mstate :=
    match add_child T n p c (m_objs m) with
    | None => None
    | Some s => Some (mkM s (m_info m) (m_atoms m))
    end.

  (* definition of a variable: the variable object, then for each component the component object, its atom groups
     (cvc::register_atom_group -> add_child), and colvar::init_components -> add_child(cvc).
     shape: per component (availability of its features, per atom group (availability, atoms held)) *)
  Definition gshape := (list bool * list nat)%type.
  Definition cshape := (list bool * list gshape)%type.

  Fixpoint add_groups (n : nat) (c : nat) (gs : list gshape) (m : mstate) : option mstate :=
    match gs with
    | [] => Some m
    | (av, atoms) :: r =>
      let g := length (m_objs m) in
      match link n c g (push_obj 3 av atoms m) with
      | None => None
      | Some m1 => add_groups n c r m1
      end
    end.

  Fixpoint add_cvcs (n : nat) (v : nat) (cs : list cshape) (m : mstate) : option mstate :=
    match cs with
    | [] => Some m
    | (av, gs) :: r =>
      let c := length (m_objs m) in
      match add_groups n c gs (push_obj 2 av [] m) with
      | None => None
      | Some m1 =>
        match link n v c m1 with
        | None => None
        | Some m2 => add_cvcs n v r m2
        end
      end
    end.

  Definition new_colvar (n : nat) (avail : list bool) (cs : list cshape) (m : mstate) : option mstate :=
    let v := length (m_objs m) in
    add_cvcs n v cs (push_obj 1 avail [] m).

  (* definition of a bias on the given variables (colvarbias::add_colvar -> add_child); variables that are not
     live variables are skipped ("colvar not defined") *)
  Fixpoint add_colvars (n : nat) (b : nat) (vs : list nat) (m : mstate) : option mstate :=
    match vs with
    | [] => Some m
    | v :: r =>
      if alive m v && (class_of m v =? 1) then
        match link n b v m with
        | None => None
        | Some m1 => add_colvars n b r m1
        end
      else add_colvars n b r m
    end.

  Definition new_bias (n : nat) (avail : list bool) (vs : list nat) (m : mstate) : option mstate :=
    let b := length (m_objs m) in
    add_colvars n b vs (push_obj 0 avail [] m).

  (* ~colvarbias: clear() releases what the active bias required of its variables; ~colvardeps unlinks *)
  Definition m_delete_bias (n : nat) (b : nat) (m : mstate) : option mstate :=
    if alive m b && (class_of m b =? 0) then
      match delete_bias T n b (m_objs m) with
      | None => None
      | Some s => Some (mkM s (kill (m_info m) b) (m_atoms m))
      end
    else Some m.

  (* ~atom_group: its atoms (and those of the fitting group) are destroyed: one clear_atom each *)
  Definition kill_group (g : nat) (m : mstate) : mstate :=
    mkM (m_objs m) (kill (m_info m) g) (fold_left release (i_atoms (get_info m g)) (m_atoms m)).

  (* ~cvc (after colvar::~colvar has already unlinked its atom groups): free_children_deps and
     remove_all_children find no children; the atom groups it owns are deleted *)
  Definition kill_cvc (c : nat) (gs : list nat) (m : mstate) : mstate :=
    let m1 := fold_left (fun mm g => kill_group g mm) gs m in
    mkM (m_objs m1) (kill (m_info m1) c) (m_atoms m1).

  Fixpoint delete_biases (n : nat) (bs : list nat) (m : mstate) : option mstate :=
    match bs with
    | [] => Some m
    | b :: r =>
      match m_delete_bias n b m with
      | None => None
      | Some m1 => delete_biases n r m1
      end
    end.

  (* colvar::~colvar, in its order: remove_all_children(); for the components, last first, remove_all_children();
     cvcs.clear() (components and their atom groups destroyed, atoms released); the biases that use the variable are
     deleted, last first (each runs clear() while still linked to this and to its other variables);
     ~colvardeps of the variable finds no parents and no children *)
  Definition m_delete_colvar (n : nat) (v : nat) (m : mstate) : option mstate :=
    if alive m v && (class_of m v =? 1) then
      let s := m_objs m in
      let cvcs := o_children (get_obj s v) in
      let groups := map (fun c => (c, o_children (get_obj s c))) cvcs in
      let s1 := remove_all_children v s in
      let s2 := fold_left (fun st c => remove_all_children c st) (rev cvcs) s1 in
      let m2 := mkM s2 (m_info m) (m_atoms m) in
      let m3 := fold_left (fun mm cg => kill_cvc (fst cg) (snd cg) mm) groups m2 in
      match delete_biases n (rev (o_parents (get_obj s v))) m3 with
      | None => None
      | Some m4 => Some (mkM (m_objs m4) (kill (m_info m4) v) (m_atoms m4))
      end
    else Some m.

  (* colvarmodule::reset: biases, last first; then variables, last first (objects are numbered in module order) *)
  Definition live_of_class (m : mstate) (cls : nat) : list nat :=
    filter (fun o => alive m o && (class_of m o =? cls)) (seq 0 (length (m_objs m))).

  Fixpoint delete_colvars (n : nat) (vs : list nat) (m : mstate) : option mstate :=
    match vs with
    | [] => Some m
    | v :: r =>
      match m_delete_colvar n v m with
      | None => None
      | Some m1 => delete_colvars n r m1
      end
    end.

  Definition m_reset (n : nat) (m : mstate) : option mstate :=
    match delete_biases n (rev (live_of_class m 0)) m with
    | None => None
    | Some m1 => delete_colvars n (rev (live_of_class m1 1)) m1
    end.

  (* a primitive of colvardeps called on a live object (the script command `cv colvar|bias <name> set <feature> on|off`
     is OpEnable o f false true false / OpDisable o f) *)
  Definition op_target (p : op) : nat :=
    match p with
    | OpEnable o _ _ _ _ | OpDisable o _ | OpDecr o _ | OpFree o | OpRestore o => o
    end.

  Definition m_prim (n : nat) (p : op) (m : mstate) : option mstate :=
    if alive m (op_target p) then
      match run_op T n p (m_objs m) with
      | None => None
      | Some (_, s) => Some (mkM s (m_info m) (m_atoms m))
      end
    else Some m.

  Inductive mop :=
  | MNewColvar (avail : list bool) (cs : list cshape)
  | MNewBias (avail : list bool) (vs : list nat)
  | MPrim (p : op)
  | MDeleteBias (b : nat)
  | MDeleteColvar (v : nat)
  | MReset.

  Definition m_step (n : nat) (p : mop) (m : mstate) : option mstate :=
    match p with
    | MNewColvar av cs => new_colvar n av cs m
    | MNewBias av vs => new_bias n av vs m
    | MPrim q => m_prim n q m
    | MDeleteBias b => m_delete_bias n b m
    | MDeleteColvar v => m_delete_colvar n v m
    | MReset => m_reset n m
    end.

  Fixpoint m_run (n : nat) (ps : list mop) (m : mstate) : option mstate :=
    match ps with
    | [] => Some m
    | p :: r =>
      match m_step n p m with
      | None => None
      | Some m1 => m_run n r m1
      end
    end.

  Definition m_empty (natoms : nat) : mstate := mkM [] [] (repeat 0%Z natoms).

End Module.

(* ---- finite checkers of the structural invariants (sound: ModuleProofs.wf_check_sound / acct_check_sound);
        extracted and run on every state dumped from the implementation *)
Definition nil_nat (l : list nat) : bool := match l with [] => true | _ => false end.

Definition wf_check (m : mstate) : bool :=
  let s := m_objs m in let info := m_info m in let n := length s in
  (length info =? n) &&
  forallb (fun p =>
    let ob := get_obj s p in let i := nth p info info_default in
    forallb (fun c => c <? n) (o_children ob) && forallb (fun c => c <? n) (o_parents ob) &&
    forallb (fun c => cnt c (o_children ob) =? cnt p (o_parents (get_obj s c))) (seq 0 n) &&
    forallb (fun c => cnt p (o_children (get_obj s c)) =? cnt c (o_parents ob)) (seq 0 n) &&
    forallb (fun c => o_class (get_obj s c) =? S (o_class ob)) (o_children ob) &&
    ((o_class ob <? 3) || nil_nat (o_children ob)) &&
    (i_alive i || (nil_nat (o_children ob) && nil_nat (o_parents ob) && nil_nat (i_atoms i))) &&
    ((o_class ob <? 2) || (length (o_parents ob) <=? 1)) &&
    ((o_class ob =? 3) || nil_nat (i_atoms i)))
  (seq 0 n).

Fixpoint held_atoms (a : nat) (info : list oinfo) : Z :=
  match info with
  | [] => 0%Z
  | i :: l => (Z.of_nat (cnt a (i_atoms i)) + held_atoms a l)%Z
  end.

Definition acct_check (m : mstate) : bool :=
  forallb (fun a => (nth a (m_atoms m) 0%Z =? held_atoms a (m_info m))%Z) (seq 0 (length (m_atoms m))).

(* ---- multiple time steps: the dependency part of colvarmodule::calc_colvars.  For every bias, then every variable, with
        timeStepFactor tsf > 1 (feature 1 is `awake` in both classes, static, requires_self `active`):
          step % tsf == 0 :  enable(awake)
          otherwise       :  if active and not awake: enable(awake)  (so that the disable below releases a reference);
                             disable(awake)        -- drops the reference on `active`: the object falls asleep when that was the last *)
Section Sched.
  Variable T : tables.

  Definition after_op (n : nat) (p : op) (s : state) : option state :=
    match run_op T n p s with None => None | Some (_, s') => Some s' end.

  Definition sched_one (n : nat) (step : nat) (ot : nat * nat) (s : state) : option state :=
    let '(o, tsf) := ot in
    if 1 <? tsf then
      if step mod tsf =? 0 then after_op n (OpEnable o 1 false true false) s
      else
        match (if is_enabled s o 0 && negb (is_enabled s o 1) then after_op n (OpEnable o 1 false true false) s else Some s) with
        | None => None
        | Some s1 => after_op n (OpDisable o 1) s1
        end
    else Some s.

  Fixpoint sched (n : nat) (step : nat) (ots : list (nat * nat)) (s : state) : option state :=
    match ots with
    | [] => Some s
    | ot :: r => match sched_one n step ot s with None => None | Some s1 => sched n step r s1 end
    end.

  Definition m_sched (n : nat) (step : nat) (ots : list (nat * nat)) (m : mstate) : option mstate :=
    match sched n step ots (m_objs m) with None => None | Some s => Some (mkM s (m_info m) (m_atoms m)) end.
End Sched.
