(* C13: references between objects by NAME (colvar::calc_acf: corrFuncWithColvar; the only place where the library looks another
   object up at run time) are resolved AT USE TIME: cvm::colvar_by_name(name) at every step.  The holder stores the name, not
   the object, and the partner keeps no back-reference; deleting the partner is safe precisely because of this rule: the next
   use finds nothing (documented error "... is not defined at this time"), and after a re-definition under the same name it
   finds the NEW object.  Objects are numbered in order of creation (an identity that is never reused, like an address that is
   never recycled). *)
From Coq Require Import List Bool Arith Lia.
Import ListNotations.

Record rstate := mkR { r_next : nat; r_live : list (nat * nat) }.    (* (name, object) of the live variables *)

Inductive rop :=
| RDefine (name : nat)        (* rejected when a live variable has the name (colvar::init: "... already defined") *)
| RDelete (name : nat)
| RReset.

Fixpoint resolve_in (l : list (nat * nat)) (name : nat) : option nat :=
  match l with
  | [] => None
  | (n, o) :: r => if n =? name then Some o else resolve_in r name
  end.

Definition resolve (s : rstate) (name : nat) : option nat := resolve_in (r_live s) name.

Definition r_step (p : rop) (s : rstate) : rstate :=
  match p with
  | RDefine name =>
    match resolve s name with
    | Some _ => mkR (S (r_next s)) (r_live s)                      (* the object is created, rejected and destroyed *)
    | None => mkR (S (r_next s)) (r_live s ++ [(name, r_next s)])
    end
  | RDelete name => mkR (r_next s) (filter (fun a => negb (fst a =? name)) (r_live s))
  | RReset => mkR (r_next s) []
  end.

Definition r_run (ps : list rop) (s : rstate) : rstate := fold_left (fun st p => r_step p st) ps s.
Definition r_empty : rstate := mkR 0 [].

(* ---- invariant: live objects were created before "now" *)
Definition r_inv (s : rstate) : Prop := forall n o, In (n, o) (r_live s) -> o < r_next s.

Lemma resolve_in_In l name o : resolve_in l name = Some o -> In (name, o) l.
Proof.
  induction l as [|[k x] l IH]; cbn [resolve_in]; [discriminate|]. destruct (k =? name) eqn:E.
  - intros H. inversion H; subst. apply Nat.eqb_eq in E. subst. left. reflexivity.
  - intros H. right. apply IH. exact H.
Qed.

Lemma r_step_inv p s : r_inv s -> r_inv (r_step p s).
Proof.
  intros H. destruct p as [name|name|]; cbn [r_step].
  - destruct (resolve s name) as [x|]; intros k o Hin; cbn [r_live r_next] in *.
    + specialize (H k o Hin). lia.
    + apply in_app_or in Hin. destruct Hin as [Hin|[Hin|[]]]; [specialize (H k o Hin); lia | inversion Hin; subst; lia].
  - intros k o Hin. cbn [r_live r_next] in *. apply filter_In in Hin. apply (H k o (proj1 Hin)).
  - intros n o [].
Qed.

Lemma r_run_inv ps : forall s, r_inv s -> r_inv (r_run ps s).
Proof. unfold r_run. induction ps as [|p ps IH]; intros s H; cbn [fold_left]; [exact H|]. apply IH. apply r_step_inv. exact H. Qed.

(* after the deletion of a name, it resolves to nothing *)
Lemma resolve_after_delete s name : resolve (r_step (RDelete name) s) name = None.
Proof.
  unfold resolve. cbn [r_step r_live]. induction (r_live s) as [|[n o] l IH]; cbn [filter]; [reflexivity|].
  destruct (n =? name) eqn:E; cbn [fst negb]; rewrite ?E; cbn [negb]; [exact IH|]. cbn [resolve_in]. rewrite E. exact IH.
Qed.

Lemma resolve_in_app_none l name x : resolve_in l name = None -> resolve_in (l ++ [(name, x)]) name = Some x.
Proof.
  induction l as [|[n o] l IH]; cbn [app resolve_in]; [rewrite Nat.eqb_refl; reflexivity|].
  destruct (n =? name); [discriminate | exact IH].
Qed.

(* after delete + re-definition under the same name (whatever happened in between to OTHER names), the name resolves to the
   NEW object, which is none of the objects that ever existed before *)
Theorem redefinition_resolves_to_new_object s name :
  r_inv s -> resolve s name = None ->
  resolve (r_step (RDefine name) s) name = Some (r_next s) /\ forall n o, In (n, o) (r_live s) -> o <> r_next s.
Proof.
  intros Hi Hn. split.
  - unfold resolve in *. cbn [r_step]. unfold resolve. rewrite Hn. cbn [r_live]. apply resolve_in_app_none. exact Hn.
  - intros n o Hin Heq. specialize (Hi n o Hin). lia.
Qed.

(* operations on other names do not change what a name resolves to *)
Lemma resolve_other_name s p name : (forall n, p = RDefine n \/ p = RDelete n -> n <> name) -> p <> RReset ->
  resolve (r_step p s) name = resolve s name.
Proof.
  intros H Hr. destruct p as [n|n|]; [| |congruence]; unfold resolve; cbn [r_step].
  - assert (Hn : n <> name) by (apply H; left; reflexivity). unfold resolve. destruct (resolve_in (r_live s) n); cbn [r_live]; [reflexivity|].
    induction (r_live s) as [|[a o] l IH]; cbn [app resolve_in].
    + assert (E : (n =? name) = false) by (apply Nat.eqb_neq; exact Hn). rewrite E. reflexivity.
    + destruct (a =? name); [reflexivity | exact IH].
  - assert (Hn : n <> name) by (apply H; right; reflexivity). cbn [r_live].
    induction (r_live s) as [|[a o] l IH]; cbn [filter resolve_in]; [reflexivity|].
    destruct (a =? n) eqn:E1; cbn [fst negb]; rewrite ?E1; cbn [negb].
    + apply Nat.eqb_eq in E1. subst a. assert (E : (n =? name) = false) by (apply Nat.eqb_neq; exact Hn). rewrite E. exact IH.
    + cbn [resolve_in]. destruct (a =? name); [reflexivity | exact IH].
Qed.

(* a name that resolves to nothing keeps resolving to nothing until it is defined again *)
Lemma resolve_in_filter_none l name n : resolve_in l name = None ->
  resolve_in (filter (fun a : nat * nat => negb (fst a =? n)) l) name = None.
Proof.
  induction l as [|[a o] l IH]; cbn [filter resolve_in]; [reflexivity|].
  destruct (a =? name) eqn:E; [discriminate|]. intros H. cbn [fst]. destruct (a =? n); cbn [negb]; [exact (IH H)|].
  cbn [resolve_in]. rewrite E. exact (IH H).
Qed.

Lemma resolve_none_kept p s name : resolve s name = None -> (forall n, p = RDefine n -> n <> name) ->
  resolve (r_step p s) name = None.
Proof.
  intros Hn H. destruct p as [n|n|].
  - rewrite resolve_other_name; [exact Hn | | discriminate].
    intros k [Hk|Hk]; [apply H; exact Hk | discriminate].
  - unfold resolve in *. cbn [r_step r_live]. apply resolve_in_filter_none. exact Hn.
  - reflexivity.
Qed.

Lemma r_next_mono p s : r_next s <= r_next (r_step p s).
Proof. destruct p as [n|n|]; cbn [r_step]; [destruct (resolve s n); cbn [r_next]; lia | cbn [r_next]; lia | cbn [r_next]; lia]. Qed.

Lemma r_run_next_mono qs : forall s, r_next s <= r_next (r_run qs s).
Proof.
  unfold r_run. induction qs as [|q qs IH]; intros s; cbn [fold_left]; [lia|].
  specialize (IH (r_step q s)). pose proof (r_next_mono q s). lia.
Qed.

Lemma r_run_none_kept qs name : (forall n, In (RDefine n) qs -> n <> name) -> forall s, resolve s name = None ->
  resolve (r_run qs s) name = None.
Proof.
  unfold r_run. induction qs as [|q qs IH]; intros H s Hn; cbn [fold_left]; [exact Hn|].
  apply IH; [intros n Hin; apply H; right; exact Hin|].
  apply resolve_none_kept; [exact Hn|]. intros n E. apply H. left. exact E.
Qed.

Lemma r_empty_inv : r_inv r_empty.
Proof. intros n o []. Qed.

(* every history ps; then the name is deleted; then any history qs that does not define it; then it is defined again *)
Theorem delete_then_redefine ps qs name : (forall n, In (RDefine n) qs -> n <> name) ->
  let s := r_run ps r_empty in
  let s1 := r_run qs (r_step (RDelete name) s) in
  resolve (r_step (RDelete name) s) name = None /\
  resolve s1 name = None /\
  resolve (r_step (RDefine name) s1) name = Some (r_next s1) /\
  (forall n o, In (n, o) (r_live s) -> o < r_next s1) /\
  (forall n o, In (n, o) (r_live s1) -> o <> r_next s1).
Proof.
  intros H s s1.
  assert (Hd : resolve (r_step (RDelete name) s) name = None) by apply resolve_after_delete.
  assert (H1 : resolve s1 name = None) by (apply r_run_none_kept; assumption).
  assert (Is : r_inv s) by (apply r_run_inv, r_empty_inv).
  assert (I1 : r_inv s1) by (apply r_run_inv, r_step_inv, Is).
  destruct (redefinition_resolves_to_new_object s1 name I1 H1) as [Hr Hnew].
  repeat split; try assumption.
  intros n o Hin. specialize (Is n o Hin).
  pose proof (r_run_next_mono qs (r_step (RDelete name) s)) as M. fold s1 in M.
  assert (E : r_next (r_step (RDelete name) s) = r_next s) by reflexivity. rewrite E in M. lia.
Qed.
