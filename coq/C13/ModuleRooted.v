(* C13: every live component belongs to a variable and every live atom group to a component ("rooted"), for all
   sequences of operations; hence reset destroys EVERYTHING (components and atom groups included) and brings every atom
   reference count back to zero. *)
From Coq Require Import ZArith List Bool Arith Lia.
From CV Require Import C13.DepsModel C13.InvModel C13.DepsProofs C13.ModuleModel C13.ModuleProofs C13.DepsInv C13.ModuleInv.
Import ListNotations.
Open Scope nat_scope.

Definition rooted_ex (E : nat -> Prop) (s : state) (info : list oinfo) : Prop :=
  forall o, alive_in info o = true -> 2 <= class s o -> ~ E o -> parents s o <> [].
Definition rooted (m : mstate) : Prop := rooted_ex (fun _ => False) (m_objs m) (m_info m).

Lemma rooted_ex_weaken (E E' : nat -> Prop) s info : (forall o, E o -> E' o) -> rooted_ex E s info -> rooted_ex E' s info.
Proof. intros H R o A C N. apply R; auto. Qed.

(* what a deletion step leaves untouched: the parents of the components / atom groups that survive it *)
Definition keeps_owner (s : state) (s' : state) (info' : list oinfo) : Prop :=
  forall o, alive_in info' o = true -> 2 <= class s o -> parents s' o = parents s o.

Lemma rooted_step s info s' info' : wfs s info ->
  shrinks s info s' info' -> keeps_owner s s' info' -> rooted_ex (fun _ => False) s info -> rooted_ex (fun _ => False) s' info'.
Proof.
  intros W S K R o A C _. rewrite (sh_class _ _ _ _ S) in C. rewrite (K o A C).
  apply R; [apply (sh_alive _ _ _ _ S); exact A | exact C | intros []].
Qed.

Lemma rac_parents_other x s o : ~ In o (children s x) -> parents (remove_all_children x s) o = parents s o.
Proof.
  intros H. rewrite rac_parents. apply cnt_notIn in H. rewrite H. destruct (o <? length s); reflexivity.
Qed.

Section Rooted.
  Variable T : tables.

  Lemma delete_bias_parents n b s info s' o : wfs s info -> class s b = 0 -> 2 <= class s o ->
    delete_bias T n b s = Some s' -> parents s' o = parents s o.
  Proof.
    intros W Kb Ko H.
    assert (G : forall s1, same_shape s s1 -> parents (remove_all_children b s1) o = parents s o).
    { intros s1 [_ Sh]. destruct (Sh o) as (_ & _ & P & _). destruct (Sh b) as (_ & Cb & _).
      rewrite rac_parents_other; [exact P|]. unfold children. rewrite Cb. intros Hin.
      pose proof (wf_typed _ _ W b o Hin) as Ht. rewrite Kb in Ht. lia. }
    unfold delete_bias in H. destruct (is_enabled s b 0).
    - destruct (free_children_deps T n b s) as [s1|] eqn:E; [|discriminate]. inversion H; subst.
      apply G. eapply free_children_deps_shape. exact E.
    - inversion H; subst. apply G. apply same_shape_refl.
  Qed.

  Lemma m_delete_bias_owner n b m m' : wf m -> m_delete_bias T n b m = Some m' -> keeps_owner (m_objs m) (m_objs m') (m_info m').
  Proof.
    intros W H o _ Ko. unfold m_delete_bias in H.
    destruct (alive m b && (class_of m b =? 0)) eqn:E; [|inversion H; subst; reflexivity].
    apply andb_true_iff in E. destruct E as [_ E]. apply Nat.eqb_eq in E.
    destruct (delete_bias T n b (m_objs m)) as [s'|] eqn:E1; [|discriminate]. inversion H; subst. cbn [m_objs].
    eapply delete_bias_parents; eassumption.
  Qed.

  Lemma delete_biases_owner n bs : forall m m', wf m -> delete_biases T n bs m = Some m' ->
    keeps_owner (m_objs m) (m_objs m') (m_info m').
  Proof.
    induction bs as [|b bs IH]; intros m m' W H; cbn [delete_biases] in H; [inversion H; subst; intros o _ _; reflexivity|].
    destruct (m_delete_bias T n b m) as [m1|] eqn:E; [|discriminate].
    destruct (m_delete_bias_wf T n b m m1 W E) as (W1 & S1 & _).
    destruct (delete_biases_wf T n bs m1 m' W1 H) as (_ & S2 & _).
    intros o A Ko. rewrite (IH m1 m' W1 H o A) by (rewrite (sh_class _ _ _ _ S1); exact Ko).
    apply (m_delete_bias_owner n b m m1 W E o); [apply (sh_alive _ _ _ _ S2); exact A | exact Ko].
  Qed.

  (* kills make dead, and dead stays dead *)
  Lemma kill_cvc_info c gs m x :
    alive_in (m_info (kill_cvc c gs m)) x = true -> alive_in (m_info m) x = true /\ (x < length (m_info m) -> x <> c /\ ~ In x gs).
  Proof.
    unfold kill_cvc. cbn [m_info]. intros H. unfold alive_in in H. rewrite info_of_kill in H.
    set (m1 := fold_left (fun mm g => kill_group g mm) gs m) in *.
    assert (G : forall gs0 m0 y, alive_in (m_info (fold_left (fun mm g => kill_group g mm) gs0 m0)) y = true ->
                alive_in (m_info m0) y = true /\ (y < length (m_info m0) -> ~ In y gs0) /\
                length (m_info (fold_left (fun mm g => kill_group g mm) gs0 m0)) = length (m_info m0)).
    { induction gs0 as [|g gs0 IHg]; intros m0 y Hy; cbn [fold_left] in *; [auto|].
      destruct (IHg (kill_group g m0) y Hy) as (A & B & L). unfold kill_group in A, B, L. cbn [m_info] in A, B, L.
      unfold kill in L. rewrite length_upd_nth in L. unfold kill in B. rewrite length_upd_nth in B.
      unfold alive_in in A. rewrite info_of_kill in A.
      destruct ((y =? g) && (g <? length (m_info m0))) eqn:E; [cbn in A; discriminate|].
      split; [exact A|]. split; [|exact L]. intros Ly [->|Hin]; [|apply (B Ly Hin)].
      rewrite Nat.eqb_refl in E. apply Nat.ltb_lt in Ly. rewrite Ly in E. discriminate. }
    destruct ((x =? c) && (c <? length (m_info m1))) eqn:E; [cbn in H; discriminate|].
    destruct (G gs m x H) as (A & B & L). split; [exact A|]. intros Lx. split; [|apply B; exact Lx].
    intros ->. rewrite Nat.eqb_refl in E. fold m1 in L. rewrite L in E. apply Nat.ltb_lt in Lx. rewrite Lx in E. discriminate.
  Qed.

  Lemma fold_kill_cvc_info cgs : forall m x,
    alive_in (m_info (fold_left (fun mm cg => kill_cvc (fst cg) (snd cg) mm) cgs m)) x = true ->
    alive_in (m_info m) x = true /\ forall cg, In cg cgs -> x <> fst cg /\ ~ In x (snd cg).
  Proof.
    induction cgs as [|cg cgs IH]; intros m x H; cbn [fold_left] in H; [split; [exact H | intros cg []]|].
    destruct (IH _ x H) as (A & B). destruct (kill_cvc_info _ _ _ _ A) as (A0 & C).
    split; [exact A0|]. intros cg' [<-|Hin]; [apply C; apply alive_in_range; exact A0 | apply B; exact Hin].
  Qed.

  Lemma fold_rac_parents_other cs : forall s o, (forall c, In c cs -> ~ In o (children s c)) ->
    parents (fold_rac cs s) o = parents s o.
  Proof.
    induction cs as [|c cs IH]; intros s o H; cbn [fold_rac fold_left]; [reflexivity|].
    change (parents (fold_rac cs (remove_all_children c s)) o = parents s o).
    rewrite IH.
    - apply rac_parents_other. apply H. left; reflexivity.
    - intros c' Hc' Hin. apply (H c' (or_intror Hc')). rewrite rac_children in Hin.
      destruct ((c' =? c) && (c <? length s)); [contradiction | exact Hin].
  Qed.

  Lemma m_delete_colvar_owner n v m m' : wf m -> m_delete_colvar T n v m = Some m' ->
    keeps_owner (m_objs m) (m_objs m') (m_info m').
  Proof.
    intros W H o A Ko. unfold m_delete_colvar in H.
    destruct (alive m v && (class_of m v =? 1)) eqn:Eg; [|inversion H; subst; reflexivity].
    cbv zeta in H. set (s := m_objs m) in *. change (wfs s (m_info m)) in W.
    apply andb_true_iff in Eg. destruct Eg as [Ea Ek]. apply Nat.eqb_eq in Ek.
    change (alive m v) with (alive_in (m_info m) v) in Ea. change (class_of m v) with (class s v) in Ek.
    set (cvcs := o_children (get_obj s v)) in *.
    set (s2 := fold_left (fun st c => remove_all_children c st) (rev cvcs) (remove_all_children v s)) in *.
    set (m2 := mkM s2 (m_info m) (m_atoms m)) in *.
    set (cgs := map (fun c => (c, o_children (get_obj s c))) cvcs) in *.
    set (m3 := fold_left (fun mm cg => kill_cvc (fst cg) (snd cg) mm) cgs m2) in *.
    destruct (delete_biases T n (rev (o_parents (get_obj s v))) m3) as [m4|] eqn:E4; [|discriminate].
    inversion H; subst m'. clear H. cbn [m_objs m_info] in *.
    destruct (delete_colvar_unlinked s (m_info m) v W Ea Ek) as (W2 & S2 & Cv & Hfree).
    assert (O3 : m_objs m3 = s2) by (unfold m3; apply (fold_kill_cvc_objs cgs m2)).
    assert (W3 : wf m3).
    { destruct (fold_kill_cvc_wf cgs m2 W2) as (W3 & _); [|exact W3].
      intros cg Hcg. apply in_map_iff in Hcg. destruct Hcg as (c & <- & Hc). cbn [fst snd].
      destruct (Hfree c Hc) as (X & Y). split; [exact X|]. split; [exact Y|].
      apply (wf_atoms _ _ W). change (class s c <> 3). rewrite (wf_typed _ _ W v c Hc), Ek. discriminate. }
    destruct (delete_biases_wf T n _ m3 m4 W3 E4) as (_ & S4 & _).
    (* o is alive at the end, hence alive in m3, hence neither a component of v nor one of their atom groups *)
    assert (A4 : alive_in (m_info m4) o = true).
    { unfold alive_in in *. rewrite info_of_kill in A. destruct ((o =? v) && (v <? length (m_info m4))); [cbn in A; discriminate | exact A]. }
    assert (A3 : alive_in (m_info m3) o = true) by (apply (sh_alive _ _ _ _ S4); exact A4).
    destruct (fold_kill_cvc_info cgs m2 o A3) as (_ & Hnot).
    assert (N1 : ~ In o (children s v)).
    { intros Hin. destruct (Hnot (o, o_children (get_obj s o))) as (X & _); [apply in_map_iff; exists o; auto | apply X; reflexivity]. }
    assert (N2 : forall c, In c cvcs -> ~ In o (children s c)).
    { intros c Hc Hin. destruct (Hnot (c, o_children (get_obj s c))) as (_ & X); [apply in_map_iff; exists c; auto | apply X; exact Hin]. }
    rewrite (delete_biases_owner n _ m3 m4 W3 E4 o A4) by (rewrite O3, (sh_class _ _ _ _ S2); exact Ko).
    rewrite O3. unfold s2. change (parents (fold_rac (rev cvcs) (remove_all_children v s)) o = parents s o).
    rewrite fold_rac_parents_other.
    - apply rac_parents_other. exact N1.
    - intros c Hc Hin. apply in_rev in Hc. rewrite rac_children in Hin.
      destruct ((c =? v) && (v <? length s)); [contradiction|]. apply (N2 c Hc Hin).
  Qed.

  (* ---- deletions keep rootedness *)
  Lemma m_delete_bias_rooted n b m m' : wf m -> rooted m -> m_delete_bias T n b m = Some m' -> rooted m'.
  Proof.
    intros W R H. destruct (m_delete_bias_wf T n b m m' W H) as (_ & S & _).
    eapply rooted_step; [exact W | exact S | eapply m_delete_bias_owner; eassumption | exact R].
  Qed.

  Lemma delete_biases_rooted n bs : forall m m', wf m -> rooted m -> delete_biases T n bs m = Some m' -> rooted m'.
  Proof.
    intros m m' W R H. destruct (delete_biases_wf T n bs m m' W H) as (_ & S & _).
    eapply rooted_step; [exact W | exact S | eapply delete_biases_owner; eassumption | exact R].
  Qed.

  Lemma m_delete_colvar_rooted n v m m' : wf m -> rooted m -> m_delete_colvar T n v m = Some m' -> rooted m'.
  Proof.
    intros W R H. destruct (m_delete_colvar_wf T n v m m' W H) as (_ & S & _).
    eapply rooted_step; [exact W | exact S | eapply m_delete_colvar_owner; eassumption | exact R].
  Qed.

  Lemma delete_colvars_rooted n vs : forall m m', wf m -> rooted m -> delete_colvars T n vs m = Some m' -> rooted m'.
  Proof.
    induction vs as [|v vs IH]; intros m m' W R H; cbn [delete_colvars] in H; [inversion H; subst; exact R|].
    destruct (m_delete_colvar T n v m) as [m1|] eqn:E; [|discriminate].
    destruct (m_delete_colvar_wf T n v m m1 W E) as (W1 & _).
    apply (IH m1 m' W1 (m_delete_colvar_rooted n v m m1 W R E) H).
  Qed.

  Lemma m_reset_rooted n m m' : wf m -> rooted m -> m_reset T n m = Some m' -> rooted m'.
  Proof.
    intros W R H. unfold m_reset in H.
    destruct (delete_biases T n (rev (live_of_class m 0)) m) as [m1|] eqn:E1; [|discriminate].
    destruct (delete_biases_wf T n _ m m1 W E1) as (W1 & _).
    apply (delete_colvars_rooted n _ m1 m' W1 (delete_biases_rooted n _ m m1 W R E1) H).
  Qed.

  (* ---- reset destroys everything *)
  Lemma rooted_no_orphans m : wf m -> rooted m ->
    (forall o, alive_in (m_info m) o = true -> 2 <= class (m_objs m) o) -> forall o, alive_in (m_info m) o = false.
  Proof.
    intros W R H o. destruct (alive_in (m_info m) o) eqn:A; [|reflexivity]. exfalso.
    assert (Up : forall x, alive_in (m_info m) x = true -> exists p, alive_in (m_info m) p = true /\ class (m_objs m) x = S (class (m_objs m) p)).
    { intros x Ax. pose proof (H x Ax) as Cx. pose proof (R x Ax Cx (fun f => f)) as Px.
      destruct (parents (m_objs m) x) as [|p l] eqn:E; [congruence|].
      assert (Hin : In p (parents (m_objs m) x)) by (rewrite E; left; reflexivity).
      exists p. split.
      - apply (wfs_no_dangling _ _ x p W Ax). apply in_or_app. right. exact Hin.
      - apply (wfs_parent_child _ _ _ _ W) in Hin. apply (wf_typed _ _ W) in Hin. exact Hin. }
    (* climbing: class decreases by one at each step and stays >= 2 *)
    assert (Climb : forall k x, alive_in (m_info m) x = true -> class (m_objs m) x <= k -> False).
    { induction k as [|k IH]; intros x Ax Lx; [pose proof (H x Ax); lia|].
      destruct (Up x Ax) as (p & Ap & Cp). apply (IH p Ap). lia. }
    apply (Climb (class (m_objs m) o) o A). lia.
  Qed.

  Theorem reset_destroys_everything n m m' : wf m -> rooted m -> m_reset T n m = Some m' ->
    (forall o, alive_in (m_info m') o = false) /\
    (acct m -> forall a, a < length (m_atoms m') -> nth a (m_atoms m') 0%Z = 0%Z).
  Proof.
    intros W R H. destruct (m_reset_wf T n m m' W H) as (W' & _ & No & Q).
    pose proof (m_reset_rooted n m m' W R H) as R'.
    pose proof (rooted_no_orphans m' W' R' No) as Dead.
    split; [exact Dead|]. intros A a La. apply (unused_atom_released m' a W' (Q A) La).
    intros o Ao. rewrite Dead in Ao. discriminate.
  Qed.

  (* ---- definitions and primitives keep rootedness *)
  Lemma push_obj_rooted E cls avail atoms m : length (m_info m) = length (m_objs m) ->
    rooted_ex E (m_objs m) (m_info m) ->
    rooted_ex (fun o => E o \/ o = length (m_objs m)) (m_objs (push_obj cls avail atoms m)) (m_info (push_obj cls avail atoms m)).
  Proof.
    intros Hl R o A C N. unfold push_obj in *. cbn [m_objs m_info] in *.
    assert (No : o <> length (m_objs m)) by (intros ->; apply N; right; reflexivity).
    assert (Lo : o < length (m_objs m)).
    { apply alive_in_range in A. rewrite app_length in A. cbn in A. lia. }
    unfold alive_in in A. rewrite info_of_push in A. rewrite Hl in A.
    assert (E0 : (o =? length (m_objs m)) = false) by (apply Nat.eqb_neq; exact No). rewrite E0 in A.
    unfold class, parents in *. rewrite get_obj_push in *. rewrite E0 in *.
    apply R; [exact A | exact C | intros HE; apply N; left; exact HE].
  Qed.

  Lemma link_parents n p c m m' : link T n p c m = Some m' ->
    m_info m' = m_info m /\ length (m_objs m') = length (m_objs m) /\
    (forall o, class (m_objs m') o = class (m_objs m) o) /\
    (forall o, parents (m_objs m') o = if (o =? c) && (c <? length (m_objs m)) then parents (m_objs m) o ++ [p] else parents (m_objs m) o).
  Proof.
    unfold link. intros H. destruct (add_child T n p c (m_objs m)) as [s'|] eqn:E; [|discriminate]. inversion H; subst. clear H.
    cbn [m_objs m_info]. apply (add_child_shape T) in E. destruct E as [L Sh].
    rewrite !length_upd_obj in L.
    split; [reflexivity|]. split; [exact L|]. split.
    - intros o. destruct (Sh o) as (A & _). unfold class. rewrite A. rewrite !get_obj_upd_obj.
      destruct (_ && _); destruct (_ && _); reflexivity.
    - intros o. destruct (Sh o) as (_ & _ & A & _). unfold parents. rewrite A. rewrite get_obj_upd_obj, length_upd_obj, get_obj_upd_obj.
      destruct ((o =? c) && (c <? length (m_objs m))); destruct ((o =? p) && (p <? length (m_objs m))); reflexivity.
  Qed.

  Lemma link_rooted E n p c m m' : c < length (m_objs m) -> link T n p c m = Some m' ->
    rooted_ex E (m_objs m) (m_info m) -> rooted_ex (fun o => E o /\ o <> c) (m_objs m') (m_info m').
  Proof.
    intros Lc H R o A C N. destruct (link_parents n p c m m' H) as (I & _ & K & P).
    rewrite I in A. rewrite K in C. rewrite P.
    destruct (o =? c) eqn:Eo.
    - apply Nat.ltb_lt in Lc. rewrite Lc. cbn [andb]. intros X. apply app_eq_nil in X. destruct X as [_ X]. discriminate.
    - cbn [andb]. apply R; [exact A | exact C|]. intros HE. apply N. split; [exact HE|]. apply Nat.eqb_neq. exact Eo.
  Qed.

  Lemma link_len n p c m m' : link T n p c m = Some m' ->
    length (m_info m') = length (m_info m) /\ length (m_objs m') = length (m_objs m).
  Proof. intros H. destruct (link_parents n p c m m' H) as (I & L & _). rewrite I. auto. Qed.

  Lemma push_len cls avail atoms m : length (m_info m) = length (m_objs m) ->
    length (m_info (push_obj cls avail atoms m)) = length (m_objs (push_obj cls avail atoms m)) /\
    length (m_objs (push_obj cls avail atoms m)) = S (length (m_objs m)).
  Proof. intros H. unfold push_obj. cbn [m_objs m_info]. rewrite !app_length. cbn. lia. Qed.

  Definition old_classes (m m' : mstate) : Prop :=
    length (m_info m') = length (m_objs m') /\ length (m_objs m) <= length (m_objs m') /\
    forall o, o < length (m_objs m) -> class (m_objs m') o = class (m_objs m) o.

  Lemma old_classes_trans a b c : old_classes a b -> old_classes b c -> old_classes a c.
  Proof.
    intros (A1 & A2 & A3) (B1 & B2 & B3). split; [exact B1|]. split; [lia|]. intros o Ho. rewrite B3 by lia. apply A3. exact Ho.
  Qed.

  Lemma push_old cls avail atoms m : length (m_info m) = length (m_objs m) -> old_classes m (push_obj cls avail atoms m).
  Proof.
    intros Hl. destruct (push_len cls avail atoms m Hl) as (A & B). split; [exact A|]. split; [lia|].
    intros o Ho. unfold push_obj, class. cbn [m_objs]. rewrite get_obj_push.
    assert (E : (o =? length (m_objs m)) = false) by (apply Nat.eqb_neq; lia). rewrite E. reflexivity.
  Qed.

  Lemma link_old n p c m m' : length (m_info m) = length (m_objs m) -> link T n p c m = Some m' -> old_classes m m'.
  Proof.
    intros Hl H. destruct (link_parents n p c m m' H) as (I & L & K & _). split; [rewrite I, L; exact Hl|]. split; [lia|].
    intros o _. apply K.
  Qed.

  Lemma add_groups_rooted E n c gs : forall m m', length (m_info m) = length (m_objs m) -> c < length (m_objs m) ->
    rooted_ex E (m_objs m) (m_info m) -> add_groups T n c gs m = Some m' ->
    rooted_ex E (m_objs m') (m_info m') /\ old_classes m m'.
  Proof.
    induction gs as [|[av atoms] gs IH]; intros m m' Hl Lc R H; cbn [add_groups] in H.
    { inversion H; subst. split; [exact R|]. split; [exact Hl|]. split; [lia | auto]. }
    destruct (link T n c (length (m_objs m)) (push_obj 3 av atoms m)) as [m1|] eqn:E1; [|discriminate].
    pose proof (push_old 3 av atoms m Hl) as O0. destruct O0 as (Hl0 & L0 & K0).
    assert (L0' : length (m_objs (push_obj 3 av atoms m)) = S (length (m_objs m))) by (apply push_len; exact Hl).
    pose proof (link_old n c _ _ m1 Hl0 E1) as O1.
    pose proof (push_obj_rooted E 3 av atoms m Hl R) as R0.
    pose proof (link_rooted _ n c (length (m_objs m)) (push_obj 3 av atoms m) m1 ltac:(lia) E1 R0) as R1.
    assert (R1' : rooted_ex E (m_objs m1) (m_info m1)).
    { eapply rooted_ex_weaken; [|exact R1]. intros o [[HE|Hg] Hn]; [exact HE | contradiction]. }
    destruct O1 as (Hl1 & L1 & K1).
    destruct (IH m1 m' Hl1 ltac:(lia) R1' H) as (R2 & O2).
    split; [exact R2|].
    eapply old_classes_trans; [|exact O2]. eapply old_classes_trans; [split; [exact Hl0|]; split; [exact L0 | exact K0] | split; [exact Hl1|]; split; [exact L1 | exact K1]].
  Qed.

  Lemma add_cvcs_rooted E n v cs : forall m m', length (m_info m) = length (m_objs m) -> v < length (m_objs m) ->
    rooted_ex E (m_objs m) (m_info m) -> add_cvcs T n v cs m = Some m' ->
    rooted_ex E (m_objs m') (m_info m') /\ old_classes m m'.
  Proof.
    induction cs as [|[av gs] cs IH]; intros m m' Hl Lv R H; cbn [add_cvcs] in H.
    { inversion H; subst. split; [exact R|]. split; [exact Hl|]. split; [lia | auto]. }
    destruct (add_groups T n (length (m_objs m)) gs (push_obj 2 av [] m)) as [m1|] eqn:E1; [|discriminate].
    destruct (link T n v (length (m_objs m)) m1) as [m2|] eqn:E2; [|discriminate].
    pose proof (push_old 2 av [] m Hl) as O0.
    assert (L0' : length (m_objs (push_obj 2 av [] m)) = S (length (m_objs m))) by (apply push_len; exact Hl).
    pose proof (push_obj_rooted E 2 av [] m Hl R) as R0.
    destruct O0 as (Hl0 & L0 & K0).
    destruct (add_groups_rooted _ n (length (m_objs m)) gs _ m1 Hl0 ltac:(lia) R0 E1) as (R1 & O1).
    destruct O1 as (Hl1 & L1 & K1).
    pose proof (link_rooted _ n v (length (m_objs m)) m1 m2 ltac:(lia) E2 R1) as R2.
    assert (R2' : rooted_ex E (m_objs m2) (m_info m2)).
    { eapply rooted_ex_weaken; [|exact R2]. intros o [[HE|Hg] Hn]; [exact HE | contradiction]. }
    pose proof (link_old n v _ m1 m2 Hl1 E2) as O2. destruct O2 as (Hl2 & L2 & K2).
    destruct (IH m2 m' Hl2 ltac:(lia) R2' H) as (R3 & O3).
    split; [exact R3|].
    eapply old_classes_trans; [|exact O3]. eapply old_classes_trans; [split; [exact Hl0|]; split; [exact L0 | exact K0]|].
    eapply old_classes_trans; [split; [exact Hl1|]; split; [exact L1 | exact K1] | split; [exact Hl2|]; split; [exact L2 | exact K2]].
  Qed.

  Lemma rooted_ex_drop_low E x s info : class s x < 2 -> rooted_ex (fun o => E o \/ o = x) s info -> rooted_ex E s info.
  Proof. intros Cx R o A C N. apply R; [exact A | exact C|]. intros [HE|Hx]; [apply N; exact HE | subst o; lia]. Qed.

  Lemma new_colvar_rooted n avail cs m m' : wf m -> rooted m -> new_colvar T n avail cs m = Some m' -> rooted m'.
  Proof.
    intros W R H. unfold new_colvar in H. pose proof (wf_len _ _ W) as Hl.
    pose proof (push_obj_rooted _ 1 avail [] m Hl R) as R0.
    destruct (push_len 1 avail [] m Hl) as (Hl0 & L0).
    destruct (add_cvcs_rooted _ n (length (m_objs m)) cs _ m' Hl0 ltac:(lia) R0 H) as (R1 & (_ & _ & K1)).
    unfold rooted. eapply rooted_ex_drop_low; [|exact R1].
    rewrite K1 by lia. unfold push_obj, class. cbn [m_objs]. rewrite get_obj_push, Nat.eqb_refl. cbn. lia.
  Qed.

  Lemma add_colvars_rooted E n b vs : forall m m', length (m_info m) = length (m_objs m) ->
    rooted_ex E (m_objs m) (m_info m) -> add_colvars T n b vs m = Some m' ->
    rooted_ex E (m_objs m') (m_info m') /\ old_classes m m'.
  Proof.
    induction vs as [|v vs IH]; intros m m' Hl R H; cbn [add_colvars] in H.
    { inversion H; subst. split; [exact R|]. split; [exact Hl|]. split; [lia | auto]. }
    destruct (alive m v && (class_of m v =? 1)) eqn:Eg; [|apply IH; assumption].
    destruct (link T n b v m) as [m1|] eqn:E1; [|discriminate].
    apply andb_true_iff in Eg. destruct Eg as [Ea _]. change (alive m v) with (alive_in (m_info m) v) in Ea.
    assert (Lv : v < length (m_objs m)) by (rewrite <- Hl; apply alive_in_range; exact Ea).
    pose proof (link_rooted _ n b v m m1 Lv E1 R) as R1.
    assert (R1' : rooted_ex E (m_objs m1) (m_info m1)) by (eapply rooted_ex_weaken; [|exact R1]; intros o [HE _]; exact HE).
    pose proof (link_old n b v m m1 Hl E1) as O1. destruct O1 as (Hl1 & L1 & K1).
    destruct (IH m1 m' Hl1 R1' H) as (R2 & O2). split; [exact R2|].
    eapply old_classes_trans; [split; [exact Hl1|]; split; [exact L1 | exact K1] | exact O2].
  Qed.

  Lemma new_bias_rooted n avail vs m m' : wf m -> rooted m -> new_bias T n avail vs m = Some m' -> rooted m'.
  Proof.
    intros W R H. unfold new_bias in H. pose proof (wf_len _ _ W) as Hl.
    pose proof (push_obj_rooted _ 0 avail [] m Hl R) as R0.
    destruct (push_len 0 avail [] m Hl) as (Hl0 & L0).
    destruct (add_colvars_rooted _ n (length (m_objs m)) vs _ m' Hl0 R0 H) as (R1 & (_ & _ & K1)).
    unfold rooted. eapply rooted_ex_drop_low; [|exact R1].
    rewrite K1 by lia. unfold push_obj, class. cbn [m_objs]. rewrite get_obj_push, Nat.eqb_refl. cbn. lia.
  Qed.

  Lemma m_prim_rooted n p m m' : rooted m -> m_prim T n p m = Some m' -> rooted m'.
  Proof.
    intros R H. unfold m_prim in H. destruct (alive m (op_target p)); [|inversion H; subst; exact R].
    destruct (run_op T n p (m_objs m)) as [[r s]|] eqn:E; [|discriminate]. inversion H; subst. clear H.
    destruct (run_op_shape T n p _ _ _ E) as [_ Sh]. intros o A C N. cbn [m_objs m_info] in *.
    destruct (Sh o) as (Kc & _ & Kp & _). unfold class, parents in *. rewrite Kc in C. rewrite Kp. apply R; assumption.
  Qed.

  Lemma m_step_rooted n p m m' : wf m -> rooted m -> m_step T n p m = Some m' -> rooted m'.
  Proof.
    intros W R H. destruct p as [av cs|av vs|q|b|v|]; cbn [m_step] in H.
    - eapply new_colvar_rooted; eassumption.
    - eapply new_bias_rooted; eassumption.
    - eapply m_prim_rooted; eassumption.
    - eapply m_delete_bias_rooted; eassumption.
    - eapply m_delete_colvar_rooted; eassumption.
    - eapply m_reset_rooted; eassumption.
  Qed.

  Theorem m_run_rooted n ps : forall m m', wf m -> acct m -> rooted m -> m_run T n ps m = Some m' -> wf m' /\ acct m' /\ rooted m'.
  Proof.
    induction ps as [|p ps IH]; intros m m' W A R H; cbn [m_run] in H; [inversion H; subst; auto|].
    destruct (m_step T n p m) as [m1|] eqn:E; [|discriminate].
    destruct (m_step_wf T n p m m1 W E) as (W1 & Q1).
    apply (IH m1 m' W1 (Q1 A) (m_step_rooted n p m m1 W R E) H).
  Qed.

  Lemma empty_rooted k : rooted (m_empty k).
  Proof. intros o A. unfold m_empty, alive_in, info_of in A. cbn in A. destruct o; discriminate. Qed.
End Rooted.
