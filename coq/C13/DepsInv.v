(* C13: the reference-count invariant of the dependency machinery and its preservation by the release family
   (disable, decr_ref_count, free_children_deps, deletion of a bias).
   need T s o g   = number of references the state accounts for on feature g of object o:
                    enabled features of o listing g in requires_self (with multiplicity)
                  + recorded alternate_refs of the features of o
                  + for every ACTIVE object p, (occurrences of o among p's children) x (enabled features of p listing g
                    in requires_children).
   excess T s o g = ref_count - need.   "Consistent" = excess >= 0 everywhere and a disabled feature has ref_count <= 0.
   Main result: a complete call of disable (successful or refused, with all its cascades) never lowers the excess
   of any (object, feature); decr_ref_count lowers it by at most one, at its target. *)
From Coq Require Import ZArith List Bool Arith Lia.
From CV Require Import C13.DepsModel C13.DepsProofs C13.ModuleProofs.
Import ListNotations.
Open Scope Z_scope.

Definition zcnt (x : nat) (l : list nat) : Z := Z.of_nat (cnt x l).

Lemma zcnt_nonneg x l : 0 <= zcnt x l.
Proof. unfold zcnt. lia. Qed.

Lemma zcnt_cons x y l : zcnt x (y :: l) = (if Nat.eq_dec y x then 1 else 0) + zcnt x l.
Proof. unfold zcnt. rewrite cnt_cons. destruct (Nat.eq_dec y x); lia. Qed.

Lemma zcnt_nil x : zcnt x [] = 0.
Proof. reflexivity. Qed.

Lemma zcnt_pos x l : In x l -> 1 <= zcnt x l.
Proof. intros H. apply cnt_In in H. unfold zcnt. lia. Qed.

Fixpoint zsum (l : list nat) (F : nat -> Z) : Z :=
  match l with [] => 0 | x :: r => F x + zsum r F end.

Lemma zsum_ext l F G : (forall x, In x l -> F x = G x) -> zsum l F = zsum l G.
Proof.
  induction l as [|a l IH]; intros H; cbn [zsum]; [reflexivity|].
  rewrite (H a (or_introl eq_refl)), IH; [reflexivity|]. intros x Hx. apply H. right; exact Hx.
Qed.

Lemma zsum_nonneg l F : (forall x, In x l -> 0 <= F x) -> 0 <= zsum l F.
Proof.
  induction l as [|a l IH]; intros H; cbn [zsum]; [lia|].
  pose proof (H a (or_introl eq_refl)). assert (0 <= zsum l F) by (apply IH; intros x Hx; apply H; right; exact Hx). lia.
Qed.

Lemma zsum_ge_term l F k : In k l -> (forall x, In x l -> 0 <= F x) -> F k <= zsum l F.
Proof.
  induction l as [|a l IH]; intros Hk H; [contradiction|]. cbn [zsum].
  assert (0 <= zsum l F) by (apply zsum_nonneg; intros x Hx; apply H; right; exact Hx).
  pose proof (H a (or_introl eq_refl)).
  destruct Hk as [->|Hk]; [lia|]. assert (F k <= zsum l F) by (apply IH; [exact Hk | intros x Hx; apply H; right; exact Hx]). lia.
Qed.

Lemma zsum_upd l F G k : NoDup l -> (forall x, x <> k -> F x = G x) ->
  zsum l G = zsum l F + (if in_dec Nat.eq_dec k l then G k - F k else 0).
Proof.
  induction l as [|a l IH]; intros ND H; cbn [zsum]; [destruct (in_dec Nat.eq_dec k []); [contradiction | lia]|].
  inversion ND as [|? ? Hna ND']; subst. rewrite (IH ND' H).
  destruct (Nat.eq_dec a k) as [->|Hak].
  - destruct (in_dec Nat.eq_dec k l) as [Hin|_]; [contradiction|].
    destruct (in_dec Nat.eq_dec k (k :: l)) as [_|Hn]; [lia | exfalso; apply Hn; left; reflexivity].
  - rewrite (H a Hak). destruct (in_dec Nat.eq_dec k l) as [Hin|Hn]; destruct (in_dec Nat.eq_dec k (a :: l)) as [Hin'|Hn']; try lia.
    + exfalso. apply Hn'. right; exact Hin.
    + destruct Hin' as [E|Hin']; [congruence | contradiction].
Qed.

Lemma zsum_seq_upd n F G k : (forall x, x <> k -> F x = G x) ->
  zsum (seq 0 n) G = zsum (seq 0 n) F + (if (k <? n)%nat then G k - F k else 0).
Proof.
  intros H. rewrite (zsum_upd (seq 0 n) F G k (seq_NoDup n 0) H).
  destruct (in_dec Nat.eq_dec k (seq 0 n)) as [Hin|Hn]; destruct (k <? n)%nat eqn:E; try reflexivity.
  - apply in_seq in Hin. apply Nat.ltb_ge in E. lia.
  - exfalso. apply Hn. apply in_seq. apply Nat.ltb_lt in E. lia.
Qed.

(* ------------------------------------------------------------------------------------------ need / excess *)
Section Need.
  Variable T : tables.

  Definition nf (s : state) (o : nat) : nat := length (o_fs (get_obj s o)).
  Definition rc (s : state) (o g : nat) : Z := fs_rc (get_fs s o g).

  Definition termS (s : state) (o g f : nat) : Z :=
    if is_enabled s o f then zcnt g (f_self (feat T (cls_of s o) f)) else 0.
  Definition termA (s : state) (o g f : nat) : Z := zcnt g (fs_alt (get_fs s o f)).
  Definition termC (s : state) (p g f : nat) : Z :=
    if is_enabled s p f then zcnt g (f_children (feat T (cls_of s p) f)) else 0.

  Definition need_self (s : state) (o g : nat) : Z := zsum (seq 0 (nf s o)) (termS s o g).
  Definition need_alt (s : state) (o g : nat) : Z := zsum (seq 0 (nf s o)) (termA s o g).
  Definition wch (s : state) (p g : nat) : Z := zsum (seq 0 (nf s p)) (termC s p g).
  Definition termP (s : state) (o g p : nat) : Z :=
    if is_enabled s p 0 then zcnt o (o_children (get_obj s p)) * wch s p g else 0.
  Definition need_par (s : state) (o g : nat) : Z := zsum (seq 0 (length s)) (termP s o g).

  Definition need (s : state) (o g : nat) : Z := need_self s o g + need_alt s o g + need_par s o g.
  Definition excess (s : state) (o g : nat) : Z := rc s o g - need s o g.

  Lemma termS_nonneg s o g f : 0 <= termS s o g f.
  Proof. unfold termS. destruct (is_enabled s o f); [apply zcnt_nonneg | lia]. Qed.
  Lemma termA_nonneg s o g f : 0 <= termA s o g f.
  Proof. apply zcnt_nonneg. Qed.
  Lemma termC_nonneg s p g f : 0 <= termC s p g f.
  Proof. unfold termC. destruct (is_enabled s p f); [apply zcnt_nonneg | lia]. Qed.
  Lemma wch_nonneg s p g : 0 <= wch s p g.
  Proof. apply zsum_nonneg. intros; apply termC_nonneg. Qed.
  Lemma termP_nonneg s o g p : 0 <= termP s o g p.
  Proof. unfold termP. destruct (is_enabled s p 0); [|lia]. pose proof (zcnt_nonneg o (o_children (get_obj s p))). pose proof (wch_nonneg s p g). nia. Qed.

  (* ---- two states that agree on everything need looks at *)
  Definition same_need_view (s s' : state) : Prop :=
    length s' = length s /\
    forall o, cls_of s' o = cls_of s o /\ o_children (get_obj s' o) = o_children (get_obj s o) /\ nf s' o = nf s o /\
              forall f, is_enabled s' o f = is_enabled s o f /\ fs_alt (get_fs s' o f) = fs_alt (get_fs s o f).

  Lemma need_same_view s s' o g : same_need_view s s' -> need s' o g = need s o g.
  Proof.
    intros [L H]. unfold need, need_self, need_alt, need_par.
    assert (E1 : forall p f, termS s' p g f = termS s p g f).
    { intros p f. unfold termS. destruct (H p) as (A & _ & _ & D). destruct (D f) as (D1 & _). rewrite D1, A. reflexivity. }
    assert (E2 : forall p f, termA s' p g f = termA s p g f).
    { intros p f. unfold termA. destruct (H p) as (_ & _ & _ & D). destruct (D f) as (_ & D2). rewrite D2. reflexivity. }
    assert (E3 : forall p g' f, termC s' p g' f = termC s p g' f).
    { intros p g' f. unfold termC. destruct (H p) as (A & _ & _ & D). destruct (D f) as (D1 & _). rewrite D1, A. reflexivity. }
    assert (E4 : forall p g', wch s' p g' = wch s p g').
    { intros p g'. unfold wch. destruct (H p) as (_ & _ & N & _). rewrite N. apply zsum_ext. intros; apply E3. }
    assert (E5 : forall p, termP s' o g p = termP s o g p).
    { intros p. unfold termP. destruct (H p) as (_ & B & _ & D). destruct (D 0%nat) as (D1 & _). rewrite D1, B, E4. reflexivity. }
    destruct (H o) as (_ & _ & N & _). rewrite N, L.
    rewrite (zsum_ext _ _ _ (fun x _ => E1 o x)), (zsum_ext _ _ _ (fun x _ => E2 o x)), (zsum_ext _ _ _ (fun x _ => E5 x)). reflexivity.
  Qed.

  (* ---- the effect of one elementary write *)
  Lemma set_fs_length s o f u : length (set_fs s o f u) = length s.
  Proof. unfold set_fs, upd_obj. apply length_upd_nth. Qed.

  Lemma set_fs_cls s o f u o' : cls_of (set_fs s o f u) o' = cls_of s o'.
  Proof. unfold cls_of. rewrite get_obj_set_fs. destruct ((o' =? o)%nat && (o <? length s)%nat); reflexivity. Qed.

  Lemma set_fs_children s o f u o' : o_children (get_obj (set_fs s o f u) o') = o_children (get_obj s o').
  Proof. rewrite get_obj_set_fs. destruct ((o' =? o)%nat && (o <? length s)%nat); reflexivity. Qed.

  Lemma set_fs_nf s o f u o' : nf (set_fs s o f u) o' = nf s o'.
  Proof. unfold nf. rewrite get_obj_set_fs. destruct ((o' =? o)%nat && (o <? length s)%nat); [cbn [o_fs]; apply length_upd_nth | reflexivity]. Qed.

  Lemma nf_overflow s o : (length s <= o)%nat -> nf s o = 0%nat.
  Proof. intros H. unfold nf. rewrite get_obj_overflow by exact H. reflexivity. Qed.

  Lemma get_fs_other s o f u o' f' : (o' <> o \/ f' <> f) -> get_fs (set_fs s o f u) o' f' = get_fs s o' f'.
  Proof.
    intros H. rewrite get_fs_set_fs. destruct (o' =? o)%nat eqn:Eo; [|reflexivity]. destruct (f' =? f)%nat eqn:Ef; [|rewrite andb_false_r; reflexivity].
    apply Nat.eqb_eq in Eo. apply Nat.eqb_eq in Ef. destruct H; congruence.
  Qed.

  Lemma get_fs_same s o f u : (f <? nf s o)%nat = true -> get_fs (set_fs s o f u) o f = u (get_fs s o f).
  Proof.
    intros H. rewrite get_fs_set_fs. rewrite !Nat.eqb_refl. fold (nf s o). rewrite H. cbn [andb].
    destruct (o <? length s)%nat eqn:E; [reflexivity|]. apply Nat.ltb_ge in E. rewrite (nf_overflow _ _ E) in H. discriminate.
  Qed.

  Lemma get_fs_same_out s o f u : (f <? nf s o)%nat = false -> get_fs (set_fs s o f u) o f = get_fs s o f.
  Proof. intros H. rewrite get_fs_set_fs. fold (nf s o). rewrite H. rewrite !andb_false_r. reflexivity. Qed.

  Lemma enabled_in_range s o f : is_enabled s o f = true -> (f <? nf s o)%nat = true.
  Proof.
    intros H. destruct (f <? nf s o)%nat eqn:E; [reflexivity|]. apply Nat.ltb_ge in E.
    unfold is_enabled, get_fs in H. fold (nf s o) in E. rewrite (nth_overflow _ _ E) in H. discriminate.
  Qed.

  Lemma termS_other s o f u o' g f' : (o' <> o \/ f' <> f) -> termS (set_fs s o f u) o' g f' = termS s o' g f'.
  Proof. intros H. unfold termS, is_enabled. rewrite get_fs_other by exact H. rewrite set_fs_cls. reflexivity. Qed.

  Lemma termA_other s o f u o' g f' : (o' <> o \/ f' <> f) -> termA (set_fs s o f u) o' g f' = termA s o' g f'.
  Proof. intros H. unfold termA. rewrite get_fs_other by exact H. reflexivity. Qed.

  Lemma termC_other s o f u o' g f' : (o' <> o \/ f' <> f) -> termC (set_fs s o f u) o' g f' = termC s o' g f'.
  Proof. intros H. unfold termC, is_enabled. rewrite get_fs_other by exact H. rewrite set_fs_cls. reflexivity. Qed.

  Lemma need_self_set_fs s o f u o' g :
    need_self (set_fs s o f u) o' g = need_self s o' g +
      (if (o' =? o)%nat && (f <? nf s o)%nat then termS (set_fs s o f u) o g f - termS s o g f else 0).
  Proof.
    unfold need_self. rewrite set_fs_nf. destruct (o' =? o)%nat eqn:Eo; cbn [andb].
    - apply Nat.eqb_eq in Eo. subst o'. apply zsum_seq_upd. intros x Hx. symmetry. apply termS_other. right. exact Hx.
    - apply Nat.eqb_neq in Eo. rewrite Z.add_0_r. apply zsum_ext. intros x _. apply termS_other. left. exact Eo.
  Qed.

  Lemma need_alt_set_fs s o f u o' g :
    need_alt (set_fs s o f u) o' g = need_alt s o' g +
      (if (o' =? o)%nat && (f <? nf s o)%nat then termA (set_fs s o f u) o g f - termA s o g f else 0).
  Proof.
    unfold need_alt. rewrite set_fs_nf. destruct (o' =? o)%nat eqn:Eo; cbn [andb].
    - apply Nat.eqb_eq in Eo. subst o'. apply zsum_seq_upd. intros x Hx. symmetry. apply termA_other. right. exact Hx.
    - apply Nat.eqb_neq in Eo. rewrite Z.add_0_r. apply zsum_ext. intros x _. apply termA_other. left. exact Eo.
  Qed.

  Lemma wch_set_fs s o f u p g :
    wch (set_fs s o f u) p g = wch s p g +
      (if (p =? o)%nat && (f <? nf s o)%nat then termC (set_fs s o f u) o g f - termC s o g f else 0).
  Proof.
    unfold wch. rewrite set_fs_nf. destruct (p =? o)%nat eqn:Eo; cbn [andb].
    - apply Nat.eqb_eq in Eo. subst p. apply zsum_seq_upd. intros x Hx. symmetry. apply termC_other. right. exact Hx.
    - apply Nat.eqb_neq in Eo. rewrite Z.add_0_r. apply zsum_ext. intros x _. apply termC_other. left. exact Eo.
  Qed.

  Lemma termP_other s o f u o' g p : p <> o -> termP (set_fs s o f u) o' g p = termP s o' g p.
  Proof.
    intros H. unfold termP, is_enabled. rewrite get_fs_other by (left; exact H). rewrite set_fs_children, wch_set_fs.
    assert (E : (p =? o)%nat = false) by (apply Nat.eqb_neq; exact H). rewrite E. cbn [andb]. rewrite Z.add_0_r. reflexivity.
  Qed.

  Lemma need_par_set_fs s o f u o' g :
    need_par (set_fs s o f u) o' g = need_par s o' g +
      (if (o <? length s)%nat then termP (set_fs s o f u) o' g o - termP s o' g o else 0).
  Proof.
    unfold need_par. rewrite set_fs_length. apply zsum_seq_upd. intros x Hx. symmetry. apply termP_other. exact Hx.
  Qed.

  (* a write that keeps the enabled flag and the alternates *)
  Lemma need_set_fs_neutral s o f u o' g :
    (forall x, fs_enabled (u x) = fs_enabled x /\ fs_alt (u x) = fs_alt x) ->
    need (set_fs s o f u) o' g = need s o' g.
  Proof.
    intros Hu. apply need_same_view. split; [apply set_fs_length|]. intros p.
    split; [apply set_fs_cls|]. split; [apply set_fs_children|]. split; [apply set_fs_nf|].
    intros f'. unfold is_enabled. rewrite get_fs_set_fs. destruct (_ && _); [apply Hu | auto].
  Qed.

  Lemma excess_decr s o h o' g :
    excess (set_fs s o h fs_decr) o' g =
    excess s o' g - (if (o' =? o)%nat && (g =? h)%nat && (h <? nf s o)%nat then 1 else 0).
  Proof.
    unfold excess. rewrite need_set_fs_neutral by (intros x; split; reflexivity). unfold rc.
    destruct (o' =? o)%nat eqn:Eo; [|cbn [andb]; rewrite get_fs_other by (left; apply Nat.eqb_neq; exact Eo); lia].
    destruct (g =? h)%nat eqn:Eg; [|cbn [andb]; rewrite get_fs_other by (right; apply Nat.eqb_neq; exact Eg); lia].
    apply Nat.eqb_eq in Eo. apply Nat.eqb_eq in Eg. subst o' g. cbn [andb].
    destruct (h <? nf s o)%nat eqn:Eh.
    - rewrite get_fs_same by exact Eh. cbn [fs_decr fs_rc]. lia.
    - rewrite get_fs_same_out by exact Eh. lia.
  Qed.

  Lemma rc_set_fs_keep s o f u o' g : (forall x, fs_rc (u x) = fs_rc x) -> rc (set_fs s o f u) o' g = rc s o' g.
  Proof. intros Hu. unfold rc. rewrite get_fs_set_fs. destruct (_ && _); [apply Hu | reflexivity]. Qed.

  Lemma enabled_set_fs_keep s o f u o' g : (forall x, fs_enabled (u x) = fs_enabled x) -> is_enabled (set_fs s o f u) o' g = is_enabled s o' g.
  Proof. intros Hu. unfold is_enabled. rewrite get_fs_set_fs. destruct (_ && _); [apply Hu | reflexivity]. Qed.

  Lemma excess_clear_alt s o f o' g :
    excess (set_fs s o f fs_clear_alt) o' g =
    excess s o' g + (if (o' =? o)%nat then zcnt g (fs_alt (get_fs s o f)) else 0).
  Proof.
    unfold excess. rewrite rc_set_fs_keep by reflexivity. unfold need.
    rewrite need_self_set_fs, need_alt_set_fs, need_par_set_fs.
    assert (ES : termS (set_fs s o f fs_clear_alt) o g f = termS s o g f).
    { unfold termS. rewrite enabled_set_fs_keep by reflexivity. rewrite set_fs_cls. reflexivity. }
    assert (EP : termP (set_fs s o f fs_clear_alt) o' g o = termP s o' g o).
    { unfold termP. rewrite enabled_set_fs_keep by reflexivity. rewrite set_fs_children, wch_set_fs.
      unfold termC. rewrite enabled_set_fs_keep by reflexivity. rewrite set_fs_cls.
      destruct (_ && _); [rewrite Z.sub_diag|]; rewrite Z.add_0_r; reflexivity. }
    rewrite ES, EP. destruct (o' =? o)%nat eqn:Eo; cbn [andb].
    - destruct (f <? nf s o)%nat eqn:Ef.
      + unfold termA. rewrite get_fs_same by exact Ef. cbn [fs_clear_alt fs_alt]. rewrite zcnt_nil. destruct (o <? length s)%nat; lia.
      + assert (G : get_fs s o f = fs_default).
        { apply Nat.ltb_ge in Ef. unfold get_fs. apply nth_overflow. exact Ef. }
        rewrite G. cbn [fs_default fs_alt]. rewrite zcnt_nil. destruct (o <? length s)%nat; lia.
    - destruct (o <? length s)%nat; lia.
  Qed.

  Lemma excess_turn_off s o f o' g : is_enabled s o f = true ->
    excess (set_fs s o f fs_turn_off) o' g =
    excess s o' g
    + (if (o' =? o)%nat then zcnt g (f_self (feat T (cls_of s o) f)) else 0)
    + (if is_enabled s o 0 then zcnt o' (o_children (get_obj s o)) * (if (f =? 0)%nat then wch s o g else zcnt g (f_children (feat T (cls_of s o) f))) else 0)
    + (if (o' =? o)%nat && (g =? f)%nat then - rc s o f else 0).
  Proof.
    intros He. pose proof (enabled_in_range _ _ _ He) as Hr.
    assert (Lo : (o <? length s)%nat = true).
    { destruct (o <? length s)%nat eqn:E; [reflexivity|]. apply Nat.ltb_ge in E. rewrite (nf_overflow _ _ E) in Hr. discriminate. }
    unfold excess, need. rewrite need_self_set_fs, need_alt_set_fs, need_par_set_fs. rewrite Hr, Lo, !andb_true_r.
    assert (ES : termS (set_fs s o f fs_turn_off) o g f = 0).
    { unfold termS, is_enabled. rewrite get_fs_same by exact Hr. reflexivity. }
    assert (ES0 : termS s o g f = zcnt g (f_self (feat T (cls_of s o) f))).
    { unfold termS. rewrite He. reflexivity. }
    assert (EA : termA (set_fs s o f fs_turn_off) o g f = termA s o g f).
    { unfold termA. rewrite get_fs_same by exact Hr. reflexivity. }
    assert (EC : termC (set_fs s o f fs_turn_off) o g f = 0).
    { unfold termC, is_enabled. rewrite get_fs_same by exact Hr. reflexivity. }
    assert (EC0 : termC s o g f = zcnt g (f_children (feat T (cls_of s o) f))).
    { unfold termC. rewrite He. reflexivity. }
    assert (EW : wch (set_fs s o f fs_turn_off) o g = wch s o g - zcnt g (f_children (feat T (cls_of s o) f))).
    { rewrite wch_set_fs, Nat.eqb_refl, Hr. cbn [andb]. rewrite EC, EC0. lia. }
    assert (EP : termP (set_fs s o f fs_turn_off) o' g o =
                 if (f =? 0)%nat then 0 else
                 if is_enabled s o 0 then zcnt o' (o_children (get_obj s o)) * (wch s o g - zcnt g (f_children (feat T (cls_of s o) f))) else 0).
    { unfold termP. rewrite set_fs_children, EW. destruct (f =? 0)%nat eqn:E0.
      - apply Nat.eqb_eq in E0. subst f. unfold is_enabled. rewrite get_fs_same by exact Hr. reflexivity.
      - unfold is_enabled. rewrite get_fs_other by (right; apply Nat.eqb_neq in E0; congruence). reflexivity. }
    assert (ER : rc (set_fs s o f fs_turn_off) o' g = if (o' =? o)%nat && (g =? f)%nat then 0 else rc s o' g).
    { unfold rc. destruct (o' =? o)%nat eqn:Eo; [|cbn [andb]; rewrite get_fs_other by (left; apply Nat.eqb_neq; exact Eo); reflexivity].
      destruct (g =? f)%nat eqn:Eg; [|cbn [andb]; rewrite get_fs_other by (right; apply Nat.eqb_neq; exact Eg); reflexivity].
      apply Nat.eqb_eq in Eo. apply Nat.eqb_eq in Eg. subst. cbn [andb]. rewrite get_fs_same by exact Hr. reflexivity. }
    rewrite ES, ES0, EA, EP, ER. unfold termP at 1.
    destruct (f =? 0)%nat eqn:E0.
    - apply Nat.eqb_eq in E0. subst f. rewrite He.
      destruct (o' =? o)%nat eqn:Eo; destruct (g =? 0)%nat eqn:Eg; cbn [andb]; try lia.
      apply Nat.eqb_eq in Eo. apply Nat.eqb_eq in Eg. subst. lia.
    - destruct (is_enabled s o 0); destruct (o' =? o)%nat eqn:Eo; destruct (g =? f)%nat eqn:Eg; cbn [andb]; try lia;
        apply Nat.eqb_eq in Eo; apply Nat.eqb_eq in Eg; subst; lia.
  Qed.
End Need.
