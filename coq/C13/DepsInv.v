(* C13: the reference-count invariant of the dependency machinery and its preservation by the release family
   (disable, decr_ref_count, free_children_deps, deletion of a bias).
   need T s o g   = number of references the state accounts for on feature g of object o:
                    enabled features of o listing g in requires_self (with multiplicity)
                  + recorded alternate_refs of the features of o
                  + for every ACTIVE object p, (occurrences of o among p's children) x (enabled features of p listing g
                    in requires_children).
   excess T s o g = ref_count - need.   "Consistent" = excess >= 0 everywhere and a disabled feature has ref_count <= 0.
   Main result: a complete call of disable (successful or refused, with all its cascades) on a feature whose ref_count
   is not exactly 1 never lowers the excess of any (object, feature); decr_ref_count lowers it by at most one, at its
   target.  (disable() refuses ref_count > 1 only: called on a feature with exactly one reference it switches the
   feature off under its dependent -- finding disable-with-one-dependent.) *)
From Coq Require Import ZArith List Bool Arith Lia.
From CV Require Import C13.DepsModel C13.InvModel C13.DepsProofs C13.ModuleProofs.
Import ListNotations.
Open Scope Z_scope.

Lemma zcnt_nonneg x l : 0 <= zcnt x l.
Proof. unfold zcnt. lia. Qed.

Lemma zcnt_cons x y l : zcnt x (y :: l) = (if Nat.eq_dec y x then 1 else 0) + zcnt x l.
Proof. unfold zcnt. rewrite cnt_cons. destruct (Nat.eq_dec y x); lia. Qed.

Lemma zcnt_nil x : zcnt x [] = 0.
Proof. reflexivity. Qed.

Lemma zcnt_pos x l : In x l -> 1 <= zcnt x l.
Proof. intros H. apply cnt_In in H. unfold zcnt. lia. Qed.

Lemma zsum_ext l F G : (forall x, In x l -> F x = G x) -> zsum l F = zsum l G.
Proof.
  induction l as [|a l IH]; intros H; cbn [zsum]; [reflexivity|].
  rewrite (H a (or_introl eq_refl)), IH; [reflexivity|]. intros x Hx. apply H. right; exact Hx.
Qed.

Lemma zsum_nonneg l F : (forall x, In x l -> 0 <= F x) -> 0 <= zsum l F.
Proof.
  induction l as [|a l IH]; intros H; cbn [zsum]; [lia|].
  pose proof (H a (or_introl eq_refl)). assert (0 <= zsum l F) by (apply IH; intros x Hx; apply H; right; exact Hx). lia.
Qed.

Lemma zsum_ge_term l F k : In k l -> (forall x, In x l -> 0 <= F x) -> F k <= zsum l F.
Proof.
  induction l as [|a l IH]; intros Hk H; [contradiction|]. cbn [zsum].
  assert (0 <= zsum l F) by (apply zsum_nonneg; intros x Hx; apply H; right; exact Hx).
  pose proof (H a (or_introl eq_refl)).
  destruct Hk as [->|Hk]; [lia|]. assert (F k <= zsum l F) by (apply IH; [exact Hk | intros x Hx; apply H; right; exact Hx]). lia.
Qed.

Lemma zsum_upd l F G k : NoDup l -> (forall x, x <> k -> F x = G x) ->
  zsum l G = zsum l F + (if in_dec Nat.eq_dec k l then G k - F k else 0).
Proof.
  induction l as [|a l IH]; intros ND H; cbn [zsum]; [destruct (in_dec Nat.eq_dec k []); [contradiction | lia]|].
  inversion ND as [|? ? Hna ND']; subst. rewrite (IH ND' H).
  destruct (Nat.eq_dec a k) as [->|Hak].
  - destruct (in_dec Nat.eq_dec k l) as [Hin|_]; [contradiction|].
    destruct (in_dec Nat.eq_dec k (k :: l)) as [_|Hn]; [lia | exfalso; apply Hn; left; reflexivity].
  - rewrite (H a Hak). destruct (in_dec Nat.eq_dec k l) as [Hin|Hn]; destruct (in_dec Nat.eq_dec k (a :: l)) as [Hin'|Hn']; try lia.
    + exfalso. apply Hn'. right; exact Hin.
    + destruct Hin' as [E|Hin']; [congruence | contradiction].
Qed.

Lemma zsum_seq_upd n F G k : (forall x, x <> k -> F x = G x) ->
  zsum (seq 0 n) G = zsum (seq 0 n) F + (if (k <? n)%nat then G k - F k else 0).
Proof.
  intros H. rewrite (zsum_upd (seq 0 n) F G k (seq_NoDup n 0) H).
  destruct (in_dec Nat.eq_dec k (seq 0 n)) as [Hin|Hn]; destruct (k <? n)%nat eqn:E; try reflexivity.
  - apply in_seq in Hin. apply Nat.ltb_ge in E. lia.
  - exfalso. apply Hn. apply in_seq. apply Nat.ltb_lt in E. lia.
Qed.

(* ------------------------------------------------------------------------------------------ need / excess *)
Section Need.
  Variable T : tables.
  Notation termS := (InvModel.termS T).
  Notation termC := (InvModel.termC T).
  Notation need_self := (InvModel.need_self T).
  Notation wch := (InvModel.wch T).
  Notation termP := (InvModel.termP T).
  Notation need_par := (InvModel.need_par T).
  Notation need := (InvModel.need T).
  Notation excess := (InvModel.excess T).

  Lemma termS_nonneg s o g f : 0 <= termS s o g f.
  Proof. unfold termS. destruct (is_enabled s o f); [apply zcnt_nonneg | lia]. Qed.
  Lemma termA_nonneg s o g f : 0 <= termA s o g f.
  Proof. apply zcnt_nonneg. Qed.
  Lemma termC_nonneg s p g f : 0 <= termC s p g f.
  Proof. unfold termC. destruct (is_enabled s p f); [apply zcnt_nonneg | lia]. Qed.
  Lemma wch_nonneg s p g : 0 <= wch s p g.
  Proof. apply zsum_nonneg. intros; apply termC_nonneg. Qed.
  Lemma termP_nonneg s o g p : 0 <= termP s o g p.
  Proof. unfold termP. destruct (is_enabled s p 0); [|lia]. pose proof (zcnt_nonneg o (o_children (get_obj s p))). pose proof (wch_nonneg s p g). nia. Qed.

  (* ---- two states that agree on everything need looks at *)
  Definition same_need_view (s s' : state) : Prop :=
    length s' = length s /\
    forall o, cls_of s' o = cls_of s o /\ o_children (get_obj s' o) = o_children (get_obj s o) /\ nf s' o = nf s o /\
              forall f, is_enabled s' o f = is_enabled s o f /\ fs_alt (get_fs s' o f) = fs_alt (get_fs s o f).

  Lemma need_same_view s s' o g : same_need_view s s' -> need s' o g = need s o g.
  Proof.
    intros [L H]. unfold need, need_self, need_alt, need_par.
    assert (E1 : forall p f, termS s' p g f = termS s p g f).
    { intros p f. unfold termS. destruct (H p) as (A & _ & _ & D). destruct (D f) as (D1 & _). rewrite D1, A. reflexivity. }
    assert (E2 : forall p f, termA s' p g f = termA s p g f).
    { intros p f. unfold termA. destruct (H p) as (_ & _ & _ & D). destruct (D f) as (_ & D2). rewrite D2. reflexivity. }
    assert (E3 : forall p g' f, termC s' p g' f = termC s p g' f).
    { intros p g' f. unfold termC. destruct (H p) as (A & _ & _ & D). destruct (D f) as (D1 & _). rewrite D1, A. reflexivity. }
    assert (E4 : forall p g', wch s' p g' = wch s p g').
    { intros p g'. unfold wch. destruct (H p) as (_ & _ & N & _). rewrite N. apply zsum_ext. intros; apply E3. }
    assert (E5 : forall p, termP s' o g p = termP s o g p).
    { intros p. unfold termP. destruct (H p) as (_ & B & _ & D). destruct (D 0%nat) as (D1 & _). rewrite D1, B, E4. reflexivity. }
    destruct (H o) as (_ & _ & N & _). rewrite N, L.
    rewrite (zsum_ext _ _ _ (fun x _ => E1 o x)), (zsum_ext _ _ _ (fun x _ => E2 o x)), (zsum_ext _ _ _ (fun x _ => E5 x)). reflexivity.
  Qed.

  (* ---- the effect of one elementary write *)
  Lemma set_fs_length s o f u : length (set_fs s o f u) = length s.
  Proof. unfold set_fs, upd_obj. apply length_upd_nth. Qed.

  Lemma set_fs_cls s o f u o' : cls_of (set_fs s o f u) o' = cls_of s o'.
  Proof. unfold cls_of. rewrite get_obj_set_fs. destruct ((o' =? o)%nat && (o <? length s)%nat); reflexivity. Qed.

  Lemma set_fs_children s o f u o' : o_children (get_obj (set_fs s o f u) o') = o_children (get_obj s o').
  Proof. rewrite get_obj_set_fs. destruct ((o' =? o)%nat && (o <? length s)%nat); reflexivity. Qed.

  Lemma set_fs_nf s o f u o' : nf (set_fs s o f u) o' = nf s o'.
  Proof. unfold nf. rewrite get_obj_set_fs. destruct ((o' =? o)%nat && (o <? length s)%nat); [cbn [o_fs]; apply length_upd_nth | reflexivity]. Qed.

  Lemma nf_overflow s o : (length s <= o)%nat -> nf s o = 0%nat.
  Proof. intros H. unfold nf. rewrite get_obj_overflow by exact H. reflexivity. Qed.

  Lemma get_fs_other s o f u o' f' : (o' <> o \/ f' <> f) -> get_fs (set_fs s o f u) o' f' = get_fs s o' f'.
  Proof.
    intros H. rewrite get_fs_set_fs. destruct (o' =? o)%nat eqn:Eo; [|reflexivity]. destruct (f' =? f)%nat eqn:Ef; [|rewrite andb_false_r; reflexivity].
    apply Nat.eqb_eq in Eo. apply Nat.eqb_eq in Ef. destruct H; congruence.
  Qed.

  Lemma get_fs_same s o f u : (f <? nf s o)%nat = true -> get_fs (set_fs s o f u) o f = u (get_fs s o f).
  Proof.
    intros H. rewrite get_fs_set_fs. rewrite !Nat.eqb_refl. fold (nf s o). rewrite H. cbn [andb].
    destruct (o <? length s)%nat eqn:E; [reflexivity|]. apply Nat.ltb_ge in E. rewrite (nf_overflow _ _ E) in H. discriminate.
  Qed.

  Lemma get_fs_same_out s o f u : (f <? nf s o)%nat = false -> get_fs (set_fs s o f u) o f = get_fs s o f.
  Proof. intros H. rewrite get_fs_set_fs. fold (nf s o). rewrite H. rewrite !andb_false_r. reflexivity. Qed.

  Lemma enabled_in_range s o f : is_enabled s o f = true -> (f <? nf s o)%nat = true.
  Proof.
    intros H. destruct (f <? nf s o)%nat eqn:E; [reflexivity|]. apply Nat.ltb_ge in E.
    unfold is_enabled, get_fs in H. fold (nf s o) in E. rewrite (nth_overflow _ _ E) in H. discriminate.
  Qed.

  Lemma termS_other s o f u o' g f' : (o' <> o \/ f' <> f) -> termS (set_fs s o f u) o' g f' = termS s o' g f'.
  Proof. intros H. unfold termS, is_enabled. rewrite get_fs_other by exact H. rewrite set_fs_cls. reflexivity. Qed.

  Lemma termA_other s o f u o' g f' : (o' <> o \/ f' <> f) -> termA (set_fs s o f u) o' g f' = termA s o' g f'.
  Proof. intros H. unfold termA. rewrite get_fs_other by exact H. reflexivity. Qed.

  Lemma termC_other s o f u o' g f' : (o' <> o \/ f' <> f) -> termC (set_fs s o f u) o' g f' = termC s o' g f'.
  Proof. intros H. unfold termC, is_enabled. rewrite get_fs_other by exact H. rewrite set_fs_cls. reflexivity. Qed.

  Lemma need_self_set_fs s o f u o' g :
    need_self (set_fs s o f u) o' g = need_self s o' g +
      (if (o' =? o)%nat && (f <? nf s o)%nat then termS (set_fs s o f u) o g f - termS s o g f else 0).
  Proof.
    unfold need_self. rewrite set_fs_nf. destruct (o' =? o)%nat eqn:Eo; cbn [andb].
    - apply Nat.eqb_eq in Eo. subst o'. apply zsum_seq_upd. intros x Hx. symmetry. apply termS_other. right. exact Hx.
    - apply Nat.eqb_neq in Eo. rewrite Z.add_0_r. apply zsum_ext. intros x _. apply termS_other. left. exact Eo.
  Qed.

  Lemma need_alt_set_fs s o f u o' g :
    need_alt (set_fs s o f u) o' g = need_alt s o' g +
      (if (o' =? o)%nat && (f <? nf s o)%nat then termA (set_fs s o f u) o g f - termA s o g f else 0).
  Proof.
    unfold need_alt. rewrite set_fs_nf. destruct (o' =? o)%nat eqn:Eo; cbn [andb].
    - apply Nat.eqb_eq in Eo. subst o'. apply zsum_seq_upd. intros x Hx. symmetry. apply termA_other. right. exact Hx.
    - apply Nat.eqb_neq in Eo. rewrite Z.add_0_r. apply zsum_ext. intros x _. apply termA_other. left. exact Eo.
  Qed.

  Lemma wch_set_fs s o f u p g :
    wch (set_fs s o f u) p g = wch s p g +
      (if (p =? o)%nat && (f <? nf s o)%nat then termC (set_fs s o f u) o g f - termC s o g f else 0).
  Proof.
    unfold wch. rewrite set_fs_nf. destruct (p =? o)%nat eqn:Eo; cbn [andb].
    - apply Nat.eqb_eq in Eo. subst p. apply zsum_seq_upd. intros x Hx. symmetry. apply termC_other. right. exact Hx.
    - apply Nat.eqb_neq in Eo. rewrite Z.add_0_r. apply zsum_ext. intros x _. apply termC_other. left. exact Eo.
  Qed.

  Lemma termP_other s o f u o' g p : p <> o -> termP (set_fs s o f u) o' g p = termP s o' g p.
  Proof.
    intros H. unfold termP, is_enabled. rewrite get_fs_other by (left; exact H). rewrite set_fs_children, wch_set_fs.
    assert (E : (p =? o)%nat = false) by (apply Nat.eqb_neq; exact H). rewrite E. cbn [andb]. rewrite Z.add_0_r. reflexivity.
  Qed.

  Lemma need_par_set_fs s o f u o' g :
    need_par (set_fs s o f u) o' g = need_par s o' g +
      (if (o <? length s)%nat then termP (set_fs s o f u) o' g o - termP s o' g o else 0).
  Proof.
    unfold need_par. rewrite set_fs_length. apply zsum_seq_upd. intros x Hx. symmetry. apply termP_other. exact Hx.
  Qed.

  (* a write that keeps the enabled flag and the alternates *)
  Lemma need_set_fs_neutral s o f u o' g :
    (forall x, fs_enabled (u x) = fs_enabled x /\ fs_alt (u x) = fs_alt x) ->
    need (set_fs s o f u) o' g = need s o' g.
  Proof.
    intros Hu. apply need_same_view. split; [apply set_fs_length|]. intros p.
    split; [apply set_fs_cls|]. split; [apply set_fs_children|]. split; [apply set_fs_nf|].
    intros f'. unfold is_enabled. rewrite get_fs_set_fs. destruct (_ && _); [apply Hu | auto].
  Qed.

  Lemma excess_decr s o h o' g :
    excess (set_fs s o h fs_decr) o' g =
    excess s o' g - (if (o' =? o)%nat && (g =? h)%nat && (h <? nf s o)%nat then 1 else 0).
  Proof.
    unfold excess. rewrite need_set_fs_neutral by (intros x; split; reflexivity). unfold rc.
    destruct (o' =? o)%nat eqn:Eo; [|cbn [andb]; rewrite get_fs_other by (left; apply Nat.eqb_neq; exact Eo); lia].
    destruct (g =? h)%nat eqn:Eg; [|cbn [andb]; rewrite get_fs_other by (right; apply Nat.eqb_neq; exact Eg); lia].
    apply Nat.eqb_eq in Eo. apply Nat.eqb_eq in Eg. subst o' g. cbn [andb].
    destruct (h <? nf s o)%nat eqn:Eh.
    - rewrite get_fs_same by exact Eh. cbn [fs_decr fs_rc]. lia.
    - rewrite get_fs_same_out by exact Eh. lia.
  Qed.

  Lemma rc_set_fs_keep s o f u o' g : (forall x, fs_rc (u x) = fs_rc x) -> rc (set_fs s o f u) o' g = rc s o' g.
  Proof. intros Hu. unfold rc. rewrite get_fs_set_fs. destruct (_ && _); [apply Hu | reflexivity]. Qed.

  Lemma enabled_set_fs_keep s o f u o' g : (forall x, fs_enabled (u x) = fs_enabled x) -> is_enabled (set_fs s o f u) o' g = is_enabled s o' g.
  Proof. intros Hu. unfold is_enabled. rewrite get_fs_set_fs. destruct (_ && _); [apply Hu | reflexivity]. Qed.

  Lemma excess_clear_alt s o f o' g :
    excess (set_fs s o f fs_clear_alt) o' g =
    excess s o' g + (if (o' =? o)%nat then zcnt g (fs_alt (get_fs s o f)) else 0).
  Proof.
    unfold excess. rewrite rc_set_fs_keep by reflexivity. unfold need.
    rewrite need_self_set_fs, need_alt_set_fs, need_par_set_fs.
    assert (ES : termS (set_fs s o f fs_clear_alt) o g f = termS s o g f).
    { unfold termS. rewrite enabled_set_fs_keep by reflexivity. rewrite set_fs_cls. reflexivity. }
    assert (EP : termP (set_fs s o f fs_clear_alt) o' g o = termP s o' g o).
    { unfold termP. rewrite enabled_set_fs_keep by reflexivity. rewrite set_fs_children, wch_set_fs.
      unfold termC. rewrite enabled_set_fs_keep by reflexivity. rewrite set_fs_cls.
      destruct (_ && _); [rewrite Z.sub_diag|]; rewrite Z.add_0_r; reflexivity. }
    rewrite ES, EP. destruct (o' =? o)%nat eqn:Eo; cbn [andb].
    - destruct (f <? nf s o)%nat eqn:Ef.
      + unfold termA. rewrite get_fs_same by exact Ef. cbn [fs_clear_alt fs_alt]. rewrite zcnt_nil. destruct (o <? length s)%nat; lia.
      + assert (G : get_fs s o f = fs_default).
        { apply Nat.ltb_ge in Ef. unfold get_fs. apply nth_overflow. exact Ef. }
        rewrite G. cbn [fs_default fs_alt]. rewrite zcnt_nil. destruct (o <? length s)%nat; lia.
    - destruct (o <? length s)%nat; lia.
  Qed.

  Lemma excess_turn_off s o f o' g : is_enabled s o f = true ->
    excess (set_fs s o f fs_turn_off) o' g =
    excess s o' g
    + (if (o' =? o)%nat then zcnt g (f_self (feat T (cls_of s o) f)) else 0)
    + (if is_enabled s o 0 then zcnt o' (o_children (get_obj s o)) * (if (f =? 0)%nat then wch s o g else zcnt g (f_children (feat T (cls_of s o) f))) else 0)
    + (if (o' =? o)%nat && (g =? f)%nat then - rc s o f else 0).
  Proof.
    intros He. pose proof (enabled_in_range _ _ _ He) as Hr.
    assert (Lo : (o <? length s)%nat = true).
    { destruct (o <? length s)%nat eqn:E; [reflexivity|]. apply Nat.ltb_ge in E. rewrite (nf_overflow _ _ E) in Hr. discriminate. }
    unfold excess, need. rewrite need_self_set_fs, need_alt_set_fs, need_par_set_fs. rewrite Hr, Lo, !andb_true_r.
    assert (ES : termS (set_fs s o f fs_turn_off) o g f = 0).
    { unfold termS, is_enabled. rewrite get_fs_same by exact Hr. reflexivity. }
    assert (ES0 : termS s o g f = zcnt g (f_self (feat T (cls_of s o) f))).
    { unfold termS. rewrite He. reflexivity. }
    assert (EA : termA (set_fs s o f fs_turn_off) o g f = termA s o g f).
    { unfold termA. rewrite get_fs_same by exact Hr. reflexivity. }
    assert (EC : termC (set_fs s o f fs_turn_off) o g f = 0).
    { unfold termC, is_enabled. rewrite get_fs_same by exact Hr. reflexivity. }
    assert (EC0 : termC s o g f = zcnt g (f_children (feat T (cls_of s o) f))).
    { unfold termC. rewrite He. reflexivity. }
    assert (EW : wch (set_fs s o f fs_turn_off) o g = wch s o g - zcnt g (f_children (feat T (cls_of s o) f))).
    { rewrite wch_set_fs, Nat.eqb_refl, Hr. cbn [andb]. rewrite EC, EC0. lia. }
    assert (EP : termP (set_fs s o f fs_turn_off) o' g o =
                 if (f =? 0)%nat then 0 else
                 if is_enabled s o 0 then zcnt o' (o_children (get_obj s o)) * (wch s o g - zcnt g (f_children (feat T (cls_of s o) f))) else 0).
    { unfold termP. rewrite set_fs_children, EW. destruct (f =? 0)%nat eqn:E0.
      - apply Nat.eqb_eq in E0. subst f. unfold is_enabled. rewrite get_fs_same by exact Hr. reflexivity.
      - unfold is_enabled. rewrite get_fs_other by (right; apply Nat.eqb_neq in E0; congruence). reflexivity. }
    assert (ER : rc (set_fs s o f fs_turn_off) o' g = if (o' =? o)%nat && (g =? f)%nat then 0 else rc s o' g).
    { unfold rc. destruct (o' =? o)%nat eqn:Eo; [|cbn [andb]; rewrite get_fs_other by (left; apply Nat.eqb_neq; exact Eo); reflexivity].
      destruct (g =? f)%nat eqn:Eg; [|cbn [andb]; rewrite get_fs_other by (right; apply Nat.eqb_neq; exact Eg); reflexivity].
      apply Nat.eqb_eq in Eo. apply Nat.eqb_eq in Eg. subst. cbn [andb]. rewrite get_fs_same by exact Hr. reflexivity. }
    rewrite ES, ES0, EA, EP, ER. unfold termP at 1.
    destruct (f =? 0)%nat eqn:E0.
    - apply Nat.eqb_eq in E0. subst f. rewrite He.
      destruct (o' =? o)%nat eqn:Eo; destruct (g =? 0)%nat eqn:Eg; cbn [andb]; try lia.
      apply Nat.eqb_eq in Eo. apply Nat.eqb_eq in Eg. subst. lia.
    - destruct (is_enabled s o 0); destruct (o' =? o)%nat eqn:Eo; destruct (g =? f)%nat eqn:Eg; cbn [andb]; try lia;
        apply Nat.eqb_eq in Eo; apply Nat.eqb_eq in Eg; subst; lia.
  Qed.
End Need.

(* ------------------------------------------------------------------------------------------
   Frame 1: a feature that is enabled with ref_count <= 0 is not touched by any release call aimed elsewhere
   (decr_ref_count on it is refused, so no cascade can reach its disable). *)
Section Protected.
  Variable T : tables.
  Variables (o f : nat).

  Definition prem (s : state) : Prop := is_enabled s o f = true /\ rc s o f <= 0.
  Definition keeps (s s' : state) : Prop := prem s -> get_fs s' o f = get_fs s o f.

  Lemma keeps_refl s : keeps s s.
  Proof. intros _. reflexivity. Qed.

  Lemma prem_transport s s' : prem s -> get_fs s' o f = get_fs s o f -> prem s'.
  Proof. intros [A B] E. unfold prem, is_enabled, rc in *. rewrite E. auto. Qed.

  Lemma keeps_trans a b c : keeps a b -> keeps b c -> keeps a c.
  Proof. intros H1 H2 P. pose proof (H1 P) as E1. rewrite <- E1. apply H2. eapply prem_transport; eassumption. Qed.

  Lemma keeps_set_fs_other s o' h u : (o', h) <> (o, f) -> keeps s (set_fs s o' h u).
  Proof.
    intros N _. apply get_fs_other. destruct (Nat.eq_dec o o') as [->|]; [|left; congruence].
    right. intros ->. apply N. reflexivity.
  Qed.

  Definition dprot (D : dfun) : Prop :=
    forall o' h s r s', D o' h s = Some (r, s') -> (o', h) <> (o, f) -> keeps s s'.

  Lemma keeps_loop_all (call : nat -> state -> res) :
    (forall g s r s', call g s = Some (r, s') -> keeps s s') ->
    forall gs s s', loop_all call gs s = Some s' -> keeps s s'.
  Proof. apply (loop_all_rel keeps keeps_refl keeps_trans). Qed.

  Lemma keeps_decr_with D : dprot D -> forall o' h s r s', decr_with T D o' h s = Some (r, s') -> keeps s s'.
  Proof.
    intros HD o' h s r s' H P. unfold decr_with in H.
    destruct (fs_rc (get_fs s o' h) <=? 0) eqn:E; [inversion H; subst; reflexivity|].
    assert (N : (o', h) <> (o, f)).
    { intros Heq. inversion Heq; subst. destruct P as [_ P]. unfold rc in P. apply Z.leb_gt in E. lia. }
    pose proof (keeps_set_fs_other s o' h fs_decr N) as K1.
    destruct ((fs_rc (get_fs s o' h) - 1 =? 0) && is_dynamic (feat T (cls_of s o') h))%bool.
    - destruct (D o' h (set_fs s o' h fs_decr)) as [[b s2]|] eqn:E2; [|discriminate]. inversion H; subst.
      apply (keeps_trans _ _ _ K1 (HD _ _ _ _ _ E2 N)). exact P.
    - inversion H; subst. apply K1. exact P.
  Qed.

  Lemma keeps_decr_children D : dprot D -> forall cs gs s s', decr_children T D cs gs s = Some s' -> keeps s s'.
  Proof.
    intros HD cs gs s s'. unfold decr_children. apply keeps_loop_all. intros g s1 r s2 H.
    destruct (loop_all _ cs s1) as [s3|] eqn:E1; [|discriminate]. inversion H; subst.
    revert E1. apply keeps_loop_all. intros c s4 r' s5 H2. eapply keeps_decr_with; eassumption.
  Qed.

  Lemma keeps_free_with D : dprot D -> forall o' s s', free_with T D o' s = Some s' -> keeps s s'.
  Proof.
    intros HD o' s s'. unfold free_with. apply keeps_loop_all. intros fid s1 r s2 H.
    destruct (is_enabled s1 o' fid).
    - destruct (decr_children T D _ _ s1) as [s3|] eqn:E1; [|discriminate]. inversion H; subst.
      eapply keeps_decr_children; eassumption.
    - inversion H; subst. apply keeps_refl.
  Qed.

  Lemma disable_dprot n : dprot (disable T n).
  Proof.
    induction n as [|n IH]; intros o' h s r s' H N; cbn [disable] in H; [discriminate|].
    destruct (negb (fs_enabled (get_fs s o' h))); [inversion H; subst; apply keeps_refl|].
    destruct (1 <? fs_rc (get_fs s o' h)); [inversion H; subst; apply keeps_refl|].
    destruct (loop_all _ (f_self (feat T (cls_of s o') h)) s) as [s1|] eqn:E1; [|discriminate].
    assert (K1 : keeps s s1).
    { revert E1. apply keeps_loop_all. intros g s0 r0 s0' H0. eapply keeps_decr_with; eassumption. }
    destruct (loop_all _ (fs_alt (get_fs s1 o' h)) s1) as [s2|] eqn:E2; [|discriminate].
    assert (K2 : keeps s1 s2).
    { revert E2. apply keeps_loop_all. intros g s0 r0 s0' H0. eapply keeps_decr_with; eassumption. }
    set (s3 := set_fs s2 o' h fs_clear_alt) in *.
    assert (K3 : keeps s2 s3) by (apply keeps_set_fs_other; exact N).
    destruct (if is_enabled s3 o' 0 then decr_children T (disable T n) (o_children (get_obj s3 o')) (f_children (feat T (cls_of s o') h)) s3 else Some s3) as [s4|] eqn:E4; [|discriminate].
    assert (K4 : keeps s3 s4).
    { destruct (is_enabled s3 o' 0); [eapply keeps_decr_children; eassumption | inversion E4; subst; apply keeps_refl]. }
    assert (K5 : keeps s4 (set_fs s4 o' h fs_turn_off)) by (apply keeps_set_fs_other; exact N).
    assert (K05 : keeps s (set_fs s4 o' h fs_turn_off)).
    { eapply keeps_trans; [exact K1|]. eapply keeps_trans; [exact K2|]. eapply keeps_trans; [exact K3|]. eapply keeps_trans; eassumption. }
    destruct (h =? 0)%nat.
    - destruct (free_with T (disable T n) o' _) as [s6|] eqn:E6; [|discriminate]. inversion H; subst.
      eapply keeps_trans; [exact K05|]. eapply keeps_free_with; eassumption.
    - inversion H; subst. exact K05.
  Qed.
End Protected.

(* ------------------------------------------------------------------------------------------
   Frame 2: with a height that decreases from parent to child, a release call on object c changes only objects
   of height <= height(c); the decrements made in the children of p change only objects strictly below p. *)
Section Height.
  Variable T : tables.
  Variable ht : nat -> nat.
  Variable s0 : state.
  Hypothesis Hht : forall p c, In c (o_children (get_obj s0 p)) -> (ht c < ht p)%nat.

  (* objects of height >= k are untouched (and the shape is kept) *)
  Definition below (k : nat) (s s' : state) : Prop :=
    same_shape s0 s -> same_shape s0 s' /\ forall x, (k <= ht x)%nat -> get_obj s' x = get_obj s x.

  Lemma below_refl k s : below k s s.
  Proof. intros S. split; [exact S | reflexivity]. Qed.

  Lemma below_trans k a b c : below k a b -> below k b c -> below k a c.
  Proof.
    intros H1 H2 S. destruct (H1 S) as (S1 & E1). destruct (H2 S1) as (S2 & E2). split; [exact S2|].
    intros x Hx. rewrite E2, E1; auto.
  Qed.

  Lemma below_mono k k' s s' : (k <= k')%nat -> below k s s' -> below k' s s'.
  Proof. intros L H S. destruct (H S) as (S1 & E1). split; [exact S1|]. intros x Hx. apply E1. lia. Qed.

  Lemma below_set_fs s c h u : (forall x, fs_avail (u x) = fs_avail x) -> below (S (ht c)) s (set_fs s c h u).
  Proof.
    intros Hu S. split; [eapply same_shape_trans; [exact S | apply set_fs_shape; exact Hu]|].
    intros x Hx. rewrite get_obj_set_fs. destruct (x =? c)%nat eqn:E; [|reflexivity].
    apply Nat.eqb_eq in E. subst x. lia.
  Qed.

  Definition dbelow (D : dfun) : Prop := forall c h s r s', D c h s = Some (r, s') -> below (S (ht c)) s s'.

  Lemma below_loop_all k (call : nat -> state -> res) :
    (forall g s r s', call g s = Some (r, s') -> below k s s') ->
    forall gs s s', loop_all call gs s = Some s' -> below k s s'.
  Proof. apply (loop_all_rel (below k) (below_refl k) (below_trans k)). Qed.

  Lemma below_decr_with D : dbelow D -> forall c h s r s', decr_with T D c h s = Some (r, s') -> below (S (ht c)) s s'.
  Proof.
    intros HD c h s r s' H. unfold decr_with in H.
    destruct (fs_rc (get_fs s c h) <=? 0); [inversion H; subst; apply below_refl|].
    pose proof (below_set_fs s c h fs_decr (fun x => eq_refl)) as K1.
    destruct ((fs_rc (get_fs s c h) - 1 =? 0) && is_dynamic (feat T (cls_of s c) h))%bool.
    - destruct (D c h (set_fs s c h fs_decr)) as [[b s2]|] eqn:E2; [|discriminate]. inversion H; subst.
      eapply below_trans; [exact K1 | eapply HD; exact E2].
    - inversion H; subst. exact K1.
  Qed.

  Lemma below_decr_list D k g : dbelow D -> forall cs, (forall c, In c cs -> (ht c < k)%nat) ->
    forall a b, loop_all (fun c s' => decr_with T D c g s') cs a = Some b -> below k a b.
  Proof.
    intros HD. induction cs as [|c cs IH]; intros Hcs a b Hl; cbn [loop_all] in Hl; [inversion Hl; subst; apply below_refl|].
    destruct (decr_with T D c g a) as [[rr a1]|] eqn:Ed; [|discriminate].
    eapply below_trans.
    - eapply below_mono; [|eapply below_decr_with; [exact HD | exact Ed]]. pose proof (Hcs c (or_introl eq_refl)). lia.
    - apply IH; [intros c' Hc'; apply Hcs; right; exact Hc' | exact Hl].
  Qed.

  Lemma below_decr_children D k : dbelow D -> forall cs gs, (forall c, In c cs -> (ht c < k)%nat) ->
    forall s s', decr_children T D cs gs s = Some s' -> below k s s'.
  Proof.
    intros HD cs gs Hcs s s'. unfold decr_children. apply below_loop_all. intros g s1 r s2 H1.
    destruct (loop_all _ cs s1) as [s3|] eqn:E1; [|discriminate]. inversion H1; subst.
    eapply below_decr_list; eassumption.
  Qed.

  Lemma shaped_children_lt s p c : same_shape s0 s -> In c (o_children (get_obj s p)) -> (ht c < ht p)%nat.
  Proof. intros [_ S] H. apply Hht. destruct (S p) as (_ & A & _). rewrite <- A. exact H. Qed.

  Lemma below_free_with D p : dbelow D -> forall s s', free_with T D p s = Some s' -> below (ht p) s s'.
  Proof.
    intros HD s s'. unfold free_with. apply below_loop_all. intros fid s1 r s2 H S.
    destruct (is_enabled s1 p fid).
    - destruct (decr_children T D _ _ s1) as [s3|] eqn:E1; [|discriminate]. inversion H; subst.
      eapply (below_decr_children D (ht p) HD); [|exact E1|exact S]. intros c Hc. eapply shaped_children_lt; eassumption.
    - inversion H; subst. apply below_refl. exact S.
  Qed.

  Lemma disable_dbelow n : dbelow (disable T n).
  Proof.
    induction n as [|n IH]; intros c h s r s' H; cbn [disable] in H; [discriminate|].
    destruct (negb (fs_enabled (get_fs s c h))); [inversion H; subst; apply below_refl|].
    destruct (1 <? fs_rc (get_fs s c h)); [inversion H; subst; apply below_refl|].
    destruct (loop_all _ (f_self (feat T (cls_of s c) h)) s) as [s1|] eqn:E1; [|discriminate].
    assert (K1 : below (S (ht c)) s s1).
    { revert E1. apply below_loop_all. intros g a r0 b H0. eapply below_decr_with; eassumption. }
    destruct (loop_all _ (fs_alt (get_fs s1 c h)) s1) as [s2|] eqn:E2; [|discriminate].
    assert (K2 : below (S (ht c)) s1 s2).
    { revert E2. apply below_loop_all. intros g a r0 b H0. eapply below_decr_with; eassumption. }
    set (s3 := set_fs s2 c h fs_clear_alt) in *.
    assert (K3 : below (S (ht c)) s2 s3) by (apply below_set_fs; intros x; reflexivity).
    destruct (if is_enabled s3 c 0 then decr_children T (disable T n) (o_children (get_obj s3 c)) (f_children (feat T (cls_of s c) h)) s3 else Some s3) as [s4|] eqn:E4; [|discriminate].
    assert (K4 : below (S (ht c)) s3 s4).
    { destruct (is_enabled s3 c 0); [|inversion E4; subst; apply below_refl].
      intros S. eapply (below_mono (ht c)); [lia| |exact S].
      eapply (below_decr_children (disable T n) (ht c) IH); [|exact E4]. intros x Hx. eapply shaped_children_lt; eassumption. }
    assert (K5 : below (S (ht c)) s4 (set_fs s4 c h fs_turn_off)) by (apply below_set_fs; intros x; reflexivity).
    assert (K05 : below (S (ht c)) s (set_fs s4 c h fs_turn_off)).
    { eapply below_trans; [exact K1|]. eapply below_trans; [exact K2|]. eapply below_trans; [exact K3|]. eapply below_trans; eassumption. }
    destruct (h =? 0)%nat.
    - destruct (free_with T (disable T n) c _) as [s6|] eqn:E6; [|discriminate]. inversion H; subst.
      eapply below_trans; [exact K05|]. eapply (below_mono (ht c)); [lia|]. eapply below_free_with; [exact IH | exact E6].
    - inversion H; subst. exact K05.
  Qed.
End Height.

(* ------------------------------------------------------------------------------------------
   Main result: the excess never goes down across a complete disable. *)
Section Monotone.
  Variable T : tables.
  Variable ht : nat -> nat.
  Variable s0 : state.
  Hypothesis Hht : forall p c, In c (o_children (get_obj s0 p)) -> (ht c < ht p)%nat.

  Notation shaped := (same_shape s0).
  Notation exc := (excess T).

  Definition dshape (D : dfun) : Prop := forall o f s r s', D o f s = Some (r, s') -> same_shape s s'.
  (* side condition of the code as it is: disable() refuses ref_count > 1 only, so the call must not be made on a
     feature that holds exactly one reference (the automatic disable of decr_ref_count is made at ref_count 0) *)
  Definition dmono (D : dfun) : Prop :=
    forall o f s r s', D o f s = Some (r, s') -> shaped s -> rc s o f <> 1 -> forall o' g, exc s o' g <= exc s' o' g.

  Lemma disable_dshape n : dshape (disable T n).
  Proof.
    intros o f s r s' H. eapply (disable_rel T same_shape same_shape_refl same_shape_trans); try exact H;
      intros; apply set_fs_shape; intros x; reflexivity.
  Qed.

  Section WithD.
    Variable D : dfun.
    Hypothesis Dshape : dshape D.
    Hypothesis Dmono : dmono D.
    Hypothesis Dbelow : dbelow ht s0 D.

    Lemma shape_decr_with o h s r s' : decr_with T D o h s = Some (r, s') -> same_shape s s'.
    Proof.
      apply (decr_with_rel T same_shape same_shape_refl same_shape_trans); [intros; apply set_fs_shape; intros x; reflexivity | exact Dshape].
    Qed.

    Lemma shape_decr_children cs gs s s' : decr_children T D cs gs s = Some s' -> same_shape s s'.
    Proof.
      apply (decr_children_rel T same_shape same_shape_refl same_shape_trans); [intros; apply set_fs_shape; intros x; reflexivity | exact Dshape].
    Qed.

    Lemma mono_decr_with o h s r s' : decr_with T D o h s = Some (r, s') -> shaped s ->
      forall o' g, exc s o' g - (if (o' =? o)%nat && (g =? h)%nat then 1 else 0) <= exc s' o' g.
    Proof.
      intros H S o' g. unfold decr_with in H.
      destruct (fs_rc (get_fs s o h) <=? 0) eqn:Epos; [inversion H; subst; destruct (_ && _); lia|].
      assert (E1 : exc s o' g - (if (o' =? o)%nat && (g =? h)%nat then 1 else 0) <= exc (set_fs s o h fs_decr) o' g).
      { rewrite excess_decr. destruct ((o' =? o)%nat && (g =? h)%nat); destruct (h <? nf s o)%nat; cbn [andb]; lia. }
      destruct ((fs_rc (get_fs s o h) - 1 =? 0) && is_dynamic (feat T (cls_of s o) h))%bool eqn:Ez.
      - destruct (D o h (set_fs s o h fs_decr)) as [[b s2]|] eqn:E2; [|discriminate]. inversion H; subst.
        assert (S1 : shaped (set_fs s o h fs_decr)) by (eapply same_shape_trans; [exact S | apply set_fs_shape; intros x; reflexivity]).
        assert (R1 : rc (set_fs s o h fs_decr) o h <> 1).
        { apply andb_true_iff in Ez. destruct Ez as [Ez _]. apply Z.eqb_eq in Ez. apply Z.leb_gt in Epos.
          assert (Rg : (h <? nf s o)%nat = true).
          { destruct (h <? nf s o)%nat eqn:Eh; [reflexivity|]. apply Nat.ltb_ge in Eh. unfold get_fs in Epos. fold (nf s o) in Eh.
            rewrite (nth_overflow _ _ Eh) in Epos. cbn in Epos. lia. }
          unfold rc. rewrite get_fs_same by exact Rg. cbn [fs_decr fs_rc]. lia. }
        pose proof (Dmono _ _ _ _ _ E2 S1 R1 o' g). lia.
      - inversion H; subst. exact E1.
    Qed.

    (* a list of decrements on features of one object *)
    Lemma mono_decr_feats o : forall L s s', loop_all (fun g st => decr_with T D o g st) L s = Some s' -> shaped s ->
      shaped s' /\ forall o' g, exc s o' g - (if (o' =? o)%nat then zcnt g L else 0) <= exc s' o' g.
    Proof.
      induction L as [|h L IH]; intros s s' H S; cbn [loop_all] in H.
      - inversion H; subst. split; [exact S|]. intros o' g. rewrite zcnt_nil. destruct (o' =? o)%nat; lia.
      - destruct (decr_with T D o h s) as [[r s1]|] eqn:E; [|discriminate].
        assert (S1 : shaped s1) by (eapply same_shape_trans; [exact S | eapply shape_decr_with; exact E]).
        destruct (IH s1 s' H S1) as (S' & M). split; [exact S'|]. intros o' g.
        pose proof (mono_decr_with _ _ _ _ _ E S o' g) as M1. specialize (M o' g). rewrite zcnt_cons.
        destruct (o' =? o)%nat; cbn [andb] in *; [|lia].
        destruct (g =? h)%nat eqn:Eg; destruct (Nat.eq_dec h g) as [Heq|Hne];
          try (apply Nat.eqb_eq in Eg; congruence); try (apply Nat.eqb_neq in Eg; congruence); lia.
    Qed.

    (* one feature g0 decremented in a list of objects *)
    Lemma mono_decr_objs g0 : forall cs s s', loop_all (fun c st => decr_with T D c g0 st) cs s = Some s' -> shaped s ->
      shaped s' /\ forall o' g, exc s o' g - (if (g =? g0)%nat then zcnt o' cs else 0) <= exc s' o' g.
    Proof.
      induction cs as [|c cs IH]; intros s s' H S; cbn [loop_all] in H.
      - inversion H; subst. split; [exact S|]. intros o' g. rewrite zcnt_nil. destruct (g =? g0)%nat; lia.
      - destruct (decr_with T D c g0 s) as [[r s1]|] eqn:E; [|discriminate].
        assert (S1 : shaped s1) by (eapply same_shape_trans; [exact S | eapply shape_decr_with; exact E]).
        destruct (IH s1 s' H S1) as (S' & M). split; [exact S'|]. intros o' g.
        pose proof (mono_decr_with _ _ _ _ _ E S o' g) as M1. specialize (M o' g). rewrite zcnt_cons.
        destruct (g =? g0)%nat; rewrite ?andb_false_r, ?andb_true_r in *; [|lia].
        destruct (o' =? c)%nat eqn:Eo; destruct (Nat.eq_dec c o') as [Heq|Hne];
          try (apply Nat.eqb_eq in Eo; congruence); try (apply Nat.eqb_neq in Eo; congruence); lia.
    Qed.

    Lemma mono_decr_children cs : forall gs s s', decr_children T D cs gs s = Some s' -> shaped s ->
      shaped s' /\ forall o' g, exc s o' g - zcnt o' cs * zcnt g gs <= exc s' o' g.
    Proof.
      unfold decr_children. induction gs as [|g0 gs IH]; intros s s' H S; cbn [loop_all] in H.
      - inversion H; subst. split; [exact S|]. intros o' g. rewrite zcnt_nil. lia.
      - destruct (loop_all (fun c s'0 => decr_with T D c g0 s'0) cs s) as [s1|] eqn:E; [|discriminate].
        destruct (mono_decr_objs g0 cs s s1 E S) as (S1 & M1).
        destruct (IH s1 s' H S1) as (S' & M). split; [exact S'|]. intros o' g.
        specialize (M1 o' g). specialize (M o' g). rewrite zcnt_cons.
        pose proof (zcnt_nonneg o' cs).
        destruct (g =? g0)%nat eqn:Eg; destruct (Nat.eq_dec g0 g) as [Heq|Hne];
          try (apply Nat.eqb_eq in Eg; congruence); try (apply Nat.eqb_neq in Eg; congruence); nia.
    Qed.

    (* free_children_deps of o: at most (occurrences among o's children) x (what o's enabled features require) *)
    Lemma mono_free_list o s : forall fl a b,
      loop_all (fun fid st1 =>
        if is_enabled st1 o fid then
          match decr_children T D (o_children (get_obj st1 o)) (f_children (feat T (cls_of st1 o) fid)) st1 with
          | None => None | Some s => Some (true, s) end
        else Some (true, st1)) fl a = Some b ->
      shaped a -> get_obj a o = get_obj s o ->
      shaped b /\ get_obj b o = get_obj s o /\
      forall o' g, exc a o' g - zcnt o' (o_children (get_obj s o)) * zsum fl (termC T s o g) <= exc b o' g.
    Proof.
      induction fl as [|fid fl IH]; intros a b H S Eo; cbn [loop_all] in H.
      - inversion H; subst. split; [exact S|]. split; [exact Eo|]. intros o' g. cbn [zsum]. lia.
      - assert (Een : is_enabled a o fid = is_enabled s o fid) by (unfold is_enabled, get_fs; rewrite Eo; reflexivity).
        assert (Ecl : cls_of a o = cls_of s o) by (unfold cls_of; rewrite Eo; reflexivity).
        rewrite Een, Ecl, Eo in H. cbn [zsum]. unfold termC at 1.
        destruct (is_enabled s o fid).
        + destruct (decr_children T D (o_children (get_obj s o)) (f_children (feat T (cls_of s o) fid)) a) as [a1|] eqn:E1; [|discriminate].
          destruct (mono_decr_children _ _ _ _ E1 S) as (S1 & M1).
          assert (Eo1 : get_obj a1 o = get_obj s o).
          { rewrite <- Eo.
            assert (Bl : below ht s0 (ht o) a a1).
            { eapply (below_decr_children T ht s0 D (ht o) Dbelow); [|exact E1]. intros c Hc.
              apply Hht. destruct S as [_ S]. destruct (S o) as (_ & A & _). rewrite <- A, Eo. exact Hc. }
            destruct (Bl S) as (_ & Bl2). apply Bl2. lia. }
          destruct (IH a1 b H S1 Eo1) as (S' & Eo' & M). split; [exact S'|]. split; [exact Eo'|].
          intros o' g. specialize (M1 o' g). specialize (M o' g). nia.
        + destruct (IH a b H S Eo) as (S' & Eo' & M). split; [exact S'|]. split; [exact Eo'|].
          intros o' g. specialize (M o' g). lia.
    Qed.

    Lemma mono_free_with o s s' : free_with T D o s = Some s' -> shaped s ->
      shaped s' /\ get_obj s' o = get_obj s o /\
      forall o' g, exc s o' g - zcnt o' (o_children (get_obj s o)) * wch T s o g <= exc s' o' g.
    Proof.
      intros H S. unfold free_with in H. apply (mono_free_list o s _ s s' H S eq_refl).
    Qed.
  End WithD.

  Lemma shaped_cls s s' o : shaped s -> shaped s' -> cls_of s' o = cls_of s o.
  Proof. intros [_ A] [_ B]. destruct (A o) as (A1 & _). destruct (B o) as (B1 & _). unfold cls_of. congruence. Qed.

  Lemma wch_ge_term s o g f : (f <? nf s o)%nat = true -> termC T s o g f <= wch T s o g.
  Proof.
    intros H. unfold wch. apply zsum_ge_term; [apply in_seq; apply Nat.ltb_lt in H; lia | intros; apply termC_nonneg].
  Qed.

  Lemma disable_dmono n : dmono (disable T n).
  Proof.
    induction n as [|n IH]; intros o f s r s' H S Hne o' g; cbn [disable] in H; [discriminate|].
    destruct (negb (fs_enabled (get_fs s o f))) eqn:En; [inversion H; subst; lia|].
    destruct (1 <? fs_rc (get_fs s o f)) eqn:Erc; [inversion H; subst; lia|].
    apply negb_false_iff in En. apply Z.ltb_ge in Erc.
    assert (P0 : prem o f s) by (split; [exact En | unfold rc in *; lia]).
    pose proof (disable_dshape n) as Dsh. pose proof (disable_dbelow T ht s0 Hht n) as Dbe.
    pose proof (disable_dprot T o f n) as Dpr.
    set (L1 := f_self (feat T (cls_of s o) f)) in *. set (L3 := f_children (feat T (cls_of s o) f)) in *.
    (* requires_self *)
    destruct (loop_all _ L1 s) as [s1|] eqn:E1; [|discriminate].
    destruct (mono_decr_feats (disable T n) Dsh IH o L1 s s1 E1 S) as (S1 & M1).
    assert (K1 : get_fs s1 o f = get_fs s o f).
    { eapply (keeps_loop_all o f); [|exact E1|exact P0]. intros g0 a r0 b H0. eapply (keeps_decr_with T o f); [exact Dpr | exact H0]. }
    assert (P1 : prem o f s1) by (eapply prem_transport; eassumption).
    (* alternates *)
    destruct (loop_all _ (fs_alt (get_fs s1 o f)) s1) as [s2|] eqn:E2; [|discriminate].
    destruct (mono_decr_feats (disable T n) Dsh IH o _ s1 s2 E2 S1) as (S2 & M2).
    assert (K2 : get_fs s2 o f = get_fs s1 o f).
    { eapply (keeps_loop_all o f); [|exact E2|exact P1]. intros g0 a r0 b H0. eapply (keeps_decr_with T o f); [exact Dpr | exact H0]. }
    assert (P2 : prem o f s2) by (eapply prem_transport; eassumption).
    set (s3 := set_fs s2 o f fs_clear_alt) in *.
    assert (S3 : shaped s3) by (eapply same_shape_trans; [exact S2 | apply set_fs_shape; intros x; reflexivity]).
    assert (R2 : (f <? nf s2 o)%nat = true) by (apply enabled_in_range; apply P2).
    assert (G3 : get_fs s3 o f = fs_clear_alt (get_fs s2 o f)) by (apply get_fs_same; exact R2).
    assert (M3 : exc s o' g - (if (o' =? o)%nat then zcnt g L1 else 0) <= exc s3 o' g).
    { unfold s3. rewrite excess_clear_alt. rewrite K2. specialize (M1 o' g). specialize (M2 o' g). destruct (o' =? o)%nat; lia. }
    assert (He3 : is_enabled s3 o f = true) by (unfold is_enabled; rewrite G3; cbn [fs_clear_alt fs_enabled]; apply P2).
    assert (Hrc3 : rc s3 o f <= 0) by (unfold rc; rewrite G3; cbn [fs_clear_alt fs_rc]; apply P2).
    (* children *)
    destruct (if is_enabled s3 o 0 then decr_children T (disable T n) (o_children (get_obj s3 o)) L3 s3 else Some s3) as [s4|] eqn:E4; [|discriminate].
    assert (Q4 : shaped s4 /\ get_obj s4 o = get_obj s3 o /\
                 exc s3 o' g - (if is_enabled s3 o 0 then zcnt o' (o_children (get_obj s3 o)) * zcnt g L3 else 0) <= exc s4 o' g).
    { destruct (is_enabled s3 o 0).
      - destruct (mono_decr_children (disable T n) Dsh IH _ _ _ _ E4 S3) as (S4 & M4). split; [exact S4|]. split; [|apply M4].
        assert (Bl : below ht s0 (ht o) s3 s4).
        { eapply (below_decr_children T ht s0 (disable T n) (ht o) Dbe); [|exact E4]. intros c Hc.
          apply Hht. destruct S3 as [_ S3']. destruct (S3' o) as (_ & A & _). rewrite <- A. exact Hc. }
        destruct (Bl S3) as (_ & Bl2). apply Bl2. lia.
      - inversion E4; subst. split; [exact S3|]. split; [reflexivity | lia]. }
    destruct Q4 as (S4 & Eo4 & M4).
    assert (He4 : is_enabled s4 o f = true) by (unfold is_enabled, get_fs; rewrite Eo4; exact He3).
    assert (Hrc4 : rc s4 o f <= 0) by (unfold rc, get_fs; rewrite Eo4; exact Hrc3).
    assert (Hen4 : is_enabled s4 o 0 = is_enabled s3 o 0) by (unfold is_enabled, get_fs; rewrite Eo4; reflexivity).
    assert (Hcl4 : cls_of s4 o = cls_of s o) by (apply shaped_cls; assumption).
    set (s5 := set_fs s4 o f fs_turn_off) in *.
    assert (S5 : shaped s5) by (eapply same_shape_trans; [exact S4 | apply set_fs_shape; intros x; reflexivity]).
    pose proof (excess_turn_off T s4 o f o' g He4) as M5. fold s5 in M5. rewrite Hcl4, Hen4, Eo4 in M5. fold L1 L3 in M5.
    destruct (f =? 0)%nat eqn:E0.
    - apply Nat.eqb_eq in E0. subst f. rewrite He3 in *.
      destruct (free_with T (disable T n) o s5) as [s6|] eqn:E6; [|discriminate]. inversion H; subst. clear H.
      destruct (mono_free_with (disable T n) Dsh IH Dbe o s5 s' E6 S5) as (_ & _ & M6). specialize (M6 o' g).
      assert (C5 : o_children (get_obj s5 o) = o_children (get_obj s3 o)).
      { unfold s5. rewrite set_fs_children. rewrite Eo4. reflexivity. }
      assert (W5 : wch T s5 o g = wch T s4 o g - zcnt g L3).
      { unfold s5. rewrite wch_set_fs. rewrite Nat.eqb_refl. rewrite (enabled_in_range _ _ _ He4). cbn [andb].
        unfold termC. unfold is_enabled at 1. rewrite get_fs_same by (apply enabled_in_range; exact He4). cbn [fs_turn_off fs_enabled].
        rewrite He4, Hcl4. fold L3. lia. }
      rewrite C5, W5 in M6.
      pose proof (zcnt_nonneg o' (o_children (get_obj s3 o))) as Hz.
      destruct (o' =? o)%nat eqn:Eo'; destruct (g =? 0)%nat eqn:Eg; cbn [andb] in M5; nia.
    - inversion H; subst. clear H.
      pose proof (zcnt_nonneg o' (o_children (get_obj s3 o))) as Hz. pose proof (zcnt_nonneg g L3) as Hz3.
      destruct (is_enabled s3 o 0); destruct (o' =? o)%nat eqn:Eo'; destruct (g =? f)%nat eqn:Eg; cbn [andb] in M5; nia.
  Qed.
End Monotone.

(* ------------------------------------------------------------------------------------------
   Consistency and what it gives. *)
Section Consistency.
  Variable T : tables.

  Definition counted (s : state) : Prop := forall o g, 0 <= excess T s o g.
  Definition off_unreferenced (s : state) : Prop := forall o g, is_enabled s o g = false -> rc s o g <= 0.
  Definition consistent (s : state) : Prop := counted s /\ off_unreferenced s.

  Lemma need_self_nonneg s o g : 0 <= need_self T s o g.
  Proof. apply zsum_nonneg. intros; apply termS_nonneg. Qed.
  Lemma need_alt_nonneg s o g : 0 <= need_alt s o g.
  Proof. apply zsum_nonneg. intros; apply termA_nonneg. Qed.
  Lemma need_par_nonneg s o g : 0 <= need_par T s o g.
  Proof. apply zsum_nonneg. intros; apply termP_nonneg. Qed.

  Lemma referenced_enabled s o g : consistent s -> 1 <= need T s o g -> is_enabled s o g = true.
  Proof.
    intros [C U] H. destruct (is_enabled s o g) eqn:E; [reflexivity|].
    pose proof (U o g E). pose proof (C o g). unfold excess in *. lia.
  Qed.

  (* each enabled capability has its prerequisites enabled: requires_self *)
  Lemma consistent_requires_self s o f g : consistent s ->
    is_enabled s o f = true -> In g (f_self (feat T (cls_of s o) f)) -> is_enabled s o g = true.
  Proof.
    intros C He Hin. apply (referenced_enabled s o g C).
    pose proof (need_alt_nonneg s o g). pose proof (need_par_nonneg s o g).
    assert (1 <= need_self T s o g).
    { unfold need_self. eapply Z.le_trans; [|apply (zsum_ge_term _ _ f)].
      - unfold termS. rewrite He. apply zcnt_pos. exact Hin.
      - apply in_seq. pose proof (enabled_in_range _ _ _ He) as R. apply Nat.ltb_lt in R. lia.
      - intros; apply termS_nonneg. }
    unfold need. lia.
  Qed.

  (* the alternative that was chosen for a requires_alt entry is enabled *)
  Lemma consistent_alternates s o f g : consistent s -> In g (fs_alt (get_fs s o f)) -> is_enabled s o g = true.
  Proof.
    intros C Hin. apply (referenced_enabled s o g C).
    pose proof (need_self_nonneg s o g). pose proof (need_par_nonneg s o g).
    assert (R : (f < nf s o)%nat).
    { destruct (Nat.lt_ge_cases f (nf s o)) as [L|L]; [exact L|]. unfold get_fs in Hin. fold (nf s o) in L.
      rewrite (nth_overflow _ _ L) in Hin. contradiction. }
    assert (1 <= need_alt s o g).
    { unfold need_alt. eapply Z.le_trans; [|apply (zsum_ge_term _ _ f)].
      - unfold termA. apply zcnt_pos. exact Hin.
      - apply in_seq. lia.
      - intros; apply termA_nonneg. }
    unfold need. lia.
  Qed.

  (* what an enabled feature of an ACTIVE object requires of its children is enabled in every child *)
  Lemma consistent_requires_children s p f g c : consistent s ->
    is_enabled s p 0 = true -> is_enabled s p f = true -> In g (f_children (feat T (cls_of s p) f)) ->
    In c (o_children (get_obj s p)) -> is_enabled s c g = true.
  Proof.
    intros C Ha He Hg Hc. apply (referenced_enabled s c g C).
    pose proof (need_self_nonneg s c g). pose proof (need_alt_nonneg s c g).
    assert (Lp : (p < length s)%nat).
    { destruct (Nat.lt_ge_cases p (length s)) as [L|L]; [exact L|].
      pose proof (enabled_in_range _ _ _ Ha) as R. rewrite (nf_overflow _ _ L) in R. discriminate. }
    assert (1 <= wch T s p g).
    { eapply Z.le_trans; [|apply (wch_ge_term T s p g f (enabled_in_range _ _ _ He))].
      unfold termC. rewrite He. apply zcnt_pos. exact Hg. }
    assert (1 <= need_par T s c g).
    { unfold need_par. eapply Z.le_trans; [|apply (zsum_ge_term _ _ p)].
      - unfold termP. rewrite Ha. pose proof (zcnt_pos c _ Hc). nia.
      - apply in_seq. lia.
      - intros; apply termP_nonneg. }
    unfold need. lia.
  Qed.

  (* ---- preservation *)
  Lemma off_unreferenced_disable n o f s r s' : disable T n o f s = Some (r, s') -> off_unreferenced s -> off_unreferenced s'.
  Proof.
    intros H. apply (disable_rel T (fun a b => off_unreferenced a -> off_unreferenced b)) with (n := n) (o := o) (f := f) (r := r); auto.
    - intros a o1 f1 U o2 g2 E. unfold off_unreferenced, rc, is_enabled in *. rewrite get_fs_set_fs in *.
      destruct (_ && _); [cbn [fs_decr fs_enabled fs_rc] in *; pose proof (U o2 g2 E); lia | apply U; exact E].
    - intros a o1 f1 U o2 g2 E. unfold off_unreferenced, rc, is_enabled in *. rewrite get_fs_set_fs in *.
      destruct (_ && _); [cbn [fs_clear_alt fs_enabled fs_rc] in *; apply U; exact E | apply U; exact E].
    - intros a o1 f1 U o2 g2 E. unfold off_unreferenced, rc, is_enabled in *. rewrite get_fs_set_fs in *.
      destruct (_ && _); [cbn [fs_turn_off fs_rc]; lia | apply U; exact E].
  Qed.

  Lemma off_unreferenced_free n o s s' : free_children_deps T n o s = Some s' -> off_unreferenced s -> off_unreferenced s'.
  Proof.
    intros H. apply (free_children_deps_rel T (fun a b => off_unreferenced a -> off_unreferenced b)) with (n := n) (o := o); auto.
    - intros a o1 f1 U o2 g2 E. unfold off_unreferenced, rc, is_enabled in *. rewrite get_fs_set_fs in *.
      destruct (_ && _); [cbn [fs_decr fs_enabled fs_rc] in *; pose proof (U o2 g2 E); lia | apply U; exact E].
    - intros a o1 f1 U o2 g2 E. unfold off_unreferenced, rc, is_enabled in *. rewrite get_fs_set_fs in *.
      destruct (_ && _); [cbn [fs_clear_alt fs_enabled fs_rc] in *; apply U; exact E | apply U; exact E].
    - intros a o1 f1 U o2 g2 E. unfold off_unreferenced, rc, is_enabled in *. rewrite get_fs_set_fs in *.
      destruct (_ && _); [cbn [fs_turn_off fs_rc]; lia | apply U; exact E].
  Qed.

  Section WithHeight.
    Variable ht : nat -> nat.

    Definition heights (s : state) : Prop := forall p c, In c (o_children (get_obj s p)) -> (ht c < ht p)%nat.

    Theorem disable_keeps_excess n o f s r s' : heights s -> rc s o f <> 1 ->
      disable T n o f s = Some (r, s') -> forall o' g, excess T s o' g <= excess T s' o' g.
    Proof. intros Hh Hne H. apply (disable_dmono T ht s Hh n o f s r s' H (same_shape_refl s) Hne). Qed.

    Theorem disable_consistent n o f s r s' : heights s -> rc s o f <> 1 ->
      disable T n o f s = Some (r, s') -> consistent s -> consistent s'.
    Proof.
      intros Hh Hne H [C U]. split; [|eapply off_unreferenced_disable; eassumption].
      intros o' g. pose proof (disable_keeps_excess n o f s r s' Hh Hne H o' g). pose proof (C o' g). lia.
    Qed.

    Lemma zsum_le l F G : (forall x, In x l -> F x <= G x) -> zsum l F <= zsum l G.
    Proof.
      induction l as [|a l IH]; intros H; cbn [zsum]; [lia|].
      pose proof (H a (or_introl eq_refl)). assert (zsum l F <= zsum l G) by (apply IH; intros x Hx; apply H; right; exact Hx). lia.
    Qed.

    (* unlinking the children of an object: nothing but need_par changes, and it can only go down;
       exactly: the term of that object disappears *)
    Lemma rac_view b s :
      length (remove_all_children b s) = length s /\
      forall x, cls_of (remove_all_children b s) x = cls_of s x /\ o_fs (get_obj (remove_all_children b s) x) = o_fs (get_obj s x) /\
                o_children (get_obj (remove_all_children b s) x) = if ((x =? b) && (b <? length s))%nat then [] else o_children (get_obj s x).
    Proof.
      split; [apply remove_all_children_length|]. intros x. unfold cls_of. rewrite remove_all_children_obj. cbn. auto.
    Qed.

    Lemma excess_rac b s o' g :
      excess T (remove_all_children b s) o' g = excess T s o' g + (if (b <? length s)%nat then termP T s o' g b else 0).
    Proof.
      destruct (rac_view b s) as (L & V). set (s' := remove_all_children b s) in *.
      assert (Efs : forall x f, get_fs s' x f = get_fs s x f) by (intros x f; unfold get_fs; destruct (V x) as (_ & A & _); rewrite A; reflexivity).
      assert (Een : forall x f, is_enabled s' x f = is_enabled s x f) by (intros; unfold is_enabled; rewrite Efs; reflexivity).
      assert (Enf : forall x, nf s' x = nf s x) by (intros x; unfold nf; destruct (V x) as (_ & A & _); rewrite A; reflexivity).
      assert (Ecl : forall x, cls_of s' x = cls_of s x) by (intros x; destruct (V x) as (A & _); exact A).
      assert (ES : need_self T s' o' g = need_self T s o' g).
      { unfold need_self. rewrite Enf. apply zsum_ext. intros f _. unfold termS. rewrite Een, Ecl. reflexivity. }
      assert (EA : need_alt s' o' g = need_alt s o' g).
      { unfold need_alt. rewrite Enf. apply zsum_ext. intros f _. unfold termA. rewrite Efs. reflexivity. }
      assert (EW : forall p g', wch T s' p g' = wch T s p g').
      { intros p g'. unfold wch. rewrite Enf. apply zsum_ext. intros f _. unfold termC. rewrite Een, Ecl. reflexivity. }
      assert (EP : need_par T s' o' g = need_par T s o' g - (if (b <? length s)%nat then termP T s o' g b else 0)).
      { unfold need_par. rewrite L.
        rewrite (zsum_seq_upd (length s) (termP T s o' g) (termP T s' o' g) b).
        - assert (Hb : termP T s' o' g b = if (b <? length s)%nat then 0 else termP T s o' g b).
          { unfold termP. rewrite Een, EW. destruct (V b) as (_ & _ & C). rewrite C, Nat.eqb_refl. cbn [andb].
            destruct (b <? length s)%nat; [rewrite zcnt_nil; destruct (is_enabled s b 0); lia | reflexivity]. }
          rewrite Hb. destruct (b <? length s)%nat; lia.
        - intros x Hx. unfold termP. rewrite Een, EW. destruct (V x) as (_ & _ & C). rewrite C.
          assert (E : (x =? b)%nat = false) by (apply Nat.eqb_neq; exact Hx). rewrite E. reflexivity. }
      unfold excess, need, rc. rewrite Efs, ES, EA, EP. lia.
    Qed.

    Lemma rac_consistent b s : consistent s -> consistent (remove_all_children b s).
    Proof.
      intros [C U]. split.
      - intros o' g. rewrite excess_rac. pose proof (C o' g). pose proof (termP_nonneg T s o' g b). destruct (b <? length s)%nat; lia.
      - intros o' g E. destruct (rac_view b s) as (_ & V). unfold rc, is_enabled, get_fs in *. destruct (V o') as (_ & A & _). rewrite A in *. apply U. exact E.
    Qed.

    Theorem delete_bias_consistent n b s s' : heights s ->
      delete_bias T n b s = Some s' -> consistent s -> consistent s'.
    Proof.
      intros Hh H [C U]. unfold delete_bias in H. destruct (is_enabled s b 0) eqn:Ea.
      - destruct (free_children_deps T n b s) as [s1|] eqn:E1; [|discriminate]. inversion H; subst. clear H.
        destruct (mono_free_with T ht s Hh (disable T n) (disable_dshape T n) (disable_dmono T ht s Hh n) (disable_dbelow T ht s Hh n) b s s1 E1 (same_shape_refl s))
          as (S1 & Eo & M).
        split.
        + intros o' g. rewrite excess_rac. specialize (M o' g). pose proof (C o' g).
          assert (Lb : (b <? length s1)%nat = true).
          { destruct S1 as [L1 _]. rewrite L1. apply Nat.ltb_lt.
            destruct (Nat.lt_ge_cases b (length s)) as [L|L]; [exact L|].
            pose proof (enabled_in_range _ _ _ Ea) as R. rewrite (nf_overflow _ _ L) in R. discriminate. }
          rewrite Lb. unfold termP.
          assert (Ea1 : is_enabled s1 b 0 = true) by (unfold is_enabled, get_fs; rewrite Eo; exact Ea).
          assert (Ew : wch T s1 b g = wch T s b g).
          { unfold wch, nf. rewrite Eo. apply zsum_ext. intros f _. unfold termC, is_enabled, get_fs, cls_of. rewrite Eo. reflexivity. }
          rewrite Ea1, Ew, Eo. lia.
        + intros o' g E. destruct (rac_view b s1) as (_ & V). unfold rc, is_enabled, get_fs in *. destruct (V o') as (_ & A & _). rewrite A in *.
          eapply (off_unreferenced_free n b s s1 E1 U). exact E.
      - inversion H; subst. apply rac_consistent. split; assumption.
    Qed.
  End WithHeight.
End Consistency.

(* ------------------------------------------------------------------------------------------
   The finite checker (InvModel.consistent_check, extracted and run on every dumped state) is sound. *)
Section Checker.
  Variable T : tables.

  Lemma zsum_zero l F : (forall x, In x l -> F x = 0) -> zsum l F = 0.
  Proof.
    induction l as [|a l IH]; intros H; cbn [zsum]; [reflexivity|].
    rewrite (H a (or_introl eq_refl)), IH; [reflexivity|]. intros x Hx. apply H. right; exact Hx.
  Qed.

  Lemma ids_below_zcnt G l g : ids_below G l = true -> (G <= g)%nat -> zcnt g l = 0.
  Proof.
    intros H L. unfold zcnt. assert (N : ~ In g l).
    { intros Hin. unfold ids_below in H. rewrite forallb_forall in H. specialize (H g Hin). apply Nat.ltb_lt in H. lia. }
    apply cnt_notIn in N. rewrite N. reflexivity.
  Qed.

  Lemma consistent_check_sound s G : consistent_check T s G = true -> consistent T s.
  Proof.
    unfold consistent_check. intros H. apply andb_true_iff in H. destruct H as [R Cc].
    unfold range_check in R. rewrite forallb_forall in R.
    assert (Ra : forall p, (nf s p <= G)%nat).
    { intros p. destruct (Nat.lt_ge_cases p (length s)) as [L|L]; [|rewrite (nf_overflow _ _ L); lia].
      specialize (R p ltac:(apply in_seq; lia)). apply andb_true_iff in R. destruct R as [R _]. apply andb_true_iff in R. destruct R as [R _].
      apply Nat.leb_le in R. exact R. }
    assert (Rb : forall p c, In c (o_children (get_obj s p)) -> (c < length s)%nat).
    { intros p c Hc. destruct (Nat.lt_ge_cases p (length s)) as [L|L]; [|rewrite (get_obj_overflow _ _ L) in Hc; contradiction].
      specialize (R p ltac:(apply in_seq; lia)). apply andb_true_iff in R. destruct R as [R _]. apply andb_true_iff in R. destruct R as [_ R].
      rewrite forallb_forall in R. specialize (R c Hc). apply Nat.ltb_lt in R. exact R. }
    assert (Rc : forall p f, (f < nf s p)%nat ->
              ids_below G (f_self (feat T (cls_of s p) f)) = true /\ ids_below G (f_children (feat T (cls_of s p) f)) = true /\
              ids_below G (fs_alt (get_fs s p f)) = true).
    { intros p f Hf. destruct (Nat.lt_ge_cases p (length s)) as [L|L]; [|rewrite (nf_overflow _ _ L) in Hf; lia].
      specialize (R p ltac:(apply in_seq; lia)). apply andb_true_iff in R. destruct R as [_ R].
      rewrite forallb_forall in R. specialize (R f ltac:(apply in_seq; lia)).
      apply andb_true_iff in R. destruct R as [R R3]. apply andb_true_iff in R. destruct R as [R1 R2]. auto. }
    assert (Out : forall o g, (length s <= o)%nat \/ (G <= g)%nat -> rc s o g = 0 /\ need T s o g = 0).
    { intros o g Ho. split.
      - unfold rc, get_fs. destruct Ho as [Ho|Ho]; [rewrite (get_obj_overflow _ _ Ho); cbn; destruct g; reflexivity|].
        rewrite nth_overflow; [reflexivity|]. fold (nf s o). pose proof (Ra o). lia.
      - unfold need.
        assert (E1 : need_self T s o g = 0).
        { unfold need_self. apply zsum_zero. intros f Hf. apply in_seq in Hf. unfold termS. destruct (is_enabled s o f); [|reflexivity].
          destruct Ho as [Ho|Ho]; [rewrite (nf_overflow _ _ Ho) in Hf; lia|].
          destruct (Rc o f ltac:(lia)) as (A & _). eapply ids_below_zcnt; eassumption. }
        assert (E2 : need_alt s o g = 0).
        { unfold need_alt. apply zsum_zero. intros f Hf. apply in_seq in Hf. unfold termA.
          destruct Ho as [Ho|Ho]; [rewrite (nf_overflow _ _ Ho) in Hf; lia|].
          destruct (Rc o f ltac:(lia)) as (_ & _ & A). eapply ids_below_zcnt; eassumption. }
        assert (E3 : need_par T s o g = 0).
        { unfold need_par. apply zsum_zero. intros p Hp. unfold termP. destruct (is_enabled s p 0); [|reflexivity].
          destruct Ho as [Ho|Ho].
          - assert (Z : zcnt o (o_children (get_obj s p)) = 0).
            { unfold zcnt. assert (N : ~ In o (o_children (get_obj s p))) by (intros Hin; pose proof (Rb p o Hin); lia).
              apply cnt_notIn in N. rewrite N. reflexivity. }
            rewrite Z. lia.
          - assert (Z : wch T s p g = 0).
            { unfold wch. apply zsum_zero. intros f Hf. apply in_seq in Hf. unfold termC. destruct (is_enabled s p f); [|reflexivity].
              destruct (Rc p f ltac:(lia)) as (_ & A & _). eapply ids_below_zcnt; eassumption. }
            rewrite Z. lia. }
        rewrite E1, E2, E3. reflexivity. }
    rewrite forallb_forall in Cc.
    assert (In_ : forall o g, (o < length s)%nat -> (g < G)%nat -> 0 <= excess T s o g /\ (is_enabled s o g = false -> rc s o g <= 0)).
    { intros o g Lo Lg. specialize (Cc o ltac:(apply in_seq; lia)). rewrite forallb_forall in Cc. specialize (Cc g ltac:(apply in_seq; lia)).
      apply andb_true_iff in Cc. destruct Cc as [A B]. apply Z.leb_le in A. split; [exact A|].
      intros E. rewrite E in B. cbn [orb] in B. apply Z.leb_le in B. exact B. }
    split.
    - intros o g. destruct (Nat.lt_ge_cases o (length s)) as [Lo|Lo]; [destruct (Nat.lt_ge_cases g G) as [Lg|Lg]|].
      + apply In_; assumption.
      + destruct (Out o g (or_intror Lg)) as (A & B). unfold excess. lia.
      + destruct (Out o g (or_introl Lo)) as (A & B). unfold excess. lia.
    - intros o g E. destruct (Nat.lt_ge_cases o (length s)) as [Lo|Lo]; [destruct (Nat.lt_ge_cases g G) as [Lg|Lg]|].
      + apply In_; assumption.
      + destruct (Out o g (or_intror Lg)) as (A & _). lia.
      + destruct (Out o g (or_introl Lo)) as (A & _). lia.
  Qed.
End Checker.
