(* C13: lemmas about the module-level model (ModuleModel.v): links stay consistent (no reference to a destroyed
   object, children/parents mirror each other), atoms are accounted for, reset destroys everything. *)
From Coq Require Import ZArith List Bool Arith Lia.
From CV Require Import C13.DepsModel C13.InvModel C13.DepsProofs C13.ModuleModel.
Import ListNotations.
Open Scope nat_scope.

(* ------------------------------------------------------------------------------------------ lists *)

Lemma cnt_app x l1 l2 : cnt x (l1 ++ l2) = cnt x l1 + cnt x l2.
Proof. unfold cnt. apply count_occ_app. Qed.

Lemma cnt_In x l : In x l <-> 0 < cnt x l.
Proof. unfold cnt. rewrite (count_occ_In Nat.eq_dec). lia. Qed.

Lemma cnt_notIn x l : ~ In x l <-> cnt x l = 0.
Proof. unfold cnt. apply count_occ_not_In. Qed.

Lemma cnt_cons x y l : cnt x (y :: l) = (if Nat.eq_dec y x then 1 else 0) + cnt x l.
Proof. unfold cnt. cbn [count_occ]. destruct (Nat.eq_dec y x); reflexivity. Qed.

Lemma cnt_le_length x l : cnt x l <= length l.
Proof. induction l as [|y l IH]; [cbn; lia|]. rewrite cnt_cons. cbn [length]. destruct (Nat.eq_dec y x); lia. Qed.

Lemma cnt_single x y : cnt x [y] = if Nat.eq_dec y x then 1 else 0.
Proof. rewrite cnt_cons. cbn. lia. Qed.

(* remove_last *)
Definition rl1 (x : nat) (l : list nat) : list nat := fst (remove_last x l).

Lemma remove_last_spec x l :
  (snd (remove_last x l) = true /\ In x l /\ forall y, cnt y (rl1 x l) = cnt y l - (if Nat.eq_dec x y then 1 else 0))
  \/ (snd (remove_last x l) = false /\ ~ In x l /\ rl1 x l = l).
Proof.
  unfold rl1. induction l as [|y l IH]; cbn [remove_last].
  - right. cbn. auto.
  - destruct (remove_last x l) as [r found] eqn:E. cbn [fst snd] in IH.
    destruct IH as [(Hf & Hin & Hc) | (Hf & Hnin & Hr)]; subst found.
    + left. cbn [fst snd]. split; [reflexivity|]. split; [right; exact Hin|].
      intros z. rewrite !cnt_cons. rewrite Hc.
      pose proof (proj1 (cnt_In x l) Hin) as Hpos.
      destruct (Nat.eq_dec x z) as [Hxz|Hxz]; destruct (Nat.eq_dec y z); subst; lia.
    + subst r. destruct (y =? x) eqn:Eyx.
      * apply Nat.eqb_eq in Eyx. subst y. left. cbn [fst snd]. split; [reflexivity|]. split; [left; reflexivity|].
        intros z. rewrite cnt_cons. destruct (Nat.eq_dec x z); lia.
      * apply Nat.eqb_neq in Eyx. right. cbn [fst snd]. split; [reflexivity|]. split; [|reflexivity].
        intros [H|H]; [congruence | contradiction].
Qed.

Lemma rl1_cnt x l y : cnt y (rl1 x l) = cnt y l - (if Nat.eq_dec x y then 1 else 0).
Proof.
  destruct (remove_last_spec x l) as [(_ & _ & H) | (_ & Hn & H)]; [apply H|].
  rewrite H. destruct (Nat.eq_dec x y) as [->|]; [|lia]. apply cnt_notIn in Hn. lia.
Qed.

Lemma rl1_In x l y : In y (rl1 x l) -> In y l.
Proof. rewrite !cnt_In. rewrite rl1_cnt. lia. Qed.

Lemma rl1_length x l : length (rl1 x l) <= length l.
Proof.
  unfold rl1. induction l as [|y l IH]; cbn [remove_last]; [cbn; lia|].
  destruct (remove_last x l) as [r found]. cbn [fst] in IH. destruct found; cbn [fst length]; [lia|].
  destruct (y =? x); cbn [fst length]; lia.
Qed.

Fixpoint rl_iter (k : nat) (x : nat) (l : list nat) : list nat :=
  match k with O => l | S k => rl_iter k x (rl1 x l) end.

Lemma rl_iter_cnt k x : forall l y, cnt y (rl_iter k x l) = cnt y l - (if Nat.eq_dec x y then k else 0).
Proof.
  induction k as [|k IH]; intros l y; cbn [rl_iter]; [destruct (Nat.eq_dec x y); lia|].
  rewrite IH, rl1_cnt. destruct (Nat.eq_dec x y); lia.
Qed.

Lemma rl_iter_In k x : forall l y, In y (rl_iter k x l) -> In y l.
Proof. intros l y. rewrite !cnt_In. rewrite rl_iter_cnt. lia. Qed.

Lemma rl_iter_length k x : forall l, length (rl_iter k x l) <= length l.
Proof.
  induction k as [|k IH]; intros l; cbn [rl_iter]; [lia|].
  specialize (IH (rl1 x l)). pose proof (rl1_length x l). lia.
Qed.

Lemma nil_of_cnt (l : list nat) : (forall y, cnt y l = 0) -> l = [].
Proof. destruct l as [|a l]; [reflexivity|]. intros H. specialize (H a). rewrite cnt_cons in H. destruct (Nat.eq_dec a a); [lia | congruence]. Qed.

(* ------------------------------------------------------------------------------------------ state access *)
Lemma get_obj_upd_obj s o u o' :
  get_obj (upd_obj s o u) o' = if (o' =? o) && (o <? length s) then u (get_obj s o') else get_obj s o'.
Proof. unfold get_obj, upd_obj. apply nth_upd_nth. Qed.

Lemma length_upd_obj s o u : length (upd_obj s o u) = length s.
Proof. unfold upd_obj. apply length_upd_nth. Qed.

Lemma get_obj_overflow s o : length s <= o -> get_obj s o = obj_default.
Proof. intros H. unfold get_obj. apply nth_overflow. exact H. Qed.

Lemma get_obj_app_l s x o : o < length s -> get_obj (s ++ [x]) o = get_obj s o.
Proof. intros H. unfold get_obj. apply app_nth1. exact H. Qed.

Lemma get_obj_app_new s x : get_obj (s ++ [x]) (length s) = x.
Proof. unfold get_obj. rewrite app_nth2 by lia. rewrite Nat.sub_diag. reflexivity. Qed.

Lemma get_obj_app_over s x o : length s < o -> get_obj (s ++ [x]) o = obj_default.
Proof. intros H. apply get_obj_overflow. rewrite app_length. cbn. lia. Qed.

(* ------------------------------------------------------------------------------------------ remove_all_children *)
Definition unparent (o : nat) (ob : obj) : obj :=
  mkObj (o_class ob) (o_fs ob) (o_children ob) (rl1 o (o_parents ob)).

Lemma fold_unparent_obj o : forall cs s x,
  get_obj (fold_left (fun st c => upd_obj st c (unparent o)) cs s) x =
  let ob := get_obj s x in
  mkObj (o_class ob) (o_fs ob) (o_children ob)
        (rl_iter (if x <? length s then cnt x cs else 0) o (o_parents ob)).
Proof.
  induction cs as [|c cs IH]; intros s x; cbn [fold_left].
  - cbn zeta. destruct (x <? length s); cbn [cnt count_occ rl_iter]; destruct (get_obj s x); reflexivity.
  - rewrite IH. cbn zeta. rewrite length_upd_obj. rewrite get_obj_upd_obj. rewrite cnt_cons.
    destruct (x <? length s) eqn:Ex.
    + destruct (x =? c) eqn:Exc.
      * apply Nat.eqb_eq in Exc. subst c. rewrite Ex. cbn [andb].
        destruct (Nat.eq_dec x x); [|congruence]. cbn [unparent o_class o_fs o_children o_parents Nat.add rl_iter]. reflexivity.
      * cbn [andb]. apply Nat.eqb_neq in Exc. destruct (Nat.eq_dec c x); [congruence|]. reflexivity.
    + apply Nat.ltb_ge in Ex.
      assert (E : (x =? c) && (c <? length s) = false).
      { destruct (x =? c) eqn:Exc; [|reflexivity]. apply Nat.eqb_eq in Exc. subst c. cbn. apply Nat.ltb_ge. exact Ex. }
      rewrite E. reflexivity.
Qed.

Lemma remove_all_children_obj o s x :
  get_obj (remove_all_children o s) x =
  let ob := get_obj s x in
  mkObj (o_class ob) (o_fs ob)
        (if (x =? o) && (o <? length s) then [] else o_children ob)
        (rl_iter (if x <? length s then cnt x (o_children (get_obj s o)) else 0) o (o_parents ob)).
Proof.
  unfold remove_all_children. rewrite get_obj_upd_obj.
  assert (L : forall cs st, length (fold_left (fun st c => upd_obj st c (unparent o)) cs st) = length st).
  { induction cs as [|c cs IH]; intros st; cbn [fold_left]; [reflexivity|]. rewrite IH. apply length_upd_obj. }
  change (fun (s0 : state) (c : nat) => upd_obj s0 c (fun ob : obj => mkObj (o_class ob) (o_fs ob) (o_children ob) (fst (remove_last o (o_parents ob)))))
    with (fun st c => upd_obj st c (unparent o)).
  rewrite L. rewrite !fold_unparent_obj. cbn zeta.
  destruct ((x =? o) && (o <? length s)); reflexivity.
Qed.

Lemma remove_all_children_length o s : length (remove_all_children o s) = length s.
Proof.
  unfold remove_all_children. rewrite length_upd_obj.
  generalize (o_children (get_obj s o)). intros cs. revert s.
  induction cs as [|c cs IH]; intros s; cbn [fold_left]; [reflexivity|]. rewrite IH. apply length_upd_obj.
Qed.

(* ------------------------------------------------------------------------------------------ well-formed links *)
Definition children (s : state) (o : nat) : list nat := o_children (get_obj s o).
Definition parents (s : state) (o : nat) : list nat := o_parents (get_obj s o).
Definition class (s : state) (o : nat) : nat := o_class (get_obj s o).
Definition info_of (info : list oinfo) (o : nat) : oinfo := nth o info info_default.
Definition alive_in (info : list oinfo) (o : nat) : bool := i_alive (info_of info o).

Record wfs (s : state) (info : list oinfo) : Prop := mkWfs {
  wf_len : length info = length s;
  (* children and parents mirror each other, with multiplicity *)
  wf_mirror : forall p c, cnt c (children s p) = cnt p (parents s c);
  (* bias > variable > component > atom group *)
  wf_typed : forall p c, In c (children s p) -> class s c = S (class s p);
  wf_leaf : forall o, 3 <= class s o -> children s o = [];
  (* a destroyed object is referred to by nothing and refers to nothing *)
  wf_dead : forall o, alive_in info o = false -> children s o = [] /\ parents s o = [] /\ i_atoms (info_of info o) = [];
  (* a component belongs to one variable, an atom group to one component *)
  wf_owner : forall o, 2 <= class s o -> length (parents s o) <= 1;
  wf_atoms : forall o, class s o <> 3 -> i_atoms (info_of info o) = []
}.

Definition wf (m : mstate) : Prop := wfs (m_objs m) (m_info m).

Lemma alive_in_range info o : alive_in info o = true -> o < length info.
Proof.
  intros H. destruct (Nat.lt_ge_cases o (length info)) as [L|L]; [exact L|].
  unfold alive_in, info_of in H. rewrite (nth_overflow _ _ L) in H. discriminate.
Qed.

Lemma wfs_child_alive s info p c : wfs s info -> In c (children s p) -> alive_in info p = true /\ alive_in info c = true.
Proof.
  intros W H. split.
  - destruct (alive_in info p) eqn:E; [reflexivity|]. destruct (wf_dead _ _ W p E) as (Hc & _). rewrite Hc in H. contradiction.
  - destruct (alive_in info c) eqn:E; [reflexivity|]. destruct (wf_dead _ _ W c E) as (_ & Hp & _).
    apply cnt_In in H. rewrite (wf_mirror _ _ W) in H. rewrite Hp in H. cbn in H. lia.
Qed.

Lemma wfs_parent_child s info p c : wfs s info -> In p (parents s c) <-> In c (children s p).
Proof. intros W. rewrite !cnt_In. rewrite (wf_mirror _ _ W). reflexivity. Qed.

(* no dangling reference: whatever a live object lists is alive (hence a valid object number) *)
Lemma wfs_no_dangling s info o x : wfs s info -> alive_in info o = true ->
  In x (children s o ++ parents s o) -> alive_in info x = true /\ x < length s.
Proof.
  intros W Ha H. apply in_app_or in H.
  assert (A : alive_in info x = true).
  { destruct H as [H|H]; [apply (wfs_child_alive s info o x W H) | apply (wfs_parent_child _ _ _ _ W) in H; apply (wfs_child_alive s info x o W H)]. }
  split; [exact A|]. rewrite <- (wf_len _ _ W). apply alive_in_range. exact A.
Qed.

Lemma wfs_shape s s' info : wfs s info -> same_shape s s' -> wfs s' info.
Proof.
  intros W [L H].
  assert (Hc : forall o, children s' o = children s o) by (intros o; destruct (H o) as (_ & A & _); exact A).
  assert (Hp : forall o, parents s' o = parents s o) by (intros o; destruct (H o) as (_ & _ & A & _); exact A).
  assert (Hk : forall o, class s' o = class s o) by (intros o; destruct (H o) as (A & _); exact A).
  constructor.
  - rewrite L. apply (wf_len _ _ W).
  - intros p c. rewrite Hc, Hp. apply (wf_mirror _ _ W).
  - intros p c. rewrite Hc, !Hk. apply (wf_typed _ _ W).
  - intros o. rewrite Hk, Hc. apply (wf_leaf _ _ W).
  - intros o. rewrite Hc, Hp. apply (wf_dead _ _ W).
  - intros o. rewrite Hk, Hp. apply (wf_owner _ _ W).
  - intros o. rewrite Hk. apply (wf_atoms _ _ W).
Qed.

(* monotone facts shared by every deletion step *)
Record shrinks (s : state) (info : list oinfo) (s' : state) (info' : list oinfo) : Prop := mkShr {
  sh_len : length s' = length s;
  sh_class : forall o, class s' o = class s o;
  sh_ch : forall o x, In x (children s' o) -> In x (children s o);
  sh_pa : forall o x, In x (parents s' o) -> In x (parents s o);
  sh_alive : forall o, alive_in info' o = true -> alive_in info o = true
}.

Lemma shrinks_refl s info : shrinks s info s info.
Proof. constructor; auto. Qed.

Lemma shrinks_trans s1 i1 s2 i2 s3 i3 : shrinks s1 i1 s2 i2 -> shrinks s2 i2 s3 i3 -> shrinks s1 i1 s3 i3.
Proof.
  intros A B. constructor.
  - rewrite (sh_len _ _ _ _ B). apply (sh_len _ _ _ _ A).
  - intros o. rewrite (sh_class _ _ _ _ B). apply (sh_class _ _ _ _ A).
  - intros o x H. apply (sh_ch _ _ _ _ A). apply (sh_ch _ _ _ _ B). exact H.
  - intros o x H. apply (sh_pa _ _ _ _ A). apply (sh_pa _ _ _ _ B). exact H.
  - intros o H. apply (sh_alive _ _ _ _ A). apply (sh_alive _ _ _ _ B). exact H.
Qed.

Lemma shrinks_ch_nil s i s' i' o : shrinks s i s' i' -> children s o = [] -> children s' o = [].
Proof.
  intros S H. destruct (children s' o) as [|x l] eqn:E; [reflexivity|].
  assert (In x (children s o)) by (apply (sh_ch _ _ _ _ S); rewrite E; left; reflexivity). rewrite H in *. contradiction.
Qed.

Lemma shrinks_pa_nil s i s' i' o : shrinks s i s' i' -> parents s o = [] -> parents s' o = [].
Proof.
  intros S H. destruct (parents s' o) as [|x l] eqn:E; [reflexivity|].
  assert (In x (parents s o)) by (apply (sh_pa _ _ _ _ S); rewrite E; left; reflexivity). rewrite H in *. contradiction.
Qed.

Lemma shrinks_shape s info s' : same_shape s s' -> shrinks s info s' info.
Proof.
  intros [L H]. constructor.
  - exact L.
  - intros o. destruct (H o) as (A & _). exact A.
  - intros o x. destruct (H o) as (_ & A & _). unfold children. rewrite A. auto.
  - intros o x. destruct (H o) as (_ & _ & A & _). unfold parents. rewrite A. auto.
  - auto.
Qed.

(* ---- remove_all_children *)
Lemma rac_children o s x : children (remove_all_children o s) x = if (x =? o) && (o <? length s) then [] else children s x.
Proof. unfold children. rewrite remove_all_children_obj. reflexivity. Qed.

Lemma rac_parents o s x : parents (remove_all_children o s) x =
  rl_iter (if x <? length s then cnt x (children s o) else 0) o (parents s x).
Proof. unfold parents. rewrite remove_all_children_obj. reflexivity. Qed.

Lemma rac_class o s x : class (remove_all_children o s) x = class s x.
Proof. unfold class. rewrite remove_all_children_obj. reflexivity. Qed.

Lemma rl_iter_nil k o : rl_iter k o [] = [].
Proof. pose proof (rl_iter_length k o []) as H. cbn in H. destruct (rl_iter k o []); [reflexivity | cbn in H; lia]. Qed.

Lemma parents_overflow s x : length s <= x -> parents s x = [].
Proof. intros H. unfold parents. rewrite get_obj_overflow by exact H. reflexivity. Qed.

Lemma children_overflow s x : length s <= x -> children s x = [].
Proof. intros H. unfold children. rewrite get_obj_overflow by exact H. reflexivity. Qed.

Lemma wfs_rac s info o : wfs s info -> wfs (remove_all_children o s) info.
Proof.
  intros W. constructor.
  - rewrite remove_all_children_length. apply (wf_len _ _ W).
  - intros p c. rewrite rac_children, rac_parents, rl_iter_cnt.
    destruct (Nat.eq_dec o p) as [->|Hop].
    + rewrite Nat.eqb_refl. cbn [andb]. destruct (p <? length s) eqn:Ep.
      * cbn [cnt count_occ]. destruct (c <? length s) eqn:Ec.
        -- rewrite (wf_mirror _ _ W). lia.
        -- apply Nat.ltb_ge in Ec. rewrite (parents_overflow _ _ Ec). cbn. reflexivity.
      * apply Nat.ltb_ge in Ep. rewrite (children_overflow _ _ Ep). cbn [cnt count_occ].
        rewrite <- (wf_mirror _ _ W). rewrite (children_overflow _ _ Ep). cbn. destruct (c <? length s); reflexivity.
    + assert (E : (p =? o) = false) by (apply Nat.eqb_neq; congruence). rewrite E. cbn [andb].
      rewrite (wf_mirror _ _ W). lia.
  - intros p c H. rewrite !rac_class. apply (wf_typed _ _ W). rewrite rac_children in H.
    destruct ((p =? o) && (o <? length s)); [contradiction | exact H].
  - intros x H. rewrite rac_class in H. rewrite rac_children. destruct ((x =? o) && (o <? length s)); [reflexivity|]. apply (wf_leaf _ _ W). exact H.
  - intros x H. destruct (wf_dead _ _ W x H) as (A & B & C). rewrite rac_children, rac_parents, A, B.
    split; [destruct ((x =? o) && (o <? length s)); reflexivity|]. split; [apply rl_iter_nil | exact C].
  - intros x H. rewrite rac_class in H. rewrite rac_parents. pose proof (rl_iter_length (if x <? length s then cnt x (children s o) else 0) o (parents s x)).
    pose proof (wf_owner _ _ W x H). lia.
  - intros x H. rewrite rac_class in H. apply (wf_atoms _ _ W). exact H.
Qed.

Lemma shrinks_rac s info o : shrinks s info (remove_all_children o s) info.
Proof.
  constructor.
  - apply remove_all_children_length.
  - intros x. apply rac_class.
  - intros x y. rewrite rac_children. destruct ((x =? o) && (o <? length s)); [contradiction | auto].
  - intros x y. rewrite rac_parents. apply rl_iter_In.
  - auto.
Qed.

(* ---- kill *)
Lemma info_of_kill info o x :
  info_of (kill info o) x = if (x =? o) && (o <? length info) then mkInfo false [] else info_of info x.
Proof. unfold info_of, kill. rewrite nth_upd_nth. reflexivity. Qed.

Lemma wfs_kill s info o : wfs s info -> children s o = [] -> parents s o = [] -> wfs s (kill info o).
Proof.
  intros W Hc Hp. constructor.
  - unfold kill. rewrite length_upd_nth. apply (wf_len _ _ W).
  - apply (wf_mirror _ _ W).
  - apply (wf_typed _ _ W).
  - apply (wf_leaf _ _ W).
  - intros x H. unfold alive_in in H. rewrite info_of_kill in *. destruct ((x =? o) && (o <? length info)) eqn:E.
    + apply andb_true_iff in E. destruct E as [E _]. apply Nat.eqb_eq in E. subst x. cbn. auto.
    + apply (wf_dead _ _ W). exact H.
  - apply (wf_owner _ _ W).
  - intros x H. rewrite info_of_kill. destruct ((x =? o) && (o <? length info)); [reflexivity | apply (wf_atoms _ _ W); exact H].
Qed.

Lemma shrinks_kill s info o : shrinks s info s (kill info o).
Proof.
  constructor; auto. intros x. unfold alive_in. rewrite info_of_kill.
  destruct ((x =? o) && (o <? length info)); [cbn; discriminate | auto].
Qed.

Lemma alive_kill info o : o < length info -> alive_in (kill info o) o = false.
Proof. intros H. unfold alive_in. rewrite info_of_kill. rewrite Nat.eqb_refl. apply Nat.ltb_lt in H. rewrite H. reflexivity. Qed.

(* ------------------------------------------------------------------------------------------ atoms accounting *)
Notation held := held_atoms.

(* the engine-side reference count of every atom = number of atom objects held by (live) atom groups *)
Definition acct (m : mstate) : Prop :=
  forall a, a < length (m_atoms m) -> nth a (m_atoms m) 0%Z = held a (m_info m).

Lemma held_app a l1 l2 : held a (l1 ++ l2) = (held a l1 + held a l2)%Z.
Proof. induction l1 as [|i l1 IH]; cbn [held_atoms app]; [lia | rewrite IH; lia]. Qed.

Lemma held_nonneg a info : (0 <= held a info)%Z.
Proof. induction info as [|i l IH]; cbn [held_atoms]; lia. Qed.

Lemma held_kill a : forall info o, held a (kill info o) = (held a info - Z.of_nat (cnt a (i_atoms (info_of info o))))%Z.
Proof.
  induction info as [|i l IH]; intros o.
  - unfold kill, info_of. destruct o; cbn; lia.
  - destruct o as [|o]; unfold kill, info_of; cbn [upd_nth nth held_atoms i_atoms].
    + cbn [cnt count_occ]. lia.
    + fold (kill l o). rewrite IH. unfold info_of. lia.
Qed.

Lemma held_ge a info o : (Z.of_nat (cnt a (i_atoms (info_of info o))) <= held a info)%Z.
Proof. pose proof (held_kill a info o). pose proof (held_nonneg a (kill info o)). lia. Qed.

Lemma acquire_length l : forall at_, length (fold_left acquire l at_) = length at_.
Proof. induction l as [|x l IH]; intros at_; cbn [fold_left]; [reflexivity|]. rewrite IH. unfold acquire. apply length_upd_nth. Qed.

Lemma acquire_nth l a : forall at_, a < length at_ ->
  nth a (fold_left acquire l at_) 0%Z = (nth a at_ 0 + Z.of_nat (cnt a l))%Z.
Proof.
  induction l as [|x l IH]; intros at_ L; cbn [fold_left]; [cbn; lia|].
  rewrite IH by (unfold acquire; rewrite length_upd_nth; exact L).
  unfold acquire. rewrite nth_upd_nth, cnt_cons.
  destruct (a =? x) eqn:E.
  - apply Nat.eqb_eq in E. subst x. apply Nat.ltb_lt in L. rewrite L. cbn [andb]. destruct (Nat.eq_dec a a); [lia | congruence].
  - cbn [andb]. apply Nat.eqb_neq in E. destruct (Nat.eq_dec x a); [congruence | lia].
Qed.

Lemma release_length l : forall at_, length (fold_left release l at_) = length at_.
Proof. induction l as [|x l IH]; intros at_; cbn [fold_left]; [reflexivity|]. rewrite IH. unfold release. apply length_upd_nth. Qed.

Lemma release_nth l a : forall at_, a < length at_ -> (Z.of_nat (cnt a l) <= nth a at_ 0)%Z ->
  nth a (fold_left release l at_) 0%Z = (nth a at_ 0 - Z.of_nat (cnt a l))%Z.
Proof.
  induction l as [|x l IH]; intros at_ L H; cbn [fold_left]; [cbn; lia|].
  rewrite cnt_cons in H.
  assert (E : nth a (release at_ x) 0%Z = (nth a at_ 0 - (if Nat.eq_dec x a then 1 else 0))%Z).
  { unfold release. rewrite nth_upd_nth. destruct (a =? x) eqn:Eax.
    - apply Nat.eqb_eq in Eax. subst x. apply Nat.ltb_lt in L. rewrite L. cbn [andb].
      destruct (Nat.eq_dec a a); [|congruence]. destruct (0 <? nth a at_ 0)%Z eqn:Ep; [lia|]. apply Z.ltb_ge in Ep. lia.
    - cbn [andb]. apply Nat.eqb_neq in Eax. destruct (Nat.eq_dec x a); [congruence | lia]. }
  rewrite IH.
  - rewrite E, cnt_cons. destruct (Nat.eq_dec x a); lia.
  - unfold release. rewrite length_upd_nth. exact L.
  - rewrite E. destruct (Nat.eq_dec x a); lia.
Qed.

Lemma kill_atoms_nil info o x : i_atoms (info_of info x) = [] -> i_atoms (info_of (kill info o) x) = [].
Proof. intros H. rewrite info_of_kill. destruct ((x =? o) && (o <? length info)); [reflexivity | exact H]. Qed.

(* ------------------------------------------------------------------------------------------ deletion of a bias *)
Section Deletion.
  Variable T : tables.

  Lemma free_children_deps_shape n o s s' : free_children_deps T n o s = Some s' -> same_shape s s'.
  Proof.
    intros H. apply (run_op_shape T n (OpFree o) s true s'). cbn [run_op]. rewrite H. reflexivity.
  Qed.

  Lemma delete_bias_wfs n b s info s' : wfs s info -> delete_bias T n b s = Some s' ->
    wfs s' info /\ shrinks s info s' info /\ (b < length s -> children s' b = []).
  Proof.
    intros W H. unfold delete_bias in H.
    assert (G : forall s1, same_shape s s1 -> s' = remove_all_children b s1 ->
                wfs s' info /\ shrinks s info s' info /\ (b < length s -> children s' b = [])).
    { intros s1 Sh ->. split; [apply wfs_rac; eapply wfs_shape; eassumption|]. split.
      - eapply shrinks_trans; [apply shrinks_shape; exact Sh | apply shrinks_rac].
      - intros L. rewrite rac_children. rewrite Nat.eqb_refl. destruct Sh as [Ls _]. rewrite Ls.
        apply Nat.ltb_lt in L. rewrite L. reflexivity. }
    destruct (is_enabled s b 0).
    - destruct (free_children_deps T n b s) as [s1|] eqn:E; [|discriminate]. inversion H; subst.
      apply (G s1); [eapply free_children_deps_shape; exact E | reflexivity].
    - inversion H; subst. apply (G s); [apply same_shape_refl | reflexivity].
  Qed.

  Definition mshrinks (m m' : mstate) : Prop := shrinks (m_objs m) (m_info m) (m_objs m') (m_info m').

  Lemma class0_no_parents s info b : wfs s info -> class s b = 0 -> parents s b = [].
  Proof.
    intros W Hc. destruct (parents s b) as [|p l] eqn:E; [reflexivity|].
    assert (Hin : In p (parents s b)) by (rewrite E; left; reflexivity).
    apply (wfs_parent_child _ _ _ _ W) in Hin. apply (wf_typed _ _ W) in Hin. rewrite Hc in Hin. discriminate.
  Qed.

  Lemma m_delete_bias_wf n b m m' : wf m -> m_delete_bias T n b m = Some m' ->
    wf m' /\ mshrinks m m' /\ m_atoms m' = m_atoms m /\
    (alive_in (m_info m) b = true -> class (m_objs m) b = 0 -> alive_in (m_info m') b = false) /\
    (forall x, info_of (m_info m') x = info_of (m_info m) x \/ (x = b /\ class (m_objs m) b = 0)) /\
    (acct m -> acct m').
  Proof.
    intros W H. unfold m_delete_bias, alive, get_info, class_of in H.
    change (i_alive (nth b (m_info m) info_default)) with (alive_in (m_info m) b) in H.
    change (o_class (get_obj (m_objs m) b)) with (class (m_objs m) b) in H.
    destruct (alive_in (m_info m) b) eqn:Ea; cbn [andb] in H.
    2:{ inversion H; subst. split; [exact W|]. split; [apply shrinks_refl|]. split; [reflexivity|]. split; [discriminate | auto]. }
    destruct (class (m_objs m) b =? 0) eqn:Ec.
    2:{ inversion H; subst. split; [exact W|]. split; [apply shrinks_refl|]. split; [reflexivity|].
        apply Nat.eqb_neq in Ec. split; [intros _ Hc; contradiction | auto]. }
    assert (Hat : i_atoms (info_of (m_info m) b) = []).
    { apply (wf_atoms _ _ W). apply Nat.eqb_eq in Ec. rewrite Ec. discriminate. }
    apply Nat.eqb_eq in Ec.
    destruct (delete_bias T n b (m_objs m)) as [s'|] eqn:E; [|discriminate]. inversion H; subst. clear H.
    destruct (delete_bias_wfs _ _ _ _ _ W E) as (W' & Sh & Hch).
    assert (Lb : b < length (m_objs m)) by (rewrite <- (wf_len _ _ W); apply alive_in_range; exact Ea).
    unfold wf, mshrinks. cbn [m_objs m_info m_atoms].
    split.
    { apply wfs_kill; [exact W' | apply Hch; exact Lb |].
      apply (class0_no_parents _ _ _ W'). rewrite (sh_class _ _ _ _ Sh). exact Ec. }
    split; [eapply shrinks_trans; [exact Sh | apply shrinks_kill]|].
    split; [reflexivity|]. split; [|split].
    - intros _ _. apply alive_kill. rewrite (wf_len _ _ W). exact Lb.
    - intros x. rewrite info_of_kill. destruct ((x =? b) && (b <? length (m_info m))) eqn:Ex; [|left; reflexivity].
      right. apply andb_true_iff in Ex. destruct Ex as [Ex _]. apply Nat.eqb_eq in Ex. auto.
    - intros A a La. cbn [m_atoms m_info] in *. rewrite held_kill, Hat. cbn [cnt count_occ]. rewrite (A a La). lia.
  Qed.

  Lemma mshrinks_refl m : mshrinks m m.
  Proof. apply shrinks_refl. Qed.

  Lemma mshrinks_trans a b c : mshrinks a b -> mshrinks b c -> mshrinks a c.
  Proof. apply shrinks_trans. Qed.

  Lemma delete_biases_wf n bs : forall m m', wf m -> delete_biases T n bs m = Some m' ->
    wf m' /\ mshrinks m m' /\ m_atoms m' = m_atoms m /\
    (forall b, In b bs -> class (m_objs m) b = 0 -> alive_in (m_info m') b = false) /\
    (forall x, class (m_objs m) x <> 0 -> info_of (m_info m') x = info_of (m_info m) x) /\
    (acct m -> acct m').
  Proof.
    induction bs as [|b bs IH]; intros m m' W H; cbn [delete_biases] in H.
    - inversion H; subst. split; [exact W|]. split; [apply mshrinks_refl|]. split; [reflexivity|]. split; [intros b []| auto].
    - destruct (m_delete_bias T n b m) as [m1|] eqn:E; [|discriminate].
      destruct (m_delete_bias_wf _ _ _ _ W E) as (W1 & S1 & A1 & D1 & I1 & Q1).
      destruct (IH _ _ W1 H) as (W2 & S2 & A2 & D2 & I2 & Q2).
      split; [exact W2|]. split; [eapply mshrinks_trans; eassumption|]. split; [congruence|]. split; [|split; [|auto]].
      + intros x [->|Hx] Hc.
        * destruct (alive_in (m_info m') x) eqn:Ea; [|reflexivity].
          assert (A : alive_in (m_info m1) x = true) by (apply (sh_alive _ _ _ _ S2); exact Ea).
          assert (A0 : alive_in (m_info m) x = true) by (apply (sh_alive _ _ _ _ S1); exact A).
          rewrite (D1 A0 Hc) in A. discriminate.
        * apply D2; [exact Hx|]. rewrite (sh_class _ _ _ _ S1). exact Hc.
      + intros x Hc. rewrite I2 by (rewrite (sh_class _ _ _ _ S1); exact Hc).
        destruct (I1 x) as [E1|[-> E1]]; [exact E1 | contradiction].
  Qed.

  (* ---------------------------------------------------------------------------------------- deletion of a variable *)
  Definition fold_rac (cs : list nat) (s : state) : state := fold_left (fun st c => remove_all_children c st) cs s.

  Lemma fold_rac_shrinks cs : forall s info, shrinks s info (fold_rac cs s) info.
  Proof.
    induction cs as [|c cs IH]; intros s info; cbn [fold_rac fold_left]; [apply shrinks_refl|].
    eapply shrinks_trans; [apply shrinks_rac | apply IH].
  Qed.

  Lemma fold_rac_wfs cs : forall s info, wfs s info -> wfs (fold_rac cs s) info.
  Proof.
    induction cs as [|c cs IH]; intros s info W; cbn [fold_rac fold_left]; [exact W|].
    apply IH. apply wfs_rac. exact W.
  Qed.

  Lemma fold_rac_children cs : forall s c, In c cs -> c < length s -> children (fold_rac cs s) c = [].
  Proof.
    induction cs as [|a cs IH]; intros s c Hin L; [contradiction|]. cbn [fold_rac fold_left].
    destruct Hin as [->|Hin].
    - eapply shrinks_ch_nil; [apply (fold_rac_shrinks cs _ [])|].
      rewrite rac_children, Nat.eqb_refl. apply Nat.ltb_lt in L. rewrite L. reflexivity.
    - apply IH; [exact Hin | rewrite remove_all_children_length; exact L].
  Qed.

  Lemma single_owner_list (l : list nat) v : length l <= 1 -> In v l -> l = [v].
  Proof.
    destruct l as [|a [|b l]]; cbn; intros L H; try contradiction; try lia.
    destruct H as [->|[]]. reflexivity.
  Qed.

  Definition linkfree (s : state) (o : nat) : Prop := children s o = [] /\ parents s o = [].

  Lemma kill_group_wf g m : wf m -> linkfree (m_objs m) g ->
    wf (kill_group g m) /\ mshrinks m (kill_group g m) /\ m_objs (kill_group g m) = m_objs m /\
    (forall x, i_atoms (info_of (m_info m) x) = [] -> i_atoms (info_of (m_info (kill_group g m)) x) = []) /\
    (acct m -> acct (kill_group g m)).
  Proof.
    intros W [Hc Hp]. unfold wf, mshrinks, kill_group, get_info. cbn [m_objs m_info m_atoms].
    split; [apply wfs_kill; assumption|]. split; [apply shrinks_kill|]. split; [reflexivity|]. split; [intros x; apply kill_atoms_nil|].
    intros A a La. cbn [m_atoms m_info] in *. rewrite release_length in La.
    change (nth g (m_info m) info_default) with (info_of (m_info m) g).
    pose proof (held_ge a (m_info m) g) as Hge.
    rewrite release_nth; [| exact La | rewrite (A a La); exact Hge].
    rewrite held_kill, (A a La). reflexivity.
  Qed.

  Lemma fold_kill_group_wf gs : forall m, wf m -> (forall g, In g gs -> linkfree (m_objs m) g) ->
    let m' := fold_left (fun mm g => kill_group g mm) gs m in
    wf m' /\ mshrinks m m' /\ m_objs m' = m_objs m /\
    (forall x, i_atoms (info_of (m_info m) x) = [] -> i_atoms (info_of (m_info m') x) = []) /\
    (acct m -> acct m').
  Proof.
    induction gs as [|g gs IH]; intros m W H; cbn [fold_left]; cbn zeta.
    - split; [exact W|]. split; [apply mshrinks_refl|]. auto.
    - destruct (kill_group_wf g m W (H g (or_introl eq_refl))) as (W1 & S1 & O1 & N1 & Q1).
      destruct (IH (kill_group g m) W1) as (W2 & S2 & O2 & N2 & Q2).
      { intros g' Hg'. rewrite O1. apply H. right. exact Hg'. }
      split; [exact W2|]. split; [eapply mshrinks_trans; eassumption|]. split; [congruence|]. split; auto.
  Qed.

  Lemma kill_cvc_wf c gs m : wf m -> linkfree (m_objs m) c -> (forall g, In g gs -> linkfree (m_objs m) g) ->
    i_atoms (info_of (m_info m) c) = [] ->
    wf (kill_cvc c gs m) /\ mshrinks m (kill_cvc c gs m) /\ m_objs (kill_cvc c gs m) = m_objs m /\
    (forall x, i_atoms (info_of (m_info m) x) = [] -> i_atoms (info_of (m_info (kill_cvc c gs m)) x) = []) /\
    (acct m -> acct (kill_cvc c gs m)).
  Proof.
    intros W [Hc Hp] H Hat. unfold kill_cvc.
    destruct (fold_kill_group_wf gs m W H) as (W1 & S1 & O1 & N1 & Q1).
    set (m1 := fold_left (fun mm g => kill_group g mm) gs m) in *.
    unfold wf, mshrinks. cbn [m_objs m_info m_atoms]. split; [|split; [|split; [|split]]].
    - apply wfs_kill; [exact W1 | rewrite O1; exact Hc | rewrite O1; exact Hp].
    - eapply shrinks_trans; [exact S1 | apply shrinks_kill].
    - exact O1.
    - intros x Hx. apply kill_atoms_nil. apply N1. exact Hx.
    - intros A a La. cbn [m_atoms m_info] in *. rewrite held_kill, (N1 c Hat). cbn [cnt count_occ]. rewrite (Q1 A a La). lia.
  Qed.

  Lemma fold_kill_cvc_wf cgs : forall m, wf m ->
    (forall cg, In cg cgs -> linkfree (m_objs m) (fst cg) /\ (forall g, In g (snd cg) -> linkfree (m_objs m) g) /\
                             i_atoms (info_of (m_info m) (fst cg)) = []) ->
    let m' := fold_left (fun mm cg => kill_cvc (fst cg) (snd cg) mm) cgs m in
    wf m' /\ mshrinks m m' /\ m_objs m' = m_objs m /\ (acct m -> acct m').
  Proof.
    induction cgs as [|cg cgs IH]; intros m W H; cbn [fold_left]; cbn zeta.
    - split; [exact W|]. split; [apply mshrinks_refl|]. auto.
    - destruct (H cg (or_introl eq_refl)) as (Hc & Hg & Hat).
      destruct (kill_cvc_wf (fst cg) (snd cg) m W Hc Hg Hat) as (W1 & S1 & O1 & N1 & Q1).
      destruct (IH _ W1) as (W2 & S2 & O2 & Q2).
      { intros cg' Hcg'. rewrite O1. destruct (H cg' (or_intror Hcg')) as (A & B & C). split; [exact A|]. split; [exact B|]. apply N1. exact C. }
      split; [exact W2|]. split; [eapply mshrinks_trans; eassumption|]. split; [congruence | auto].
  Qed.

  (* in a well-formed state the links of a variable's subtree after ~colvar's unlinking *)
  Lemma delete_colvar_unlinked s info v : wfs s info -> alive_in info v = true -> class s v = 1 ->
    let cvcs := children s v in
    let s2 := fold_rac (rev cvcs) (remove_all_children v s) in
    wfs s2 info /\ shrinks s info s2 info /\ children s2 v = [] /\
    (forall c, In c cvcs -> linkfree s2 c /\ forall g, In g (children s c) -> linkfree s2 g).
  Proof.
    intros W Ha Hk cvcs s2.
    assert (Lv : v < length s) by (rewrite <- (wf_len _ _ W); apply alive_in_range; exact Ha).
    assert (W1 : wfs (remove_all_children v s) info) by (apply wfs_rac; exact W).
    assert (W2 : wfs s2 info) by (apply fold_rac_wfs; exact W1).
    assert (S2 : shrinks s info s2 info) by (eapply shrinks_trans; [apply shrinks_rac | apply fold_rac_shrinks]).
    assert (Cv : children s2 v = []).
    { eapply shrinks_ch_nil; [apply (fold_rac_shrinks _ _ info)|]. rewrite rac_children, Nat.eqb_refl.
      apply Nat.ltb_lt in Lv. rewrite Lv. reflexivity. }
    split; [exact W2|]. split; [exact S2|]. split; [exact Cv|].
    intros c Hc.
    assert (Lc : c < length s) by (apply (wfs_no_dangling s info v c W Ha); apply in_or_app; left; exact Hc).
    assert (Kc : class s c = 2) by (rewrite (wf_typed _ _ W v c Hc), Hk; reflexivity).
    assert (Cc : children s2 c = []).
    { apply fold_rac_children; [apply in_rev; rewrite rev_involutive; exact Hc | rewrite remove_all_children_length; exact Lc]. }
    assert (Pc : parents s2 c = []).
    { destruct (parents s2 c) as [|p l] eqn:E; [reflexivity|].
      assert (Hp : In p (parents s2 c)) by (rewrite E; left; reflexivity).
      assert (Hp0 : In p (parents s c)) by (apply (sh_pa _ _ _ _ S2); exact Hp).
      assert (Hv0 : In v (parents s c)) by (apply (wfs_parent_child _ _ _ _ W); exact Hc).
      assert (O : length (parents s c) <= 1) by (apply (wf_owner _ _ W); lia).
      rewrite (single_owner_list _ _ O Hv0) in Hp0. destruct Hp0 as [<-|[]].
      apply (wfs_parent_child _ _ _ _ W2) in Hp. rewrite Cv in Hp. contradiction. }
    split; [split; assumption|].
    intros g Hg.
    assert (Kg : class s g = 3) by (rewrite (wf_typed _ _ W c g Hg), Kc; reflexivity).
    split.
    - eapply shrinks_ch_nil; [exact S2|]. apply (wf_leaf _ _ W). lia.
    - destruct (parents s2 g) as [|p l] eqn:E; [reflexivity|].
      assert (Hp : In p (parents s2 g)) by (rewrite E; left; reflexivity).
      assert (Hp0 : In p (parents s g)) by (apply (sh_pa _ _ _ _ S2); exact Hp).
      assert (Hc0 : In c (parents s g)) by (apply (wfs_parent_child _ _ _ _ W); exact Hg).
      assert (O : length (parents s g) <= 1) by (apply (wf_owner _ _ W); lia).
      rewrite (single_owner_list _ _ O Hc0) in Hp0. destruct Hp0 as [<-|[]].
      apply (wfs_parent_child _ _ _ _ W2) in Hp. rewrite Cc in Hp. contradiction.
  Qed.

  Lemma m_delete_colvar_wf n v m m' : wf m -> m_delete_colvar T n v m = Some m' ->
    wf m' /\ mshrinks m m' /\
    (alive_in (m_info m) v = true -> class (m_objs m) v = 1 -> alive_in (m_info m') v = false) /\
    (acct m -> acct m').
  Proof.
    intros W H. unfold m_delete_colvar, alive, get_info, class_of in H.
    change (i_alive (nth v (m_info m) info_default)) with (alive_in (m_info m) v) in H.
    change (o_class (get_obj (m_objs m) v)) with (class (m_objs m) v) in H.
    destruct (alive_in (m_info m) v) eqn:Ea; cbn [andb] in H.
    2:{ inversion H; subst. split; [exact W|]. split; [apply mshrinks_refl|]. split; [discriminate | auto]. }
    destruct (class (m_objs m) v =? 1) eqn:Ec.
    2:{ inversion H; subst. split; [exact W|]. split; [apply mshrinks_refl|]. apply Nat.eqb_neq in Ec. split; [intros _ Hc; contradiction | auto]. }
    apply Nat.eqb_eq in Ec. cbv zeta in H.
    set (s := m_objs m) in *. change (wfs s (m_info m)) in W.
    destruct (delete_colvar_unlinked s (m_info m) v W Ea Ec) as (W2 & S2 & Cv & Hfree).
    change (fold_left (fun (st : state) (c : nat) => remove_all_children c st) (rev (o_children (get_obj s v))) (remove_all_children v s))
      with (fold_rac (rev (children s v)) (remove_all_children v s)) in H.
    set (s2 := fold_rac (rev (children s v)) (remove_all_children v s)) in *.
    set (m2 := mkM s2 (m_info m) (m_atoms m)) in *.
    assert (Wm2 : wf m2) by exact W2.
    destruct (fold_kill_cvc_wf (map (fun c => (c, o_children (get_obj s c))) (o_children (get_obj s v))) m2 Wm2) as (W3 & S3 & O3 & Q3).
    { intros cg Hcg. apply in_map_iff in Hcg. destruct Hcg as (c & <- & Hc). cbn [fst snd].
      destruct (Hfree c Hc) as (A & B). split; [exact A|]. split; [exact B|].
      apply (wf_atoms _ _ W). rewrite (wf_typed _ _ W v c Hc), Ec. discriminate. }
    set (m3 := fold_left (fun mm cg => kill_cvc (fst cg) (snd cg) mm) (map (fun c => (c, o_children (get_obj s c))) (o_children (get_obj s v))) m2) in *.
    destruct (delete_biases T n (rev (o_parents (get_obj s v))) m3) as [m4|] eqn:E4; [|discriminate].
    inversion H; subst m'. clear H.
    destruct (delete_biases_wf _ _ _ _ W3 E4) as (W4 & S4 & _ & D4 & _ & Q4).
    assert (S04 : shrinks s (m_info m) (m_objs m4) (m_info m4)).
    { eapply shrinks_trans; [exact S2|]. eapply shrinks_trans; [exact S3 | exact S4]. }
    assert (Lv : v < length s) by (rewrite <- (wf_len _ _ W); apply alive_in_range; exact Ea).
    assert (Pv : parents (m_objs m4) v = []).
    { destruct (parents (m_objs m4) v) as [|b l] eqn:E; [reflexivity|].
      assert (Hb : In b (parents (m_objs m4) v)) by (rewrite E; left; reflexivity).
      assert (Hb0 : In b (parents s v)) by (apply (sh_pa _ _ _ _ S04); exact Hb).
      assert (Kb : class s b = 0).
      { apply (wfs_parent_child _ _ _ _ W) in Hb0. pose proof (wf_typed _ _ W b v Hb0) as Ht. rewrite Ec in Ht. lia. }
      assert (Db : alive_in (m_info m4) b = false).
      { apply D4; [apply in_rev; rewrite rev_involutive; exact Hb0|].
        rewrite O3. cbn [m_objs m2]. rewrite (sh_class _ _ _ _ S2). exact Kb. }
      apply (wfs_parent_child _ _ _ _ W4) in Hb. destruct (wf_dead _ _ W4 b Db) as (Hcb & _). rewrite Hcb in Hb. contradiction. }
    assert (Cv4 : children (m_objs m4) v = []).
    { eapply shrinks_ch_nil; [eapply shrinks_trans; [exact S3 | exact S4]|]. exact Cv. }
    unfold wf, mshrinks. cbn [m_objs m_info]. split; [|split; [|split]].
    - apply wfs_kill; assumption.
    - eapply shrinks_trans; [exact S04 | apply shrinks_kill].
    - intros _ _. apply alive_kill. rewrite (wf_len _ _ W4). rewrite (sh_len _ _ _ _ S04). exact Lv.
    - intros A. assert (A4 : acct m4) by (apply Q4; apply Q3; exact A).
      intros a La. cbn [m_atoms m_info] in *. rewrite held_kill.
      assert (Hat : i_atoms (info_of (m_info m4) v) = []).
      { apply (wf_atoms _ _ W4). rewrite (sh_class _ _ _ _ S04), Ec. discriminate. }
      rewrite Hat. cbn [cnt count_occ]. rewrite (A4 a La). lia.
  Qed.

  Lemma delete_colvars_wf n vs : forall m m', wf m -> delete_colvars T n vs m = Some m' ->
    wf m' /\ mshrinks m m' /\
    (forall v, In v vs -> class (m_objs m) v = 1 -> alive_in (m_info m') v = false) /\
    (acct m -> acct m').
  Proof.
    induction vs as [|v vs IH]; intros m m' W H; cbn [delete_colvars] in H.
    - inversion H; subst. split; [exact W|]. split; [apply mshrinks_refl|]. split; [intros v [] | auto].
    - destruct (m_delete_colvar T n v m) as [m1|] eqn:E; [|discriminate].
      destruct (m_delete_colvar_wf _ _ _ _ W E) as (W1 & S1 & D1 & Q1).
      destruct (IH _ _ W1 H) as (W2 & S2 & D2 & Q2).
      split; [exact W2|]. split; [eapply mshrinks_trans; eassumption|]. split; [|auto].
      intros x [->|Hx] Hc.
      + destruct (alive_in (m_info m') x) eqn:Ea; [|reflexivity].
        assert (A : alive_in (m_info m1) x = true) by (apply (sh_alive _ _ _ _ S2); exact Ea).
        assert (A0 : alive_in (m_info m) x = true) by (apply (sh_alive _ _ _ _ S1); exact A).
        rewrite (D1 A0 Hc) in A. discriminate.
      + apply D2; [exact Hx|]. rewrite (sh_class _ _ _ _ S1). exact Hc.
  Qed.

  Lemma live_of_class_In m cls o : In o (live_of_class m cls) <-> alive_in (m_info m) o = true /\ class (m_objs m) o = cls /\ o < length (m_objs m).
  Proof.
    unfold live_of_class. rewrite filter_In, in_seq. unfold alive, get_info, class_of.
    change (i_alive (nth o (m_info m) info_default)) with (alive_in (m_info m) o).
    change (o_class (get_obj (m_objs m) o)) with (class (m_objs m) o).
    rewrite andb_true_iff, Nat.eqb_eq. split; [intros ((_ & L) & A & C); auto | intros (A & C & L); split; [lia | auto]].
  Qed.

  (* reset: well-formedness is kept and no variable and no bias survives *)
  Lemma m_reset_wf n m m' : wf m -> m_reset T n m = Some m' ->
    wf m' /\ mshrinks m m' /\ (forall o, alive_in (m_info m') o = true -> 2 <= class (m_objs m') o) /\ (acct m -> acct m').
  Proof.
    intros W H. unfold m_reset in H.
    destruct (delete_biases T n (rev (live_of_class m 0)) m) as [m1|] eqn:E1; [|discriminate].
    destruct (delete_biases_wf _ _ _ _ W E1) as (W1 & S1 & _ & D1 & _ & Q1).
    destruct (delete_colvars_wf _ _ _ _ W1 H) as (W2 & S2 & D2 & Q2).
    split; [exact W2|]. split; [eapply mshrinks_trans; eassumption|]. split; [|auto].
    intros o Ha.
    assert (A1 : alive_in (m_info m1) o = true) by (apply (sh_alive _ _ _ _ S2); exact Ha).
    assert (A0 : alive_in (m_info m) o = true) by (apply (sh_alive _ _ _ _ S1); exact A1).
    assert (L0 : o < length (m_objs m)) by (rewrite <- (wf_len _ _ W); apply alive_in_range; exact A0).
    rewrite (sh_class _ _ _ _ S2).
    destruct (class (m_objs m1) o) as [|[|k]] eqn:Ek; [| |lia].
    - rewrite (sh_class _ _ _ _ S1) in Ek.
      rewrite D1 in A1; [discriminate | | exact Ek]. apply in_rev. rewrite rev_involutive. apply live_of_class_In. auto.
    - rewrite D2 in Ha; [discriminate | | exact Ek]. apply in_rev. rewrite rev_involutive. apply live_of_class_In.
      split; [exact A1|]. split; [exact Ek|]. rewrite (sh_len _ _ _ _ S1). exact L0.
  Qed.
End Deletion.

(* ------------------------------------------------------------------------------------------ definitions *)
Section Creation.
  Variable T : tables.

  Lemma info_of_app_l info x o : o < length info -> info_of (info ++ [x]) o = info_of info o.
  Proof. intros H. unfold info_of. apply app_nth1. exact H. Qed.

  Lemma info_of_app_new info x : info_of (info ++ [x]) (length info) = x.
  Proof. unfold info_of. rewrite app_nth2 by lia. rewrite Nat.sub_diag. reflexivity. Qed.

  Lemma info_of_overflow info o : length info <= o -> info_of info o = info_default.
  Proof. intros H. unfold info_of. apply nth_overflow. exact H. Qed.

  Lemma get_obj_push s x o :
    get_obj (s ++ [x]) o = if o =? length s then x else get_obj s o.
  Proof.
    destruct (lt_eq_lt_dec o (length s)) as [[L|E]|G].
    - rewrite get_obj_app_l by exact L. assert (H : (o =? length s) = false) by (apply Nat.eqb_neq; lia). rewrite H. reflexivity.
    - subst o. rewrite Nat.eqb_refl. apply get_obj_app_new.
    - rewrite get_obj_app_over by exact G. assert (H : (o =? length s) = false) by (apply Nat.eqb_neq; lia). rewrite H.
      symmetry. apply get_obj_overflow. lia.
  Qed.

  Lemma info_of_push info x o :
    info_of (info ++ [x]) o = if o =? length info then x else info_of info o.
  Proof.
    destruct (lt_eq_lt_dec o (length info)) as [[L|E]|G].
    - rewrite info_of_app_l by exact L. assert (H : (o =? length info) = false) by (apply Nat.eqb_neq; lia). rewrite H. reflexivity.
    - subst o. rewrite Nat.eqb_refl. apply info_of_app_new.
    - assert (H : (o =? length info) = false) by (apply Nat.eqb_neq; lia). rewrite H.
      rewrite !info_of_overflow; [reflexivity | lia | rewrite app_length; cbn; lia].
  Qed.

  (* what a creation step leaves untouched in the objects that existed before *)
  Definition keeps_old (m m' : mstate) : Prop :=
    length (m_objs m) <= length (m_objs m') /\
    forall o, o < length (m_objs m) ->
      class (m_objs m') o = class (m_objs m) o /\ parents (m_objs m') o = parents (m_objs m) o /\
      info_of (m_info m') o = info_of (m_info m) o.

  Lemma keeps_old_refl m : keeps_old m m.
  Proof. split; [lia | auto]. Qed.

  Lemma keeps_old_trans a b c : keeps_old a b -> keeps_old b c -> keeps_old a c.
  Proof.
    intros [L1 H1] [L2 H2]. split; [lia|]. intros o Ho.
    destruct (H1 o Ho) as (A1 & B1 & C1). destruct (H2 o ltac:(lia)) as (A2 & B2 & C2).
    repeat split; congruence.
  Qed.

  Lemma push_obj_wf cls avail atoms m : wf m -> (cls <> 3 -> atoms = []) ->
    let m' := push_obj cls avail atoms m in
    wf m' /\ keeps_old m m' /\ length (m_objs m') = S (length (m_objs m)) /\
    class (m_objs m') (length (m_objs m)) = cls /\ parents (m_objs m') (length (m_objs m)) = [] /\
    alive_in (m_info m') (length (m_objs m)) = true.
  Proof.
    intros W Hat. cbn zeta. unfold wf, keeps_old, push_obj in *. cbn [m_objs m_info m_atoms].
    set (s := m_objs m) in *. set (info := m_info m) in *.
    set (x := mkObj cls (new_fs avail) [] []). set (i := mkInfo true atoms).
    pose proof (wf_len _ _ W) as Hl.
    assert (Hch : forall o, children (s ++ [x]) o = children s o).
    { intros o. unfold children. rewrite get_obj_push. destruct (o =? length s) eqn:E; [|reflexivity].
      apply Nat.eqb_eq in E. subst o. cbn. symmetry. apply children_overflow. lia. }
    assert (Hpa : forall o, parents (s ++ [x]) o = parents s o).
    { intros o. unfold parents. rewrite get_obj_push. destruct (o =? length s) eqn:E; [|reflexivity].
      apply Nat.eqb_eq in E. subst o. cbn. symmetry. apply parents_overflow. lia. }
    assert (Hcl : forall o, class (s ++ [x]) o = if o =? length s then cls else class s o).
    { intros o. unfold class. rewrite get_obj_push. destruct (o =? length s); reflexivity. }
    assert (Hnoref : forall p c, In c (children s p) -> c <> length s /\ p <> length s).
    { intros p c H. destruct (wfs_child_alive _ _ _ _ W H) as (Ap & Ac).
      apply alive_in_range in Ap. apply alive_in_range in Ac. lia. }
    split; [|split; [|split; [|split; [|split]]]].
    - constructor.
      + rewrite !app_length. cbn. lia.
      + intros p c. rewrite Hch, Hpa. apply (wf_mirror _ _ W).
      + intros p c H. rewrite Hch in H. destruct (Hnoref p c H) as (Nc & Np). rewrite !Hcl.
        apply Nat.eqb_neq in Nc. apply Nat.eqb_neq in Np. rewrite Nc, Np. apply (wf_typed _ _ W). exact H.
      + intros o H. rewrite Hch. rewrite Hcl in H. destruct (o =? length s) eqn:E.
        * apply Nat.eqb_eq in E. subst o. apply children_overflow. lia.
        * apply (wf_leaf _ _ W). exact H.
      + intros o H. unfold alive_in in H. rewrite info_of_push in *. rewrite Hch, Hpa. rewrite Hl in *.
        destruct (o =? length s); [cbn in H; discriminate|]. apply (wf_dead _ _ W). exact H.
      + intros o H. rewrite Hpa. rewrite Hcl in H. destruct (o =? length s) eqn:E.
        * apply Nat.eqb_eq in E. subst o. rewrite parents_overflow by lia. cbn. lia.
        * apply (wf_owner _ _ W). exact H.
      + intros o H. rewrite info_of_push. rewrite Hcl in H. rewrite Hl. destruct (o =? length s).
        * cbn. apply Hat. exact H.
        * apply (wf_atoms _ _ W). exact H.
    - split; [rewrite app_length; cbn; lia|]. intros o Ho. rewrite Hcl, Hpa, info_of_push. rewrite Hl.
      assert (E : (o =? length s) = false) by (apply Nat.eqb_neq; lia). rewrite E. auto.
    - rewrite app_length. cbn. lia.
    - rewrite Hcl, Nat.eqb_refl. reflexivity.
    - rewrite Hpa. apply parents_overflow. lia.
    - unfold alive_in. rewrite info_of_push, Hl, Nat.eqb_refl. reflexivity.
  Qed.

  Lemma add_child_shape n p c s s' : add_child T n p c s = Some s' ->
    same_shape (upd_obj (upd_obj s p (fun ob => mkObj (o_class ob) (o_fs ob) (o_children ob ++ [c]) (o_parents ob)))
                        c (fun ob => mkObj (o_class ob) (o_fs ob) (o_children ob) (o_parents ob ++ [p]))) s'.
  Proof.
    unfold add_child. intros H.
    eapply (restore_with_rel T same_shape same_shape_refl same_shape_trans (enable T n)); [|exact H].
    intros o f d t e s0 r s0' H0.
    eapply (enable_rel T same_shape same_shape_refl same_shape_trans); try exact H0;
      intros; apply set_fs_shape; intros x; reflexivity.
  Qed.

  Lemma link_wf n p c m m' : wf m -> p < length (m_objs m) -> c < length (m_objs m) -> p <> c ->
    alive_in (m_info m) p = true -> alive_in (m_info m) c = true ->
    class (m_objs m) c = S (class (m_objs m) p) -> class (m_objs m) p <= 2 ->
    (2 <= class (m_objs m) c -> parents (m_objs m) c = []) ->
    link T n p c m = Some m' ->
    wf m' /\ m_info m' = m_info m /\ m_atoms m' = m_atoms m /\ length (m_objs m') = length (m_objs m) /\
    (forall o, class (m_objs m') o = class (m_objs m) o) /\
    (forall o, parents (m_objs m') o = if o =? c then parents (m_objs m) o ++ [p] else parents (m_objs m) o).
  Proof.
    intros W Lp Lc Npc Ap Ac Hk Hk2 Hown H. unfold link in H.
    destruct (add_child T n p c (m_objs m)) as [s'|] eqn:E; [|discriminate]. inversion H; subst m'. clear H.
    apply add_child_shape in E. cbn [m_objs m_info m_atoms].
    set (s := m_objs m) in *. set (info := m_info m) in *. change (wfs s info) in W.
    set (s2 := upd_obj (upd_obj s p (fun ob => mkObj (o_class ob) (o_fs ob) (o_children ob ++ [c]) (o_parents ob)))
                       c (fun ob => mkObj (o_class ob) (o_fs ob) (o_children ob) (o_parents ob ++ [p]))) in *.
    assert (Hobj : forall o, get_obj s2 o =
       let ob := get_obj s o in
       mkObj (o_class ob) (o_fs ob) (if o =? p then o_children ob ++ [c] else o_children ob)
             (if o =? c then o_parents ob ++ [p] else o_parents ob)).
    { intros o. unfold s2. rewrite get_obj_upd_obj, length_upd_obj, get_obj_upd_obj.
      apply Nat.ltb_lt in Lp. apply Nat.ltb_lt in Lc. rewrite Lp, Lc, !andb_true_r.
      destruct (o =? c) eqn:Ec; destruct (o =? p) eqn:Ep; cbn zeta; destruct (get_obj s o); reflexivity. }
    assert (Hch : forall o, children s2 o = if o =? p then children s o ++ [c] else children s o).
    { intros o. unfold children. rewrite Hobj. cbn. destruct (o =? p); reflexivity. }
    assert (Hpa : forall o, parents s2 o = if o =? c then parents s o ++ [p] else parents s o).
    { intros o. unfold parents. rewrite Hobj. cbn. destruct (o =? c); reflexivity. }
    assert (Hcl : forall o, class s2 o = class s o).
    { intros o. unfold class. rewrite Hobj. reflexivity. }
    assert (L2 : length s2 = length s) by (unfold s2; rewrite !length_upd_obj; reflexivity).
    assert (W2 : wfs s2 info).
    { constructor.
      - rewrite L2. apply (wf_len _ _ W).
      - intros p' c'. rewrite Hch, Hpa.
        destruct (p' =? p) eqn:Ep; destruct (c' =? c) eqn:Ec; rewrite ?cnt_app, ?cnt_single, (wf_mirror _ _ W).
        + apply Nat.eqb_eq in Ep. apply Nat.eqb_eq in Ec. subst. destruct (Nat.eq_dec c c); destruct (Nat.eq_dec p p); congruence.
        + apply Nat.eqb_neq in Ec. destruct (Nat.eq_dec c c'); [congruence | lia].
        + apply Nat.eqb_neq in Ep. destruct (Nat.eq_dec p p'); [congruence | lia].
        + reflexivity.
      - intros p' c' Hin. rewrite !Hcl. rewrite Hch in Hin. destruct (p' =? p) eqn:Ep.
        + apply Nat.eqb_eq in Ep. subst p'. apply in_app_or in Hin. destruct Hin as [Hin|[<-|[]]]; [apply (wf_typed _ _ W); exact Hin | exact Hk].
        + apply (wf_typed _ _ W). exact Hin.
      - intros o Ho. rewrite Hcl in Ho. rewrite Hch. destruct (o =? p) eqn:Ep.
        + apply Nat.eqb_eq in Ep. subst o. lia.
        + apply (wf_leaf _ _ W). exact Ho.
      - intros o Ho. rewrite Hch, Hpa. destruct (o =? p) eqn:Ep.
        { apply Nat.eqb_eq in Ep. subst o. congruence. }
        destruct (o =? c) eqn:Ec.
        { apply Nat.eqb_eq in Ec. subst o. congruence. }
        apply (wf_dead _ _ W). exact Ho.
      - intros o Ho. rewrite Hcl in Ho. rewrite Hpa. destruct (o =? c) eqn:Ec.
        + apply Nat.eqb_eq in Ec. subst o. rewrite (Hown Ho). cbn. lia.
        + apply (wf_owner _ _ W). exact Ho.
      - intros o Ho. rewrite Hcl in Ho. apply (wf_atoms _ _ W). exact Ho. }
    split; [eapply wfs_shape; eassumption|]. split; [reflexivity|]. split; [reflexivity|].
    destruct E as [Ls Hs]. split; [congruence|]. split.
    - intros o. destruct (Hs o) as (A & _). unfold class. rewrite A. apply Hcl.
    - intros o. destruct (Hs o) as (_ & _ & A & _). unfold parents at 1. rewrite A. apply Hpa.
  Qed.

  Lemma add_groups_wf n c gs : forall m m', wf m -> c < length (m_objs m) -> alive_in (m_info m) c = true ->
    class (m_objs m) c = 2 -> add_groups T n c gs m = Some m' -> wf m' /\ keeps_old m m'.
  Proof.
    induction gs as [|[av atoms] gs IH]; intros m m' W Lc Ac Kc H; cbn [add_groups] in H.
    - inversion H; subst. split; [exact W | apply keeps_old_refl].
    - destruct (push_obj_wf 3 av atoms m W ltac:(congruence)) as (W1 & K1 & L1 & C1 & P1 & A1).
      set (m1 := push_obj 3 av atoms m) in *. set (g := length (m_objs m)) in *.
      destruct (link T n c g m1) as [m2|] eqn:E; [|discriminate].
      destruct K1 as [K1l K1]. destruct (K1 c Lc) as (Kc1 & Pc1 & Ic1).
      destruct (link_wf n c g m1 m2 W1 ltac:(lia) ltac:(lia) ltac:(lia)) as (W2 & I2 & _ & L2 & C2 & P2); try exact E.
      { unfold alive_in. rewrite Ic1. exact Ac. }
      { exact A1. }
      { rewrite C1, Kc1, Kc. reflexivity. }
      { rewrite Kc1, Kc. lia. }
      { intros _. exact P1. }
      destruct (IH m2 m' W2) as (W3 & K3); try exact H.
      { lia. }
      { rewrite I2. unfold alive_in. rewrite Ic1. exact Ac. }
      { rewrite C2, Kc1. exact Kc. }
      split; [exact W3|]. eapply keeps_old_trans; [|exact K3].
      split; [lia|]. intros o Ho. destruct (K1 o Ho) as (A & B & C). rewrite C2, P2, I2.
      assert (Eo : (o =? g) = false) by (apply Nat.eqb_neq; unfold g; lia). rewrite Eo. auto.
  Qed.

  Lemma add_cvcs_wf n v cs : forall m m', wf m -> v < length (m_objs m) -> alive_in (m_info m) v = true ->
    class (m_objs m) v = 1 -> add_cvcs T n v cs m = Some m' -> wf m' /\ keeps_old m m'.
  Proof.
    induction cs as [|[av gs] cs IH]; intros m m' W Lv Av Kv H; cbn [add_cvcs] in H.
    - inversion H; subst. split; [exact W | apply keeps_old_refl].
    - destruct (push_obj_wf 2 av [] m W ltac:(reflexivity)) as (W1 & K1 & L1 & C1 & P1 & A1).
      set (m1 := push_obj 2 av [] m) in *. set (c := length (m_objs m)) in *.
      destruct (add_groups T n c gs m1) as [m2|] eqn:E2; [|discriminate].
      destruct (add_groups_wf n c gs m1 m2 W1 ltac:(lia) A1 C1 E2) as (W2 & K2).
      destruct (link T n v c m2) as [m3|] eqn:E3; [|discriminate].
      pose proof (keeps_old_trans _ _ _ K1 K2) as K02.
      destruct K02 as [L02 K02]. destruct (K02 v Lv) as (Kv2 & Pv2 & Iv2).
      destruct K2 as [L12 K2]. destruct (K2 c ltac:(lia)) as (Kc2 & Pc2 & Ic2).
      destruct (link_wf n v c m2 m3 W2 ltac:(lia) ltac:(lia) ltac:(unfold c; lia)) as (W3 & I3 & _ & L3 & C3 & P3); try exact E3.
      { unfold alive_in. rewrite Iv2. exact Av. }
      { unfold alive_in. rewrite Ic2. exact A1. }
      { rewrite Kc2, C1, Kv2, Kv. reflexivity. }
      { rewrite Kv2, Kv. lia. }
      { intros _. rewrite Pc2. exact P1. }
      destruct (IH m3 m' W3) as (W4 & K4); try exact H.
      { lia. }
      { rewrite I3. unfold alive_in. rewrite Iv2. exact Av. }
      { rewrite C3, Kv2. exact Kv. }
      split; [exact W4|]. eapply keeps_old_trans; [|exact K4].
      split; [lia|]. intros o Ho. destruct (K02 o Ho) as (A & B & C). rewrite C3, P3, I3.
      assert (Eo : (o =? c) = false) by (apply Nat.eqb_neq; unfold c; lia). rewrite Eo. auto.
  Qed.

  Lemma new_colvar_wf n avail cs m m' : wf m -> new_colvar T n avail cs m = Some m' -> wf m' /\ keeps_old m m'.
  Proof.
    intros W H. unfold new_colvar in H.
    destruct (push_obj_wf 1 avail [] m W ltac:(reflexivity)) as (W1 & K1 & L1 & C1 & P1 & A1).
    destruct (add_cvcs_wf n (length (m_objs m)) cs (push_obj 1 avail [] m) m' W1 ltac:(lia) A1 C1 H) as (W2 & K2).
    split; [exact W2 | eapply keeps_old_trans; eassumption].
  Qed.

  Lemma add_colvars_wf n b vs : forall m m', wf m -> b < length (m_objs m) -> alive_in (m_info m) b = true ->
    class (m_objs m) b = 0 -> add_colvars T n b vs m = Some m' ->
    wf m' /\ m_info m' = m_info m /\ m_atoms m' = m_atoms m /\ length (m_objs m') = length (m_objs m) /\
    (forall o, class (m_objs m') o = class (m_objs m) o).
  Proof.
    induction vs as [|v vs IH]; intros m m' W Lb Ab Kb H; cbn [add_colvars] in H.
    - inversion H; subst. auto.
    - unfold alive, get_info, class_of in H.
      change (i_alive (nth v (m_info m) info_default)) with (alive_in (m_info m) v) in H.
      change (o_class (get_obj (m_objs m) v)) with (class (m_objs m) v) in H.
      destruct (alive_in (m_info m) v) eqn:Av; cbn [andb] in H; [|apply IH; assumption].
      destruct (class (m_objs m) v =? 1) eqn:Kv; [|apply IH; assumption].
      apply Nat.eqb_eq in Kv.
      destruct (link T n b v m) as [m1|] eqn:E; [|discriminate].
      assert (Lv : v < length (m_objs m)) by (rewrite <- (wf_len _ _ W); apply alive_in_range; exact Av).
      destruct (link_wf n b v m m1 W Lb Lv) as (W1 & I1 & A1 & L1 & C1 & _); try exact E; try assumption.
      { intros ->. congruence. }
      { rewrite Kv, Kb. reflexivity. }
      { rewrite Kb. lia. }
      { rewrite Kv. lia. }
      destruct (IH m1 m' W1) as (W2 & I2 & A2 & L2 & C2); try exact H.
      { lia. } { rewrite I1. exact Ab. } { rewrite C1. exact Kb. }
      split; [exact W2|]. split; [congruence|]. split; [congruence|]. split; [congruence|].
      intros o. rewrite C2. apply C1.
  Qed.

  Lemma new_bias_wf n avail vs m m' : wf m -> new_bias T n avail vs m = Some m' -> wf m'.
  Proof.
    intros W H. unfold new_bias in H.
    destruct (push_obj_wf 0 avail [] m W ltac:(reflexivity)) as (W1 & K1 & L1 & C1 & P1 & A1).
    destruct (add_colvars_wf n (length (m_objs m)) vs (push_obj 0 avail [] m) m' W1 ltac:(lia) A1 C1 H) as (W2 & _). exact W2.
  Qed.
End Creation.

(* ------------------------------------------------------------------------------------------ every operation, every sequence *)
Section Run.
  Variable T : tables.

  Lemma push_obj_acct cls avail atoms m : acct m -> acct (push_obj cls avail atoms m).
  Proof.
    intros A a La. unfold push_obj in *. cbn [m_atoms m_info] in *. rewrite acquire_length in La.
    rewrite acquire_nth by exact La. rewrite held_app. cbn [held_atoms i_atoms]. rewrite (A a La). lia.
  Qed.

  Lemma link_acct n p c m m' : link T n p c m = Some m' -> acct m -> acct m'.
  Proof.
    unfold link. destruct (add_child T n p c (m_objs m)); [|discriminate]. intros H; inversion H; subst. auto.
  Qed.

  Lemma add_groups_acct n c gs : forall m m', add_groups T n c gs m = Some m' -> acct m -> acct m'.
  Proof.
    induction gs as [|[av atoms] gs IH]; intros m m' H A; cbn [add_groups] in H; [inversion H; subst; exact A|].
    destruct (link T n c (length (m_objs m)) (push_obj 3 av atoms m)) as [m1|] eqn:E; [|discriminate].
    eapply IH; [exact H|]. eapply link_acct; [exact E|]. apply push_obj_acct. exact A.
  Qed.

  Lemma add_cvcs_acct n v cs : forall m m', add_cvcs T n v cs m = Some m' -> acct m -> acct m'.
  Proof.
    induction cs as [|[av gs] cs IH]; intros m m' H A; cbn [add_cvcs] in H; [inversion H; subst; exact A|].
    destruct (add_groups T n (length (m_objs m)) gs (push_obj 2 av [] m)) as [m1|] eqn:E1; [|discriminate].
    destruct (link T n v (length (m_objs m)) m1) as [m2|] eqn:E2; [|discriminate].
    eapply IH; [exact H|]. eapply link_acct; [exact E2|]. eapply add_groups_acct; [exact E1|]. apply push_obj_acct. exact A.
  Qed.

  Lemma add_colvars_acct n b vs : forall m m', add_colvars T n b vs m = Some m' -> acct m -> acct m'.
  Proof.
    induction vs as [|v vs IH]; intros m m' H A; cbn [add_colvars] in H; [inversion H; subst; exact A|].
    destruct (alive m v && (class_of m v =? 1)); [|eapply IH; eassumption].
    destruct (link T n b v m) as [m1|] eqn:E; [|discriminate].
    eapply IH; [exact H|]. eapply link_acct; eassumption.
  Qed.

  Lemma m_prim_wf n p m m' : wf m -> m_prim T n p m = Some m' -> wf m' /\ (acct m -> acct m').
  Proof.
    intros W H. unfold m_prim in H. destruct (alive m (op_target p)); [|inversion H; subst; auto].
    destruct (run_op T n p (m_objs m)) as [[r s]|] eqn:E; [|discriminate]. inversion H; subst. clear H.
    split; [|auto]. unfold wf. cbn [m_objs m_info]. eapply wfs_shape; [exact W|]. eapply run_op_shape. exact E.
  Qed.

  Lemma m_step_wf n p m m' : wf m -> m_step T n p m = Some m' -> wf m' /\ (acct m -> acct m').
  Proof.
    intros W H. destruct p as [av cs|av vs|q|b|v|]; cbn [m_step] in H.
    - split; [apply (new_colvar_wf T n av cs m m' W H)|]. unfold new_colvar in H. intros A.
      eapply add_cvcs_acct; [exact H|]. apply push_obj_acct. exact A.
    - split; [apply (new_bias_wf T n av vs m m' W H)|]. unfold new_bias in H. intros A.
      eapply add_colvars_acct; [exact H|]. apply push_obj_acct. exact A.
    - apply (m_prim_wf n q m m' W H).
    - destruct (m_delete_bias_wf T n b m m' W H) as (W' & _ & _ & _ & _ & Q). auto.
    - destruct (m_delete_colvar_wf T n v m m' W H) as (W' & _ & _ & Q). auto.
    - destruct (m_reset_wf T n m m' W H) as (W' & _ & _ & Q). auto.
  Qed.

  Lemma m_run_wf n ps : forall m m', wf m -> acct m -> m_run T n ps m = Some m' -> wf m' /\ acct m'.
  Proof.
    induction ps as [|p ps IH]; intros m m' W A H; cbn [m_run] in H; [inversion H; subst; auto|].
    destruct (m_step T n p m) as [m1|] eqn:E; [|discriminate].
    destruct (m_step_wf n p m m1 W E) as (W1 & Q1). apply (IH m1 m' W1 (Q1 A) H).
  Qed.

  Lemma nth_repeat_Z k a : nth a (repeat 0%Z k) 0%Z = 0%Z.
  Proof. revert a. induction k as [|k IH]; intros [|a]; cbn; auto. Qed.

  Lemma empty_wf k : wf (m_empty k) /\ acct (m_empty k).
  Proof.
    split.
    - unfold wf, m_empty. cbn [m_objs m_info].
      assert (C : forall o, children [] o = []) by (intros o; apply children_overflow; cbn; lia).
      assert (P : forall o, parents [] o = []) by (intros o; apply parents_overflow; cbn; lia).
      assert (I : forall o, info_of [] o = info_default) by (intros o; apply info_of_overflow; cbn; lia).
      constructor; intros; rewrite ?C, ?P, ?I in *; cbn in *; auto; try contradiction; try lia.
    - intros a La. unfold m_empty. cbn [m_atoms m_info held_atoms]. apply nth_repeat_Z.
  Qed.

  (* atoms no longer used are released *)
  Lemma held_zero a info : (forall o, alive_in info o = true -> ~ In a (i_atoms (info_of info o))) ->
    (forall o, alive_in info o = false -> i_atoms (info_of info o) = []) -> held a info = 0%Z.
  Proof.
    intros H D.
    assert (G : forall o, cnt a (i_atoms (info_of info o)) = 0).
    { intros o. destruct (alive_in info o) eqn:E; [apply cnt_notIn; apply H; exact E | rewrite (D o E); reflexivity]. }
    clear H D. induction info as [|i l IH]; [reflexivity|]. cbn [held_atoms].
    pose proof (G 0) as G0. unfold info_of in G0. cbn [nth] in G0. rewrite G0.
    rewrite IH; [reflexivity|]. intros o. specialize (G (S o)). unfold info_of in *. cbn [nth] in G. exact G.
  Qed.

  Lemma unused_atom_released m a : wf m -> acct m -> a < length (m_atoms m) ->
    (forall o, alive_in (m_info m) o = true -> ~ In a (i_atoms (info_of (m_info m) o))) ->
    nth a (m_atoms m) 0%Z = 0%Z.
  Proof.
    intros W A La H. rewrite (A a La). apply held_zero; [exact H|].
    intros o Ho. destruct (wf_dead _ _ W o Ho) as (_ & _ & R). exact R.
  Qed.
End Run.

(* ------------------------------------------------------------------------------------------ the finite checkers are sound *)
Lemma nil_nat_true l : nil_nat l = true -> l = [].
Proof. destruct l; [reflexivity | discriminate]. Qed.

Lemma acct_check_sound m : acct_check m = true -> acct m.
Proof.
  unfold acct_check. rewrite forallb_forall. intros H a La. specialize (H a ltac:(apply in_seq; lia)).
  apply Z.eqb_eq in H. exact H.
Qed.

Lemma wf_check_sound m : wf_check m = true -> wf m.
Proof.
  unfold wf_check. cbv zeta. intros H. apply andb_true_iff in H. destruct H as [Hl H]. apply Nat.eqb_eq in Hl.
  rewrite forallb_forall in H.
  set (s := m_objs m) in *. set (info := m_info m) in *.
  assert (P : forall p, p < length s ->
    (forall c, In c (children s p) -> c < length s) /\ (forall c, In c (parents s p) -> c < length s) /\
    (forall c, c < length s -> cnt c (children s p) = cnt p (parents s c)) /\
    (forall c, c < length s -> cnt p (children s c) = cnt c (parents s p)) /\
    (forall c, In c (children s p) -> class s c = S (class s p)) /\
    (3 <= class s p -> children s p = []) /\
    (alive_in info p = false -> children s p = [] /\ parents s p = [] /\ i_atoms (info_of info p) = []) /\
    (2 <= class s p -> length (parents s p) <= 1) /\
    (class s p <> 3 -> i_atoms (info_of info p) = [])).
  { intros p Lp. specialize (H p ltac:(apply in_seq; lia)).
    apply andb_true_iff in H. destruct H as [H Xi]. apply andb_true_iff in H. destruct H as [H Xh].
    apply andb_true_iff in H. destruct H as [H Xg]. apply andb_true_iff in H. destruct H as [H Xf].
    apply andb_true_iff in H. destruct H as [H Xe]. apply andb_true_iff in H. destruct H as [H Xd].
    apply andb_true_iff in H. destruct H as [H Xc]. apply andb_true_iff in H. destruct H as [Xa Xb].
    rewrite forallb_forall in Xa. rewrite forallb_forall in Xb. rewrite forallb_forall in Xc. rewrite forallb_forall in Xd. rewrite forallb_forall in Xe.
    split; [intros c Hc; specialize (Xa c Hc); apply Nat.ltb_lt in Xa; exact Xa|].
    split; [intros c Hc; specialize (Xb c Hc); apply Nat.ltb_lt in Xb; exact Xb|].
    split; [intros c Lc; specialize (Xc c ltac:(apply in_seq; lia)); apply Nat.eqb_eq in Xc; exact Xc|].
    split; [intros c Lc; specialize (Xd c ltac:(apply in_seq; lia)); apply Nat.eqb_eq in Xd; exact Xd|].
    split; [intros c Hc; specialize (Xe c Hc); apply Nat.eqb_eq in Xe; exact Xe|].
    split.
    { intros K. apply orb_true_iff in Xf. destruct Xf as [Xf|Xf]; [apply Nat.ltb_lt in Xf; unfold class in K; lia | apply nil_nat_true; exact Xf]. }
    split.
    { intros A. apply orb_true_iff in Xg. destruct Xg as [Xg|Xg]; [unfold alive_in, info_of in A; congruence|].
      apply andb_true_iff in Xg. destruct Xg as [Xg Xg3]. apply andb_true_iff in Xg. destruct Xg as [Xg1 Xg2].
      split; [apply nil_nat_true; exact Xg1|]. split; [apply nil_nat_true; exact Xg2 | apply nil_nat_true; exact Xg3]. }
    split.
    { intros K. apply orb_true_iff in Xh. destruct Xh as [Xh|Xh]; [apply Nat.ltb_lt in Xh; unfold class in K; lia | apply Nat.leb_le in Xh; exact Xh]. }
    { intros K. apply orb_true_iff in Xi. destruct Xi as [Xi|Xi]; [apply Nat.eqb_eq in Xi; unfold class in K; congruence | apply nil_nat_true; exact Xi]. } }
  assert (Out : forall p, length s <= p -> children s p = [] /\ parents s p = [] /\ class s p = 0 /\ info_of info p = info_default).
  { intros p Lp. split; [apply children_overflow; exact Lp|]. split; [apply parents_overflow; exact Lp|].
    split; [unfold class; rewrite get_obj_overflow by exact Lp; reflexivity | apply info_of_overflow; lia]. }
  assert (NotIn : forall x l, (forall c, In c l -> c < length s) -> length s <= x -> cnt x l = 0).
  { intros x l Hl' Lx. apply cnt_notIn. intros Hin. specialize (Hl' x Hin). lia. }
  unfold wf. fold s info. constructor.
  - exact Hl.
  - intros p c. destruct (Nat.lt_ge_cases p (length s)) as [Lp|Lp]; destruct (Nat.lt_ge_cases c (length s)) as [Lc|Lc].
    + destruct (P p Lp) as (_ & _ & A & _). apply A. exact Lc.
    + destruct (Out c Lc) as (_ & B & _). rewrite B. destruct (P p Lp) as (A & _). rewrite (NotIn c _ A Lc). reflexivity.
    + destruct (Out p Lp) as (B & _). rewrite B. destruct (P c Lc) as (_ & A & _). rewrite (NotIn p _ A Lp). reflexivity.
    + destruct (Out p Lp) as (B & _). destruct (Out c Lc) as (_ & B' & _). rewrite B, B'. reflexivity.
  - intros p c Hc. destruct (Nat.lt_ge_cases p (length s)) as [Lp|Lp].
    + destruct (P p Lp) as (_ & _ & _ & _ & A & _). apply A. exact Hc.
    + destruct (Out p Lp) as (B & _). rewrite B in Hc. contradiction.
  - intros p K. destruct (Nat.lt_ge_cases p (length s)) as [Lp|Lp].
    + destruct (P p Lp) as (_ & _ & _ & _ & _ & A & _). apply A. exact K.
    + apply (Out p Lp).
  - intros p A. destruct (Nat.lt_ge_cases p (length s)) as [Lp|Lp].
    + destruct (P p Lp) as (_ & _ & _ & _ & _ & _ & B & _). apply B. exact A.
    + destruct (Out p Lp) as (B1 & B2 & _ & B4). rewrite B4. auto.
  - intros p K. destruct (Nat.lt_ge_cases p (length s)) as [Lp|Lp].
    + destruct (P p Lp) as (_ & _ & _ & _ & _ & _ & _ & B & _). apply B. exact K.
    + destruct (Out p Lp) as (_ & B & _). rewrite B. cbn. lia.
  - intros p K. destruct (Nat.lt_ge_cases p (length s)) as [Lp|Lp].
    + destruct (P p Lp) as (_ & _ & _ & _ & _ & _ & _ & _ & B). apply B. exact K.
    + destruct (Out p Lp) as (_ & _ & _ & B). rewrite B. reflexivity.
Qed.
