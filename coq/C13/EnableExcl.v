(* C13: "mutually exclusive capabilities are never enabled together" is preserved by the ENABLE family
   (enable with every flag combination, successful or failed, restore_children_deps, add_child), for tables whose
   exclusions are symmetric and in which no feature excludes one of its own (transitive) requirements.
   Both table facts are checked on the tables regenerated from the binary (DepsTables.v). *)
From Coq Require Import ZArith List Bool Arith Lia.
From CV Require Import C13.DepsModel C13.DepsProofs.
Import ListNotations.
Open Scope nat_scope.

(* transitive requirements (requires_self and every member of every requires_alt) *)
Inductive reach (t : table) : nat -> nat -> Prop :=
| reach_step f g : In g (deps_of (tfeat t f)) -> reach t f g
| reach_trans f h g : In h (deps_of (tfeat t f)) -> reach t h g -> reach t f g.

Section EnableExcl.
  Variable T : tables.
  Hypothesis Hsym : forall cls f g, In g (f_excl (feat T cls f)) -> In f (f_excl (feat T cls g)).
  Hypothesis Hreq : forall cls f g, reach (nth cls T []) f g -> ~ In g (f_excl (feat T cls f)).
  Hypothesis Hirr : forall cls f, ~ In f (f_excl (feat T cls f)).

  Variable ht : nat -> nat.
  Variable s0 : state.
  Hypothesis Hht : forall p c, In c (o_children (get_obj s0 p)) -> ht c < ht p.

  Notation shaped := (same_shape s0).
  Notation excl := (excl_inv T).

  (* what may have become enabled: features of o in S, anything in objects strictly below o *)
  Definition trk (o : nat) (S : nat -> Prop) (s s' : state) : Prop :=
    forall o' x, is_enabled s' o' x = true -> is_enabled s o' x = true \/ (o' = o /\ S x) \/ ht o' < ht o.

  Definition good (o : nat) (S : nat -> Prop) (s s' : state) : Prop :=
    shaped s -> excl s -> shaped s' /\ excl s' /\ trk o S s s'.

  Lemma good_refl o S s : good o S s s.
  Proof. intros A B. split; [exact A|]. split; [exact B|]. intros o' x H. left; exact H. Qed.

  Lemma good_trans o S a b c : good o S a b -> good o S b c -> good o S a c.
  Proof.
    intros H1 H2 A B. destruct (H1 A B) as (A1 & B1 & T1). destruct (H2 A1 B1) as (A2 & B2 & T2).
    split; [exact A2|]. split; [exact B2|]. intros o' x H. destruct (T2 o' x H) as [H'|[H'|H']]; auto.
  Qed.

  Lemma good_weaken o (S S' : nat -> Prop) s s' : (forall x, S x -> S' x) -> good o S s s' -> good o S' s s'.
  Proof.
    intros HS H A B. destruct (H A B) as (A1 & B1 & T1). split; [exact A1|]. split; [exact B1|].
    intros o' x Hx. destruct (T1 o' x Hx) as [H'|[[E H']|H']]; auto.
  Qed.

  (* a call on a child of o, seen from o *)
  Lemma good_child o c S S' s s' : shaped s -> In c (o_children (get_obj s o)) -> good c S s s' -> good o S' s s'.
  Proof.
    intros Sh Hc H A B. destruct (H A B) as (A1 & B1 & T1). split; [exact A1|]. split; [exact B1|].
    assert (L : ht c < ht o).
    { apply Hht. destruct Sh as [_ Sh]. destruct (Sh o) as (_ & X & _). rewrite <- X. exact Hc. }
    intros o' x Hx. destruct (T1 o' x Hx) as [H'|[[E H']|H']]; auto; right; right; [subst; exact L | lia].
  Qed.

  (* a write that does not enable anything *)
  Lemma good_set_fs o S s o1 f1 u : (forall x, fs_avail (u x) = fs_avail x) -> (forall x, fs_enabled (u x) = fs_enabled x) ->
    good o S s (set_fs s o1 f1 u).
  Proof.
    intros Ha He A B. split; [eapply same_shape_trans; [exact A | apply set_fs_shape; exact Ha]|].
    assert (En : forall o' x, is_enabled (set_fs s o1 f1 u) o' x = is_enabled s o' x).
    { intros o' x. unfold is_enabled. rewrite get_fs_set_fs. destruct (_ && _); [apply He | reflexivity]. }
    split.
    - intros o' f g Hf Hg. rewrite En in *. unfold cls_of in Hg. rewrite get_obj_set_fs in Hg.
      destruct ((o' =? o1) && (o1 <? length s)); cbn [o_class] in Hg; apply (B o' f g Hf Hg).
    - intros o' x Hx. rewrite En in Hx. left; exact Hx.
  Qed.

  Section Loops.
    Variables (o : nat) (S : nat -> Prop).

    Lemma loop_abort_good (call : nat -> state -> res) gs :
      (forall g s r s', In g gs -> call g s = Some (r, s') -> good o S s s') ->
      forall s r s', loop_abort call gs s = Some (r, s') -> good o S s s'.
    Proof.
      induction gs as [|g gs IH]; intros Hc s r s' H; cbn [loop_abort] in H.
      - inversion H; subst. apply good_refl.
      - destruct (call g s) as [[b s1]|] eqn:E; [|discriminate].
        pose proof (Hc g s b s1 (or_introl eq_refl) E) as G1. destruct b.
        + eapply good_trans; [exact G1|]. eapply IH; [|exact H]. intros; eapply Hc; [right|]; eassumption.
        + inversion H; subst. exact G1.
    Qed.

    Lemma loop_all_good (call : nat -> state -> res) gs :
      (forall g s r s', In g gs -> call g s = Some (r, s') -> good o S s s') ->
      forall s s', loop_all call gs s = Some s' -> good o S s s'.
    Proof.
      induction gs as [|g gs IH]; intros Hc s s' H; cbn [loop_all] in H.
      - inversion H; subst. apply good_refl.
      - destruct (call g s) as [[b s1]|] eqn:E; [|discriminate].
        eapply good_trans; [eapply Hc; [left; reflexivity | exact E]|].
        eapply IH; [|exact H]. intros; eapply Hc; [right|]; eassumption.
    Qed.
  End Loops.

  Lemma reach_in_self cls f g x : In g (f_self (feat T cls f)) -> (x = g \/ reach (nth cls T []) g x) -> reach (nth cls T []) f x.
  Proof.
    intros Hg [->|H]; [apply reach_step | eapply reach_trans; [|exact H]]; unfold deps_of; apply in_or_app; left; exact Hg.
  Qed.

  Lemma reach_in_alt cls f gs g x : In gs (f_alt (feat T cls f)) -> In g gs -> (x = g \/ reach (nth cls T []) g x) -> reach (nth cls T []) f x.
  Proof.
    intros Hgs Hg Hx.
    assert (D : In g (deps_of (tfeat (nth cls T []) f))).
    { unfold deps_of. apply in_or_app. right. apply in_concat. exists gs. split; assumption. }
    destruct Hx as [->|H]; [apply reach_step; exact D | eapply reach_trans; [exact D | exact H]].
  Qed.

  Lemma shaped_cls_eq s o : shaped s -> cls_of s o = cls_of s0 o.
  Proof. intros [_ A]. destruct (A o) as (X & _). exact X. Qed.

  Definition Sof (o f : nat) : nat -> Prop := fun x => x = f \/ reach (nth (cls_of s0 o) T []) f x.

  Lemma enable_good n : forall o f dry top err s r s',
    enable T n o f dry top err s = Some (r, s') -> good o (Sof o f) s s'.
  Proof.
    induction n as [|n IH]; intros o f dry top err s r s' H; cbn [enable] in H; [discriminate|].
    destruct (negb (f <? nfeat T (cls_of s o))); [inversion H; subst; apply good_refl|].
    destruct (fs_enabled (get_fs s o f)) eqn:Een.
    { inversion H; subst. destruct (negb (dry || top)); [apply good_set_fs; intros x; reflexivity | apply good_refl]. }
    destruct (negb (fs_avail (get_fs s o f))); [inversion H; subst; apply good_refl|].
    destruct (negb top && negb (is_dynamic (feat T (cls_of s o) f))); [inversion H; subst; apply good_refl|].
    destruct (existsb (fun g => is_enabled s o g) (f_excl (feat T (cls_of s o) f))) eqn:Eex; [inversion H; subst; apply good_refl|].
    intros Sh Bx.
    pose proof (shaped_cls_eq s o Sh) as Ecl.
    set (Sreq := fun x => reach (nth (cls_of s0 o) T []) f x).
    (* requires_self *)
    destruct (loop_abort _ (f_self (feat T (cls_of s o) f)) s) as [[b1 s1]|] eqn:E1; [|discriminate].
    assert (G1 : good o Sreq s s1).
    { eapply (loop_abort_good o Sreq); [|exact E1]. intros g a r0 b Hg H0.
      eapply good_weaken; [|eapply IH; exact H0]. intros x Hx. unfold Sreq. rewrite <- Ecl. eapply reach_in_self; [exact Hg|].
      rewrite Ecl. exact Hx. }
    destruct (G1 Sh Bx) as (Sh1 & B1 & T1).
    destruct b1.
    2:{ inversion H; subst. split; [exact Sh1|]. split; [exact B1|]. intros o' x Hx. destruct (T1 o' x Hx) as [X|[[X Y]|X]]; auto. right; left. split; [exact X | right; exact Y]. }
    (* requires_alt *)
    destruct (loop_alts (enable T n) o f dry err (f_alt (feat T (cls_of s o) f)) s1) as [[b2 s2]|] eqn:E2; [|discriminate].
    assert (G2 : good o Sreq s1 s2).
    { clear H.
      assert (Galt : forall alts, (forall gs, In gs alts -> In gs (f_alt (feat T (cls_of s o) f))) ->
                forall a r0 b, loop_alts (enable T n) o f dry err alts a = Some (r0, b) -> good o Sreq a b).
      { induction alts as [|gs alts IHa]; intros Hsub a r0 b Hl; cbn [loop_alts] in Hl; [inversion Hl; subst; apply good_refl|].
        destruct (alt_one (enable T n) o f dry err gs a) as [[bb a1]|] eqn:Eo; [|discriminate].
        assert (Gcall : forall g d t e x rr y, In g gs -> enable T n o g d t e x = Some (rr, y) -> good o Sreq x y).
        { intros g d t e x rr y Hg H0. eapply good_weaken; [|eapply IH; exact H0]. intros z Hz. unfold Sreq. rewrite <- Ecl.
          eapply reach_in_alt; [apply Hsub; left; reflexivity | exact Hg|]. rewrite Ecl. exact Hz. }
        assert (Gone : good o Sreq a a1).
        { unfold alt_one in Eo. destruct (alt_probe (enable T n) o f dry err gs a) as [[pb p1]|] eqn:Ep; [|discriminate].
          assert (Gp : good o Sreq a p1).
          { clear Eo. revert a pb p1 Ep. assert (Hin : forall g, In g gs -> In g gs) by auto. revert Hin. generalize gs at 1 3 as gl.
            induction gl as [|g gl IHg]; intros Hin a pb p1 Ep; cbn [alt_probe] in Ep; [inversion Ep; subst; apply good_refl|].
            destruct (enable T n o g true false err a) as [[q a2]|] eqn:Eq; [|discriminate].
            pose proof (Gcall g _ _ _ _ _ _ (Hin g (or_introl eq_refl)) Eq) as Gq.
            destruct q.
            - destruct (negb dry || err).
              + destruct (enable T n o g false false err a2) as [[q3 a3]|] eqn:Eq3; [|discriminate]. inversion Ep; subst.
                eapply good_trans; [exact Gq|]. eapply good_trans; [eapply Gcall; [apply Hin; left; reflexivity | exact Eq3]|].
                apply good_set_fs; intros x; reflexivity.
              + inversion Ep; subst. exact Gq.
            - eapply good_trans; [exact Gq|]. eapply IHg; [|exact Ep]. intros g' Hg'. apply Hin. right; exact Hg'. }
          destruct pb; [inversion Eo; subst; exact Gp|].
          destruct (negb dry).
          - destruct (loop_all _ gs p1) as [p2|] eqn:El; [|discriminate]. inversion Eo; subst.
            eapply good_trans; [exact Gp|]. eapply (loop_all_good o Sreq); [|exact El]. intros g x rr y Hg H0. exact (Gcall g _ _ _ _ _ _ Hg H0).
          - inversion Eo; subst. exact Gp. }
        destruct bb.
        - eapply good_trans; [exact Gone|]. eapply IHa; [|exact Hl]. intros gs' Hgs'. apply Hsub. right; exact Hgs'.
        - inversion Hl; subst. exact Gone. }
      exact (Galt _ (fun gs Hgs => Hgs) _ _ _ E2). }
    destruct (G2 Sh1 B1) as (Sh2 & B2 & T2).
    assert (T02 : trk o Sreq s s2).
    { intros o' x Hx. destruct (T2 o' x Hx) as [X|[X|X]]; auto. }
    destruct b2.
    2:{ inversion H; subst. split; [exact Sh2|]. split; [exact B2|]. intros o' x Hx. destruct (T02 o' x Hx) as [X|[[X Y]|X]]; auto. right; left. split; [exact X | right; exact Y]. }
    (* requires_children *)
    destruct (loop_abort _ (f_children (feat T (cls_of s o) f)) s2) as [[b3 s3]|] eqn:E3; [|discriminate].
    assert (G3 : good o (fun _ => False) s2 s3).
    { eapply (loop_abort_good o (fun _ => False)); [|exact E3]. intros g a r0 b _ H0.
      intros Sha Ba. revert Sha Ba. change (good o (fun _ => False) a b).
      intros Sha Ba.
      assert (Gi : good o (fun _ => False) a b).
      { eapply (loop_abort_good o (fun _ => False)) with (s := a); [|exact H0]. intros c x rr y Hc Hcall Shx Bxx.
        (* the list of children is read from the state at the start of the inner loop *)
        assert (Hc' : In c (o_children (get_obj x o))).
        { destruct Sha as [_ Sa]. destruct Shx as [_ Sx]. destruct (Sa o) as (_ & X & _). destruct (Sx o) as (_ & Y & _). rewrite Y, <- X. exact Hc. }
        eapply (good_child o c (Sof c g) (fun _ => False) x y Shx Hc'); [eapply IH; exact Hcall | exact Shx | exact Bxx]. }
      apply Gi; assumption. }
    destruct (G3 Sh2 B2) as (Sh3 & B3 & T3).
    assert (T03 : trk o Sreq s s3).
    { intros o' x Hx. destruct (T3 o' x Hx) as [X|[[_ []]|X]]; auto. }
    assert (Fin : forall st, shaped st -> excl st -> trk o Sreq s st -> shaped st /\ excl st /\ trk o (Sof o f) s st).
    { intros st A B C. split; [exact A|]. split; [exact B|]. intros o' x Hx. destruct (C o' x Hx) as [X|[[X Y]|X]]; auto. right; left. split; [exact X | right; exact Y]. }
    destruct b3; [|inversion H; subst; apply Fin; assumption].
    destruct dry; [inversion H; subst; apply Fin; assumption|].
    (* the feature is switched on: nothing enabled in o excludes it *)
    set (s4 := set_fs s3 o f (fs_turn_on top)) in *.
    assert (Sh4 : shaped s4) by (eapply same_shape_trans; [exact Sh3 | apply set_fs_shape; intros x; reflexivity]).
    assert (Ecl3 : cls_of s3 o = cls_of s0 o) by (apply shaped_cls_eq; exact Sh3).
    assert (NoConflict : forall y, is_enabled s3 o y = true -> ~ In y (f_excl (feat T (cls_of s0 o) f))).
    { intros y Hy Hin. destruct (T03 o y Hy) as [X|[[_ X]|X]]; [| |lia].
      - rewrite Ecl in Eex. assert (existsb (fun g => is_enabled s o g) (f_excl (feat T (cls_of s0 o) f)) = true).
        { apply existsb_exists. exists y. split; assumption. } congruence.
      - apply (Hreq _ _ _ X Hin). }
    assert (En4 : forall o' x, is_enabled s4 o' x = true -> is_enabled s3 o' x = true \/ (o' = o /\ x = f)).
    { intros o' x Hx. unfold s4, is_enabled in Hx. rewrite get_fs_set_fs in Hx.
      destruct (((o' =? o) && (o <? length s3)) && ((x =? f) && (f <? length (o_fs (get_obj s3 o'))))) eqn:Eb; [|left; exact Hx].
      right. apply andb_true_iff in Eb. destruct Eb as [Eb1 Eb2]. apply andb_true_iff in Eb1. apply andb_true_iff in Eb2.
      destruct Eb1 as [Eb1 _]. destruct Eb2 as [Eb2 _]. apply Nat.eqb_eq in Eb1. apply Nat.eqb_eq in Eb2. auto. }
    assert (Cl4 : forall o', cls_of s4 o' = cls_of s3 o').
    { intros o'. unfold s4, cls_of. rewrite get_obj_set_fs. destruct ((o' =? o) && (o <? length s3)); reflexivity. }
    assert (B4 : excl s4).
    { intros o' a b Ha Hb. rewrite Cl4 in Hb. destruct (is_enabled s4 o' b) eqn:Eb; [|reflexivity]. exfalso.
      destruct (En4 o' a Ha) as [Ha3|[Eoa Eaf]]; destruct (En4 o' b Eb) as [Hb3|[Eob Ebf]].
      - rewrite (B3 o' a b Ha3 Hb) in Hb3. discriminate.
      - subst o' b. rewrite Ecl3 in Hb. apply (NoConflict a Ha3). apply Hsym. exact Hb.
      - subst o' a. rewrite Ecl3 in Hb. apply (NoConflict b Hb3 Hb).
      - subst o' a b. rewrite Ecl3 in Hb. apply (Hirr _ _ Hb). }
    assert (T04 : trk o (Sof o f) s s4).
    { intros o' x Hx. destruct (En4 o' x Hx) as [X|[Eo1 Ex1]]; [|subst; right; left; split; [reflexivity | left; reflexivity]].
      destruct (T03 o' x X) as [Y|[[Y Z]|Y]]; auto. right; left. split; [exact Y | right; exact Z]. }
    destruct (f =? 0).
    - destruct (restore_with T (enable T n) o (o_children (get_obj s4 o)) s4) as [s5|] eqn:E5; [|discriminate]. inversion H; subst. clear H.
      assert (G5 : good o (fun _ => False) s4 s').
      { unfold restore_with in E5. eapply (loop_all_good o (fun _ => False)); [|exact E5]. intros fid a r0 b _ H0. cbv beta in H0.
        destruct (is_enabled a o fid); [|inversion H0; subst; apply good_refl].
        destruct (loop_all _ (f_children (feat T (cls_of a o) fid)) a) as [a1|] eqn:Ea; [|discriminate]. inversion H0; subst. clear H0.
        eapply (loop_all_good o (fun _ => False)); [|exact Ea]. intros g x rr y _ H1. cbv beta in H1.
        destruct (loop_all _ (o_children (get_obj s4 o)) x) as [x1|] eqn:Ex; [|discriminate]. inversion H1; subst. clear H1.
        eapply (loop_all_good o (fun _ => False)); [|exact Ex]. intros c z rr' w Hc Hcall Shz Bz.
        assert (Hc' : In c (o_children (get_obj z o))).
        { destruct Sh4 as [_ S4]. destruct Shz as [_ Sz]. destruct (S4 o) as (_ & X & _). destruct (Sz o) as (_ & Y & _). rewrite Y, <- X. exact Hc. }
        eapply (good_child o c (Sof c g) (fun _ => False) z w Shz Hc'); [eapply IH; exact Hcall | exact Shz | exact Bz]. }
      destruct (G5 Sh4 B4) as (Sh5 & B5 & T5). split; [exact Sh5|]. split; [exact B5|].
      intros o' x Hx. destruct (T5 o' x Hx) as [X|[[_ []]|X]]; auto.
    - inversion H; subst. split; [exact Sh4|]. split; [exact B4 | exact T04].
  Qed.
End EnableExcl.

(* ------------------------------------------------------------------------------------------ table facts, checkable *)
Fixpoint cl (t : table) (n : nat) (f : nat) : list nat :=
  match n with
  | O => []
  | S n => deps_of (tfeat t f) ++ flat_map (cl t n) (deps_of (tfeat t f))
  end.

Lemma reach_cl t : acyclic_check t = true -> forall n f g, rank_of t f <= n -> reach t f g -> In g (cl t n f).
Proof.
  intros Hac. induction n as [|n IH]; intros f g Hr H.
  - exfalso. inversion H as [f0 g0 Hin|f0 h g0 Hin _]; subst; pose proof (acyclic_check_rank t Hac _ _ Hin); lia.
  - cbn [cl]. apply in_or_app. inversion H as [f0 g0 Hin|f0 h g0 Hin Hhg]; subst.
    + left. exact Hin.
    + right. apply in_flat_map. exists h. split; [exact Hin|]. apply IH; [|exact Hhg].
      pose proof (acyclic_check_rank t Hac _ _ Hin). lia.
Qed.

Definition req_excl_check (t : table) : bool :=
  forallb (fun f => negb (mem_nat f (f_excl (tfeat t f))) &&
                    forallb (fun g => negb (mem_nat g (f_excl (tfeat t f)))) (cl t (length t) f))
          (seq 0 (length t)).

Lemma req_excl_check_sound t : acyclic_check t = true -> req_excl_check t = true ->
  (forall f g, reach t f g -> ~ In g (f_excl (tfeat t f))) /\ (forall f, ~ In f (f_excl (tfeat t f))).
Proof.
  intros Hac H. unfold req_excl_check in H.
  assert (Out : forall f, length t <= f -> tfeat t f = feat_default) by (intros f L; unfold tfeat; apply nth_overflow; exact L).
  split.
  - intros f g Hr Hin. destruct (Nat.lt_ge_cases f (length t)) as [L|L].
    + pose proof (forallb_seq _ _ H f L) as H1. cbv beta in H1. apply andb_true_iff in H1. destruct H1 as [_ H1].
      rewrite forallb_forall in H1. specialize (H1 g (reach_cl t Hac (length t) f g (depth_le t (length t) f) Hr)).
      apply negb_true_iff in H1. apply mem_nat_In in Hin. congruence.
    + rewrite (Out f L) in Hin. contradiction.
  - intros f Hin. destruct (Nat.lt_ge_cases f (length t)) as [L|L].
    + pose proof (forallb_seq _ _ H f L) as H1. cbv beta in H1. apply andb_true_iff in H1. destruct H1 as [H1 _].
      apply negb_true_iff in H1. apply mem_nat_In in Hin. congruence.
    + rewrite (Out f L) in Hin. contradiction.
Qed.

Definition excl_tables_check (T : tables) : bool :=
  forallb acyclic_check T && forallb excl_sym_check T && forallb req_excl_check T.

(* the three table hypotheses of enable_good from the boolean checks *)
Lemma excl_tables_check_sound T : excl_tables_check T = true ->
  (forall cls f g, In g (f_excl (feat T cls f)) -> In f (f_excl (feat T cls g))) /\
  (forall cls f g, reach (nth cls T []) f g -> ~ In g (f_excl (feat T cls f))) /\
  (forall cls f, ~ In f (f_excl (feat T cls f))).
Proof.
  unfold excl_tables_check. intros H. apply andb_true_iff in H. destruct H as [H H3]. apply andb_true_iff in H. destruct H as [H1 H2].
  assert (A1 : forall cls, acyclic_check (nth cls T []) = true) by (intros cls; apply (forallb_nth acyclic_check T [] H1); reflexivity).
  assert (A2 : forall cls, excl_sym_check (nth cls T []) = true) by (intros cls; apply (forallb_nth excl_sym_check T [] H2); reflexivity).
  assert (A3 : forall cls, req_excl_check (nth cls T []) = true) by (intros cls; apply (forallb_nth req_excl_check T [] H3); reflexivity).
  split; [|split].
  - intros cls f g Hin. change (feat T cls f) with (tfeat (nth cls T []) f) in Hin. change (feat T cls g) with (tfeat (nth cls T []) g).
    destruct (Nat.lt_ge_cases f (length (nth cls T []))) as [L|L].
    + apply (excl_sym_check_sound _ (A2 cls) f g L Hin).
    + unfold tfeat in Hin. rewrite (nth_overflow _ _ L) in Hin. contradiction.
  - intros cls f g. apply (proj1 (req_excl_check_sound _ (A1 cls) (A3 cls))).
  - intros cls f. apply (proj2 (req_excl_check_sound _ (A1 cls) (A3 cls))).
Qed.

(* ------------------------------------------------------------------------------------------ statements *)
Definition heights_of (ht : nat -> nat) (s : state) : Prop :=
  forall p c, In c (o_children (get_obj s p)) -> ht c < ht p.

Theorem enable_preserves_exclusion (T : tables) (ht : nat -> nat) n o f dry top err s r s' :
  excl_tables_check T = true -> heights_of ht s -> excl_inv T s ->
  enable T n o f dry top err s = Some (r, s') -> excl_inv T s'.
Proof.
  intros Hc Hh Hx H. destruct (excl_tables_check_sound T Hc) as (A & B & C).
  destruct (enable_good T A B C ht s Hh n o f dry top err s r s' H (same_shape_refl s) Hx) as (_ & X & _). exact X.
Qed.

Theorem restore_preserves_exclusion (T : tables) (ht : nat -> nat) n o s s' :
  excl_tables_check T = true -> heights_of ht s -> excl_inv T s ->
  restore_children_deps T n o s = Some s' -> excl_inv T s'.
Proof.
  intros Hc Hh Hx H. destruct (excl_tables_check_sound T Hc) as (A & B & C).
  unfold restore_children_deps, restore_with in H.
  assert (G : good T ht s o (fun _ => False) s s').
  { eapply (loop_all_good T ht s o (fun _ => False)); [|exact H]. intros fid a r0 b _ H0. cbv beta in H0.
    destruct (is_enabled a o fid); [|inversion H0; subst; apply good_refl].
    destruct (loop_all _ (f_children (feat T (cls_of a o) fid)) a) as [a1|] eqn:Ea; [|discriminate]. inversion H0; subst. clear H0.
    eapply (loop_all_good T ht s o (fun _ => False)); [|exact Ea]. intros g x rr y _ H1. cbv beta in H1.
    destruct (loop_all _ (o_children (get_obj s o)) x) as [x1|] eqn:Ex; [|discriminate]. inversion H1; subst. clear H1.
    eapply (loop_all_good T ht s o (fun _ => False)); [|exact Ex]. intros c z rr' w Hcin Hcall Shz Bz.
    assert (Hc' : In c (o_children (get_obj z o))).
    { destruct Shz as [_ Sz]. destruct (Sz o) as (_ & Y & _). rewrite Y. exact Hcin. }
    eapply (good_child T ht s Hh o c (Sof T s c g) (fun _ => False) z w Shz Hc'); [eapply (enable_good T A B C ht s Hh); exact Hcall | exact Shz | exact Bz]. }
  destruct (G (same_shape_refl s) Hx) as (_ & X & _). exact X.
Qed.

(* finite check of excl_inv on a concrete state *)
Definition excl_check (T : tables) (s : state) : bool :=
  forallb (fun o => forallb (fun f =>
      negb (is_enabled s o f) || forallb (fun g => negb (is_enabled s o g)) (f_excl (feat T (cls_of s o) f)))
    (seq 0 (length (o_fs (get_obj s o))))) (seq 0 (length s)).

Lemma excl_check_sound T s : excl_check T s = true -> excl_inv T s.
Proof.
  unfold excl_check. intros H o f g Hf Hg.
  assert (Lo : o < length s).
  { destruct (Nat.lt_ge_cases o (length s)) as [L|L]; [exact L|]. unfold is_enabled, get_fs, get_obj in Hf.
    rewrite (nth_overflow s obj_default L) in Hf. cbn in Hf. destruct f; discriminate. }
  assert (Lf : f < length (o_fs (get_obj s o))).
  { destruct (Nat.lt_ge_cases f (length (o_fs (get_obj s o)))) as [L|L]; [exact L|]. unfold is_enabled, get_fs in Hf.
    rewrite (nth_overflow _ fs_default L) in Hf. discriminate. }
  pose proof (forallb_seq _ _ H o Lo) as H1. cbv beta in H1. pose proof (forallb_seq _ _ H1 f Lf) as H2. cbv beta in H2.
  rewrite Hf in H2. cbn [negb orb] in H2. rewrite forallb_forall in H2. specialize (H2 g Hg). apply negb_true_iff in H2. exact H2.
Qed.
