(* C13: lemmas about the dependency model (DepsModel.v). *)
From Coq Require Import ZArith List Bool Arith Lia.
From CV Require Import C13.DepsModel.
Import ListNotations.
Open Scope nat_scope.

(* ------------------------------------------------------------------------------------------
   Table properties: Prop statements, boolean checkers, soundness of the checkers.
   The checkers are run (vm_compute) on the tables regenerated from the binary. *)

Definition deps_of (ft : feature) : list nat := f_self ft ++ concat (f_alt ft).
Definition tfeat (t : table) (f : nat) : feature := nth f t feat_default.

(* the requires_self / requires_alt graph of a class has a rank that strictly decreases along every edge *)
Definition acyclic (t : table) : Prop :=
  exists rank : nat -> nat, forall f g, f < length t -> In g (deps_of (tfeat t f)) ->
    g < length t /\ rank g < rank f.

Definition exclusions_symmetric (t : table) : Prop :=
  forall f g, f < length t -> In g (f_excl (tfeat t f)) -> g < length t /\ In f (f_excl (tfeat t g)).

(* children of a bias are variables, of a variable components, of a component atom groups *)
Definition child_class (cls : nat) : nat := match cls with 0 => 1 | 1 => 2 | _ => 3 end.

Definition children_ids_valid (T : tables) : Prop :=
  forall cls f g, cls < length T -> f < nfeat T cls -> In g (f_children (feat T cls f)) -> g < nfeat T (child_class cls).

Fixpoint depth (t : table) (n : nat) (f : nat) : nat :=
  match n with
  | O => 0
  | S n => S (fold_right (fun g m => Nat.max (depth t n g) m) 0 (deps_of (tfeat t f)))
  end.

Definition rank_of (t : table) (f : nat) : nat := depth t (length t) f.

Definition acyclic_check (t : table) : bool :=
  forallb (fun f => forallb (fun g => (g <? length t) && (rank_of t g <? rank_of t f)) (deps_of (tfeat t f)))
          (seq 0 (length t)).

Definition mem_nat (x : nat) (l : list nat) : bool := existsb (Nat.eqb x) l.

Definition excl_sym_check (t : table) : bool :=
  forallb (fun f => forallb (fun g => (g <? length t) && mem_nat f (f_excl (tfeat t g))) (f_excl (tfeat t f)))
          (seq 0 (length t)).

Definition children_ids_check (T : tables) : bool :=
  forallb (fun cls => forallb (fun f => forallb (fun g => g <? nfeat T (child_class cls)) (f_children (feat T cls f)))
                              (seq 0 (nfeat T cls)))
          (seq 0 (length T)).

Lemma mem_nat_In x l : mem_nat x l = true <-> In x l.
Proof.
  unfold mem_nat. rewrite existsb_exists. split.
  - intros [y [Hy He]]. apply Nat.eqb_eq in He. subst. exact Hy.
  - intros H. exists x. split; [exact H | apply Nat.eqb_refl].
Qed.

Lemma forallb_seq (p : nat -> bool) n : forallb p (seq 0 n) = true -> forall f, f < n -> p f = true.
Proof.
  intros H f Hf. rewrite forallb_forall in H. apply H. apply in_seq. lia.
Qed.

Lemma acyclic_check_sound t : acyclic_check t = true -> acyclic t.
Proof.
  intros H. exists (rank_of t). intros f g Hf Hg.
  unfold acyclic_check in H. pose proof (forallb_seq _ _ H f Hf) as H1. cbv beta in H1.
  rewrite forallb_forall in H1. specialize (H1 g Hg).
  apply andb_true_iff in H1. destruct H1 as [Ha Hb].
  apply Nat.ltb_lt in Ha. apply Nat.ltb_lt in Hb. split; assumption.
Qed.

Lemma excl_sym_check_sound t : excl_sym_check t = true -> exclusions_symmetric t.
Proof.
  intros H f g Hf Hg.
  unfold excl_sym_check in H. pose proof (forallb_seq _ _ H f Hf) as H1. cbv beta in H1.
  rewrite forallb_forall in H1. specialize (H1 g Hg).
  apply andb_true_iff in H1. destruct H1 as [Ha Hb].
  apply Nat.ltb_lt in Ha. apply mem_nat_In in Hb. split; assumption.
Qed.

Lemma children_ids_check_sound T : children_ids_check T = true -> children_ids_valid T.
Proof.
  intros H cls f g Hc Hf Hg.
  unfold children_ids_check in H. pose proof (forallb_seq _ _ H cls Hc) as H1. cbv beta in H1.
  pose proof (forallb_seq _ _ H1 f Hf) as H2. cbv beta in H2.
  rewrite forallb_forall in H2. specialize (H2 g Hg). apply Nat.ltb_lt in H2. exact H2.
Qed.

Lemma Forall_forallb {A} (p : A -> bool) (P : A -> Prop) (l : list A) :
  (forall x, p x = true -> P x) -> forallb p l = true -> Forall P l.
Proof.
  intros Hs H. rewrite forallb_forall in H. apply Forall_forall. intros x Hx. apply Hs. apply H. exact Hx.
Qed.
