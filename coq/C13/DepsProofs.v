(* C13: lemmas about the dependency model (DepsModel.v). *)
From Coq Require Import ZArith List Bool Arith Lia.
From CV Require Import C13.DepsModel.
Import ListNotations.
Open Scope nat_scope.

(* ------------------------------------------------------------------------------------------
   Table properties: Prop statements, boolean checkers, soundness of the checkers.
   The checkers are run (vm_compute) on the tables regenerated from the binary. *)

Definition deps_of (ft : feature) : list nat := f_self ft ++ concat (f_alt ft).
Definition tfeat (t : table) (f : nat) : feature := nth f t feat_default.

(* the requires_self / requires_alt graph of a class has a rank that strictly decreases along every edge *)
Definition acyclic (t : table) : Prop :=
  exists rank : nat -> nat, forall f g, f < length t -> In g (deps_of (tfeat t f)) ->
    g < length t /\ rank g < rank f.

Definition exclusions_symmetric (t : table) : Prop :=
  forall f g, f < length t -> In g (f_excl (tfeat t f)) -> g < length t /\ In f (f_excl (tfeat t g)).

(* children of a bias are variables, of a variable components, of a component atom groups *)
Definition child_class (cls : nat) : nat := match cls with 0 => 1 | 1 => 2 | _ => 3 end.

Definition children_ids_valid (T : tables) : Prop :=
  forall cls f g, cls < length T -> f < nfeat T cls -> In g (f_children (feat T cls f)) -> g < nfeat T (child_class cls).

Fixpoint depth (t : table) (n : nat) (f : nat) : nat :=
  match n with
  | O => 0
  | S n => S (fold_right (fun g m => Nat.max (depth t n g) m) 0 (deps_of (tfeat t f)))
  end.

Definition rank_of (t : table) (f : nat) : nat := depth t (length t) f.

Definition acyclic_check (t : table) : bool :=
  forallb (fun f => forallb (fun g => (g <? length t) && (rank_of t g <? rank_of t f)) (deps_of (tfeat t f)))
          (seq 0 (length t)).

Definition mem_nat (x : nat) (l : list nat) : bool := existsb (Nat.eqb x) l.

Definition excl_sym_check (t : table) : bool :=
  forallb (fun f => forallb (fun g => (g <? length t) && mem_nat f (f_excl (tfeat t g))) (f_excl (tfeat t f)))
          (seq 0 (length t)).

Definition children_ids_check (T : tables) : bool :=
  forallb (fun cls => forallb (fun f => forallb (fun g => g <? nfeat T (child_class cls)) (f_children (feat T cls f)))
                              (seq 0 (nfeat T cls)))
          (seq 0 (length T)).

Lemma mem_nat_In x l : mem_nat x l = true <-> In x l.
Proof.
  unfold mem_nat. rewrite existsb_exists. split.
  - intros [y [Hy He]]. apply Nat.eqb_eq in He. subst. exact Hy.
  - intros H. exists x. split; [exact H | apply Nat.eqb_refl].
Qed.

Lemma forallb_seq (p : nat -> bool) n : forallb p (seq 0 n) = true -> forall f, f < n -> p f = true.
Proof.
  intros H f Hf. rewrite forallb_forall in H. apply H. apply in_seq. lia.
Qed.

Lemma acyclic_check_sound t : acyclic_check t = true -> acyclic t.
Proof.
  intros H. exists (rank_of t). intros f g Hf Hg.
  unfold acyclic_check in H. pose proof (forallb_seq _ _ H f Hf) as H1. cbv beta in H1.
  rewrite forallb_forall in H1. specialize (H1 g Hg).
  apply andb_true_iff in H1. destruct H1 as [Ha Hb].
  apply Nat.ltb_lt in Ha. apply Nat.ltb_lt in Hb. split; assumption.
Qed.

Lemma excl_sym_check_sound t : excl_sym_check t = true -> exclusions_symmetric t.
Proof.
  intros H f g Hf Hg.
  unfold excl_sym_check in H. pose proof (forallb_seq _ _ H f Hf) as H1. cbv beta in H1.
  rewrite forallb_forall in H1. specialize (H1 g Hg).
  apply andb_true_iff in H1. destruct H1 as [Ha Hb].
  apply Nat.ltb_lt in Ha. apply mem_nat_In in Hb. split; assumption.
Qed.

Lemma children_ids_check_sound T : children_ids_check T = true -> children_ids_valid T.
Proof.
  intros H cls f g Hc Hf Hg.
  unfold children_ids_check in H. pose proof (forallb_seq _ _ H cls Hc) as H1. cbv beta in H1.
  pose proof (forallb_seq _ _ H1 f Hf) as H2. cbv beta in H2.
  rewrite forallb_forall in H2. specialize (H2 g Hg). apply Nat.ltb_lt in H2. exact H2.
Qed.

Lemma Forall_forallb {A} (p : A -> bool) (P : A -> Prop) (l : list A) :
  (forall x, p x = true -> P x) -> forallb p l = true -> Forall P l.
Proof.
  intros Hs H. rewrite forallb_forall in H. apply Forall_forall. intros x Hx. apply Hs. apply H. exact Hx.
Qed.

(* ------------------------------------------------------------------------------------------
   A generic induction over the enable family and over the release family: any reflexive,
   transitive relation that holds across each elementary write of the code holds across a whole
   call (successful or failed, any flags, any fuel). *)

Ltac dm H :=
  match type of H with
  | context [match ?x with _ => _ end] => destruct x eqn:?
  | context [if ?x then _ else _] => destruct x eqn:?
  end.

Section Generic.
  Variable T : tables.
  Variable R : state -> state -> Prop.
  Hypothesis Rrefl : forall s, R s s.
  Hypothesis Rtrans : forall a b c, R a b -> R b c -> R a c.

  Lemma loop_abort_rel (call : nat -> state -> res) :
    (forall g s r s', call g s = Some (r, s') -> R s s') ->
    forall gs s r s', loop_abort call gs s = Some (r, s') -> R s s'.
  Proof.
    intros Hc gs. induction gs as [|g gs IH]; intros s r s' H; cbn [loop_abort] in H.
    - inversion H; subst. apply Rrefl.
    - destruct (call g s) as [[b s1]|] eqn:E; try discriminate.
      destruct b.
      + eapply Rtrans; [eapply Hc; exact E | eapply IH; exact H].
      + inversion H; subst. eapply Hc; exact E.
  Qed.

  Lemma loop_all_rel (call : nat -> state -> res) :
    (forall g s r s', call g s = Some (r, s') -> R s s') ->
    forall gs s s', loop_all call gs s = Some s' -> R s s'.
  Proof.
    intros Hc gs. induction gs as [|g gs IH]; intros s s' H; cbn [loop_all] in H.
    - inversion H; subst. apply Rrefl.
    - destruct (call g s) as [[b s1]|] eqn:E; try discriminate.
      eapply Rtrans; [eapply Hc; exact E | eapply IH; exact H].
  Qed.

  Section EnableFamily.
    Hypothesis Rbump : forall s o f, R s (set_fs s o f fs_bump).
    Hypothesis Rpush : forall s o f g, R s (set_fs s o f (fs_push_alt g)).
    Hypothesis Ron : forall s o f top, R s (set_fs s o f (fs_turn_on top)).

    Variable E : efun.
    Hypothesis HE : forall o f d t e s r s', E o f d t e s = Some (r, s') -> R s s'.

    Lemma restore_with_rel o cs s s' : restore_with T E o cs s = Some s' -> R s s'.
    Proof.
      unfold restore_with. apply loop_all_rel. intros fid s1 r s2 H.
      destruct (is_enabled s1 o fid).
      - destruct (loop_all _ (f_children (feat T (cls_of s1 o) fid)) s1) as [s3|] eqn:E1; try discriminate.
        inversion H; subst. revert E1. apply loop_all_rel. intros g s4 r' s5 H2.
        destruct (loop_all _ cs s4) as [s6|] eqn:E2; try discriminate.
        inversion H2; subst. revert E2. apply loop_all_rel. intros c s7 r'' s8 H3. eapply HE; exact H3.
      - inversion H; subst. apply Rrefl.
    Qed.

    Lemma alt_probe_rel o f dry err gs : forall s r s', alt_probe E o f dry err gs s = Some (r, s') -> R s s'.
    Proof.
      induction gs as [|g gs IH]; intros s r s' H; cbn [alt_probe] in H.
      - inversion H; subst. apply Rrefl.
      - destruct (E o g true false err s) as [[b s1]|] eqn:E1; try discriminate.
        pose proof (HE _ _ _ _ _ _ _ _ E1) as R1.
        destruct b.
        + destruct (negb dry || err).
          * destruct (E o g false false err s1) as [[b2 s2]|] eqn:E2; try discriminate.
            inversion H; subst.
            eapply Rtrans; [exact R1|]. eapply Rtrans; [eapply HE; exact E2 | apply Rpush].
          * inversion H; subst. exact R1.
        + eapply Rtrans; [exact R1 | eapply IH; exact H].
    Qed.

    Lemma alt_one_rel o f dry err gs s r s' : alt_one E o f dry err gs s = Some (r, s') -> R s s'.
    Proof.
      unfold alt_one. intros H.
      destruct (alt_probe E o f dry err gs s) as [[b s1]|] eqn:E1; try discriminate.
      pose proof (alt_probe_rel _ _ _ _ _ _ _ _ E1) as R1.
      destruct b.
      - inversion H; subst. exact R1.
      - destruct (negb dry).
        + destruct (loop_all _ gs s1) as [s2|] eqn:E2; try discriminate.
          inversion H; subst. eapply Rtrans; [exact R1|]. revert E2. apply loop_all_rel.
          intros g s3 r' s4 H3. eapply HE; exact H3.
        + inversion H; subst. exact R1.
    Qed.

    Lemma loop_alts_rel o f dry err alts : forall s r s', loop_alts E o f dry err alts s = Some (r, s') -> R s s'.
    Proof.
      induction alts as [|gs alts IH]; intros s r s' H; cbn [loop_alts] in H.
      - inversion H; subst. apply Rrefl.
      - destruct (alt_one E o f dry err gs s) as [[b s1]|] eqn:E1; try discriminate.
        pose proof (alt_one_rel _ _ _ _ _ _ _ _ E1) as R1.
        destruct b.
        + eapply Rtrans; [exact R1 | eapply IH; exact H].
        + inversion H; subst. exact R1.
    Qed.
  End EnableFamily.

  Section EnableInd.
    Hypothesis Rbump : forall s o f, R s (set_fs s o f fs_bump).
    Hypothesis Rpush : forall s o f g, R s (set_fs s o f (fs_push_alt g)).
    Hypothesis Ron : forall s o f top, R s (set_fs s o f (fs_turn_on top)).

    Lemma enable_rel n : forall o f dry top err s r s', enable T n o f dry top err s = Some (r, s') -> R s s'.
    Proof.
      induction n as [|n IH]; intros o f dry top err s r s' H; cbn [enable] in H; try discriminate.
      destruct (negb (f <? nfeat T (cls_of s o))); [inversion H; subst; apply Rrefl|].
      destruct (fs_enabled (get_fs s o f)).
      { inversion H; subst. destruct (negb (dry || top)); [apply Rbump | apply Rrefl]. }
      destruct (negb (fs_avail (get_fs s o f))); [inversion H; subst; apply Rrefl|].
      destruct (negb top && negb (is_dynamic (feat T (cls_of s o) f))); [inversion H; subst; apply Rrefl|].
      destruct (existsb _ _); [inversion H; subst; apply Rrefl|].
      destruct (loop_abort _ (f_self (feat T (cls_of s o) f)) s) as [[b1 s1]|] eqn:E1; try discriminate.
      assert (R1 : R s s1).
      { revert E1. apply loop_abort_rel. intros g s0 r0 s0' H0. eapply IH; exact H0. }
      destruct b1; [|inversion H; subst; exact R1].
      destruct (loop_alts (enable T n) o f dry err _ s1) as [[b2 s2]|] eqn:E2; try discriminate.
      assert (R2 : R s1 s2).
      { eapply loop_alts_rel; [exact Rpush | exact IH | exact E2]. }
      destruct b2; [|inversion H; subst; eapply Rtrans; eassumption].
      destruct (loop_abort _ (f_children (feat T (cls_of s o) f)) s2) as [[b3 s3]|] eqn:E3; try discriminate.
      assert (R3 : R s2 s3).
      { revert E3. apply loop_abort_rel. intros g s0 r0 s0' H0. revert H0. apply loop_abort_rel.
        intros c s4 r4 s4' H4. eapply IH; exact H4. }
      assert (R03 : R s s3) by (eapply Rtrans; [exact R1 | eapply Rtrans; eassumption]).
      destruct b3; [|inversion H; subst; exact R03].
      destruct dry; [inversion H; subst; exact R03|].
      destruct (f =? 0).
      - destruct (restore_with T (enable T n) o _ _) as [s5|] eqn:E5; try discriminate.
        inversion H; subst. eapply Rtrans; [exact R03|]. eapply Rtrans; [apply Ron|].
        eapply restore_with_rel; [exact IH | exact E5].
      - inversion H; subst. eapply Rtrans; [exact R03 | apply Ron].
    Qed.

    Lemma restore_children_deps_rel n o s s' : restore_children_deps T n o s = Some s' -> R s s'.
    Proof. unfold restore_children_deps. apply restore_with_rel. apply enable_rel. Qed.
  End EnableInd.

  Section ReleaseFamily.
    Hypothesis Rdecr : forall s o f, R s (set_fs s o f fs_decr).
    Hypothesis Rclear : forall s o f, R s (set_fs s o f fs_clear_alt).
    Hypothesis Roff : forall s o f, R s (set_fs s o f fs_turn_off).

    Lemma decr_with_rel (Dd : dfun) :
      (forall o f s r s', Dd o f s = Some (r, s') -> R s s') ->
      forall o f s r s', decr_with T Dd o f s = Some (r, s') -> R s s'.
    Proof.
      intros HD o f s r s' H. unfold decr_with in H.
      destruct (fs_rc (get_fs s o f) <=? 0)%Z; [inversion H; subst; apply Rrefl|].
      destruct ((fs_rc (get_fs s o f) - 1 =? 0)%Z && is_dynamic (feat T (cls_of s o) f))%bool.
      - destruct (Dd o f (set_fs s o f fs_decr)) as [[b s2]|] eqn:E2; try discriminate.
        inversion H; subst. eapply Rtrans; [apply Rdecr | eapply HD; exact E2].
      - inversion H; subst. apply Rdecr.
    Qed.

    Lemma decr_children_rel (Dd : dfun) :
      (forall o f s r s', Dd o f s = Some (r, s') -> R s s') ->
      forall cs gs s s', decr_children T Dd cs gs s = Some s' -> R s s'.
    Proof.
      intros HD cs gs s s'. unfold decr_children. apply loop_all_rel. intros g s1 r s2 H.
      destruct (loop_all _ cs s1) as [s3|] eqn:E1; try discriminate. inversion H; subst.
      revert E1. apply loop_all_rel. intros c s4 r' s5 H2. eapply decr_with_rel; [exact HD | exact H2].
    Qed.

    Lemma free_with_rel (Dd : dfun) :
      (forall o f s r s', Dd o f s = Some (r, s') -> R s s') ->
      forall o s s', free_with T Dd o s = Some s' -> R s s'.
    Proof.
      intros HD o s s'. unfold free_with. apply loop_all_rel. intros fid s1 r s2 H.
      destruct (is_enabled s1 o fid).
      - destruct (decr_children T Dd _ _ s1) as [s3|] eqn:E1; try discriminate. inversion H; subst.
        eapply decr_children_rel; [exact HD | exact E1].
      - inversion H; subst. apply Rrefl.
    Qed.

    Lemma disable_rel n : forall o f s r s', disable T n o f s = Some (r, s') -> R s s'.
    Proof.
      induction n as [|n IH]; intros o f s r s' H; cbn [disable] in H; try discriminate.
      destruct (negb (fs_enabled (get_fs s o f))); [inversion H; subst; apply Rrefl|].
      destruct (1 <? fs_rc (get_fs s o f))%Z; [inversion H; subst; apply Rrefl|].
      destruct (loop_all _ (f_self (feat T (cls_of s o) f)) s) as [s1|] eqn:E1; try discriminate.
      assert (R1 : R s s1).
      { revert E1. apply loop_all_rel. intros g s0 r0 s0' H0. eapply decr_with_rel; [exact IH | exact H0]. }
      destruct (loop_all _ (fs_alt (get_fs s1 o f)) s1) as [s2|] eqn:E2; try discriminate.
      assert (R2 : R s1 s2).
      { revert E2. apply loop_all_rel. intros g s0 r0 s0' H0. eapply decr_with_rel; [exact IH | exact H0]. }
      set (s3 := set_fs s2 o f fs_clear_alt) in *.
      assert (R3 : R s s3) by (eapply Rtrans; [exact R1 | eapply Rtrans; [exact R2 | apply Rclear]]).
      destruct (if is_enabled s3 o 0 then decr_children T (disable T n) (o_children (get_obj s3 o)) (f_children (feat T (cls_of s o) f)) s3 else Some s3) as [s4|] eqn:E4; try discriminate.
      assert (R4 : R s3 s4).
      { destruct (is_enabled s3 o 0).
        - eapply decr_children_rel; [exact IH | exact E4].
        - inversion E4; subst. apply Rrefl. }
      assert (R5 : R s (set_fs s4 o f fs_turn_off)) by (eapply Rtrans; [exact R3 | eapply Rtrans; [exact R4 | apply Roff]]).
      destruct (f =? 0).
      - destruct (free_with T (disable T n) o _) as [s6|] eqn:E6; try discriminate.
        inversion H; subst. eapply Rtrans; [exact R5|]. eapply free_with_rel; [exact IH | exact E6].
      - inversion H; subst. exact R5.
    Qed.

    Lemma decr_ref_count_rel n o f s r s' : decr_ref_count T n o f s = Some (r, s') -> R s s'.
    Proof. unfold decr_ref_count. apply decr_with_rel. apply disable_rel. Qed.

    Lemma free_children_deps_rel n o s s' : free_children_deps T n o s = Some s' -> R s s'.
    Proof. unfold free_children_deps. apply free_with_rel. apply disable_rel. Qed.
  End ReleaseFamily.
End Generic.

(* ------------------------------------------------------------------------------------------
   Frame facts: what no primitive ever touches; monotonicity of the two families. *)

Lemma length_upd_nth {A} (l : list A) k u : length (upd_nth l k u) = length l.
Proof. revert k. induction l as [|x l IH]; intros [|k]; cbn [upd_nth length]; auto. Qed.

Lemma nth_upd_nth {A} (l : list A) j k u d :
  nth k (upd_nth l j u) d = if (k =? j) && (j <? length l) then u (nth k l d) else nth k l d.
Proof.
  revert j k. induction l as [|x l IH]; intros j k.
  - cbn [upd_nth length]. destruct j, k; cbn; try reflexivity; rewrite ?andb_false_r; reflexivity.
  - destruct j as [|j], k as [|k]; cbn [upd_nth nth length]; try reflexivity.
    rewrite IH. cbn [Nat.eqb]. replace (S j <? S (length l)) with (j <? length l); [reflexivity|].
    destruct (j <? length l) eqn:E; symmetry; [apply Nat.ltb_lt; apply Nat.ltb_lt in E; lia | apply Nat.ltb_ge; apply Nat.ltb_ge in E; lia].
Qed.

(* the part of the state that only add_child / remove_all_children may change *)
Definition same_shape (s s' : state) : Prop :=
  length s' = length s /\
  forall o, o_class (get_obj s' o) = o_class (get_obj s o) /\
            o_children (get_obj s' o) = o_children (get_obj s o) /\
            o_parents (get_obj s' o) = o_parents (get_obj s o) /\
            length (o_fs (get_obj s' o)) = length (o_fs (get_obj s o)) /\
            forall f, fs_avail (get_fs s' o f) = fs_avail (get_fs s o f).

Lemma same_shape_refl s : same_shape s s.
Proof. split; [reflexivity|]. intros o. repeat split; reflexivity. Qed.

Lemma same_shape_trans a b c : same_shape a b -> same_shape b c -> same_shape a c.
Proof.
  intros [L1 H1] [L2 H2]. split; [congruence|]. intros o.
  destruct (H1 o) as (A1 & B1 & C1 & D1 & E1). destruct (H2 o) as (A2 & B2 & C2 & D2 & E2).
  repeat split; try congruence. all: try (intros f; rewrite E2; apply E1).
Qed.

Lemma get_obj_set_fs s o f u o' :
  get_obj (set_fs s o f u) o' =
  if (o' =? o) && (o <? length s)
  then mkObj (o_class (get_obj s o')) (upd_nth (o_fs (get_obj s o')) f u) (o_children (get_obj s o')) (o_parents (get_obj s o'))
  else get_obj s o'.
Proof. unfold get_obj, set_fs, upd_obj. rewrite nth_upd_nth. reflexivity. Qed.

Lemma get_fs_set_fs s o f u o' f' :
  get_fs (set_fs s o f u) o' f' =
  if ((o' =? o) && (o <? length s)) && ((f' =? f) && (f <? length (o_fs (get_obj s o'))))
  then u (get_fs s o' f') else get_fs s o' f'.
Proof.
  unfold get_fs. rewrite get_obj_set_fs. destruct ((o' =? o) && (o <? length s)); cbn [andb o_fs]; [|reflexivity].
  rewrite nth_upd_nth. reflexivity.
Qed.

Lemma set_fs_shape s o f u : (forall x, fs_avail (u x) = fs_avail x) -> same_shape s (set_fs s o f u).
Proof.
  intros Hu. split.
  - unfold set_fs, upd_obj. apply length_upd_nth.
  - intros o'. rewrite get_obj_set_fs. destruct ((o' =? o) && (o <? length s)) eqn:E.
    + cbn [o_class o_children o_parents o_fs]. repeat split; try reflexivity.
      * apply length_upd_nth.
      * intros f'. rewrite get_fs_set_fs. rewrite E. cbn [andb].
        destruct ((f' =? f) && (f <? length (o_fs (get_obj s o')))); [apply Hu | reflexivity].
    + repeat split; try reflexivity. intros f'. rewrite get_fs_set_fs. rewrite E. reflexivity.
Qed.

Definition never_disables (s s' : state) : Prop := forall o f, is_enabled s o f = true -> is_enabled s' o f = true.
Definition never_enables (s s' : state) : Prop := forall o f, is_enabled s' o f = true -> is_enabled s o f = true.

Lemma set_fs_never_disables s o f u : (forall x, fs_enabled x = true -> fs_enabled (u x) = true) -> never_disables s (set_fs s o f u).
Proof.
  intros Hu o' f' H. unfold is_enabled in *. rewrite get_fs_set_fs.
  destruct (_ && _); [apply Hu; exact H | exact H].
Qed.

Lemma set_fs_never_enables s o f u : (forall x, fs_enabled (u x) = true -> fs_enabled x = true) -> never_enables s (set_fs s o f u).
Proof.
  intros Hu o' f' H. unfold is_enabled in *. rewrite get_fs_set_fs in H.
  destruct (_ && _); [apply Hu; exact H | exact H].
Qed.

Section Frames.
  Variable T : tables.

  Definition release_op (p : op) : bool :=
    match p with OpDisable _ _ | OpDecr _ _ | OpFree _ => true | _ => false end.

  Lemma run_op_shape n p s r s' : run_op T n p s = Some (r, s') -> same_shape s s'.
  Proof.
    pose proof same_shape_refl as Rr. pose proof same_shape_trans as Rt.
    assert (Hs : forall s o f u, (forall x, fs_avail (u x) = fs_avail x) -> same_shape s (set_fs s o f u))
      by (intros; apply set_fs_shape; assumption).
    destruct p as [o f dry top err|o f|o f|o|o]; cbn [run_op]; intros H.
    - eapply (enable_rel T same_shape Rr Rt); try exact H; intros; apply Hs; intros x; reflexivity.
    - eapply (disable_rel T same_shape Rr Rt); try exact H; intros; apply Hs; intros x; reflexivity.
    - eapply (decr_ref_count_rel T same_shape Rr Rt); try exact H; intros; apply Hs; intros x; reflexivity.
    - destruct (free_children_deps T n o s) as [s2|] eqn:E; try discriminate. inversion H; subst.
      eapply (free_children_deps_rel T same_shape Rr Rt); try exact E; intros; apply Hs; intros x; reflexivity.
    - destruct (restore_children_deps T n o s) as [s2|] eqn:E; try discriminate. inversion H; subst.
      eapply (restore_children_deps_rel T same_shape Rr Rt); try exact E; intros; apply Hs; intros x; reflexivity.
  Qed.

  Lemma release_never_enables n p s r s' : release_op p = true -> run_op T n p s = Some (r, s') -> never_enables s s'.
  Proof.
    assert (Rr : forall s, never_enables s s) by (intros ? ? ? H; exact H).
    assert (Rt : forall a b c, never_enables a b -> never_enables b c -> never_enables a c)
      by (intros a b c H1 H2 o f H; apply H1; apply H2; exact H).
    assert (Hd : forall s o f, never_enables s (set_fs s o f fs_decr)) by (intros; apply set_fs_never_enables; intros x Hx; exact Hx).
    assert (Hc : forall s o f, never_enables s (set_fs s o f fs_clear_alt)) by (intros; apply set_fs_never_enables; intros x Hx; exact Hx).
    assert (Ho : forall s o f, never_enables s (set_fs s o f fs_turn_off)) by (intros; apply set_fs_never_enables; intros x Hx; cbn in Hx; discriminate).
    destruct p as [o f dry top err|o f|o f|o|o]; cbn [run_op release_op]; intros Hp H; try discriminate.
    - eapply (disable_rel T never_enables Rr Rt Hd Hc Ho); exact H.
    - eapply (decr_ref_count_rel T never_enables Rr Rt Hd Hc Ho); exact H.
    - destruct (free_children_deps T n o s) as [s2|] eqn:E; try discriminate. inversion H; subst.
      eapply (free_children_deps_rel T never_enables Rr Rt Hd Hc Ho); exact E.
  Qed.

  Lemma enable_family_never_disables n p s r s' : release_op p = false -> run_op T n p s = Some (r, s') -> never_disables s s'.
  Proof.
    assert (Rr : forall s, never_disables s s) by (intros ? ? ? H; exact H).
    assert (Rt : forall a b c, never_disables a b -> never_disables b c -> never_disables a c)
      by (intros a b c H1 H2 o f H; apply H2; apply H1; exact H).
    assert (Hb : forall s o f, never_disables s (set_fs s o f fs_bump)) by (intros; apply set_fs_never_disables; intros x Hx; exact Hx).
    assert (Hp : forall s o f g, never_disables s (set_fs s o f (fs_push_alt g))) by (intros; apply set_fs_never_disables; intros x Hx; exact Hx).
    assert (Ho : forall s o f top, never_disables s (set_fs s o f (fs_turn_on top))) by (intros; apply set_fs_never_disables; intros x Hx; reflexivity).
    destruct p as [o f dry top err|o f|o f|o|o]; cbn [run_op release_op]; intros Hq H; try discriminate.
    - eapply (enable_rel T never_disables Rr Rt Hb Hp Ho); exact H.
    - destruct (restore_children_deps T n o s) as [s2|] eqn:E; try discriminate. inversion H; subst.
      eapply (restore_children_deps_rel T never_disables Rr Rt Hb Hp Ho); exact E.
  Qed.

  (* mutually exclusive capabilities are never enabled together *)
  Definition excl_inv (s : state) : Prop :=
    forall o f g, is_enabled s o f = true -> In g (f_excl (feat T (cls_of s o) f)) -> is_enabled s o g = false.

  Lemma release_preserves_excl n p s r s' :
    release_op p = true -> run_op T n p s = Some (r, s') -> excl_inv s -> excl_inv s'.
  Proof.
    intros Hp H Hi o f g Hf Hg.
    pose proof (release_never_enables _ _ _ _ _ Hp H) as Hm.
    pose proof (run_op_shape _ _ _ _ _ H) as [_ Hs].
    destruct (Hs o) as (Hc & _).
    unfold cls_of in Hg. rewrite Hc in Hg.
    specialize (Hi o f g (Hm _ _ Hf) Hg).
    destruct (is_enabled s' o g) eqn:E; [|reflexivity].
    apply Hm in E. congruence.
  Qed.

  (* the guard of disable: a feature with more than one reference is not switched off *)
  Lemma disable_refuses n o f s : (1 < fs_rc (get_fs s o f))%Z -> is_enabled s o f = true ->
    disable T (S n) o f s = Some (false, s).
  Proof.
    intros Hrc He. cbn [disable]. unfold is_enabled in He. rewrite He. cbn [negb].
    apply Z.ltb_lt in Hrc. rewrite Hrc. reflexivity.
  Qed.

  (* a feature that is already enabled is never re-resolved: a dependency call only adds one reference *)
  Lemma enable_enabled_bumps n o f err s : f < nfeat T (cls_of s o) -> is_enabled s o f = true ->
    enable T (S n) o f false false err s = Some (true, set_fs s o f fs_bump).
  Proof.
    intros Hf He. cbn [enable]. apply Nat.ltb_lt in Hf. rewrite Hf. cbn [negb].
    unfold is_enabled in He. rewrite He. reflexivity.
  Qed.
End Frames.

(* ------------------------------------------------------------------------------------------
   Deleting an inactive bias (colvarbias::clear after the fix): only links change. *)

Lemma get_fs_out_of_range s o f :
  (o <? length s) && (f <? length (o_fs (get_obj s o))) = false -> get_fs s o f = fs_default.
Proof.
  intros H. unfold get_fs. apply andb_false_iff in H. destruct H as [H|H].
  - apply Nat.ltb_ge in H. unfold get_obj. rewrite (nth_overflow _ _ H). cbn. destruct f; reflexivity.
  - apply Nat.ltb_ge in H. apply nth_overflow. exact H.
Qed.

Lemma get_fs_upd_obj_links s o u o' f :
  (forall ob, o_fs (u ob) = o_fs ob) -> get_fs (upd_obj s o u) o' f = get_fs s o' f.
Proof.
  intros Hu. unfold get_fs, get_obj, upd_obj. rewrite nth_upd_nth.
  destruct ((o' =? o) && (o <? length s)); [rewrite Hu|]; reflexivity.
Qed.

Lemma remove_all_children_fs o s o' f : get_fs (remove_all_children o s) o' f = get_fs s o' f.
Proof.
  unfold remove_all_children. rewrite get_fs_upd_obj_links by (intros ob; reflexivity).
  generalize (o_children (get_obj s o)). intros cs. revert s.
  induction cs as [|c cs IH]; intros s; cbn [fold_left]; [reflexivity|].
  rewrite IH. apply get_fs_upd_obj_links. intros ob; reflexivity.
Qed.

Lemma delete_bias_inactive T n o s :
  is_enabled s o 0 = false -> delete_bias T n o s = Some (remove_all_children o s).
Proof. intros H. unfold delete_bias. rewrite H. reflexivity. Qed.

(* a successful disable leaves the feature off *)
Lemma disable_turns_off T n : forall o f s s', disable T n o f s = Some (true, s') -> is_enabled s' o f = false.
Proof.
  destruct n as [|n]; intros o f s s' H; cbn [disable] in H; try discriminate.
  destruct (negb (fs_enabled (get_fs s o f))) eqn:E0.
  { inversion H; subst. unfold is_enabled. apply negb_true_iff in E0. exact E0. }
  destruct (1 <? fs_rc (get_fs s o f))%Z; [discriminate|].
  destruct (loop_all _ (f_self (feat T (cls_of s o) f)) s) as [s1|]; try discriminate.
  destruct (loop_all _ (fs_alt (get_fs s1 o f)) s1) as [s2|]; try discriminate.
  destruct (if is_enabled (set_fs s2 o f fs_clear_alt) o 0 then _ else _) as [s4|]; try discriminate.
  assert (Hoff : is_enabled (set_fs s4 o f fs_turn_off) o f = false).
  { unfold is_enabled. rewrite get_fs_set_fs. rewrite !Nat.eqb_refl. cbn [andb].
    destruct ((o <? length s4) && (f <? length (o_fs (get_obj s4 o)))) eqn:E; [reflexivity|].
    rewrite (get_fs_out_of_range _ _ _ E). reflexivity. }
  destruct (f =? 0).
  - destruct (free_with T (disable T n) o _) as [s6|] eqn:E6; try discriminate.
    inversion H; subst.
    assert (Hm : never_enables (set_fs s4 o f fs_turn_off) s').
    { eapply (free_with_rel T never_enables); try exact E6.
      - intros ? ? ? Hx; exact Hx.
      - intros a b c H1 H2 o' f' Hx; apply H1; apply H2; exact Hx.
      - intros; apply set_fs_never_enables; intros x Hx; exact Hx.
      - intros oo ff ss rr ss' HD. eapply (disable_rel T never_enables); try exact HD.
        + intros ? ? ? Hx; exact Hx.
        + intros a b c H1 H2 o' f' Hx; apply H1; apply H2; exact Hx.
        + intros; apply set_fs_never_enables; intros x Hx; exact Hx.
        + intros; apply set_fs_never_enables; intros x Hx; exact Hx.
        + intros; apply set_fs_never_enables; intros x Hx; cbn in Hx; discriminate. }
    destruct (is_enabled s' o f) eqn:E; [|reflexivity]. apply Hm in E. congruence.
  - inversion H; subst. exact Hoff.
Qed.

(* putting a bias to sleep and then deleting it: the deletion changes no feature state of any object
   (enabled flags, reference counts, alternate_refs), i.e. nothing is released a second time *)
Lemma delete_sleeping_bias_releases_nothing T n m b s s1 s2 :
  disable T n b 0 s = Some (true, s1) -> delete_bias T m b s1 = Some s2 ->
  forall o f, get_fs s2 o f = get_fs s1 o f.
Proof.
  intros Hd Hx o f. apply disable_turns_off in Hd.
  rewrite (delete_bias_inactive _ _ _ _ Hd) in Hx. inversion Hx; subst. apply remove_all_children_fs.
Qed.

(* ------------------------------------------------------------------------------------------
   Termination of the enable family: with a rank on each class's requires graph (acyclicity), bounded by D,
   and a height on the objects that decreases from parent to child, any fuel above
   height(o) * (D+1) + rank(f) suffices: the call returns (it is never cut off by the fuel). *)

Lemma depth_le t n f : depth t n f <= n.
Proof.
  revert f. induction n as [|n IH]; intros f; cbn [depth]; [lia|].
  apply le_n_S. induction (deps_of (tfeat t f)) as [|g l IHl]; cbn [fold_right]; [lia|].
  specialize (IH g). lia.
Qed.

Lemma acyclic_check_rank t : acyclic_check t = true ->
  forall f g, In g (deps_of (tfeat t f)) -> rank_of t g < rank_of t f.
Proof.
  intros H f g Hg. destruct (Nat.lt_ge_cases f (length t)) as [Hf|Hf].
  - unfold acyclic_check in H. pose proof (forallb_seq _ _ H f Hf) as H1. cbv beta in H1.
    rewrite forallb_forall in H1. specialize (H1 g Hg).
    apply andb_true_iff in H1. destruct H1 as [_ Hb]. apply Nat.ltb_lt in Hb. exact Hb.
  - unfold tfeat in Hg. rewrite (nth_overflow _ _ Hf) in Hg. cbn in Hg. contradiction.
Qed.

Section Termination.
  Variable T : tables.
  Variable rank : nat -> nat -> nat.
  Variable D : nat.
  Hypothesis Hrank : forall cls f g, In g (deps_of (feat T cls f)) -> rank cls g < rank cls f.
  Hypothesis HD : forall cls f, rank cls f <= D.
  Variable h : nat -> nat.
  Variable s0 : state.
  Hypothesis Hh : forall o c, In c (o_children (get_obj s0 o)) -> h c < h o.

  Definition shaped (s : state) : Prop := same_shape s0 s.
  Definition mu (o f : nat) : nat := h o * S D + rank (cls_of s0 o) f.

  Lemma shaped_set_fs s o f u : (forall x, fs_avail (u x) = fs_avail x) -> shaped s -> shaped (set_fs s o f u).
  Proof. intros Hu Hs. eapply same_shape_trans; [exact Hs | apply set_fs_shape; exact Hu]. Qed.

  Lemma shaped_cls s o : shaped s -> cls_of s o = cls_of s0 o.
  Proof. intros [_ H]. destruct (H o) as (Hc & _). exact Hc. Qed.

  Lemma shaped_children s o : shaped s -> o_children (get_obj s o) = o_children (get_obj s0 o).
  Proof. intros [_ H]. destruct (H o) as (_ & Hc & _). exact Hc. Qed.

  Lemma loop_abort_total (call : nat -> state -> res) gs :
    (forall g s, In g gs -> shaped s -> exists r s', call g s = Some (r, s') /\ shaped s') ->
    forall s, shaped s -> exists r s', loop_abort call gs s = Some (r, s') /\ shaped s'.
  Proof.
    induction gs as [|g gs IH]; intros Hc s Hs; cbn [loop_abort].
    - exists true, s. split; [reflexivity | exact Hs].
    - destruct (Hc g s (or_introl eq_refl) Hs) as (r & s1 & E & Hs1). rewrite E. destruct r.
      + apply IH; [|exact Hs1]. intros g' s' Hg'. apply Hc. right; exact Hg'.
      + exists false, s1. split; [reflexivity | exact Hs1].
  Qed.

  Lemma loop_all_total (call : nat -> state -> res) gs :
    (forall g s, In g gs -> shaped s -> exists r s', call g s = Some (r, s') /\ shaped s') ->
    forall s, shaped s -> exists s', loop_all call gs s = Some s' /\ shaped s'.
  Proof.
    induction gs as [|g gs IH]; intros Hc s Hs; cbn [loop_all].
    - exists s. split; [reflexivity | exact Hs].
    - destruct (Hc g s (or_introl eq_refl) Hs) as (r & s1 & E & Hs1). rewrite E.
      apply IH; [|exact Hs1]. intros g' s' Hg'. apply Hc. right; exact Hg'.
  Qed.

  Section WithE.
    Variable E : efun.

    Lemma restore_with_total o cs :
      (forall c g d t e s, In c cs -> shaped s -> exists r s', E c g d t e s = Some (r, s') /\ shaped s') ->
      forall s, shaped s -> exists s', restore_with T E o cs s = Some s' /\ shaped s'.
    Proof.
      intros HE s Hs. unfold restore_with. apply loop_all_total; [|exact Hs].
      intros fid s1 _ Hs1. destruct (is_enabled s1 o fid).
      - destruct (loop_all_total (fun g st2 =>
            match loop_all (fun c st3 => E c g false false false st3) cs st2 with
            | None => None | Some s => Some (true, s) end) (f_children (feat T (cls_of s1 o) fid))) with (s := s1) as (s2 & E2 & Hs2).
        + intros g s3 _ Hs3.
          destruct (loop_all_total (fun c st3 => E c g false false false st3) cs) with (s := s3) as (s4 & E4 & Hs4).
          * intros c s5 Hc Hs5. apply HE; assumption.
          * exact Hs3.
          * rewrite E4. exists true, s4. split; [reflexivity | exact Hs4].
        + exact Hs1.
        + rewrite E2. exists true, s2. split; [reflexivity | exact Hs2].
      - exists true, s1. split; [reflexivity | exact Hs1].
    Qed.

    Lemma alt_probe_total o f dry err gs :
      (forall g d t e s, In g gs -> shaped s -> exists r s', E o g d t e s = Some (r, s') /\ shaped s') ->
      forall s, shaped s -> exists r s', alt_probe E o f dry err gs s = Some (r, s') /\ shaped s'.
    Proof.
      induction gs as [|g gs IH]; intros HE s Hs; cbn [alt_probe].
      - exists false, s. split; [reflexivity | exact Hs].
      - destruct (HE g true false err s (or_introl eq_refl) Hs) as (r & s1 & E1 & Hs1). rewrite E1. destruct r.
        + destruct (negb dry || err).
          * destruct (HE g false false err s1 (or_introl eq_refl) Hs1) as (r2 & s2 & E2 & Hs2). rewrite E2.
            exists true, (set_fs s2 o f (fs_push_alt g)). split; [reflexivity|].
            apply shaped_set_fs; [intros x; reflexivity | exact Hs2].
          * exists true, s1. split; [reflexivity | exact Hs1].
        + apply IH; [|exact Hs1]. intros g' d t e s' Hg'. apply HE. right; exact Hg'.
    Qed.

    Lemma alt_one_total o f dry err gs :
      (forall g d t e s, In g gs -> shaped s -> exists r s', E o g d t e s = Some (r, s') /\ shaped s') ->
      forall s, shaped s -> exists r s', alt_one E o f dry err gs s = Some (r, s') /\ shaped s'.
    Proof.
      intros HE s Hs. unfold alt_one.
      destruct (alt_probe_total o f dry err gs HE s Hs) as (r & s1 & E1 & Hs1). rewrite E1. destruct r.
      - exists true, s1. split; [reflexivity | exact Hs1].
      - destruct (negb dry).
        + destruct (loop_all_total (fun g s => E o g false false true s) gs) with (s := s1) as (s2 & E2 & Hs2).
          * intros g s3 Hg Hs3. apply HE; assumption.
          * exact Hs1.
          * rewrite E2. exists false, s2. split; [reflexivity | exact Hs2].
        + exists false, s1. split; [reflexivity | exact Hs1].
    Qed.

    Lemma loop_alts_total o f dry err alts :
      (forall g d t e s, In g (concat alts) -> shaped s -> exists r s', E o g d t e s = Some (r, s') /\ shaped s') ->
      forall s, shaped s -> exists r s', loop_alts E o f dry err alts s = Some (r, s') /\ shaped s'.
    Proof.
      induction alts as [|gs alts IH]; intros HE s Hs; cbn [loop_alts].
      - exists true, s. split; [reflexivity | exact Hs].
      - destruct (alt_one_total o f dry err gs) with (s := s) as (r & s1 & E1 & Hs1).
        + intros g d t e s' Hg. apply HE. cbn [concat]. apply in_or_app. left; exact Hg.
        + exact Hs.
        + rewrite E1. destruct r.
          * apply IH; [|exact Hs1]. intros g d t e s' Hg. apply HE. cbn [concat]. apply in_or_app. right; exact Hg.
          * exists false, s1. split; [reflexivity | exact Hs1].
    Qed.
  End WithE.

  Lemma mu_child o c f g : In c (o_children (get_obj s0 o)) -> mu c g < mu o f.
  Proof.
    intros Hc. unfold mu. pose proof (Hh _ _ Hc) as H1. pose proof (HD (cls_of s0 c) g) as H2.
    assert (h c * S D + S D <= h o * S D) by nia. lia.
  Qed.

  Lemma enable_total n : forall o f dry top err s, shaped s -> mu o f < n ->
    exists r s', enable T n o f dry top err s = Some (r, s') /\ shaped s'.
  Proof.
    induction n as [|n IH]; intros o f dry top err s Hs Hmu; [lia|].
    cbn [enable].
    destruct (negb (f <? nfeat T (cls_of s o))); [exists false, s; split; [reflexivity | exact Hs]|].
    destruct (fs_enabled (get_fs s o f)).
    { eexists; eexists; split; [reflexivity|]. destruct (negb (dry || top)); [|exact Hs].
      apply shaped_set_fs; [intros x; reflexivity | exact Hs]. }
    destruct (negb (fs_avail (get_fs s o f))); [exists false, s; split; [reflexivity | exact Hs]|].
    destruct (negb top && negb (is_dynamic (feat T (cls_of s o) f))); [exists false, s; split; [reflexivity | exact Hs]|].
    destruct (existsb _ _); [exists false, s; split; [reflexivity | exact Hs]|].
    rewrite (shaped_cls s o Hs).
    (* requires_self *)
    destruct (loop_abort_total (fun g s1 => enable T n o g dry false err s1) (f_self (feat T (cls_of s0 o) f))) with (s := s)
      as (r1 & s1 & E1 & Hs1).
    { intros g s2 Hg Hs2. apply IH; [exact Hs2|].
      assert (rank (cls_of s0 o) g < rank (cls_of s0 o) f) by (apply Hrank; unfold deps_of; apply in_or_app; left; exact Hg).
      unfold mu in *. lia. }
    { exact Hs. }
    rewrite E1. destruct r1; [|exists false, s1; split; [reflexivity | exact Hs1]].
    (* requires_alt *)
    destruct (loop_alts_total (enable T n) o f dry err (f_alt (feat T (cls_of s0 o) f))) with (s := s1)
      as (r2 & s2 & E2 & Hs2).
    { intros g d t e s3 Hg Hs3. apply IH; [exact Hs3|].
      assert (rank (cls_of s0 o) g < rank (cls_of s0 o) f) by (apply Hrank; unfold deps_of; apply in_or_app; right; exact Hg).
      unfold mu in *. lia. }
    { exact Hs1. }
    rewrite E2. destruct r2; [|exists false, s2; split; [reflexivity | exact Hs2]].
    (* requires_children *)
    destruct (loop_abort_total (fun g s3 =>
                loop_abort (fun c s' => enable T n c g (dry || negb (is_enabled s' o 0)) false err s')
                           (o_children (get_obj s3 o)) s3) (f_children (feat T (cls_of s0 o) f))) with (s := s2)
      as (r3 & s3 & E3 & Hs3).
    { intros g s4 _ Hs4. rewrite (shaped_children s4 o Hs4).
      apply loop_abort_total; [|exact Hs4].
      intros c s5 Hc Hs5. apply IH; [exact Hs5|]. pose proof (mu_child o c f g Hc). lia. }
    { exact Hs2. }
    rewrite E3. destruct r3; [|exists false, s3; split; [reflexivity | exact Hs3]].
    destruct dry; [exists true, s3; split; [reflexivity | exact Hs3]|].
    assert (Hs4 : shaped (set_fs s3 o f (fs_turn_on top))) by (apply shaped_set_fs; [intros x; reflexivity | exact Hs3]).
    destruct (f =? 0).
    - destruct (restore_with_total (enable T n) o (o_children (get_obj (set_fs s3 o f (fs_turn_on top)) o))) with (s := set_fs s3 o f (fs_turn_on top))
        as (s5 & E5 & Hs5).
      + intros c g d t e s6 Hc Hs6. apply IH; [exact Hs6|].
        rewrite (shaped_children _ o Hs4) in Hc. pose proof (mu_child o c f g Hc). lia.
      + exact Hs4.
      + rewrite E5. exists true, s5. split; [reflexivity | exact Hs5].
    - eexists; eexists; split; [reflexivity | exact Hs4].
  Qed.

  Lemma restore_children_deps_total n o s : shaped s -> h o * S D <= n ->
    exists s', restore_children_deps T n o s = Some s' /\ shaped s'.
  Proof.
    intros Hs Hn. unfold restore_children_deps. apply restore_with_total; [|exact Hs].
    intros c g d t e s1 Hc Hs1. apply enable_total; [exact Hs1|].
    rewrite (shaped_children s o Hs) in Hc. pose proof (Hh _ _ Hc) as H1. pose proof (HD (cls_of s0 c) g) as H2.
    unfold mu. assert (h c * S D + S D <= h o * S D) by nia. lia.
  Qed.
End Termination.

Lemma forallb_nth {A} (p : A -> bool) l d : forallb p l = true -> p d = true -> forall i, p (nth i l d) = true.
Proof.
  intros H Hd i. destruct (Nat.lt_ge_cases i (length l)) as [Hi|Hi].
  - rewrite forallb_forall in H. apply H. apply nth_In. exact Hi.
  - rewrite (nth_overflow _ _ Hi). exact Hd.
Qed.

(* instantiation with the computed rank of acyclic tables: fuel above height * (Dmax+1) + Dmax always suffices,
   where Dmax bounds the table lengths *)
Lemma enable_terminates_tables (T : tables) (Dmax : nat) :
  forallb acyclic_check T = true -> forallb (fun t => length t <=? Dmax) T = true ->
  forall (h : nat -> nat) (s0 : state), (forall o c, In c (o_children (get_obj s0 o)) -> h c < h o) ->
  forall n o f dry top err s, same_shape s0 s -> h o * S Dmax + Dmax < n ->
  exists r s', enable T n o f dry top err s = Some (r, s') /\ same_shape s0 s'.
Proof.
  intros Hac Hlen h s0 Hh n o f dry top err s Hs Hn.
  set (rank := fun cls ff => rank_of (nth cls T []) ff).
  assert (Hrank : forall cls ff g, In g (deps_of (feat T cls ff)) -> rank cls g < rank cls ff).
  { intros cls ff g Hg. unfold rank. apply acyclic_check_rank; [|exact Hg].
    apply (forallb_nth acyclic_check T [] Hac). reflexivity. }
  assert (HD : forall cls ff, rank cls ff <= Dmax).
  { intros cls ff. unfold rank. cbv beta. unfold rank_of.
    pose proof (depth_le (nth cls T []) (length (nth cls T [])) ff) as H1.
    pose proof (forallb_nth (fun t => length t <=? Dmax) T [] Hlen eq_refl cls) as H2. cbv beta in H2.
    apply Nat.leb_le in H2. eapply Nat.le_trans; [exact H1 | exact H2]. }
  apply (enable_total T rank Dmax Hrank HD h s0 Hh n o f dry top err s Hs).
  unfold mu. pose proof (HD (cls_of s0 o) f). lia.
Qed.

Lemma restore_terminates_tables (T : tables) (Dmax : nat) :
  forallb acyclic_check T = true -> forallb (fun t => length t <=? Dmax) T = true ->
  forall (h : nat -> nat) (s0 : state), (forall o c, In c (o_children (get_obj s0 o)) -> h c < h o) ->
  forall n o s, same_shape s0 s -> h o * S Dmax <= n ->
  exists s', restore_children_deps T n o s = Some s' /\ same_shape s0 s'.
Proof.
  intros Hac Hlen h s0 Hh n o s Hs Hn.
  set (rank := fun cls ff => rank_of (nth cls T []) ff).
  assert (Hrank : forall cls ff g, In g (deps_of (feat T cls ff)) -> rank cls g < rank cls ff).
  { intros cls ff g Hg. unfold rank. apply acyclic_check_rank; [|exact Hg].
    apply (forallb_nth acyclic_check T [] Hac). reflexivity. }
  assert (HD : forall cls ff, rank cls ff <= Dmax).
  { intros cls ff. unfold rank. cbv beta. unfold rank_of.
    pose proof (depth_le (nth cls T []) (length (nth cls T [])) ff) as H1.
    pose proof (forallb_nth (fun t => length t <=? Dmax) T [] Hlen eq_refl cls) as H2. cbv beta in H2.
    apply Nat.leb_le in H2. eapply Nat.le_trans; [exact H1 | exact H2]. }
  apply (restore_children_deps_total T rank Dmax Hrank HD h s0 Hh n o s Hs Hn).
Qed.
