(* C13: the enable family does NOT preserve consistency for arbitrary tables: restore_children_deps (run when an
   object wakes up) ignores a child enable that fails.  Synthetic two-class tables: the situation needs a child feature
   that is required by a sleeping parent and becomes impossible (here: excluded) before the parent wakes up; no history
   reaching it through the script interface was found on the tables of the binary (the dumps of every history are
   checked for it: monitors I3/I4, extracted consistent_check). *)
From Coq Require Import ZArith List Bool Arith Lia.
From CV Require Import C13.DepsModel C13.InvModel C13.DepsProofs C13.ModuleProofs C13.DepsInv.
Import ListNotations.
Open Scope nat_scope.

(* class 0 (parent): 0 active (dynamic), 1 a user feature that requires feature 1 of every child
   class 1 (child) : 0 active, 1 dynamic and excluded by 2, 2 a user feature excluded by 1 *)
Definition syn_tables : tables :=
  [ [mkFeature TDynamic [] [] [] []; mkFeature TUser [] [] [] [1]];
    [mkFeature TDynamic [] [] [] []; mkFeature TDynamic [] [2] [] []; mkFeature TUser [] [1] [] []] ].

Definition syn_fs (k : nat) : list fstate := map (fun _ => mkFstate true false 0%Z []) (seq 0 k).
(* object 0: the child, object 1: the parent (asleep) *)
Definition syn_s0 : state := [mkObj 1 (syn_fs 3) [] [1]; mkObj 0 (syn_fs 2) [0] []].

Definition syn_ops : list op :=
  [OpEnable 1 1 false true false;      (* the sleeping parent is given feature 1: children only probed *)
   OpEnable 0 2 false true false].     (* the child is given the feature that excludes what the parent will ask for *)

Definition run_ops' (T : tables) (n : nat) (ops : list op) (s : state) : option state :=
  fold_left (fun acc p => match acc with None => None | Some s => match run_op T n p s with None => None | Some (_, s') => Some s' end end)
            ops (Some s).

Lemma syn_witness : exists s s',
  run_ops' syn_tables 10 syn_ops syn_s0 = Some s /\ consistent_check syn_tables s 4 = true /\
  enable syn_tables 10 1 0 false true false s = Some (true, s') /\
  is_enabled s' 1 0 = true /\ is_enabled s' 1 1 = true /\ In 1 (f_children (feat syn_tables (cls_of s' 1) 1)) /\
  In 0 (o_children (get_obj s' 1)) /\ is_enabled s' 0 1 = false.
Proof.
  do 2 eexists. split; [vm_compute; reflexivity|]. split; [vm_compute; reflexivity|]. split; [vm_compute; reflexivity|].
  repeat (split; [vm_compute; auto|]). vm_compute. reflexivity.
Qed.

Lemma enable_breaks_consistency_syn : exists (T : tables) s s',
  consistent T s /\ enable T 10 1 0 false true false s = Some (true, s') /\ ~ consistent T s'.
Proof.
  destruct syn_witness as (s & s' & _ & Ck & E & A0 & A1 & Hg & Hc & Off).
  exists syn_tables, s, s'. split; [apply (consistent_check_sound _ _ _ Ck)|]. split; [exact E|].
  intros C. rewrite (consistent_requires_children syn_tables s' 1 1 1 0 C A0 A1 Hg Hc) in Off. discriminate.
Qed.

