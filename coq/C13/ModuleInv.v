(* C13: the deletion operations of the module-level model keep the dependency state consistent
   (every enabled capability keeps its prerequisites), for all states reachable or not that are well-formed. *)
From Coq Require Import ZArith List Bool Arith Lia.
From CV Require Import C13.DepsModel C13.InvModel C13.DepsProofs C13.ModuleModel C13.ModuleProofs C13.DepsInv.
Import ListNotations.
Open Scope nat_scope.

Section ModuleInv.
  Variable T : tables.
  Variable ht : nat -> nat.

  Definition jinv (m : mstate) : Prop := wf m /\ consistent T (m_objs m) /\ heights ht (m_objs m).

  Lemma heights_shrinks s i s' i' : shrinks s i s' i' -> heights ht s -> heights ht s'.
  Proof. intros S H p c Hc. apply H. apply (sh_ch _ _ _ _ S). exact Hc. Qed.

  (* the bias > variable > component > atom group hierarchy gives a height *)
  Lemma wf_heights m : wf m -> heights (fun o => 4 - class (m_objs m) o) (m_objs m).
  Proof.
    intros W p c Hc. change (In c (children (m_objs m) p)) in Hc.
    pose proof (wf_typed _ _ W p c Hc) as Ht.
    assert (class (m_objs m) p < 3).
    { destruct (Nat.lt_ge_cases (class (m_objs m) p) 3) as [L|L]; [exact L|]. rewrite (wf_leaf _ _ W p L) in Hc. contradiction. }
    lia.
  Qed.

  Lemma m_delete_bias_jinv n b m m' : jinv m -> m_delete_bias T n b m = Some m' -> jinv m'.
  Proof.
    intros (W & C & H) E. destruct (m_delete_bias_wf T n b m m' W E) as (W' & S' & _).
    split; [exact W'|]. split; [|eapply heights_shrinks; eassumption].
    unfold m_delete_bias in E. destruct (alive m b && (class_of m b =? 0)); [|inversion E; subst; exact C].
    destruct (delete_bias T n b (m_objs m)) as [s'|] eqn:E1; [|discriminate]. inversion E; subst. cbn [m_objs].
    eapply delete_bias_consistent; eassumption.
  Qed.

  Lemma delete_biases_jinv n bs : forall m m', jinv m -> delete_biases T n bs m = Some m' -> jinv m'.
  Proof.
    induction bs as [|b bs IH]; intros m m' J E; cbn [delete_biases] in E; [inversion E; subst; exact J|].
    destruct (m_delete_bias T n b m) as [m1|] eqn:E1; [|discriminate].
    eapply IH; [eapply m_delete_bias_jinv; eassumption | exact E].
  Qed.

  Lemma fold_rac_consistent cs : forall s, consistent T s -> consistent T (fold_rac cs s).
  Proof.
    induction cs as [|c cs IH]; intros s C; cbn [fold_rac fold_left]; [exact C|]. apply IH. apply rac_consistent. exact C.
  Qed.

  Lemma fold_kill_cvc_objs cgs : forall m, m_objs (fold_left (fun mm cg => kill_cvc (fst cg) (snd cg) mm) cgs m) = m_objs m.
  Proof.
    induction cgs as [|cg cgs IH]; intros m; cbn [fold_left]; [reflexivity|]. rewrite IH. unfold kill_cvc. cbn [m_objs].
    generalize (snd cg). intros gs. revert m. induction gs as [|g gs IHg]; intros m; cbn [fold_left]; [reflexivity|].
    rewrite IHg. reflexivity.
  Qed.

  Lemma m_delete_colvar_jinv n v m m' : jinv m -> m_delete_colvar T n v m = Some m' -> jinv m'.
  Proof.
    intros (W & C & H) E. destruct (m_delete_colvar_wf T n v m m' W E) as (W' & S' & _).
    split; [exact W'|]. split; [|eapply heights_shrinks; eassumption].
    unfold m_delete_colvar in E. destruct (alive m v && (class_of m v =? 1)) eqn:Eg; [|inversion E; subst; exact C].
    cbv zeta in E.
    set (s := m_objs m) in *. change (wfs s (m_info m)) in W.
    set (s2 := fold_left (fun st c => remove_all_children c st) (rev (o_children (get_obj s v))) (remove_all_children v s)) in *.
    set (m2 := mkM s2 (m_info m) (m_atoms m)) in *.
    set (m3 := fold_left (fun mm cg => kill_cvc (fst cg) (snd cg) mm) (map (fun c => (c, o_children (get_obj s c))) (o_children (get_obj s v))) m2) in *.
    destruct (delete_biases T n (rev (o_parents (get_obj s v))) m3) as [m4|] eqn:E4; [|discriminate]. inversion E; subst m'. cbn [m_objs].
    apply andb_true_iff in Eg. destruct Eg as [Ea Ek]. apply Nat.eqb_eq in Ek.
    change (alive m v) with (alive_in (m_info m) v) in Ea. change (class_of m v) with (class s v) in Ek.
    destruct (delete_colvar_unlinked s (m_info m) v W Ea Ek) as (W2 & S2 & Cv & Hfree).
    assert (O3 : m_objs m3 = s2) by (unfold m3; rewrite fold_kill_cvc_objs; reflexivity).
    assert (J3 : jinv m3).
    { destruct (fold_kill_cvc_wf (map (fun c => (c, o_children (get_obj s c))) (o_children (get_obj s v))) m2 W2) as (W3 & _).
      { intros cg Hcg. apply in_map_iff in Hcg. destruct Hcg as (c & <- & Hc). cbn [fst snd].
        destruct (Hfree c Hc) as (A & B). split; [exact A|]. split; [exact B|].
        apply (wf_atoms _ _ W). change (class s c <> 3). rewrite (wf_typed _ _ W v c Hc), Ek. discriminate. }
      split; [exact W3|]. fold m3. rewrite O3. split.
      - apply (fold_rac_consistent (rev (children s v)) (remove_all_children v s)). apply rac_consistent. exact C.
      - eapply heights_shrinks; [exact S2 | exact H]. }
    destruct (delete_biases_jinv n _ m3 m4 J3 E4) as (_ & C4 & _). exact C4.
  Qed.

  Lemma delete_colvars_jinv n vs : forall m m', jinv m -> delete_colvars T n vs m = Some m' -> jinv m'.
  Proof.
    induction vs as [|v vs IH]; intros m m' J E; cbn [delete_colvars] in E; [inversion E; subst; exact J|].
    destruct (m_delete_colvar T n v m) as [m1|] eqn:E1; [|discriminate].
    eapply IH; [eapply m_delete_colvar_jinv; eassumption | exact E].
  Qed.

  Lemma m_reset_jinv n m m' : jinv m -> m_reset T n m = Some m' -> jinv m'.
  Proof.
    intros J E. unfold m_reset in E.
    destruct (delete_biases T n (rev (live_of_class m 0)) m) as [m1|] eqn:E1; [|discriminate].
    eapply delete_colvars_jinv; [eapply delete_biases_jinv; eassumption | exact E].
  Qed.

  Lemma m_disable_jinv n o f m m' : jinv m -> rc (m_objs m) o f <> 1%Z -> m_prim T n (OpDisable o f) m = Some m' -> jinv m'.
  Proof.
    intros (W & C & H) Hne E. destruct (m_prim_wf T n _ m m' W E) as (W' & _). split; [exact W'|].
    unfold m_prim in E. destruct (alive m (op_target (OpDisable o f))); [|inversion E; subst; auto].
    cbn [run_op] in E. destruct (disable T n o f (m_objs m)) as [[r s]|] eqn:E1; [|discriminate]. inversion E; subst. cbn [m_objs].
    split; [eapply disable_consistent; eassumption|].
    intros p c Hc. apply H. pose proof (disable_dshape T n o f _ _ _ E1) as [_ Sh]. destruct (Sh p) as (_ & A & _). rewrite <- A. exact Hc.
  Qed.
End ModuleInv.

(* the deletion operations: delete a bias, delete a variable (with its biases), reset.
   (Switching a feature off by script is covered by m_disable_jinv under its side condition only.) *)
Definition deletion_op (p : mop) : bool :=
  match p with
  | MDeleteBias _ | MDeleteColvar _ | MReset => true
  | _ => false
  end.

Theorem deletions_keep_consistency (T : tables) n (ps : list mop) : forall m m',
  forallb deletion_op ps = true -> wf m -> consistent T (m_objs m) -> m_run T n ps m = Some m' ->
  wf m' /\ consistent T (m_objs m').
Proof.
  intros m m' Hp W C E.
  set (ht := fun o => 4 - class (m_objs m) o).
  assert (J : jinv T ht m) by (split; [exact W|]; split; [exact C | apply wf_heights; exact W]).
  clearbody ht. clear W C. revert m J E.
  induction ps as [|p ps IH]; intros m J E; cbn [m_run] in E; [inversion E; subst; destruct J as (A & B & _); auto|].
  cbn [forallb] in Hp. apply andb_true_iff in Hp. destruct Hp as [Hp1 Hp2].
  destruct (m_step T n p m) as [m1|] eqn:E1; [|discriminate].
  apply (IH Hp2 m1); [|exact E].
  destruct p as [av cs|av vs|q|b|v|]; cbn [deletion_op] in Hp1; try discriminate; cbn [m_step] in E1.
  - eapply m_delete_bias_jinv; eassumption.
  - eapply m_delete_colvar_jinv; eassumption.
  - eapply m_reset_jinv; eassumption.
Qed.

(* switching a feature off (script `set <feature> off`, OpDisable) keeps consistency when the feature does not hold
   exactly one reference *)
Theorem disable_step_keeps_consistency (T : tables) n o f m m' :
  wf m -> consistent T (m_objs m) -> rc (m_objs m) o f <> 1%Z -> m_prim T n (OpDisable o f) m = Some m' ->
  wf m' /\ consistent T (m_objs m').
Proof.
  intros W C Hne E.
  destruct (m_disable_jinv T (fun x => 4 - class (m_objs m) x) n o f m m') as (A & B & _); auto.
  split; [exact W|]. split; [exact C | apply wf_heights; exact W].
Qed.
