(* C13: executable model of the dependency machinery of src/colvardeps.cpp.
   Mirrors, statement by statement, colvardeps::enable (dry_run / toplevel / error flags,
   exclusions, requires_self, requires_alt with its dry-run probe, requires_children,
   restore_children_deps on feature 0), disable, decr_ref_count, free_children_deps,
   restore_children_deps, add_child, remove_all_children.
   Objects are numbered; children/parents are lists of object numbers; the static feature tables
   are a parameter (instantiated with the tables dumped from the binary, Gen/GenDeps.v).
   Recursion runs on explicit fuel: [None] = fuel exhausted (DepsProofs.enable_terminates shows
   when that cannot happen). *)
From Coq Require Import ZArith List Bool Arith Lia.
Import ListNotations.
Open Scope nat_scope.

Inductive ftype := TNotSet | TDynamic | TUser | TStatic.

Record feature := mkFeature {
  f_type : ftype;
  f_self : list nat;            (* requires_self *)
  f_excl : list nat;            (* requires_exclude *)
  f_alt : list (list nat);      (* requires_alt *)
  f_children : list nat         (* requires_children *)
}.

Definition table := list feature.
Definition tables := list table.     (* indexed by class: 0 bias, 1 colvar, 2 cvc, 3 atom group *)

Record fstate := mkFstate {
  fs_avail : bool;
  fs_enabled : bool;
  fs_rc : Z;                    (* ref_count *)
  fs_alt : list nat             (* alternate_refs *)
}.

Record obj := mkObj {
  o_class : nat;
  o_fs : list fstate;
  o_children : list nat;
  o_parents : list nat
}.

Definition state := list obj.

Definition fs_default := mkFstate false false 0%Z [].
Definition obj_default := mkObj 0 [] [] [].
Definition feat_default := mkFeature TNotSet [] [] [] [].

Definition is_dynamic (ft : feature) : bool :=
  match f_type ft with TDynamic => true | _ => false end.

Definition get_obj (st : state) (o : nat) : obj := nth o st obj_default.
Definition get_fs (st : state) (o f : nat) : fstate := nth f (o_fs (get_obj st o)) fs_default.
Definition is_enabled (st : state) (o f : nat) : bool := fs_enabled (get_fs st o f).

Fixpoint upd_nth {A} (l : list A) (k : nat) (u : A -> A) : list A :=
  match l, k with
  | [], _ => []
  | x :: r, O => u x :: r
  | x :: r, S k => x :: upd_nth r k u
  end.

Definition upd_obj (st : state) (o : nat) (u : obj -> obj) : state := upd_nth st o u.
Definition set_fs (st : state) (o f : nat) (u : fstate -> fstate) : state :=
  upd_obj st o (fun ob => mkObj (o_class ob) (upd_nth (o_fs ob) f u) (o_children ob) (o_parents ob)).

(* the elementary writes of the C++ code *)
Definition fs_bump (s : fstate) := mkFstate (fs_avail s) (fs_enabled s) (fs_rc s + 1)%Z (fs_alt s).
Definition fs_turn_on (top : bool) (s : fstate) :=
  mkFstate (fs_avail s) true (if top then fs_rc s else 1%Z) (fs_alt s).
Definition fs_push_alt (g : nat) (s : fstate) := mkFstate (fs_avail s) (fs_enabled s) (fs_rc s) (fs_alt s ++ [g]).
Definition fs_decr (s : fstate) := mkFstate (fs_avail s) (fs_enabled s) (fs_rc s - 1)%Z (fs_alt s).
Definition fs_clear_alt (s : fstate) := mkFstate (fs_avail s) (fs_enabled s) (fs_rc s) [].
Definition fs_turn_off (s : fstate) := mkFstate (fs_avail s) false 0%Z (fs_alt s).

Definition res := option (bool * state).      (* None: out of fuel; Some (ok, state) *)

Section Model.
  Variable T : tables.

  Definition feat (cls f : nat) : feature := nth f (nth cls T []) feat_default.
  Definition nfeat (cls : nat) : nat := length (nth cls T []).
  Definition cls_of (st : state) (o : nat) : nat := o_class (get_obj st o).

  (* type of the recursive call: object, feature, dry_run, toplevel, error *)
  Definition efun := nat -> nat -> bool -> bool -> bool -> state -> res.

  (* a loop of calls whose failure aborts (requires_self; requires_children) *)
  Fixpoint loop_abort (call : nat -> state -> res) (gs : list nat) (st : state) : res :=
    match gs with
    | [] => Some (true, st)
    | g :: r =>
      match call g st with
      | None => None
      | Some (false, st') => Some (false, st')
      | Some (true, st') => loop_abort call r st'
      end
    end.

  (* a loop of calls whose results are ignored *)
  Fixpoint loop_all (call : nat -> state -> res) (gs : list nat) (st : state) : option state :=
    match gs with
    | [] => Some st
    | g :: r =>
      match call g st with
      | None => None
      | Some (_, st') => loop_all call r st'
      end
    end.

  (* restore_children_deps / the loop of add_child: for every enabled feature fid (in order), for
     every required child feature g, for every child c (given list): c->enable(g, false, false) *)
  Definition restore_with (E : efun) (o : nat) (cs : list nat) (st : state) : option state :=
    loop_all (fun fid st1 =>
      if is_enabled st1 o fid then
        match loop_all (fun g st2 =>
                match loop_all (fun c st3 => E c g false false false st3) cs st2 with
                | None => None | Some s => Some (true, s) end)
              (f_children (feat (cls_of st1 o) fid)) st1 with
        | None => None | Some s => Some (true, s) end
      else Some (true, st1))
    (seq 0 (length (o_fs (get_obj st o)))) st.

  (* one requires_alt entry: probe each g with a dry run; the first that passes is required for
     real (unless this is itself a silent dry run) and remembered in alternate_refs of f *)
  Fixpoint alt_probe (E : efun) (o f : nat) (dry err : bool) (gs : list nat) (st : state) : res :=
    match gs with
    | [] => Some (false, st)
    | g :: r =>
      match E o g true false err st with
      | None => None
      | Some (true, st1) =>
        if negb dry || err then
          match E o g false false err st1 with
          | None => None
          | Some (_, st2) => Some (true, set_fs st2 o f (fs_push_alt g))
          end
        else Some (true, st1)
      | Some (false, st1) => alt_probe E o f dry err r st1
      end
    end.

  Definition alt_one (E : efun) (o f : nat) (dry err : bool) (gs : list nat) (st : state) : res :=
    match alt_probe E o f dry err gs st with
    | None => None
    | Some (true, st1) => Some (true, st1)
    | Some (false, st1) =>
      if negb dry then
        (* "just for printing error output": real calls with error = true *)
        match loop_all (fun g s => E o g false false true s) gs st1 with
        | None => None
        | Some st2 => Some (false, st2)
        end
      else Some (false, st1)
    end.

  Fixpoint loop_alts (E : efun) (o f : nat) (dry err : bool) (alts : list (list nat)) (st : state) : res :=
    match alts with
    | [] => Some (true, st)
    | gs :: r =>
      match alt_one E o f dry err gs st with
      | None => None
      | Some (false, st') => Some (false, st')
      | Some (true, st') => loop_alts E o f dry err r st'
      end
    end.

  Fixpoint enable (n : nat) (o f : nat) (dry top err : bool) (st : state) : res :=
    match n with
    | O => None
    | S n =>
      let cls := cls_of st o in
      if negb (f <? nfeat cls) then Some (false, st) else
      let ft := feat cls f in
      let fs := get_fs st o f in
      if fs_enabled fs then
        Some (true, if negb (dry || top) then set_fs st o f fs_bump else st)
      else if negb (fs_avail fs) then Some (false, st)
      else if negb top && negb (is_dynamic ft) then Some (false, st)
      else if existsb (fun g => is_enabled st o g) (f_excl ft) then Some (false, st)
      else
        match loop_abort (fun g s => enable n o g dry false err s) (f_self ft) st with
        | None => None
        | Some (false, st1) => Some (false, st1)
        | Some (true, st1) =>
          match loop_alts (enable n) o f dry err (f_alt ft) st1 with
          | None => None
          | Some (false, st2) => Some (false, st2)
          | Some (true, st2) =>
            match loop_abort (fun g s =>
                    loop_abort (fun c s' => enable n c g (dry || negb (is_enabled s' o 0)) false err s')
                               (o_children (get_obj s o)) s)
                  (f_children ft) st2 with
            | None => None
            | Some (false, st3) => Some (false, st3)
            | Some (true, st3) =>
              if dry then Some (true, st3) else
              let st4 := set_fs st3 o f (fs_turn_on top) in
              if f =? 0 then
                match restore_with (enable n) o (o_children (get_obj st4 o)) st4 with
                | None => None
                | Some st5 => Some (true, st5)
                end
              else Some (true, st4)
            end
          end
        end
    end.

  Definition restore_children_deps (n : nat) (o : nat) (st : state) : option state :=
    restore_with (enable n) o (o_children (get_obj st o)) st.

  (* add_child: link, then require in the new child what the enabled parent features require *)
  Definition add_child (n : nat) (o c : nat) (st : state) : option state :=
    let st1 := upd_obj st o (fun ob => mkObj (o_class ob) (o_fs ob) (o_children ob ++ [c]) (o_parents ob)) in
    let st2 := upd_obj st1 c (fun ob => mkObj (o_class ob) (o_fs ob) (o_children ob) (o_parents ob ++ [o])) in
    restore_with (enable n) o [c] st2.

  (* ---- release *)
  Definition dfun := nat -> nat -> state -> res.   (* disable: object, feature *)

  Definition decr_with (D : dfun) (o f : nat) (st : state) : res :=
    let rc := fs_rc (get_fs st o f) in
    if (rc <=? 0)%Z then Some (false, st) else
    let st1 := set_fs st o f fs_decr in
    if ((rc - 1 =? 0)%Z && is_dynamic (feat (cls_of st o) f))%bool then
      match D o f st1 with
      | None => None
      | Some (_, st2) => Some (true, st2)
      end
    else Some (true, st1).

  (* for every g in gs, for every child c: c->decr_ref_count(g) *)
  Definition decr_children (D : dfun) (cs gs : list nat) (st : state) : option state :=
    loop_all (fun g s =>
      match loop_all (fun c s' => decr_with D c g s') cs s with
      | None => None | Some s2 => Some (true, s2) end) gs st.

  Definition free_with (D : dfun) (o : nat) (st : state) : option state :=
    loop_all (fun fid st1 =>
      if is_enabled st1 o fid then
        match decr_children D (o_children (get_obj st1 o)) (f_children (feat (cls_of st1 o) fid)) st1 with
        | None => None | Some s => Some (true, s) end
      else Some (true, st1))
    (seq 0 (length (o_fs (get_obj st o)))) st.

  Fixpoint disable (n : nat) (o f : nat) (st : state) : res :=
    match n with
    | O => None
    | S n =>
      let fs := get_fs st o f in
      let ft := feat (cls_of st o) f in
      if negb (fs_enabled fs) then Some (true, st)
      else if (1 <? fs_rc fs)%Z then Some (false, st)
      else
        match loop_all (fun g s => decr_with (disable n) o g s) (f_self ft) st with
        | None => None
        | Some st1 =>
          match loop_all (fun g s => decr_with (disable n) o g s) (fs_alt (get_fs st1 o f)) st1 with
          | None => None
          | Some st2 =>
            let st3 := set_fs st2 o f fs_clear_alt in
            match (if is_enabled st3 o 0
                   then decr_children (disable n) (o_children (get_obj st3 o)) (f_children ft) st3
                   else Some st3) with
            | None => None
            | Some st4 =>
              let st5 := set_fs st4 o f fs_turn_off in
              if f =? 0 then
                match free_with (disable n) o st5 with
                | None => None
                | Some st6 => Some (true, st6)
                end
              else Some (true, st5)
            end
          end
        end
    end.

  Definition decr_ref_count (n : nat) (o f : nat) (st : state) : res := decr_with (disable n) o f st.
  Definition free_children_deps (n : nat) (o : nat) (st : state) : option state := free_with (disable n) o st.

  (* remove_all_children: erase (the last occurrence of) o in every child's parents, clear children *)
  Fixpoint remove_last (x : nat) (l : list nat) : list nat * bool :=
    match l with
    | [] => ([], false)
    | y :: r =>
      let '(r', found) := remove_last x r in
      if found then (y :: r', true)
      else if y =? x then (r', true) else (y :: r', false)
    end.

  Definition remove_all_children (o : nat) (st : state) : state :=
    let cs := o_children (get_obj st o) in
    let st1 := fold_left (fun s c =>
                 upd_obj s c (fun ob => mkObj (o_class ob) (o_fs ob) (o_children ob) (fst (remove_last o (o_parents ob)))))
               cs st in
    upd_obj st1 o (fun ob => mkObj (o_class ob) (o_fs ob) [] (o_parents ob)).

  (* deletion of a bias as colvarbias::clear() + ~colvardeps() perform it on the dependency state:
     clear() releases the children's dependencies only when the bias is active (an inactive, e.g. sleeping,
     bias has already released them in disable(active)) *)
  Definition delete_bias (n : nat) (o : nat) (st : state) : option state :=
    if is_enabled st o 0 then
      match free_children_deps n o st with
      | None => None
      | Some st1 => Some (remove_all_children o st1)
      end
    else Some (remove_all_children o st).

  (* ---- the primitive operations the tie and the invariants range over *)
  Inductive op :=
  | OpEnable (o f : nat) (dry top err : bool)
  | OpDisable (o f : nat)
  | OpDecr (o f : nat)
  | OpFree (o : nat)
  | OpRestore (o : nat).

  Definition run_op (n : nat) (p : op) (st : state) : res :=
    match p with
    | OpEnable o f dry top err => enable n o f dry top err st
    | OpDisable o f => disable n o f st
    | OpDecr o f => decr_ref_count n o f st
    | OpFree o => match free_children_deps n o st with None => None | Some s => Some (true, s) end
    | OpRestore o => match restore_children_deps n o st with None => None | Some s => Some (true, s) end
    end.

End Model.
