(* C13: define-then-delete is the identity; feature dependencies stay consistent
   (statements only; proofs in DepsProofs.v / DepsTables.v). *)
From Coq Require Import ZArith List Bool Arith Lia.
From CV Require Import C13.DepsModel C13.DepsProofs C13.DepsTables Gen.GenDeps.
Import ListNotations.

(* ---- table theorems, re-checked on every run against the tables dumped from the binary ---- *)

(* In every class the requires_self/requires_alt graph admits a rank that strictly decreases along
   every edge (the code: "we have no safety mechanism against circular dependencies"). *)
Theorem GenDeps_acyclic : Forall acyclic gen_tables /\ Forall acyclic gen_tables_lagged.
Proof. exact gen_acyclic. Qed.
Print Assumptions GenDeps_acyclic.

(* Exclusions are mutual ("exclusions must be mutual for this to work"). *)
Theorem GenDeps_exclusions_symmetric :
  Forall exclusions_symmetric gen_tables /\ Forall exclusions_symmetric gen_tables_lagged.
Proof. exact gen_exclusions_symmetric. Qed.
Print Assumptions GenDeps_exclusions_symmetric.

(* Every feature number required of children exists in the child class's table. *)
Theorem GenDeps_children_ids_valid : children_ids_valid gen_tables /\ children_ids_valid gen_tables_lagged.
Proof. exact gen_children_ids_valid. Qed.
Print Assumptions GenDeps_children_ids_valid.
