(* C13: define-then-delete is the identity; feature dependencies stay consistent
   (statements only; proofs in DepsProofs.v / DepsTables.v). *)
From Coq Require Import ZArith List Bool Arith Lia.
From CV Require Import Base.Num C13.DepsModel C13.InvModel C13.DepsProofs C13.DepsTables C13.ModuleModel C13.ModuleProofs C13.DepsInv C13.ModuleInv C13.ModuleRooted C13.EnableExcl C13.EnableWitness C13.UserFeatures C13.CrossC08 C13.IdentityProofs C13.NameModel C13.SchedProofs C13.NameRefModel Gen.GenDeps.
Import ListNotations.
Open Scope nat_scope.

(* ---- table theorems, re-checked on every run against the tables dumped from the binary ---- *)

(* In every class the requires_self/requires_alt graph admits a rank that strictly decreases along
   every edge (the code: "we have no safety mechanism against circular dependencies"). *)
Theorem GenDeps_acyclic : Forall acyclic gen_tables /\ Forall acyclic gen_tables_lagged.
Proof. exact gen_acyclic. Qed.
Print Assumptions GenDeps_acyclic.

(* Exclusions are mutual ("exclusions must be mutual for this to work"). *)
Theorem GenDeps_exclusions_symmetric :
  Forall exclusions_symmetric gen_tables /\ Forall exclusions_symmetric gen_tables_lagged.
Proof. exact gen_exclusions_symmetric. Qed.
Print Assumptions GenDeps_exclusions_symmetric.

(* Every feature number required of children exists in the child class's table. *)
Theorem GenDeps_children_ids_valid : children_ids_valid gen_tables /\ children_ids_valid gen_tables_lagged.
Proof. exact gen_children_ids_valid. Qed.
Print Assumptions GenDeps_children_ids_valid.

(* ---- termination of the enable family ----
   For any tables whose requires graphs pass the acyclicity check and have at most Dmax features per class, and any
   object graph with a height that decreases from parent to child, fuel above height(o)*(Dmax+1)+Dmax suffices:
   enable (every flag combination, every state of that shape) returns, and so does restore_children_deps. *)
Theorem C13_enable_terminates : forall (T : tables) (Dmax : nat),
  forallb acyclic_check T = true -> forallb (fun t => length t <=? Dmax) T = true ->
  forall (h : nat -> nat) (s0 : state), (forall o c, In c (o_children (get_obj s0 o)) -> h c < h o) ->
  forall n o f dry top err s, same_shape s0 s -> h o * S Dmax + Dmax < n ->
  exists r s', enable T n o f dry top err s = Some (r, s') /\ same_shape s0 s'.
Proof. exact enable_terminates_tables. Qed.
Print Assumptions C13_enable_terminates.

(* On the real (regenerated) tables, both variants: fuel above height(o)*39+38 (at most 155 with the four levels
   bias > variable > component > atom group). *)
Theorem GenDeps_enable_terminates : forall T, T = gen_tables \/ T = gen_tables_lagged ->
  forall (h : nat -> nat) (s0 : state), (forall o c, In c (o_children (get_obj s0 o)) -> h c < h o) ->
  forall n o f dry top err s, same_shape s0 s -> h o * 39 + 38 < n ->
  exists r s', enable T n o f dry top err s = Some (r, s') /\ same_shape s0 s'.
Proof. exact gen_enable_terminates. Qed.
Print Assumptions GenDeps_enable_terminates.

Theorem GenDeps_restore_terminates : forall T, T = gen_tables \/ T = gen_tables_lagged ->
  forall (h : nat -> nat) (s0 : state), (forall o c, In c (o_children (get_obj s0 o)) -> h c < h o) ->
  forall n o s, same_shape s0 s -> h o * 39 <= n ->
  exists s', restore_children_deps T n o s = Some s' /\ same_shape s0 s'.
Proof. exact gen_restore_terminates. Qed.
Print Assumptions GenDeps_restore_terminates.

(* non-vacuity: a bias over a variable, heights 1 and 0 *)
Example C13_example_heights :
  let s0 := [w_cv [34; 35] [1]; w_bias [0]] in let h := fun o => match o with 1 => 1 | _ => 0 end in
  forall o c, In c (o_children (get_obj s0 o)) -> h c < h o.
Proof.
  intros s0 h o c. destruct o as [|[|[|o]]]; cbn; intros H; try contradiction.
  destruct H as [H|H]; [subst c; cbn; lia | contradiction].
Qed.

(* ---- general theorems: every table, every state, every primitive, every flag combination,
        successful or failed call, any fuel that suffices for the call to return ---- *)

(* No primitive of colvardeps changes the class of an object, its children, its parents, the number of
   its feature states or the availability of a feature: links to objects are only made/unmade by
   add_child / remove_all_children (so a deletion that unlinks leaves no reference behind). *)
Theorem C13_primitives_preserve_shape : forall (T : tables) n p s r s',
  run_op T n p s = Some (r, s') -> same_shape s s'.
Proof. exact run_op_shape. Qed.
Print Assumptions C13_primitives_preserve_shape.

(* disable / decr_ref_count / free_children_deps never switch a capability on, in any object ... *)
Theorem C13_release_never_enables : forall (T : tables) n p s r s',
  release_op p = true -> run_op T n p s = Some (r, s') -> never_enables s s'.
Proof. exact release_never_enables. Qed.
Print Assumptions C13_release_never_enables.

(* ... and enable (dry or not, failed or not) / restore_children_deps never switch one off. *)
Theorem C13_enable_family_never_disables : forall (T : tables) n p s r s',
  release_op p = false -> run_op T n p s = Some (r, s') -> never_disables s s'.
Proof. exact enable_family_never_disables. Qed.
Print Assumptions C13_enable_family_never_disables.

(* "mutually exclusive capabilities are never enabled together" is preserved by every release primitive. *)
Theorem C13_exclusion_preserved_by_release : forall (T : tables) n p s r s',
  release_op p = true -> run_op T n p s = Some (r, s') -> excl_inv T s -> excl_inv T s'.
Proof. exact release_preserves_excl. Qed.
Print Assumptions C13_exclusion_preserved_by_release.

(* ---- "no capability is switched off while something that needs it remains" ----
   FULL STATEMENT (false of the code, see the counterexample below):
     forall T n o g s s', consistent T s -> disable T n o g s = Some (true, s') -> consistent T s'
   (consistent: DepsInv.v; it implies that every enabled capability has its prerequisites enabled).
   What holds: (a) disable refuses a feature with more than one reference, and changes nothing then;
   (b) C13_disable_keeps_consistency_partial / C13_no_switch_off_while_needed_partial below: the statement holds for
   every call on a feature whose ref_count is not exactly 1, and for all sequences of deletions. *)
Theorem C13_disable_refuses_multiply_referenced_feature : forall (T : tables) n o f s,
  (1 < fs_rc (get_fs s o f))%Z -> is_enabled s o f = true -> disable T (S n) o f s = Some (false, s).
Proof. exact disable_refuses. Qed.
Print Assumptions C13_disable_refuses_multiply_referenced_feature.

(* Counterexample on the real tables: a scalar variable with output_total_force (20) on, which requires
   total_force (7) and holds the only reference to it (ref_count 1): disable(7) succeeds. *)
Theorem C13_no_switch_off_while_needed_refuted : exists s s',
  enable gen_tables 20 0 20 false true false w3_s0 = Some (true, s) /\
  In 7 (f_self (feat gen_tables (cls_of s 0) 20)) /\ is_enabled s 0 20 = true /\ is_enabled s 0 7 = true /\
  fs_rc (get_fs s 0 7) = 1%Z /\
  disable gen_tables 20 0 7 s = Some (true, s') /\
  is_enabled s' 0 20 = true /\ is_enabled s' 0 7 = false.
Proof. exact w3_witness. Qed.
Print Assumptions C13_no_switch_off_while_needed_refuted.

(* ---- a failed enable ----
   FULL STATEMENT (false of the code): enable T n o f false top err s = Some (false, s') -> s' = s.
   What it leaves behind on the real tables: collect_gradient (4) on a non-scalar variable fails at
   scalar (34) after gradient (3) was enabled with one reference; nothing rolls it back. *)
Theorem C13_failed_enable_leak : exists s',
  enable gen_tables 20 0 4 false true false w4_s0 = Some (false, s') /\
  is_enabled w4_s0 0 3 = false /\ is_enabled s' 0 3 = true /\ fs_rc (get_fs s' 0 3) = 1%Z /\ is_enabled s' 0 4 = false.
Proof. exact w4_witness. Qed.
Print Assumptions C13_failed_enable_leak.

(* What a failed (or any) enable can not do: switch something off or touch the shape (two theorems above);
   and a requirement that is already enabled is only given one more reference. *)
Theorem C13_enable_of_enabled_adds_one_reference : forall (T : tables) n o f err s,
  f < nfeat T (cls_of s o) -> is_enabled s o f = true ->
  enable T (S n) o f false false err s = Some (true, set_fs s o f fs_bump).
Proof. exact enable_enabled_bumps. Qed.
Print Assumptions C13_enable_of_enabled_adds_one_reference.

(* ---- deleting a bias ----
   (The code used to release the children's dependencies of an inactive bias a second time; repaired by the
   fix "deleting a sleeping bias released its variables' dependencies twice"; the model follows the repair.)
   Deleting an inactive bias changes links only: no enabled flag, reference count or alternate_refs of any
   object changes. *)
Theorem C13_delete_inactive_bias_only_unlinks : forall (T : tables) n b s,
  is_enabled s b 0 = false ->
  delete_bias T n b s = Some (remove_all_children b s) /\
  forall o f, get_fs (remove_all_children b s) o f = get_fs s o f.
Proof. intros T n b s H. split; [apply delete_bias_inactive; exact H | intros o f; apply remove_all_children_fs]. Qed.
Print Assumptions C13_delete_inactive_bias_only_unlinks.

(* A successful disable leaves the feature off (any feature, any state) ... *)
Theorem C13_disable_turns_off : forall (T : tables) n o f s s',
  disable T n o f s = Some (true, s') -> is_enabled s' o f = false.
Proof. exact disable_turns_off. Qed.
Print Assumptions C13_disable_turns_off.

(* ... hence putting a bias to sleep (which releases what it required of its children) and then deleting it
   releases nothing a second time: the deletion changes no feature state of any object. *)
Theorem C13_delete_sleeping_bias_releases_nothing : forall (T : tables) n m b s s1 s2,
  disable T n b 0 s = Some (true, s1) -> delete_bias T m b s1 = Some s2 ->
  forall o f, get_fs s2 o f = get_fs s1 o f.
Proof. exact delete_sleeping_bias_releases_nothing. Qed.
Print Assumptions C13_delete_sleeping_bias_releases_nothing.

(* non-vacuity and regression example on the real tables (the former counterexample): two biases apply forces on
   one variable, the first is asleep and is deleted; the requirement of the second stays enabled, count 1. *)
Example C13_example_delete_sleeping_bias : exists s s',
  run_ops gen_tables 20 w1_ops w1_s0 = Some s /\
  is_enabled s 1 0 = false /\ is_enabled s 1 3 = true /\
  is_enabled s 2 0 = true /\ is_enabled s 2 3 = true /\ In 2 (f_children (feat gen_tables 0 3)) /\
  In 0 (o_children (get_obj s 2)) /\ is_enabled s 0 2 = true /\ fs_rc (get_fs s 0 2) = 1%Z /\
  delete_bias gen_tables 20 1 s = Some s' /\
  is_enabled s' 2 3 = true /\ In 0 (o_children (get_obj s' 2)) /\ is_enabled s' 0 2 = true /\ fs_rc (get_fs s' 0 2) = 1%Z /\
  o_parents (get_obj s' 0) = [2].
Proof. exact w1_regression. Qed.

(* ---- define-then-delete ----
   FULL STATEMENT (C13_add_delete_identity, false of the code): linking a bias to a variable, activating it and
   deleting it restores every feature state of the variable.
   Counterexample: the variable's own (toplevel) activation is not a reference; the bias adds one and
   removes it, the count reaches 0 and the dynamic feature "active" is switched off. *)
Theorem C13_add_delete_identity_refuted : exists s0 s1 s2 s3,
  enable gen_tables 20 0 0 false true false w2_s0 = Some (true, s0) /\ is_enabled s0 0 0 = true /\
  add_child gen_tables 20 1 0 s0 = Some s1 /\
  enable gen_tables 20 1 0 false true false s1 = Some (true, s2) /\
  delete_bias gen_tables 20 1 s2 = Some s3 /\
  o_children (get_obj s3 1) = [] /\ o_parents (get_obj s3 0) = [] /\ is_enabled s3 0 0 = false.
Proof. exact w2_witness. Qed.
Print Assumptions C13_add_delete_identity_refuted.

(* non-vacuity: the premises of the implications above are satisfiable on the real tables *)
Example C13_example_release : exists s s',
  release_op (OpDisable 0 20) = true /\ run_op gen_tables 20 (OpDisable 0 20) s = Some (true, s') /\
  is_enabled s 0 20 = true /\ is_enabled s' 0 20 = false /\ is_enabled s' 0 7 = false.
Proof.
  destruct w3_witness as (s & _ & E & _). exists s. eexists.
  vm_compute in E. inversion E as [Hs]. repeat (split; [vm_compute; reflexivity|]). vm_compute; reflexivity.
Qed.

Example C13_example_guard : exists s, (1 < fs_rc (get_fs s 0 2))%Z /\ is_enabled s 0 2 = true.
Proof.
  exists [mkObj 1 (map (fun i => mkFstate true (Nat.eqb i 2) 2%Z []) (seq 0 38)) [] []].
  split; vm_compute; reflexivity.
Qed.

(* ==== run-time definition and deletion of objects (ModuleModel.v) ====
   wf m (ModuleProofs.wfs): children and parents mirror each other with multiplicity; bias > variable > component >
   atom group; a destroyed object refers to nothing and nothing refers to it; a component has one variable, an atom
   group one component; only atom groups hold atoms.
   acct m: the engine-side reference count of every atom = number of atom objects held by atom groups. *)

(* For all tables, all fuel, ALL finite sequences over {define variable (any shape), define bias (on any numbers),
   any colvardeps primitive on any object/feature/flags, delete bias, delete variable (with its biases), reset}:
   links stay consistent and atoms stay accounted for. *)
Theorem C13_links_and_atoms_stay_consistent : forall (T : tables) n (ps : list mop) m m',
  wf m -> acct m -> m_run T n ps m = Some m' -> wf m' /\ acct m'.
Proof. exact m_run_wf. Qed.
Print Assumptions C13_links_and_atoms_stay_consistent.

Theorem C13_initial_state_consistent : forall k, wf (m_empty k) /\ acct (m_empty k).
Proof. exact empty_wf. Qed.
Print Assumptions C13_initial_state_consistent.

(* "no reference to a deleted object is ever used": in a consistent state whatever a live object lists among its
   children or parents is a live object (a valid number), and a destroyed object is listed nowhere. *)
Theorem C13_no_reference_to_deleted_object : forall m o x,
  wf m -> alive_in (m_info m) o = true -> In x (children (m_objs m) o ++ parents (m_objs m) o) ->
  alive_in (m_info m) x = true /\ x < length (m_objs m).
Proof. intros m o x W. apply wfs_no_dangling. exact W. Qed.
Print Assumptions C13_no_reference_to_deleted_object.

Theorem C13_deleted_object_fully_unlinked : forall m o,
  wf m -> alive_in (m_info m) o = false ->
  children (m_objs m) o = [] /\ parents (m_objs m) o = [] /\ i_atoms (info_of (m_info m) o) = [].
Proof. intros m o W. apply (wf_dead _ _ W). Qed.
Print Assumptions C13_deleted_object_fully_unlinked.

(* "atoms no longer used are released": an atom that no live atom group holds has reference count 0. *)
Theorem C13_unused_atoms_released : forall m a,
  wf m -> acct m -> a < length (m_atoms m) ->
  (forall o, alive_in (m_info m) o = true -> ~ In a (i_atoms (info_of (m_info m) o))) ->
  nth a (m_atoms m) 0%Z = 0%Z.
Proof. exact unused_atom_released. Qed.
Print Assumptions C13_unused_atoms_released.

(* deletion deletes: the variable (bias) is destroyed, nothing is revived, classes and the number of objects stay *)
Theorem C13_delete_colvar_destroys : forall (T : tables) n v m m',
  wf m -> m_delete_colvar T n v m = Some m' ->
  wf m' /\ mshrinks m m' /\
  (alive_in (m_info m) v = true -> class (m_objs m) v = 1 -> alive_in (m_info m') v = false) /\
  (acct m -> acct m').
Proof. exact m_delete_colvar_wf. Qed.
Print Assumptions C13_delete_colvar_destroys.

Theorem C13_reset_leaves_no_variable_or_bias : forall (T : tables) n m m',
  wf m -> m_reset T n m = Some m' ->
  wf m' /\ mshrinks m m' /\ (forall o, alive_in (m_info m') o = true -> 2 <= class (m_objs m') o) /\ (acct m -> acct m').
Proof. exact m_reset_wf. Qed.
Print Assumptions C13_reset_leaves_no_variable_or_bias.

(* non-vacuity on the real tables: two variables (the first with two atom groups sharing atom 1 with the second), a bias
   on both, everything activated; deleting the first variable destroys it, its component, its groups and the bias, keeps
   the second variable (unlinked from the bias), and leaves atom 1 with one reference, atoms 2 and 3 with none *)
Definition ex_avail (k : nat) : list bool := repeat true k.
Definition ex_ops : list mop :=
  [MNewColvar (ex_avail 38) [(ex_avail 18, [(ex_avail 11, [1; 2]); (ex_avail 11, [3])])];
   MNewColvar (ex_avail 38) [(ex_avail 18, [(ex_avail 11, [1])])];
   MNewBias (ex_avail 17) [0; 4];
   MPrim (OpEnable 0 34 false true false); MPrim (OpEnable 4 34 false true false);   (* scalar, as colvar::init sets it *)
   MPrim (OpEnable 0 0 false true false); MPrim (OpEnable 4 0 false true false); MPrim (OpEnable 7 0 false true false);
   MDeleteColvar 0].

Example C13_example_define_delete : exists m',
  m_run gen_tables 40 ex_ops (m_empty 5) = Some m' /\
  map i_alive (m_info m') = [false; false; false; false; true; true; true; false] /\
  m_atoms m' = [0; 1; 0; 0; 0]%Z /\
  parents (m_objs m') 4 = [] /\
  (* the surviving variable has lost "active" with its last bias: the known finding variable-deactivated-when-last-bias-deleted *)
  is_enabled (m_objs m') 4 0 = false.
Proof. eexists. split; [vm_compute; reflexivity|]. repeat split. Qed.

(* ==== reference counts (InvModel.v: need, excess; DepsInv.v) ====
   need T s o g = what the state accounts for on feature g of object o: enabled features of o listing g in requires_self
   + recorded alternate_refs + (for every ACTIVE object p) occurrences of o among p's children x enabled features of p
   listing g in requires_children;  excess = ref_count - need.
   consistent T s = every excess >= 0 and every disabled feature has ref_count <= 0. *)

(* Main lemma (any tables, any state whose object graph has a height decreasing from parent to child, any object,
   feature, fuel, successful or refused call, with all cascades of automatic disables through the object and its
   descendants): a complete call of disable ON A FEATURE WHOSE ref_count IS NOT EXACTLY 1 never lowers the excess of any
   feature of any object: every reference it releases is matched by a requirement that disappears with it.
   (_partial: the side condition is needed, see C13_no_switch_off_while_needed_refuted; the automatic disables made by
   decr_ref_count inside the call happen at ref_count 0 and are covered.) *)
Theorem C13_disable_never_lowers_excess_partial : forall (T : tables) (ht : nat -> nat) n o f s r s',
  heights ht s -> rc s o f <> 1%Z -> disable T n o f s = Some (r, s') -> forall o' g, (excess T s o' g <= excess T s' o' g)%Z.
Proof. exact disable_keeps_excess. Qed.
Print Assumptions C13_disable_never_lowers_excess_partial.

(* "At every point each enabled capability of every object has its prerequisites enabled": in a consistent state
   requires_self, the chosen alternatives, and (for active objects) requires_children are all enabled. *)
Theorem C13_consistent_prerequisites_enabled : forall (T : tables) s, consistent T s ->
  (forall o f g, is_enabled s o f = true -> In g (f_self (feat T (cls_of s o) f)) -> is_enabled s o g = true) /\
  (forall o f g, In g (fs_alt (get_fs s o f)) -> is_enabled s o g = true) /\
  (forall p f g c, is_enabled s p 0 = true -> is_enabled s p f = true -> In g (f_children (feat T (cls_of s p) f)) ->
                   In c (o_children (get_obj s p)) -> is_enabled s c g = true).
Proof.
  intros T s C. split; [|split].
  - intros o f g. apply (consistent_requires_self T s o f g C).
  - intros o f g. apply (consistent_alternates T s o f g C).
  - intros p f g c. apply (consistent_requires_children T s p f g c C).
Qed.
Print Assumptions C13_consistent_prerequisites_enabled.

(* "no capability is switched off while something that needs it remains", what holds of the code as it is:
   for ALL finite sequences of the deletion operations {delete a bias, delete a variable with its biases, reset} from any
   well-formed consistent state, consistency (hence the three prerequisite clauses above) holds afterwards;
   missing for the full statement: switching a feature off by script (next theorem, with its side condition). *)
Theorem C13_no_switch_off_while_needed_partial : forall (T : tables) n (ps : list mop) m m',
  forallb deletion_op ps = true -> wf m -> consistent T (m_objs m) -> m_run T n ps m = Some m' ->
  wf m' /\ consistent T (m_objs m').
Proof. exact deletions_keep_consistency. Qed.
Print Assumptions C13_no_switch_off_while_needed_partial.

(* switching a feature off (script `set <feature> off`) keeps consistency when the feature does not hold exactly one
   reference (with more than one the call is refused, with none nothing depends on it) *)
Theorem C13_disable_keeps_consistency_partial : forall (T : tables) n o f m m',
  wf m -> consistent T (m_objs m) -> rc (m_objs m) o f <> 1%Z -> m_prim T n (OpDisable o f) m = Some m' ->
  wf m' /\ consistent T (m_objs m').
Proof. exact disable_step_keeps_consistency. Qed.
Print Assumptions C13_disable_keeps_consistency_partial.

(* ... and WITHOUT the side condition it does not: the state of the counterexample above is consistent, the disable of
   total_force (ref_count 1) succeeds, the result is not consistent *)
Theorem C13_disable_keeps_consistency_refuted : exists s s',
  consistent gen_tables s /\ rc s 0 7 = 1%Z /\ disable gen_tables 20 0 7 s = Some (true, s') /\ ~ consistent gen_tables s'.
Proof.
  destruct w3_witness as (s & s' & E & Hin & E20 & E7 & Hrc & D & E20' & E7').
  exists s, s'. split; [|split; [exact Hrc|split; [exact D|]]].
  - apply (consistent_check_sound gen_tables s 40). vm_compute in E. inversion E; subst. vm_compute. reflexivity.
  - intros C. pose proof (consistent_requires_self gen_tables s' 0 20 7 C E20') as X.
    assert (Hin' : In 7 (f_self (feat gen_tables (cls_of s' 0) 20))).
    { vm_compute in E. inversion E; subst. vm_compute in D. inversion D; subst. vm_compute. auto 12. }
    rewrite (X Hin') in E7'. discriminate.
Qed.
Print Assumptions C13_disable_keeps_consistency_refuted.

(* deletion of a bias (colvarbias::clear + ~colvardeps) keeps consistency, no side condition *)
Theorem C13_delete_bias_keeps_consistency : forall (T : tables) (ht : nat -> nat) n b s s',
  heights ht s -> delete_bias T n b s = Some s' -> consistent T s -> consistent T s'.
Proof. exact delete_bias_consistent. Qed.
Print Assumptions C13_delete_bias_keeps_consistency.

(* the finite checker that the tie runs (extracted) on every dependency state dumped from the implementation *)
Theorem C13_consistent_check_sound : forall (T : tables) s G, consistent_check T s G = true -> consistent T s.
Proof. exact consistent_check_sound. Qed.
Print Assumptions C13_consistent_check_sound.

(* the finite checkers of the structural premises (extracted, run on every dumped state) are sound *)
Theorem C13_wf_check_sound : forall m, wf_check m = true -> wf m.
Proof. exact wf_check_sound. Qed.
Print Assumptions C13_wf_check_sound.

Theorem C13_acct_check_sound : forall m, acct_check m = true -> acct m.
Proof. exact acct_check_sound. Qed.
Print Assumptions C13_acct_check_sound.

(* non-vacuity on the real tables: the state of C13_example_define_delete just before the deletion (two active variables,
   an active bias on both) is well-formed and consistent; the deletion of the first variable is a deletion sequence *)
Example C13_example_consistent_computed : exists m m',
  m_run gen_tables 40 (firstn 8 ex_ops) (m_empty 5) = Some m /\ consistent_check gen_tables (m_objs m) 40 = true /\
  wf_check m = true /\ acct_check m = true /\
  is_enabled (m_objs m) 7 0 = true /\ is_enabled (m_objs m) 0 0 = true /\ rc (m_objs m) 0 0 = 1%Z /\
  m_run gen_tables 40 [MDeleteColvar 0] m = Some m'.
Proof.
  do 2 eexists. split; [vm_compute; reflexivity|]. split; [vm_compute; reflexivity|]. split; [vm_compute; reflexivity|].
  split; [vm_compute; reflexivity|]. split; [vm_compute; reflexivity|].
  split; [vm_compute; reflexivity|]. split; [vm_compute; reflexivity|]. vm_compute. reflexivity.
Qed.

Example C13_example_consistent : exists m m',
  m_run gen_tables 40 (firstn 8 ex_ops) (m_empty 5) = Some m /\ wf m /\ consistent gen_tables (m_objs m) /\
  is_enabled (m_objs m) 7 0 = true /\ is_enabled (m_objs m) 0 0 = true /\ rc (m_objs m) 0 0 = 1%Z /\
  forallb deletion_op [MDeleteColvar 0] = true /\ m_run gen_tables 40 [MDeleteColvar 0] m = Some m' /\
  consistent gen_tables (m_objs m').
Proof.
  destruct C13_example_consistent_computed as (m & m' & E & Ck & _ & _ & A1 & A2 & A3 & E').
  assert (W : wf m) by (destruct (C13_initial_state_consistent 5) as (W0 & A0); apply (m_run_wf gen_tables 40 _ _ _ W0 A0 E)).
  assert (C : consistent gen_tables (m_objs m)) by (apply (consistent_check_sound gen_tables (m_objs m) 40 Ck)).
  exists m, m'. repeat (split; [assumption || reflexivity|]).
  apply (deletions_keep_consistency gen_tables 40 [MDeleteColvar 0] m m' eq_refl W C E').
Qed.

(* non-vacuity of C13_disable_keeps_consistency_partial: in the same state the bias (object 7) is switched off:
   its "active" holds no reference (top-level request), the call succeeds and releases the variables *)
Example C13_example_disable_partial : exists m m',
  m_run gen_tables 40 (firstn 8 ex_ops) (m_empty 5) = Some m /\ wf_check m = true /\ consistent_check gen_tables (m_objs m) 40 = true /\
  rc (m_objs m) 7 0 = 0%Z /\ m_prim gen_tables 40 (OpDisable 7 0) m = Some m' /\
  is_enabled (m_objs m') 7 0 = false /\ is_enabled (m_objs m') 0 0 = false.
Proof.
  do 2 eexists. split; [vm_compute; reflexivity|]. split; [vm_compute; reflexivity|]. split; [vm_compute; reflexivity|].
  split; [vm_compute; reflexivity|]. split; [vm_compute; reflexivity|]. split; vm_compute; reflexivity.
Qed.

(* ==== round 2 ==== *)

(* ---- "mutually exclusive capabilities are never enabled together", ENABLE side ----
   For any tables that pass the boolean check (requires graph acyclic, exclusions symmetric, no feature excludes itself
   or one of its transitive requirements), any state whose object graph has a height, any object, feature and flag
   combination, successful or failed call with everything it enables on the way (requirements, alternatives probed and
   taken, children, the wake-up of restore_children_deps): mutual exclusion is preserved.  With
   C13_exclusion_preserved_by_release this covers every primitive. *)
Theorem C13_enable_preserves_exclusion : forall (T : tables) (ht : nat -> nat) n o f dry top err s r s',
  excl_tables_check T = true -> heights_of ht s -> excl_inv T s ->
  enable T n o f dry top err s = Some (r, s') -> excl_inv T s'.
Proof. exact enable_preserves_exclusion. Qed.
Print Assumptions C13_enable_preserves_exclusion.

Theorem C13_restore_preserves_exclusion : forall (T : tables) (ht : nat -> nat) n o s s',
  excl_tables_check T = true -> heights_of ht s -> excl_inv T s ->
  restore_children_deps T n o s = Some s' -> excl_inv T s'.
Proof. exact restore_preserves_exclusion. Qed.
Print Assumptions C13_restore_preserves_exclusion.

(* the table facts hold on the tables regenerated from the binary (both variants) *)
Theorem GenDeps_exclusion_table_facts : excl_tables_check gen_tables = true /\ excl_tables_check gen_tables_lagged = true.
Proof. split; vm_compute; reflexivity. Qed.
Print Assumptions GenDeps_exclusion_table_facts.

(* non-vacuity: on the real tables the enable of C13_no_switch_off_while_needed_refuted starts from a state without
   conflicts, in a one-object graph *)
Example C13_example_exclusion : heights_of (fun _ => 0) w3_s0 /\ excl_inv gen_tables w3_s0 /\
  exists s, enable gen_tables 20 0 20 false true false w3_s0 = Some (true, s) /\ excl_inv gen_tables s.
Proof.
  assert (H : heights_of (fun _ => 0) w3_s0).
  { intros p c Hc. destruct p as [|p]; [cbn in Hc; contradiction|]. destruct p; cbn in Hc; contradiction. }
  assert (X : excl_inv gen_tables w3_s0) by (apply excl_check_sound; vm_compute; reflexivity).
  split; [exact H|]. split; [exact X|].
  destruct w3_witness as (s & _ & E & _). exists s. split; [exact E|].
  apply (enable_preserves_exclusion gen_tables (fun _ => 0) 20 0 20 false true false w3_s0 true s (proj1 GenDeps_exclusion_table_facts) H X E).
Qed.

(* ---- consistency is NOT preserved by the enable family in general (restore_children_deps ignores a failed child
   enable): counterexample on synthetic tables (EnableWitness.v); not reachable on the tables of the binary as far as
   the search goes, hence monitored on every dump instead *)
Theorem C13_enable_keeps_consistency_refuted : exists (T : tables) s s',
  consistent T s /\ enable T 10 1 0 false true false s = Some (true, s') /\ ~ consistent T s'.
Proof. exact enable_breaks_consistency_syn. Qed.
Print Assumptions C13_enable_keeps_consistency_refuted.

(* ---- components and atom groups: every live component belongs to a variable, every live atom group to a component,
   for ALL sequences of operations from the empty state ... *)
Theorem C13_rooted_for_all_sequences : forall (T : tables) n (ps : list mop) m m',
  wf m -> acct m -> rooted m -> m_run T n ps m = Some m' -> wf m' /\ acct m' /\ rooted m'.
Proof. exact m_run_rooted. Qed.
Print Assumptions C13_rooted_for_all_sequences.

Theorem C13_initial_state_rooted : forall k, rooted (m_empty k).
Proof. exact empty_rooted. Qed.
Print Assumptions C13_initial_state_rooted.

(* ... hence reset destroys EVERYTHING (variables, biases, components, atom groups) and brings every atom reference count
   back to zero (atoms held through fitting groups and atoms shared between groups included: i_atoms lists both) *)
Theorem C13_reset_destroys_everything : forall (T : tables) n m m',
  wf m -> rooted m -> m_reset T n m = Some m' ->
  (forall o, alive_in (m_info m') o = false) /\
  (acct m -> forall a, a < length (m_atoms m') -> nth a (m_atoms m') 0%Z = 0%Z).
Proof. exact reset_destroys_everything. Qed.
Print Assumptions C13_reset_destroys_everything.

(* non-vacuity: the example state is reached from the empty state, hence rooted; reset empties it *)
Example C13_example_reset : exists m m',
  m_run gen_tables 40 (firstn 8 ex_ops) (m_empty 5) = Some m /\ wf m /\ rooted m /\ acct m /\
  m_reset gen_tables 40 m = Some m' /\ map i_alive (m_info m') = repeat false 8 /\ m_atoms m' = repeat 0%Z 5.
Proof.
  destruct C13_example_consistent_computed as (m & _ & E & _).
  destruct (C13_initial_state_consistent 5) as (W0 & A0).
  destruct (m_run_rooted gen_tables 40 _ _ _ W0 A0 (empty_rooted 5) E) as (W & A & R).
  destruct (m_reset gen_tables 40 m) as [m'|] eqn:E'.
  2:{ vm_compute in E. inversion E; subst. vm_compute in E'. discriminate. }
  exists m, m'. repeat (split; [assumption || reflexivity|]).
  vm_compute in E. inversion E; subst. vm_compute in E'. inversion E'; subst. split; reflexivity.
Qed.

(* ==== only DYNAMIC features are switched by reference counting (UserFeatures.v) ====
   The tables regenerated from the binary carry the kind of every feature (dynamic / user-controlled / static).
   colvardeps::decr_ref_count auto-disables `rc == 0 && f->is_dynamic()` only, and a non-top-level enable of a feature
   that is not dynamic is refused ("cannot be enabled automatically"). *)

(* every release primitive (disable with all cascades, decr_ref_count, free_children_deps): an enabled feature that is
   not dynamic stays enabled unless it is the very target of the disable call *)
Theorem C13_release_keeps_non_dynamic_features : forall (T : tables) n p s r s' o' g,
  release_op p = true -> run_op T n p s = Some (r, s') ->
  is_dynamic (feat T (cls_of s o') g) = false -> (forall o f, p = OpDisable o f -> (o, f) <> (o', g)) ->
  is_enabled s o' g = true -> is_enabled s' o' g = true.
Proof. exact release_keeps_non_dynamic. Qed.
Print Assumptions C13_release_keeps_non_dynamic_features.

Theorem C13_delete_bias_keeps_non_dynamic_features : forall (T : tables) n b s s' o' g,
  delete_bias T n b s = Some s' -> is_dynamic (feat T (cls_of s o') g) = false ->
  is_enabled s o' g = true -> is_enabled s' o' g = true.
Proof. exact delete_bias_keeps_non_dynamic. Qed.
Print Assumptions C13_delete_bias_keeps_non_dynamic_features.

(* enable (any flags, successful or failed): a feature that is not dynamic and becomes enabled is the target of a top-level call *)
Theorem C13_enable_enables_only_dynamic_features : forall (T : tables) n o f dry top err s r s' o' g,
  enable T n o f dry top err s = Some (r, s') ->
  is_enabled s o' g = false -> is_enabled s' o' g = true -> is_dynamic (feat T (cls_of s o') g) = false ->
  top = true /\ (o', g) = (o, f).
Proof. exact enable_enables_only_dynamic. Qed.
Print Assumptions C13_enable_enables_only_dynamic_features.

(* FOR EVERY SEQUENCE of operations {define variable, define bias, any primitive, delete bias, delete variable, reset}:
   a feature of an existing object that is not dynamic has the same state afterwards, unless the sequence contains an
   explicit request on it (a top-level enable or a disable of exactly that feature of that object) *)
Theorem C13_non_dynamic_features_change_only_on_request : forall (T : tables) o g n (ps : list mop) m m',
  o < length (m_objs m) -> is_dynamic (feat T (cls_of (m_objs m) o) g) = false ->
  forallb (fun p => negb (mrequests o g p)) ps = true -> m_run T n ps m = Some m' ->
  is_enabled (m_objs m') o g = is_enabled (m_objs m) o g.
Proof. exact non_dynamic_changes_only_on_request. Qed.
Print Assumptions C13_non_dynamic_features_change_only_on_request.

(* non-vacuity on the real tables, the situation of the witness W_U: a scalar variable with extended_Lagrangian (13, user)
   switched on by a top-level request; a bias obtains the total force (5 -> child 7 -> alternative 13: one reference);
   the bias is deleted: total_force (dynamic) goes, extended_Lagrangian stays *)
Definition exu_ops1 : list mop :=
  [MNewColvar (ex_avail 38) [(ex_avail 18, [(ex_avail 11, [1])])]; MNewBias (ex_avail 17) [0];
   MPrim (OpEnable 0 34 false true false); MPrim (OpEnable 0 0 false true false); MPrim (OpEnable 0 13 false true false)].
Definition exu_ops2 : list mop :=
  [MPrim (OpEnable 3 0 false true false); MPrim (OpEnable 3 5 false true false); MDeleteBias 3].

Example C13_example_user_feature : exists m m',
  m_run gen_tables 40 exu_ops1 (m_empty 3) = Some m /\ is_enabled (m_objs m) 0 13 = true /\
  is_dynamic (feat gen_tables (cls_of (m_objs m) 0) 13) = false /\
  forallb (fun p => negb (mrequests 0 13 p)) exu_ops2 = true /\ m_run gen_tables 40 exu_ops2 m = Some m' /\
  is_enabled (m_objs m') 0 13 = true /\ is_enabled (m_objs m') 0 7 = false /\
  (exists m1, m_run gen_tables 40 (firstn 2 exu_ops2) m = Some m1 /\ is_enabled (m_objs m1) 0 7 = true /\ fs_rc (get_fs (m_objs m1) 0 13) = 1%Z).
Proof.
  do 2 eexists. split; [vm_compute; reflexivity|]. split; [vm_compute; reflexivity|]. split; [vm_compute; reflexivity|].
  split; [vm_compute; reflexivity|]. split; [vm_compute; reflexivity|]. split; [vm_compute; reflexivity|]. split; [vm_compute; reflexivity|].
  eexists. split; [vm_compute; reflexivity|]. split; vm_compute; reflexivity.
Qed.

(* ==== cross-check with the C08 model (CrossC08.v): its small dependency engine (active / awake / apply_force of a variable:
   the references taken and dropped when biases and variables with timeStepFactor > 1 go to sleep and wake up) agrees with
   the general engine instantiated with the regenerated tables, on every flag combination and every count in -1 .. 3 *)
Theorem GenDeps_C08_engine_agrees : forall (T : Type) (O : NumOps T),
  cross_check O gen_tables = true /\ cross_check O gen_tables_lagged = true.
Proof. intros T O. exact (c08_engine_agrees O). Qed.
Print Assumptions GenDeps_C08_engine_agrees.

(* ==== define-then-delete is the identity, model level (IdentityProofs.v) ====
   FULL STATEMENT (false of the code: C13_add_delete_identity_refuted, finding F2): linking a variable to a bias and deleting
   the bias restores the state of every other object.
   _partial: it holds when everything the bias requires of the variable is already ON and REFERENCED (ref_count >= 1 for
   dynamic features, >= 0 for the others): then add_child only takes references, colvarbias::clear only drops them, no
   automatic disable fires, and every feature state (flags, counts, alternates) and every children/parents list of every
   object is restored.  Not covered: capabilities that the bias has to switch on (they are switched off again by the
   deletion in the implementation; checked there by the identity re-runs), several variables. *)
Theorem C13_link_then_delete_bias_identity_partial : forall (T : tables) n m (s : state) (b v : nat) s1 s2,
  b < length s -> v < length s -> b <> v -> o_children (get_obj s b) = [] ->
  is_enabled s b 0 = true ->
  (forall fid g, is_enabled s b fid = true -> In g (f_children (feat T (cls_of s b) fid)) ->
     is_enabled s v g = true /\ g < nfeat T (cls_of s v) /\ (0 <= rc s v g)%Z /\
     (is_dynamic (feat T (cls_of s v) g) = true -> (1 <= rc s v g)%Z)) ->
  add_child T (S n) b v s = Some s1 -> delete_bias T m b s1 = Some s2 ->
  length s2 = length s /\
  (forall o f, get_fs s2 o f = get_fs s o f) /\
  (forall o, cls_of s2 o = cls_of s o /\ o_children (get_obj s2 o) = o_children (get_obj s o) /\
             o_parents (get_obj s2 o) = o_parents (get_obj s o)).
Proof. exact link_then_delete_bias_identity. Qed.
Print Assumptions C13_link_then_delete_bias_identity_partial.

(* non-vacuity on the real tables: the example state (variable 0 active, referenced once by bias 7) plus a second, active,
   still childless bias (object 8); it is linked to variable 0 and deleted *)
Definition exi_ops : list mop := firstn 8 ex_ops ++ [MNewBias (ex_avail 17) []; MPrim (OpEnable 8 0 false true false)].

Example C13_example_identity : exists m s1 s2,
  m_run gen_tables 40 exi_ops (m_empty 5) = Some m /\
  pc_check gen_tables (m_objs m) 8 0 = true /\ is_enabled (m_objs m) 8 0 = true /\ o_children (get_obj (m_objs m) 8) = [] /\
  add_child gen_tables 40 8 0 (m_objs m) = Some s1 /\ rc s1 0 0 = 2%Z /\
  delete_bias gen_tables 40 8 s1 = Some s2 /\ rc s2 0 0 = 1%Z.
Proof.
  do 3 eexists. split; [vm_compute; reflexivity|]. split; [vm_compute; reflexivity|]. split; [vm_compute; reflexivity|].
  split; [vm_compute; reflexivity|]. split; [vm_compute; reflexivity|]. split; [vm_compute; reflexivity|]. split; vm_compute; reflexivity.
Qed.

(* ==== default names of unnamed biases (NameModel.v) ====
   The default name of a bias is <type><rank>, rank = a per-type counter that counts every definition of the type, is not
   decreased by deletions and is cleared by reset.  For EVERY sequence of {define a bias of any type (named or not, its
   init succeeding or not), delete an unnamed bias, reset} from the empty state: the default names of the live unnamed biases
   are pairwise distinct (and each rank is at most the counter of its type). *)
Theorem C13_default_names_stay_distinct : forall (ps : list nop) s, n_inv s -> n_inv (n_run ps s).
Proof. exact default_names_distinct. Qed.
Print Assumptions C13_default_names_stay_distinct.

Theorem C13_default_names_initial : n_inv n_empty.
Proof. exact n_empty_inv. Qed.
Print Assumptions C13_default_names_initial.

(* the scenario of the seeded change C13_3: two unnamed biases of one type, the older one deleted, a third defined *)
Example C13_example_default_names :
  n_live (n_run [NDefine 0 true true; NDefine 0 true true; NDelete 0 1; NDefine 0 true true] n_empty) = [(0, 2); (0, 3)].
Proof. vm_compute. reflexivity. Qed.

(* ==== multiple time steps in the lifecycle model (ModuleModel.sched, SchedProofs.v) ====
   The awake/asleep scheduling of colvarmodule::calc_colvars -- for every bias, then every variable, with timeStepFactor > 1,
   at any step, in any state -- changes no class, link or availability, and keeps mutual exclusion (tables passing the check,
   object graph with a height).  Tied: every step event of the histories that involves such an object is replayed. *)
Theorem C13_sched_keeps_shape_and_exclusion : forall (T : tables) (ht : nat -> nat) n step (ots : list (nat * nat)) s s',
  sched T n step ots s = Some s' ->
  same_shape s s' /\ (excl_tables_check T = true -> heights_of ht s -> excl_inv T s -> excl_inv T s').
Proof. exact sched_good. Qed.
Print Assumptions C13_sched_keeps_shape_and_exclusion.

(* non-vacuity and the sleeping mechanism on the real tables: a bias with timeStepFactor 2 on variable 0 of the example state:
   at an odd step the bias loses `awake`, hence its last reference on `active`, and its variables lose the references it held *)
Example C13_example_sched : exists m s1 s2,
  m_run gen_tables 40 (firstn 8 ex_ops) (m_empty 5) = Some m /\
  sched gen_tables 40 0 [(7, 2)] (m_objs m) = Some s1 /\ is_enabled s1 7 1 = true /\ is_enabled s1 7 0 = true /\ rc s1 0 0 = 1%Z /\
  sched gen_tables 40 1 [(7, 2)] s1 = Some s2 /\ is_enabled s2 7 1 = false /\ is_enabled s2 7 0 = false /\ rc s2 0 0 = 0%Z /\
  is_enabled s2 0 0 = false.
Proof.
  do 3 eexists. split; [vm_compute; reflexivity|]. split; [vm_compute; reflexivity|]. repeat (split; [vm_compute; reflexivity|]).
  vm_compute. reflexivity.
Qed.

(* ==== uncounted top-level requests of a holder on another object ====
   colvarbias_abf::init enables hide_Jacobian_force (user) and grid in its variables, histogram / metadynamics enable grid,
   colvar::parse_analysis enables fdiff_velocity in another variable: plain top-level enables, nothing records that the holder
   needs them.  In the model they are `MPrim (OpEnable v g false true false)`.  For EVERY sequence of deletions (delete bias,
   delete variable with its biases, reset), whoever made the request and however many holders there were, a feature that is
   not dynamic keeps its state in every object that existed: nothing is "given back" on behalf of a deleted holder. *)
Theorem C13_deletions_keep_uncounted_requests : forall (T : tables) n (ps : list mop) m m' o g,
  forallb deletion_op ps = true -> m_run T n ps m = Some m' ->
  o < length (m_objs m) -> is_dynamic (feat T (cls_of (m_objs m) o) g) = false ->
  is_enabled (m_objs m') o g = is_enabled (m_objs m) o g.
Proof. exact deletions_keep_uncounted_requests. Qed.
Print Assumptions C13_deletions_keep_uncounted_requests.

(* non-vacuity on the real tables: two biases (objects 3 and 4) on variable 0, each requesting hide_Jacobian_force (12, user) of it by
   a top-level enable; the first is deleted: the feature (and Jacobian_derivative, 11, that it requires) stays on *)
Definition exh_ops : list mop :=
  [MNewColvar (ex_avail 38) [(ex_avail 18, [(ex_avail 11, [1])])]; MNewBias (ex_avail 17) [0]; MNewBias (ex_avail 17) [0];
   MPrim (OpEnable 0 34 false true false); MPrim (OpEnable 0 35 false true false); MPrim (OpEnable 0 0 false true false);
   MPrim (OpEnable 3 0 false true false); MPrim (OpEnable 4 0 false true false);
   MPrim (OpEnable 0 12 false true false); MPrim (OpEnable 0 12 false true false)].

Example C13_example_uncounted_request : exists m m',
  m_run gen_tables 40 exh_ops (m_empty 3) = Some m /\ is_enabled (m_objs m) 0 12 = true /\ rc (m_objs m) 0 12 = 0%Z /\
  is_dynamic (feat gen_tables (cls_of (m_objs m) 0) 12) = false /\
  m_run gen_tables 40 [MDeleteBias 3] m = Some m' /\ is_enabled (m_objs m') 0 12 = true /\ is_enabled (m_objs m') 0 11 = true /\
  alive_in (m_info m') 3 = false /\ alive_in (m_info m') 4 = true.
Proof.
  do 2 eexists. split; [vm_compute; reflexivity|]. repeat (split; [vm_compute; reflexivity|]). vm_compute. reflexivity.
Qed.

(* FULL STATEMENT (false of the code, finding F9): defining a bias and deleting it restores every feature state of its variables.
   Counterexample on the real tables: the bias requests hide_Jacobian_force (12, a user feature) of its variable by a top-level
   enable (abf with hideJacobian on); nothing counts that request, so no deletion can give it back
   (C13_deletions_keep_uncounted_requests): after the deletion of its ONLY holder the feature is still on, and off in the
   history in which the bias never existed.  Replayed on the implementation every run (witness W_F9). *)
Theorem C13_define_delete_holder_identity_refuted : exists m0 m m',
  m_run gen_tables 40 f9_base (m_empty 3) = Some m0 /\ is_enabled (m_objs m0) 0 12 = false /\
  m_run gen_tables 40 f9_holder m0 = Some m /\ is_enabled (m_objs m) 0 12 = true /\ rc (m_objs m) 0 12 = 0%Z /\
  m_run gen_tables 40 [MDeleteBias 3] m = Some m' /\ alive_in (m_info m') 3 = false /\
  is_enabled (m_objs m') 0 12 = true /\ is_enabled (m_objs m') 0 11 = true.
Proof. exact only_holder_witness. Qed.
Print Assumptions C13_define_delete_holder_identity_refuted.

(* ==== references to another object by NAME ====
   The only reference by name that the library follows while running is colvar::calc_acf (corrFuncWithColvar): the rule it relies
   on, and that this model states, is that the name is RESOLVED AT EVERY USE in the table of live objects (cvm::colvar_by_name),
   never kept as a pointer: `resolve` is that lookup; objects are numbered by their definition.  For every history: right after
   the deletion of a name it resolves to nothing (the step reports `not defined at this time`), it keeps resolving to nothing
   whatever else is defined, deleted or reset, and when it is defined again it resolves to the NEW object, which is none of the
   objects that existed before the deletion nor any object alive now. *)
Theorem C13_name_reference_resolved_at_use : forall (ps qs : list rop) (name : nat),
  (forall n, In (RDefine n) qs -> n <> name) ->
  let s := r_run ps r_empty in
  let s1 := r_run qs (r_step (RDelete name) s) in
  resolve (r_step (RDelete name) s) name = None /\
  resolve s1 name = None /\
  resolve (r_step (RDefine name) s1) name = Some (r_next s1) /\
  (forall n o, In (n, o) (r_live s) -> o < r_next s1) /\
  (forall n o, In (n, o) (r_live s1) -> o <> r_next s1).
Proof. exact delete_then_redefine. Qed.
Print Assumptions C13_name_reference_resolved_at_use.

(* operations on OTHER names never change what a name resolves to *)
Theorem C13_name_reference_unaffected_by_other_names : forall (s : rstate) (p : rop) (name : nat),
  (forall n, p = RDefine n \/ p = RDelete n -> n <> name) -> p <> RReset ->
  resolve (r_step p s) name = resolve s name.
Proof. exact resolve_other_name. Qed.
Print Assumptions C13_name_reference_unaffected_by_other_names.

(* non-vacuity (witness W_C): y = name 0 and x = name 1 defined (objects 0, 1); y deleted: resolves to nothing; x untouched;
   another variable (name 2, object 2) defined meanwhile; y defined again: object 3, not object 0 *)
Example C13_example_name_reference :
  let s := r_run [RDefine 0; RDefine 1] r_empty in
  resolve s 0 = Some 0 /\ resolve (r_step (RDelete 0) s) 0 = None /\ resolve (r_step (RDelete 0) s) 1 = Some 1 /\
  resolve (r_run [RDelete 0; RDefine 2; RDefine 0] s) 0 = Some 3.
Proof. vm_compute. repeat split; reflexivity. Qed.
