(* C12, regenerated-table theorems: coq/Gen/GenFootC12.v is written on every run of the check from footprints DERIVED
   from the rebuilt binary (no instrumentation: every work item is run alone from a restored snapshot - writes = what
   changed - and re-run with one location perturbed at a time - reads = what influences what it writes), for the
   configurations of the run (corpus + generated).  These theorems are re-checked by coqc against what the code does now. *)
From Coq Require Import ZArith List Bool.
From CV Require Import C12.SmpModel C12.SmpProofs Gen.GenFootC12 Gen.GenBiasC12.
Import ListNotations.

(* the derived footprints of the component-loop items, of the collection phase and of the bias-loop items (incl. the
   scripted-force task) coincide, as sets of locations, item by item, with the footprint table of the model *)
Theorem C12_gen_footprints_match_model : forallb probe_matches_b gen_probes = true.
Proof. vm_compute. reflexivity. Qed.
Print Assumptions C12_gen_footprints_match_model.

(* C12_component_items_independent / C12_bias_items_independent re-checked on the regenerated footprints: the items of
   each parallel loop, and the collection items, are pairwise independent (hypothesis of the commutation theorem) *)
Theorem C12_gen_items_independent :
  Forall (fun p => Pairwise fp_indep (p_comp p) /\ Pairwise fp_indep (p_bias p) /\ Pairwise fp_indep (p_collect p)) gen_probes.
Proof. apply probes_independent_sound. vm_compute. reflexivity. Qed.
Print Assumptions C12_gen_items_independent.

(* the same independence on the footprints derived for configurations OUTSIDE the model (distance, angle, dihedral,
   gyration, coordNum, rmsd, ... components; metadynamics, abf, histogram, walls, linear, replica-sharing biases): no
   location is written by two items of a loop, none written by one is read by another.  Items with private state that do
   not repeat themselves (hills, samples) contribute their write sets only. *)
Theorem C12_gen_rich_items_independent :
  Forall (fun p => Pairwise fp_indep (p_comp p) /\ Pairwise fp_indep (p_bias p) /\ Pairwise fp_indep (p_collect p)) gen_rich_probes.
Proof. apply probes_independent_sound. vm_compute. reflexivity. Qed.
Print Assumptions C12_gen_rich_items_independent.

(* the regenerated table is not empty *)
Example C12_gen_nonempty : negb (Nat.eqb (length gen_probes) 0) = true /\
  existsb (fun p => Nat.leb 2 (length (p_comp p))) gen_probes = true.
Proof. vm_compute. split; reflexivity. Qed.

(* for every bias kind that the engine simulator can configure: replica_share_freq() printed by the rebuilt binary = the model's
   table, and the parallel bias loop was taken (with that bias alone, mode cvcs) exactly when the model says so *)
Theorem C12_gen_share_freq_matches_model :
  forallb (fun x => match x with (k, f, par) =>
             Nat.eqb (replica_share_freq k) f && Bool.eqb (parallel_bias_loop ModeCvcs [k]) par end) gen_bias_kinds = true.
Proof. vm_compute. reflexivity. Qed.
Print Assumptions C12_gen_share_freq_matches_model.

Example C12_gen_bias_kinds_nonempty : Nat.leb 8 (length gen_bias_kinds) = true.
Proof. vm_compute. reflexivity. Qed.
