(* C12: results do not depend on threading or on the order of evaluation (statements only; model in
   SmpModel.v, proofs in SmpProofs.v).  PARTIAL: the theorems are about the work-item bookkeeping and the
   footprint table of the model; freedom from data races of the real binary is a runtime fact that is
   explored with a std::thread executor and ThreadSanitizer, not proved. *)
From Coq Require Import ZArith List Bool Arith Permutation.
From CV Require Import C12.SmpModel C12.SmpProofs.
Import ListNotations.

(* (i) The item list built by calc_colvars (one item (variable, k) for k below the number of active
   components of each active variable), with item (v, k) meaning calc_cvcs(k, 1), evaluates every enabled
   component of every active variable exactly once: the evaluated list IS the list of active pairs, it has
   no duplicates, and (v, c) is in it iff v is an active variable whose flag c is on.  For all flag vectors,
   all variable lists, all steps.
   Before the repair `fix: SMP work item k evaluates the k-th active component` calc_cvcs(k, 1) meant
   "first enabled component at array index >= k"; the statement was false of that code
   (SmpProofs.unfixed_items_refuted: flags [off; on; on] evaluate component 1 twice and component 2 never). *)
Theorem C12_items_cover_active_once : forall (vs : list var) (t : nat),
  let avs := active_vars t vs in
  let ev := flat_map (item_evaluates vs) (build_items avs) in
  ev = active_pairs avs /\ NoDup ev /\
  (forall v c, In (v, c) ev <-> exists x, In (v, x) avs /\ nth c (v_flags x) false = true).
Proof. exact items_cover_active_once. Qed.
Print Assumptions C12_items_cover_active_once.

Example C12_items_cover_example :
  let vs := [mkVar 1 [false; true; true] [] [1; 1; 1]%Z [] false; mkVar 2 [true] [] [1%Z] [] false; mkVar 1 [true; false] [] [1; 1]%Z [] false] in
  build_items (active_vars 1 vs) = [(0, 0); (0, 1); (2, 0)] /\
  flat_map (item_evaluates vs) (build_items (active_vars 1 vs)) = [(0, 1); (0, 2); (2, 0)].
Proof. vm_compute. split; reflexivity. Qed.

(* the serial schedule colvar::calc() = calc_cvcs(0, 0) evaluates the same components in the same order *)
Theorem C12_serial_evaluates_same_components : forall (avs : list (nat * var)),
  flat_map serial_evaluates avs = active_pairs avs.
Proof. exact serial_evaluates_spec. Qed.
Print Assumptions C12_serial_evaluates_same_components.

(* (ii-a) Any permutation of the n item indices, dealt to any number of threads by any assignment, executed
   under any interleaving of the threads (Merge), runs every index exactly once. *)
Theorem C12_partition : forall (nt n : nat) (assign : nat -> nat) (order l : list nat),
  Permutation order (seq 0 n) -> (forall k, k < n -> assign k < nt) -> Merge (deal nt assign order) l ->
  NoDup l /\ (forall i, In i l <-> i < n).
Proof. exact schedule_exactly_once. Qed.
Print Assumptions C12_partition.

Example C12_partition_example :
  deal 2 (fun k => k mod 2) [2; 0; 1] = [[2; 1]; [0]] /\ Merge (deal 2 (fun k => k mod 2) [2; 0; 1]) [2; 1; 0].
Proof. split; [reflexivity|]. apply (@merge_concat nat [[2; 1]; [0]]). Qed.

(* (ii-b) Generic commutation: items that respect their footprints (wf) and are pairwise independent (no
   location written by two of them, none written by one and read by another) produce the same store in
   every order.  For every type of locations and values. *)
Theorem C12_order_independent : forall (L V : Type) (eqb : L -> L -> bool),
  (forall a b, eqb a b = true <-> a = b) ->
  forall (l l' : list (item L V)), Permutation l l' -> Forall wf l -> Pairwise indep l ->
  forall s, seq_eq (run eqb l s) (run eqb l' s).
Proof. exact order_independent. Qed.
Print Assumptions C12_order_independent.

(* (ii-c) Instantiation with the footprint table of the model: the component items of the SMP item list of any
   configuration at any step respect their footprints and are pairwise independent ... *)
Theorem C12_component_items_independent : forall (vs : list var) (t : nat),
  let items := map comp_item (flat_map (item_evaluates vs) (build_items (active_vars t vs))) in
  Forall wf items /\ Pairwise indep items.
Proof. exact component_items_independent. Qed.
Print Assumptions C12_component_items_independent.

(* ... and so are the items of the bias loop (active biases and the scripted-force task). *)
Theorem C12_bias_items_independent : forall (c : cfg) (t : nat),
  Forall wf (smp_bias_work c t) /\ Pairwise indep (smp_bias_work c t).
Proof. exact bias_items_independent. Qed.
Print Assumptions C12_bias_items_independent.

(* (iii) Serial = parallel: for every configuration, step, store, every permutation of the component items
   and of the bias-loop items, every number of threads, every assignment and every interleaving, the store
   after the SMP schedule (parallel component loop, serial collection, parallel bias loop, serial energy sum
   and force communication) equals, location by location, the store after the serial schedule (variable by
   variable: components then collection; script; biases in order).  Steps that raise the "all components
   disabled" error are excluded: there the serial path returns early and the two paths legitimately differ. *)
Theorem C12_serial_equals_parallel : forall (c : cfg) (t : nat) (s : store)
    (ntc ntb : nat) (asc asb : nat -> nat) (orc orb lc lb : list nat),
  step_error c t = false ->
  Permutation orc (seq 0 (n_cvc_items c t)) -> Permutation orb (seq 0 (n_bias_items c t)) ->
  (forall k, k < n_cvc_items c t -> asc k < ntc) -> (forall k, k < n_bias_items c t -> asb k < ntb) ->
  Merge (deal ntc asc orc) lc -> Merge (deal ntb asb orb) lb ->
  forall l, step_smp c t lc lb s l = step_serial c t s l.
Proof. exact serial_equals_parallel. Qed.
Print Assumptions C12_serial_equals_parallel.

Example C12_serial_equals_parallel_example :
  let c := mkCfg [mkVar 1 [true; true; true] [false; true; true] [1; 1; 1]%Z [] false; mkVar 1 [true] [] [2%Z] [] false]
                 [mkBias 1 [0; 1] 2 [0; 0]%Z; mkBias 2 [1] 1 [1%Z]] true false [(1, 3%Z)] in
  step_error c 0 = false /\ n_cvc_items c 0 = 3 /\ n_bias_items c 0 = 3 /\
  Permutation [2; 0; 1] (seq 0 3) /\ Merge (deal 2 (fun k => k mod 2) [2; 0; 1]) [2; 1; 0].
Proof.
  cbv zeta. repeat split; try reflexivity.
  - apply (perm_trans (l' := [0; 2; 1])); [apply perm_swap|apply perm_skip; apply perm_swap].
  - apply (@merge_concat nat [[2; 1]; [0]]).
Qed.

(* (iv) Error codes are OR-ed into one word: the result does not depend on the order in which the items
   report, and a bit is set iff some item set it. *)
Theorem C12_error_bits_commute : forall (l l' : list Z), Permutation l l' -> or_codes l = or_codes l'.
Proof. exact or_codes_perm. Qed.
Print Assumptions C12_error_bits_commute.

Theorem C12_error_bit_set_iff_reported : forall (l : list Z) (n : Z), (forall c, In c l -> (0 <= c)%Z) ->
  Z.testbit (or_codes l) n = existsb (fun c => Z.testbit c n) l.
Proof. exact or_codes_bit. Qed.
Print Assumptions C12_error_bit_set_iff_reported.

(* (v) Log indentation: a message logged by a component is indented as in the serial run on every thread whose
   depth counter started from the value of the calling thread's (the counters are allocated together with one
   common value; only the calling thread's moves between parallel loops, and it is back at that value whenever
   calc_colvars starts its loop).  Before the repair `fix: smp_loop raises the log depth of every thread that runs
   items` this was false on every thread but thread 0 (SmpProofs.depth_smp_unfixed_refuted). *)
Theorem C12_log_depth_consistent : forall (bases : nat -> nat) (th : nat),
  bases th = bases 0 -> depth_smp bases th = depth_serial (bases 0).
Proof. exact depth_smp_consistent. Qed.
Print Assumptions C12_log_depth_consistent.

Example C12_log_depth_example : (fun _ : nat => 0) 3 = (fun _ : nat => 0) 0 /\ depth_smp (fun _ => 0) 3 = 2.
Proof. split; reflexivity. Qed.

(* (vi) Inner loop of a component (`smp inner_loop`): the thread count and the partition of the per-atom terms over
   the threads are explicit parameters of the evaluation; over every commutative monoid the result does not depend on
   them and equals the serial accumulation.  This is associativity and commutativity of the sum: it holds for the
   model's exact carrier (Z below) and for R, and NOT for IEEE doubles, whose addition is not associative - on the C++
   this clause is enforced by the bitwise thread-count oracle of the check only (an OpenMP floating-point reduction
   violates it). *)
Theorem C12_inner_loop_partition_independent : forall (M : Type) (op : M -> M -> M) (e : M),
  (forall a b c, op a (op b c) = op (op a b) c) -> (forall a b, op a b = op b a) -> (forall a, op e a = a) ->
  forall (nt : nat) (assign : nat -> nat) (terms : list M),
  (forall k, k < length terms -> assign k < nt) -> inner_loop_value op e nt assign terms = msum op e terms.
Proof. exact inner_loop_partition_independent_stmt. Qed.
Print Assumptions C12_inner_loop_partition_independent.

Theorem C12_inner_loop_exact_carrier : forall (nt : nat) (assign : nat -> nat) (terms : list Z),
  (forall k, k < length terms -> assign k < nt) -> inner_loop_value Z.add 0%Z nt assign terms = zsum terms.
Proof. exact inner_loop_Z. Qed.
Print Assumptions C12_inner_loop_exact_carrier.

Example C12_inner_loop_example :
  (forall k, k < 5 -> k mod 2 < 2) /\ deal 2 (fun k => k mod 2) [1; 2; 3; 4; 5]%Z = [[1; 3; 5]; [2; 4]]%Z /\
  inner_loop_value Z.add 0%Z 2 (fun k => k mod 2) [1; 2; 3; 4; 5]%Z = 15%Z.
Proof. split; [intros k _; apply Nat.mod_upper_bound; discriminate|]. split; reflexivity. Qed.

(* (vii) The guard of the bias loop: whether the module takes the parallel loop (any order of its items) or, because an
   active bias shares data with replicas (biases_need_main_thread), the straight loop on the main thread, the store is
   that of "script task, then the active biases in order". *)
Theorem C12_bias_loop_any_mode : forall (need_main_thread : bool) (c : cfg) (t : nat) (ob : list nat) (s : store),
  Permutation ob (seq 0 (n_bias_items c t)) ->
  forall l, run loc_eqb (bias_loop_items need_main_thread c t ob) s l =
            run loc_eqb ((if c_use_script c && negb (c_script_after c) then script_items c else []) ++ map bias_item (active_biases t (c_biases c))) s l.
Proof. exact bias_loop_any_mode. Qed.
Print Assumptions C12_bias_loop_any_mode.

(* (viii) Output: files are written by the serial phases from the store, which is schedule independent (iii).  The log
   under any schedule is a REARRANGEMENT of the serial log (same lines, same multiplicities); the property text fixes the
   indentation of a line (v), not an order between the messages of items that run concurrently, and the check compares
   logs as multisets of lines accordingly. *)
Theorem C12_log_is_rearrangement : forall (A : Type) (msgs : list (list A)) (order : list nat),
  Permutation order (seq 0 (length msgs)) -> Permutation (log_of msgs order) (log_of msgs (seq 0 (length msgs))).
Proof. exact @log_rearrangement. Qed.
Print Assumptions C12_log_is_rearrangement.

Example C12_log_example : log_of [[11; 12]; [21]; []] [1; 2; 0] = [21; 11; 12] /\ Permutation [1; 2; 0] (seq 0 3).
Proof.
  split; [reflexivity|]. apply (perm_trans (l' := [1; 0; 2])); [apply perm_skip; apply perm_swap|apply perm_swap].
Qed.

(* (ix) Shared accumulators updated under the SMP lock (the error word: (iv); the citation counters of
   colvarmodule::usage, incremented by every cvm::rotation constructed during an evaluation): each item contributes an
   element of a commutative monoid; the result does not depend on the order in which the items take the lock.  That the
   updates ARE under the lock is a fact about the C++ explored with ThreadSanitizer (it was false for the citation
   counters before `fix: citation counters were updated without synchronisation ...`). *)
Theorem C12_locked_accumulator_order_independent : forall (M : Type) (op : M -> M -> M) (e : M),
  (forall a b c, op a (op b c) = op (op a b) c) -> (forall a b, op a b = op b a) -> (forall a, op e a = a) ->
  forall (l l' : list M), Permutation l l' -> msum op e l = msum op e l'.
Proof. exact locked_accumulator_order_independent. Qed.
Print Assumptions C12_locked_accumulator_order_independent.

(* (x) The work-item list is state of the module (colvars_smp / colvars_smp_items survive between steps) that calc_colvars
   rebuilds at every step: the list used at step t does not depend on the list left by earlier steps and is a function of the
   active set of step t alone; along any history the k-th list is the item list of the active set of step t+k.  A variant that
   keeps the old list when the item COUNT is unchanged is wrong as soon as two variables with timeStepFactor 2 and 3 alternate
   (SmpProofs.rebuild_items_cached_refuted; the check generates such configurations in the quick tier). *)
Theorem C12_item_list_depends_only_on_active_set : forall (old old' : list (nat * nat)) (c c' : cfg) (t t' : nat),
  active_vars t (prep_vars t (c_vars c)) = active_vars t' (prep_vars t' (c_vars c')) ->
  rebuild_items old c t = rebuild_items old' c' t'.
Proof. exact rebuild_items_active_set. Qed.
Print Assumptions C12_item_list_depends_only_on_active_set.

Theorem C12_item_list_history : forall (old : list (nat * nat)) (c : cfg) (t n k : nat), k < n ->
  exists ck, nth k (items_history rebuild_items old c t n) [] = build_items (active_vars (t + k) (prep_vars (t + k) (c_vars ck))).
Proof. intros old c t n k. apply items_history_spec. Qed.
Print Assumptions C12_item_list_history.

(* (xi) The step that raises "All CVCs are disabled".  FULL STATEMENT (false of the code): forall c t s l,
   run (serial_cvc_items_err c t) s l = run (smp_cvc_items_err c t) s l.  The serial path returns at the failing variable, the
   SMP path finishes the step: the variable values after such a step depend on the SMP mode (known finding
   error-step:serial-returns-early, replayed on the implementation on every run). *)
Theorem C12_error_step_refuted : exists (c : cfg) (t : nat) (s : store) (l : loc),
  step_error c t = true /\ run loc_eqb (serial_cvc_items_err c t) s l <> run loc_eqb (smp_cvc_items_err c t) s l.
Proof. exact error_step_paths_differ. Qed.
Print Assumptions C12_error_step_refuted.

Theorem C12_error_step_partial : forall (c : cfg) (t : nat) (s : store),
  step_error c t = false ->
  (forall p, In p (active_vars t (prep_vars t (c_vars c))) -> any_true (v_flags (snd p)) = true) ->
  forall l, run loc_eqb (serial_cvc_items_err c t) s l = run loc_eqb (smp_cvc_items_err c t) s l.
Proof. exact error_free_step_paths_agree. Qed.
Print Assumptions C12_error_step_partial.

(* (xii) Small steps.  An item is a read phase (copy what it looks at), a computation and a write phase; a trace is any
   sequence of read/write phases in which an item is read only while it is not in flight and written only while it is
   (valid_trace), so the phases of items running on different threads interleave freely.  If the items respect their footprints
   and are pairwise independent and every item commits exactly once, the store after the trace equals, location by location,
   the store of the atomic serial execution.  (C12_order_independent at the granularity of phases; every execution of threads that
   each run their queue item after item is such a trace - thread_mops, valid_thread - and so is any interleaving of them.) *)
Theorem C12_small_step_schedule_independent : forall (L V : Type) (eqb : L -> L -> bool),
  (forall a b, eqb a b = true <-> a = b) ->
  forall (items : list (item L V)), Forall wf items -> Pairwise indep items ->
  forall (tr : list mop) (s : L -> V),
  valid_trace tr [] -> Permutation (wr_order tr) (seq 0 (length items)) ->
  seq_eq (mrun eqb items tr s []) (run eqb items s).
Proof. exact small_step_stmt. Qed.
Print Assumptions C12_small_step_schedule_independent.

(* a genuinely interleaved trace of three items on two threads: both threads read before either writes *)
Example C12_small_step_example :
  let tr := [Rd 2; Rd 0; Wr 0; Wr 2; Rd 1; Wr 1] in
  valid_trace tr [] /\ wr_order tr = [0; 2; 1] /\ Permutation (wr_order tr) (seq 0 3).
Proof.
  cbv zeta. split; [|split].
  - cbn. repeat split; auto; intros H; repeat (destruct H as [H|H]; try discriminate); auto.
  - reflexivity.
  - cbn. apply perm_skip. apply perm_swap.
Qed.

(* (xiii) SMP mode.  The configuration keyword `smp` selects cvcs | inner_loop | none; only cvcs takes the item list and the
   parallel loops.  Whatever the mode (and, in cvcs mode, whatever the schedule) the store after the step is the serial one. *)
Theorem C12_mode_independent : forall (m : smp_mode) (c : cfg) (t : nat) (oc ob : list nat) (s : store),
  Permutation oc (seq 0 (n_cvc_items c t)) -> Permutation ob (seq 0 (n_bias_items c t)) ->
  forall l, step_mode m c t oc ob s l = step_serial c t s l.
Proof. exact step_mode_eq_serial. Qed.
Print Assumptions C12_mode_independent.

(* (xiv) Which loop the biases run in: the parallel loop is taken iff the mode is cvcs and NO active bias shares data with
   replicas (replica_share_freq() = 0 for all of them); replica_share_freq of every bias kind is the table of SmpModel.v section 12,
   compared on every run with the values printed by the rebuilt binary for each configurable kind (regenerated table,
   C12_gen_share_freq_matches_model). *)
Theorem C12_parallel_bias_loop_iff : forall (m : smp_mode) (active : list bias_kind),
  parallel_bias_loop m active = true <-> m = ModeCvcs /\ forall k, In k active -> replica_share_freq k = 0.
Proof. exact parallel_bias_loop_spec. Qed.
Print Assumptions C12_parallel_bias_loop_iff.

(* (xv) Distribution of the items over the threads of the library's own OpenMP loop (static schedule): nt contiguous blocks
   that partition the item list, sizes n/nt or n/nt + 1; every interleaving of the threads runs every item exactly once. *)
Theorem C12_omp_static_partition : forall (n nt : nat), 0 < nt ->
  concat (omp_static n nt) = seq 0 n /\ length (omp_static n nt) = nt /\
  Forall (fun q => length q = n / nt \/ length q = S (n / nt)) (omp_static n nt).
Proof. exact omp_static_spec. Qed.
Print Assumptions C12_omp_static_partition.

Theorem C12_omp_static_exactly_once : forall (n nt : nat) (l : list nat), 0 < nt -> Merge (omp_static n nt) l -> Permutation l (seq 0 n).
Proof. exact omp_static_exactly_once. Qed.
Print Assumptions C12_omp_static_exactly_once.

Example C12_omp_static_example : omp_static 7 3 = [[0; 1; 2]; [3; 4]; [5; 6]] /\ omp_thread_of 7 3 4 = 1 /\ omp_static 2 4 = [[0]; [1]; []; []].
Proof. repeat split; reflexivity. Qed.

(* (xvi) Biases with private accumulated state (metadynamics hills, OPES kernels, ABF samples, moving centres ...): an item that
   reads its variables' values and its OWN state and writes its own energy, forces and state.  Any mixture of such biases and of
   stateless ones, in any order of the bias loop, gives the same store.  The footprints derived from the binary for every bias
   kind (private state restored from a binary state buffer before every run of the probe) are checked against this shape on
   every run (C12_gen_rich_items_independent), and the check runs every kind paired with a restraint whose energy varies, with the
   bias first and last in the executed order. *)
Theorem C12_mixed_bias_loop_order_independent : forall (stateful : nat -> bool) (abs : list (nat * bias)) (ob : list nat) (s : store),
  NoDup (map fst abs) -> Permutation ob (seq 0 (length abs)) ->
  forall l, run loc_eqb (pick (map (any_bias_item stateful) abs) ob) s l = run loc_eqb (map (any_bias_item stateful) abs) s l.
Proof. exact mixed_bias_loop_order_independent. Qed.
Print Assumptions C12_mixed_bias_loop_order_independent.

(* FULL STATEMENT for a bias that adds the other biases' energies to what it deposits (false): forall orders, same store.
   Such an item reads what another item of the same loop writes: it is not independent of it and the two orders differ. *)
Theorem C12_extra_bias_read_refuted :
  let opes := extra_bias_item [1] (0, mkBias 1 [0] 1 [0%Z]) in
  let harm := bias_item (1, mkBias 1 [0] 2 [0%Z]) in
  let s0 : store := fun l => match l with LX 0 => 3%Z | _ => 0%Z end in
  ~ indep harm opes /\
  run loc_eqb [opes; harm] s0 (LBiasState 0) = 3%Z /\ run loc_eqb [harm; opes] s0 (LBiasState 0) = 21%Z.
Proof. exact extra_bias_order_dependent. Qed.
Print Assumptions C12_extra_bias_read_refuted.

(* (xvii) Script callbacks.  The engine has one interpreter with one result slot.  In the serial collection phase (main thread, after
   the parallel component loop) every scripted variable gets the value of ITS function; FULL STATEMENT for callbacks entered
   concurrently (false): the same for every interleaving of the two halves of the callbacks.  The check records thread and
   "inside a parallel loop" at every callback entry of the engine simulator: an entry off the main thread or inside a loop is a
   violation (callback:off-main-thread). *)
Theorem C12_serial_callbacks_correct : forall (vs : list nat) (slot : Z) (f : nat -> Z),
  slot_exec (serial_callbacks vs) slot f = map (fun v => (v, f v)) vs.
Proof. exact serial_callbacks_correct. Qed.
Print Assumptions C12_serial_callbacks_correct.

Theorem C12_concurrent_callbacks_refuted : exists (ops : list (nat * bool)) (f : nat -> Z),
  Permutation ops (serial_callbacks [0; 1]) /\ slot_exec ops 0%Z f <> map (fun v => (v, f v)) [0; 1].
Proof. exact concurrent_callbacks_refuted. Qed.
Print Assumptions C12_concurrent_callbacks_refuted.
