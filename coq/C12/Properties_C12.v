(* C12: results do not depend on threading or on the order of evaluation (statements only; model in
   SmpModel.v, proofs in SmpProofs.v).  PARTIAL: the theorems are about the work-item bookkeeping and the
   footprint table of the model; freedom from data races of the real binary is a runtime fact that is
   explored with a std::thread executor and ThreadSanitizer, not proved. *)
From Coq Require Import ZArith List Bool Arith Permutation.
From CV Require Import C12.SmpModel C12.SmpProofs.
Import ListNotations.

(* (i) The item list built by calc_colvars (one item (variable, k) for k below the number of active
   components of each active variable), with item (v, k) meaning calc_cvcs(k, 1), evaluates every enabled
   component of every active variable exactly once: the evaluated list IS the list of active pairs, it has
   no duplicates, and (v, c) is in it iff v is an active variable whose flag c is on.  For all flag vectors,
   all variable lists, all steps.
   Before the repair `fix: SMP work item k evaluates the k-th active component` calc_cvcs(k, 1) meant
   "first enabled component at array index >= k"; the statement was false of that code
   (SmpProofs.unfixed_items_refuted: flags [off; on; on] evaluate component 1 twice and component 2 never). *)
Theorem C12_items_cover_active_once : forall (vs : list var) (t : nat),
  let avs := active_vars t vs in
  let ev := flat_map (item_evaluates vs) (build_items avs) in
  ev = active_pairs avs /\ NoDup ev /\
  (forall v c, In (v, c) ev <-> exists x, In (v, x) avs /\ nth c (v_flags x) false = true).
Proof. exact items_cover_active_once. Qed.
Print Assumptions C12_items_cover_active_once.

Example C12_items_cover_example :
  let vs := [mkVar 1 [false; true; true] [] [1; 1; 1]%Z; mkVar 2 [true] [] [1%Z]; mkVar 1 [true; false] [] [1; 1]%Z] in
  build_items (active_vars 1 vs) = [(0, 0); (0, 1); (2, 0)] /\
  flat_map (item_evaluates vs) (build_items (active_vars 1 vs)) = [(0, 1); (0, 2); (2, 0)].
Proof. vm_compute. split; reflexivity. Qed.

(* the serial schedule colvar::calc() = calc_cvcs(0, 0) evaluates the same components in the same order *)
Theorem C12_serial_evaluates_same_components : forall (avs : list (nat * var)),
  flat_map serial_evaluates avs = active_pairs avs.
Proof. exact serial_evaluates_spec. Qed.
Print Assumptions C12_serial_evaluates_same_components.

(* (ii-a) Any permutation of the n item indices, dealt to any number of threads by any assignment, executed
   under any interleaving of the threads (Merge), runs every index exactly once. *)
Theorem C12_partition : forall (nt n : nat) (assign : nat -> nat) (order l : list nat),
  Permutation order (seq 0 n) -> (forall k, k < n -> assign k < nt) -> Merge (deal nt assign order) l ->
  NoDup l /\ (forall i, In i l <-> i < n).
Proof. exact schedule_exactly_once. Qed.
Print Assumptions C12_partition.

Example C12_partition_example :
  deal 2 (fun k => k mod 2) [2; 0; 1] = [[2; 1]; [0]] /\ Merge (deal 2 (fun k => k mod 2) [2; 0; 1]) [2; 1; 0].
Proof. split; [reflexivity|]. apply (@merge_concat nat [[2; 1]; [0]]). Qed.

(* (ii-b) Generic commutation: items that respect their footprints (wf) and are pairwise independent (no
   location written by two of them, none written by one and read by another) produce the same store in
   every order.  For every type of locations and values. *)
Theorem C12_order_independent : forall (L V : Type) (eqb : L -> L -> bool),
  (forall a b, eqb a b = true <-> a = b) ->
  forall (l l' : list (item L V)), Permutation l l' -> Forall wf l -> Pairwise indep l ->
  forall s, seq_eq (run eqb l s) (run eqb l' s).
Proof. exact order_independent. Qed.
Print Assumptions C12_order_independent.

(* (ii-c) Instantiation with the footprint table of the model: the component items of the SMP item list of any
   configuration at any step respect their footprints and are pairwise independent ... *)
Theorem C12_component_items_independent : forall (vs : list var) (t : nat),
  let items := map comp_item (flat_map (item_evaluates vs) (build_items (active_vars t vs))) in
  Forall wf items /\ Pairwise indep items.
Proof. exact component_items_independent. Qed.
Print Assumptions C12_component_items_independent.

(* ... and so are the items of the bias loop (active biases and the scripted-force task). *)
Theorem C12_bias_items_independent : forall (c : cfg) (t : nat),
  Forall wf (smp_bias_work c t) /\ Pairwise indep (smp_bias_work c t).
Proof. exact bias_items_independent. Qed.
Print Assumptions C12_bias_items_independent.

(* (iii) Serial = parallel: for every configuration, step, store, every permutation of the component items
   and of the bias-loop items, every number of threads, every assignment and every interleaving, the store
   after the SMP schedule (parallel component loop, serial collection, parallel bias loop, serial energy sum
   and force communication) equals, location by location, the store after the serial schedule (variable by
   variable: components then collection; script; biases in order).  Steps that raise the "all components
   disabled" error are excluded: there the serial path returns early and the two paths legitimately differ. *)
Theorem C12_serial_equals_parallel : forall (c : cfg) (t : nat) (s : store)
    (ntc ntb : nat) (asc asb : nat -> nat) (orc orb lc lb : list nat),
  step_error c t = false ->
  Permutation orc (seq 0 (n_cvc_items c t)) -> Permutation orb (seq 0 (n_bias_items c t)) ->
  (forall k, k < n_cvc_items c t -> asc k < ntc) -> (forall k, k < n_bias_items c t -> asb k < ntb) ->
  Merge (deal ntc asc orc) lc -> Merge (deal ntb asb orb) lb ->
  forall l, step_smp c t lc lb s l = step_serial c t s l.
Proof. exact serial_equals_parallel. Qed.
Print Assumptions C12_serial_equals_parallel.

Example C12_serial_equals_parallel_example :
  let c := mkCfg [mkVar 1 [true; true; true] [false; true; true] [1; 1; 1]%Z; mkVar 1 [true] [] [2%Z]]
                 [mkBias 1 [0; 1] 2 [0; 0]%Z; mkBias 2 [1] 1 [1%Z]] true false [(1, 3%Z)] in
  step_error c 0 = false /\ n_cvc_items c 0 = 3 /\ n_bias_items c 0 = 3 /\
  Permutation [2; 0; 1] (seq 0 3) /\ Merge (deal 2 (fun k => k mod 2) [2; 0; 1]) [2; 1; 0].
Proof.
  cbv zeta. repeat split; try reflexivity.
  - apply (perm_trans (l' := [0; 2; 1])); [apply perm_swap|apply perm_skip; apply perm_swap].
  - apply (@merge_concat nat [[2; 1]; [0]]).
Qed.

(* (iv) Error codes are OR-ed into one word: the result does not depend on the order in which the items
   report, and a bit is set iff some item set it. *)
Theorem C12_error_bits_commute : forall (l l' : list Z), Permutation l l' -> or_codes l = or_codes l'.
Proof. exact or_codes_perm. Qed.
Print Assumptions C12_error_bits_commute.

Theorem C12_error_bit_set_iff_reported : forall (l : list Z) (n : Z), (forall c, In c l -> (0 <= c)%Z) ->
  Z.testbit (or_codes l) n = existsb (fun c => Z.testbit c n) l.
Proof. exact or_codes_bit. Qed.
Print Assumptions C12_error_bit_set_iff_reported.

(* (v) Log indentation: a message logged by a component is indented as in the serial run on every thread whose
   depth counter started from the value of the calling thread's (the counters are allocated together with one
   common value; only the calling thread's moves between parallel loops, and it is back at that value whenever
   calc_colvars starts its loop).  Before the repair `fix: smp_loop raises the log depth of every thread that runs
   items` this was false on every thread but thread 0 (SmpProofs.depth_smp_unfixed_refuted). *)
Theorem C12_log_depth_consistent : forall (bases : nat -> nat) (th : nat),
  bases th = bases 0 -> depth_smp bases th = depth_serial (bases 0).
Proof. exact depth_smp_consistent. Qed.
Print Assumptions C12_log_depth_consistent.

Example C12_log_depth_example : (fun _ : nat => 0) 3 = (fun _ : nat => 0) 0 /\ depth_smp (fun _ => 0) 3 = 2.
Proof. split; reflexivity. Qed.

(* (vi) Inner loop of a component (`smp inner_loop`): the thread count and the partition of the per-atom terms over
   the threads are explicit parameters of the evaluation; over every commutative monoid the result does not depend on
   them and equals the serial accumulation.  This is associativity and commutativity of the sum: it holds for the
   model's exact carrier (Z below) and for R, and NOT for IEEE doubles, whose addition is not associative - on the C++
   this clause is enforced by the bitwise thread-count oracle of the check only (an OpenMP floating-point reduction
   violates it). *)
Theorem C12_inner_loop_partition_independent : forall (M : Type) (op : M -> M -> M) (e : M),
  (forall a b c, op a (op b c) = op (op a b) c) -> (forall a b, op a b = op b a) -> (forall a, op e a = a) ->
  forall (nt : nat) (assign : nat -> nat) (terms : list M),
  (forall k, k < length terms -> assign k < nt) -> inner_loop_value op e nt assign terms = msum op e terms.
Proof. exact inner_loop_partition_independent_stmt. Qed.
Print Assumptions C12_inner_loop_partition_independent.

Theorem C12_inner_loop_exact_carrier : forall (nt : nat) (assign : nat -> nat) (terms : list Z),
  (forall k, k < length terms -> assign k < nt) -> inner_loop_value Z.add 0%Z nt assign terms = zsum terms.
Proof. exact inner_loop_Z. Qed.
Print Assumptions C12_inner_loop_exact_carrier.

Example C12_inner_loop_example :
  (forall k, k < 5 -> k mod 2 < 2) /\ deal 2 (fun k => k mod 2) [1; 2; 3; 4; 5]%Z = [[1; 3; 5]; [2; 4]]%Z /\
  inner_loop_value Z.add 0%Z 2 (fun k => k mod 2) [1; 2; 3; 4; 5]%Z = 15%Z.
Proof. split; [intros k _; apply Nat.mod_upper_bound; discriminate|]. split; reflexivity. Qed.
