(* Model of the work-item bookkeeping of the SMP path of Colvars
     src/colvarmodule.cpp  calc_colvars (item list colvars_smp / colvars_smp_items, parallel loop, serial
                           collection), calc_component_smp, calc_biases (smp_biases_loop /
                           smp_biases_script_loop, energy sum), update_colvar_forces
     src/colvar.cpp        calc (serial schedule), calc_cvcs(first, num) and the loops of calc_cvc_values /
                           calc_cvc_gradients / calc_cvc_total_force / calc_cvc_Jacobians, collect_cvc_data,
                           set_cvc_flags / update_cvc_flags
     src/colvarproxy.cpp   smp_loop, smp_biases_loop, smp_biases_script_loop (what a schedule is)
   Definitions only.  A work item is a function from a read set to a write set over a store
   loc -> Z; the footprint table below says which fields of which object each item touches.
   The model mirrors the code that exists (after the repair `fix: SMP work item k evaluates the k-th
   active component`): same lists, same loop guards, same order of the serial phases. *)
From Coq Require Import ZArith List Bool Arith.
Import ListNotations.

(* ------------------------------------------------------------------------------------------- *)
(* 1. Generic: items with footprints over a store                                               *)
(* ------------------------------------------------------------------------------------------- *)
Section Generic.
  Context {L V : Type}.
  Variable eqb : L -> L -> bool.

  Definition mem (l : L) (ls : list L) : bool := existsb (eqb l) ls.

  (* an item reads the locations [reads], and assigns [act s l] to every location l of [writes] *)
  Record item := mkItem { reads : list L; writes : list L; act : (L -> V) -> L -> V }.

  Definition exec (it : item) (s : L -> V) : L -> V :=
    fun l => if mem l (writes it) then act it s l else s l.

  Fixpoint run (l : list item) (s : L -> V) : L -> V :=
    match l with
    | [] => s
    | a :: r => run r (exec a s)
    end.
End Generic.
Arguments item : clear implicits.
Arguments mkItem {L V}.

(* a schedule on threads: the k-th entry of the executed order is given to thread assign k; every
   thread runs its entries in list order (harness/vsim.h run_schedule; OpenMP static/dynamic schedules
   are instances) *)
Definition deal {A} (nt : nat) (assign : nat -> nat) (l : list A) : list (list A) :=
  map (fun t => map snd (filter (fun p => Nat.eqb (assign (fst p)) t) (combine (seq 0 (length l)) l)))
      (seq 0 nt).

(* ------------------------------------------------------------------------------------------- *)
(* 1b. Inside one component: the inner loop (`smp inner_loop`, OpenMP `parallel for reduction`)   *)
(* ------------------------------------------------------------------------------------------- *)
(* A component's value is an accumulation over its atoms (rmsd: sum of squared deviations; gyration,
   coordNum, eigenvector projections, ... likewise).  The serial loop folds the per-atom terms in index
   order.  Under an inner-loop parallelisation the number of threads [nt] and the partition of the index
   range ([assign k] = thread of the k-th term: static, dynamic, guided schedules are all instances) are
   explicit parameters: every thread folds its own terms starting from the neutral element, then the partial
   results are folded.  The carrier is any type with an operation and a neutral element. *)
Section InnerLoop.
  Context {M : Type} (op : M -> M -> M) (e : M).
  Definition msum (l : list M) : M := fold_left op l e.
  Definition reduce_chunks (chunks : list (list M)) : M := msum (map msum chunks).
  Definition inner_loop_value (nt : nat) (assign : nat -> nat) (terms : list M) : M :=
    reduce_chunks (deal nt assign terms).
End InnerLoop.

(* ------------------------------------------------------------------------------------------- *)
(* 2. Which components a call of calc_cvcs evaluates                                            *)
(* ------------------------------------------------------------------------------------------- *)
Fixpoint count_true (flags : list bool) : nat :=
  match flags with
  | [] => 0
  | true :: r => S (count_true r)
  | false :: r => count_true r
  end.

(* indices (counted from i) of the enabled components, in order *)
Fixpoint enabled_from (i : nat) (flags : list bool) : list nat :=
  match flags with
  | [] => []
  | true :: r => i :: enabled_from (S i) r
  | false :: r => enabled_from (S i) r
  end.
Definition enabled (flags : list bool) : list nat := enabled_from 0 flags.

(* the loop shared by calc_cvc_values / _gradients / _total_force / _Jacobians:
     for (i = first, cnt = 0; i < cvcs.size() && cnt < max; i++) { if (!enabled(i)) continue; cnt++; eval(i); }
   [flags] is the part of the flag array from index i on, [cnt] the evaluations still allowed *)
Fixpoint scan (flags : list bool) (i : nat) (cnt : nat) : list nat :=
  match cnt with
  | O => []
  | S n =>
    match flags with
    | [] => []
    | true :: r => i :: scan r (S i) n
    | false :: r => scan r (S i) cnt
    end
  end.

(* cvc_max_count = num_cvcs ? num_cvcs : num_active_cvcs() *)
Definition loop_cvcs (flags : list bool) (first num : nat) : list nat :=
  scan (skipn first flags) first (if Nat.eqb num 0 then count_true flags else num).

(* array index of the k-th (from 0) enabled component; cvcs.size() when there is none *)
Fixpoint first_index (flags : list bool) (i k : nat) : nat :=
  match flags with
  | [] => i
  | true :: r => match k with O => i | S k' => first_index r (S i) k' end
  | false :: r => first_index r (S i) k
  end.

(* colvar::calc_cvcs(first, num): "both arguments refer to the set of *active* CVCs" (colvar.h);
   the repaired code converts [first] to an array index before the loops *)
Definition calc_cvcs (flags : list bool) (first num : nat) : list nat :=
  loop_cvcs flags (first_index flags 0 first) num.

(* the code before the repair passed [first] to the loops unchanged *)
Definition calc_cvcs_unfixed (flags : list bool) (first num : nat) : list nat :=
  loop_cvcs flags first num.

(* ------------------------------------------------------------------------------------------- *)
(* 3. Configuration, activity, pending component flags                                          *)
(* ------------------------------------------------------------------------------------------- *)
Record var := mkVar {
  v_tsf : nat;               (* timeStepFactor *)
  v_flags : list bool;       (* f_cvc_active of each component *)
  v_pending : list bool;     (* colvar::cvc_flags: set by set_cvc_flags, applied at the next evaluation; [] = none *)
  v_coeff : list Z;          (* componentCoeff of each component *)
  v_exp : list nat;          (* componentExp of each component (absent entries = 1): polynomial combination *)
  v_scripted : bool          (* scriptedFunction: the value is a user function of ALL component values (here: their sum) *)
}.

Record bias := mkBias {
  b_tsf : nat;
  b_vars : list nat;         (* indices of its variables *)
  b_k : Z;                   (* harmonic force constant *)
  b_centers : list Z
}.

Record cfg := mkCfg {
  c_vars : list var;
  c_biases : list bias;
  c_use_script : bool;             (* scriptedColvarForces *)
  c_script_after : bool;           (* scriptingAfterBiases *)
  c_script : list (nat * Z)        (* what the force script does: addforce f on variable v *)
}.

(* step_absolute() % tsf == 0 (only consulted when tsf > 1) *)
Definition awake (tsf t : nat) : bool := (tsf <=? 1) || (t mod tsf =? 0).

(* colvar::update_cvc_flags *)
Definition any_true (l : list bool) : bool := existsb (fun b => b) l.
Definition update_flags (v : var) : var :=
  match v_pending v with
  | [] => v
  | p => mkVar (v_tsf v) p (if any_true p then [] else p) (v_coeff v) (v_exp v) (v_scripted v)
  end.
(* "ERROR: All CVCs are disabled" *)
Definition flags_error (v : var) : bool :=
  match v_pending v with [] => false | p => negb (any_true p) end.

(* colvar::set_cvc_flags (script command cvcflags): refused unless one flag per component *)
Definition set_flags (v : var) (p : list bool) : var :=
  if Nat.eqb (length p) (length (v_flags v)) then mkVar (v_tsf v) (v_flags v) p (v_coeff v) (v_exp v) (v_scripted v) else v.

(* the variables as calc_colvars sees them at step t: flags of the active ones updated *)
Definition prep_var (t : nat) (v : var) : var := if awake (v_tsf v) t then update_flags v else v.
Definition prep_vars (t : nat) (vs : list var) : list var := map (prep_var t) vs.

Fixpoint indexed_from {A} (i : nat) (l : list A) : list (nat * A) :=
  match l with [] => [] | a :: r => (i, a) :: indexed_from (S i) r end.
Definition indexed {A} (l : list A) : list (nat * A) := indexed_from 0 l.

Definition active_vars (t : nat) (vs : list var) : list (nat * var) :=
  filter (fun p => awake (v_tsf (snd p)) t) (indexed vs).
Definition active_biases (t : nat) (bs : list bias) : list (nat * bias) :=
  filter (fun p => awake (b_tsf (snd p)) t) (indexed bs).

(* ------------------------------------------------------------------------------------------- *)
(* 4. The work-item list of calc_colvars and what each item evaluates                           *)
(* ------------------------------------------------------------------------------------------- *)
(* for (icvc = 0; icvc < num_active_cvcs(); icvc++) { colvars_smp.push_back(cv); colvars_smp_items.push_back(icvc); } *)
Definition var_items (p : nat * var) : list (nat * nat) :=
  map (pair (fst p)) (seq 0 (count_true (v_flags (snd p)))).
Definition build_items (avs : list (nat * var)) : list (nat * nat) := flat_map var_items avs.

Definition flags_of (vs : list var) (v : nat) : list bool := v_flags (nth v vs (mkVar 0 [] [] [] [] false)).

(* calc_component_smp(i) = colvars_smp[i]->calc_cvcs(colvars_smp_items[i], 1): the (variable, component) pairs it evaluates *)
Definition item_evaluates (vs : list var) (it : nat * nat) : list (nat * nat) :=
  map (pair (fst it)) (calc_cvcs (flags_of vs (fst it)) (snd it) 1).
Definition item_evaluates_unfixed (vs : list var) (it : nat * nat) : list (nat * nat) :=
  map (pair (fst it)) (calc_cvcs_unfixed (flags_of vs (fst it)) (snd it) 1).

(* serial path: colvar::calc() = calc_cvcs(0, 0) *)
Definition serial_evaluates (p : nat * var) : list (nat * nat) :=
  map (pair (fst p)) (calc_cvcs (v_flags (snd p)) 0 0).

(* specification: every enabled component of every active variable *)
Definition active_pairs (avs : list (nat * var)) : list (nat * nat) :=
  flat_map (fun p => map (pair (fst p)) (enabled (v_flags (snd p)))) avs.

(* ------------------------------------------------------------------------------------------- *)
(* 5. Footprint table: the store and the items of one step                                      *)
(* ------------------------------------------------------------------------------------------- *)
Inductive loc :=
| LIn (v c : nat)       (* engine data component c of variable v reads: atom positions / total forces (read-only in a step) *)
| LCvc (v c : nat)      (* all that calc_cvcs writes in component c of variable v: x_cvc, atom-group data and gradients, ft_cvc, jd_cvc *)
| LX (v : nat)          (* what collect_cvc_data writes in variable v: x, ft, fj, atomic gradients, v_fdiff, ... *)
| LFb (v : nat)         (* the variable's bias-force accumulator fb *)
| LF (v : nat)          (* the variable's applied force f *)
| LBiasE (b : nat)      (* bias b: bias_energy *)
| LBiasF (b i : nat)    (* bias b: colvar_forces[i] *)
| LBiasState (b : nat)  (* bias b: its private accumulated data (hills, kernels, samples, moving centres) *)
| LEnergy.              (* colvarmodule::total_bias_energy *)

Definition loc_eqb (a b : loc) : bool :=
  match a, b with
  | LIn v c, LIn v' c' => Nat.eqb v v' && Nat.eqb c c'
  | LCvc v c, LCvc v' c' => Nat.eqb v v' && Nat.eqb c c'
  | LX v, LX v' => Nat.eqb v v'
  | LFb v, LFb v' => Nat.eqb v v'
  | LF v, LF v' => Nat.eqb v v'
  | LBiasE b, LBiasE b' => Nat.eqb b b'
  | LBiasF b i, LBiasF b' i' => Nat.eqb b b' && Nat.eqb i i'
  | LBiasState b, LBiasState b' => Nat.eqb b b'
  | LEnergy, LEnergy => true
  | _, _ => false
  end.

Definition store := loc -> Z.
Definition sitem := item loc Z.
Local Open Scope Z_scope.

Definition zsum (l : list Z) : Z := fold_left Z.add l 0.

(* component (v, c): read_data; calc_value; calc_gradients; calc_Jacobian_derivative; calc_force_invgrads *)
Definition comp_item (p : nat * nat) : sitem :=
  mkItem [LIn (fst p) (snd p)] [LCvc (fst p) (snd p)] (fun s _ => s (LIn (fst p) (snd p))).

(* collect_cvc_data of variable v: x = sum over the enabled components of sup_coeff * value^sup_np
   (colvar::collect_cvc_values, scalar branch: integer_power when sup_np != 1) *)
Definition collect_item (p : nat * var) : sitem :=
  let v := fst p in let en := enabled (v_flags (snd p)) in
  if v_scripted (snd p)
  then (* colvar::collect_cvc_values, scripted branch: run_colvar_callback(scripted_function, sorted_cvc_values, x) where
          sorted_cvc_values holds EVERY component, enabled or not (a disabled one contributes the value of its last evaluation) *)
       let all := seq 0 (length (v_flags (snd p))) in
       mkItem (map (LCvc v) all) [LX v] (fun s _ => zsum (map (fun c => s (LCvc v c)) all))
  else mkItem (map (LCvc v) en) [LX v]
         (fun s _ => zsum (map (fun c => nth c (v_coeff (snd p)) 1 * Z.pow (s (LCvc v c)) (Z.of_nat (nth c (v_exp (snd p)) 1%nat))) en)).

(* harmonic bias b: update() reads its variables' values, writes its own energy and colvar_forces.
   LBiasE holds k * sum (x - c)^2 = twice the energy (kept integral) *)
Definition bias_x (bs : bias) (s : store) (i : nat) : Z := s (LX (nth i (b_vars bs) O)) - nth i (b_centers bs) 0.
Definition bias_item (p : nat * bias) : sitem :=
  let b := fst p in let bs := snd p in
  let idx := seq 0 (length (b_vars bs)) in
  mkItem (map LX (b_vars bs)) (LBiasE b :: map (LBiasF b) idx)
         (fun s l => match l with
                     | LBiasE _ => b_k bs * zsum (map (fun i => bias_x bs s i * bias_x bs s i) idx)
                     | LBiasF _ i => - (b_k bs * bias_x bs s i)
                     | _ => 0
                     end).

(* a bias with accumulated private data (metadynamics, OPES, ABF, ... : update() deposits into / reads from its own hills,
   kernels or samples): it reads its variables' values and ITS OWN state, writes its own energy, forces and state.  The energy
   and forces come from the state accumulated so far, the deposit from the current values (integer stand-in for the kernel). *)
Definition acc_bias_item (p : nat * bias) : sitem :=
  let b := fst p in let bs := snd p in
  let idx := seq 0 (length (b_vars bs)) in
  mkItem (LBiasState b :: map LX (b_vars bs)) (LBiasE b :: LBiasState b :: map (LBiasF b) idx)
         (fun s l => match l with
                     | LBiasE _ => b_k bs * s (LBiasState b)
                     | LBiasState _ => s (LBiasState b) + zsum (map (fun i => bias_x bs s i) idx)
                     | LBiasF _ i => - (b_k bs * s (LBiasState b))
                     | _ => 0
                     end).
(* a stateful bias that ALSO adds the energies of the other biases to what it deposits (what the seeded change C12_5 made of
   OPES, "EXTRA_BIAS"): it reads locations that other items of the same loop write *)
Definition extra_bias_item (others : list nat) (p : nat * bias) : sitem :=
  let b := fst p in let bs := snd p in
  let idx := seq 0 (length (b_vars bs)) in
  mkItem (LBiasState b :: map LX (b_vars bs) ++ map LBiasE others) (LBiasE b :: LBiasState b :: map (LBiasF b) idx)
         (fun s l => match l with
                     | LBiasE _ => b_k bs * s (LBiasState b)
                     | LBiasState _ => s (LBiasState b) + zsum (map (fun i => bias_x bs s i) idx) + zsum (map (fun o => s (LBiasE o)) others)
                     | LBiasF _ i => - (b_k bs * s (LBiasState b))
                     | _ => 0
                     end).
Definition any_bias_item (stateful : nat -> bool) (p : nat * bias) : sitem :=
  if stateful (fst p) then acc_bias_item p else bias_item p.

(* the scripted-force task: calc_scripted_forces -> script -> colvar::add_bias_force (fb += f) *)
Definition script_force (sc : list (nat * Z)) (v : nat) : Z :=
  zsum (map snd (filter (fun q => Nat.eqb (fst q) v) sc)).
Definition script_item (sc : list (nat * Z)) : sitem :=
  let ls := map (fun q => LFb (fst q)) sc in
  mkItem ls ls (fun s l => match l with LFb v => s (LFb v) + script_force sc v | _ => 0 end).

(* calc_biases: reset_bias_force of every variable *)
Definition reset_item (nv : nat) : sitem :=
  mkItem [] (map LFb (seq 0 nv)) (fun _ _ => 0).

(* total_bias_energy = sum over the active biases *)
Definition energy_item (abs : list (nat * bias)) : sitem :=
  mkItem (map (fun p => LBiasE (fst p)) abs) [LEnergy]
         (fun s _ => zsum (map (fun p => s (LBiasE (fst p))) abs)).

(* colvarbias::communicate_forces: variables(i)->add_bias_force(time_step_factor * colvar_forces[i]) *)
Definition bias_force_on (p : nat * bias) (s : store) (v : nat) : Z :=
  let bs := snd p in
  zsum (map (fun i => if Nat.eqb (nth i (b_vars bs) O) v then Z.of_nat (Nat.max 1 (b_tsf bs)) * s (LBiasF (fst p) i) else 0)
            (seq 0 (length (b_vars bs)))).
Definition communicate_item (p : nat * bias) : sitem :=
  let bs := snd p in
  mkItem (map LFb (b_vars bs) ++ map (LBiasF (fst p)) (seq 0 (length (b_vars bs)))) (map LFb (b_vars bs))
         (fun s l => match l with LFb v => s (LFb v) + bias_force_on p s v | _ => 0 end).

(* colvar::update_forces_energy: f = fb for an active variable, 0 for an inactive one *)
Definition force_item (t : nat) (p : nat * var) : sitem :=
  mkItem [LFb (fst p)] [LF (fst p)] (fun s _ => if awake (v_tsf (snd p)) t then s (LFb (fst p)) else 0).

(* ------------------------------------------------------------------------------------------- *)
(* 6. One step: the serial schedule and the SMP schedule with an explicit execution order        *)
(* ------------------------------------------------------------------------------------------- *)
Definition pick {A} (l : list A) (order : list nat) : list A :=
  flat_map (fun k => match nth_error l k with Some a => [a] | None => [] end) order.

Definition script_items (c : cfg) : list sitem := [script_item (c_script c)].

(* what follows the bias loop, identical in both schedules: energy sum, update_colvar_forces *)
Definition tail_items (c : cfg) (t : nat) (vs : list var) : list sitem :=
  let abs := active_biases t (c_biases c) in
  [energy_item abs] ++ map communicate_item abs
  ++ (if c_use_script c && c_script_after c then script_items c else [])
  ++ map (force_item t) (indexed vs).

(* serial: for each active variable  calc() = update_cvc_flags; calc_cvcs(); collect_cvc_data();
   then reset, [script], every active bias in order *)
Definition serial_var_items (p : nat * var) : list sitem :=
  map comp_item (serial_evaluates p) ++ [collect_item p].
Definition serial_items (c : cfg) (t : nat) : list sitem :=
  let vs := prep_vars t (c_vars c) in
  flat_map serial_var_items (active_vars t vs)
  ++ [reset_item (length vs)]
  ++ (if c_use_script c && negb (c_script_after c) then script_items c else [])
  ++ map bias_item (active_biases t (c_biases c))
  ++ tail_items c t vs.

(* SMP: item list; the items in the executed order [oc]; collection of every active variable;
   reset; biases (and, as one more item, the script task) in the executed order [ob] *)
Definition smp_cvc_work (vs : list var) (t : nat) : list (list sitem) :=
  map (fun it => map comp_item (item_evaluates vs it)) (build_items (active_vars t vs)).
Definition smp_bias_work (c : cfg) (t : nat) : list sitem :=
  map bias_item (active_biases t (c_biases c))
  ++ (if c_use_script c && negb (c_script_after c) then script_items c else []).
Definition smp_items (c : cfg) (t : nat) (oc ob : list nat) : list sitem :=
  let vs := prep_vars t (c_vars c) in
  concat (pick (smp_cvc_work vs t) oc)
  ++ map collect_item (active_vars t vs)
  ++ [reset_item (length vs)]
  ++ pick (smp_bias_work c t) ob
  ++ tail_items c t vs.

Definition step_serial (c : cfg) (t : nat) (s : store) : store := run loc_eqb (serial_items c t) s.
Definition step_smp (c : cfg) (t : nat) (oc ob : list nat) (s : store) : store := run loc_eqb (smp_items c t oc ob) s.

(* the configuration carried to the next step (flags applied) and the error condition of the step *)
Definition next_cfg (c : cfg) (t : nat) : cfg :=
  mkCfg (prep_vars t (c_vars c)) (c_biases c) (c_use_script c) (c_script_after c) (c_script c).
Definition step_error (c : cfg) (t : nat) : bool :=
  existsb (fun p => flags_error (snd p)) (active_vars t (c_vars c)).

(* number of items of the two loops (what a schedule permutes) *)
Definition n_cvc_items (c : cfg) (t : nat) : nat := length (build_items (active_vars t (prep_vars t (c_vars c)))).
Definition n_bias_items (c : cfg) (t : nat) : nat := length (smp_bias_work c t).

(* error codes of the items are OR-ed into one word (atomic |= in smp_loop, locked |= in set_error_bits) *)
Definition or_codes (codes : list Z) : Z := fold_left Z.lor codes 0.

(* log depth: colvarmodule::depth() keeps one counter per thread ([bases th] = counter of thread th when
   the loop starts).  Depth at which a message of a component is logged:
   serial: calc_colvars +1, calc_cvc_values +1.
   SMP (after the repair `fix: smp_loop raises the log depth of every thread that runs items`): thread th
   raises its own counter in smp_loop (+1), then calc_cvc_values +1.
   Before the repair smp_loop raised the counter of the calling thread (thread 0) only. *)
Definition depth_serial (base : nat) : nat := S (S base).
Definition depth_smp (bases : nat -> nat) (th : nat) : nat := S (S (bases th)).
Definition depth_smp_unfixed (bases : nat -> nat) (th : nat) : nat :=
  if Nat.eqb th 0%nat then S (S (bases 0%nat)) else S (bases th).

(* ------------------------------------------------------------------------------------------- *)
(* 7. Footprints as data: what is compared with the footprints DERIVED from the implementation   *)
(* ------------------------------------------------------------------------------------------- *)
(* (reads, writes) of an item.  coq/Gen/GenFootC12.v is regenerated on every run of the check from the rebuilt
   binary (c12sim `footprints`: every work item is run alone from a restored snapshot of all locations - writes =
   what changed - and re-run with one location perturbed at a time - reads = what influences what it writes). *)
Definition fp := (list loc * list loc)%type.
Definition fp_of (it : sitem) : fp := (reads it, writes it).
Definition subset_b (a b : list loc) : bool := forallb (fun l => mem loc_eqb l b) a.
Definition same_set_b (a b : list loc) : bool := subset_b a b && subset_b b a.
Definition fp_same_b (x y : fp) : bool := same_set_b (fst x) (fst y) && same_set_b (snd x) (snd y).
Fixpoint all2_b {A} (f : A -> A -> bool) (l1 l2 : list A) : bool :=
  match l1, l2 with
  | [], [] => true
  | a :: r1, b :: r2 => f a b && all2_b f r1 r2
  | _, _ => false
  end.
Definition disjoint_b (a b : list loc) : bool := forallb (fun l => negb (mem loc_eqb l b)) a.
Definition fp_indep_b (x y : fp) : bool :=
  disjoint_b (snd x) (snd y) && disjoint_b (snd x) (fst y) && disjoint_b (snd y) (fst x).
Fixpoint pairwise_b {A} (f : A -> A -> bool) (l : list A) : bool :=
  match l with [] => true | a :: r => forallb (f a) r && pairwise_b f r end.

Definition model_comp_fps (c : cfg) (t : nat) : list fp := map fp_of (concat (smp_cvc_work (prep_vars t (c_vars c)) t)).
Definition model_collect_fps (c : cfg) (t : nat) : list fp :=
  map (fun p => fp_of (collect_item p)) (active_vars t (prep_vars t (c_vars c))).
Definition model_bias_fps (c : cfg) (t : nat) : list fp := map fp_of (smp_bias_work c t).

(* one probe: a configuration at a step, and the footprints derived from the implementation for the items of the
   component loop, the collection phase and the bias loop (in the order in which the module lists them) *)
Record probe := mkProbe { p_cfg : cfg; p_t : nat; p_comp : list fp; p_collect : list fp; p_bias : list fp }.
Definition probe_matches_b (p : probe) : bool :=
  all2_b fp_same_b (p_comp p) (model_comp_fps (p_cfg p) (p_t p)) &&
  all2_b fp_same_b (p_collect p) (model_collect_fps (p_cfg p) (p_t p)) &&
  all2_b fp_same_b (p_bias p) (model_bias_fps (p_cfg p) (p_t p)).
(* a collection item may depend on a component item only by reading what that component writes *)
Definition collect_ok_b (k c : fp) : bool := subset_b (snd c) (fst k) || fp_indep_b k c.
Definition probe_independent_b (p : probe) : bool :=
  pairwise_b fp_indep_b (p_comp p) && pairwise_b fp_indep_b (p_bias p) && pairwise_b fp_indep_b (p_collect p) &&
  forallb (fun k => forallb (collect_ok_b k) (p_comp p)) (p_collect p).

(* ------------------------------------------------------------------------------------------- *)
(* 8. The guard of the bias loop, and the log                                                    *)
(* ------------------------------------------------------------------------------------------- *)
(* calc_biases: `if (smp mode == cvcs && !biases_need_main_thread)` the parallel loop, else script then the straight
   loop; biases_need_main_thread = some active bias has replica_share_freq() > 0 (it needs I/O or MPI) *)
Definition bias_loop_items (need_main_thread : bool) (c : cfg) (t : nat) (ob : list nat) : list sitem :=
  if need_main_thread
  then (if c_use_script c && negb (c_script_after c) then script_items c else []) ++ map bias_item (active_biases t (c_biases c))
  else pick (smp_bias_work c t) ob.

(* the log of a loop: every item appends its messages when it runs (one proxy->log call per message, serialised) *)
Definition log_of {A} (msgs : list (list A)) (order : list nat) : list A := concat (pick msgs order).

(* ------------------------------------------------------------------------------------------- *)
(* 9. The item list as state of the module                                                      *)
(* ------------------------------------------------------------------------------------------- *)
(* colvars_smp / colvars_smp_items are members of colvarmodule that survive between steps; calc_colvars clears and refills
   them at EVERY step from the active set of that step.  [rebuild_items old c t] is the list after the step-t rebuild when
   [old] was the list before. *)
Definition rebuild_items (old : list (nat * nat)) (c : cfg) (t : nat) : list (nat * nat) :=
  build_items (active_vars t (prep_vars t (c_vars c))).
(* a variant that keeps the old list when the total number of items is unchanged (what a seeded change did) *)
Definition rebuild_items_cached (old : list (nat * nat)) (c : cfg) (t : nat) : list (nat * nat) :=
  let fresh := build_items (active_vars t (prep_vars t (c_vars c))) in
  if Nat.eqb (length fresh) (length old) then old else fresh.
(* the list over a history of steps 0..n-1 (configuration carried by next_cfg) *)
Fixpoint items_history (rebuild : list (nat * nat) -> cfg -> nat -> list (nat * nat))
         (old : list (nat * nat)) (c : cfg) (t n : nat) : list (list (nat * nat)) :=
  match n with
  | O => []
  | S m => let l := rebuild old c t in l :: items_history rebuild l (next_cfg c t) (S t) m
  end.

(* ------------------------------------------------------------------------------------------- *)
(* 10. The step that raises "all CVCs are disabled"                                              *)
(* ------------------------------------------------------------------------------------------- *)
(* serial path: calc_colvars runs colvar::calc() variable by variable and RETURNS at the first variable whose
   update_cvc_flags fails (the variables before it are computed and collected, the failing one and the ones after it keep
   their old values); SMP path: update_cvc_flags of every active variable, then all items, then every collection (the failing
   variable has no item and collects the empty sum).  Component/collection part of the step only. *)
Fixpoint serial_vars_until_error (avs : list (nat * var)) : list (nat * var) :=
  match avs with
  | [] => []
  | p :: r => if negb (any_true (v_flags (snd p))) then [] else p :: serial_vars_until_error r
  end.
Definition serial_cvc_items_err (c : cfg) (t : nat) : list sitem :=
  flat_map serial_var_items (serial_vars_until_error (active_vars t (prep_vars t (c_vars c)))).
Definition smp_cvc_items_err (c : cfg) (t : nat) : list sitem :=
  let vs := prep_vars t (c_vars c) in
  concat (smp_cvc_work vs t) ++ map collect_item (active_vars t vs).

(* ------------------------------------------------------------------------------------------- *)
(* 11. Small steps: an item is a read phase, a computation and a write phase                     *)
(* ------------------------------------------------------------------------------------------- *)
(* [Rd i]: item i copies the store (what it will look at is its read set) into a private buffer; [Wr i]: it assigns
   [act] of that buffer to its write set.  A trace is any sequence of such micro-operations; between the two phases of one
   item the phases of other items (running on other threads) may occur. *)
Inductive mop := Rd (i : nat) | Wr (i : nat).

Section SmallStep.
  Context {L V : Type}.
  Variable eqb : L -> L -> bool.

  Fixpoint lookup_buf (i : nat) (bufs : list (nat * (L -> V))) : option (L -> V) :=
    match bufs with
    | [] => None
    | (j, b) :: r => if Nat.eqb j i then Some b else lookup_buf i r
    end.
  Definition remove_buf (i : nat) (bufs : list (nat * (L -> V))) : list (nat * (L -> V)) :=
    filter (fun p => negb (Nat.eqb (fst p) i)) bufs.

  Fixpoint mrun (items : list (item L V)) (tr : list mop) (s : L -> V) (bufs : list (nat * (L -> V))) : L -> V :=
    match tr with
    | [] => s
    | Rd i :: r => mrun items r s ((i, s) :: bufs)
    | Wr i :: r =>
      mrun items r
           (match nth_error items i, lookup_buf i bufs with
            | Some a, Some b => fun l => if mem eqb l (writes a) then act a b l else s l
            | _, _ => s
            end)
           (remove_buf i bufs)
    end.
End SmallStep.

(* a trace is well formed when an item is read only while it is not in flight and written only while it is *)
Fixpoint valid_trace (tr : list mop) (inflight : list nat) : Prop :=
  match tr with
  | [] => True
  | Rd i :: r => ~ In i inflight /\ valid_trace r (i :: inflight)
  | Wr i :: r => In i inflight /\ valid_trace r (filter (fun k => negb (Nat.eqb k i)) inflight)
  end.
(* the order in which the items commit *)
Definition wr_order (tr : list mop) : list nat := flat_map (fun o => match o with Wr i => [i] | Rd _ => [] end) tr.
(* what one thread does with its queue of items *)
Definition thread_mops (q : list nat) : list mop := flat_map (fun i => [Rd i; Wr i]) q.

(* ------------------------------------------------------------------------------------------- *)
(* 12. Which loop runs where: SMP mode, biases that need the main thread, OpenMP static schedule  *)
(* ------------------------------------------------------------------------------------------- *)
Local Open Scope nat_scope.
(* colvarproxy_smp::smp_mode_t, configuration keyword `smp`: cvcs (also on/yes, the default) | inner_loop | anything else = none *)
Inductive smp_mode := ModeCvcs | ModeInner | ModeNone.
(* calc_colvars: `if (proxy->get_smp_mode() == smp_mode_t::cvcs)` the item list and the parallel loop, else variable by variable *)
Definition parallel_cvc_loop (m : smp_mode) : bool := match m with ModeCvcs => true | _ => false end.

(* the bias kinds and what colvarbias::replica_share_freq() returns for them: only metadynamics (replicaUpdateFrequency, set
   when multipleReplicas is on) and ABF (sharedFreq) override the base class, which returns 0 *)
Inductive bias_kind :=
| KHarmonic | KWalls | KLinear | KHistogram | KHistRestraint | KAbmd | KAlb | KOpes
| KMeta (multiple_replicas : bool) (replica_update_freq : nat)
| KAbf (shared_freq : nat).
Definition replica_share_freq (k : bias_kind) : nat :=
  match k with
  | KMeta true f => f
  | KMeta false _ => 0
  | KAbf f => f
  | _ => 0
  end.
(* calc_biases: biases_need_main_thread = some ACTIVE bias has replica_share_freq() > 0 (it reads/writes files or MPI) *)
Definition need_main_thread (active : list bias_kind) : bool := existsb (fun k => Nat.ltb 0 (replica_share_freq k)) active.
Definition parallel_bias_loop (m : smp_mode) (active : list bias_kind) : bool := parallel_cvc_loop m && negb (need_main_thread active).

Definition step_mode (m : smp_mode) (c : cfg) (t : nat) (oc ob : list nat) (s : store) : store :=
  if parallel_cvc_loop m then step_smp c t oc ob s else step_serial c t s.

(* `#pragma omp parallel for` with the default (static, no chunk size) schedule on nt threads: contiguous blocks, the first
   n mod nt threads get one item more (libgomp: q = n / nt, t = n % nt, if (tid < t) { t = 0; q++; } s0 = q * tid + t) *)
Definition omp_sizes (n nt : nat) : list nat := map (fun t => n / nt + (if Nat.ltb t (n mod nt) then 1 else 0)) (seq 0 nt).
Fixpoint chunks (sizes : list nat) (start : nat) : list (list nat) :=
  match sizes with [] => [] | k :: r => seq start k :: chunks r (start + k) end.
Definition omp_static (n nt : nat) : list (list nat) := chunks (omp_sizes n nt) 0.
(* the thread of item i *)
Fixpoint find_thread (i : nat) (qs : list (list nat)) (t : nat) : nat :=
  match qs with [] => t | q :: r => if existsb (Nat.eqb i) q then t else find_thread i r (S t) end.
Definition omp_thread_of (n nt i : nat) : nat := find_thread i (omp_static n nt) 0.

(* ------------------------------------------------------------------------------------------- *)
(* 13. Script callbacks: one interpreter with a single result slot                               *)
(* ------------------------------------------------------------------------------------------- *)
(* run_colvar_callback of a scripted variable v: the procedure leaves f v in the interpreter's result slot ((v, true)), the caller
   then fetches the slot ((v, false)).  calc_colvars combines the variables in a SERIAL loop on the main thread after the parallel
   component loop, so the two halves of one callback are adjacent. *)
Fixpoint slot_exec (ops : list (nat * bool)) (slot : Z) (f : nat -> Z) : list (nat * Z) :=
  match ops with
  | [] => []
  | (v, true) :: r => slot_exec r (f v) f
  | (v, false) :: r => (v, slot) :: slot_exec r slot f
  end.
Definition serial_callbacks (vs : list nat) : list (nat * bool) := flat_map (fun v => [(v, true); (v, false)]) vs.
