From Coq Require Import Extraction ExtrOcamlBasic.
From CV Require Import C12.SmpModel.
Extraction Language OCaml.
Extraction "model.ml" mkVar mkBias mkCfg set_flags prep_vars active_vars active_biases build_items item_evaluates
  item_evaluates_unfixed serial_evaluates active_pairs step_serial step_smp next_cfg step_error n_cvc_items
  n_bias_items or_codes deal depth_serial depth_smp depth_smp_unfixed msum reduce_chunks inner_loop_value model_comp_fps model_collect_fps model_bias_fps mkProbe probe_matches_b probe_independent_b
  bias_loop_items log_of rebuild_items rebuild_items_cached items_history serial_cvc_items_err smp_cvc_items_err run loc_eqb mrun wr_order thread_mops smp_cvc_work omp_static omp_thread_of step_mode parallel_bias_loop replica_share_freq.
