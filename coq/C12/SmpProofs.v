(* Lemmas about SmpModel.v: generic commutation of work items with disjoint footprints, schedules on
   threads, coverage of the SMP item list, footprints of the concrete items, serial = SMP. *)
From Coq Require Import ZArith List Bool Arith Lia Permutation.
From CV Require Import C12.SmpModel.
Import ListNotations.

(* =========================================================================================== *)
(* 1. Generic: items with footprints                                                            *)
(* =========================================================================================== *)
Inductive Pairwise {A} (R : A -> A -> Prop) : list A -> Prop :=
| PW_nil : Pairwise R []
| PW_cons a l : Forall (R a) l -> Pairwise R l -> Pairwise R (a :: l).

Lemma Pairwise_perm {A} (R : A -> A -> Prop) (l l' : list A) :
  (forall a b, R a b -> R b a) -> Permutation l l' -> Pairwise R l -> Pairwise R l'.
Proof.
  intros Hsym HP. induction HP as [|x l l' HP IH|x y l|l l' l'' HP1 IH1 HP2 IH2]; intros HW.
  - constructor.
  - inversion HW as [|a r Hf Hr]; subst. constructor.
    + eapply Permutation_Forall; eauto.
    + auto.
  - inversion HW as [|a r Hf Hr]; subst. inversion Hr as [|a' r' Hf' Hr']; subst.
    inversion Hf as [|a'' r'' Hyx Hfl]; subst.
    constructor.
    + constructor; auto.
    + constructor; auto.
  - auto.
Qed.

Lemma Pairwise_app_inv {A} (R : A -> A -> Prop) (l1 l2 : list A) :
  Pairwise R (l1 ++ l2) -> Pairwise R l1 /\ Pairwise R l2 /\ (forall a b, In a l1 -> In b l2 -> R a b).
Proof.
  induction l1 as [|x l1 IH]; cbn [app]; intros H.
  - split; [constructor|]. split; auto. intros a b Ha; inversion Ha.
  - inversion H as [|a r Hf Hr]; subst. destruct (IH Hr) as (H1 & H2 & H3).
    rewrite Forall_app in Hf. destruct Hf as [Hf1 Hf2].
    split; [constructor; auto|]. split; auto.
    intros a b [Ha|Ha] Hb.
    + subst. rewrite Forall_forall in Hf2. auto.
    + auto.
Qed.

Lemma Pairwise_map_NoDup {A B} (R : B -> B -> Prop) (f : A -> B) (l : list A) :
  NoDup l -> (forall a b, In a l -> In b l -> a <> b -> R (f a) (f b)) -> Pairwise R (map f l).
Proof.
  induction l as [|x l IH]; cbn [map]; intros Hnd HR.
  - constructor.
  - inversion Hnd as [|x' l' Hni Hnd']; subst. constructor.
    + rewrite Forall_forall. intros y Hy. rewrite in_map_iff in Hy. destruct Hy as (b & Hb & Hin). subst.
      apply HR; [left; auto|right; auto|]. intros E; subst; auto.
    + apply IH; auto. intros a b Ha Hb. apply HR; right; auto.
Qed.

Section GenericProofs.
  Context {L V : Type}.
  Variable eqb : L -> L -> bool.
  Hypothesis eqb_spec : forall a b, eqb a b = true <-> a = b.

  Notation item := (item L V).
  Notation exec := (exec eqb).
  Notation run := (run eqb).

  Lemma mem_In (l : L) (ls : list L) : mem eqb l ls = true <-> In l ls.
  Proof.
    unfold mem. rewrite existsb_exists. split.
    - intros (x & Hx & He). apply eqb_spec in He. subst. auto.
    - intros H. exists l. split; auto. apply eqb_spec; auto.
  Qed.

  Lemma mem_false (l : L) (ls : list L) : mem eqb l ls = false <-> ~ In l ls.
  Proof.
    rewrite <- mem_In. destruct (mem eqb l ls); split; intros H; auto; try discriminate. exfalso; auto.
  Qed.

  (* pointwise equality of stores (no functional extensionality) *)
  Definition seq_eq (s s' : L -> V) : Prop := forall l, s l = s' l.

  Lemma seq_eq_refl s : seq_eq s s. Proof. intros l; reflexivity. Qed.
  Lemma seq_eq_sym s s' : seq_eq s s' -> seq_eq s' s. Proof. intros H l; symmetry; auto. Qed.
  Lemma seq_eq_trans s s' s'' : seq_eq s s' -> seq_eq s' s'' -> seq_eq s s''.
  Proof. intros H1 H2 l. rewrite H1. apply H2. Qed.

  (* an item respects its footprint: what it writes depends only on what it declares to read *)
  Definition wf (it : item) : Prop :=
    forall s s', (forall l, In l (reads it) -> s l = s' l) ->
                 forall l, In l (writes it) -> act it s l = act it s' l.

  Definition disjoint (a b : list L) : Prop := forall l, In l a -> ~ In l b.

  (* independent items: no location is written by both, none written by one is read by the other *)
  Definition indep (a b : item) : Prop :=
    disjoint (writes a) (writes b) /\ disjoint (writes a) (reads b) /\ disjoint (writes b) (reads a).

  Lemma indep_sym a b : indep a b -> indep b a.
  Proof.
    intros (H1 & H2 & H3). split; [|split]; auto.
    intros l Hb Ha. exact (H1 l Ha Hb).
  Qed.

  Lemma exec_writes_only (a : item) s l : ~ In l (writes a) -> exec a s l = s l.
  Proof. intros H. unfold SmpModel.exec. apply mem_false in H. rewrite H. reflexivity. Qed.

  Lemma exec_ext (a : item) s s' : wf a -> seq_eq s s' -> seq_eq (exec a s) (exec a s').
  Proof.
    intros Hw He l. unfold SmpModel.exec. destruct (mem eqb l (writes a)) eqn:E.
    - apply Hw; [intros; apply He|apply mem_In; auto].
    - apply He.
  Qed.

  Lemma exec_in (a : item) s l : In l (writes a) -> exec a s l = act a s l.
  Proof. intros H. unfold SmpModel.exec. apply mem_In in H. rewrite H. reflexivity. Qed.

  Lemma exec_comm (a b : item) s : wf a -> wf b -> indep a b ->
    seq_eq (exec a (exec b s)) (exec b (exec a s)).
  Proof.
    intros Hwa Hwb (Hww & Hwr & Hrw) l.
    destruct (mem eqb l (writes a)) eqn:Ea; destruct (mem eqb l (writes b)) eqn:Eb.
    - apply mem_In in Ea. apply mem_In in Eb. exfalso. exact (Hww l Ea Eb).
    - apply mem_In in Ea. apply mem_false in Eb.
      rewrite (exec_in a (exec b s) l Ea), (exec_writes_only b (exec a s) l Eb), (exec_in a s l Ea).
      apply Hwa; auto. intros l' Hl'. apply exec_writes_only. intros Hin. exact (Hrw l' Hin Hl').
    - apply mem_In in Eb. apply mem_false in Ea.
      rewrite (exec_writes_only a (exec b s) l Ea), (exec_in b (exec a s) l Eb), (exec_in b s l Eb).
      apply Hwb; auto. intros l' Hl'. symmetry. apply exec_writes_only. intros Hin. exact (Hwr l' Hin Hl').
    - apply mem_false in Ea. apply mem_false in Eb.
      rewrite (exec_writes_only a (exec b s) l Ea), (exec_writes_only b (exec a s) l Eb),
              (exec_writes_only b s l Eb), (exec_writes_only a s l Ea). reflexivity.
  Qed.

  Lemma run_app (l1 l2 : list item) s : run (l1 ++ l2) s = run l2 (run l1 s).
  Proof. revert s. induction l1 as [|a l1 IH]; intros s; cbn [app SmpModel.run]; auto. Qed.

  Lemma run_ext (l : list item) s s' : Forall wf l -> seq_eq s s' -> seq_eq (run l s) (run l s').
  Proof.
    revert s s'. induction l as [|a l IH]; intros s s' Hw He; cbn [SmpModel.run]; auto.
    inversion Hw as [|a' l' Hwa Hwl]; subst. apply IH; auto. apply exec_ext; auto.
  Qed.

  (* the generic commutation theorem: pairwise independent items may run in any order *)
  Lemma run_perm (l l' : list item) : Permutation l l' -> Forall wf l -> Pairwise indep l ->
    forall s, seq_eq (run l s) (run l' s).
  Proof.
    intros HP. induction HP as [|x l l' HP IH|x y l|l l' l'' HP1 IH1 HP2 IH2]; intros Hw Hpw s.
    - apply seq_eq_refl.
    - cbn [SmpModel.run]. inversion Hw; subst. inversion Hpw; subst. apply IH; auto.
    - cbn [SmpModel.run]. inversion Hw as [|a r Hwy Hwr]; subst. inversion Hwr as [|a' r' Hwx Hwl]; subst.
      inversion Hpw as [|a r Hf Hr]; subst. inversion Hf as [|a'' r'' Hyx Hfl]; subst.
      apply run_ext; auto. apply exec_comm; auto. apply indep_sym; auto.
    - eapply seq_eq_trans.
      + apply IH1; auto.
      + apply IH2.
        * eapply Permutation_Forall; eauto.
        * eapply Pairwise_perm; eauto. intros a b; apply indep_sym.
  Qed.

  (* an item independent of everything in l may be moved from behind l to the front *)
  Lemma run_move_last (l : list item) (a : item) s : Forall wf l -> wf a -> Forall (indep a) l ->
    seq_eq (run (l ++ [a]) s) (run (a :: l) s).
  Proof.
    revert s. induction l as [|b r IH]; intros s Hw Hwa Hi; cbn [app].
    - apply seq_eq_refl.
    - inversion Hw as [|b' r' Hwb Hwr]; subst. inversion Hi as [|b'' r'' Hab Hir]; subst.
      cbn [SmpModel.run]. eapply seq_eq_trans; [apply IH; auto|].
      cbn [SmpModel.run]. apply run_ext; auto. apply exec_comm; auto.
  Qed.

  Lemma run_move (l m : list item) (a : item) s : Forall wf l -> Forall wf m -> wf a -> Forall (indep a) l ->
    seq_eq (run (l ++ a :: m) s) (run (a :: l ++ m) s).
  Proof.
    intros Hl Hm Ha Hi.
    replace (l ++ a :: m) with ((l ++ [a]) ++ m) by (rewrite <- app_assoc; reflexivity).
    rewrite (run_app (l ++ [a]) m). change (a :: l ++ m) with ((a :: l) ++ m). rewrite (run_app (a :: l) m).
    apply run_ext; auto. apply run_move_last; auto.
  Qed.

  (* congruences used to rewrite a part of a schedule *)
  Lemma run_cong_mid (p l l' q : list item) s :
    Forall wf q -> (forall s0, seq_eq (run l s0) (run l' s0)) ->
    seq_eq (run (p ++ l ++ q) s) (run (p ++ l' ++ q) s).
  Proof.
    intros Hq H. rewrite !run_app. apply run_ext; auto.
  Qed.
End GenericProofs.

(* =========================================================================================== *)
(* 2. Schedules on threads                                                                      *)
(* =========================================================================================== *)
(* an execution of per-thread queues: at each moment the head of any non-empty queue runs *)
Inductive Merge {A} : list (list A) -> list A -> Prop :=
| Merge_done qs : Forall (fun q => q = []) qs -> Merge qs []
| Merge_step qs1 a q qs2 l : Merge (qs1 ++ q :: qs2) l -> Merge (qs1 ++ (a :: q) :: qs2) (a :: l).

Lemma concat_all_nil {A} (qs : list (list A)) : Forall (fun q => q = []) qs -> concat qs = [].
Proof. induction 1 as [|q qs Hq Hqs IH]; cbn [concat]; subst; auto. Qed.

Lemma merge_perm {A} (qs : list (list A)) (l : list A) : Merge qs l -> Permutation (concat qs) l.
Proof.
  induction 1 as [qs H|qs1 a q qs2 l HM IH].
  - rewrite concat_all_nil; auto.
  - rewrite concat_app in *. cbn [concat] in *.
    eapply perm_trans; [|apply perm_skip; exact IH].
    rewrite <- app_comm_cons. symmetry. apply Permutation_middle.
Qed.

(* the sequential execution thread 0, then thread 1, ... is one of the executions *)
Lemma merge_concat {A} (qs : list (list A)) : Merge qs (concat qs).
Proof.
  induction qs as [|q qs IH]; cbn [concat].
  - constructor. constructor.
  - induction q as [|a q IHq]; cbn [app].
    + clear - IH. remember (concat qs) as l eqn:E. clear E. induction IH as [qs H|qs1 a q qs2 l HM IHM].
      * constructor. constructor; auto.
      * apply (Merge_step ([] :: qs1)). exact IHM.
    + apply (Merge_step [] a q qs). exact IHq.
Qed.

Lemma filter_perm_split {A} (f : A -> nat) (nt : nat) (l : list A) :
  (forall a, In a l -> f a < nt) ->
  Permutation (flat_map (fun t => filter (fun a => Nat.eqb (f a) t) l) (seq 0 nt)) l.
Proof.
  induction l as [|x l IH]; intros Hb.
  - cbn [filter]. clear. induction (seq 0 nt) as [|t r IHr]; cbn [flat_map app]; auto.
  - assert (Hx : f x < nt) by (apply Hb; left; auto).
    assert (IH' := IH (fun a Ha => Hb a (or_intror Ha))). clear IH Hb.
    (* split seq 0 nt at f x *)
    assert (Hs : seq 0 nt = seq 0 (f x) ++ f x :: seq (S (f x)) (nt - S (f x))).
    { replace nt with (f x + S (nt - S (f x))) at 1 by lia. rewrite seq_app. cbn [seq plus]. reflexivity. }
    rewrite Hs in *. rewrite flat_map_app in *. cbn [flat_map] in *.
    assert (Hlo : forall r, (forall t, In t r -> t <> f x) ->
       flat_map (fun t => filter (fun a => Nat.eqb (f a) t) (x :: l)) r = flat_map (fun t => filter (fun a => Nat.eqb (f a) t) l) r).
    { induction r as [|t r IHr]; intros Hr; cbn [flat_map]; auto.
      rewrite IHr by (intros; apply Hr; right; auto). f_equal. cbn [filter].
      destruct (Nat.eqb (f x) t) eqn:E; auto. apply Nat.eqb_eq in E. exfalso. apply (Hr t); [left|]; auto. }
    rewrite !Hlo.
    + cbn [filter]. rewrite Nat.eqb_refl.
      eapply perm_trans; [|apply perm_skip; exact IH'].
      rewrite <- app_comm_cons. symmetry. apply Permutation_middle.
    + intros t Ht. rewrite in_seq in Ht. lia.
    + intros t Ht. rewrite in_seq in Ht. lia.
Qed.

Lemma deal_perm {A} (nt : nat) (assign : nat -> nat) (l : list A) :
  (forall k, k < length l -> assign k < nt) -> Permutation (concat (deal nt assign l)) l.
Proof.
  intros Hb. unfold deal.
  rewrite <- flat_map_concat_map.
  set (cl := combine (seq 0 (length l)) l).
  assert (Hcl : map snd cl = l).
  { unfold cl. clear. generalize 0. induction l as [|a l IH]; intros n; cbn [length seq combine map]; auto. rewrite IH. auto. }
  assert (Hin : forall p, In p cl -> assign (fst p) < nt).
  { intros [k a] Hp. unfold cl in Hp. apply in_combine_l in Hp. rewrite in_seq in Hp. apply Hb. cbn [fst]. lia. }
  assert (HP := filter_perm_split (fun p : nat * A => assign (fst p)) nt cl Hin).
  apply (Permutation_map snd) in HP. rewrite Hcl in HP.
  eapply perm_trans; [|exact HP]. clear.
  induction (seq 0 nt) as [|t r IHr]; cbn [flat_map map]; auto.
  rewrite map_app. apply Permutation_app; auto.
Qed.

(* every execution of the threads runs every entry of the order exactly once *)
Lemma schedule_perm {A} (nt : nat) (assign : nat -> nat) (order l : list A) :
  (forall k, k < length order -> assign k < nt) -> Merge (deal nt assign order) l -> Permutation order l.
Proof.
  intros Hb HM. eapply perm_trans; [symmetry; apply deal_perm; eauto|]. apply merge_perm; auto.
Qed.

Lemma schedule_exactly_once (nt n : nat) (assign : nat -> nat) (order l : list nat) :
  Permutation order (seq 0 n) -> (forall k, k < n -> assign k < nt) -> Merge (deal nt assign order) l ->
  NoDup l /\ (forall i, In i l <-> i < n).
Proof.
  intros HP Hb HM.
  assert (Hlen : length order = n) by (rewrite (Permutation_length HP); apply seq_length).
  assert (HP' : Permutation l (seq 0 n)).
  { eapply perm_trans; [symmetry; eapply schedule_perm; eauto|]; auto. rewrite Hlen; auto. }
  split.
  - eapply Permutation_NoDup; [symmetry; exact HP'|]. apply seq_NoDup.
  - intros i. split; intros H.
    + apply (Permutation_in _ HP') in H. rewrite in_seq in H. lia.
    + apply (Permutation_in _ (Permutation_sym HP')). rewrite in_seq. lia.
Qed.

(* error codes: OR-accumulation does not depend on the order *)
Lemma fold_lor_acc (l : list Z) (a : Z) : fold_left Z.lor l a = Z.lor a (fold_left Z.lor l 0%Z).
Proof.
  revert a. induction l as [|x l IH]; intros a; cbn [fold_left].
  - rewrite Z.lor_0_r. reflexivity.
  - rewrite IH. rewrite (IH (Z.lor 0 x)). rewrite Z.lor_0_l. rewrite Z.lor_assoc. reflexivity.
Qed.

Lemma or_codes_perm (l l' : list Z) : Permutation l l' -> or_codes l = or_codes l'.
Proof.
  unfold or_codes. induction 1 as [|x l l' HP IH|x y l|l l' l'' HP1 IH1 HP2 IH2]; cbn [fold_left]; auto.
  - rewrite fold_lor_acc. rewrite (fold_lor_acc l'). rewrite IH. reflexivity.
  - rewrite !Z.lor_0_l. rewrite (Z.lor_comm y x). reflexivity.
  - congruence.
Qed.

Lemma or_codes_bit (l : list Z) (n : Z) : (forall c, In c l -> (0 <= c)%Z) ->
  Z.testbit (or_codes l) n = existsb (fun c => Z.testbit c n) l.
Proof.
  unfold or_codes. induction l as [|x l IH]; intros Hp; cbn [fold_left existsb].
  - apply Z.testbit_0_l.
  - rewrite fold_lor_acc. rewrite Z.lor_spec. rewrite Z.lor_0_l. rewrite IH; auto. intros c Hc. apply Hp. right; auto.
Qed.

(* =========================================================================================== *)
(* 3. Which components calc_cvcs evaluates; coverage of the item list                           *)
(* =========================================================================================== *)
Lemma enabled_from_length i flags : length (enabled_from i flags) = count_true flags.
Proof.
  revert i. induction flags as [|b r IH]; intros i; cbn [enabled_from count_true]; auto.
  destruct b; cbn [length]; rewrite IH; auto.
Qed.

Lemma enabled_from_ge i flags j : In j (enabled_from i flags) -> i <= j.
Proof.
  revert i. induction flags as [|b r IH]; intros i; cbn [enabled_from]; intros H.
  - inversion H.
  - destruct b.
    + destruct H as [H|H]; [lia|]. apply IH in H. lia.
    + apply IH in H. lia.
Qed.

Lemma enabled_from_NoDup i flags : NoDup (enabled_from i flags).
Proof.
  revert i. induction flags as [|b r IH]; intros i; cbn [enabled_from].
  - constructor.
  - destruct b; auto. constructor; auto. intros H. apply enabled_from_ge in H. lia.
Qed.

Lemma enabled_from_spec i flags j : In j (enabled_from i flags) <-> i <= j /\ nth (j - i) flags false = true.
Proof.
  revert i. induction flags as [|b r IH]; intros i; cbn [enabled_from].
  - split; [intros H; inversion H|]. intros [_ H]. destruct (j - i); discriminate.
  - destruct b.
    + split.
      * intros [H|H].
        -- subst. split; auto. rewrite Nat.sub_diag. reflexivity.
        -- apply IH in H. destruct H as [H1 H2]. split; [lia|]. replace (j - i) with (S (j - S i)) by lia. exact H2.
      * intros [H1 H2]. destruct (Nat.eq_dec i j) as [E|E]; [left; auto|right].
        apply IH. split; [lia|]. replace (j - i) with (S (j - S i)) in H2 by lia. exact H2.
    + split.
      * intros H. apply IH in H. destruct H as [H1 H2]. split; [lia|]. replace (j - i) with (S (j - S i)) by lia. exact H2.
      * intros [H1 H2]. apply IH. destruct (Nat.eq_dec i j) as [E|E].
        -- subst. rewrite Nat.sub_diag in H2. discriminate.
        -- split; [lia|]. replace (j - i) with (S (j - S i)) in H2 by lia. exact H2.
Qed.

Lemma scan_0 flags i : scan flags i 0 = [].
Proof. destruct flags; reflexivity. Qed.

Lemma scan_all flags i : scan flags i (count_true flags) = enabled_from i flags.
Proof.
  revert i. induction flags as [|b r IH]; intros i; cbn [count_true enabled_from].
  - reflexivity.
  - destruct b.
    + cbn [scan]. rewrite IH. reflexivity.
    + specialize (IH (S i)). destruct (count_true r) as [|n]; [|exact IH].
      rewrite <- IH. destruct r; reflexivity.
Qed.

Lemma first_index_ge flags i k : i <= first_index flags i k.
Proof.
  revert i k. induction flags as [|b r IH]; intros i k; cbn [first_index]; auto.
  destruct b.
  - destruct k; auto. specialize (IH (S i) k). lia.
  - specialize (IH (S i) k). lia.
Qed.

Lemma scan_one flags i k :
  scan (skipn (first_index flags i k - i) flags) (first_index flags i k) 1 =
  match nth_error (enabled_from i flags) k with Some j => [j] | None => [] end.
Proof.
  revert i k. induction flags as [|b r IH]; intros i k; cbn [first_index enabled_from].
  - rewrite Nat.sub_diag. cbn [skipn scan]. destruct k; reflexivity.
  - destruct b.
    + destruct k as [|k'].
      * rewrite Nat.sub_diag. cbn [skipn scan nth_error]. rewrite scan_0. reflexivity.
      * assert (Hge := first_index_ge r (S i) k').
        replace (first_index r (S i) k' - i) with (S (first_index r (S i) k' - S i)) by lia.
        cbn [skipn nth_error]. apply IH.
    + assert (Hge := first_index_ge r (S i) k).
      replace (first_index r (S i) k - i) with (S (first_index r (S i) k - S i)) by lia.
      cbn [skipn]. apply IH.
Qed.

(* item k of a variable evaluates exactly its k-th enabled component *)
Lemma calc_cvcs_one flags k :
  calc_cvcs flags k 1 = match nth_error (enabled flags) k with Some j => [j] | None => [] end.
Proof.
  unfold calc_cvcs, loop_cvcs, enabled. cbn [Nat.eqb].
  rewrite <- (scan_one flags 0 k). rewrite Nat.sub_0_r. reflexivity.
Qed.

Lemma scan_from_first flags i :
  scan (skipn (first_index flags i 0 - i) flags) (first_index flags i 0) (count_true flags) = enabled_from i flags.
Proof.
  revert i. induction flags as [|b r IH]; intros i; cbn [first_index enabled_from count_true].
  - rewrite Nat.sub_diag. reflexivity.
  - destruct b.
    + rewrite Nat.sub_diag. cbn [skipn scan]. rewrite scan_all. reflexivity.
    + assert (Hge := first_index_ge r (S i) 0).
      replace (first_index r (S i) 0 - i) with (S (first_index r (S i) 0 - S i)) by lia.
      cbn [skipn]. apply IH.
Qed.

(* the serial call calc_cvcs(0, 0) evaluates every enabled component, in index order *)
Lemma calc_cvcs_all flags : calc_cvcs flags 0 0 = enabled flags.
Proof.
  unfold calc_cvcs, loop_cvcs, enabled. cbn [Nat.eqb].
  rewrite <- (scan_from_first flags 0). rewrite Nat.sub_0_r. reflexivity.
Qed.

Lemma pick_all_gen {A} (l p : list A) :
  flat_map (fun k => match nth_error (p ++ l) k with Some a => [a] | None => [] end) (seq (length p) (length l)) = l.
Proof.
  revert p. induction l as [|a r IH]; intros p; cbn [length seq flat_map]; auto.
  rewrite nth_error_app2 by lia. rewrite Nat.sub_diag. cbn [nth_error app].
  f_equal. specialize (IH (p ++ [a])). rewrite <- app_assoc in IH. cbn [app] in IH.
  rewrite app_length in IH. cbn [length] in IH. rewrite Nat.add_1_r in IH. exact IH.
Qed.

Lemma pick_all {A} (l : list A) : pick l (seq 0 (length l)) = l.
Proof. exact (pick_all_gen l []). Qed.

Lemma flat_map_map {A B C} (f : B -> list C) (g : A -> B) (l : list A) :
  flat_map f (map g l) = flat_map (fun x => f (g x)) l.
Proof. induction l as [|a l IH]; cbn [map flat_map]; auto. rewrite IH. reflexivity. Qed.

Lemma map_flat_map {A B C} (g : B -> C) (h : A -> list B) (l : list A) :
  flat_map (fun k => map g (h k)) l = map g (flat_map h l).
Proof. induction l as [|a l IH]; cbn [flat_map map]; auto. rewrite map_app, IH. reflexivity. Qed.

Lemma var_items_cover vs (p : nat * var) : flags_of vs (fst p) = v_flags (snd p) ->
  flat_map (item_evaluates vs) (var_items p) = map (pair (fst p)) (enabled (v_flags (snd p))).
Proof.
  intros Hf. unfold var_items. rewrite flat_map_map. unfold item_evaluates. cbn [fst snd].
  rewrite Hf. rewrite (map_flat_map (pair (fst p)) (fun k => calc_cvcs (v_flags (snd p)) k 1)).
  f_equal.
  rewrite (flat_map_ext _ _ (fun k => calc_cvcs_one (v_flags (snd p)) k)).
  unfold enabled at 2. rewrite <- (enabled_from_length 0). apply pick_all.
Qed.

Lemma items_cover vs (avs : list (nat * var)) :
  (forall p, In p avs -> flags_of vs (fst p) = v_flags (snd p)) ->
  flat_map (item_evaluates vs) (build_items avs) = active_pairs avs.
Proof.
  induction avs as [|p r IH]; intros H; cbn [build_items active_pairs flat_map]; auto.
  unfold build_items in *. rewrite flat_map_app. rewrite var_items_cover by (apply H; left; auto).
  unfold active_pairs in IH. rewrite IH; auto. intros q Hq. apply H. right; auto.
Qed.

(* per item: zero or one component, as a list of lists (what smp_cvc_work maps over) *)
Lemma items_cover_concat vs (avs : list (nat * var)) :
  (forall p, In p avs -> flags_of vs (fst p) = v_flags (snd p)) ->
  concat (map (item_evaluates vs) (build_items avs)) = active_pairs avs.
Proof. intros H. rewrite <- flat_map_concat_map. apply items_cover; auto. Qed.

Lemma NoDup_app_intro {A} (l1 l2 : list A) :
  NoDup l1 -> NoDup l2 -> (forall x, In x l1 -> ~ In x l2) -> NoDup (l1 ++ l2).
Proof.
  induction l1 as [|a l1 IH]; cbn [app]; intros H1 H2 Hd; auto.
  inversion H1 as [|a' l' Hni Hnd]; subst. constructor.
  - rewrite in_app_iff. intros [H|H]; [auto|]. apply (Hd a); [left|]; auto.
  - apply IH; auto. intros x Hx. apply Hd. right; auto.
Qed.

Lemma active_pairs_In avs v c :
  In (v, c) (active_pairs avs) <-> exists x, In (v, x) avs /\ In c (enabled (v_flags x)).
Proof.
  unfold active_pairs. rewrite in_flat_map. split.
  - intros ([v' x] & Hin & Hm). cbn [fst snd] in Hm. rewrite in_map_iff in Hm. destruct Hm as (c' & E & Hc).
    inversion E; subst. exists x. auto.
  - intros (x & Hin & Hc). exists (v, x). split; auto. cbn [fst snd]. rewrite in_map_iff. exists c. auto.
Qed.

Lemma active_pairs_NoDup avs : NoDup (map fst avs) -> NoDup (active_pairs avs).
Proof.
  induction avs as [|p r IH]; cbn [map]; intros H.
  - constructor.
  - inversion H as [|a l Hni Hnd]; subst. unfold active_pairs. cbn [flat_map]. apply NoDup_app_intro.
    + apply FinFun.Injective_map_NoDup; [|apply enabled_from_NoDup]. intros a b E. inversion E; auto.
    + apply IH; auto.
    + intros [v c] H1 H2. rewrite in_map_iff in H1. destruct H1 as (c' & E & _). inversion E; subst.
      apply active_pairs_In in H2. destruct H2 as (x & Hin & _). apply Hni.
      rewrite in_map_iff. exists (fst p, x). auto.
Qed.

(* indexed lists *)
Lemma indexed_from_fst {A} n (l : list A) : map fst (indexed_from n l) = seq n (length l).
Proof. revert n. induction l as [|a l IH]; intros n; cbn [indexed_from map length seq]; auto. rewrite IH. auto. Qed.

Lemma indexed_from_nth {A} n (l : list A) i x : In (i, x) (indexed_from n l) -> n <= i /\ nth_error l (i - n) = Some x.
Proof.
  revert n. induction l as [|a l IH]; intros n; cbn [indexed_from]; intros H.
  - inversion H.
  - destruct H as [H|H].
    + inversion H; subst. split; auto. rewrite Nat.sub_diag. reflexivity.
    + apply IH in H. destruct H as [H1 H2]. split; [lia|]. replace (i - n) with (S (i - S n)) by lia. exact H2.
Qed.

Lemma filter_fst_NoDup {A B} (f : A * B -> bool) (l : list (A * B)) : NoDup (map fst l) -> NoDup (map fst (filter f l)).
Proof.
  induction l as [|p l IH]; cbn [map filter]; intros H; auto.
  inversion H as [|a r Hni Hnd]; subst. destruct (f p); auto. cbn [map]. constructor; auto.
  intros Hin. apply Hni. rewrite in_map_iff in *. destruct Hin as (q & E & Hq). exists q. split; auto.
  apply filter_In in Hq. tauto.
Qed.

Lemma active_vars_NoDup t vs : NoDup (map fst (active_vars t vs)).
Proof. unfold active_vars, indexed. apply filter_fst_NoDup. rewrite indexed_from_fst. apply seq_NoDup. Qed.

Lemma active_biases_NoDup t bs : NoDup (map fst (active_biases t bs)).
Proof. unfold active_biases, indexed. apply filter_fst_NoDup. rewrite indexed_from_fst. apply seq_NoDup. Qed.

Lemma active_vars_flags t vs p : In p (active_vars t vs) -> flags_of vs (fst p) = v_flags (snd p).
Proof.
  unfold active_vars, indexed. intros H. apply filter_In in H. destruct H as [H _]. destruct p as [i x].
  apply indexed_from_nth in H. destruct H as [_ H]. rewrite Nat.sub_0_r in H.
  unfold flags_of. cbn [fst snd]. erewrite nth_error_nth; eauto.
Qed.

(* (i) the SMP item list evaluates every enabled component of every active variable exactly once *)
Lemma items_cover_active_once (vs : list var) (t : nat) :
  let avs := active_vars t vs in
  let ev := flat_map (item_evaluates vs) (build_items avs) in
  ev = active_pairs avs /\ NoDup ev /\
  (forall v c, In (v, c) ev <-> exists x, In (v, x) avs /\ nth c (v_flags x) false = true).
Proof.
  cbn zeta. rewrite items_cover by (apply active_vars_flags).
  split; auto. split.
  - apply active_pairs_NoDup. apply active_vars_NoDup.
  - intros v c. rewrite active_pairs_In. split; intros (x & H1 & H2); exists x; split; auto.
    + unfold enabled in H2. apply enabled_from_spec in H2. rewrite Nat.sub_0_r in H2. tauto.
    + unfold enabled. apply enabled_from_spec. rewrite Nat.sub_0_r. split; [lia|auto].
Qed.

(* the serial schedule evaluates the same components *)
Lemma serial_evaluates_spec (avs : list (nat * var)) : flat_map serial_evaluates avs = active_pairs avs.
Proof.
  unfold active_pairs. apply flat_map_ext. intros p. unfold serial_evaluates. rewrite calc_cvcs_all. reflexivity.
Qed.

(* the code before the repair: item k = "first enabled component at array index >= k" *)
Lemma unfixed_items_refuted :
  let vs := [mkVar 1 [false; true; true] [] [1; 1; 1]%Z [] false] in
  flat_map (item_evaluates_unfixed vs) (build_items (active_vars 0 vs)) = [(0, 1); (0, 1)] /\
  active_pairs (active_vars 0 vs) = [(0, 1); (0, 2)].
Proof. vm_compute. split; reflexivity. Qed.

(* =========================================================================================== *)
(* 4. Footprints of the concrete items                                                          *)
(* =========================================================================================== *)
Lemma loc_eqb_spec (a b : loc) : loc_eqb a b = true <-> a = b.
Proof.
  destruct a, b; cbn [loc_eqb]; try (split; intros H; [discriminate|inversion H]);
    try rewrite andb_true_iff; try rewrite !Nat.eqb_eq; try tauto.
  - split; [intros [H1 H2]; subst; auto|intros H; inversion H; auto].
  - split; [intros [H1 H2]; subst; auto|intros H; inversion H; auto].
  - split; [intros H; subst; auto|intros H; inversion H; auto].
  - split; [intros H; subst; auto|intros H; inversion H; auto].
  - split; [intros H; subst; auto|intros H; inversion H; auto].
  - split; [intros H; subst; auto|intros H; inversion H; auto].
  - split; [intros [H1 H2]; subst; auto|intros H; inversion H; auto].
  - split; [intros H; subst; auto|intros H; inversion H; auto].
Qed.

Notation wfi := (@wf loc Z).
Notation indepi := (@indep loc Z).
Notation runi := (run loc_eqb).
Notation seqi := (@seq_eq loc Z).

Lemma zsum_map_ext {A} (f g : A -> Z) (l : list A) : (forall a, In a l -> f a = g a) -> zsum (map f l) = zsum (map g l).
Proof. intros H. f_equal. apply map_ext_in; auto. Qed.

Lemma wf_comp p : wfi (comp_item p).
Proof. intros s s' H l _. cbn [act comp_item]. apply H. cbn [reads comp_item]. left; auto. Qed.

Lemma wf_collect p : wfi (collect_item p).
Proof.
  intros s s' H l _. unfold collect_item in *. destruct (v_scripted (snd p)); cbn [act reads] in *.
  - apply zsum_map_ext. intros c Hc. apply H. apply in_map; auto.
  - apply zsum_map_ext. intros c Hc. rewrite (H (LCvc (fst p) c)); [reflexivity|]. apply in_map; auto.
Qed.

Lemma bias_x_ext bs s s' i : (forall l, In l (map LX (b_vars bs)) -> s l = s' l) -> i < length (b_vars bs) ->
  bias_x bs s i = bias_x bs s' i.
Proof. intros H Hi. unfold bias_x. f_equal. apply H. apply in_map. apply nth_In; auto. Qed.

Lemma wf_bias p : wfi (bias_item p).
Proof.
  intros s s' H l Hl. cbn [writes bias_item] in Hl. cbn [reads bias_item] in H. cbn [act bias_item].
  destruct Hl as [Hl|Hl].
  - subst. f_equal. apply zsum_map_ext. intros i Hi. rewrite in_seq in Hi.
    rewrite (bias_x_ext (snd p) s s' i); auto. lia.
  - rewrite in_map_iff in Hl. destruct Hl as (i & E & Hi). subst. rewrite in_seq in Hi.
    rewrite (bias_x_ext (snd p) s s' i); auto. lia.
Qed.

Lemma wf_script sc : wfi (script_item sc).
Proof.
  intros s s' H l Hl. cbn [writes script_item] in Hl. cbn [reads script_item] in H. cbn [act script_item].
  assert (Hl' := Hl). rewrite in_map_iff in Hl'. destruct Hl' as (q & E & Hq). subst. f_equal. apply H; auto.
Qed.

Lemma wf_reset n : wfi (reset_item n).
Proof. intros s s' H l Hl. reflexivity. Qed.

Lemma wf_energy abs : wfi (energy_item abs).
Proof.
  intros s s' H l _. cbn [act energy_item]. apply zsum_map_ext. intros p Hp. apply H.
  cbn [reads energy_item]. apply (in_map (fun p => LBiasE (fst p))); auto.
Qed.

Lemma wf_communicate p : wfi (communicate_item p).
Proof.
  intros s s' H l Hl. cbn [writes communicate_item] in Hl. cbn [reads communicate_item] in H. cbn [act communicate_item].
  rewrite in_map_iff in Hl. destruct Hl as (v & E & Hv). subst. f_equal.
  - apply H. rewrite in_app_iff. left. apply in_map; auto.
  - unfold bias_force_on. apply zsum_map_ext. intros i Hi.
    destruct (Nat.eqb (nth i (b_vars (snd p)) 0) v); auto. f_equal.
    apply H. rewrite in_app_iff. right. apply in_map; auto.
Qed.

Lemma wf_force t p : wfi (force_item t p).
Proof.
  intros s s' H l _. cbn [act force_item]. destruct (awake (v_tsf (snd p)) t); auto.
  apply H. cbn [reads force_item]. left; auto.
Qed.

Lemma Forall_map_wf {A} (f : A -> sitem) (l : list A) : (forall a, wfi (f a)) -> Forall wfi (map f l).
Proof. intros H. rewrite Forall_forall. intros x Hx. rewrite in_map_iff in Hx. destruct Hx as (a & E & _). subst. auto. Qed.

(* distinct components write distinct component state and read only engine data *)
Lemma indep_comp_comp p q : p <> q -> indepi (comp_item p) (comp_item q).
Proof.
  intros Hne. destruct p as [v c], q as [v' c']. unfold indep. cbn [writes reads comp_item fst snd].
  split; [|split]; intros l [Hl|[]] [Hl'|[]]; subst; try discriminate. inversion Hl'; subst. auto.
Qed.

(* the collection phase of variable v is independent of the components of every other variable *)
Lemma indep_collect_comp (p : nat * var) (q : nat * nat) : fst p <> fst q -> indepi (collect_item p) (comp_item q).
Proof.
  intros Hne. unfold indep, collect_item. destruct (v_scripted (snd p)); cbn [writes reads comp_item].
  - split; [|split].
    + intros l [Hl|[]] [Hl'|[]]; subst; discriminate.
    + intros l [Hl|[]] [Hl'|[]]; subst; discriminate.
    + intros l [Hl|[]] Hl'; subst. rewrite in_map_iff in Hl'. destruct Hl' as (c & E & _). inversion E. auto.
  - split; [|split].
    + intros l [Hl|[]] [Hl'|[]]; subst; discriminate.
    + intros l [Hl|[]] [Hl'|[]]; subst; discriminate.
    + intros l [Hl|[]] Hl'; subst. rewrite in_map_iff in Hl'. destruct Hl' as (c & E & _). inversion E. auto.
Qed.

(* distinct biases write their own energy / forces and read only variable values *)
Lemma indep_bias_bias p q : fst p <> fst q -> indepi (bias_item p) (bias_item q).
Proof.
  intros Hne. unfold indep. cbn [writes reads bias_item].
  assert (Hw : forall (b : nat) n l, In l (LBiasE b :: map (LBiasF b) (seq 0 n)) -> (l = LBiasE b \/ exists i, l = LBiasF b i)).
  { intros b n l [H|H]; [left; auto|right]. rewrite in_map_iff in H. destruct H as (i & E & _). eauto. }
  split; [|split].
  - intros l Hl Hl'. apply Hw in Hl. apply Hw in Hl'. destruct Hl as [Hl|[i Hl]]; destruct Hl' as [Hl'|[i' Hl']]; subst; try discriminate; inversion Hl'; auto.
  - intros l Hl Hl'. apply Hw in Hl. rewrite in_map_iff in Hl'. destruct Hl' as (v & E & _). destruct Hl as [Hl|[i Hl]]; subst; discriminate.
  - intros l Hl Hl'. apply Hw in Hl. rewrite in_map_iff in Hl'. destruct Hl' as (v & E & _). destruct Hl as [Hl|[i Hl]]; subst; discriminate.
Qed.

(* the scripted-force task touches only fb of its variables; a bias' update() touches no fb *)
Lemma indep_script_bias sc p : indepi (script_item sc) (bias_item p).
Proof.
  unfold indep. cbn [writes reads bias_item script_item].
  assert (Hs : forall l, In l (map (fun q : nat * Z => LFb (fst q)) sc) -> exists v, l = LFb v).
  { intros l H. rewrite in_map_iff in H. destruct H as (q & E & _). eauto. }
  split; [|split].
  - intros l Hl [Hl'|Hl']; apply Hs in Hl; destruct Hl as [v Hl]; subst; try discriminate.
    rewrite in_map_iff in Hl'. destruct Hl' as (i & E & _). discriminate.
  - intros l Hl Hl'. apply Hs in Hl. destruct Hl as [v Hl]. subst. rewrite in_map_iff in Hl'. destruct Hl' as (w & E & _). discriminate.
  - intros l [Hl|Hl] Hl'; apply Hs in Hl'; destruct Hl' as [v Hl']; subst; try discriminate.
    rewrite in_map_iff in Hl. destruct Hl as (i & E & _). discriminate.
Qed.

(* =========================================================================================== *)
(* 5. Serial schedule = SMP schedule under every execution order                                 *)
(* =========================================================================================== *)
Lemma Permutation_concat {A} (l l' : list (list A)) : Permutation l l' -> Permutation (concat l) (concat l').
Proof.
  induction 1 as [|x l l' HP IH|x y l|l l' l'' HP1 IH1 HP2 IH2]; cbn [concat]; auto.
  - apply Permutation_app_head; auto.
  - rewrite !app_assoc. apply Permutation_app_tail. apply Permutation_app_comm.
  - eapply perm_trans; eauto.
Qed.

Lemma pick_perm {A} (l : list A) (o : list nat) : Permutation o (seq 0 (length l)) -> Permutation (pick l o) l.
Proof.
  intros H. rewrite <- (pick_all l) at 2. unfold pick. apply Permutation_flat_map. exact H.
Qed.

Lemma comp_items_pairwise (ps : list (nat * nat)) : NoDup ps -> Pairwise indepi (map comp_item ps).
Proof. intros H. apply Pairwise_map_NoDup; auto. intros a b _ _ Hne. apply indep_comp_comp; auto. Qed.

(* phase 1: the parallel component loop in any order = all enabled components in canonical order *)
Lemma smp_cvc_work_concat vs t :
  concat (smp_cvc_work vs t) = map comp_item (active_pairs (active_vars t vs)).
Proof.
  unfold smp_cvc_work. rewrite <- (items_cover_concat vs (active_vars t vs)) by (apply active_vars_flags).
  rewrite concat_map. rewrite map_map. reflexivity.
Qed.

Lemma cvc_phase vs t oc s : Permutation oc (seq 0 (length (smp_cvc_work vs t))) ->
  seqi (runi (concat (pick (smp_cvc_work vs t) oc)) s) (runi (map comp_item (active_pairs (active_vars t vs))) s).
Proof.
  intros HP. apply seq_eq_sym. apply (run_perm loc_eqb loc_eqb_spec).
  - rewrite <- smp_cvc_work_concat. apply Permutation_concat. symmetry. apply pick_perm; auto.
  - apply Forall_map_wf. apply wf_comp.
  - apply comp_items_pairwise. apply active_pairs_NoDup. apply active_vars_NoDup.
Qed.

(* phase 2: components of all variables followed by all collections = variable by variable *)
Lemma collect_phase (avs : list (nat * var)) s : NoDup (map fst avs) ->
  seqi (runi (map comp_item (active_pairs avs) ++ map collect_item avs) s) (runi (flat_map serial_var_items avs) s).
Proof.
  revert s. induction avs as [|p r IH]; intros s Hnd.
  - apply seq_eq_refl.
  - inversion Hnd as [|a l Hni Hnd']; subst.
    unfold active_pairs. cbn [flat_map map]. fold (active_pairs r).
    unfold serial_var_items at 1. unfold serial_evaluates. rewrite calc_cvcs_all.
    rewrite map_app. rewrite <- !app_assoc. rewrite !(@run_app loc Z loc_eqb (map comp_item (map (pair (fst p)) (enabled (v_flags (snd p)))))).
    cbn [app].
    eapply seq_eq_trans.
    + apply (run_move loc_eqb loc_eqb_spec).
      * apply Forall_map_wf. apply wf_comp.
      * apply Forall_map_wf. apply wf_collect.
      * apply wf_collect.
      * rewrite Forall_forall. intros x Hx. rewrite in_map_iff in Hx. destruct Hx as ([v c] & E & Hin). subst.
        apply indep_collect_comp. cbn [fst]. intros Hv. apply Hni.
        apply active_pairs_In in Hin. destruct Hin as (y & Hy & _). rewrite in_map_iff. exists (v, y). split; auto.
    + cbn [SmpModel.run]. apply IH; auto.
Qed.

(* phase 3: the parallel bias loop (with the script task as one more item) in any order = script, then the biases in order *)
Lemma bias_work_pairwise (abs : list (nat * bias)) (sc : list sitem) (scr : list (nat * Z)) :
  NoDup (map fst abs) -> (sc = [] \/ sc = [script_item scr]) -> Pairwise indepi (sc ++ map bias_item abs).
Proof.
  intros Hnd Hsc.
  assert (Hb : Pairwise indepi (map bias_item abs)).
  { apply Pairwise_map_NoDup.
    - eapply NoDup_map_inv; eauto.
    - intros a b Ha Hb' Hne. apply indep_bias_bias. intros E. apply Hne.
      clear - Hnd Ha Hb' E. induction abs as [|x r IH]; [inversion Ha|].
      cbn [map] in Hnd. inversion Hnd as [|y l Hni Hnd']; subst.
      destruct Ha as [Ha|Ha]; destruct Hb' as [Hb'|Hb']; subst; auto.
      + exfalso. apply Hni. rewrite E. apply in_map; auto.
      + exfalso. apply Hni. rewrite <- E. apply in_map; auto. }
  destruct Hsc as [Hsc|Hsc]; subst; cbn [app]; auto.
  constructor; auto. rewrite Forall_forall. intros x Hx. rewrite in_map_iff in Hx. destruct Hx as (p & E & _). subst.
  apply indep_script_bias.
Qed.

Lemma bias_phase (abs : list (nat * bias)) (sc : list sitem) (scr : list (nat * Z)) ob s :
  NoDup (map fst abs) -> (sc = [] \/ sc = [script_item scr]) ->
  Permutation ob (seq 0 (length (map bias_item abs ++ sc))) ->
  seqi (runi (pick (map bias_item abs ++ sc) ob) s) (runi (sc ++ map bias_item abs) s).
Proof.
  intros Hnd Hsc HP. apply seq_eq_sym. apply (run_perm loc_eqb loc_eqb_spec).
  - eapply perm_trans; [apply Permutation_app_comm|]. symmetry. apply pick_perm; auto.
  - rewrite Forall_app. split.
    + destruct Hsc as [Hsc|Hsc]; subst; constructor; auto. apply wf_script.
    + apply Forall_map_wf. apply wf_bias.
  - eapply bias_work_pairwise; eauto.
Qed.

Lemma wf_tail c t vs : Forall wfi (tail_items c t vs).
Proof.
  unfold tail_items. rewrite !Forall_app. repeat split.
  - constructor; auto. apply wf_energy.
  - apply Forall_map_wf. apply wf_communicate.
  - destruct (c_use_script c && c_script_after c); constructor; auto. apply wf_script.
  - apply Forall_map_wf. apply wf_force.
Qed.

Lemma script_before_cases c :
  (if c_use_script c && negb (c_script_after c) then script_items c else []) = [] \/
  (if c_use_script c && negb (c_script_after c) then script_items c else []) = [script_item (c_script c)].
Proof. destruct (c_use_script c && negb (c_script_after c)); [right|left]; reflexivity. Qed.

(* (iii) the SMP schedule under every execution order of its two loops gives the store of the serial schedule *)
Lemma smp_eq_serial (c : cfg) (t : nat) (oc ob : list nat) (s : store) :
  Permutation oc (seq 0 (n_cvc_items c t)) -> Permutation ob (seq 0 (n_bias_items c t)) ->
  seqi (step_smp c t oc ob s) (step_serial c t s).
Proof.
  intros Hoc Hob. unfold step_smp, step_serial, smp_items, serial_items. cbv zeta.
  set (vs := prep_vars t (c_vars c)) in *.
  set (avs := active_vars t vs).
  set (abs := active_biases t (c_biases c)).
  set (S := if c_use_script c && negb (c_script_after c) then script_items c else []).
  assert (Hlen : length (smp_cvc_work vs t) = n_cvc_items c t).
  { unfold smp_cvc_work, n_cvc_items. rewrite map_length. reflexivity. }
  rewrite !(@run_app loc Z loc_eqb).
  apply (run_ext loc_eqb loc_eqb_spec); [apply wf_tail|].
  (* bias loop *)
  unfold smp_bias_work. fold abs S.
  eapply seq_eq_trans.
  { apply (bias_phase abs S (c_script c)).
    - apply active_biases_NoDup.
    - apply script_before_cases.
    - exact Hob. }
  rewrite (@run_app loc Z loc_eqb S).
  apply (run_ext loc_eqb loc_eqb_spec); [apply Forall_map_wf; apply wf_bias|].
  apply (run_ext loc_eqb loc_eqb_spec).
  { destruct (script_before_cases c) as [E|E]; fold S in E; rewrite E; constructor; auto. apply wf_script. }
  apply (run_ext loc_eqb loc_eqb_spec); [constructor; auto; apply wf_reset|].
  (* component loop and collection *)
  eapply seq_eq_trans.
  { apply (run_ext loc_eqb loc_eqb_spec); [apply Forall_map_wf; apply wf_collect|].
    apply cvc_phase. rewrite Hlen. exact Hoc. }
  rewrite <- (@run_app loc Z loc_eqb). apply collect_phase. apply active_vars_NoDup.
Qed.

(* with threads: any permutation of the items dealt to any number of threads in any way, any interleaving *)
Lemma smp_threads_eq_serial (c : cfg) (t : nat) (s : store)
      (ntc ntb : nat) (asc asb : nat -> nat) (orc orb lc lb : list nat) :
  Permutation orc (seq 0 (n_cvc_items c t)) -> Permutation orb (seq 0 (n_bias_items c t)) ->
  (forall k, k < n_cvc_items c t -> asc k < ntc) -> (forall k, k < n_bias_items c t -> asb k < ntb) ->
  Merge (deal ntc asc orc) lc -> Merge (deal ntb asb orb) lb ->
  seqi (step_smp c t lc lb s) (step_serial c t s).
Proof.
  intros Hc Hb Hac Hab Mc Mb. apply smp_eq_serial.
  - eapply perm_trans; [symmetry; eapply schedule_perm; eauto|]; auto.
    rewrite (Permutation_length Hc), seq_length. auto.
  - eapply perm_trans; [symmetry; eapply schedule_perm; eauto|]; auto.
    rewrite (Permutation_length Hb), seq_length. auto.
Qed.

(* log depth: with equal starting counters every thread logs at the serial depth *)
Lemma depth_smp_consistent (bases : nat -> nat) (th : nat) : bases th = bases 0 -> depth_smp bases th = depth_serial (bases 0).
Proof. intros H. unfold depth_smp, depth_serial. rewrite H. reflexivity. Qed.
(* before the repair: one level less on every worker thread other than thread 0 *)
Lemma depth_smp_unfixed_refuted : exists bases th, bases th = bases 0 /\ depth_smp_unfixed bases th <> depth_serial (bases 0).
Proof. exists (fun _ => 0), 1. split; [reflexivity|]. vm_compute. discriminate. Qed.

(* statements as they appear in Properties_C12.v *)
Lemma order_independent (L V : Type) (eqb : L -> L -> bool) :
  (forall a b, eqb a b = true <-> a = b) ->
  forall (l l' : list (item L V)), Permutation l l' -> Forall wf l -> Pairwise indep l ->
  forall s, seq_eq (run eqb l s) (run eqb l' s).
Proof. intros H l l' HP Hw Hi s. apply run_perm; auto. Qed.

Lemma component_items_independent (vs : list var) (t : nat) :
  let items := map comp_item (flat_map (item_evaluates vs) (build_items (active_vars t vs))) in
  Forall wfi items /\ Pairwise indepi items.
Proof.
  cbv zeta. split.
  - apply Forall_map_wf. apply wf_comp.
  - apply comp_items_pairwise. apply (items_cover_active_once vs t).
Qed.

Lemma bias_items_independent (c : cfg) (t : nat) :
  Forall wfi (smp_bias_work c t) /\ Pairwise indepi (smp_bias_work c t).
Proof.
  unfold smp_bias_work. split.
  - rewrite Forall_app. split; [apply Forall_map_wf; apply wf_bias|].
    destruct (c_use_script c && negb (c_script_after c)); constructor; auto. apply wf_script.
  - eapply Pairwise_perm; [intros a b; apply indep_sym|apply Permutation_app_comm|].
    apply (bias_work_pairwise _ _ (c_script c)); [apply active_biases_NoDup|apply script_before_cases].
Qed.

Lemma serial_equals_parallel (c : cfg) (t : nat) (s : store)
    (ntc ntb : nat) (asc asb : nat -> nat) (orc orb lc lb : list nat) :
  step_error c t = false ->
  Permutation orc (seq 0 (n_cvc_items c t)) -> Permutation orb (seq 0 (n_bias_items c t)) ->
  (forall k, k < n_cvc_items c t -> asc k < ntc) -> (forall k, k < n_bias_items c t -> asb k < ntb) ->
  Merge (deal ntc asc orc) lc -> Merge (deal ntb asb orb) lb ->
  forall l, step_smp c t lc lb s l = step_serial c t s l.
Proof. intros _. apply smp_threads_eq_serial. Qed.

(* =========================================================================================== *)
(* 6. Inner loop of a component: the result does not depend on the thread count / partition      *)
(* =========================================================================================== *)
Section InnerLoopProofs.
  Context {M : Type} (op : M -> M -> M) (e : M).
  Hypothesis op_assoc : forall a b c, op a (op b c) = op (op a b) c.
  Hypothesis op_comm : forall a b, op a b = op b a.
  Hypothesis op_unit : forall a, op e a = a.

  Lemma fold_op_acc (l : list M) (a : M) : fold_left op l a = op a (fold_left op l e).
  Proof.
    revert a. induction l as [|x l IH]; intros a; cbn [fold_left].
    - rewrite op_comm. symmetry. apply op_unit.
    - rewrite IH. rewrite (IH (op e x)). rewrite op_unit. apply eq_sym. apply op_assoc.
  Qed.

  Lemma msum_cons (x : M) (l : list M) : msum op e (x :: l) = op x (msum op e l).
  Proof. unfold msum. cbn [fold_left]. rewrite fold_op_acc. rewrite op_unit. reflexivity. Qed.

  Lemma msum_app (l1 l2 : list M) : msum op e (l1 ++ l2) = op (msum op e l1) (msum op e l2).
  Proof.
    induction l1 as [|x l1 IH]; cbn [app].
    - unfold msum at 2. cbn [fold_left]. rewrite op_unit. reflexivity.
    - rewrite !msum_cons. rewrite IH. apply op_assoc.
  Qed.

  Lemma msum_perm (l l' : list M) : Permutation l l' -> msum op e l = msum op e l'.
  Proof.
    induction 1 as [|x l l' HP IH|x y l|l l' l'' HP1 IH1 HP2 IH2].
    - reflexivity.
    - rewrite !msum_cons. rewrite IH. reflexivity.
    - rewrite !msum_cons. rewrite !op_assoc. rewrite (op_comm y x). reflexivity.
    - congruence.
  Qed.

  Lemma reduce_chunks_concat (chunks : list (list M)) : reduce_chunks op e chunks = msum op e (concat chunks).
  Proof.
    unfold reduce_chunks. induction chunks as [|c r IH]; cbn [map concat].
    - reflexivity.
    - rewrite msum_cons. rewrite msum_app. rewrite IH. reflexivity.
  Qed.

  (* any partition of the terms into chunks, combined in any order *)
  Lemma reduce_chunks_partition (chunks : list (list M)) (terms : list M) :
    Permutation (concat chunks) terms -> reduce_chunks op e chunks = msum op e terms.
  Proof. intros H. rewrite reduce_chunks_concat. apply msum_perm. exact H. Qed.

  Lemma inner_loop_partition_independent (nt : nat) (assign : nat -> nat) (terms : list M) :
    (forall k, k < length terms -> assign k < nt) -> inner_loop_value op e nt assign terms = msum op e terms.
  Proof. intros H. unfold inner_loop_value. apply reduce_chunks_partition. apply deal_perm. exact H. Qed.
End InnerLoopProofs.

Lemma inner_loop_partition_independent_stmt (M : Type) (op : M -> M -> M) (e : M) :
  (forall a b c, op a (op b c) = op (op a b) c) -> (forall a b, op a b = op b a) -> (forall a, op e a = a) ->
  forall (nt : nat) (assign : nat -> nat) (terms : list M),
  (forall k, k < length terms -> assign k < nt) -> inner_loop_value op e nt assign terms = msum op e terms.
Proof. intros Ha Hc Hu nt assign terms H. apply inner_loop_partition_independent; auto. Qed.

Lemma inner_loop_Z (nt : nat) (assign : nat -> nat) (terms : list Z) :
  (forall k, k < length terms -> assign k < nt) -> inner_loop_value Z.add 0%Z nt assign terms = zsum terms.
Proof.
  intros H. unfold zsum. apply (inner_loop_partition_independent_stmt Z Z.add 0%Z); auto.
  - intros a b c. apply Z.add_assoc.
  - intros a b. apply Z.add_comm.
Qed.

(* =========================================================================================== *)
(* 7. Footprints as data: soundness of the boolean checkers run on the regenerated table         *)
(* =========================================================================================== *)
Definition fp_indep (x y : fp) : Prop :=
  @disjoint loc (snd x) (snd y) /\ @disjoint loc (snd x) (fst y) /\ @disjoint loc (snd y) (fst x).

Lemma disjoint_b_sound (a b : list loc) : disjoint_b a b = true -> @disjoint loc a b.
Proof.
  unfold disjoint_b. rewrite forallb_forall. intros H l Hl Hb. specialize (H l Hl).
  apply negb_true_iff in H. apply (mem_false loc_eqb loc_eqb_spec) in H. auto.
Qed.

Lemma fp_indep_b_sound (x y : fp) : fp_indep_b x y = true -> fp_indep x y.
Proof.
  unfold fp_indep_b, fp_indep. rewrite !andb_true_iff. intros [[H1 H2] H3].
  repeat split; apply disjoint_b_sound; auto.
Qed.

Lemma pairwise_b_sound {A} (f : A -> A -> bool) (R : A -> A -> Prop) (l : list A) :
  (forall a b, f a b = true -> R a b) -> pairwise_b f l = true -> Pairwise R l.
Proof.
  intros Hs. induction l as [|a r IH]; cbn [pairwise_b]; intros H.
  - constructor.
  - apply andb_true_iff in H. destruct H as [H1 H2]. constructor; auto.
    rewrite Forall_forall. rewrite forallb_forall in H1. intros x Hx. apply Hs. auto.
Qed.

(* items whose (reads, writes) are the given footprints are independent in the sense of the commutation theorem *)
Lemma fp_indep_items (a b : sitem) : fp_indep (fp_of a) (fp_of b) -> indepi a b.
Proof. unfold fp_indep, fp_of, indep. cbn [fst snd]. tauto. Qed.

Lemma probe_independent_sound (p : probe) : probe_independent_b p = true ->
  Pairwise fp_indep (p_comp p) /\ Pairwise fp_indep (p_bias p) /\ Pairwise fp_indep (p_collect p).
Proof.
  unfold probe_independent_b. rewrite !andb_true_iff. intros [[[H1 H2] H3] _].
  repeat split; eapply pairwise_b_sound; eauto; apply fp_indep_b_sound.
Qed.

Lemma probes_independent_sound (ps : list probe) : forallb probe_independent_b ps = true ->
  Forall (fun p => Pairwise fp_indep (p_comp p) /\ Pairwise fp_indep (p_bias p) /\ Pairwise fp_indep (p_collect p)) ps.
Proof.
  rewrite forallb_forall. intros H. rewrite Forall_forall. intros p Hp. apply probe_independent_sound. auto.
Qed.

(* =========================================================================================== *)
(* 8. Guard of the bias loop; the log                                                            *)
(* =========================================================================================== *)
Lemma bias_loop_any_mode (need_main_thread : bool) (c : cfg) (t : nat) (ob : list nat) (s : store) :
  Permutation ob (seq 0 (n_bias_items c t)) ->
  seqi (runi (bias_loop_items need_main_thread c t ob) s)
       (runi ((if c_use_script c && negb (c_script_after c) then script_items c else []) ++ map bias_item (active_biases t (c_biases c))) s).
Proof.
  intros HP. unfold bias_loop_items. destruct need_main_thread.
  - apply seq_eq_refl.
  - unfold smp_bias_work. apply (bias_phase _ _ (c_script c)).
    + apply active_biases_NoDup.
    + apply script_before_cases.
    + exact HP.
Qed.

(* the log under any schedule is a rearrangement of the serial log: same messages, each as often *)
Lemma log_rearrangement {A} (msgs : list (list A)) (order : list nat) :
  Permutation order (seq 0 (length msgs)) -> Permutation (log_of msgs order) (log_of msgs (seq 0 (length msgs))).
Proof.
  intros H. unfold log_of. apply Permutation_concat. rewrite pick_all. apply pick_perm. exact H.
Qed.

(* on one thread the messages of one item stay together and in order: the log is the concatenation in execution order *)
Lemma log_serial {A} (msgs : list (list A)) : log_of msgs (seq 0 (length msgs)) = concat msgs.
Proof. unfold log_of. rewrite pick_all. reflexivity. Qed.

(* lock-protected shared accumulators (error word, citation counters): each item contributes one element of a commutative
   monoid under the lock; the accumulated value does not depend on the order in which the items take the lock *)
Lemma locked_accumulator_order_independent (M : Type) (op : M -> M -> M) (e : M) :
  (forall a b c, op a (op b c) = op (op a b) c) -> (forall a b, op a b = op b a) -> (forall a, op e a = a) ->
  forall (l l' : list M), Permutation l l' -> msum op e l = msum op e l'.
Proof. intros Ha Hc Hu l l' H. apply msum_perm; auto. Qed.

(* =========================================================================================== *)
(* 9. Item list as state; the error step                                                         *)
(* =========================================================================================== *)
(* the list after the rebuild does not depend on the list before, and is a function of the active set of the step alone *)
Lemma rebuild_items_ignores_old (old old' : list (nat * nat)) (c : cfg) (t : nat) :
  rebuild_items old c t = rebuild_items old' c t.
Proof. reflexivity. Qed.

Lemma rebuild_items_active_set (old old' : list (nat * nat)) (c c' : cfg) (t t' : nat) :
  active_vars t (prep_vars t (c_vars c)) = active_vars t' (prep_vars t' (c_vars c')) ->
  rebuild_items old c t = rebuild_items old' c' t'.
Proof. unfold rebuild_items. intros H. rewrite H. reflexivity. Qed.

Lemma items_history_spec (old : list (nat * nat)) (c : cfg) (t n : nat) :
  forall k, k < n -> exists ck, nth k (items_history rebuild_items old c t n) [] = build_items (active_vars (t + k) (prep_vars (t + k) (c_vars ck))).
Proof.
  revert old c t. induction n as [|m IH]; intros old c t k Hk; [lia|].
  cbn [items_history]. destruct k as [|k'].
  - exists c. rewrite Nat.add_0_r. reflexivity.
  - cbn [nth]. destruct (IH (rebuild_items old c t) (next_cfg c t) (S t) k') as [ck Hck]; [lia|].
    exists ck. rewrite Hck. replace (S t + k') with (t + S k') by lia. reflexivity.
Qed.

(* the cached variant: two variables with timeStepFactor 2 and 3, one component each: at step 3 only variable 1 is awake but
   the list still names variable 0 (one item before, one item now) *)
Lemma rebuild_items_cached_refuted :
  let c := mkCfg [mkVar 2 [true] [] [1%Z] [] false; mkVar 3 [true] [] [1%Z] [] false] [] false false [] in
  items_history rebuild_items [] c 0 4 = [[(0, 0); (1, 0)]; []; [(0, 0)]; [(1, 0)]] /\
  items_history rebuild_items_cached [] c 0 4 = [[(0, 0); (1, 0)]; []; [(0, 0)]; [(0, 0)]].
Proof. vm_compute. split; reflexivity. Qed.

(* the error step: the serial path leaves the variables AFTER the failing one (and the failing one) uncomputed, the SMP path computes them *)
Lemma error_step_paths_differ :
  exists (c : cfg) (t : nat) (s : store) (l : loc),
    step_error c t = true /\
    runi (serial_cvc_items_err c t) s l <> runi (smp_cvc_items_err c t) s l.
Proof.
  exists (mkCfg [mkVar 1 [true] [false] [1%Z] [] false; mkVar 1 [true] [] [1%Z] [] false] [] false false []), 0,
         (fun l => match l with LIn 1 0 => 5%Z | _ => 0%Z end), (LX 1).
  split; [reflexivity|]. vm_compute. discriminate.
Qed.

(* without an error the two component phases agree (instance of collect_phase) *)
Lemma error_free_step_paths_agree (c : cfg) (t : nat) (s : store) :
  step_error c t = false ->
  (forall p, In p (active_vars t (prep_vars t (c_vars c))) -> any_true (v_flags (snd p)) = true) ->
  seqi (runi (serial_cvc_items_err c t) s) (runi (smp_cvc_items_err c t) s).
Proof.
  intros _ Hall. unfold serial_cvc_items_err, smp_cvc_items_err. cbv zeta.
  set (avs := active_vars t (prep_vars t (c_vars c))) in *.
  assert (E : serial_vars_until_error avs = avs).
  { clearbody avs. induction avs as [|p r IH]; cbn [serial_vars_until_error]; auto.
    rewrite (Hall p (or_introl eq_refl)). cbn [negb]. rewrite IH; auto. intros q Hq. apply Hall. right; auto. }
  rewrite E. rewrite smp_cvc_work_concat. fold avs. apply seq_eq_sym. apply collect_phase. apply active_vars_NoDup.
Qed.

(* =========================================================================================== *)
(* 10. Small steps                                                                               *)
(* =========================================================================================== *)
Section SmallStepProofs.
  Context {L V : Type}.
  Variable eqb : L -> L -> bool.
  Hypothesis eqb_spec : forall a b, eqb a b = true <-> a = b.
  Variable items : list (item L V).
  Hypothesis items_wf : Forall wf items.
  Hypothesis items_indep : Pairwise indep items.

  Lemma pairwise_nth {A} (R : A -> A -> Prop) (l : list A) : (forall a b, R a b -> R b a) -> Pairwise R l ->
    forall i j a b, i <> j -> nth_error l i = Some a -> nth_error l j = Some b -> R a b.
  Proof.
    intros Hsym HP. induction HP as [|x r Hf Hr IH]; intros i j a b Hne Hi Hj.
    - destruct i; cbn [nth_error] in Hi; discriminate.
    - rewrite Forall_forall in Hf. destruct i as [|i']; destruct j as [|j']; cbn [nth_error] in Hi, Hj.
      + exfalso. apply Hne. reflexivity.
      + inversion Hi; subst. apply Hf. apply (nth_error_In _ _ Hj).
      + inversion Hj; subst. apply Hsym. apply Hf. apply (nth_error_In _ _ Hi).
      + apply (IH i' j' a b); auto.
  Qed.

  Lemma nth_wf i a : nth_error items i = Some a -> wf a.
  Proof. intros H. rewrite Forall_forall in items_wf. apply items_wf. eapply nth_error_In; eauto. Qed.

  (* every buffer in flight still agrees with the store on what its item reads *)
  Definition bufs_ok (bufs : list (nat * (L -> V))) (s : L -> V) : Prop :=
    forall i b a, In (i, b) bufs -> nth_error items i = Some a -> forall l, In l (reads a) -> b l = s l.

  Lemma lookup_buf_In i (bufs : list (nat * (L -> V))) b : lookup_buf i bufs = Some b -> In (i, b) bufs.
  Proof.
    induction bufs as [|[j c] r IH]; cbn [lookup_buf]; intros H; [discriminate|].
    destruct (Nat.eqb j i) eqn:E.
    - apply Nat.eqb_eq in E. inversion H; subst. left; auto.
    - right; auto.
  Qed.

  Lemma lookup_buf_keys i (bufs : list (nat * (L -> V))) : In i (map fst bufs) -> exists b, lookup_buf i bufs = Some b.
  Proof.
    induction bufs as [|[j c] r IH]; cbn [map lookup_buf]; intros H; [inversion H|].
    destruct (Nat.eqb j i) eqn:E; [eauto|]. destruct H as [H|H]; [|auto].
    cbn [fst] in H. subst. rewrite Nat.eqb_refl in E. discriminate.
  Qed.

  Lemma remove_buf_keys i (bufs : list (nat * (L -> V))) : map fst (remove_buf i bufs) = filter (fun k => negb (Nat.eqb k i)) (map fst bufs).
  Proof.
    unfold remove_buf. induction bufs as [|[j c] r IH]; cbn [map filter fst]; auto.
    destruct (negb (Nat.eqb j i)); cbn [map fst]; rewrite IH; auto.
  Qed.

  Lemma pick_cons i a (r : list nat) : nth_error items i = Some a -> pick items (i :: r) = a :: pick items r.
  Proof. intros H. unfold pick. cbn [flat_map]. rewrite H. reflexivity. Qed.

  Lemma pick_cons_none i (r : list nat) : nth_error items i = None -> pick items (i :: r) = pick items r.
  Proof. intros H. unfold pick. cbn [flat_map]. rewrite H. reflexivity. Qed.

  (* the small-step execution commits the items atomically in the order of their write phases *)
  Lemma mrun_simulates (tr : list mop) : forall (s s2 : L -> V) (bufs : list (nat * (L -> V))),
    seq_eq s s2 -> valid_trace tr (map fst bufs) -> NoDup (map fst bufs) -> bufs_ok bufs s ->
    seq_eq (mrun eqb items tr s bufs) (run eqb (pick items (wr_order tr)) s2).
  Proof.
    induction tr as [|o r IH]; intros s s2 bufs Hs Hv Hnd Hok.
    - exact Hs.
    - destruct o as [i|i]; cbn [mrun wr_order flat_map app valid_trace] in *.
      + destruct Hv as [Hni Hv]. apply IH; auto.
        * cbn [map fst]. constructor; auto.
        * intros j b a [Hin|Hin] Hn l Hl; [inversion Hin; subst; reflexivity|]. eapply Hok; eauto.
      + destruct Hv as [Hin Hv]. fold (wr_order r).
        destruct (lookup_buf_keys i bufs Hin) as [b Hb]. rewrite Hb.
        assert (Hnd' : NoDup (map fst (remove_buf i bufs))) by (rewrite remove_buf_keys; apply NoDup_filter; exact Hnd).
        assert (Hv' : valid_trace r (map fst (remove_buf i bufs))) by (rewrite remove_buf_keys; exact Hv).
        destruct (nth_error items i) as [a|] eqn:Ha.
        * rewrite (pick_cons i a _ Ha). cbn [SmpModel.run].
          assert (Hbi := lookup_buf_In _ _ _ Hb).
          apply IH; auto.
          -- intros l. unfold SmpModel.exec. destruct (mem eqb l (writes a)) eqn:E.
             ++ apply (nth_wf i a Ha); [|apply (mem_In eqb eqb_spec); auto].
                intros l' Hl'. rewrite (Hok i b a Hbi Ha l' Hl'). apply Hs.
             ++ apply Hs.
          -- intros j bj aj Hj Hnj l Hl. unfold remove_buf in Hj. apply filter_In in Hj. destruct Hj as [Hj Hne].
             cbn [fst] in Hne. apply negb_true_iff in Hne. apply Nat.eqb_neq in Hne.
             assert (Hind : indep a aj).
             { apply (pairwise_nth indep items (fun x y => @indep_sym L V x y) items_indep i j a aj); auto. }
             destruct Hind as (_ & Hwr & _).
             destruct (mem eqb l (writes a)) eqn:E.
             ++ apply (mem_In eqb eqb_spec) in E. exfalso. exact (Hwr l E Hl).
             ++ eapply Hok; eauto.
        * rewrite (pick_cons_none i _ Ha). apply IH; auto.
          intros j bj aj Hj Hnj l Hl. unfold remove_buf in Hj. apply filter_In in Hj. destruct Hj as [Hj _]. eapply Hok; eauto.
  Qed.

  (* every small-step execution in which each item commits exactly once gives the store of the atomic serial execution *)
  Lemma small_step_schedule_independent (tr : list mop) (s : L -> V) :
    valid_trace tr [] -> Permutation (wr_order tr) (seq 0 (length items)) ->
    seq_eq (mrun eqb items tr s []) (run eqb items s).
  Proof.
    intros Hv HP. eapply seq_eq_trans.
    - apply (mrun_simulates tr s s []); auto.
      + apply seq_eq_refl.
      + constructor.
      + intros i b a H; inversion H.
    - apply seq_eq_sym. apply (run_perm eqb eqb_spec); auto. symmetry. apply pick_perm. exact HP.
  Qed.
End SmallStepProofs.

(* one thread running its queue item after item is a well-formed trace that commits in queue order *)
Lemma wr_order_thread (q : list nat) : wr_order (thread_mops q) = q.
Proof. induction q as [|i q IH]; cbn; [reflexivity|]. unfold wr_order, thread_mops in IH. rewrite IH. reflexivity. Qed.

Lemma valid_thread (q : list nat) : valid_trace (thread_mops q) [].
Proof.
  induction q as [|i q IH]; cbn; auto. split; [intros H; exact H|]. split; [left; reflexivity|].
  rewrite Nat.eqb_refl. cbn. exact IH.
Qed.

Lemma small_step_stmt (L V : Type) (eqb : L -> L -> bool) :
  (forall a b, eqb a b = true <-> a = b) ->
  forall (items : list (item L V)), Forall wf items -> Pairwise indep items ->
  forall (tr : list mop) (s : L -> V),
  valid_trace tr [] -> Permutation (wr_order tr) (seq 0 (length items)) ->
  seq_eq (mrun eqb items tr s []) (run eqb items s).
Proof. intros He items Hw Hi tr s Hv HP. apply small_step_schedule_independent; auto. Qed.

(* =========================================================================================== *)
(* 11. Modes, main-thread biases, OpenMP static schedule                                         *)
(* =========================================================================================== *)
Lemma step_mode_eq_serial (m : smp_mode) (c : cfg) (t : nat) (oc ob : list nat) (s : store) :
  Permutation oc (seq 0 (n_cvc_items c t)) -> Permutation ob (seq 0 (n_bias_items c t)) ->
  forall l, step_mode m c t oc ob s l = step_serial c t s l.
Proof.
  intros Hc Hb. unfold step_mode. destruct (parallel_cvc_loop m); [|reflexivity].
  apply smp_eq_serial; auto.
Qed.

Lemma parallel_bias_loop_spec (m : smp_mode) (active : list bias_kind) :
  parallel_bias_loop m active = true <-> m = ModeCvcs /\ forall k, In k active -> replica_share_freq k = 0.
Proof.
  unfold parallel_bias_loop, need_main_thread. rewrite andb_true_iff, negb_true_iff. split.
  - intros [Hm He]. split; [destruct m; auto; discriminate|].
    intros k Hk. destruct (replica_share_freq k) eqn:E; auto.
    exfalso. assert (existsb (fun k0 => 0 <? replica_share_freq k0) active = true); [|congruence].
    apply existsb_exists. exists k. split; auto. rewrite E. reflexivity.
  - intros [Hm Ha]. subst. split; auto.
    destruct (existsb (fun k => 0 <? replica_share_freq k) active) eqn:E; auto.
    apply existsb_exists in E. destruct E as (k & Hk & Hf). rewrite (Ha k Hk) in Hf. discriminate.
Qed.

Lemma list_sum_cons (a : nat) (l : list nat) : list_sum (a :: l) = a + list_sum l.
Proof. reflexivity. Qed.

Lemma chunks_concat (sizes : list nat) (start : nat) : concat (chunks sizes start) = seq start (list_sum sizes).
Proof.
  revert start. induction sizes as [|k r IH]; intros start; cbn [chunks concat]; auto.
  rewrite list_sum_cons, IH. rewrite <- seq_app. reflexivity.
Qed.

Lemma indicator_sum (r a m : nat) :
  list_sum (map (fun t => if Nat.ltb t r then 1 else 0) (seq a m)) = Nat.min (r - a) m.
Proof.
  revert a. induction m as [|m IH]; intros a; cbn [seq map].
  - rewrite Nat.min_0_r. reflexivity.
  - rewrite list_sum_cons, IH. destruct (Nat.ltb a r) eqn:E.
    + apply Nat.ltb_lt in E. lia.
    + apply Nat.ltb_ge in E. lia.
Qed.

Lemma list_sum_map_add {A} (f g : A -> nat) (l : list A) :
  list_sum (map (fun x => f x + g x) l) = list_sum (map f l) + list_sum (map g l).
Proof. induction l as [|a l IH]; cbn [map]; auto. rewrite !list_sum_cons, IH. lia. Qed.

Lemma list_sum_const {A} (k : nat) (l : list A) : list_sum (map (fun _ => k) l) = k * length l.
Proof. induction l as [|a l IH]; cbn [map length]; [cbn; lia|]. rewrite list_sum_cons, IH. lia. Qed.

Lemma omp_sizes_sum (n nt : nat) : 0 < nt -> list_sum (omp_sizes n nt) = n.
Proof.
  intros Hnt. unfold omp_sizes.
  rewrite (list_sum_map_add (fun _ => n / nt) (fun t => if Nat.ltb t (n mod nt) then 1 else 0)).
  rewrite list_sum_const, seq_length, indicator_sum. rewrite Nat.sub_0_r.
  assert (H := Nat.mod_upper_bound n nt). assert (H2 := Nat.div_mod n nt).
  rewrite Nat.min_l by lia. lia.
Qed.

Lemma chunks_lengths (sizes : list nat) (start : nat) : map (@length nat) (chunks sizes start) = sizes.
Proof.
  revert start. induction sizes as [|k r IH]; intros start; cbn [chunks map]; auto. rewrite seq_length, IH. reflexivity.
Qed.

(* the static schedule is a partition of the items into nt contiguous blocks whose sizes differ by at most one *)
Lemma omp_static_spec (n nt : nat) : 0 < nt ->
  concat (omp_static n nt) = seq 0 n /\ length (omp_static n nt) = nt /\
  Forall (fun q => length q = n / nt \/ length q = S (n / nt)) (omp_static n nt).
Proof.
  intros Hnt. unfold omp_static. split; [|split].
  - rewrite chunks_concat, omp_sizes_sum; auto.
  - rewrite <- (map_length (@length nat)). rewrite chunks_lengths. unfold omp_sizes. rewrite map_length, seq_length. reflexivity.
  - rewrite Forall_forall. intros q Hq.
    assert (Hl : In (length q) (map (@length nat) (chunks (omp_sizes n nt) 0))) by (apply in_map; auto).
    rewrite chunks_lengths in Hl. unfold omp_sizes in Hl. rewrite in_map_iff in Hl. destruct Hl as (t & E & _).
    destruct (Nat.ltb t (n mod nt)); lia.
Qed.

(* hence every execution of the library's OpenMP loop runs every item exactly once (instance of merge_perm) *)
Lemma omp_static_exactly_once (n nt : nat) (l : list nat) : 0 < nt -> Merge (omp_static n nt) l -> Permutation l (seq 0 n).
Proof.
  intros Hnt HM. destruct (omp_static_spec n nt Hnt) as [Hc _]. rewrite <- Hc. symmetry. apply merge_perm. exact HM.
Qed.

(* =========================================================================================== *)
(* 12. Biases with private accumulated state; a bias that reads the other biases' energies       *)
(* =========================================================================================== *)
Lemma wf_acc_bias p : wfi (acc_bias_item p).
Proof.
  intros s s' H l Hl. cbn [writes acc_bias_item] in Hl. cbn [reads acc_bias_item] in H. cbn [act acc_bias_item].
  assert (Hst : s (LBiasState (fst p)) = s' (LBiasState (fst p))) by (apply H; left; reflexivity).
  assert (Hx : forall i, i < length (b_vars (snd p)) -> bias_x (snd p) s i = bias_x (snd p) s' i).
  { intros i Hi. apply bias_x_ext; auto. intros l0 Hl0. apply H. right. exact Hl0. }
  destruct Hl as [Hl|[Hl|Hl]].
  - subst. rewrite Hst. reflexivity.
  - subst. rewrite Hst. f_equal. apply zsum_map_ext. intros i Hi. rewrite in_seq in Hi. apply Hx. lia.
  - rewrite in_map_iff in Hl. destruct Hl as (i & E & Hi). subst. rewrite Hst. reflexivity.
Qed.

Lemma acc_writes_shape (p : nat * bias) l : In l (writes (acc_bias_item p)) ->
  l = LBiasE (fst p) \/ l = LBiasState (fst p) \/ exists i, l = LBiasF (fst p) i.
Proof.
  cbn [writes acc_bias_item]. intros [H|[H|H]]; auto. right. right. rewrite in_map_iff in H. destruct H as (i & E & _). eauto.
Qed.
Lemma acc_reads_shape (p : nat * bias) l : In l (reads (acc_bias_item p)) -> l = LBiasState (fst p) \/ exists v, l = LX v.
Proof.
  cbn [reads acc_bias_item]. intros [H|H]; auto. right. rewrite in_map_iff in H. destruct H as (v & E & _). eauto.
Qed.
Lemma bias_writes_shape (p : nat * bias) l : In l (writes (bias_item p)) -> l = LBiasE (fst p) \/ exists i, l = LBiasF (fst p) i.
Proof.
  cbn [writes bias_item]. intros [H|H]; auto. right. rewrite in_map_iff in H. destruct H as (i & E & _). eauto.
Qed.
Lemma bias_reads_shape (p : nat * bias) l : In l (reads (bias_item p)) -> exists v, l = LX v.
Proof. cbn [reads bias_item]. intros H. rewrite in_map_iff in H. destruct H as (v & E & _). eauto. Qed.

Lemma any_writes_shape st (p : nat * bias) l : In l (writes (any_bias_item st p)) ->
  l = LBiasE (fst p) \/ l = LBiasState (fst p) \/ exists i, l = LBiasF (fst p) i.
Proof.
  unfold any_bias_item. destruct (st (fst p)); intros H.
  - apply acc_writes_shape; auto.
  - apply bias_writes_shape in H. destruct H as [H|H]; auto.
Qed.
Lemma any_reads_shape st (p : nat * bias) l : In l (reads (any_bias_item st p)) -> l = LBiasState (fst p) \/ exists v, l = LX v.
Proof.
  unfold any_bias_item. destruct (st (fst p)); intros H.
  - apply acc_reads_shape; auto.
  - right. apply bias_reads_shape in H. auto.
Qed.

(* biases of either sort with distinct indices are independent: each writes only its own energy, forces and state *)
Lemma indep_any_bias st p q : fst p <> fst q -> indepi (any_bias_item st p) (any_bias_item st q).
Proof.
  intros Hne. unfold indep. split; [|split].
  - intros l Hl Hl'. apply any_writes_shape in Hl. apply any_writes_shape in Hl'.
    destruct Hl as [Hl|[Hl|[i Hl]]]; destruct Hl' as [Hl'|[Hl'|[j Hl']]]; subst; try discriminate; inversion Hl'; auto.
  - intros l Hl Hl'. apply any_writes_shape in Hl. apply any_reads_shape in Hl'.
    destruct Hl as [Hl|[Hl|[i Hl]]]; destruct Hl' as [Hl'|[v Hl']]; subst; try discriminate. inversion Hl'; auto.
  - intros l Hl Hl'. apply any_writes_shape in Hl. apply any_reads_shape in Hl'.
    destruct Hl as [Hl|[Hl|[i Hl]]]; destruct Hl' as [Hl'|[v Hl']]; subst; try discriminate. inversion Hl'; auto.
Qed.

Lemma wf_any_bias st p : wfi (any_bias_item st p).
Proof. unfold any_bias_item. destruct (st (fst p)); [apply wf_acc_bias|apply wf_bias]. Qed.

Lemma mixed_bias_items_independent (st : nat -> bool) (abs : list (nat * bias)) : NoDup (map fst abs) ->
  Forall wfi (map (any_bias_item st) abs) /\ Pairwise indepi (map (any_bias_item st) abs).
Proof.
  intros Hnd. split.
  - apply Forall_map_wf. intros a. apply wf_any_bias.
  - apply Pairwise_map_NoDup.
    + eapply NoDup_map_inv; eauto.
    + intros a b Ha Hb Hne. apply indep_any_bias. intros E. apply Hne.
      clear - Hnd Ha Hb E. induction abs as [|x r IH]; [inversion Ha|].
      cbn [map] in Hnd. inversion Hnd as [|y l Hni Hnd']; subst.
      destruct Ha as [Ha|Ha]; destruct Hb as [Hb|Hb]; subst; auto.
      * exfalso. apply Hni. rewrite E. apply in_map; auto.
      * exfalso. apply Hni. rewrite <- E. apply in_map; auto.
Qed.

(* hence any order of a bias loop that mixes stateless and stateful biases gives the same store *)
Lemma mixed_bias_loop_order_independent (st : nat -> bool) (abs : list (nat * bias)) (ob : list nat) (s : store) :
  NoDup (map fst abs) -> Permutation ob (seq 0 (length abs)) ->
  seqi (runi (pick (map (any_bias_item st) abs) ob) s) (runi (map (any_bias_item st) abs) s).
Proof.
  intros Hnd HP. destruct (mixed_bias_items_independent st abs Hnd) as [Hw Hi].
  apply seq_eq_sym. apply (run_perm loc_eqb loc_eqb_spec); auto. symmetry. apply pick_perm. rewrite map_length. exact HP.
Qed.

(* a bias that adds the OTHER biases' energies to its deposit reads what they write in the same loop: it is not independent
   of them, and the two orders of the loop give different stores *)
Lemma cross_item_read_not_independent (a b : sitem) (l : loc) : In l (reads a) -> In l (writes b) -> ~ indepi b a.
Proof. intros Hr Hw (_ & H & _). exact (H l Hw Hr). Qed.

Lemma extra_bias_order_dependent :
  let opes := extra_bias_item [1] (0, mkBias 1 [0] 1 [0%Z]) in
  let harm := bias_item (1, mkBias 1 [0] 2 [0%Z]) in
  let s0 : store := fun l => match l with LX 0 => 3%Z | _ => 0%Z end in
  ~ indepi harm opes /\
  runi [opes; harm] s0 (LBiasState 0) = 3%Z /\ runi [harm; opes] s0 (LBiasState 0) = 21%Z.
Proof.
  cbv zeta. split.
  - apply (cross_item_read_not_independent _ _ (LBiasE 1)); cbn; auto.
  - vm_compute. split; reflexivity.
Qed.

(* =========================================================================================== *)
(* 13. Script callbacks                                                                          *)
(* =========================================================================================== *)
Lemma serial_callbacks_correct (vs : list nat) (slot : Z) (f : nat -> Z) :
  slot_exec (serial_callbacks vs) slot f = map (fun v => (v, f v)) vs.
Proof.
  revert slot. induction vs as [|v r IH]; intros slot; cbn [serial_callbacks flat_map app slot_exec map]; auto.
  fold (serial_callbacks r). rewrite IH. reflexivity.
Qed.

(* two callbacks entered concurrently (collection moved into a parallel loop): the first variable fetches the second one's result *)
Lemma concurrent_callbacks_refuted :
  exists (ops : list (nat * bool)) (f : nat -> Z),
    Permutation ops (serial_callbacks [0; 1]) /\ slot_exec ops 0%Z f <> map (fun v => (v, f v)) [0; 1].
Proof.
  exists [(0, true); (1, true); (0, false); (1, false)], (fun v => match v with 0 => 3%Z | _ => 104%Z end).
  split.
  - cbn. apply perm_skip. apply perm_swap.
  - vm_compute. discriminate.
Qed.
