(* Lemmas about SmpModel.v: generic commutation of work items with disjoint footprints, schedules on
   threads, coverage of the SMP item list, footprints of the concrete items, serial = SMP. *)
From Coq Require Import ZArith List Bool Arith Lia Permutation.
From CV Require Import C12.SmpModel.
Import ListNotations.

(* =========================================================================================== *)
(* 1. Generic: items with footprints                                                            *)
(* =========================================================================================== *)
Inductive Pairwise {A} (R : A -> A -> Prop) : list A -> Prop :=
| PW_nil : Pairwise R []
| PW_cons a l : Forall (R a) l -> Pairwise R l -> Pairwise R (a :: l).

Lemma Pairwise_perm {A} (R : A -> A -> Prop) (l l' : list A) :
  (forall a b, R a b -> R b a) -> Permutation l l' -> Pairwise R l -> Pairwise R l'.
Proof.
  intros Hsym HP. induction HP as [|x l l' HP IH|x y l|l l' l'' HP1 IH1 HP2 IH2]; intros HW.
  - constructor.
  - inversion HW as [|a r Hf Hr]; subst. constructor.
    + eapply Permutation_Forall; eauto.
    + auto.
  - inversion HW as [|a r Hf Hr]; subst. inversion Hr as [|a' r' Hf' Hr']; subst.
    inversion Hf as [|a'' r'' Hyx Hfl]; subst.
    constructor.
    + constructor; auto.
    + constructor; auto.
  - auto.
Qed.

Lemma Pairwise_app_inv {A} (R : A -> A -> Prop) (l1 l2 : list A) :
  Pairwise R (l1 ++ l2) -> Pairwise R l1 /\ Pairwise R l2 /\ (forall a b, In a l1 -> In b l2 -> R a b).
Proof.
  induction l1 as [|x l1 IH]; cbn [app]; intros H.
  - split; [constructor|]. split; auto. intros a b Ha; inversion Ha.
  - inversion H as [|a r Hf Hr]; subst. destruct (IH Hr) as (H1 & H2 & H3).
    rewrite Forall_app in Hf. destruct Hf as [Hf1 Hf2].
    split; [constructor; auto|]. split; auto.
    intros a b [Ha|Ha] Hb.
    + subst. rewrite Forall_forall in Hf2. auto.
    + auto.
Qed.

Lemma Pairwise_map_NoDup {A B} (R : B -> B -> Prop) (f : A -> B) (l : list A) :
  NoDup l -> (forall a b, In a l -> In b l -> a <> b -> R (f a) (f b)) -> Pairwise R (map f l).
Proof.
  induction l as [|x l IH]; cbn [map]; intros Hnd HR.
  - constructor.
  - inversion Hnd as [|x' l' Hni Hnd']; subst. constructor.
    + rewrite Forall_forall. intros y Hy. rewrite in_map_iff in Hy. destruct Hy as (b & Hb & Hin). subst.
      apply HR; [left; auto|right; auto|]. intros E; subst; auto.
    + apply IH; auto. intros a b Ha Hb. apply HR; right; auto.
Qed.

Section GenericProofs.
  Context {L V : Type}.
  Variable eqb : L -> L -> bool.
  Hypothesis eqb_spec : forall a b, eqb a b = true <-> a = b.

  Notation item := (item L V).
  Notation exec := (exec eqb).
  Notation run := (run eqb).

  Lemma mem_In (l : L) (ls : list L) : mem eqb l ls = true <-> In l ls.
  Proof.
    unfold mem. rewrite existsb_exists. split.
    - intros (x & Hx & He). apply eqb_spec in He. subst. auto.
    - intros H. exists l. split; auto. apply eqb_spec; auto.
  Qed.

  Lemma mem_false (l : L) (ls : list L) : mem eqb l ls = false <-> ~ In l ls.
  Proof.
    rewrite <- mem_In. destruct (mem eqb l ls); split; intros H; auto; try discriminate. exfalso; auto.
  Qed.

  (* pointwise equality of stores (no functional extensionality) *)
  Definition seq_eq (s s' : L -> V) : Prop := forall l, s l = s' l.

  Lemma seq_eq_refl s : seq_eq s s. Proof. intros l; reflexivity. Qed.
  Lemma seq_eq_sym s s' : seq_eq s s' -> seq_eq s' s. Proof. intros H l; symmetry; auto. Qed.
  Lemma seq_eq_trans s s' s'' : seq_eq s s' -> seq_eq s' s'' -> seq_eq s s''.
  Proof. intros H1 H2 l. rewrite H1. apply H2. Qed.

  (* an item respects its footprint: what it writes depends only on what it declares to read *)
  Definition wf (it : item) : Prop :=
    forall s s', (forall l, In l (reads it) -> s l = s' l) ->
                 forall l, In l (writes it) -> act it s l = act it s' l.

  Definition disjoint (a b : list L) : Prop := forall l, In l a -> ~ In l b.

  (* independent items: no location is written by both, none written by one is read by the other *)
  Definition indep (a b : item) : Prop :=
    disjoint (writes a) (writes b) /\ disjoint (writes a) (reads b) /\ disjoint (writes b) (reads a).

  Lemma indep_sym a b : indep a b -> indep b a.
  Proof.
    intros (H1 & H2 & H3). split; [|split]; auto.
    intros l Hb Ha. exact (H1 l Ha Hb).
  Qed.

  Lemma exec_writes_only (a : item) s l : ~ In l (writes a) -> exec a s l = s l.
  Proof. intros H. unfold SmpModel.exec. apply mem_false in H. rewrite H. reflexivity. Qed.

  Lemma exec_ext (a : item) s s' : wf a -> seq_eq s s' -> seq_eq (exec a s) (exec a s').
  Proof.
    intros Hw He l. unfold SmpModel.exec. destruct (mem eqb l (writes a)) eqn:E.
    - apply Hw; [intros; apply He|apply mem_In; auto].
    - apply He.
  Qed.

  Lemma exec_in (a : item) s l : In l (writes a) -> exec a s l = act a s l.
  Proof. intros H. unfold SmpModel.exec. apply mem_In in H. rewrite H. reflexivity. Qed.

  Lemma exec_comm (a b : item) s : wf a -> wf b -> indep a b ->
    seq_eq (exec a (exec b s)) (exec b (exec a s)).
  Proof.
    intros Hwa Hwb (Hww & Hwr & Hrw) l.
    destruct (mem eqb l (writes a)) eqn:Ea; destruct (mem eqb l (writes b)) eqn:Eb.
    - apply mem_In in Ea. apply mem_In in Eb. exfalso. exact (Hww l Ea Eb).
    - apply mem_In in Ea. apply mem_false in Eb.
      rewrite (exec_in a (exec b s) l Ea), (exec_writes_only b (exec a s) l Eb), (exec_in a s l Ea).
      apply Hwa; auto. intros l' Hl'. apply exec_writes_only. intros Hin. exact (Hrw l' Hin Hl').
    - apply mem_In in Eb. apply mem_false in Ea.
      rewrite (exec_writes_only a (exec b s) l Ea), (exec_in b (exec a s) l Eb), (exec_in b s l Eb).
      apply Hwb; auto. intros l' Hl'. symmetry. apply exec_writes_only. intros Hin. exact (Hwr l' Hin Hl').
    - apply mem_false in Ea. apply mem_false in Eb.
      rewrite (exec_writes_only a (exec b s) l Ea), (exec_writes_only b (exec a s) l Eb),
              (exec_writes_only b s l Eb), (exec_writes_only a s l Ea). reflexivity.
  Qed.

  Lemma run_app (l1 l2 : list item) s : run (l1 ++ l2) s = run l2 (run l1 s).
  Proof. revert s. induction l1 as [|a l1 IH]; intros s; cbn [app SmpModel.run]; auto. Qed.

  Lemma run_ext (l : list item) s s' : Forall wf l -> seq_eq s s' -> seq_eq (run l s) (run l s').
  Proof.
    revert s s'. induction l as [|a l IH]; intros s s' Hw He; cbn [SmpModel.run]; auto.
    inversion Hw as [|a' l' Hwa Hwl]; subst. apply IH; auto. apply exec_ext; auto.
  Qed.

  (* the generic commutation theorem: pairwise independent items may run in any order *)
  Lemma run_perm (l l' : list item) : Permutation l l' -> Forall wf l -> Pairwise indep l ->
    forall s, seq_eq (run l s) (run l' s).
  Proof.
    intros HP. induction HP as [|x l l' HP IH|x y l|l l' l'' HP1 IH1 HP2 IH2]; intros Hw Hpw s.
    - apply seq_eq_refl.
    - cbn [SmpModel.run]. inversion Hw; subst. inversion Hpw; subst. apply IH; auto.
    - cbn [SmpModel.run]. inversion Hw as [|a r Hwy Hwr]; subst. inversion Hwr as [|a' r' Hwx Hwl]; subst.
      inversion Hpw as [|a r Hf Hr]; subst. inversion Hf as [|a'' r'' Hyx Hfl]; subst.
      apply run_ext; auto. apply exec_comm; auto. apply indep_sym; auto.
    - eapply seq_eq_trans.
      + apply IH1; auto.
      + apply IH2.
        * eapply Permutation_Forall; eauto.
        * eapply Pairwise_perm; eauto. intros a b; apply indep_sym.
  Qed.

  (* an item independent of everything in l may be moved from behind l to the front *)
  Lemma run_move_last (l : list item) (a : item) s : Forall wf l -> wf a -> Forall (indep a) l ->
    seq_eq (run (l ++ [a]) s) (run (a :: l) s).
  Proof.
    revert s. induction l as [|b r IH]; intros s Hw Hwa Hi; cbn [app].
    - apply seq_eq_refl.
    - inversion Hw as [|b' r' Hwb Hwr]; subst. inversion Hi as [|b'' r'' Hab Hir]; subst.
      cbn [SmpModel.run]. eapply seq_eq_trans; [apply IH; auto|].
      cbn [SmpModel.run]. apply run_ext; auto. apply exec_comm; auto.
  Qed.

  Lemma run_move (l m : list item) (a : item) s : Forall wf l -> Forall wf m -> wf a -> Forall (indep a) l ->
    seq_eq (run (l ++ a :: m) s) (run (a :: l ++ m) s).
  Proof.
    intros Hl Hm Ha Hi.
    replace (l ++ a :: m) with ((l ++ [a]) ++ m) by (rewrite <- app_assoc; reflexivity).
    rewrite (run_app (l ++ [a]) m). change (a :: l ++ m) with ((a :: l) ++ m). rewrite (run_app (a :: l) m).
    apply run_ext; auto. apply run_move_last; auto.
  Qed.

  (* congruences used to rewrite a part of a schedule *)
  Lemma run_cong_mid (p l l' q : list item) s :
    Forall wf q -> (forall s0, seq_eq (run l s0) (run l' s0)) ->
    seq_eq (run (p ++ l ++ q) s) (run (p ++ l' ++ q) s).
  Proof.
    intros Hq H. rewrite !run_app. apply run_ext; auto.
  Qed.
End GenericProofs.

(* =========================================================================================== *)
(* 2. Schedules on threads                                                                      *)
(* =========================================================================================== *)
(* an execution of per-thread queues: at each moment the head of any non-empty queue runs *)
Inductive Merge {A} : list (list A) -> list A -> Prop :=
| Merge_done qs : Forall (fun q => q = []) qs -> Merge qs []
| Merge_step qs1 a q qs2 l : Merge (qs1 ++ q :: qs2) l -> Merge (qs1 ++ (a :: q) :: qs2) (a :: l).

Lemma concat_all_nil {A} (qs : list (list A)) : Forall (fun q => q = []) qs -> concat qs = [].
Proof. induction 1 as [|q qs Hq Hqs IH]; cbn [concat]; subst; auto. Qed.

Lemma merge_perm {A} (qs : list (list A)) (l : list A) : Merge qs l -> Permutation (concat qs) l.
Proof.
  induction 1 as [qs H|qs1 a q qs2 l HM IH].
  - rewrite concat_all_nil; auto.
  - rewrite concat_app in *. cbn [concat] in *.
    eapply perm_trans; [|apply perm_skip; exact IH].
    rewrite <- app_comm_cons. symmetry. apply Permutation_middle.
Qed.

(* the sequential execution thread 0, then thread 1, ... is one of the executions *)
Lemma merge_concat {A} (qs : list (list A)) : Merge qs (concat qs).
Proof.
  induction qs as [|q qs IH]; cbn [concat].
  - constructor. constructor.
  - induction q as [|a q IHq]; cbn [app].
    + clear - IH. remember (concat qs) as l eqn:E. clear E. induction IH as [qs H|qs1 a q qs2 l HM IHM].
      * constructor. constructor; auto.
      * apply (Merge_step ([] :: qs1)). exact IHM.
    + apply (Merge_step [] a q qs). exact IHq.
Qed.

Lemma filter_perm_split {A} (f : A -> nat) (nt : nat) (l : list A) :
  (forall a, In a l -> f a < nt) ->
  Permutation (flat_map (fun t => filter (fun a => Nat.eqb (f a) t) l) (seq 0 nt)) l.
Proof.
  induction l as [|x l IH]; intros Hb.
  - cbn [filter]. clear. induction (seq 0 nt) as [|t r IHr]; cbn [flat_map app]; auto.
  - assert (Hx : f x < nt) by (apply Hb; left; auto).
    assert (IH' := IH (fun a Ha => Hb a (or_intror Ha))). clear IH Hb.
    (* split seq 0 nt at f x *)
    assert (Hs : seq 0 nt = seq 0 (f x) ++ f x :: seq (S (f x)) (nt - S (f x))).
    { replace nt with (f x + S (nt - S (f x))) at 1 by lia. rewrite seq_app. cbn [seq plus]. reflexivity. }
    rewrite Hs in *. rewrite flat_map_app in *. cbn [flat_map] in *.
    assert (Hlo : forall r, (forall t, In t r -> t <> f x) ->
       flat_map (fun t => filter (fun a => Nat.eqb (f a) t) (x :: l)) r = flat_map (fun t => filter (fun a => Nat.eqb (f a) t) l) r).
    { induction r as [|t r IHr]; intros Hr; cbn [flat_map]; auto.
      rewrite IHr by (intros; apply Hr; right; auto). f_equal. cbn [filter].
      destruct (Nat.eqb (f x) t) eqn:E; auto. apply Nat.eqb_eq in E. exfalso. apply (Hr t); [left|]; auto. }
    rewrite !Hlo.
    + cbn [filter]. rewrite Nat.eqb_refl.
      eapply perm_trans; [|apply perm_skip; exact IH'].
      rewrite <- app_comm_cons. symmetry. apply Permutation_middle.
    + intros t Ht. rewrite in_seq in Ht. lia.
    + intros t Ht. rewrite in_seq in Ht. lia.
Qed.

Lemma deal_perm {A} (nt : nat) (assign : nat -> nat) (l : list A) :
  (forall k, k < length l -> assign k < nt) -> Permutation (concat (deal nt assign l)) l.
Proof.
  intros Hb. unfold deal.
  rewrite <- flat_map_concat_map.
  set (cl := combine (seq 0 (length l)) l).
  assert (Hcl : map snd cl = l).
  { unfold cl. clear. generalize 0. induction l as [|a l IH]; intros n; cbn [length seq combine map]; auto. rewrite IH. auto. }
  assert (Hin : forall p, In p cl -> assign (fst p) < nt).
  { intros [k a] Hp. unfold cl in Hp. apply in_combine_l in Hp. rewrite in_seq in Hp. apply Hb. cbn [fst]. lia. }
  assert (HP := filter_perm_split (fun p : nat * A => assign (fst p)) nt cl Hin).
  apply (Permutation_map snd) in HP. rewrite Hcl in HP.
  eapply perm_trans; [|exact HP]. clear.
  induction (seq 0 nt) as [|t r IHr]; cbn [flat_map map]; auto.
  rewrite map_app. apply Permutation_app; auto.
Qed.

(* every execution of the threads runs every entry of the order exactly once *)
Lemma schedule_perm {A} (nt : nat) (assign : nat -> nat) (order l : list A) :
  (forall k, k < length order -> assign k < nt) -> Merge (deal nt assign order) l -> Permutation order l.
Proof.
  intros Hb HM. eapply perm_trans; [symmetry; apply deal_perm; eauto|]. apply merge_perm; auto.
Qed.

Lemma schedule_exactly_once (nt n : nat) (assign : nat -> nat) (order l : list nat) :
  Permutation order (seq 0 n) -> (forall k, k < n -> assign k < nt) -> Merge (deal nt assign order) l ->
  NoDup l /\ (forall i, In i l <-> i < n).
Proof.
  intros HP Hb HM.
  assert (Hlen : length order = n) by (rewrite (Permutation_length HP); apply seq_length).
  assert (HP' : Permutation l (seq 0 n)).
  { eapply perm_trans; [symmetry; eapply schedule_perm; eauto|]; auto. rewrite Hlen; auto. }
  split.
  - eapply Permutation_NoDup; [symmetry; exact HP'|]. apply seq_NoDup.
  - intros i. split; intros H.
    + apply (Permutation_in _ HP') in H. rewrite in_seq in H. lia.
    + apply (Permutation_in _ (Permutation_sym HP')). rewrite in_seq. lia.
Qed.

(* error codes: OR-accumulation does not depend on the order *)
Lemma fold_lor_acc (l : list Z) (a : Z) : fold_left Z.lor l a = Z.lor a (fold_left Z.lor l 0%Z).
Proof.
  revert a. induction l as [|x l IH]; intros a; cbn [fold_left].
  - rewrite Z.lor_0_r. reflexivity.
  - rewrite IH. rewrite (IH (Z.lor 0 x)). rewrite Z.lor_0_l. rewrite Z.lor_assoc. reflexivity.
Qed.

Lemma or_codes_perm (l l' : list Z) : Permutation l l' -> or_codes l = or_codes l'.
Proof.
  unfold or_codes. induction 1 as [|x l l' HP IH|x y l|l l' l'' HP1 IH1 HP2 IH2]; cbn [fold_left]; auto.
  - rewrite fold_lor_acc. rewrite (fold_lor_acc l'). rewrite IH. reflexivity.
  - rewrite !Z.lor_0_l. rewrite (Z.lor_comm y x). reflexivity.
  - congruence.
Qed.

Lemma or_codes_bit (l : list Z) (n : Z) : (forall c, In c l -> (0 <= c)%Z) ->
  Z.testbit (or_codes l) n = existsb (fun c => Z.testbit c n) l.
Proof.
  unfold or_codes. induction l as [|x l IH]; intros Hp; cbn [fold_left existsb].
  - apply Z.testbit_0_l.
  - rewrite fold_lor_acc. rewrite Z.lor_spec. rewrite Z.lor_0_l. rewrite IH; auto. intros c Hc. apply Hp. right; auto.
Qed.
