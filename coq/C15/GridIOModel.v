(* Model of the writers and readers of colvar_grid<T> (src/colvargrid_def.h, src/colvargrid.h):
     write_multicol / read_multicol / colvar_grid(filename, mult)      multicolumn form
     write_raw / read_raw                                              raw form (values in address order)
     get_state_params / parse_params / write_restart / read_restart    restart (state) form
     write_opendx (header)                                             OpenDX form
   as functions to and from lists of abstract tokens.  A number is a value of the carrier T: the
   formatting of numbers (setprecision, scientific/general notation) and its rounding are NOT modelled;
   the theorems assume that a number that is written is read back as the same value.
   Definitions only; proofs are in GridIOProofs.v.  Generic over the numeric carrier. *)
From Coq Require Import ZArith List Bool.
From CV Require Import Base.Num C15.GridModel.
Import ListNotations.
Local Open Scope Z_scope.

(* keywords of the restart form *)
Inductive gkey := KGridParams | KNColvars | KLower | KUpper | KWidths | KSizes.
Definition gkey_eqb (a b : gkey) : bool :=
  match a, b with
  | KGridParams, KGridParams | KNColvars, KNColvars | KLower, KLower
  | KUpper, KUpper | KWidths, KWidths | KSizes, KSizes => true
  | _, _ => false
  end.

(* what the streams contain: numbers, integers, "#", end of line, keywords, braces, anything else *)
Inductive tok (T : Type) : Type :=
| TNum (x : T) | TInt (n : Z) | THash | TNl | TKey (k : gkey) | TOpen | TClose | TBad.
Arguments TNum {T}. Arguments TInt {T}. Arguments THash {T}. Arguments TNl {T}.
Arguments TKey {T}. Arguments TOpen {T}. Arguments TClose {T}. Arguments TBad {T}.

(* colvar_grid_params + mult, periodic, data of colvar_grid<T> (nd = nx.size(), nt = data.size()) *)
Record grid (T : Type) := mkGrid {
  gr_mult : Z; gr_nx : list Z; gr_lower : list T; gr_upper : list T; gr_width : list T;
  gr_per : list bool; gr_data : list T }.
Arguments mkGrid {T}. Arguments gr_mult {T}. Arguments gr_nx {T}. Arguments gr_lower {T}.
Arguments gr_upper {T}. Arguments gr_width {T}. Arguments gr_per {T}. Arguments gr_data {T}.

Definition set_data {T} (g : grid T) (d : list T) : grid T :=
  mkGrid (gr_mult g) (gr_nx g) (gr_lower g) (gr_upper g) (gr_width g) (gr_per g) d.

(* ---- the loop  for (ix = new_index(); index_ok(ix); incr(ix))  ---- *)
Definition new_index (nx : list Z) : list Z := map (fun _ => 0) nx.
Fixpoint walk (fuel : nat) (nx ix : list Z) : list (list Z) :=
  match fuel with
  | O => []
  | S f => if index_ok nx ix then ix :: walk f nx (incr nx ix) else []
  end.
(* number of grid points; the loop leaves by index_ok after exactly that many iterations
   (walk_fuel_irrelevant in GridIOProofs.v), so this fuel is not a bound that is ever hit first *)
Definition npoints (nx : list Z) : nat := Z.to_nat (ntot 1 nx).
Definition all_indices (nx : list Z) : list (list Z) := walk (npoints nx) nx (new_index nx).

Definition slice {A} (l : list A) (a n : nat) : list A := firstn n (skipn a l).
Definition b2z (b : bool) : Z := if b then 1 else 0.

Section IO.
  Context {T : Type} (O : NumOps T).
  Notation tk := (tok T).

  (* operator>> skips white space, including the ends of lines *)
  Definition is_nl (t : tk) : bool := match t with TNl => true | _ => false end.
  Definition strip (l : list tk) : list tk := filter (fun t => negb (is_nl t)) l.

  (* is >> (real) accepts an integer as well; is >> (int) accepts integers only *)
  Definition tok_num (t : tk) : option T :=
    match t with TNum x => Some x | TInt n => Some (nofZ O n) | _ => None end.
  Definition tok_int (t : tk) : option Z := match t with TInt n => Some n | _ => None end.

  Fixpoint take_nums (n : nat) (s : list tk) : option (list T * list tk) :=
    match n with
    | 0%nat => Some ([], s)
    | S n' => match s with
              | [] => None
              | t :: r => match tok_num t with
                          | None => None
                          | Some x => match take_nums n' r with
                                      | Some (xs, r') => Some (x :: xs, r')
                                      | None => None
                                      end
                          end
              end
    end.
  Fixpoint take_ints (n : nat) (s : list tk) : option (list Z * list tk) :=
    match n with
    | 0%nat => Some ([], s)
    | S n' => match s with
              | [] => None
              | t :: r => match tok_int t with
                          | None => None
                          | Some x => match take_ints n' r with
                                      | Some (xs, r') => Some (x :: xs, r')
                                      | None => None
                                      end
                          end
              end
    end.

  Definition gmult (g : grid T) : nat := Z.to_nat (gr_mult g).
  Definition gnd (g : grid T) : nat := length (gr_nx g).
  Definition gaddr (g : grid T) (ix : list Z) : nat := Z.to_nat (address (gr_mult g) (gr_nx g) ix).
  (* value_output(ix, 0..mult-1) of the plain grid (no sample-count grid attached) *)
  Definition point_values (g : grid T) (ix : list Z) : list T := slice (gr_data g) (gaddr g ix) (gmult g).

  (* ------------------------------------------------------------------ raw form *)
  (* write_raw(os, buf_size): every value, a line end after every buf_size values and after the
     last one when the last line is not full *)
  Fixpoint wrap_lines (buf count : nat) (vs : list T) : list tk :=
    match vs with
    | [] => if Nat.eqb (Nat.modulo count buf) 0 then [] else [TNl]
    | v :: r => TNum v :: (if Nat.eqb (Nat.modulo (S count) buf) 0 then [TNl] else []) ++ wrap_lines buf (S count) r
    end.
  Definition raw_values (g : grid T) : list T := flat_map (point_values g) (all_indices (gr_nx g)).
  Definition write_raw (buf : nat) (g : grid T) : list tk := wrap_lines buf 0 (raw_values g).

  (* value_input(ix, v, imult, add) for imult = 0.. : data[address(ix)+imult] (+)= v *)
  Definition comb (add : bool) (old v : T) : T := if add then nadd O old v else v.
  Fixpoint set_values (add : bool) (data : list T) (a : nat) (vs : list T) : list T :=
    match vs with
    | [] => data
    | v :: r => set_values add (upd data a (fun old => comb add old v)) (S a) r
    end.

  (* the reading loops over the grid points: per point [skip] numbers are read and dropped (the bin
     centres of the multicolumn form), then mult values are read and entered.  Any failed extraction
     leaves the stream in the failed state: None *)
  Fixpoint read_points (skip mult : nat) (add : bool) (mz : Z) (nx : list Z) (ixs : list (list Z))
           (s : list tk) (data : list T) : option (list T * list tk) :=
    match ixs with
    | [] => Some (data, s)
    | ix :: r =>
      match take_nums skip s with
      | None => None
      | Some (_, s1) =>
        match take_nums mult s1 with
        | None => None
        | Some (vs, s2) =>
          read_points skip mult add mz nx r s2 (set_values add data (Z.to_nat (address mz nx ix)) vs)
        end
      end
    end.

  (* read_raw on a stream whose line ends have been skipped *)
  Definition read_raw_s (g : grid T) (s : list tk) : option (grid T * list tk) :=
    match read_points 0 (gmult g) false (gr_mult g) (gr_nx g) (all_indices (gr_nx g)) s (gr_data g) with
    | Some (d, r) => Some (set_data g d, r)
    | None => None
    end.
  Definition read_raw (g : grid T) (toks : list tk) : option (grid T * list tk) := read_raw_s g (strip toks).

  (* unformatted (cvm::memory_stream) raw form: the values themselves, in the same order, no separators; an
     extraction fails when fewer bytes than one value remain.  The stream is modelled as a list of values *)
  Definition write_raw_bin (g : grid T) : list tk := map TNum (raw_values g).
  Definition read_raw_bin (g : grid T) (s : list tk) : option (grid T * list tk) := read_raw_s g s.

  (* grids attached to a sample-count grid (colvar_grid_gradient / colvar_grid_scalar with `samples`):
     value_output(ix, imult) = data / count(ix) when count(ix) > 0, else 0;
     value_input(ix, v, imult, add = false) = v * count(ix).  [m] values per point, one count per point. *)
  Definition out_norm (c v : T) : T := if nltb O (n0 O) c then ndiv O v c else n0 O.
  Definition in_norm (c v : T) : T := nmul O v c.
  Fixpoint scale_chunks (f : T -> T -> T) (m : nat) (counts data : list T) : list T :=
    match counts with
    | [] => []
    | c :: cs => map (f c) (firstn m data) ++ scale_chunks f m cs (skipn m data)
    end.
  Definition normalise (m : nat) (counts data : list T) : list T := scale_chunks out_norm m counts data.
  Definition denormalise (m : nat) (counts data : list T) : list T := scale_chunks in_norm m counts data.

  (* ------------------------------------------------------------------ multicolumn form *)
  Fixpoint header_lines (lower width : list T) (nx : list Z) (per : list bool) : list tk :=
    match lower, width, nx, per with
    | l :: ls, w :: ws, n :: ns, p :: ps =>
        THash :: TNum l :: TNum w :: TInt n :: TInt (b2z p) :: TNl :: header_lines ls ws ns ps
    | _, _, _, _ => []
    end.
  Fixpoint bin_centers (lower width : list T) (ix : list Z) : list T :=
    match lower, width, ix with
    | l :: ls, w :: ws, i :: is_ => bin_to_value O l w i :: bin_centers ls ws is_
    | _, _, _ => []
    end.
  (* one row per grid point; an empty line before the row when the last index is 0 *)
  Definition multicol_row (g : grid T) (ix : list Z) : list tk :=
    (if last ix 1 =? 0 then [TNl] else []) ++
    map TNum (bin_centers (gr_lower g) (gr_width g) ix) ++ map TNum (point_values g ix) ++ [TNl].
  Definition write_multicol (g : grid T) : list tk :=
    THash :: TInt (Z.of_nat (gnd g)) :: TNl ::
    header_lines (gr_lower g) (gr_width g) (gr_nx g) (gr_per g) ++
    flat_map (multicol_row g) (all_indices (gr_nx g)).

  Definition tol10 : T := ndiv O (n1 O) (nofZ O 10000000000).

  (* "# lower width nx periodic" per dimension *)
  Fixpoint read_header (nd : nat) (s : list tk) : option (list (T * T * Z * Z) * list tk) :=
    match nd with
    | 0%nat => Some ([], s)
    | S n =>
      match s with
      | THash :: a :: b :: TInt nxr :: TInt pf :: r =>
        match tok_num a, tok_num b with
        | Some l, Some w =>
          match read_header n r with
          | Some (h, r') => Some ((l, w, nxr, pf) :: h, r')
          | None => None
          end
        | _, _ => None
        end
      | _ => None
      end
    end.

  (* fabs(lower - lower_boundaries[i]) > 1e-10 || fabs(width - widths[i]) > 1e-10 || nx_read[i] != nx[i] *)
  Fixpoint need_remap (h : list (T * T * Z * Z)) (lower width : list T) (nx : list Z) : bool :=
    match h, lower, width, nx with
    | (l, w, n, _) :: hs, l0 :: ls, w0 :: ws, n0 :: ns =>
        nltb O tol10 (nabs O (nsub O l l0)) || nltb O tol10 (nabs O (nsub O w w0)) || negb (n =? n0)
        || need_remap hs ls ws ns
    | _, _, _, _ => false
    end.

  (* the re-gridding loop  while (is.good()) { read nd coordinates or stop; read mult values; enter them
     in the bin of the receiving grid (periodic dimensions wrapped) when that bin exists }.
     The loop can only end by failing to read a further record: at the end of the stream that is the normal end
     (the stream state is cleared); anything else where a record should begin, or a record that is not complete,
     leaves the stream in the failed state: None. *)
  Fixpoint remap_rows (fuel : nat) (add : bool) (g : grid T) (s : list tk) (data : list T)
    : option (list T * list tk) :=
    match fuel with
    | 0%nat => Some (data, s)
    | S f =>
      match take_nums (gnd g) s with
      | None => match s with [] => Some (data, []) | _ :: _ => None end
      | Some (xs, s1) =>
        match take_nums (gmult g) s1 with
        | None => None
        | Some (vs, s2) =>
          let ix := wrap_index (gr_per g) (gr_nx g) (bins O (gr_lower g) (gr_width g) xs) in
          remap_rows f add g s2
            (if index_ok (gr_nx g) ix then set_values add data (gaddr g ix) vs else data)
        end
      end
    end.

  Definition read_multicol_s (add : bool) (g : grid T) (s : list tk) : option (grid T * list tk) :=
    match s with
    | THash :: TInt n :: s1 =>
      if (n =? Z.of_nat (gnd g)) && (0 <? n) then
        match read_header (gnd g) s1 with
        | None => None
        | Some (h, s2) =>
          match (if need_remap h (gr_lower g) (gr_width g) (gr_nx g)
                 then remap_rows (S (length s2)) add g s2 (gr_data g)
                 else read_points (gnd g) (gmult g) add (gr_mult g) (gr_nx g) (all_indices (gr_nx g)) s2 (gr_data g)) with
          | Some (d, r) => Some (set_data g d, r)
          | None => None
          end
        end
      else None
    | _ => None
    end.
  Definition read_multicol (add : bool) (g : grid T) (toks : list tk) : option (grid T * list tk) :=
    read_multicol_s add g (strip toks).

  (* the multicolumn form of a grid normalised by its count grid: what is written is data/count, what is read
     (add = false) is multiplied by the counts the receiving grid has at that moment *)
  Definition write_multicol_norm (counts : list T) (g : grid T) : list tk :=
    write_multicol (set_data g (normalise (gmult g) counts (gr_data g))).
  Definition read_multicol_norm (counts : list T) (g : grid T) (toks : list tk) : option (grid T * list tk) :=
    match read_multicol false g toks with
    | Some (g', r) => Some (set_data g' (denormalise (gmult g) counts (gr_data g')), r)
    | None => None
    end.

  Definition zeros (n : nat) : list T := repeat (n0 O) n.

  (* colvar_grid(filename, mult_i): sizes, lower boundaries, widths and periodicity flags are taken
     from the header (upper_boundaries stays empty), mult = nd when mult_i = 0; then the whole file is
     read by read_multicol *)
  Definition grid_from_multicol (mult_i : Z) (toks : list tk) : option (grid T * list tk) :=
    match strip toks with
    | THash :: TInt n :: s1 =>
      if 0 <? n then
        match read_header (Z.to_nat n) s1 with
        | None => None
        | Some (h, _) =>
          let nx := map (fun e => snd (fst e)) h in
          let mult := if mult_i =? 0 then n else mult_i in
          if forallb (fun k => 0 <? k) nx && (0 <? mult) then
            read_multicol false
              (mkGrid mult nx (map (fun e => fst (fst (fst e))) h) [] (map (fun e => snd (fst (fst e))) h)
                      (map (fun e => negb (snd e =? 0)) h) (zeros (Z.to_nat (ntot mult nx)))) toks
          else None
        end
      else None
    | _ => None
    end.

  (* ------------------------------------------------------------------ restart (state) form *)
  Definition get_state_params (g : grid T) : list tk :=
    [TKey KNColvars; TInt (Z.of_nat (gnd g)); TNl] ++
    TKey KLower :: map TNum (gr_lower g) ++ [TNl] ++
    TKey KUpper :: map TNum (gr_upper g) ++ [TNl] ++
    TKey KWidths :: map TNum (gr_width g) ++ [TNl] ++
    TKey KSizes :: map TInt (gr_nx g) ++ [TNl].

  Definition write_restart (g : grid T) : list tk :=
    TKey KGridParams :: TOpen :: TNl :: get_state_params g ++ [TClose; TNl] ++ write_raw 3 g.

  (* colvarparse::read_block("grid_parameters"): keyword, "{", everything up to the closing "}" *)
  Fixpoint skip_nl (s : list tk) : list tk := match s with TNl :: r => skip_nl r | _ => s end.
  Fixpoint until_close (s : list tk) : option (list tk * list tk) :=
    match s with
    | [] => None
    | TClose :: r => Some ([], r)
    | TOpen :: _ => None
    | t :: r => match until_close r with Some (b, r') => Some (t :: b, r') | None => None end
    end.
  Definition read_block (s : list tk) : option (list tk * list tk) :=
    match skip_nl s with
    | TKey KGridParams :: r => match skip_nl r with TOpen :: r2 => until_close r2 | _ => None end
    | _ => None
    end.

  (* colvarparse::get_keyval inside the block: the value of a keyword is the rest of its line *)
  Fixpoint line_rest (s : list tk) : list tk :=
    match s with [] => [] | TNl :: _ => [] | t :: r => t :: line_rest r end.
  Fixpoint lookup (k : gkey) (s : list tk) : option (list tk) :=
    match s with
    | [] => None
    | TKey k' :: r => if gkey_eqb k k' then Some (line_rest r) else lookup k r
    | _ :: r => lookup k r
    end.
  (* vector keyword whose current value has n entries: absent -> the current value is kept; present ->
     exactly n numbers must make up the rest of the line: fewer, more, or anything else is an error *)
  Definition get_vec (k : gkey) (conf : list tk) (cur : list T) : option (list T) :=
    match lookup k conf with
    | None => Some cur
    | Some [] => None
    | Some vals => match take_nums (length cur) vals with Some (xs, []) => Some xs | _ => None end
    end.
  Definition get_ints (k : gkey) (conf : list tk) (cur : list Z) : option (list Z) :=
    match lookup k conf with
    | None => Some cur
    | Some [] => None
    | Some vals => match take_ints (length cur) vals with Some (xs, []) => Some xs | _ => None end
    end.

  (* what the grid asks its colvars: period (0 = not periodic) and width of a scalar variable *)
  Record cvinfo := mkCv { cv_period : T; cv_width : T }.
  (* sqrt(colvar::dist2(a, b)) = |a - b| reduced to the nearest image (cvc::dist2) *)
  Definition cv_dist (c : cvinfo) (a b : T) : T :=
    let d := nsub O a b in
    nabs O (if nltb O (n0 O) (cv_period c)
            then nsub O d (nmul O (nofZ O (nfloor O (nadd O (ndiv O d (cv_period c)) (nhalf O)))) (cv_period c))
            else d).
  (* colvar::periodic_boundaries(lb, ub) *)
  Definition cv_periodic_boundaries (c : cvinfo) (lb ub : T) : bool :=
    nltb O (n0 O) (cv_period c) && nltb O (ndiv O (cv_dist c lb ub) (cv_width c)) tol10.

  (* one dimension of init_from_boundaries: periodicity, number of bins (int)(nbins + 0.5), upper boundary
     snapped when the interval is not a whole number of bins *)
  Definition init_dim (c : cvinfo) (l u w : T) : Z * T * bool :=
    let nb := ndiv O (nsub O u l) w in
    let nbr := nfloor O (nadd O nb (nhalf O)) in
    (nbr,
     if nltb O tol10 (nabs O (nsub O nb (nofZ O nbr))) then nadd O l (nmul O (nofZ O nbr) w) else u,
     cv_periodic_boundaries c l u).
  Fixpoint init_bounds (cvs : list cvinfo) (lower upper width : list T) : list (Z * T * bool) :=
    match cvs, lower, upper, width with
    | c :: cs, l :: ls, u :: us, w :: ws => init_dim c l u w :: init_bounds cs ls us ws
    | _, _, _, _ => []
    end.

  (* old_nx[i] != nx[i] || dist(old_lb, lb) > eps || dist(old_ub, ub) > eps || |old_w - w| > eps *)
  Definition dim_changed (c : cvinfo) (on n : Z) (ol l ou u ow w : T) : bool :=
    negb (on =? n) || nltb O tol10 (cv_dist c ol l) || nltb O tol10 (cv_dist c ou u)
    || nltb O tol10 (nabs O (nsub O ow w)).
  Fixpoint params_changed (cvs : list cvinfo) (old new : list (Z * T * T * T)) : bool :=
    match cvs, old, new with
    | c :: cs, (on, ol, ou, ow) :: os, (n, l, u, w) :: ns =>
        dim_changed c on n ol l ou u ow w || params_changed cs os ns
    | _, _, _ => false
    end.
  Fixpoint zip4 (nx : list Z) (l u w : list T) : list (Z * T * T * T) :=
    match nx, l, u, w with
    | n :: ns, a :: ls, b :: us, c :: ws => (n, a, b, c) :: zip4 ns ls us ws
    | _, _, _, _ => []
    end.

  (* parse_params(conf, parse_restart) on a grid built from colvars (state-file keywords) *)
  Definition parse_params (cvs : list cvinfo) (g : grid T) (conf : list tk) : option (grid T) :=
    match (match lookup KNColvars conf with
           | None => Some (Z.of_nat (gnd g))
           | Some [TInt n] => Some n
           | Some _ => None
           end) with
    | None => None
    | Some nd_in =>
      if negb (nd_in =? Z.of_nat (gnd g)) then None else
      match get_vec KLower conf (gr_lower g), get_vec KUpper conf (gr_upper g),
            get_vec KWidths conf (gr_width g), get_ints KSizes conf (gr_nx g) with
      | Some lower, Some upper, Some width, Some nx =>
        let new_params :=
            match gr_nx g with
            | [] => true
            | _ => params_changed cvs (zip4 (gr_nx g) (gr_lower g) (gr_upper g) (gr_width g))
                                  (zip4 nx lower upper width)
            end in
        if new_params then
          let ib := init_bounds cvs lower upper width in
          let nx' := map (fun e => fst (fst e)) ib in
          if forallb (fun k => 0 <? k) nx' then
            Some (mkGrid (gr_mult g) nx' lower (map (fun e => snd (fst e)) ib) width (map snd ib)
                         (zeros (Z.to_nat (ntot (gr_mult g) nx'))))
          else None
        else Some (mkGrid (gr_mult g) nx lower upper width (gr_per g) (gr_data g))
      | _, _, _, _ => None
      end
    end.

  Definition read_restart (cvs : list cvinfo) (g : grid T) (toks : list tk) : option (grid T * list tk) :=
    match read_block toks with
    | None => None
    | Some (conf, rest) =>
      match parse_params cvs g conf with
      | None => None
      | Some g1 => read_raw g1 rest
      end
    end.

  (* ------------------------------------------------------------------ decimal formatting of numbers *)
  (* What operator<< followed by operator>> does to a number at [p] significant digits (setprecision(p-1) in
     scientific notation, setprecision(p) in the default notation): x is replaced by the nearest multiple of
     10^(e-p+1), where 10^e <= |x| < 10^(e+1).  (Ties: the C library rounds them to even, this model upwards;
     both are nearest values.)  The exponent is found by comparison with powers of ten, on explicit fuel. *)
  Fixpoint p10 (n : nat) : T := match n with 0%nat => n1 O | S k => nmul O (nofZ O 10) (p10 k) end.
  Definition scale10 (e : Z) (x : T) : T :=
    match e with
    | Z0 => x
    | Zpos q => nmul O x (p10 (Pos.to_nat q))
    | Zneg q => ndiv O x (p10 (Pos.to_nat q))
    end.
  Fixpoint exp_up (fuel : nat) (e : Z) (a : T) : Z :=
    match fuel with
    | 0%nat => e
    | S f => if nleb O (scale10 (e + 1) (n1 O)) a then exp_up f (e + 1) a else e
    end.
  Fixpoint exp_down (fuel : nat) (e : Z) (a : T) : Z :=
    match fuel with
    | 0%nat => e
    | S f => if nltb O a (scale10 e (n1 O)) then exp_down f (e - 1) a else e
    end.
  Definition dec_exp (fuel : nat) (a : T) : Z :=
    if nleb O (n1 O) a then exp_up fuel 0 a else exp_down fuel 0 a.
  Definition round_at (k : Z) (x : T) : T :=
    scale10 (- k) (nofZ O (nfloor O (nadd O (scale10 k x) (nhalf O)))).
  Definition dec_round (p fuel : nat) (x : T) : T :=
    if neqb O x (n0 O) then x else round_at (Z.of_nat p - 1 - dec_exp fuel (nabs O x)) x.
  (* a written stream as it is read back: every number rounded to p digits *)
  Definition fmt_tok (p fuel : nat) (t : tk) : tk := match t with TNum x => TNum (dec_round p fuel x) | _ => t end.
  Definition fmt_toks (p fuel : nat) (s : list tk) : list tk := map (fmt_tok p fuel) s.

  (* ------------------------------------------------------------------ OpenDX header *)
  (* counts, origin (centre of the first bin), one delta line per variable *)
  Fixpoint dx_origin (lower width : list T) : list T :=
    match lower, width with
    | l :: ls, w :: ws => nadd O l (nmul O (nhalf O) w) :: dx_origin ls ws
    | _, _ => []
    end.
  Definition dx_delta (width : list T) : list (list T) :=
    map (fun i => map (fun j => if Nat.eqb i j then nth i width (n0 O) else n0 O) (seq 0 (length width)))
        (seq 0 (length width)).
End IO.
