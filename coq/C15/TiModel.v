(* Model of the thermodynamic-integration sample accumulator of biases (colvarbias_ti::update_system_forces,
   src/colvarbias.cpp): grids ti_count (samples per bin) and ti_avg_forces (sum of system forces per bin, nd values per
   bin), and the bin vector ti_bin that says where the next force sample belongs.  Definitions only. *)
From Coq Require Import ZArith List Bool.
From CV Require Import Base.Num C15.GridModel C15.GridIOModel.
Import ListNotations.
Local Open Scope Z_scope.

Section TI.
  Context {T : Type} (O : NumOps T).

  (* one engine step as seen by the bias: step_relative, simulation_continuing, the values of the variables, the system
     forces on them as delivered at this step (total force minus what is subtracted) *)
  Record ti_in := mkTiIn { ti_rel : Z; ti_cont : bool; ti_x : list T; ti_f : list T }.
  Record ti_state := mkTiState { ts_bin : list Z; ts_count : list T; ts_force : list T }.

  (* colvarbias::can_accumulate_data *)
  Definition ti_can (c : hist_cfg (T := T)) (i : ti_in) : bool :=
    ((0 <? ti_rel i) && negb (ti_cont i)) || h_step_zero_data c.

  (* colvar_grid_gradient::acc_value(ix, forces): data[address + imult] += forces[imult]; samples->incr_count(ix) *)
  Definition ti_acc (c : hist_cfg (T := T)) (st : ti_state) (bin : list Z) (f : list T) : ti_state :=
    let a := Z.to_nat (address 1 (h_nx c) bin) in
    mkTiState (ts_bin st) (upd (ts_count st) a (fun v => nadd O v (n1 O)))
              (set_values O true (ts_force st) (a * length (h_nx c)) f).

  (* update_system_forces.  [same_step] = proxy->total_forces_same_step() (every variable then has
     f_cv_total_force_current_step): the force delivered now belongs to the values of now, ti_bin is set first; otherwise the
     force belongs to the values of the previous step, whose bin was saved in ti_bin at the end of that step -- and the
     current bin is saved at the end of this step WHETHER OR NOT a sample was collected. *)
  Definition ti_step (same_step : bool) (c : hist_cfg (T := T)) (st : ti_state) (i : ti_in) : ti_state :=
    let b := bins O (h_lower c) (h_width c) (ti_x i) in
    let sb := if same_step then b else ts_bin st in
    let st1 := if ((0 <? ti_rel i) || same_step) && index_ok (h_nx c) sb && ti_can c i
               then ti_acc c st sb (ti_f i) else st in
    mkTiState b (ts_count st1) (ts_force st1).

  Definition ti_init (c : hist_cfg (T := T)) : ti_state :=
    mkTiState (map (fun _ => -1) (h_nx c))
              (repeat (n0 O) (Z.to_nat (ntot 1 (h_nx c))))
              (repeat (n0 O) (Z.to_nat (ntot 1 (h_nx c)) * length (h_nx c))).
  Definition ti_run (same_step : bool) (c : hist_cfg (T := T)) (st : ti_state) (h : list ti_in) : ti_state :=
    fold_left (ti_step same_step c) h st.

  (* specification: the bin each collected sample belongs to -- the bin of the values of the step the force belongs to *)
  Definition ti_elig (same_step : bool) (c : hist_cfg (T := T)) (i : ti_in) : bool :=
    ((0 <? ti_rel i) || same_step) && ti_can c i.
  Fixpoint ti_samples (same_step : bool) (c : hist_cfg (T := T)) (prev : list Z) (h : list ti_in) : list (list Z * list T) :=
    match h with
    | [] => []
    | i :: r =>
        let b := bins O (h_lower c) (h_width c) (ti_x i) in
        (if ti_elig same_step c i then [(if same_step then b else prev, ti_f i)] else []) ++ ti_samples same_step c b r
    end.
End TI.
