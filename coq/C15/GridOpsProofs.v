(* Lemmas about GridOpsModel.v *)
From Coq Require Import ZArith List Bool Reals Lra Lia Psatz Arith.
From Flocq Require Import Core.Raux.
From CV Require Import Base.Num Base.RNum C15.GridModel C15.GridProofs C15.GridIOModel C15.GridIOProofs C15.GridOpsModel.
Import ListNotations.

Section OpsR.
  Local Open Scope R_scope.

  (* value_to_bin_scalar_bound: always a bin of the grid; the bin of the value when the value is inside; the first /
     last bin for values below / above a non-periodic grid.  (In a periodic dimension `%=` keeps the sign of a
     negative index, which is then clamped to 0, not wrapped to the last bins.) *)
  Lemma rem_wrap_mod (i n : Z) : (0 < n)%Z -> (let r := Z.rem i n in if (r <? 0)%Z then (r + n)%Z else r) = (i mod n)%Z.
  Proof.
    intros Hn. cbv zeta.
    destruct (Z_le_gt_dec 0 i) as [Hi|Hi].
    - rewrite Z.rem_mod_nonneg by lia. pose proof (Z.mod_pos_bound i n Hn). destruct (Z.ltb_spec (i mod n) 0); lia.
    - pose proof (Z.rem_opp_l i n ltac:(lia)) as Ho.
      assert (He : Z.rem i n = (- Z.rem (- i) n)%Z) by lia.
      rewrite He, Z.rem_mod_nonneg by lia.
      pose proof (Z.mod_pos_bound (- i) n Hn) as Hm.
      destruct (Z.eq_dec ((- i) mod n) 0) as [Hz|Hnz].
      + rewrite Hz. cbn. pose proof (Z_mod_zero_opp_full (- i) n Hz) as Hop. replace (- - i)%Z with i in Hop by lia. lia.
      + destruct (Z.ltb_spec (- ((- i) mod n)) 0); [|lia].
        pose proof (Z_mod_nz_opp_full (- i) n Hnz) as Hop. replace (- - i)%Z with i in Hop by lia. lia.
  Qed.

  (* periodic dimension: the bounded bin is the bin that contains the value modulo the period *)
  Lemma bin_bound_periodic (l w x : R) (n : Z) : 0 < w -> (0 < n)%Z ->
    value_to_bin_bound Rops true l w n x = (value_to_bin Rops l w x mod n)%Z /\
    exists k : Z, l + IZR (value_to_bin_bound Rops true l w n x) * w <= x - IZR k * (IZR n * w)
                  < l + (IZR (value_to_bin_bound Rops true l w n x) + 1) * w.
  Proof.
    intros Hw Hn. unfold value_to_bin_bound. set (i := value_to_bin Rops l w x).
    rewrite rem_wrap_mod by auto. pose proof (Z.mod_pos_bound i n Hn) as Hm.
    assert (Hc : (if (i mod n <? 0)%Z then 0%Z else if (i mod n >=? n)%Z then (n - 1)%Z else (i mod n)%Z) = (i mod n)%Z).
    { destruct (Z.ltb_spec (i mod n) 0); [lia|]. destruct (Z.geb_spec (i mod n) n); lia. }
    rewrite Hc. split; [reflexivity|]. exists (i / n)%Z.
    assert (Hdiv : (i = n * (i / n) + i mod n)%Z) by (apply Z.div_mod; lia).
    assert (Hb : value_to_bin Rops l w x = i) by reflexivity. apply bin_unique in Hb; auto.
    assert (Hia : IZR i = IZR n * IZR (i / n) + IZR (i mod n)).
    { rewrite <- mult_IZR, <- plus_IZR. f_equal. exact Hdiv. }
    rewrite Hia in Hb. nra.
  Qed.

  Lemma bin_bound_spec (p : bool) (l w x : R) (n : Z) : 0 < w -> (0 < n)%Z ->
    (0 <= value_to_bin_bound Rops p l w n x < n)%Z /\
    (l <= x < l + IZR n * w -> value_to_bin_bound Rops p l w n x = value_to_bin Rops l w x) /\
    (p = false -> x < l -> value_to_bin_bound Rops p l w n x = 0%Z) /\
    (p = false -> l + IZR n * w <= x -> value_to_bin_bound Rops p l w n x = (n - 1)%Z).
  Proof.
    intros Hw Hn. destruct (outside_no_bin l w x n Hw) as (Hlo & Hhi & Hin).
    destruct p.
    - destruct (bin_bound_periodic l w x n Hw Hn) as [Hp _]. rewrite Hp.
      pose proof (Z.mod_pos_bound (value_to_bin Rops l w x) n Hn).
      split; [lia|]. split; [intros Hx; apply Z.mod_small; apply Hin; exact Hx|]. split; intros; discriminate.
    - unfold value_to_bin_bound. set (i := value_to_bin Rops l w x) in *.
      split; [|split; [|split]].
      + destruct (Z.ltb_spec i 0); [lia|]. destruct (Z.geb_spec i n); lia.
      + intros Hx. specialize (Hin Hx). destruct (Z.ltb_spec i 0); [lia|]. destruct (Z.geb_spec i n); lia.
      + intros _ Hx. specialize (Hlo Hx). destruct (Z.ltb_spec i 0); lia.
      + intros _ Hx. specialize (Hhi Hx). destruct (Z.ltb_spec i 0); [lia|]. destruct (Z.geb_spec i n); lia.
  Qed.

  (* value_to_bin_scalar_fraction: the position of the value inside its bin *)
  Lemma bin_fraction_spec (l w x : R) : 0 < w ->
    0 <= bin_fraction Rops l w x < 1 /\
    x = l + (IZR (value_to_bin Rops l w x) + bin_fraction Rops l w x) * w.
  Proof.
    intros Hw. unfold bin_fraction, value_to_bin; cbn.
    set (y := (x - l) / w). pose proof (Zfloor_lb y). pose proof (Zfloor_ub y).
    split; [lra|]. replace (IZR (Zfloor y) + (y - IZR (Zfloor y))) with y by ring.
    unfold y. field. lra.
  Qed.

  (* the centre of bin i of a grid lies in bin i of any grid with the same lower boundary and width *)
  Lemma bin_of_centre (l w : R) (i : Z) : 0 < w -> value_to_bin Rops l w (bin_to_value Rops l w i) = i.
  Proof.
    intros Hw. apply bin_unique; auto. unfold bin_to_value, nhalf; cbn. nra.
  Qed.

  Lemma bins_of_centres : forall (lower width : list R) (ix : list Z),
    Forall (fun w => 0 < w) width -> length lower = length ix -> length width = length ix ->
    bins Rops lower width (bin_centers Rops lower width ix) = ix.
  Proof.
    induction lower as [|l ls IH]; intros [|w ws] [|i is_] Hw H1 H2; try discriminate; [reflexivity|].
    inversion Hw; subst. cbn [bin_centers bins]. rewrite bin_of_centre by auto. f_equal. apply IH; auto; cbn in *; lia.
  Qed.
End OpsR.

(* wrap_to_edge: the edge bin is always a bin of the grid *)
Lemma wrap_to_edge_in_range : forall per nx ix, all_pos nx -> length per = length nx -> length ix = length nx ->
  let '(r, e, edge) := wrap_to_edge per nx ix in
  in_range nx e /\ (edge = false -> r = e) /\ length r = length nx.
Proof.
  induction per as [|p ps IH]; intros [|n ns] [|i is_] Hp H1 H2; try discriminate.
  - cbn. repeat split; constructor.
  - inversion Hp as [|? ? Hn Hps]; subst. cbn [wrap_to_edge].
    specialize (IH ns is_ Hps ltac:(cbn in *; lia) ltac:(cbn in *; lia)).
    destruct (wrap_to_edge ps ns is_) as [[r e] edge]. destruct IH as (A & B & C).
    destruct p.
    + rewrite rem_rem_mod by lia. pose proof (Z.mod_pos_bound i n ltac:(lia)).
      repeat split; [constructor; auto | intros He; rewrite (B He); reflexivity | cbn; lia].
    + destruct (Z.ltb_spec i 0); [repeat split; [constructor; auto; lia | discriminate | cbn; lia]|].
      destruct (Z.geb_spec i n); [repeat split; [constructor; auto; lia | discriminate | cbn; lia]|].
      repeat split; [constructor; auto; lia | intros He; rewrite (B He); reflexivity | cbn; lia].
Qed.

(* map_grid as the reading loop over the points without a stream *)
Section MapGrid.
  Context {T : Type} (O : NumOps T).

  Lemma map_points_ext m mz nx (f g : list Z -> option (list T)) : forall ixs data,
    (forall ix, In ix ixs -> f ix = g ix) -> map_points O m mz nx ixs f data = map_points O m mz nx ixs g data.
  Proof.
    induction ixs as [|ix r IH]; intros data H; [reflexivity|]. cbn [map_points].
    rewrite (H ix (or_introl eq_refl)). apply IH. intros ix' Hin. apply H. right. exact Hin.
  Qed.

  Lemma map_points_as_read m mz nx (src : list T) : forall ixs data,
    (forall ix, In ix ixs -> (Z.to_nat (address mz nx ix) + m <= length src)%nat) ->
    read_points O 0 m false mz nx ixs
      (flat_map (fun ix => map TNum (@nil T) ++ map TNum (slice src (Z.to_nat (address mz nx ix)) m)) ixs) data
    = Some (map_points O m mz nx ixs (fun ix => Some (slice src (Z.to_nat (address mz nx ix)) m)) data, []).
  Proof.
    induction ixs as [|ix r IH]; intros data H; [reflexivity|].
    cbn [flat_map read_points map_points take_nums app map].
    assert (Hl : length (slice src (Z.to_nat (address mz nx ix)) m) = m) by (apply slice_length; apply H; left; reflexivity).
    rewrite <- Hl at 1. rewrite take_nums_app. apply IH. intros ix' Hin. apply H. right. exact Hin.
  Qed.
End MapGrid.

Section MapGridR.
  Local Open Scope R_scope.
  (* a grid mapped onto a grid of the same geometry is copied: a file or state that has been re-gridded onto the
     geometry it already had is unchanged *)
  Lemma map_grid_same_geometry (this other : grid R) :
    grid_wf this -> grid_wf other -> geom_wf this -> same_geom this other -> Forall (fun w => 0 < w) (gr_width this) ->
    map_grid Rops this other = gr_data other.
  Proof.
    intros Hwf Hwfo (G1 & G2 & G3) ((Hsm & Hsn) & Hsl & Hsw) Hw.
    pose proof (wf_data_length this Hwf) as Hl. pose proof (wf_data_length other Hwfo) as Hlo.
    pose proof Hwf as (Hm & Hp & Hne & _).
    destruct (all_indices_spec (gr_nx this) Hp Hne) as [_ Hall]. rewrite Forall_forall in Hall.
    assert (Hlen : length (all_indices (gr_nx this)) = npoints (gr_nx this)) by (apply all_indices_length; auto).
    unfold map_grid.
    (* every point's source is the slice of the other grid at the same address *)
    rewrite (map_points_ext Rops (gmult this) (gr_mult this) (gr_nx this) _
              (fun ix => Some (slice (gr_data other) (Z.to_nat (address (gr_mult this) (gr_nx this) ix)) (gmult this)))).
    2:{ intros ix Hin. cbv zeta.
        assert (Hr : in_range (gr_nx this) ix) by (apply Hall, Hin).
        pose proof (in_range_length _ _ Hr) as Hix.
        rewrite <- Hsl, <- Hsw, bins_of_centres by (auto; unfold gnd in *; lia).
        rewrite <- Hsn. rewrite (proj2 (index_ok_iff _ _) Hr). unfold gaddr. rewrite <- Hsm, <- Hsn. reflexivity. }
    assert (Hb : forall ix, In ix (all_indices (gr_nx this)) ->
              (Z.to_nat (address (gr_mult this) (gr_nx this) ix) + gmult this <= length (gr_data other))%nat).
    { intros ix Hin. pose proof (address_bounds (gr_mult this) (gr_nx this) ix Hm Hp (Hall ix Hin)) as Hab.
      destruct Hwfo as (_ & _ & _ & Hdl). rewrite Hdl, <- Hsm, <- Hsn. unfold gmult. lia. }
    pose proof (map_points_as_read Rops (gmult this) (gr_mult this) (gr_nx this) (gr_data other)
                  (all_indices (gr_nx this)) (gr_data this) Hb) as Hread.
    assert (A1 : map (fun ix => Z.to_nat (address (gr_mult this) (gr_nx this) ix)) (all_indices (gr_nx this))
                 = arange 0 (gmult this) (length (all_indices (gr_nx this)))).
    { rewrite Hlen. apply all_addresses; auto. }
    assert (Hls : length (gr_data this) = length (gr_data other)).
    { rewrite Hl, Hlo. unfold gmult. rewrite <- Hsm, <- Hsn. reflexivity. }
    assert (A2 : (0 + length (all_indices (gr_nx this)) * gmult this <= length (gr_data other))%nat).
    { rewrite Hlen, <- Hls, Hl. lia. }
    destruct (read_points_ok Rops 0 (gmult this) false (gr_mult this) (gr_nx this) (gr_data other) (gr_data this) (fun _ => [])
                (all_indices (gr_nx this)) 0%nat (gr_data this) [] A1 Hls Hls A2 ltac:(intros; reflexivity)
                ltac:(intros j Hj; lia) ltac:(intros; reflexivity)) as (data' & H1 & H2 & H3 & _).
    rewrite app_nil_r in H1. rewrite Hread in H1. injection H1 as H1. rewrite H1.
    apply (nth_eq_lists data' (gr_data other) 0); auto.
    intros j Hj. rewrite H3; [reflexivity|]. rewrite Hlen, <- Hls, Hl in *. lia.
  Qed.

  (* add_extra_bin: a grid of n bins becomes a grid of n + 1 points (non-periodic) / n points (periodic) whose bin
     centres are the edges of the original bins *)
  Lemma extra_bin_sizes (c : cvinfo (T := R)) (p : bool) (l w : R) (n : Z) : (0 < n)%Z -> 0 < w ->
    let '(l', u') := extra_bin_dim Rops p l (l + IZR n * w) w in
    fst (fst (init_dim Rops c l' u' w)) = (if p then n else n + 1)%Z /\
    bin_to_value Rops l' w 0 = l.
  Proof.
    intros Hn Hw. unfold extra_bin_dim. cbn [nhalf].
    set (l' := nsub Rops l (nmul Rops (nhalf Rops) w)).
    assert (Hl' : l' = l - w / 2) by (unfold l', nhalf; cbn; lra).
    split.
    - destruct p.
      + replace (nsub Rops (l + IZR n * w) (nmul Rops (nhalf Rops) w)) with (l' + IZR n * w)
          by (rewrite Hl'; unfold nhalf; cbn; lra).
        rewrite init_dim_consistent by auto. reflexivity.
      + replace (nadd Rops (l + IZR n * w) (nmul Rops (nhalf Rops) w)) with (l' + IZR (n + 1) * w)
          by (rewrite Hl', plus_IZR; unfold nhalf; cbn; lra).
        rewrite init_dim_consistent by (auto; lia). reflexivity.
    - rewrite Hl'. unfold bin_to_value, nhalf; cbn. lra.
  Qed.
End MapGridR.

(* bin_distance_from_boundaries: never above the running minimum, and non-negative exactly when every value of a
   non-periodic dimension lies between its boundaries *)
Section BinDistance.
  Local Open Scope R_scope.

  Lemma signed_bins_lower (x l w : R) : 0 < w -> signed_bins Rops (nltb Rops x l) x l w = (x - l) / w.
  Proof.
    intros Hw. unfold signed_bins. rewrite nabs_R. cbn. unfold Rltb. destruct (Rlt_dec x l).
    - rewrite Rabs_left by lra. field. lra.
    - rewrite Rabs_right by lra. reflexivity.
  Qed.
  Lemma signed_bins_upper (x u w : R) : 0 < w -> signed_bins Rops (nltb Rops u x) x u w = (u - x) / w.
  Proof.
    intros Hw. unfold signed_bins. rewrite nabs_R. cbn. unfold Rltb. destruct (Rlt_dec u x).
    - rewrite Rabs_right by lra. field. lra.
    - rewrite Rabs_left1 by lra. field. lra.
  Qed.

  Fixpoint all_inside (per : list bool) (lower upper x : list R) : Prop :=
    match per, lower, upper, x with
    | p :: ps, l :: ls, u :: us, xi :: xs => (p = false -> l <= xi <= u) /\ all_inside ps ls us xs
    | _, _, _, _ => True
    end.

  Lemma bin_distance_sign : forall per lower upper w x acc,
    Forall (fun wi => 0 < wi) w -> length lower = length per -> length upper = length per -> length w = length per ->
    length x = length per ->
    (0 <= bin_distance Rops per lower upper w x acc <-> 0 <= acc /\ all_inside per lower upper x).
  Proof.
    induction per as [|p ps IH]; intros [|l ls] [|u us] [|wi ws] [|xi xs] acc Hw H1 H2 H3 H4; try discriminate.
    - cbn. tauto.
    - inversion Hw as [|? ? Hwi Hws]; subst. cbn [bin_distance all_inside]. cbn [length] in *.
      destruct p.
      + rewrite IH by (auto; lia). split; intros [A B]; (split; [exact A|]); [split; [discriminate | exact B] | apply B].
      + rewrite signed_bins_lower, signed_bins_upper by auto.
        rewrite IH by (auto; lia). cbn. unfold Rltb.
        assert (E1 : 0 <= (xi - l) / wi <-> l <= xi).
        { split; intros H.
          - apply Rmult_le_compat_r with (r := wi) in H; [|lra]. unfold Rdiv in H. rewrite Rmult_assoc, Rinv_l in H by lra. lra.
          - apply Rmult_le_pos; [lra | left; apply Rinv_0_lt_compat; lra]. }
        assert (E2 : 0 <= (u - xi) / wi <-> xi <= u).
        { split; intros H.
          - apply Rmult_le_compat_r with (r := wi) in H; [|lra]. unfold Rdiv in H. rewrite Rmult_assoc, Rinv_l in H by lra. lra.
          - apply Rmult_le_pos; [lra | left; apply Rinv_0_lt_compat; lra]. }
        destruct (Rlt_dec ((xi - l) / wi) acc) as [Ha|Ha];
          [destruct (Rlt_dec ((u - xi) / wi) ((xi - l) / wi)) as [Hb|Hb] | destruct (Rlt_dec ((u - xi) / wi) acc) as [Hb|Hb]];
          split; intros [A B]; repeat split; auto; try tauto; try lra;
          try (intros _; split; [apply E1 | apply E2]; lra);
          try (destruct B as [B1 B2]; specialize (B1 eq_refl); destruct B1 as [B11 B12]; apply E1 in B11; apply E2 in B12; lra);
          try (destruct B as [B1 B2]; exact B2).
  Qed.
End BinDistance.
