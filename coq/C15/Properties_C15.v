(* C15: every sample lands in exactly one grid bin; grid files round-trip
   (statements only; proofs in GridProofs.v and GridIOProofs.v). *)
From Coq Require Import ZArith List Bool Reals Lia Lra.
From CV Require Import Base.Num Base.RNum C15.GridModel C15.GridProofs C15.GridIOModel C15.GridIOProofs C15.GridOpsModel C15.GridOpsProofs.
Import ListNotations.

(* The bin index computed by value_to_bin_scalar is the unique i with
   lower + i*w <= x < lower + (i+1)*w : the bins partition the line. *)
Theorem C15_bin_unique : forall (l w x : R) (i : Z), (0 < w)%R ->
  (value_to_bin Rops l w x = i <-> (l + IZR i * w <= x < l + (IZR i + 1) * w)%R).
Proof. exact bin_unique. Qed.
Print Assumptions C15_bin_unique.

Theorem C15_exactly_one_bin : forall (l w x : R), (0 < w)%R ->
  exists! i : Z, (l + IZR i * w <= x < l + (IZR i + 1) * w)%R.
Proof. exact bin_exists_unique. Qed.
Print Assumptions C15_exactly_one_bin.

(* index_ok accepts exactly the index vectors with 0 <= i_k < nx_k in every dimension. *)
Theorem C15_index_ok_iff : forall nx ix, index_ok nx ix = true <-> Forall2 (fun i n => (0 <= i < n)%Z) ix nx.
Proof. exact index_ok_iff. Qed.
Print Assumptions C15_index_ok_iff.

(* address is a bijection between in-range index vectors and the multiples of mult in [0, nt). *)
Theorem C15_address_bijective : forall mult nx, (0 < mult)%Z -> all_pos nx ->
  (forall ix, in_range nx ix -> (0 <= address mult nx ix <= ntot mult nx - mult)%Z) /\
  (forall ix jx, in_range nx ix -> in_range nx jx -> address mult nx ix = address mult nx jx -> ix = jx) /\
  (forall k, (0 <= k)%Z -> (k * mult < ntot mult nx)%Z ->
     exists ix, in_range nx ix /\ address mult nx ix = (k * mult)%Z).
Proof.
  intros mult nx Hm Hp. split; [|split].
  - intros ix H. apply address_bounds; auto.
  - intros ix jx. apply address_injective; auto.
  - intros k. apply address_surjective; auto.
Qed.
Print Assumptions C15_address_bijective.

(* incr visits the in-range index vectors in address order and leaves the range exactly after the last. *)
Theorem C15_incr_walks_in_address_order : forall mult nx ix, (0 < mult)%Z -> all_pos nx -> in_range nx ix -> nx <> [] ->
  (index_ok nx (incr nx ix) = true /\ address mult nx (incr nx ix) = (address mult nx ix + mult)%Z)
  \/ (index_ok nx (incr nx ix) = false /\ address mult nx ix = (ntot mult nx - mult)%Z).
Proof. exact incr_spec. Qed.
Print Assumptions C15_incr_walks_in_address_order.

(* After any history, each array element holds exactly the total weight of the eligible
   samples whose bin vector is in range and has that address (eligible = can_accumulate_data, for scalar
   variables (vm = false: one sample of weight 1 per step) and for gathered vector variables (vm = true: one
   sample per component, with its configured weight) alike). *)
Theorem C15_hist_element_is_sample_sum : forall (c : hist_cfg) (vm : bool) (h : list hist_in) (a : nat),
  all_pos (h_nx c) ->
  nth a (hist_run Rops vm c h) 0%R = lsum (map (weight_at c a) (eligible_samples c vm h)).
Proof. intros c vm h a Hp. apply hist_run_nth; auto. Qed.
Print Assumptions C15_hist_element_is_sample_sum.

Theorem C15_count_conservation : forall (c : hist_cfg) (vm : bool) (h : list hist_in),
  all_pos (h_nx c) ->
  lsum (hist_run Rops vm c h) = lsum (map (weight_in c) (eligible_samples c vm h)).
Proof. intros c vm h Hp. apply hist_total; auto. Qed.
Print Assumptions C15_count_conservation.

(* The variable's own wrapping returns the equivalent value in [c - P/2, c + P/2) ... *)
Theorem C15_wrap_range : forall c P x : R, (0 < P)%R ->
  (c - P / 2 <= wrap Rops true c P x < c + P / 2)%R /\ exists n : Z, wrap Rops true c P x = (x - IZR n * P)%R.
Proof. intros c P x HP. split; [apply wrap_range; auto | apply wrap_equiv]. Qed.
Print Assumptions C15_wrap_range.

(* ... so on a grid that spans the period every value of a periodic variable has an in-range bin *)
Theorem C15_periodic_wrap_then_bin : forall (c P x : R) (nx : Z) (w : R),
  (0 < P)%R -> (0 < nx)%Z -> (w * IZR nx = P)%R ->
  (0 <= value_to_bin Rops (c - P / 2)%R w (wrap Rops true c P x) < nx)%Z.
Proof. exact periodic_in_range. Qed.
Print Assumptions C15_periodic_wrap_then_bin.

(* Re-mapping branch of read_multicol (a file written on one grid read into another).  One periodic
   dimension: every value is wrapped to the in-range bin that contains it modulo the period (any number of
   periods away; before the fix of wrap_detect_edge this held only down to one period below the grid). *)
Theorem C15_remap_periodic_target : forall (l w x : R) (n : Z), (0 < w)%R -> (0 < n)%Z ->
  let i := value_to_bin Rops l w x in
  let a := (i mod n)%Z in
  remap_target Rops (mkGeom [l] [w] [n] [true]) [x] = Some a /\ (0 <= a < n)%Z /\
  exists k : Z, (l + IZR a * w <= x - IZR k * (IZR n * w) < l + (IZR a + 1) * w)%R.
Proof. exact remap_target_1d_periodic. Qed.
Print Assumptions C15_remap_periodic_target.

(* Nothing is lost when distinct records land in distinct receiving bins: after the read every record
   that has a target bin is found in it (all shapes, all geometries). *)
Theorem C15_remap_lossless : forall (g : grid_geom) (recs : list (list R * R)) (rc : list R * R) (a : Z),
  all_pos (g_nx g) -> NoDup (targets g recs) -> In rc recs -> remap_target Rops g (fst rc) = Some a ->
  nth (Z.to_nat a) (remap Rops g recs) 0%R = snd rc.
Proof.
  intros g recs rc a Hp Hnd Hin Ht. unfold remap.
  apply (remap_lossless g Hp recs _ rc a); auto. apply repeat_length.
Qed.
Print Assumptions C15_remap_lossless.

(* non-vacuity: a 3x4 grid, an in-range index and the last index *)
Example C15_example_addresses :
  all_pos [3; 4]%Z /\ in_range [3; 4]%Z [2; 3]%Z /\ address 1 [3; 4]%Z [2; 3]%Z = 11%Z /\
  incr [3; 4]%Z [1; 3]%Z = [2; 0]%Z /\ index_ok [3; 4]%Z (incr [3; 4]%Z [2; 3]%Z) = false.
Proof. repeat split; try (repeat constructor; lia); vm_compute; reflexivity. Qed.

(* Gathered vector variables (gatherVectorColvars, weights): at every step the iv-th components of the variables
   form the iv-th sample, with weight weights[iv]; the histogram holds, element by element and in total, the
   weights of the samples taken at eligible steps (can_accumulate_data) whose bin vector is in range. *)
Theorem C15_gathered_vector_histogram : forall (c : hist_cfg (T := R)) (weights : list R)
    (steps : list (Z * bool * list (list R))) (a : nat),
  all_pos (h_nx c) ->
  let h := map (fun st => mkHistIn (fst (fst st)) (snd (fst st)) (gather Rops (snd st) weights)) steps in
  (forall vars iv, (iv < length weights)%nat ->
     nth iv (gather Rops vars weights) ([], 0%R) = (map (fun v => nth iv v 0%R) vars, nth iv weights 0%R)) /\
  nth a (hist_run Rops true c h) 0%R = lsum (map (weight_at c a) (eligible_samples c true h)) /\
  lsum (hist_run Rops true c h) = lsum (map (weight_in c) (eligible_samples c true h)).
Proof. exact gathered_vector_histogram. Qed.
Print Assumptions C15_gathered_vector_histogram.

(* A component outside [lower, lower + n*w) has a bin index outside [0, n) -- in particular a value in the open strip
   (lower - w, lower) has index -1, not 0 -- and a sample (scalar, or one element of gathered vector variables, binned
   by the same function) with a component outside the grid changes nothing and carries no weight into any bin. *)
Theorem C15_outside_the_grid_no_bin : forall (l w x : R) (n : Z), (0 < w)%R ->
  ((x < l)%R -> (value_to_bin Rops l w x < 0)%Z) /\
  ((l + IZR n * w <= x)%R -> (n <= value_to_bin Rops l w x)%Z) /\
  ((l <= x < l + IZR n * w)%R -> (0 <= value_to_bin Rops l w x < n)%Z).
Proof. exact outside_no_bin. Qed.
Print Assumptions C15_outside_the_grid_no_bin.

Theorem C15_out_of_grid_sample_ignored : forall (c : hist_cfg (T := R)) (data : list R) (s : list R * R),
  index_ok (h_nx c) (bins Rops (h_lower c) (h_width c) (fst s)) = false ->
  acc_sample Rops c data s = data /\ weight_in c s = 0%R /\ forall a, weight_at c a s = 0%R.
Proof. exact out_of_grid_sample_ignored. Qed.
Print Assumptions C15_out_of_grid_sample_ignored.

(* ===================== second half: grid files (model in GridIOModel.v) =====================
   Grids are written to / read from lists of abstract tokens; a number is a value of the carrier (the
   decimal formatting of numbers and its rounding are outside the model: the theorems say that the
   *structure* of the three forms loses nothing). *)

(* The loop `for (ix = new_index(); index_ok(ix); incr(ix))` that every writer and reader uses visits every
   grid point exactly once, in address order: write order = incr order = address order; and the loop is
   left by index_ok, never by the model's fuel. *)
Theorem C15_write_order_is_address_order : forall mult nx, (0 < mult)%Z -> all_pos nx -> nx <> [] ->
  map (fun ix => Z.to_nat (address mult nx ix)) (all_indices nx) = arange 0 (Z.to_nat mult) (npoints nx) /\
  Forall (in_range nx) (all_indices nx) /\
  forall extra, walk (npoints nx + extra) nx (new_index nx) = all_indices nx.
Proof. exact write_order_is_address_order. Qed.
Print Assumptions C15_write_order_is_address_order.

(* Raw form (every carrier, every shape, multiplicity >= 1, every line length): the written stream is the
   data array in address order, and reading it into any grid of the same shape gives back exactly the data. *)
Theorem C15_roundtrip_raw : forall (T : Type) (O : NumOps T) (buf : nat) (g g0 : grid T) (rest : list (tok T)),
  grid_wf g -> grid_wf g0 -> same_shape g0 g ->
  strip (write_raw buf g) = map TNum (gr_data g) /\
  read_raw O g0 (write_raw buf g ++ rest) = Some (set_data g0 (gr_data g), strip rest).
Proof. exact raw_roundtrip_full. Qed.
Print Assumptions C15_roundtrip_raw.

(* Short data are rejected: if fewer numbers than grid elements can be read (the stream ends, or something
   that is not a number comes first) read_raw fails; it never returns a partially filled grid. *)
Theorem C15_raw_short_data_rejected : forall (T : Type) (O : NumOps T) (g : grid T) (toks : list (tok T)),
  grid_wf g -> (lead O (strip toks) < length (gr_data g))%nat -> read_raw O g toks = None.
Proof. exact (@raw_short_rejected). Qed.
Print Assumptions C15_raw_short_data_rejected.

(* Multicolumn form: read_multicol of a written file into a grid of the same geometry takes the
   same-grid path and gives back exactly the data (add = false) or adds them element by element (add = true). *)
Theorem C15_roundtrip_multicol : forall (g g0 : grid R),
  grid_wf g -> geom_wf g -> grid_wf g0 -> same_geom g0 g ->
  read_multicol Rops false g0 (write_multicol Rops g) = Some (set_data g0 (gr_data g), []).
Proof. exact multicol_roundtrip. Qed.
Print Assumptions C15_roundtrip_multicol.

Theorem C15_multicol_add : forall (g g0 : grid R),
  grid_wf g -> geom_wf g -> grid_wf g0 -> same_geom g0 g ->
  exists data', read_multicol Rops true g0 (write_multicol Rops g) = Some (set_data g0 data', []) /\
    length data' = length (gr_data g) /\
    forall j, (j < length (gr_data g))%nat -> nth j data' 0%R = (nth j (gr_data g0) 0 + nth j (gr_data g) 0)%R.
Proof. exact multicol_add. Qed.
Print Assumptions C15_multicol_add.

(* The constructor from a multicolumn file: sizes, lower boundaries, widths, periodicity flags and data are
   those of the written grid.  (The upper boundaries are not in the file; the constructor leaves that vector
   empty -- they are lower + nx*width.) *)
Theorem C15_roundtrip_multicol_file : forall (g : grid R), grid_wf g -> geom_wf g ->
  grid_from_multicol Rops (gr_mult g) (write_multicol Rops g) =
  Some (mkGrid (gr_mult g) (gr_nx g) (gr_lower g) [] (gr_width g) (gr_per g) (gr_data g), []).
Proof. exact multicol_file_roundtrip. Qed.
Print Assumptions C15_roundtrip_multicol_file.

(* A truncated multicolumn file (any strict prefix of the token stream) is rejected. *)
Theorem C15_multicol_truncated_rejected : forall (add : bool) (g g0 : grid R) (n : nat),
  grid_wf g -> geom_wf g -> grid_wf g0 -> same_geom g0 g ->
  (n < length (strip (write_multicol Rops g)))%nat ->
  read_multicol_s Rops add g0 (firstn n (strip (write_multicol Rops g))) = None.
Proof. exact multicol_truncated_rejected. Qed.
Print Assumptions C15_multicol_truncated_rejected.

(* The re-gridding loop of read_multicol (file written on another grid), multiplicity 1, overwrite: it is the
   record-by-record re-mapping `remap_record` of the first half, to which C15_remap_periodic_target and
   C15_remap_lossless apply (every carrier; the loop ends where no further coordinates can be read). *)
Theorem C15_regrid_is_remap : forall (T : Type) (O : NumOps T) (g : grid T), gr_mult g = 1%Z -> (0 < gnd g)%nat ->
  forall (recs : list (list T * T)) (data : list T) (fuel : nat),
  Forall (fun rc => length (fst rc) = gnd g) recs -> (length recs < fuel)%nat ->
  remap_rows O fuel false g (flat_map record_toks recs) data
  = Some (fold_left (remap_record O (geom_of g)) recs data, []).
Proof. exact (@remap_rows_is_fold). Qed.
Print Assumptions C15_regrid_is_remap.

(* Restart (state) form: grid_parameters { n_colvars lower_boundaries upper_boundaries widths sizes } + raw data.
   Reading what was written gives back the grid -- sizes, boundaries, widths, periodicity flags, data --
   whatever the current sizes, boundaries, widths and data of the receiving grid are (a grid of the same
   variables and multiplicity): both when the parameters in the state agree with the current definition
   (array kept) and when they do not (array re-allocated from the boundaries; expanded grids). *)
Theorem C15_roundtrip_state : forall (cvs : list (cvinfo (T := R))) (g g0 : grid R) (rest : list (tok R)),
  grid_wf g -> grid_consistent cvs g ->
  grid_wf g0 -> gr_mult g0 = gr_mult g -> gnd g0 = gnd g ->
  length (gr_lower g0) = gnd g -> length (gr_upper g0) = gnd g -> length (gr_width g0) = gnd g ->
  gr_per g0 = gr_per g ->
  read_restart Rops cvs g0 (write_restart g ++ rest) = Some (g, strip rest).
Proof. exact state_roundtrip. Qed.
Print Assumptions C15_roundtrip_state.

(* Malformed restart data are rejected (every carrier): a block that is never closed, fewer boundaries than variables,
   fewer values than the grid (as defined by the parameters just read) has elements. *)
Theorem C15_state_malformed_rejected : forall (T : Type) (O : NumOps T) (cvs : list (cvinfo (T := T))) (g0 : grid T),
  (forall toks, ~ In TClose toks -> read_restart O cvs g0 toks = None) /\
  (forall conf vals, lookup KLower conf = Some vals -> (lead O vals < length (gr_lower g0))%nat ->
     parse_params O cvs g0 conf = None) /\
  (forall toks conf s g1, read_block toks = Some (conf, s) -> parse_params O cvs g0 conf = Some g1 ->
     grid_wf g1 -> (lead O (strip s) < length (gr_data g1))%nat -> read_restart O cvs g0 toks = None).
Proof. exact state_malformed_rejected. Qed.
Print Assumptions C15_state_malformed_rejected.

(* OpenDX header: the origin is the centre of the first bin, origin + k*delta the centre of bin k. *)
Theorem C15_opendx_origin : forall (lower width : list R) (nx : list Z),
  length lower = length nx -> length width = length nx ->
  dx_origin Rops lower width = bin_centers Rops lower width (new_index nx) /\
  forall l w k, (nadd Rops l (nmul Rops (nhalf Rops) w) + IZR k * w = bin_to_value Rops l w k)%R.
Proof. exact opendx_origin. Qed.
Print Assumptions C15_opendx_origin.

(* non-vacuity: a 2x3 gradient grid (mult 2) on one periodic and one non-periodic variable satisfies every
   premise above, and the three forms really are different streams *)
Definition ex_cvs : list (cvinfo (T := R)) := [mkCv 6 1; mkCv 0 1]%R.
Definition ex_grid : grid R :=
  mkGrid 2 [2; 3]%Z [-3; 1]%R [-3 + IZR 2 * 3; 1 + IZR 3 * (1/2)]%R [3; 1/2]%R
         [cv_periodic_boundaries Rops (mkCv 6 1) (-3) (-3 + IZR 2 * 3); cv_periodic_boundaries Rops (mkCv 0 1) 1 (1 + IZR 3 * (1/2))]%R
         [1; 2; 3; 4; 5; 6; 7; 8; 9; 10; 11; 12]%R.
Example C15_example_grid_premises :
  grid_wf ex_grid /\ geom_wf ex_grid /\ grid_consistent ex_cvs ex_grid /\
  all_indices (gr_nx ex_grid) = [[0;0];[0;1];[0;2];[1;0];[1;1];[1;2]]%Z /\
  length (strip (write_multicol Rops ex_grid)) = 36%nat /\ length (write_raw 3 ex_grid) = 16%nat.
Proof.
  split; [|split; [|split; [|split; [|split]]]].
  - repeat split; try (repeat constructor; lia); discriminate.
  - repeat split.
  - unfold grid_consistent, ex_grid, ex_cvs; cbn [gr_nx gr_lower gr_upper gr_width gr_per].
    repeat (constructor; try lia; try lra; try reflexivity).
  - reflexivity.
  - reflexivity.
  - reflexivity.
Qed.

(* non-vacuity of the rejection theorems and of the "same shape / same geometry" premises: a stream that ends
   after one number, a block that is never closed, a lower_boundaries line with one value for two variables, a
   strict prefix of the written multicolumn stream.  (That read_block and parse_params succeed on a written
   restart stream -- the premises of the third clause of C15_state_malformed_rejected -- is what
   C15_roundtrip_state proves on its way.) *)
Example C15_example_rejection_premises :
  same_shape ex_grid ex_grid /\ same_geom ex_grid ex_grid /\
  (lead Rops (strip [TNum 1%R; TNl; TBad]) < length (gr_data ex_grid))%nat /\
  ~ In TClose [TKey KGridParams; @TOpen R; TNl; TKey KNColvars; TInt 2%Z] /\
  lookup KLower [TKey KNColvars; TInt 2%Z; TNl; TKey KLower; TNum 1%R; TNl] = Some [TNum 1%R] /\
  (lead Rops [TNum 1%R] < length (gr_lower ex_grid))%nat /\
  (20 < length (strip (write_multicol Rops ex_grid)))%nat.
Proof.
  split; [split; reflexivity|]. split; [repeat split; reflexivity|].
  split; [cbn; lia|]. split; [intros [H|[H|[H|[H|[H|[]]]]]]; discriminate|].
  split; [reflexivity|]. split; [cbn; lia|].
  replace (length (strip (write_multicol Rops ex_grid))) with 36%nat by (symmetry; apply C15_example_grid_premises). lia.
Qed.

(* non-vacuity of C15_regrid_is_remap: one record read into a 1-D periodic grid of four bins *)
Example C15_example_regrid :
  let g := mkGrid 1%Z [4%Z] [0%R] [4%R] [1%R] [true] [0; 0; 0; 0]%R in
  gr_mult g = 1%Z /\ (0 < gnd g)%nat /\ Forall (fun rc : list R * R => length (fst rc) = gnd g) [([5 / 2], 7)]%R /\
  (length [([5 / 2], 7)]%R < 2)%nat.
Proof. cbn. repeat split; try lia. repeat constructor. Qed.

(* ===================== round 3: numbers, unformatted form, count-normalised grids =====================
   Decimal formatting.  A number written with p significant digits and read back is the nearest multiple of
   10^(e-p+1) (10^e <= |x|): |read(write x) - x| <= 1/2 * 10^(1-p) * |x| (p = 15 for setprecision(14) in scientific
   notation: multicolumn files and raw data in a state; p = 14 for the boundaries and widths of the restart form).
   So the formatted forms return the same numbers up to that bound, exactly only for numbers with at most p digits. *)
Theorem C15_decimal_roundtrip_error : forall (p fuel : nat) (x : R),
  (powerRZ 10 (- Z.of_nat fuel) <= Rabs x \/ x = 0)%R ->
  (Rabs (dec_round Rops p fuel x - x) <= / 2 * powerRZ 10 (1 - Z.of_nat p) * Rabs x)%R.
Proof. exact dec_round_err. Qed.
Print Assumptions C15_decimal_roundtrip_error.

(* the raw form with every number formatted at p digits: each element comes back as its rounded value, in its
   own place; nothing else changes *)
Theorem C15_roundtrip_raw_formatted : forall (p fuel buf : nat) (g g0 : grid R),
  grid_wf g -> grid_wf g0 -> same_shape g0 g ->
  read_raw Rops g0 (fmt_toks Rops p fuel (write_raw buf g))
  = Some (set_data g0 (map (dec_round Rops p fuel) (gr_data g)), []).
Proof. exact raw_formatted_roundtrip. Qed.
Print Assumptions C15_roundtrip_raw_formatted.

(* The unformatted form (cvm::memory_stream write_raw/read_raw) is exact for every carrier: the stream is the data
   array, reading it back gives the same values, and a stream that is too short is rejected.  No assumption about
   numbers is involved: this is the form for which the round trip is bit-exact. *)
Theorem C15_roundtrip_raw_binary : forall (T : Type) (O : NumOps T) (g g0 : grid T) (rest : list (tok T)),
  grid_wf g -> grid_wf g0 -> same_shape g0 g ->
  write_raw_bin g = map TNum (gr_data g) /\
  read_raw_bin O g0 (write_raw_bin g ++ rest) = Some (set_data g0 (gr_data g), rest) /\
  (forall s, (lead O s < length (gr_data g0))%nat -> read_raw_bin O g0 s = None).
Proof. exact raw_bin_roundtrip. Qed.
Print Assumptions C15_roundtrip_raw_binary.

(* Grids normalised by a sample-count grid (gradients / averages with `samples`): data/count is written and the
   value read is multiplied by the count.  The data come back exactly where every bin without samples holds zero
   (the invariant of the accumulators); a bin with data but no samples comes back as zero. *)
Theorem C15_roundtrip_multicol_normalised : forall (counts : list R) (g g0 : grid R),
  grid_wf g -> geom_wf g -> grid_wf g0 -> same_geom g0 g ->
  Forall (fun c => (0 <= c)%R) counts -> length counts = npoints (gr_nx g) ->
  zero_where_unsampled (gmult g) counts (gr_data g) ->
  read_multicol_norm Rops counts g0 (write_multicol_norm Rops counts g) = Some (set_data g0 (gr_data g), []).
Proof. exact multicol_norm_roundtrip. Qed.
Print Assumptions C15_roundtrip_multicol_normalised.

Theorem C15_normalised_unsampled_data_lost : forall v : R, v <> 0%R ->
  denormalise Rops 1 [0%R] (normalise Rops 1 [0%R] [v]) = [0%R] /\ [0%R] <> [v].
Proof. exact denorm_norm_unsampled. Qed.
Print Assumptions C15_normalised_unsampled_data_lost.

Example C15_example_round3_premises :
  (powerRZ 10 (- Z.of_nat 0) <= Rabs 1)%R /\
  zero_where_unsampled 2 [0; 3; 0; 1; 2; 5]%R [0; 0; 3; 4; 0; 0; 7; 8; 9; 10; 11; 12]%R /\
  Forall (fun c => (0 <= c)%R) [0; 3; 0; 1; 2; 5]%R.
Proof.
  split; [|split].
  - rewrite Rabs_R1. cbn. lra.
  - cbn. repeat split; intros; try lra; repeat constructor.
  - repeat constructor; lra.
Qed.

(* non-vacuity: a value in the strip one bin wide below the grid [1, 3) of width 1/2 *)
Example C15_example_strip : (0 < 1 / 2)%R /\ (3 / 4 < 1)%R /\
  index_ok [4%Z] (bins Rops [1%R] [(1 / 2)%R] [(3 / 4)%R]) = false.
Proof.
  split; [lra|]. split; [lra|]. cbn [bins index_ok].
  assert (H : value_to_bin Rops 1%R (1 / 2)%R (3 / 4)%R = (-1)%Z) by (apply bin_unique; [lra | cbn; lra]).
  rewrite H. reflexivity.
Qed.

(* ===================== round 4: the remaining value->bin and grid->grid entry points (GridOpsModel.v) =====================
   value_to_bin_scalar_bound (current_bin_flat_bound, local_sample_count): always a bin of the grid, the bin of the value
   when the value is inside, the first / last bin below / above a non-periodic grid. *)
Theorem C15_bin_bound_clamps : forall (p : bool) (l w x : R) (n : Z), (0 < w)%R -> (0 < n)%Z ->
  (0 <= value_to_bin_bound Rops p l w n x < n)%Z /\
  ((l <= x < l + IZR n * w)%R -> value_to_bin_bound Rops p l w n x = value_to_bin Rops l w x) /\
  (p = false -> (x < l)%R -> value_to_bin_bound Rops p l w n x = 0%Z) /\
  (p = false -> (l + IZR n * w <= x)%R -> value_to_bin_bound Rops p l w n x = (n - 1)%Z).
Proof. exact bin_bound_spec. Qed.
Print Assumptions C15_bin_bound_clamps.

(* ... and in a periodic dimension it is the bin that contains the value modulo the period (any number of periods away) *)
Theorem C15_bin_bound_periodic_wraps : forall (l w x : R) (n : Z), (0 < w)%R -> (0 < n)%Z ->
  value_to_bin_bound Rops true l w n x = (value_to_bin Rops l w x mod n)%Z /\
  exists k : Z, (l + IZR (value_to_bin_bound Rops true l w n x) * w <= x - IZR k * (IZR n * w)
                 < l + (IZR (value_to_bin_bound Rops true l w n x) + 1) * w)%R.
Proof. exact bin_bound_periodic. Qed.
Print Assumptions C15_bin_bound_periodic_wraps.

(* value_to_bin_scalar_fraction: the position inside the bin, x = lower + (bin + fraction) * width *)
Theorem C15_bin_fraction : forall (l w x : R), (0 < w)%R ->
  (0 <= bin_fraction Rops l w x < 1)%R /\
  x = (l + (IZR (value_to_bin Rops l w x) + bin_fraction Rops l w x) * w)%R.
Proof. exact bin_fraction_spec. Qed.
Print Assumptions C15_bin_fraction.

(* wrap_to_edge: the edge bin is a bin of the grid, and is the wrapped index itself when no edge was crossed *)
Theorem C15_wrap_to_edge_in_range : forall per nx ix, all_pos nx -> length per = length nx -> length ix = length nx ->
  let '(r, e, edge) := wrap_to_edge per nx ix in
  in_range nx e /\ (edge = false -> r = e) /\ length r = length nx.
Proof. exact wrap_to_edge_in_range. Qed.
Print Assumptions C15_wrap_to_edge_in_range.

(* map_grid (re-binning of metadynamics grids; the grid-to-grid form of the re-gridding read): onto the same geometry
   it is a copy -- data re-gridded onto the geometry they already have are unchanged, all shapes and multiplicities *)
Theorem C15_map_grid_same_geometry_is_copy : forall (this other : grid R),
  grid_wf this -> grid_wf other -> geom_wf this -> same_geom this other -> Forall (fun w => (0 < w)%R) (gr_width this) ->
  map_grid Rops this other = gr_data other.
Proof. exact map_grid_same_geometry. Qed.
Print Assumptions C15_map_grid_same_geometry_is_copy.

(* add_extra_bin (grids of integrated quantities): n bins become n + 1 points (n when periodic) centred on the bin edges *)
Theorem C15_extra_bin_sizes : forall (c : cvinfo (T := R)) (p : bool) (l w : R) (n : Z), (0 < n)%Z -> (0 < w)%R ->
  let '(l', u') := extra_bin_dim Rops p l (l + IZR n * w)%R w in
  fst (fst (init_dim Rops c l' u' w)) = (if p then n else n + 1)%Z /\ bin_to_value Rops l' w 0 = l.
Proof. exact extra_bin_sizes. Qed.
Print Assumptions C15_extra_bin_sizes.

(* ===================== round 5: the multicolumn round trip with formatted numbers =====================
   A multicolumn file as it is read back, every number rounded to p significant digits: as long as the rounded lower
   boundaries and widths stay within the reader's tolerance (1e-10) of the receiving grid's -- which holds whenever
   1/2 * 10^(1-p) * |x| <= 1e-10 for each of them -- the file is read on the same-grid path and every element comes back
   as its rounded value, in its own place (with C15_decimal_roundtrip_error: within 1/2 * 10^(1-p) relative). *)
Theorem C15_roundtrip_multicol_formatted : forall (p fuel : nat) (g g0 : grid R),
  grid_wf g -> geom_wf g -> grid_wf g0 -> same_geom g0 g ->
  close_lists (map (dec_round Rops p fuel) (gr_lower g)) (gr_lower g) ->
  close_lists (map (dec_round Rops p fuel) (gr_width g)) (gr_width g) ->
  read_multicol Rops false g0 (fmt_toks Rops p fuel (write_multicol Rops g))
  = Some (set_data g0 (map (dec_round Rops p fuel) (gr_data g)), []).
Proof. exact multicol_formatted_roundtrip. Qed.
Print Assumptions C15_roundtrip_multicol_formatted.

Theorem C15_formatted_boundaries_stay_close : forall (p fuel : nat) (xs : list R),
  Forall (fun x => ((powerRZ 10 (- Z.of_nat fuel) <= Rabs x \/ x = 0) /\ / 2 * powerRZ 10 (1 - Z.of_nat p) * Rabs x <= tol10 Rops)%R) xs ->
  close_lists (map (dec_round Rops p fuel) xs) xs.
Proof. exact close_when_small. Qed.
Print Assumptions C15_formatted_boundaries_stay_close.

(* non-vacuity: boundaries 0 and widths of ex_grid's size satisfy the premise trivially for x = 0; a grid whose boundaries are
   exactly representable at p digits has close_lists by reflexivity of the bound (dec_round_err with x = 0 shown here) *)
Example C15_example_close : close_lists (map (dec_round Rops 15 400) [0%R]) [0%R].
Proof.
  apply C15_formatted_boundaries_stay_close. constructor; [|constructor]. split; [right; reflexivity|].
  rewrite Rabs_R0, Rmult_0_r. left. apply tol10_pos.
Qed.

(* bin_distance_from_boundaries (metadynamics: is the variable on the grid?): non-negative exactly when every value of a
   non-periodic dimension lies between its boundaries (both included); periodic dimensions do not count *)
Theorem C15_bin_distance_sign : forall per lower upper w x acc,
  Forall (fun wi => (0 < wi)%R) w -> length lower = length per -> length upper = length per -> length w = length per ->
  length x = length per ->
  ((0 <= bin_distance Rops per lower upper w x acc)%R <-> (0 <= acc)%R /\ all_inside per lower upper x).
Proof. exact bin_distance_sign. Qed.
Print Assumptions C15_bin_distance_sign.
