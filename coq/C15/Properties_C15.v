(* C15: every sample lands in exactly one grid bin (statements only; proofs in GridProofs.v). *)
From Coq Require Import ZArith List Bool Reals Lia.
From CV Require Import Base.Num Base.RNum C15.GridModel C15.GridProofs.
Import ListNotations.

(* The bin index computed by value_to_bin_scalar is the unique i with
   lower + i*w <= x < lower + (i+1)*w : the bins partition the line. *)
Theorem C15_bin_unique : forall (l w x : R) (i : Z), (0 < w)%R ->
  (value_to_bin Rops l w x = i <-> (l + IZR i * w <= x < l + (IZR i + 1) * w)%R).
Proof. exact bin_unique. Qed.
Print Assumptions C15_bin_unique.

Theorem C15_exactly_one_bin : forall (l w x : R), (0 < w)%R ->
  exists! i : Z, (l + IZR i * w <= x < l + (IZR i + 1) * w)%R.
Proof. exact bin_exists_unique. Qed.
Print Assumptions C15_exactly_one_bin.

(* index_ok accepts exactly the index vectors with 0 <= i_k < nx_k in every dimension. *)
Theorem C15_index_ok_iff : forall nx ix, index_ok nx ix = true <-> Forall2 (fun i n => (0 <= i < n)%Z) ix nx.
Proof. exact index_ok_iff. Qed.
Print Assumptions C15_index_ok_iff.

(* address is a bijection between in-range index vectors and the multiples of mult in [0, nt). *)
Theorem C15_address_bijective : forall mult nx, (0 < mult)%Z -> all_pos nx ->
  (forall ix, in_range nx ix -> (0 <= address mult nx ix <= ntot mult nx - mult)%Z) /\
  (forall ix jx, in_range nx ix -> in_range nx jx -> address mult nx ix = address mult nx jx -> ix = jx) /\
  (forall k, (0 <= k)%Z -> (k * mult < ntot mult nx)%Z ->
     exists ix, in_range nx ix /\ address mult nx ix = (k * mult)%Z).
Proof.
  intros mult nx Hm Hp. split; [|split].
  - intros ix H. apply address_bounds; auto.
  - intros ix jx. apply address_injective; auto.
  - intros k. apply address_surjective; auto.
Qed.
Print Assumptions C15_address_bijective.

(* incr visits the in-range index vectors in address order and leaves the range exactly after the last. *)
Theorem C15_incr_walks_in_address_order : forall mult nx ix, (0 < mult)%Z -> all_pos nx -> in_range nx ix -> nx <> [] ->
  (index_ok nx (incr nx ix) = true /\ address mult nx (incr nx ix) = (address mult nx ix + mult)%Z)
  \/ (index_ok nx (incr nx ix) = false /\ address mult nx ix = (ntot mult nx - mult)%Z).
Proof. exact incr_spec. Qed.
Print Assumptions C15_incr_walks_in_address_order.

(* After any history, each array element holds exactly the total weight of the eligible
   samples whose bin vector is in range and has that address (scalar variables: eligible =
   can_accumulate_data; gathered vector variables: the implementation accumulates at every step). *)
Theorem C15_hist_element_is_sample_sum : forall (c : hist_cfg) (vm : bool) (h : list hist_in) (a : nat),
  all_pos (h_nx c) ->
  nth a (hist_run Rops vm c h) 0%R = lsum (map (weight_at c a) (eligible_samples c vm h)).
Proof. intros c vm h a Hp. apply hist_run_nth; auto. Qed.
Print Assumptions C15_hist_element_is_sample_sum.

Theorem C15_count_conservation : forall (c : hist_cfg) (vm : bool) (h : list hist_in),
  all_pos (h_nx c) ->
  lsum (hist_run Rops vm c h) = lsum (map (weight_in c) (eligible_samples c vm h)).
Proof. intros c vm h Hp. apply hist_total; auto. Qed.
Print Assumptions C15_count_conservation.

(* The variable's own wrapping returns the equivalent value in [c - P/2, c + P/2) ... *)
Theorem C15_wrap_range : forall c P x : R, (0 < P)%R ->
  (c - P / 2 <= wrap Rops true c P x < c + P / 2)%R /\ exists n : Z, wrap Rops true c P x = (x - IZR n * P)%R.
Proof. intros c P x HP. split; [apply wrap_range; auto | apply wrap_equiv]. Qed.
Print Assumptions C15_wrap_range.

(* ... so on a grid that spans the period every value of a periodic variable has an in-range bin *)
Theorem C15_periodic_wrap_then_bin : forall (c P x : R) (nx : Z) (w : R),
  (0 < P)%R -> (0 < nx)%Z -> (w * IZR nx = P)%R ->
  (0 <= value_to_bin Rops (c - P / 2)%R w (wrap Rops true c P x) < nx)%Z.
Proof. exact periodic_in_range. Qed.
Print Assumptions C15_periodic_wrap_then_bin.

(* Re-mapping branch of read_multicol (a file written on one grid read into another).  One periodic
   dimension: every value is wrapped to the in-range bin that contains it modulo the period (any number of
   periods away; before the fix of wrap_detect_edge this held only down to one period below the grid). *)
Theorem C15_remap_periodic_target : forall (l w x : R) (n : Z), (0 < w)%R -> (0 < n)%Z ->
  let i := value_to_bin Rops l w x in
  let a := (i mod n)%Z in
  remap_target Rops (mkGeom [l] [w] [n] [true]) [x] = Some a /\ (0 <= a < n)%Z /\
  exists k : Z, (l + IZR a * w <= x - IZR k * (IZR n * w) < l + (IZR a + 1) * w)%R.
Proof. exact remap_target_1d_periodic. Qed.
Print Assumptions C15_remap_periodic_target.

(* Nothing is lost when distinct records land in distinct receiving bins: after the read every record
   that has a target bin is found in it (all shapes, all geometries). *)
Theorem C15_remap_lossless : forall (g : grid_geom) (recs : list (list R * R)) (rc : list R * R) (a : Z),
  all_pos (g_nx g) -> NoDup (targets g recs) -> In rc recs -> remap_target Rops g (fst rc) = Some a ->
  nth (Z.to_nat a) (remap Rops g recs) 0%R = snd rc.
Proof.
  intros g recs rc a Hp Hnd Hin Ht. unfold remap.
  apply (remap_lossless g Hp recs _ rc a); auto. apply repeat_length.
Qed.
Print Assumptions C15_remap_lossless.

(* non-vacuity: a 3x4 grid, an in-range index and the last index *)
Example C15_example_addresses :
  all_pos [3; 4]%Z /\ in_range [3; 4]%Z [2; 3]%Z /\ address 1 [3; 4]%Z [2; 3]%Z = 11%Z /\
  incr [3; 4]%Z [1; 3]%Z = [2; 0]%Z /\ index_ok [3; 4]%Z (incr [3; 4]%Z [2; 3]%Z) = false.
Proof. repeat split; try (repeat constructor; lia); vm_compute; reflexivity. Qed.
