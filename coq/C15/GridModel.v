(* Model of the binning and indexing core of colvar_grid<T> (src/colvargrid.h) and of the
   accumulation step of colvarbias_histogram::update (src/colvarbias_histogram.cpp).
   Definitions only; proofs are in GridProofs.v.  Generic over the numeric carrier. *)
From Coq Require Import ZArith List Bool.
From CV Require Import Base.Num.
Import ListNotations.
Local Open Scope Z_scope.

Section Grid.
  Context {T : Type} (O : NumOps T).

  (* colvar::cvc::wrap : x - floor((x - center)/period + 0.5) * period *)
  Definition wrap_shift (center period x : T) : Z :=
    nfloor O (nadd O (ndiv O (nsub O x center) period) (nhalf O)).
  Definition wrap (periodic : bool) (center period x : T) : T :=
    if periodic then nsub O x (nmul O (nofZ O (wrap_shift center period x)) period) else x.

  (* colvar_grid::value_to_bin_scalar : (int) floor((x - lower)/width) *)
  Definition value_to_bin (lower w x : T) : Z := nfloor O (ndiv O (nsub O x lower) w).

  (* colvar_grid::bin_to_value_scalar : lower + width * (0.5 + i) *)
  Definition bin_to_value (lower w : T) (i : Z) : T :=
    nadd O lower (nmul O w (nadd O (nhalf O) (nofZ O i))).

  Fixpoint bins (lower w x : list T) : list Z :=
    match lower, w, x with
    | l :: ls, wi :: ws, xi :: xs => value_to_bin l wi xi :: bins ls ws xs
    | _, _, _ => []
    end.
End Grid.

(* colvar_grid::index_ok *)
Fixpoint index_ok (nx ix : list Z) : bool :=
  match nx, ix with
  | [], [] => true
  | n :: ns, i :: is_ => (0 <=? i) && (i <? n) && index_ok ns is_
  | _, _ => false
  end.

(* colvar_grid::setup : nxc[i] = product of mult and the sizes of the later dimensions; nt = total *)
Fixpoint strides (mult : Z) (nx : list Z) : list Z * Z :=
  match nx with
  | [] => ([], mult)
  | n :: ns => let '(c, t) := strides mult ns in (t :: c, t * n)
  end.
Definition nxc (mult : Z) (nx : list Z) : list Z := fst (strides mult nx).
Definition ntot (mult : Z) (nx : list Z) : Z := snd (strides mult nx).

(* colvar_grid::address : sum ix[i]*nxc[i] *)
Fixpoint address_c (c ix : list Z) : Z :=
  match c, ix with
  | ci :: cs, i :: is_ => i * ci + address_c cs is_
  | _, _ => 0
  end.
Definition address (mult : Z) (nx ix : list Z) : Z := address_c (nxc mult nx) ix.

(* colvar_grid::incr : increment the last index, carry to the left; when the first index
   overflows it is set to nx[0] (an invalid index that index_ok rejects).
   [incr_aux] returns the new tail and whether a carry leaves it. *)
Fixpoint incr_aux (nx ix : list Z) : list Z * bool :=
  match nx, ix with
  | n :: ns, i :: is_ =>
      match ns with
      | [] => if i + 1 >=? n then ([0], true) else ([i + 1], false)
      | _ => let '(t, carry) := incr_aux ns is_ in
             if carry then (if i + 1 >=? n then (0 :: t, true) else (i + 1 :: t, false))
             else (i :: t, false)
      end
  | _, _ => (ix, false)
  end.
Definition incr (nx ix : list Z) : list Z :=
  match nx, incr_aux nx ix with
  | n :: _, (_ :: t, true) => n :: t
  | _, (r, _) => r
  end.

(* colvar_grid::wrap / wrap_detect_edge on index vectors: ix[i] = ((ix[i] % nx[i]) + nx[i]) % nx[i] in
   periodic dimensions, others unchanged.  C++ % truncates towards zero: Z.rem, not Z.modulo. *)
Fixpoint wrap_index (periodic : list bool) (nx ix : list Z) : list Z :=
  match periodic, nx, ix with
  | p :: ps, n :: ns, i :: is_ => (if p then Z.rem (Z.rem i n + n) n else i) :: wrap_index ps ns is_
  | _, _, _ => []
  end.

(* colvar_grid::init_from_boundaries : number of bins = (int)(nbins + 0.5) *)
Section Init.
  Context {T : Type} (O : NumOps T).
  Definition nbins_round (lower upper w : T) : Z :=
    nfloor O (nadd O (ndiv O (nsub O upper lower) w) (nhalf O)).
End Init.

(* ---- histogram accumulation (colvarbias_histogram::update) ---- *)


Fixpoint upd {A} (l : list A) (k : nat) (f : A -> A) : list A :=
  match l, k with
  | [], _ => []
  | a :: r, O => f a :: r
  | a :: r, S k' => a :: upd r k' f
  end.

Section Hist.
  Context {T : Type} (O : NumOps T).

  Record hist_cfg := mkHistCfg {
    h_lower : list T; h_width : list T; h_nx : list Z;
    h_step_zero_data : bool   (* feature f_cvb_step_zero_data *)
  }.

  (* one engine step as seen by the bias *)
  Record hist_in := mkHistIn {
    hi_rel : Z;              (* cvm::step_relative() *)
    hi_cont : bool;          (* proxy->simulation_continuing() *)
    hi_vals : list (list T * T)   (* samples of this step: (one value per variable, weight);
                                     scalar variables: a single sample with weight 1 *)
  }.

  (* colvarbias::can_accumulate_data *)
  Definition can_accumulate (c : hist_cfg) (i : hist_in) : bool :=
    ((0 <? hi_rel i) && negb (hi_cont i)) || h_step_zero_data c.

  Definition acc_sample (c : hist_cfg) (data : list T) (s : list T * T) : list T :=
    let ix := bins O (h_lower c) (h_width c) (fst s) in
    if index_ok (h_nx c) ix
    then upd data (Z.to_nat (address 1 (h_nx c) ix)) (fun v => nadd O v (snd s))
    else data.

  (* scalar variables: one sample of weight 1 per step; gathered vector variables: one sample per component
     with the configured weight; both guarded by can_accumulate_data (colvarbias_histogram::update; the vector
     branch had no guard before the fix "a histogram of gathered vector variables counted steps that are not
     eligible for accumulation") *)
  Definition hist_step (vector_mode : bool) (c : hist_cfg) (data : list T) (i : hist_in) : list T :=
    if can_accumulate c i
    then fold_left (acc_sample c) (hi_vals i) data
    else data.

  (* gatherVectorColvars: for iv = 0 .. colvar_array_size-1 the iv-th components of all the variables form one
     sample, accumulated with weights[iv] (colvarbias_histogram::update, current_bin_scalar(i, iv)) *)
  Fixpoint gather (vars : list (list T)) (weights : list T) : list (list T * T) :=
    match weights with
    | [] => []
    | w :: ws => (map (fun v => hd (n0 O) v) vars, w) :: gather (map (@tl T) vars) ws
    end.

  Definition hist_init (c : hist_cfg) : list T :=
    repeat (n0 O) (Z.to_nat (ntot 1 (h_nx c))).

  Definition hist_run (vector_mode : bool) (c : hist_cfg) (h : list hist_in) : list T :=
    fold_left (hist_step vector_mode c) h (hist_init c).
End Hist.

(* ---- re-mapping branch of colvar_grid::read_multicol (mult = 1): every record (x_1..x_nd, value)
   of the file is binned on the receiving grid, periodic dimensions are wrapped, and records whose
   index is out of range are ignored; the value overwrites the receiving element (add = false). ---- *)
Section Remap.
  Context {T : Type} (O : NumOps T).
  Record grid_geom := mkGeom { g_lower : list T; g_width : list T; g_nx : list Z; g_per : list bool }.

  Definition remap_target (g : grid_geom) (x : list T) : option Z :=
    let ix := wrap_index (g_per g) (g_nx g) (bins O (g_lower g) (g_width g) x) in
    if index_ok (g_nx g) ix then Some (address 1 (g_nx g) ix) else None.

  Definition remap_record (g : grid_geom) (data : list T) (rc : list T * T) : list T :=
    match remap_target g (fst rc) with
    | Some a => upd data (Z.to_nat a) (fun _ => snd rc)
    | None => data
    end.

  Definition remap (g : grid_geom) (recs : list (list T * T)) : list T :=
    fold_left (remap_record g) recs (repeat (n0 O) (Z.to_nat (ntot 1 (g_nx g)))).
End Remap.
