From Coq Require Import ZArith List Bool Reals Lra Lia Psatz.
From Flocq Require Import Core.Raux.
From CV Require Import Base.Num Base.RNum C15.GridModel.
Import ListNotations.

(* ------------------------------------------------------------------ bins partition the line *)
Section BinR.
  Local Open Scope R_scope.

  Lemma bin_unique l w x i : 0 < w ->
    (value_to_bin Rops l w x = i <-> l + IZR i * w <= x < l + (IZR i + 1) * w).
  Proof.
    intros Hw. unfold value_to_bin; cbn.
    rewrite Zfloor_spec.
    assert (Hd : (x - l) / w * w = x - l) by (field; lra).
    split; intros [H1 H2]; split.
    - apply Rmult_le_compat_r with (r := w) in H1; [|lra]. lra.
    - apply Rmult_lt_compat_r with (r := w) in H2; [|lra]. lra.
    - apply Rmult_le_reg_r with (r := w); [lra|]. lra.
    - apply Rmult_lt_reg_r with (r := w); [lra|]. lra.
  Qed.

  (* two bins that contain the same value are the same bin: exactly one bin contains x *)
  Lemma bin_exists_unique l w x : 0 < w ->
    exists! i : Z, l + IZR i * w <= x < l + (IZR i + 1) * w.
  Proof.
    intros Hw. exists (value_to_bin Rops l w x). split.
    - apply (proj1 (bin_unique l w x _ Hw)); reflexivity.
    - intros j Hj. apply (proj2 (bin_unique l w x j Hw)); exact Hj.
  Qed.

  Lemma wrap_range c P x : 0 < P ->
    c - P / 2 <= wrap Rops true c P x < c + P / 2.
  Proof.
    intros HP. unfold wrap, wrap_shift, nhalf; cbn.
    set (y := (x - c) / P + 1 / 2).
    pose proof (Zfloor_lb y) as H1. pose proof (Zfloor_ub y) as H2.
    assert (Hy : y * P = x - c + P / 2) by (unfold y; field; lra).
    assert (H1' : IZR (Zfloor y) * P <= y * P) by (apply Rmult_le_compat_r; lra).
    assert (H2' : y * P < (IZR (Zfloor y) + 1) * P) by (apply Rmult_lt_compat_r; lra).
    lra.
  Qed.

  Lemma wrap_equiv c P x : exists n : Z, wrap Rops true c P x = x - IZR n * P.
  Proof. eexists. unfold wrap; cbn. reflexivity. Qed.

  Lemma wrap_period c P x n : 0 < P ->
    wrap Rops true c P (x + IZR n * P) = wrap Rops true c P x.
  Proof.
    intros HP. unfold wrap, wrap_shift, nhalf; cbn.
    replace ((x + IZR n * P - c) / P + 1 / 2) with ((x - c) / P + 1 / 2 + IZR n) by (field; lra).
    rewrite Zfloor_add_IZR, plus_IZR. ring.
  Qed.

  (* a periodic variable wrapped around c, on a grid [c - P/2, c + P/2) of nx bins of width P/nx,
     is always in range *)
  Lemma periodic_in_range (c P x : R) (nx : Z) (w : R) : 0 < P -> (0 < nx)%Z -> w * IZR nx = P ->
    (0 <= value_to_bin Rops (c - P / 2)%R w (wrap Rops true c P x) < nx)%Z.
  Proof.
    intros HP Hn Hw.
    assert (Hnx : 0 < IZR nx) by (apply IZR_lt; lia).
    assert (Hwpos : 0 < w) by nra.
    pose proof (wrap_range c P x HP) as [Hlo Hhi].
    set (y := wrap Rops true c P x) in *.
    set (i := value_to_bin Rops (c - P / 2) w y).
    assert (Hi : value_to_bin Rops (c - P / 2) w y = i) by reflexivity.
    apply bin_unique in Hi; auto. destruct Hi as [Hi1 Hi2].
    split.
    - apply le_IZR. assert (-1 < IZR i) by nra.
      destruct (Z_lt_le_dec i 0) as [Hneg|]; [|apply IZR_le; lia].
      apply IZR_le in Hneg || idtac. assert (IZR i <= -1) by (apply IZR_le; lia). lra.
    - apply lt_IZR. assert (IZR i * w < IZR nx * w) by nra. nra.
  Qed.
End BinR.

(* ------------------------------------------------------------------ index vectors *)
Local Open Scope Z_scope.

Definition in_range (nx ix : list Z) : Prop := Forall2 (fun i n => 0 <= i < n) ix nx.

Lemma index_ok_iff nx ix : index_ok nx ix = true <-> in_range nx ix.
Proof.
  revert ix; induction nx as [|n ns IH]; intros [|i is_]; cbn; split; intros H;
    try discriminate; try (constructor; fail); try (inversion H; fail).
  - apply andb_true_iff in H as [H1 H3]. apply andb_true_iff in H1 as [H1 H2].
    constructor; [lia| apply IH; auto].
  - inversion H; subst. apply andb_true_iff; split; [apply andb_true_iff; split; lia | apply IH; auto].
Qed.

Definition all_pos (nx : list Z) : Prop := Forall (fun n => 0 < n) nx.

Lemma strides_nt_pos mult nx : 0 < mult -> all_pos nx -> 0 < ntot mult nx.
Proof.
  unfold ntot. intros Hm H; induction H as [|n ns Hn _ IH]; cbn; auto.
  destruct (strides mult ns) as [c t]; cbn in *. nia.
Qed.

Lemma address_cons mult n ns i is_ :
  address mult (n :: ns) (i :: is_) = i * ntot mult ns + address mult ns is_.
Proof. unfold address, nxc, ntot; cbn. destruct (strides mult ns); cbn. reflexivity. Qed.

Lemma ntot_cons mult n ns : ntot mult (n :: ns) = ntot mult ns * n.
Proof. unfold ntot; cbn. destruct (strides mult ns); reflexivity. Qed.

Lemma address_nil mult ix : address mult [] ix = 0.
Proof. reflexivity. Qed.

(* mult divides every address, and addresses of in-range vectors stay inside [0, nt - mult] *)
Lemma address_bounds mult nx ix : 0 < mult -> all_pos nx -> in_range nx ix ->
  0 <= address mult nx ix <= ntot mult nx - mult.
Proof.
  intros Hm Hp H; revert Hp; induction H as [|i n is_ ns Hi _ IH]; intros Hp.
  - unfold address, ntot; cbn. lia.
  - inversion Hp as [|? ? Hn Hps]; subst. rewrite address_cons, ntot_cons.
    specialize (IH Hps). pose proof (strides_nt_pos mult ns Hm Hps). nia.
Qed.

Lemma address_injective mult nx ix jx : 0 < mult -> all_pos nx ->
  in_range nx ix -> in_range nx jx -> address mult nx ix = address mult nx jx -> ix = jx.
Proof.
  intros Hm Hp Hi; revert jx Hp; induction Hi as [|i n is_ ns Hi Hr IH]; intros jx Hp Hj He.
  - inversion Hj; reflexivity.
  - inversion Hj as [|j n' js ns' Hjr Hjs]; subst. inversion Hp as [|? ? Hn Hps]; subst.
    rewrite !address_cons in He.
    pose proof (address_bounds mult ns is_ Hm Hps Hr).
    pose proof (address_bounds mult ns js Hm Hps Hjs).
    pose proof (strides_nt_pos mult ns Hm Hps).
    assert (i = j) by nia. subst j. f_equal. apply IH; auto. lia.
Qed.

(* every multiple of mult below nt is the address of an in-range vector *)
Lemma address_surjective mult nx k : 0 < mult -> all_pos nx ->
  0 <= k -> k * mult < ntot mult nx -> exists ix, in_range nx ix /\ address mult nx ix = k * mult.
Proof.
  intros Hm Hp; revert k; induction Hp as [|n ns Hn Hp IH]; intros k Hk0 Hk.
  - unfold ntot in Hk; cbn in Hk. exists []. split; [constructor|]. rewrite address_nil.
    destruct (Z.eq_dec k 0) as [->|Hk1]; [lia | assert (1 <= k) by lia; nia].
  - rewrite ntot_cons in Hk.
    pose proof (strides_nt_pos mult ns Hm Hp) as Ht.
    (* ntot ns = q * mult *)
    assert (Hdiv : exists q, ntot mult ns = q * mult /\ 0 < q).
    { clear -Hm Hp. induction Hp as [|m ms Hmp _ IHp].
      - exists 1. unfold ntot; cbn [strides snd]. split; lia.
      - destruct IHp as [q [Hq Hq0]]. exists (q * m). rewrite ntot_cons, Hq. split; [ring | apply Z.mul_pos_pos; lia]. }
    destruct Hdiv as [q [Hq Hq0]].
    set (i := k / q). set (r := k mod q).
    assert (Hkq : k = q * i + r) by (apply Z.div_mod; lia).
    assert (Hr : 0 <= r < q) by (apply Z.mod_pos_bound; lia).
    destruct (IH r) as [is_ [His Ha]]; [lia | rewrite Hq; nia |].
    exists (i :: is_). split.
    + constructor; auto. split; [apply Z.div_pos; lia|].
      assert (q * i < q * n) by nia. nia.
    + rewrite address_cons, Ha, Hq. nia.
Qed.

(* incr walks the in-range index vectors in address order and leaves the range exactly at the end *)
Lemma incr_aux_spec mult nx ix : 0 < mult -> all_pos nx -> in_range nx ix -> nx <> [] ->
  let '(t, carry) := incr_aux nx ix in
  length t = length nx /\
  (carry = false -> in_range nx t /\ address mult nx t = address mult nx ix + mult) /\
  (carry = true -> address mult nx ix = ntot mult nx - mult /\ in_range nx t /\ address mult nx t = 0).
Proof.
  intros Hm Hp Hr; revert Hp; induction Hr as [|i n is_ ns Hi Hr IH]; intros Hp Hne; [congruence|].
  inversion Hp as [|? ? Hn Hps]; subst. cbn [incr_aux].
  destruct ns as [|n2 ns'].
  - inversion Hr; subst.
    destruct (i + 1 >=? n) eqn:E.
    + split; [reflexivity|]. split; [discriminate|]. intros _.
      rewrite !address_cons, ntot_cons. unfold ntot, address; cbn.
      split; [nia|]. split; [constructor; [lia|constructor] | lia].
    + split; [reflexivity|]. split; [|discriminate]. intros _.
      rewrite !address_cons. unfold ntot, address; cbn. split; [constructor; [lia|constructor]|lia].
  - specialize (IH Hps ltac:(discriminate)).
    destruct (incr_aux (n2 :: ns') is_) as [t carry].
    destruct IH as [Hlen [Hf Ht]].
    pose proof (strides_nt_pos mult (n2 :: ns') Hm Hps) as Hnt.
    destruct carry.
    + destruct (Ht eq_refl) as [Ha [Hrt Ha0]].
      destruct (i + 1 >=? n) eqn:E.
      * split; [cbn [length]; rewrite Hlen; reflexivity|]. split; [discriminate|]. intros _.
        rewrite !address_cons, (ntot_cons mult n), Ha, Ha0.
        split; [nia|]. split; [constructor; [lia|auto]|lia].
      * split; [cbn [length]; rewrite Hlen; reflexivity|]. split; [|discriminate]. intros _.
        rewrite !address_cons, Ha, Ha0. split; [constructor; [lia|auto]|lia].
    + destruct (Hf eq_refl) as [Hrt Ha].
      split; [cbn [length]; rewrite Hlen; reflexivity|]. split; [|discriminate]. intros _.
      rewrite !address_cons, Ha. split; [constructor; auto|lia].
Qed.

Lemma incr_spec mult nx ix : 0 < mult -> all_pos nx -> in_range nx ix -> nx <> [] ->
  (index_ok nx (incr nx ix) = true /\ address mult nx (incr nx ix) = address mult nx ix + mult)
  \/ (index_ok nx (incr nx ix) = false /\ address mult nx ix = ntot mult nx - mult).
Proof.
  intros Hm Hp Hr Hne. pose proof (incr_aux_spec mult nx ix Hm Hp Hr Hne) as H.
  unfold incr. destruct nx as [|n ns]; [congruence|].
  destruct (incr_aux (n :: ns) ix) as [t carry]. destruct H as [Hlen [Hf Ht]].
  destruct carry.
  - destruct (Ht eq_refl) as [Ha [Hrt _]]. right.
    destruct t as [|t0 t']; [cbn in Hlen; lia|]. split; auto.
    cbn. replace (n <? n) with false by (symmetry; apply Z.ltb_ge; lia).
    rewrite andb_false_r. reflexivity.
  - destruct (Hf eq_refl) as [Hrt Ha]. left.
    assert (Hm' : match t with [] => t | _ :: _ => t end = t) by (destruct t; reflexivity).
    rewrite Hm'. split; auto. apply index_ok_iff; auto.
Qed.

(* ------------------------------------------------------------------ histogram accumulation *)
Section HistR.
  Local Open Scope R_scope.

  Lemma upd_length {A} (l : list A) k f : length (upd l k f) = length l.
  Proof. revert k; induction l; destruct k; cbn; auto. Qed.

  Lemma upd_nth_same (l : list R) k f d : (k < length l)%nat -> nth k (upd l k f) d = f (nth k l d).
  Proof. revert k; induction l; destruct k; cbn; intros; try lia; auto. apply IHl; lia. Qed.

  Lemma upd_nth_other (l : list R) k j f d : k <> j -> nth j (upd l k f) d = nth j l d.
  Proof. revert k j; induction l; destruct k, j; cbn; intros; try congruence; auto. Qed.

  Fixpoint lsum (l : list R) : R := match l with [] => 0 | a :: r => a + lsum r end.

  Lemma lsum_upd_add (l : list R) k w : (k < length l)%nat ->
    lsum (upd l k (fun v => v + w)) = lsum l + w.
  Proof.
    revert k; induction l as [|a l IH]; destruct k; cbn; intros; try lia; try lra.
    specialize (IH k ltac:(lia)). lra.
  Qed.

  Lemma nth_repeat0 a n : nth a (repeat 0 n) 0 = 0.
  Proof. revert a; induction n; destruct a; cbn; auto. Qed.

  Lemma lsum_repeat0 n : lsum (repeat 0 n) = 0.
  Proof. induction n; cbn [repeat lsum]; try lra. Qed.

  Variable c : hist_cfg (T := R).
  Hypothesis Hpos : all_pos (h_nx c).

  (* specification: the samples of a history that are eligible and in range *)
  Definition sample_bin (s : list R * R) : list Z := bins Rops (h_lower c) (h_width c) (fst s).
  Definition in_grid (s : list R * R) : bool := index_ok (h_nx c) (sample_bin s).

  Definition eligible_samples (vector_mode : bool) (h : list hist_in) : list (list R * R) :=
    flat_map (fun i => if can_accumulate c i then hi_vals i else []) h.

  (* weight landing on address a *)
  Definition weight_at (a : nat) (s : list R * R) : R :=
    if in_grid s && Nat.eqb (Z.to_nat (address 1 (h_nx c) (sample_bin s))) a then snd s else 0.

  Definition weight_in (s : list R * R) : R := if in_grid s then snd s else 0.

  Lemma addr_lt s : in_grid s = true ->
    (Z.to_nat (address 1 (h_nx c) (sample_bin s)) < Z.to_nat (ntot 1 (h_nx c)))%nat.
  Proof.
    intros H. apply index_ok_iff in H.
    pose proof (address_bounds 1 (h_nx c) _ ltac:(lia) Hpos H). lia.
  Qed.

  Lemma acc_sample_nth data s a :
    length data = Z.to_nat (ntot 1 (h_nx c)) ->
    nth a (acc_sample Rops c data s) 0 = nth a data 0 + weight_at a s
    /\ length (acc_sample Rops c data s) = length data.
  Proof.
    intros Hlen. unfold acc_sample, weight_at, in_grid, sample_bin.
    destruct (index_ok (h_nx c) (bins Rops (h_lower c) (h_width c) (fst s))) eqn:E; cbn [andb].
    - rewrite upd_length. split; auto.
      destruct (Nat.eqb_spec (Z.to_nat (address 1 (h_nx c) (bins Rops (h_lower c) (h_width c) (fst s)))) a).
      + subst a. rewrite upd_nth_same; [cbn; lra|]. rewrite Hlen. apply (addr_lt s). exact E.
      + rewrite upd_nth_other; auto. lra.
    - split; auto. lra.
  Qed.

  Lemma acc_samples_nth l data a :
    length data = Z.to_nat (ntot 1 (h_nx c)) ->
    nth a (fold_left (acc_sample Rops c) l data) 0 = nth a data 0 + lsum (map (weight_at a) l)
    /\ length (fold_left (acc_sample Rops c) l data) = length data.
  Proof.
    revert data; induction l as [|s l IH]; intros data Hlen; cbn [fold_left map lsum].
    - split; auto; lra.
    - destruct (acc_sample_nth data s a Hlen) as [H1 H2].
      destruct (IH (acc_sample Rops c data s)) as [H3 H4]; [congruence|].
      rewrite H3, H1, H4, H2. split; auto. lra.
  Qed.

  Lemma lsum_app l1 l2 : lsum (l1 ++ l2) = lsum l1 + lsum l2.
  Proof. induction l1 as [|a l1 IH]; cbn [app lsum]; try lra. Qed.

  Lemma hist_run_nth_gen vm h data a :
    length data = Z.to_nat (ntot 1 (h_nx c)) ->
    nth a (fold_left (hist_step Rops vm c) h data) 0
      = nth a data 0 + lsum (map (weight_at a) (eligible_samples vm h))
    /\ length (fold_left (hist_step Rops vm c) h data) = length data.
  Proof.
    revert data; induction h as [|i h IH]; intros data Hlen; cbn [fold_left eligible_samples flat_map map lsum].
    - split; auto; lra.
    - unfold hist_step at 2 4.
      destruct (can_accumulate c i) eqn:E.
      + destruct (acc_samples_nth (hi_vals i) data a Hlen) as [H1 H2].
        destruct (IH (fold_left (acc_sample Rops c) (hi_vals i) data)) as [H3 H4]; [congruence|].
        rewrite H3, H1, H4, H2. split; auto.
        rewrite map_app, lsum_app. fold (eligible_samples vm h). lra.
      + destruct (IH data Hlen) as [H3 H4]. rewrite H3, H4. split; auto.
  Qed.

  (* every array element holds exactly the weights of the eligible samples attributed to it *)
  Lemma hist_run_nth vm h a :
    nth a (hist_run Rops vm c h) 0 = lsum (map (weight_at a) (eligible_samples vm h)).
  Proof.
    unfold hist_run. destruct (hist_run_nth_gen vm h (hist_init Rops c) a) as [H _].
    - unfold hist_init. apply repeat_length.
    - rewrite H. unfold hist_init.
      change (n0 Rops) with 0. rewrite nth_repeat0. lra.
  Qed.

  Lemma hist_total_gen l data :
    length data = Z.to_nat (ntot 1 (h_nx c)) ->
    lsum (fold_left (acc_sample Rops c) l data) = lsum data + lsum (map weight_in l)
    /\ length (fold_left (acc_sample Rops c) l data) = length data.
  Proof.
    revert data; induction l as [|s l IH]; intros data Hlen; cbn [fold_left map lsum].
    - split; auto; lra.
    - assert (H1 : lsum (acc_sample Rops c data s) = lsum data + weight_in s
                   /\ length (acc_sample Rops c data s) = length data).
      { unfold acc_sample, weight_in, in_grid, sample_bin.
        destruct (index_ok (h_nx c) (bins Rops (h_lower c) (h_width c) (fst s))) eqn:E.
        - rewrite upd_length. split; auto. apply (lsum_upd_add data _ (snd s)).
          rewrite Hlen. apply (addr_lt s). exact E.
        - split; auto; lra. }
      destruct H1 as [H1 H2].
      destruct (IH (acc_sample Rops c data s)) as [H3 H4]; [congruence|].
      rewrite H3, H1, H4, H2. split; auto. lra.
  Qed.

  (* conservation: the sum of all counts is the total weight of the in-range eligible samples *)
  Lemma hist_total vm h :
    lsum (hist_run Rops vm c h) = lsum (map weight_in (eligible_samples vm h)).
  Proof.
    unfold hist_run.
    assert (G : forall data, length data = Z.to_nat (ntot 1 (h_nx c)) ->
              lsum (fold_left (hist_step Rops vm c) h data)
              = lsum data + lsum (map weight_in (eligible_samples vm h))).
    { induction h as [|i h' IH]; intros data Hlen; cbn [fold_left eligible_samples flat_map map lsum].
      - lra.
      - unfold hist_step at 2.
        destruct (can_accumulate c i) eqn:E.
        + destruct (hist_total_gen (hi_vals i) data Hlen) as [H1 H2].
          rewrite IH by congruence. rewrite H1, map_app, lsum_app.
          fold (eligible_samples vm h'). lra.
        + rewrite IH by auto. reflexivity. }
    rewrite G by (unfold hist_init; apply repeat_length).
    unfold hist_init. change (n0 Rops) with 0. rewrite lsum_repeat0. lra.
  Qed.
End HistR.

(* ------------------------------------------------------------------ gathered vector variables *)
Lemma nth_tl {A} (l : list A) i d : nth i (tl l) d = nth (S i) l d.
Proof. destruct l; [destruct i; reflexivity | reflexivity]. Qed.

Lemma gather_spec (weights : list R) : forall (vars : list (list R)) iv, (iv < length weights)%nat ->
  nth iv (gather Rops vars weights) ([], 0%R) = (map (fun v => nth iv v 0%R) vars, nth iv weights 0%R).
Proof.
  induction weights as [|w ws IH]; intros vars iv H; [cbn in H; lia|].
  cbn [gather]. destruct iv as [|iv].
  - cbn [nth]. f_equal. apply map_ext. intros v. destruct v; reflexivity.
  - cbn [nth length] in *. rewrite IH by lia. f_equal. rewrite map_map. apply map_ext. intros v. apply nth_tl.
Qed.

Lemma gather_length (weights : list R) : forall vars, length (gather Rops vars weights) = length weights.
Proof. induction weights as [|w ws IH]; intros vars; cbn [gather length]; auto. Qed.

(* ------------------------------------------------------------------ re-mapping (read_multicol) *)
Section RemapR.
  Local Open Scope R_scope.

  Lemma rem_rem_mod (i n : Z) : (0 < n)%Z -> Z.rem (Z.rem i n + n) n = (i mod n)%Z.
  Proof.
    intros Hn.
    pose proof (Z.rem_bound_abs i n ltac:(lia)) as Hb.
    assert (Hr : (- n < Z.rem i n < n)%Z) by lia.
    rewrite Z.rem_mod_nonneg by lia.
    rewrite Zplus_mod, Z_mod_same_full, Z.add_0_r, Zmod_mod.
    destruct (Z_le_gt_dec 0 i) as [Hi|Hi].
    - rewrite Z.rem_mod_nonneg by lia. apply Zmod_mod.
    - pose proof (Z.rem_opp_l i n ltac:(lia)) as Ho.
      assert (He : Z.rem i n = (- Z.rem (- i) n)%Z) by lia.
      rewrite He, Z.rem_mod_nonneg by lia.
      (* (- ((-i) mod n)) mod n = i mod n *)
      pose proof (Z.div_mod (- i) n ltac:(lia)) as Hd.
      replace (- ((- i) mod n))%Z with (i + n * ((- i) / n))%Z by lia.
      rewrite Z.mul_comm, Z_mod_plus_full. reflexivity.
  Qed.

  (* one periodic dimension: every value is wrapped to the in-range bin that contains it modulo the period
     (before the fix of colvar_grid::wrap_detect_edge this needed  - n <= bin, see known_findings.txt) *)
  Lemma remap_target_1d_periodic (l w x : R) (n : Z) : 0 < w -> (0 < n)%Z ->
    let i := value_to_bin Rops l w x in
    let a := (i mod n)%Z in
    remap_target Rops (mkGeom [l] [w] [n] [true]) [x] = Some a /\ (0 <= a < n)%Z /\
    exists k : Z, l + IZR a * w <= x - IZR k * (IZR n * w) < l + (IZR a + 1) * w.
  Proof.
    intros Hw Hn i a.
    assert (Ha : (0 <= a < n)%Z) by (apply Z.mod_pos_bound; lia).
    assert (Hrem : Z.rem (Z.rem i n + n) n = a) by (apply rem_rem_mod; auto).
    split; [|split; auto].
    - unfold remap_target. cbn [g_per g_nx g_lower g_width bins wrap_index].
      fold i. rewrite Hrem.
      assert (Hok : index_ok [n] [a] = true) by (apply index_ok_iff; repeat constructor; lia).
      rewrite Hok. f_equal. unfold address, nxc; cbn [strides fst address_c]. lia.
    - exists (i / n)%Z.
      assert (Hdiv : (i = n * (i / n) + a)%Z) by (apply Z.div_mod; lia).
      assert (Hb : value_to_bin Rops l w x = i) by reflexivity.
      apply bin_unique in Hb; auto.
      assert (Hia : IZR i = IZR n * IZR (i / n) + IZR a).
      { rewrite <- mult_IZR, <- plus_IZR. f_equal. exact Hdiv. }
      set (k := IZR (i / n)) in *. rewrite Hia in Hb. nra.
  Qed.

  (* "last write wins": when distinct records of the file have distinct targets on the receiving
     grid nothing is lost: every record that has a target is found there after the read *)
  Variable g : grid_geom (T := R).
  Hypothesis Hpos : all_pos (g_nx g).

  Lemma remap_target_lt x a : remap_target Rops g x = Some a ->
    (Z.to_nat a < Z.to_nat (ntot 1 (g_nx g)))%nat.
  Proof.
    unfold remap_target.
    destruct (index_ok (g_nx g) (wrap_index (g_per g) (g_nx g) (bins Rops (g_lower g) (g_width g) x))) eqn:E;
      [|discriminate].
    intros H; injection H as <-. apply index_ok_iff in E.
    pose proof (address_bounds 1 (g_nx g) _ ltac:(lia) Hpos E). lia.
  Qed.

  Lemma remap_record_length data rc : length (remap_record Rops g data rc) = length data.
  Proof. unfold remap_record. destruct (remap_target Rops g (fst rc)); auto. apply upd_length. Qed.

  Lemma remap_fold_length recs data : length (fold_left (remap_record Rops g) recs data) = length data.
  Proof.
    revert data; induction recs as [|rc recs IH]; intros data; cbn [fold_left]; auto.
    rewrite IH. apply remap_record_length.
  Qed.

  Lemma remap_fold_untouched recs data (j : nat) :
    (forall rc a, In rc recs -> remap_target Rops g (fst rc) = Some a -> Z.to_nat a <> j) ->
    nth j (fold_left (remap_record Rops g) recs data) 0 = nth j data 0.
  Proof.
    revert data; induction recs as [|rc recs IH]; intros data H; cbn [fold_left]; auto.
    rewrite IH by (intros rc' a Hin; apply H; right; exact Hin).
    unfold remap_record. destruct (remap_target Rops g (fst rc)) as [a|] eqn:E; auto.
    apply upd_nth_other. apply (H rc a); [left; reflexivity | exact E].
  Qed.

  Definition targets (recs : list (list R * R)) : list (option Z) := map (fun rc => remap_target Rops g (fst rc)) recs.

  Lemma remap_lossless recs data rc a :
    length data = Z.to_nat (ntot 1 (g_nx g)) ->
    NoDup (targets recs) -> In rc recs -> remap_target Rops g (fst rc) = Some a ->
    nth (Z.to_nat a) (fold_left (remap_record Rops g) recs data) 0 = snd rc.
  Proof.
    revert data; induction recs as [|r0 recs IH]; intros data Hlen Hnd Hin Ht; [destruct Hin|].
    cbn [fold_left]. cbn [targets map] in Hnd. inversion Hnd as [|? ? Hnotin Hnd']; subst.
    destruct Hin as [->|Hin].
    - rewrite remap_fold_untouched.
      + unfold remap_record. rewrite Ht. apply upd_nth_same. rewrite Hlen. apply (remap_target_lt (fst rc)); auto.
      + intros rc' a' Hin' Ht' Heq. apply Hnotin. unfold targets. apply in_map_iff. exists rc'. split; auto.
        rewrite Ht', Ht. f_equal.
        pose proof (remap_target_lt _ _ Ht) as H1. pose proof (remap_target_lt _ _ Ht') as H2.
        assert (0 <= a)%Z.
        { unfold remap_target in Ht. destruct (index_ok _ _) eqn:E in Ht; [|discriminate].
          injection Ht as <-. apply index_ok_iff in E.
          pose proof (address_bounds 1 (g_nx g) _ ltac:(lia) Hpos E). lia. }
        assert (0 <= a')%Z.
        { unfold remap_target in Ht'. destruct (index_ok _ _) eqn:E in Ht'; [|discriminate].
          injection Ht' as <-. apply index_ok_iff in E.
          pose proof (address_bounds 1 (g_nx g) _ ltac:(lia) Hpos E). lia. }
        lia.
    - apply IH; auto. rewrite remap_record_length. exact Hlen.
  Qed.
End RemapR.

(* statement used in Properties_C15.v: the histogram of gathered vector variables *)
Lemma gathered_vector_histogram (c : hist_cfg (T := R)) (weights : list R)
      (steps : list (Z * bool * list (list R))) (a : nat) :
  all_pos (h_nx c) ->
  let h := map (fun st => mkHistIn (fst (fst st)) (snd (fst st)) (gather Rops (snd st) weights)) steps in
  (forall vars iv, (iv < length weights)%nat ->
     nth iv (gather Rops vars weights) ([], 0%R) = (map (fun v => nth iv v 0%R) vars, nth iv weights 0%R)) /\
  nth a (hist_run Rops true c h) 0%R = lsum (map (weight_at c a) (eligible_samples c true h)) /\
  lsum (hist_run Rops true c h) = lsum (map (weight_in c) (eligible_samples c true h)).
Proof.
  intros Hp h. split; [intros vars iv; apply gather_spec|]. split; [apply hist_run_nth | apply hist_total]; auto.
Qed.

(* a value outside [lower, lower + n*w) has a bin index outside [0, n): it is in no bin of the grid, and a sample with
   such a component leaves the histogram unchanged *)
Lemma outside_no_bin (l w x : R) (n : Z) : (0 < w)%R ->
  ((x < l)%R -> (value_to_bin Rops l w x < 0)%Z) /\
  ((l + IZR n * w <= x)%R -> (n <= value_to_bin Rops l w x)%Z) /\
  ((l <= x < l + IZR n * w)%R -> (0 <= value_to_bin Rops l w x < n)%Z).
Proof.
  intros Hw. set (i := value_to_bin Rops l w x).
  assert (Hi : value_to_bin Rops l w x = i) by reflexivity.
  apply bin_unique in Hi; auto. destruct Hi as [H1 H2].
  split; [|split].
  - intros Hx. apply lt_IZR. assert (IZR i * w < 0)%R by lra.
    destruct (Rlt_le_dec (IZR i) 0) as [|Hge]; [assumption|]. assert (0 <= IZR i * w)%R by (apply Rmult_le_pos; lra). lra.
  - intros Hx. apply le_IZR. assert (IZR n * w < (IZR i + 1) * w)%R by lra.
    assert (IZR n < IZR i + 1)%R by (apply Rmult_lt_reg_r with w; lra).
    rewrite <- plus_IZR in H0. apply lt_IZR in H0. apply IZR_le. lia.
  - intros [Hlo Hhi]. split.
    + apply le_IZR. destruct (Rlt_le_dec (IZR i) 0) as [Hneg|]; [|lra].
      assert (IZR i <= -1)%R. { change (-1)%R with (IZR (-1)). apply IZR_le. apply lt_IZR in Hneg. lia. }
      assert ((IZR i + 1) * w <= 0)%R by nra. lra.
    + apply lt_IZR. assert (IZR i * w < IZR n * w)%R by lra. apply Rmult_lt_reg_r with w; lra.
Qed.

Lemma out_of_grid_sample_ignored (c : hist_cfg (T := R)) (data : list R) (s : list R * R) :
  index_ok (h_nx c) (bins Rops (h_lower c) (h_width c) (fst s)) = false ->
  acc_sample Rops c data s = data /\ weight_in c s = 0%R /\ forall a, weight_at c a s = 0%R.
Proof.
  intros H. unfold acc_sample, weight_in, weight_at, in_grid, sample_bin. rewrite H. repeat split. 
Qed.
