(* Model of the remaining entry points of colvar_grid<T> (src/colvargrid.h) that map values to bins or grids to grids:
   value_to_bin_scalar_bound / current_bin_flat_bound, value_to_bin_scalar_fraction, wrap, wrap_to_edge,
   map_grid, add_grid, copy_grid, delta_grid, multiply_constant, add_constant, remove_small_values,
   raw_data_in/out, and the add_extra_bin shift of init_from_colvars.  Definitions only. *)
From Coq Require Import ZArith List Bool.
From CV Require Import Base.Num C15.GridModel C15.GridIOModel.
Import ListNotations.
Local Open Scope Z_scope.

(* colvar_grid::wrap : periodic dimensions wrapped, an out-of-range index in a non-periodic dimension is an error *)
Fixpoint wrap_strict (periodic : list bool) (nx ix : list Z) : option (list Z) :=
  match periodic, nx, ix with
  | p :: ps, n :: ns, i :: is_ =>
      match wrap_strict ps ns is_ with
      | None => None
      | Some r => if p then Some (Z.rem (Z.rem i n + n) n :: r)
                  else if (i <? 0) || (i >=? n) then None else Some (i :: r)
      end
  | _, _, _ => Some []
  end.

(* colvar_grid::wrap_to_edge : (wrapped index, nearest bin inside the grid, whether an edge was crossed) *)
Fixpoint wrap_to_edge (periodic : list bool) (nx ix : list Z) : list Z * list Z * bool :=
  match periodic, nx, ix with
  | p :: ps, n :: ns, i :: is_ =>
      let '(r, e, edge) := wrap_to_edge ps ns is_ in
      if p then let j := Z.rem (Z.rem i n + n) n in (j :: r, j :: e, edge)
      else if i <? 0 then (i :: r, 0 :: e, true)
      else if i >=? n then (i :: r, n - 1 :: e, true)
      else (i :: r, i :: e, edge)
  | _, _, _ => ([], [], false)
  end.

Section Ops.
  Context {T : Type} (O : NumOps T).

  (* value_to_bin_scalar_bound : floor; in periodic dimensions `%= nx` and `+= nx` when negative (the wrapped bin;
     before the repair the negative remainder was clamped to 0); then clamped *)
  Definition value_to_bin_bound (periodic : bool) (lower w : T) (n : Z) (x : T) : Z :=
    let i := value_to_bin O lower w x in
    let i := if periodic then (let r := Z.rem i n in if r <? 0 then r + n else r) else i in
    if i <? 0 then 0 else if i >=? n then n - 1 else i.
  Fixpoint bins_bound (periodic : list bool) (lower w : list T) (nx : list Z) (x : list T) : list Z :=
    match periodic, lower, w, nx, x with
    | p :: ps, l :: ls, wi :: ws, n :: ns, xi :: xs => value_to_bin_bound p l wi n xi :: bins_bound ps ls ws ns xs
    | _, _, _, _, _ => []
    end.

  (* value_to_bin_scalar_fraction : x - floor(x) with x = (value - lower)/width *)
  Definition bin_fraction (lower w x : T) : T :=
    let y := ndiv O (nsub O x lower) w in nsub O y (nofZ O (nfloor O y)).

  (* map_grid : every point of this grid takes the values of the other grid at the bin that contains the point's
     centre (other_grid.index_ok), points whose centre lies outside the other grid keep their values *)
  Fixpoint map_points (m : nat) (mz : Z) (nx : list Z) (ixs : list (list Z)) (src_of : list Z -> option (list T))
           (data : list T) : list T :=
    match ixs with
    | [] => data
    | ix :: r =>
        map_points m mz nx r src_of
          (match src_of ix with
           | Some vs => set_values O false data (Z.to_nat (address mz nx ix)) vs
           | None => data
           end)
    end.
  Definition map_grid (this other : grid T) : list T :=
    map_points (gmult this) (gr_mult this) (gr_nx this) (all_indices (gr_nx this))
      (fun ix =>
         let oix := bins O (gr_lower other) (gr_width other) (bin_centers O (gr_lower this) (gr_width this) ix) in
         if index_ok (gr_nx other) oix then Some (slice (gr_data other) (gaddr other oix) (gmult this)) else None)
      (gr_data this).

  Fixpoint map2 (f : T -> T -> T) (a b : list T) : list T :=
    match a, b with x :: xs, y :: ys => f x y :: map2 f xs ys | _, _ => [] end.
  (* add_grid(other, scale): data += scale * other (no multiplication when scale = 1) *)
  Definition add_grid (scale : T) (this other : list T) : list T :=
    if neqb O scale (n1 O) then map2 (nadd O) this other
    else map2 (fun a b => nadd O a (nmul O scale b)) this other.
  Definition delta_grid (this other : list T) : list T := map2 (fun a b => nsub O b a) this other.
  Definition multiply_constant (a : T) (d : list T) : list T := map (fun v => nmul O v a) d.
  Definition add_constant (a : T) (d : list T) : list T := map (fun v => nadd O v a) d.
  Definition remove_small_values (a : T) (d : list T) : list T := map (fun v => if nltb O v a then a else v) d.

  (* bin_distance_from_boundaries(values): the smallest distance, in bins, from the boundaries of the non-periodic
     dimensions; negative when a value lies outside (scalar non-periodic variables: sqrt(dist2) = |difference|) *)
  Definition signed_bins (below : bool) (a b w : T) : T :=
    let dd := ndiv O (nabs O (nsub O a b)) w in if below then nneg O dd else dd.
  Fixpoint bin_distance (per : list bool) (lower upper w x : list T) (acc : T) : T :=
    match per, lower, upper, w, x with
    | p :: ps, l :: ls, u :: us, wi :: ws, xi :: xs =>
        if p then bin_distance ps ls us ws xs acc
        else
          let dl := signed_bins (nltb O xi l) xi l wi in
          let du := signed_bins (nltb O u xi) xi u wi in
          let acc := if nltb O dl acc then dl else acc in
          let acc := if nltb O du acc then du else acc in
          bin_distance ps ls us ws xs acc
    | _, _, _, _, _ => acc
    end.
  Definition bin_distance_from_boundaries (per : list bool) (lower upper w x : list T) : T :=
    bin_distance per lower upper w x (nofZ O 10000000000000000).

  (* init_from_colvars(add_extra_bin = true): values at the edges instead of the centres of the bins *)
  Definition extra_bin_dim (periodic : bool) (l u w : T) : T * T :=
    let h := nmul O (nhalf O) w in
    (nsub O l h, if periodic then nsub O u h else nadd O u h).
End Ops.
