From Coq Require Import Extraction ExtrOcamlBasic.
From CV Require Import Base.Num C15.GridModel C15.GridIOModel C15.GridOpsModel.
Extraction Language OCaml.
Extraction "model.ml" mkNumOps nhalf wrap value_to_bin bin_to_value bins index_ok strides nxc ntot
  address incr wrap_index nbins_round mkHistCfg mkHistIn hist_step hist_init hist_run mkGeom remap_target remap
  mkGrid all_indices strip write_raw read_raw write_multicol read_multicol grid_from_multicol
  get_state_params write_restart read_block parse_params read_restart mkCv init_bounds dx_origin dx_delta zeros
  write_raw_bin read_raw_bin normalise denormalise write_multicol_norm read_multicol_norm dec_round fmt_toks gather
  wrap_strict wrap_to_edge value_to_bin_bound bins_bound bin_fraction map_grid add_grid delta_grid multiply_constant add_constant
  remove_small_values extra_bin_dim init_dim bin_distance_from_boundaries.
