From Coq Require Import Extraction ExtrOcamlBasic.
From CV Require Import Base.Num C15.GridModel.
Extraction Language OCaml.
Extraction "model.ml" mkNumOps nhalf wrap value_to_bin bin_to_value bins index_ok strides nxc ntot
  address incr wrap_index nbins_round mkHistCfg mkHistIn hist_step hist_init hist_run mkGeom remap_target remap.
