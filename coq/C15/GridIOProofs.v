(* Lemmas about the grid file model (GridIOModel.v). *)
From Coq Require Import ZArith List Bool Reals Lra Lia Psatz Arith.
From Flocq Require Import Core.Raux.
From CV Require Import Base.Num Base.RNum C15.GridModel C15.GridProofs C15.GridIOModel.
Import ListNotations.

(* ------------------------------------------------------------------ the index loop visits the points in address order *)
Local Open Scope Z_scope.

Fixpoint Zrange (a : Z) (n : nat) : list Z := match n with O => [] | S n' => a :: Zrange (a + 1) n' end.
Fixpoint arange (a m : nat) (n : nat) : list nat := match n with O => [] | S n' => a :: arange (a + m) m n' end.

Lemma Zrange_length a n : length (Zrange a n) = n.
Proof. revert a; induction n as [|n IH]; intros a; cbn [Zrange length]; auto. Qed.
Lemma arange_length a m n : length (arange a m n) = n.
Proof. revert a; induction n as [|n IH]; intros a; cbn [arange length]; auto. Qed.

Lemma ntot_scale m nx : ntot m nx = m * ntot 1 nx.
Proof.
  induction nx as [|n ns IH].
  - unfold ntot; cbn. lia.
  - rewrite !ntot_cons, IH. ring.
Qed.

Lemma address_scale m nx ix : address m nx ix = m * address 1 nx ix.
Proof.
  revert ix; induction nx as [|n ns IH]; intros ix.
  - rewrite !address_nil. lia.
  - destruct ix as [|i is_].
    + unfold address, nxc. cbn [strides]. destruct (strides m ns), (strides 1 ns). cbn. lia.
    + rewrite !address_cons, IH, (ntot_scale m ns). ring.
Qed.

Lemma new_index_in_range nx : all_pos nx -> in_range nx (new_index nx).
Proof. intros H; induction H as [|n ns Hn _ IH]; cbn [new_index map]; constructor; auto; lia. Qed.

Lemma new_index_address m nx : address m nx (new_index nx) = 0.
Proof.
  induction nx as [|n ns IH]; [reflexivity|].
  cbn [new_index map]. rewrite address_cons. fold (new_index ns). rewrite IH. lia.
Qed.

Lemma npoints_Z nx : all_pos nx -> Z.of_nat (npoints nx) = ntot 1 nx.
Proof. intros H. unfold npoints. pose proof (strides_nt_pos 1 nx ltac:(lia) H). lia. Qed.

Lemma walk_from nx : all_pos nx -> nx <> [] -> forall fuel ix a,
  in_range nx ix -> address 1 nx ix = a -> a + Z.of_nat fuel = ntot 1 nx ->
  map (address 1 nx) (walk fuel nx ix) = Zrange a fuel /\ Forall (in_range nx) (walk fuel nx ix).
Proof.
  intros Hp Hne fuel; induction fuel as [|f IH]; intros ix a Hr Ha Hf.
  - cbn. split; constructor.
  - cbn [walk Zrange].
    assert (Hok : index_ok nx ix = true) by (apply index_ok_iff; auto). rewrite Hok.
    destruct (incr_spec 1 nx ix ltac:(lia) Hp Hr Hne) as [[Hi Hai]|[Hi Hai]].
    + apply index_ok_iff in Hi.
      destruct (IH (incr nx ix) (a + 1)) as [H1 H2]; auto; try lia.
      cbn [map]. rewrite H1, Ha. split; auto.
    + assert (f = 0%nat) by lia. subst f. cbn [walk map Zrange]. rewrite Ha. split; auto.
Qed.

(* write order = incr order = address order *)
Lemma all_indices_spec nx : all_pos nx -> nx <> [] ->
  map (address 1 nx) (all_indices nx) = Zrange 0 (npoints nx) /\ Forall (in_range nx) (all_indices nx).
Proof.
  intros Hp Hne. unfold all_indices. apply walk_from; auto.
  - apply new_index_in_range; auto.
  - apply new_index_address.
  - rewrite npoints_Z; auto.
Qed.

Lemma all_indices_length nx : all_pos nx -> nx <> [] -> length (all_indices nx) = npoints nx.
Proof.
  intros Hp Hne. destruct (all_indices_spec nx Hp Hne) as [H _].
  rewrite <- (map_length (address 1 nx)), H. apply Zrange_length.
Qed.

(* the loop is left by index_ok exactly after the last point: more fuel changes nothing *)
Lemma walk_more nx : all_pos nx -> nx <> [] -> forall fuel ix extra,
  in_range nx ix -> address 1 nx ix + Z.of_nat fuel = ntot 1 nx ->
  walk (fuel + extra) nx ix = walk fuel nx ix.
Proof.
  intros Hp Hne fuel; induction fuel as [|f IH]; intros ix extra Hr Hf.
  - pose proof (address_bounds 1 nx ix ltac:(lia) Hp Hr). lia.
  - cbn [walk Nat.add].
    assert (Hok : index_ok nx ix = true) by (apply index_ok_iff; auto). rewrite Hok.
    destruct (incr_spec 1 nx ix ltac:(lia) Hp Hr Hne) as [[Hi Hai]|[Hi Hai]].
    + apply index_ok_iff in Hi. rewrite IH; auto. lia.
    + assert (f = 0%nat) by lia. subst f. cbn [Nat.add walk].
      destruct extra; cbn [walk]; [reflexivity|]. rewrite Hi. reflexivity.
Qed.

Lemma walk_fuel_irrelevant nx extra : all_pos nx -> nx <> [] ->
  walk (npoints nx + extra) nx (new_index nx) = all_indices nx.
Proof.
  intros Hp Hne. unfold all_indices. apply walk_more; auto.
  - apply new_index_in_range; auto.
  - rewrite new_index_address, npoints_Z; auto.
Qed.

Lemma Zrange_to_arange mz a n : 0 < mz -> 0 <= a ->
  map (fun z => Z.to_nat (mz * z)) (Zrange a n) = arange (Z.to_nat (mz * a)) (Z.to_nat mz) n.
Proof.
  intros Hm; revert a; induction n as [|n IH]; intros a Ha; cbn [Zrange map arange]; [reflexivity|].
  f_equal. rewrite IH by lia. f_equal.
  rewrite Z.mul_add_distr_l, Z.mul_1_r. apply Z2Nat.inj_add; nia.
Qed.

Lemma all_addresses mz nx : 0 < mz -> all_pos nx -> nx <> [] ->
  map (fun ix => Z.to_nat (address mz nx ix)) (all_indices nx) = arange 0 (Z.to_nat mz) (npoints nx).
Proof.
  intros Hm Hp Hne. destruct (all_indices_spec nx Hp Hne) as [H _].
  transitivity (map (fun z => Z.to_nat (mz * z)) (map (address 1 nx) (all_indices nx))).
  - rewrite map_map. apply map_ext. intros ix. rewrite (address_scale mz). reflexivity.
  - rewrite H, Zrange_to_arange by lia. rewrite Z.mul_0_r. reflexivity.
Qed.

Local Close Scope Z_scope.

(* ------------------------------------------------------------------ lists *)
Section Lists.
  Context {A : Type}.

  Lemma upd_len (l : list A) k f : length (upd l k f) = length l.
  Proof. revert k; induction l; destruct k; cbn; auto. Qed.
  Lemma upd_same (l : list A) k f d : k < length l -> nth k (upd l k f) d = f (nth k l d).
  Proof. revert k; induction l; destruct k; cbn; intros; try lia; auto. apply IHl; lia. Qed.
  Lemma upd_other (l : list A) k j f d : k <> j -> nth j (upd l k f) d = nth j l d.
  Proof. revert k j; induction l; destruct k, j; cbn; intros; try congruence; auto. Qed.

  Lemma slice_length (l : list A) a n : a + n <= length l -> length (slice l a n) = n.
  Proof. intros H. unfold slice. rewrite firstn_length, skipn_length. lia. Qed.
  Lemma nth_firstn_lt (l : list A) n j d : j < n -> nth j (firstn n l) d = nth j l d.
  Proof.
    revert n j; induction l as [|x l IH]; intros n j H.
    - rewrite firstn_nil. reflexivity.
    - destruct n; [lia|]. destruct j; cbn; auto. apply IH; lia.
  Qed.
  Lemma nth_skipn_add (l : list A) a j d : nth j (skipn a l) d = nth (a + j) l d.
  Proof.
    revert l; induction a as [|a IH]; intros l; [reflexivity|].
    destruct l; cbn [skipn Nat.add nth]; [destruct j; reflexivity|]. apply IH.
  Qed.
  Lemma slice_nth (l : list A) a n j d : j < n -> nth j (slice l a n) d = nth (a + j) l d.
  Proof. intros H. unfold slice. rewrite nth_firstn_lt by auto. apply nth_skipn_add. Qed.

  Lemma nth_eq_lists (l1 l2 : list A) d : length l1 = length l2 ->
    (forall j, j < length l1 -> nth j l1 d = nth j l2 d) -> l1 = l2.
  Proof. intros H1 H2. apply (nth_ext l1 l2 d d); auto. Qed.

  Lemma skipn_add (l : list A) a b : skipn b (skipn a l) = skipn (a + b) l.
  Proof.
    revert l; induction a as [|a IH]; intros l; [reflexivity|].
    destruct l; cbn [skipn Nat.add]; [apply skipn_nil|]. apply IH.
  Qed.
  Lemma firstn_add (l : list A) a b : firstn (a + b) l = firstn a l ++ firstn b (skipn a l).
  Proof.
    revert l; induction a as [|a IH]; intros l; [reflexivity|].
    destruct l; cbn [skipn Nat.add firstn app]; [rewrite firstn_nil; reflexivity|]. f_equal. apply IH.
  Qed.

  (* consecutive slices of step m make up the list *)
  Lemma slices_concat (l : list A) m : forall n a,
    flat_map (fun k => slice l k m) (arange a m n) = slice l a (n * m).
  Proof.
    induction n as [|n IH]; intros a; cbn [arange flat_map]; [reflexivity|].
    rewrite IH. unfold slice.
    replace (S n * m) with (m + n * m) by lia.
    rewrite firstn_add, skipn_add. reflexivity.
  Qed.
End Lists.

(* ------------------------------------------------------------------ token streams (every carrier) *)
Section Tok.
  Context {T : Type} (O : NumOps T).
  Notation tk := (tok T).
  Notation d := (n0 O).

  Definition grid_wf (g : grid T) : Prop :=
    (0 < gr_mult g)%Z /\ all_pos (gr_nx g) /\ gr_nx g <> [] /\
    length (gr_data g) = Z.to_nat (ntot (gr_mult g) (gr_nx g)).

  Lemma wf_data_length g : grid_wf g -> length (gr_data g) = npoints (gr_nx g) * gmult g.
  Proof.
    intros (Hm & Hp & _ & Hl). rewrite Hl, ntot_scale. unfold npoints, gmult.
    pose proof (strides_nt_pos 1 (gr_nx g) ltac:(lia) Hp). rewrite Z2Nat.inj_mul by lia. lia.
  Qed.

  Lemma strip_app (a b : list tk) : strip (a ++ b) = strip a ++ strip b.
  Proof. unfold strip. apply filter_app. Qed.
  Lemma strip_nums (xs : list T) : strip (map TNum xs) = map TNum xs.
  Proof. induction xs as [|x xs IH]; cbn; [reflexivity|]. f_equal. exact IH. Qed.
  Lemma strip_ints (xs : list Z) : strip (map (@TInt T) xs) = map TInt xs.
  Proof. induction xs as [|x xs IH]; cbn; [reflexivity|]. f_equal. exact IH. Qed.
  Lemma strip_flat_map {B} (f : B -> list tk) (l : list B) : strip (flat_map f l) = flat_map (fun x => strip (f x)) l.
  Proof. induction l as [|x l IH]; cbn [flat_map]; [reflexivity|]. rewrite strip_app, IH. reflexivity. Qed.
  Lemma strip_idem (l : list tk) : strip (strip l) = strip l.
  Proof.
    induction l as [|t l IH]; [reflexivity|]. unfold strip in *. cbn [filter].
    destruct (negb (is_nl t)) eqn:E; cbn [filter]; [rewrite E; f_equal|]; exact IH.
  Qed.

  Lemma strip_wrap_lines buf c (vs : list T) : strip (wrap_lines buf c vs) = map TNum vs.
  Proof.
    revert c; induction vs as [|v vs IH]; intros c; cbn [wrap_lines map].
    - destruct (Nat.eqb _ 0); reflexivity.
    - change (TNum v :: ?l) with ([TNum v] ++ l). rewrite !strip_app, IH.
      destruct (Nat.eqb _ 0); reflexivity.
  Qed.

  Lemma map_flat_map {B C D} (f : C -> D) (g : B -> list C) (l : list B) :
    map f (flat_map g l) = flat_map (fun x => map f (g x)) l.
  Proof. induction l as [|x l IH]; cbn [flat_map map]; [reflexivity|]. rewrite map_app, IH. reflexivity. Qed.
  Lemma flat_map_map' {B C D} (f : C -> list D) (g : B -> C) (l : list B) :
    flat_map f (map g l) = flat_map (fun x => f (g x)) l.
  Proof. induction l as [|x l IH]; cbn [flat_map map]; [reflexivity|]. rewrite IH. reflexivity. Qed.

  (* ---- reading numbers *)
  Lemma take_nums_app (xs : list T) r : take_nums O (length xs) (map TNum xs ++ r) = Some (xs, r).
  Proof. induction xs as [|x xs IH]; cbn; [reflexivity|]. rewrite IH. reflexivity. Qed.
  Lemma take_ints_app (xs : list Z) (r : list tk) : take_ints (length xs) (map TInt xs ++ r) = Some (xs, r).
  Proof. induction xs as [|x xs IH]; cbn; [reflexivity|]. rewrite IH. reflexivity. Qed.

  Fixpoint lead (s : list tk) : nat :=
    match s with [] => 0 | t :: r => match tok_num O t with Some _ => S (lead r) | None => 0 end end.

  Lemma take_nums_lead n s xs r : take_nums O n s = Some (xs, r) ->
    length xs = n /\ n <= lead s /\ lead r = lead s - n /\ length s = n + length r.
  Proof.
    revert s xs r; induction n as [|n IH]; intros s xs r H; cbn in H.
    - injection H as <- <-. cbn. lia.
    - destruct s as [|t s]; [discriminate|]. destruct (tok_num O t) eqn:E; [|discriminate].
      destruct (take_nums O n s) as [[ys r']|] eqn:E2; [|discriminate].
      injection H as <- <-. destruct (IH _ _ _ E2) as (H1 & H2 & H3 & H4).
      cbn [lead length]. rewrite E. lia.
  Qed.

  Lemma lead_nums (vs : list T) (r : list tk) : lead r = 0 -> lead (map TNum vs ++ r) = length vs.
  Proof. intros H. induction vs as [|v vs IH]; cbn [map app lead tok_num length]; auto. Qed.

  (* ---- entering values *)
  Lemma set_values_len add (vs : list T) : forall data a, length (set_values O add data a vs) = length data.
  Proof. induction vs as [|v vs IH]; intros data a; cbn [set_values]; auto. rewrite IH. apply upd_len. Qed.

  Lemma set_values_nth add (vs : list T) : forall data a j, a + length vs <= length data ->
    nth j (set_values O add data a vs) d =
    if (a <=? j) && (j <? a + length vs) then comb O add (nth j data d) (nth (j - a) vs d) else nth j data d.
  Proof.
    induction vs as [|v vs IH]; intros data a j H; cbn [set_values length] in *.
    - destruct (Nat.leb_spec a j), (Nat.ltb_spec j (a + 0)); cbn; auto; lia.
    - rewrite IH by (rewrite upd_len; lia).
      destruct (Nat.eq_dec j a) as [->|Hne].
      + replace ((S a <=? a) && (a <? S a + length vs)) with false
          by (symmetry; apply andb_false_iff; left; apply Nat.leb_gt; lia).
        replace ((a <=? a) && (a <? a + S (length vs))) with true
          by (symmetry; apply andb_true_iff; split; [apply Nat.leb_le|apply Nat.ltb_lt]; lia).
        rewrite upd_same by lia. rewrite Nat.sub_diag. reflexivity.
      + rewrite upd_other by lia.
        replace (j <? a + S (length vs)) with (j <? S a + length vs) by (f_equal; lia).
        destruct (Nat.leb_spec (S a) j), (Nat.leb_spec a j); cbn [andb]; try lia; auto.
        destruct (Nat.ltb_spec j (S a + length vs)); auto.
        replace (j - a) with (S (j - S a)) by lia. reflexivity.
  Qed.

  (* ---- the reading loop over the points, on a stream that contains, per point, [skip] numbers
     and the mult values of [src] at the point's address *)
  Lemma read_points_ok skip m add mz nx (src data0 : list T) (xs_of : list Z -> list T) :
    forall ixs a data rest,
    map (fun ix => Z.to_nat (address mz nx ix)) ixs = arange a m (length ixs) ->
    length data = length src -> length data0 = length src -> a + length ixs * m <= length src ->
    (forall ix, In ix ixs -> length (xs_of ix) = skip) ->
    (forall j, j < a -> nth j data d = comb O add (nth j data0 d) (nth j src d)) ->
    (forall j, a <= j -> nth j data d = nth j data0 d) ->
    exists data',
      read_points O skip m add mz nx ixs
        (flat_map (fun ix => map TNum (xs_of ix) ++ map TNum (slice src (Z.to_nat (address mz nx ix)) m)) ixs ++ rest)
        data = Some (data', rest)
      /\ length data' = length src
      /\ (forall j, j < a + length ixs * m -> nth j data' d = comb O add (nth j data0 d) (nth j src d))
      /\ (forall j, a + length ixs * m <= j -> nth j data' d = nth j data0 d).
  Proof.
    induction ixs as [|ix r IH]; intros a data rest Hmap Hl Hl0 Hb Hxs Hlo Hhi.
    - exists data. cbn. repeat split; auto; intros j Hj; [apply Hlo | apply Hhi]; lia.
    - cbn [map length arange] in Hmap. injection Hmap as Ha Hmap.
      cbn [flat_map read_points length] in *. rewrite Ha.
      rewrite <- !app_assoc.
      assert (Ht1 : forall tl, take_nums O skip (map TNum (xs_of ix) ++ tl) = Some (xs_of ix, tl)).
      { intros tl. rewrite <- (Hxs ix (or_introl eq_refl)). apply take_nums_app. }
      assert (Hsl : length (slice src a m) = m) by (apply slice_length; lia).
      assert (Ht2 : forall tl, take_nums O m (map TNum (slice src a m) ++ tl) = Some (slice src a m, tl)).
      { intros tl. rewrite <- Hsl at 1. apply take_nums_app. }
      rewrite Ht1, Ht2.
      set (data1 := set_values O add data a (slice src a m)).
      assert (G1 : length data1 = length src) by (unfold data1; rewrite set_values_len; exact Hl).
      assert (G2 : forall ix0, In ix0 r -> length (xs_of ix0) = skip) by (intros ix0 Hin; apply Hxs; right; exact Hin).
      assert (G3 : forall j, j < a + m -> nth j data1 d = comb O add (nth j data0 d) (nth j src d)).
      { intros j Hj. unfold data1. rewrite set_values_nth by (rewrite Hsl; lia). rewrite Hsl.
        destruct (Nat.leb_spec a j), (Nat.ltb_spec j (a + m)); cbn [andb]; try lia.
        - rewrite slice_nth by lia. rewrite Hhi by lia. f_equal. f_equal. lia.
        - apply Hlo; lia. }
      assert (G4 : forall j, a + m <= j -> nth j data1 d = nth j data0 d).
      { intros j Hj. unfold data1. rewrite set_values_nth by (rewrite Hsl; lia). rewrite Hsl.
        destruct (Nat.leb_spec a j), (Nat.ltb_spec j (a + m)); cbn [andb]; try lia. apply Hhi; lia. }
      destruct (IH (a + m) data1 rest Hmap G1 Hl0 ltac:(lia) G2 G3 G4) as (data' & H1 & H2 & H3 & H4).
      exists data'. repeat split; auto.
      + intros j Hj. apply H3. lia.
      + intros j Hj. apply H4. lia.
  Qed.

  (* a successful read consumed, per point, skip + mult numbers *)
  Lemma read_points_lead skip m add mz nx : forall ixs s data data' r,
    read_points O skip m add mz nx ixs s data = Some (data', r) ->
    length ixs * (skip + m) <= lead s /\ length s = length ixs * (skip + m) + length r.
  Proof.
    induction ixs as [|ix ixs IH]; intros s data data' r H; cbn [read_points length] in *.
    - injection H as <- <-. lia.
    - destruct (take_nums O skip s) as [[xs s1]|] eqn:E1; [|discriminate].
      destruct (take_nums O m s1) as [[vs s2]|] eqn:E2; [|discriminate].
      apply take_nums_lead in E1. apply take_nums_lead in E2. apply IH in H. lia.
  Qed.

  (* ---- raw form *)
  Lemma raw_values_data g : grid_wf g -> raw_values g = gr_data g.
  Proof.
    intros Hwf. pose proof (wf_data_length g Hwf) as Hl. destruct Hwf as (Hm & Hp & Hne & _).
    unfold raw_values, point_values, gaddr.
    rewrite <- (flat_map_map' (fun k => slice (gr_data g) k (gmult g)) (fun ix => Z.to_nat (address (gr_mult g) (gr_nx g) ix))).
    rewrite all_addresses by auto. fold (gmult g). rewrite slices_concat.
    unfold slice. cbn [skipn]. apply firstn_all2. lia.
  Qed.

  Lemma strip_write_raw buf g : grid_wf g -> strip (write_raw buf g) = map TNum (gr_data g).
  Proof. intros H. unfold write_raw. rewrite strip_wrap_lines, raw_values_data; auto. Qed.

  Definition same_shape (g0 g : grid T) : Prop := gr_mult g0 = gr_mult g /\ gr_nx g0 = gr_nx g.

  Lemma nums_as_points g : grid_wf g ->
    map TNum (gr_data g) =
    flat_map (fun ix => map TNum (@nil T) ++ map TNum (slice (gr_data g) (Z.to_nat (address (gr_mult g) (gr_nx g) ix)) (gmult g)))
             (all_indices (gr_nx g)).
  Proof.
    intros H. rewrite <- (raw_values_data g H) at 1. unfold raw_values. rewrite map_flat_map. reflexivity.
  Qed.

  Lemma read_raw_s_roundtrip g g0 rest : grid_wf g -> grid_wf g0 -> same_shape g0 g ->
    read_raw_s O g0 (map TNum (gr_data g) ++ rest) = Some (set_data g0 (gr_data g), rest).
  Proof.
    intros Hwf Hwf0 [Hsm Hsn]. unfold read_raw_s.
    pose proof (wf_data_length g Hwf) as Hl. pose proof (wf_data_length g0 Hwf0) as Hl0.
    rewrite (nums_as_points g Hwf).
    destruct Hwf as (Hm & Hp & Hne & _).
    unfold gmult in *. rewrite Hsm, Hsn in *.
    assert (Hlen : length (all_indices (gr_nx g)) = npoints (gr_nx g)) by (apply all_indices_length; auto).
    assert (A1 : map (fun ix => Z.to_nat (address (gr_mult g) (gr_nx g) ix)) (all_indices (gr_nx g))
                 = arange 0 (Z.to_nat (gr_mult g)) (length (all_indices (gr_nx g)))).
    { rewrite Hlen. apply all_addresses; auto. }
    assert (A2 : 0 + length (all_indices (gr_nx g)) * Z.to_nat (gr_mult g) <= length (gr_data g)) by (rewrite Hlen; lia).
    assert (A3 : forall j, j < 0 -> nth j (gr_data g0) d = comb O false (nth j (gr_data g0) d) (nth j (gr_data g) d))
      by (intros j Hj; lia).
    destruct (read_points_ok 0 (Z.to_nat (gr_mult g)) false (gr_mult g) (gr_nx g) (gr_data g) (gr_data g0) (fun _ => [])
                (all_indices (gr_nx g)) 0 (gr_data g0) rest A1 ltac:(lia) ltac:(lia) A2 ltac:(intros; reflexivity) A3
                ltac:(intros; reflexivity)) as (data' & H1 & H2 & H3 & _).
    rewrite H1. f_equal. f_equal. f_equal.
    apply (nth_eq_lists data' (gr_data g) d); auto.
    intros j Hj. rewrite H3; [reflexivity|]. rewrite Hlen. lia.
  Qed.

  (* read_raw (write_raw g) = g : the values come back in the same elements, for every shape,
     multiplicity and line length *)
  Lemma raw_roundtrip buf g g0 rest : grid_wf g -> grid_wf g0 -> same_shape g0 g ->
    read_raw O g0 (write_raw buf g ++ rest) = Some (set_data g0 (gr_data g), strip rest).
  Proof.
    intros Hwf Hwf0 Hs. unfold read_raw. rewrite strip_app, strip_write_raw by auto.
    apply read_raw_s_roundtrip; auto.
  Qed.

  (* fewer numbers than grid elements: rejected, never a partially filled grid *)
  Lemma raw_short_rejected g toks : grid_wf g ->
    lead (strip toks) < length (gr_data g) -> read_raw O g toks = None.
  Proof.
    intros Hwf Hlt. unfold read_raw, read_raw_s.
    destruct (read_points O 0 (gmult g) false (gr_mult g) (gr_nx g) (all_indices (gr_nx g)) (strip toks) (gr_data g))
      as [[d' r]|] eqn:E; [|reflexivity].
    apply read_points_lead in E. rewrite (wf_data_length g Hwf) in Hlt.
    destruct Hwf as (_ & Hp & Hne & _). rewrite all_indices_length in E by auto. cbn in E. lia.
  Qed.
End Tok.

(* ------------------------------------------------------------------ multicolumn form: stream structure (every carrier) *)
Section Multicol.
  Context {T : Type} (O : NumOps T).
  Notation tk := (tok T).

  Fixpoint header_toks (lower width : list T) (nx : list Z) (per : list bool) : list tk :=
    match lower, width, nx, per with
    | l :: ls, w :: ws, n :: ns, p :: ps =>
        THash :: TNum l :: TNum w :: TInt n :: TInt (b2z p) :: header_toks ls ws ns ps
    | _, _, _, _ => []
    end.
  Fixpoint header_vals (lower width : list T) (nx : list Z) (per : list bool) : list (T * T * Z * Z) :=
    match lower, width, nx, per with
    | l :: ls, w :: ws, n :: ns, p :: ps => (l, w, n, b2z p) :: header_vals ls ws ns ps
    | _, _, _, _ => []
    end.

  Lemma strip_header_lines lower width nx per :
    strip (header_lines lower width nx per) = header_toks lower width nx per.
  Proof.
    revert width nx per; induction lower as [|l ls IH]; intros [|w ws] [|n ns] [|p ps]; try reflexivity.
    cbn [header_lines header_toks]. unfold strip in *. cbn [filter is_nl negb]. rewrite IH. reflexivity.
  Qed.

  Lemma read_header_ok : forall n lower width nx per r,
    length lower = n -> length width = n -> length nx = n -> length per = n ->
    read_header O n (header_toks lower width nx per ++ r) = Some (header_vals lower width nx per, r).
  Proof.
    induction n as [|n IH]; intros [|l ls] [|w ws] [|k ks] [|p ps] r H1 H2 H3 H4; try discriminate; [reflexivity|].
    cbn [header_toks header_vals app read_header tok_num]. cbn [length] in *.
    rewrite IH by lia. reflexivity.
  Qed.

  Lemma header_toks_length : forall n lower width nx per,
    length lower = n -> length width = n -> length nx = n -> length per = n ->
    length (header_toks lower width nx per) = 5 * n.
  Proof.
    induction n as [|n IH]; intros [|l ls] [|w ws] [|k ks] [|p ps] H1 H2 H3 H4; try discriminate; [reflexivity|].
    cbn [header_toks length] in *. rewrite (IH ls ws ks ps) by lia. lia.
  Qed.

  Lemma read_header_len : forall n s h r, read_header O n s = Some (h, r) ->
    length s = 5 * n + length r /\ length h = n.
  Proof.
    induction n as [|n IH]; intros s h r H; cbn [read_header] in H.
    - injection H as <- <-. cbn. lia.
    - destruct s as [|[x|z| | |k| | |] s]; try discriminate.
      destruct s as [|a s]; try discriminate. destruct s as [|b s]; try discriminate.
      destruct s as [|[x|nxr| | |k| | |] s]; try discriminate.
      destruct s as [|[x|pf| | |k| | |] s]; try discriminate.
      destruct (tok_num O a); try discriminate. destruct (tok_num O b); try discriminate.
      destruct (read_header O n s) as [[h' r']|] eqn:E; try discriminate.
      injection H as <- <-. apply IH in E. cbn [length]. lia.
  Qed.

  Lemma bin_centers_length : forall lower width ix,
    length lower = length ix -> length width = length ix -> length (bin_centers O lower width ix) = length ix.
  Proof.
    induction lower as [|l ls IH]; intros [|w ws] [|i is_] H1 H2; try discriminate; [reflexivity|].
    cbn [bin_centers length] in *. rewrite IH by lia. reflexivity.
  Qed.

  Definition geom_wf (g : grid T) : Prop :=
    length (gr_lower g) = gnd g /\ length (gr_width g) = gnd g /\ length (gr_per g) = gnd g.
  Definition same_geom (g0 g : grid T) : Prop :=
    same_shape g0 g /\ gr_lower g0 = gr_lower g /\ gr_width g0 = gr_width g.

  Definition multicol_rows (g : grid T) : list tk :=
    flat_map (fun ix => map TNum (bin_centers O (gr_lower g) (gr_width g) ix) ++
                        map TNum (slice (gr_data g) (Z.to_nat (address (gr_mult g) (gr_nx g) ix)) (gmult g)))
             (all_indices (gr_nx g)).

  Lemma strip_write_multicol g :
    strip (write_multicol O g) =
    THash :: TInt (Z.of_nat (gnd g)) :: header_toks (gr_lower g) (gr_width g) (gr_nx g) (gr_per g) ++ multicol_rows g.
  Proof.
    unfold write_multicol.
    change (THash :: TInt (Z.of_nat (gnd g)) :: TNl :: ?l) with ([THash; TInt (Z.of_nat (gnd g)); TNl] ++ l).
    rewrite !strip_app, strip_header_lines, strip_flat_map. cbn [strip filter is_nl negb app].
    f_equal. f_equal. f_equal. unfold multicol_rows. apply flat_map_ext. intros ix.
    unfold multicol_row, point_values, gaddr. rewrite !strip_app, !strip_nums.
    destruct (last ix 1 =? 0)%Z; cbn; rewrite app_nil_r; reflexivity.
  Qed.

  Lemma in_range_length nx ix : in_range nx ix -> length ix = length nx.
  Proof. intros H. induction H as [|i n is_ ns _ _ IH]; cbn [length]; auto. Qed.

  (* reading the rows of a written file on the same-grid path *)
  Lemma read_rows_ok add g g0 rest : grid_wf g -> geom_wf g -> grid_wf g0 -> same_geom g0 g ->
    exists data',
      read_points O (gnd g0) (gmult g0) add (gr_mult g0) (gr_nx g0) (all_indices (gr_nx g0))
                  (multicol_rows g ++ rest) (gr_data g0) = Some (data', rest)
      /\ length data' = length (gr_data g)
      /\ forall j, j < length (gr_data g) ->
           nth j data' (n0 O) = comb O add (nth j (gr_data g0) (n0 O)) (nth j (gr_data g) (n0 O)).
  Proof.
    intros Hwf (Hg1 & Hg2 & Hg3) Hwf0 ((Hsm & Hsn) & Hsl & Hsw).
    pose proof (wf_data_length g Hwf) as Hl. pose proof (wf_data_length g0 Hwf0) as Hl0.
    destruct Hwf as (Hm & Hp & Hne & _).
    unfold gmult, gnd in *. rewrite Hsm, Hsn in *.
    assert (Hlen : length (all_indices (gr_nx g)) = npoints (gr_nx g)) by (apply all_indices_length; auto).
    assert (A1 : map (fun ix => Z.to_nat (address (gr_mult g) (gr_nx g) ix)) (all_indices (gr_nx g))
                 = arange 0 (Z.to_nat (gr_mult g)) (length (all_indices (gr_nx g)))).
    { rewrite Hlen. apply all_addresses; auto. }
    assert (A2 : 0 + length (all_indices (gr_nx g)) * Z.to_nat (gr_mult g) <= length (gr_data g)) by (rewrite Hlen; lia).
    assert (A3 : forall j, j < 0 -> nth j (gr_data g0) (n0 O) = comb O add (nth j (gr_data g0) (n0 O)) (nth j (gr_data g) (n0 O)))
      by (intros j Hj; lia).
    assert (A4 : forall ix, In ix (all_indices (gr_nx g)) ->
                 length (bin_centers O (gr_lower g) (gr_width g) ix) = length (gr_nx g)).
    { intros ix Hin. destruct (all_indices_spec (gr_nx g) Hp Hne) as [_ Hall].
      rewrite Forall_forall in Hall. pose proof (in_range_length _ _ (Hall ix Hin)) as Hix.
      rewrite bin_centers_length; lia. }
    destruct (read_points_ok O (length (gr_nx g)) (Z.to_nat (gr_mult g)) add (gr_mult g) (gr_nx g) (gr_data g) (gr_data g0)
                (bin_centers O (gr_lower g) (gr_width g))
                (all_indices (gr_nx g)) 0 (gr_data g0) rest A1 ltac:(lia) ltac:(lia) A2 A4 A3
                ltac:(intros; reflexivity)) as (data' & H1 & H2 & H3 & _).
    exists data'. unfold multicol_rows, gmult. split; [exact H1|]. split; [exact H2|].
    intros j Hj. apply H3. rewrite Hlen. lia.
  Qed.
End Multicol.

(* ------------------------------------------------------------------ multicolumn form over R *)
Section MulticolR.
  Local Open Scope R_scope.
  Notation tk := (tok R).

  Lemma tol10_pos : 0 < tol10 Rops.
  Proof. unfold tol10; cbn. apply Rdiv_lt_0_compat; [lra|]. apply IZR_lt. lia. Qed.

  Lemma nabs_R x : nabs Rops x = Rabs x.
  Proof.
    unfold nabs; cbn. unfold Rltb. destruct (Rlt_dec x 0).
    - rewrite Rabs_left; auto.
    - rewrite Rabs_right; auto. lra.
  Qed.

  Lemma not_far_self x : nltb Rops (tol10 Rops) (nabs Rops (nsub Rops x x)) = false.
  Proof.
    rewrite nabs_R. cbn. replace (x - x) with 0 by ring. rewrite Rabs_R0.
    apply Rltb_false. pose proof tol10_pos. lra.
  Qed.

  Lemma need_remap_self lower width nx per :
    need_remap Rops (header_vals lower width nx per) lower width nx = false.
  Proof.
    revert width nx per; induction lower as [|l ls IH]; intros [|w ws] [|n ns] [|p ps]; try reflexivity.
    cbn [header_vals need_remap]. rewrite !not_far_self, Z.eqb_refl, IH. reflexivity.
  Qed.

  (* read_multicol (write_multicol g) on a grid of the same geometry: every element receives the value
     written for it (add = false), or has it added (add = true); nothing is left in the stream *)
  Lemma multicol_read_written add (g g0 : grid R) :
    grid_wf g -> geom_wf g -> grid_wf g0 -> same_geom g0 g ->
    exists data',
      read_multicol Rops add g0 (write_multicol Rops g) = Some (set_data g0 data', [])
      /\ length data' = length (gr_data g)
      /\ forall j, (j < length (gr_data g))%nat ->
           nth j data' 0 = comb Rops add (nth j (gr_data g0) 0) (nth j (gr_data g) 0).
  Proof.
    intros Hwf Hg Hwf0 Hs.
    destruct (read_rows_ok Rops add g g0 [] Hwf Hg Hwf0 Hs) as (data' & H1 & H2 & H3).
    exists data'. split; [|split; auto].
    unfold read_multicol. rewrite strip_write_multicol. unfold read_multicol_s.
    destruct Hg as (Hg1 & Hg2 & Hg3). destruct Hs as ((Hsm & Hsn) & Hsl & Hsw).
    assert (Hnd : gnd g0 = gnd g) by (unfold gnd; rewrite Hsn; reflexivity).
    assert (Hpos0 : (0 <? Z.of_nat (gnd g))%Z = true).
    { destruct Hwf as (_ & _ & Hne0 & _). unfold gnd. destruct (gr_nx g); [congruence|]. reflexivity. }
    rewrite Hnd, Z.eqb_refl, Hpos0. cbn [andb].
    rewrite read_header_ok by (unfold gnd in *; lia).
    rewrite Hsl, Hsw, Hsn, need_remap_self. rewrite <- Hsn, <- Hnd.
    rewrite app_nil_r in H1. cbn in H1. rewrite H1. reflexivity.
  Qed.

  Lemma multicol_roundtrip (g g0 : grid R) :
    grid_wf g -> geom_wf g -> grid_wf g0 -> same_geom g0 g ->
    read_multicol Rops false g0 (write_multicol Rops g) = Some (set_data g0 (gr_data g), []).
  Proof.
    intros Hwf Hg Hwf0 Hs.
    destruct (multicol_read_written false g g0 Hwf Hg Hwf0 Hs) as (data' & H1 & H2 & H3).
    rewrite H1. f_equal. f_equal. f_equal.
    apply (nth_eq_lists data' (gr_data g) 0); auto.
    intros j Hj. rewrite H3 by lia. reflexivity.
  Qed.

  Lemma hv_proj : forall (lower width : list R) (nx : list Z) (per : list bool),
    length lower = length nx -> length width = length nx -> length per = length nx ->
    map (fun e => snd (fst e)) (header_vals lower width nx per) = nx /\
    map (fun e => fst (fst (fst e))) (header_vals lower width nx per) = lower /\
    map (fun e => snd (fst (fst e))) (header_vals lower width nx per) = width /\
    map (fun e => negb (snd e =? 0)%Z) (header_vals lower width nx per) = per.
  Proof.
    induction lower as [|l ls IH]; intros [|w ws] [|n ns] [|p ps] H1 H2 H3; try discriminate; [repeat split|].
    cbn [header_vals map fst snd length] in *.
    destruct (IH ws ns ps) as (A & B & C & D); try lia. rewrite A, B, C, D.
    repeat split. destruct p; reflexivity.
  Qed.

  Lemma all_pos_forallb nx : all_pos nx -> forallb (fun k => (0 <? k)%Z) nx = true.
  Proof. intros H; induction H as [|n ns Hn _ IH]; cbn [forallb]; auto. rewrite IH. destruct (Z.ltb_spec 0 n); auto; lia. Qed.

  (* the constructor from a file: sizes, lower boundaries, widths, periodicity flags and data all come
     from the file; the upper boundaries are not in the file and are left empty *)
  Lemma multicol_file_roundtrip (g : grid R) : grid_wf g -> geom_wf g ->
    grid_from_multicol Rops (gr_mult g) (write_multicol Rops g) =
    Some (mkGrid (gr_mult g) (gr_nx g) (gr_lower g) [] (gr_width g) (gr_per g) (gr_data g), []).
  Proof.
    intros Hwf Hg. pose proof Hwf as (Hm & Hp & Hne & Hl). pose proof Hg as (Hg1 & Hg2 & Hg3).
    unfold grid_from_multicol. rewrite strip_write_multicol.
    assert (Hnd : (0 < gnd g)%nat) by (unfold gnd; destruct (gr_nx g); [congruence | cbn; lia]).
    destruct (Z.ltb_spec 0 (Z.of_nat (gnd g))) as [_|]; [|lia].
    rewrite Nat2Z.id, read_header_ok by (unfold gnd in *; lia).
    destruct (hv_proj (gr_lower g) (gr_width g) (gr_nx g) (gr_per g)) as (A & B & C & D); try (unfold gnd in *; lia).
    rewrite A, B, C, D, (all_pos_forallb _ Hp).
    destruct (Z.eqb_spec (gr_mult g) 0) as [|_]; [lia|].
    destruct (Z.ltb_spec 0 (gr_mult g)) as [_|]; [|lia]. cbn [andb].
    rewrite multicol_roundtrip; auto.
    - repeat split; auto; cbn [gr_mult gr_nx gr_data]. unfold zeros. apply repeat_length.
    - repeat split; auto.
  Qed.

  Lemma firstn_app_ge {A} (l1 l2 : list A) n : (length l1 <= n)%nat ->
    firstn n (l1 ++ l2) = l1 ++ firstn (n - length l1) l2.
  Proof. intros H. rewrite firstn_app, firstn_all2 by lia. reflexivity. Qed.

  (* a truncated multicolumn file (any strict prefix of the written token stream) is never accepted *)
  Lemma multicol_truncated_rejected add (g g0 : grid R) n :
    grid_wf g -> geom_wf g -> grid_wf g0 -> same_geom g0 g ->
    (n < length (strip (write_multicol Rops g)))%nat ->
    read_multicol_s Rops add g0 (firstn n (strip (write_multicol Rops g))) = None.
  Proof.
    intros Hwf Hg Hwf0 Hs Hn. pose proof Hg as (Hg1 & Hg2 & Hg3). pose proof Hs as ((Hsm & Hsn) & Hsl & Hsw).
    rewrite strip_write_multicol in *.
    assert (Hnd : gnd g0 = gnd g) by (unfold gnd; rewrite Hsn; reflexivity).
    set (H := header_toks (gr_lower g) (gr_width g) (gr_nx g) (gr_per g)) in *.
    assert (HH : length H = (5 * gnd g)%nat) by (apply header_toks_length; unfold gnd in *; lia).
    destruct n as [|[|n]]; [reflexivity | reflexivity |].
    cbn [firstn read_multicol_s].
    assert (Hpos0 : (0 <? Z.of_nat (gnd g))%Z = true).
    { destruct Hwf as (_ & _ & Hne0 & _). unfold gnd. destruct (gr_nx g); [congruence|]. reflexivity. }
    rewrite Hnd, Z.eqb_refl, Hpos0. cbn [andb].
    destruct (read_header Rops (gnd g) (firstn n (H ++ multicol_rows Rops g))) as [[h s2]|] eqn:E; [|reflexivity].
    pose proof (read_header_len Rops _ _ _ _ E) as [El _].
    cbn [length] in Hn. rewrite app_length in Hn.
    assert (Hge : (length H <= n)%nat).
    { rewrite firstn_length in El. lia. }
    rewrite firstn_app_ge in E by auto. unfold H in E.
    rewrite read_header_ok in E by (unfold gnd in *; lia). injection E as <- <-.
    rewrite Hsl, Hsw, Hsn, need_remap_self.
    destruct (read_points Rops (gnd g) (gmult g0) add (gr_mult g0) (gr_nx g) (all_indices (gr_nx g))
                (firstn (n - length (header_toks (gr_lower g) (gr_width g) (gr_nx g) (gr_per g))) (multicol_rows Rops g))
                (gr_data g0)) as [[d' r]|] eqn:E2; [|reflexivity].
    exfalso. apply read_points_lead in E2. destruct E2 as [_ E2].
    rewrite firstn_length in E2. fold H in E2.
    (* the rows of the written file have exactly npoints * (nd + mult) tokens *)
    destruct (read_rows_ok Rops add g g0 [] Hwf Hg Hwf0 Hs) as (data' & R1 & _ & _).
    apply read_points_lead in R1. destruct R1 as [_ R1]. rewrite app_nil_r in R1. cbn [length] in R1.
    rewrite Hnd, Hsn in R1. lia.
  Qed.
End MulticolR.

(* ------------------------------------------------------------------ restart form: stream structure (every carrier) *)
Section StateTok.
  Context {T : Type} (O : NumOps T).
  Notation tk := (tok T).

  Lemma line_rest_nums (xs : list T) (r : list tk) : line_rest (map TNum xs ++ TNl :: r) = map TNum xs.
  Proof. induction xs as [|x xs IH]; cbn [map app line_rest]; [reflexivity|]. rewrite IH. reflexivity. Qed.
  Lemma line_rest_ints (xs : list Z) (r : list tk) : line_rest (map TInt xs ++ TNl :: r) = map TInt xs.
  Proof. induction xs as [|x xs IH]; cbn [map app line_rest]; [reflexivity|]. rewrite IH. reflexivity. Qed.
  Lemma lookup_skip_nums k (xs : list T) (r : list tk) : lookup k (map TNum xs ++ r) = lookup k r.
  Proof. induction xs as [|x xs IH]; cbn [map app lookup]; auto. Qed.

  Definition conf_of (g : grid T) : list tk := TNl :: get_state_params g.

  Lemma lookup_ncolvars g : lookup KNColvars (conf_of g) = Some [TInt (Z.of_nat (gnd g))].
  Proof. reflexivity. Qed.
  Lemma lookup_lower g : lookup KLower (conf_of g) = Some (map TNum (gr_lower g)).
  Proof. unfold conf_of, get_state_params. cbn [app lookup gkey_eqb]. rewrite line_rest_nums. reflexivity. Qed.
  Lemma lookup_upper g : lookup KUpper (conf_of g) = Some (map TNum (gr_upper g)).
  Proof.
    unfold conf_of, get_state_params. cbn [app lookup gkey_eqb]. rewrite lookup_skip_nums.
    cbn [app lookup gkey_eqb]. rewrite line_rest_nums. reflexivity.
  Qed.
  Lemma lookup_widths g : lookup KWidths (conf_of g) = Some (map TNum (gr_width g)).
  Proof.
    unfold conf_of, get_state_params. cbn [app lookup gkey_eqb]. rewrite lookup_skip_nums.
    cbn [app lookup gkey_eqb]. rewrite lookup_skip_nums. cbn [app lookup gkey_eqb].
    rewrite line_rest_nums. reflexivity.
  Qed.
  Lemma lookup_sizes g : lookup KSizes (conf_of g) = Some (map TInt (gr_nx g)).
  Proof.
    unfold conf_of, get_state_params. cbn [app lookup gkey_eqb]. rewrite lookup_skip_nums.
    cbn [app lookup gkey_eqb]. rewrite lookup_skip_nums. cbn [app lookup gkey_eqb].
    rewrite lookup_skip_nums. cbn [app lookup gkey_eqb].
    change [TNl] with (@TNl T :: []). rewrite line_rest_ints. reflexivity.
  Qed.

  Lemma get_vec_found k conf (xs cur : list T) : lookup k conf = Some (map TNum xs) ->
    xs <> [] -> length cur = length xs -> get_vec O k conf cur = Some xs.
  Proof.
    intros H Hne Hl. unfold get_vec. rewrite H.
    destruct xs as [|x xs]; [congruence|]. cbn [map]. change (TNum x :: map TNum xs) with (map (@TNum T) (x :: xs)).
    rewrite Hl, <- (app_nil_r (map TNum (x :: xs))), take_nums_app. reflexivity.
  Qed.
  Lemma get_ints_found k (conf : list tk) (xs cur : list Z) : lookup k conf = Some (map TInt xs) ->
    xs <> [] -> length cur = length xs -> get_ints k conf cur = Some xs.
  Proof.
    intros H Hne Hl. unfold get_ints. rewrite H.
    destruct xs as [|x xs]; [congruence|]. cbn [map]. change (TInt x :: map TInt xs) with (map (@TInt T) (x :: xs)).
    rewrite Hl, <- (app_nil_r (map TInt (x :: xs))), take_ints_app. reflexivity.
  Qed.

  Definition no_brace (t : tk) : bool := match t with TOpen | TClose => false | _ => true end.
  Lemma until_close_app (b r : list tk) : forallb no_brace b = true -> until_close (b ++ TClose :: r) = Some (b, r).
  Proof.
    induction b as [|t b IH]; intros H; cbn [app until_close]; [reflexivity|].
    cbn [forallb] in H. apply andb_true_iff in H as [Ht Hb]. rewrite (IH Hb).
    destruct t; try reflexivity; discriminate.
  Qed.
  Lemma no_brace_nums (xs : list T) : forallb no_brace (map TNum xs) = true.
  Proof. induction xs; cbn; auto. Qed.
  Lemma no_brace_ints (xs : list Z) : forallb no_brace (map (@TInt T) xs) = true.
  Proof. induction xs; cbn; auto. Qed.
  Lemma no_brace_conf g : forallb no_brace (conf_of g) = true.
  Proof.
    unfold conf_of, get_state_params.
    repeat first [rewrite forallb_app | rewrite no_brace_nums | rewrite no_brace_ints
                 | progress (cbn [forallb no_brace andb app])].
    reflexivity.
  Qed.

  Lemma read_block_written g (rest : list tk) :
    read_block (write_restart g ++ rest) = Some (conf_of g, TNl :: write_raw 3 g ++ rest).
  Proof.
    unfold write_restart, read_block. cbn [app skip_nl].
    rewrite <- app_assoc. cbn [app].
    change (TNl :: get_state_params g ++ TClose :: TNl :: write_raw 3 g ++ rest)
      with (conf_of g ++ TClose :: TNl :: write_raw 3 g ++ rest).
    rewrite until_close_app by apply no_brace_conf. reflexivity.
  Qed.

  Lemma zip4_nx : forall (nx : list Z) (l u w : list T),
    length l = length nx -> length u = length nx -> length w = length nx ->
    map (fun e => fst (fst (fst e))) (zip4 nx l u w) = nx /\ length (zip4 nx l u w) = length nx.
  Proof.
    induction nx as [|n ns IH]; intros [|a ls] [|b us] [|c ws] H1 H2 H3; try discriminate; [split; reflexivity|].
    cbn [zip4 map fst length] in *. destruct (IH ls us ws) as [A B]; try lia. rewrite A, B. split; reflexivity.
  Qed.

  Lemma params_unchanged_nx : forall cvs (old new : list (Z * T * T * T)),
    length old = length cvs -> length new = length cvs -> params_changed O cvs old new = false ->
    map (fun e => fst (fst (fst e))) old = map (fun e => fst (fst (fst e))) new.
  Proof.
    induction cvs as [|c cs IH]; intros [|[[[on ol] ou] ow] os] [|[[[n l] u] w] ns] H1 H2 H; try discriminate; [reflexivity|].
    cbn [params_changed] in H. apply orb_false_iff in H as [Hd Hr].
    unfold dim_changed in Hd. apply orb_false_iff in Hd as [Hd _]. apply orb_false_iff in Hd as [Hd _].
    apply orb_false_iff in Hd as [Hd _]. apply negb_false_iff, Z.eqb_eq in Hd.
    cbn [map fst length] in *. rewrite Hd, (IH os ns) by (auto; lia). reflexivity.
  Qed.
End StateTok.

(* ------------------------------------------------------------------ restart form over R *)
Section StateR.
  Local Open Scope R_scope.
  Notation tk := (tok R).
  Notation cvi := (cvinfo (T := R)).

  (* a grid as init_from_boundaries leaves it for its variables: a whole number of bins of positive width
     between the boundaries, periodicity flags as the variables report them for these boundaries *)
  Inductive dims_ok : list cvi -> list Z -> list R -> list R -> list R -> list bool -> Prop :=
  | dims_nil : dims_ok [] [] [] [] [] []
  | dims_cons c n l u w p cs ns ls us ws ps :
      (0 < n)%Z -> 0 < w -> u = l + IZR n * w -> p = cv_periodic_boundaries Rops c l u ->
      dims_ok cs ns ls us ws ps -> dims_ok (c :: cs) (n :: ns) (l :: ls) (u :: us) (w :: ws) (p :: ps).
  Definition grid_consistent (cvs : list cvi) (g : grid R) : Prop :=
    dims_ok cvs (gr_nx g) (gr_lower g) (gr_upper g) (gr_width g) (gr_per g).

  Lemma dims_lengths cvs nx l u w p : dims_ok cvs nx l u w p ->
    length cvs = length nx /\ length l = length nx /\ length u = length nx /\ length w = length nx /\
    length p = length nx /\ all_pos nx.
  Proof.
    intros H; induction H as [|c n l u w p cs ns ls us ws ps Hn Hw Hu Hp _ IH]; cbn [length].
    - repeat split; constructor.
    - destruct IH as (A & B & C & D & E & F). repeat split; try lia. constructor; auto.
  Qed.

  Lemma init_dim_consistent c n l w : (0 < n)%Z -> 0 < w ->
    init_dim Rops c l (l + IZR n * w) w = (n, l + IZR n * w, cv_periodic_boundaries Rops c l (l + IZR n * w)).
  Proof.
    intros Hn Hw. unfold init_dim.
    assert (Hnb : ndiv Rops (nsub Rops (l + IZR n * w) l) w = IZR n) by (cbn; field; lra).
    rewrite Hnb.
    assert (Hfl : nfloor Rops (nadd Rops (IZR n) (nhalf Rops)) = n).
    { unfold nhalf; cbn. apply Zfloor_spec. lra. }
    rewrite Hfl, not_far_self. reflexivity.
  Qed.

  Lemma init_bounds_consistent cvs nx l u w p : dims_ok cvs nx l u w p ->
    map (fun e => fst (fst e)) (init_bounds Rops cvs l u w) = nx /\
    map (fun e => snd (fst e)) (init_bounds Rops cvs l u w) = u /\
    map snd (init_bounds Rops cvs l u w) = p.
  Proof.
    intros H; induction H as [|c n l u w p cs ns ls us ws ps Hn Hw Hu Hp _ IH]; [repeat split|].
    cbn [init_bounds map]. subst u. rewrite init_dim_consistent by auto. cbn [fst snd].
    destruct IH as (A & B & C). rewrite A, B, C, Hp. repeat split.
  Qed.

  Lemma read_raw_skip_nl (g : grid R) toks : read_raw Rops g (TNl :: toks) = read_raw Rops g toks.
  Proof. reflexivity. Qed.

  (* read_restart (write_restart g) = g, whatever the receiving grid's current sizes, boundaries, widths
     and data are (same variables, same multiplicity): both when the definition in the state agrees with
     the current one and when it does not (grid expanded during the run: the array is re-allocated) *)
  Lemma state_roundtrip (cvs : list cvi) (g g0 : grid R) rest :
    grid_wf g -> grid_consistent cvs g ->
    grid_wf g0 -> gr_mult g0 = gr_mult g -> gnd g0 = gnd g ->
    length (gr_lower g0) = gnd g -> length (gr_upper g0) = gnd g -> length (gr_width g0) = gnd g ->
    gr_per g0 = gr_per g ->
    read_restart Rops cvs g0 (write_restart g ++ rest) = Some (g, strip rest).
  Proof.
    intros Hwf Hc Hwf0 Hm Hnd Hl0 Hu0 Hw0 Hper.
    pose proof (dims_lengths _ _ _ _ _ _ Hc) as (L1 & L2 & L3 & L4 & L5 & Hpos).
    pose proof Hwf as (Hmp & _ & Hne & Hdl).
    unfold read_restart. rewrite read_block_written.
    unfold parse_params. rewrite lookup_ncolvars. rewrite Hnd, Z.eqb_refl. cbn [negb].
    assert (NE : forall (A : Type) (xs : list A), length xs = length (gr_nx g) -> xs <> []).
    { intros A xs Hx Hxs. subst xs. destruct (gr_nx g); [congruence | discriminate]. }
    unfold gnd in *.
    rewrite (get_vec_found Rops KLower _ (gr_lower g)) by (auto using lookup_lower; lia).
    rewrite (get_vec_found Rops KUpper _ (gr_upper g)) by (auto using lookup_upper; lia).
    rewrite (get_vec_found Rops KWidths _ (gr_width g)) by (auto using lookup_widths; lia).
    rewrite (get_ints_found KSizes _ (gr_nx g)) by (auto using lookup_sizes).
    set (np := match gr_nx g0 with
               | [] => true
               | _ :: _ => params_changed Rops cvs (zip4 (gr_nx g0) (gr_lower g0) (gr_upper g0) (gr_width g0))
                                          (zip4 (gr_nx g) (gr_lower g) (gr_upper g) (gr_width g))
               end).
    destruct np eqn:Enp.
    - (* the definition changed: sizes recomputed from the boundaries, array re-allocated *)
      destruct (init_bounds_consistent _ _ _ _ _ _ Hc) as (A & B & C).
      rewrite A, B, C, (all_pos_forallb _ Hpos). rewrite read_raw_skip_nl.
      rewrite raw_roundtrip; auto.
      + unfold set_data; cbn [gr_mult gr_nx gr_lower gr_upper gr_width gr_per]. rewrite Hm.
        destruct g; reflexivity.
      + repeat split; cbn [gr_mult gr_nx gr_data]; auto; try lia.
        unfold zeros. rewrite repeat_length. reflexivity.
      + split; cbn [gr_mult gr_nx]; auto.
    - (* same definition: the array is kept and overwritten by the data *)
      assert (Hnx : gr_nx g0 = gr_nx g).
      { unfold np in Enp. destruct (gr_nx g0) as [|n0' ns0] eqn:E0; [discriminate|]. rewrite <- E0 in *.
        destruct (zip4_nx (gr_nx g0) (gr_lower g0) (gr_upper g0) (gr_width g0)) as [Z1 Z2]; try lia.
        destruct (zip4_nx (gr_nx g) (gr_lower g) (gr_upper g) (gr_width g)) as [Z3 Z4]; try lia.
        rewrite <- Z1, <- Z3. apply (params_unchanged_nx Rops cvs); auto; lia. }
      rewrite read_raw_skip_nl. rewrite raw_roundtrip; auto.
      + unfold set_data; cbn [gr_mult gr_nx gr_lower gr_upper gr_width gr_per]. rewrite Hm, Hper.
        destruct g; reflexivity.
      + destruct Hwf0 as (W1 & W2 & W3 & W4). repeat split; cbn [gr_mult gr_nx gr_data]; auto; try lia.
        rewrite W4, Hnx. reflexivity.
      + split; cbn [gr_mult gr_nx]; auto.
  Qed.

  (* the parameters alone: parse_params (get_state_params g) gives g's sizes, boundaries and widths *)
  Lemma short_state_rejected (cvs : list cvi) (g0 g1 : grid R) (conf s : list tk) toks :
    read_block toks = Some (conf, s) -> parse_params Rops cvs g0 conf = Some g1 -> grid_wf g1 ->
    (lead Rops (strip s) < length (gr_data g1))%nat ->
    read_restart Rops cvs g0 toks = None.
  Proof.
    intros Hb Hp Hwf Hlt. unfold read_restart. rewrite Hb, Hp. apply raw_short_rejected; auto.
  Qed.
End StateR.

(* ------------------------------------------------------------------ malformed restart blocks *)
Section StateBad.
  Context {T : Type} (O : NumOps T).
  Notation tk := (tok T).

  Lemma until_close_none (s : list tk) : ~ In TClose s -> until_close s = None.
  Proof.
    induction s as [|t s IH]; intros H; [reflexivity|].
    cbn [until_close]. rewrite IH by (intros Hin; apply H; right; exact Hin).
    destruct t; try reflexivity. exfalso. apply H. left. reflexivity.
  Qed.

  (* a block that is not closed is rejected *)
  Lemma unterminated_block_rejected cvs (g : grid T) (toks : list tk) :
    ~ In TClose toks -> read_restart O cvs g toks = None.
  Proof.
    intros H. unfold read_restart, read_block.
    assert (Hs : forall s : list tk, ~ In TClose s -> ~ In TClose (skip_nl s)).
    { induction s as [|t s IH]; intros Hn; [exact Hn|]. destruct t; try exact Hn.
      cbn [skip_nl]. apply IH. intros Hin. apply Hn. right. exact Hin. }
    pose proof (Hs toks H) as H1.
    destruct (skip_nl toks) as [|t r]; [reflexivity|].
    destruct t; try reflexivity. destruct k; try reflexivity.
    assert (H2 : ~ In TClose r) by (intros Hin; apply H1; right; exact Hin).
    pose proof (Hs r H2) as H3.
    destruct (skip_nl r) as [|t2 r2]; [reflexivity|]. destruct t2; try reflexivity.
    rewrite until_close_none; [reflexivity|]. intros Hin. apply H3. right. exact Hin.
  Qed.

  Lemma take_nums_short n (vals : list tk) : lead O vals < n -> take_nums O n vals = None.
  Proof.
    intros H. destruct (take_nums O n vals) as [[xs r]|] eqn:E; [|reflexivity].
    apply take_nums_lead in E. lia.
  Qed.

  (* fewer boundaries than variables: rejected *)
  Lemma short_boundaries_rejected cvs (g : grid T) (conf vals : list tk) :
    lookup KLower conf = Some vals -> lead O vals < length (gr_lower g) ->
    parse_params O cvs g conf = None.
  Proof.
    intros Hl Hs. unfold parse_params.
    destruct (match lookup KNColvars conf with
              | None => Some (Z.of_nat (gnd g)) | Some [TInt n] => Some n | Some _ => None end) as [nd_in|];
      [|reflexivity].
    destruct (negb (nd_in =? Z.of_nat (gnd g))%Z); [reflexivity|].
    assert (Hg : get_vec O KLower conf (gr_lower g) = None).
    { unfold get_vec. rewrite Hl. destruct vals as [|v vs]; [reflexivity|].
      rewrite take_nums_short by exact Hs. reflexivity. }
    rewrite Hg. reflexivity.
  Qed.
End StateBad.

(* ------------------------------------------------------------------ OpenDX header *)
Section DX.
  Local Open Scope R_scope.
  (* the origin is the centre of the first bin and origin + k * delta the centre of bin k *)
  Lemma dx_origin_first_centre (lower width : list R) (nx : list Z) : length lower = length nx -> length width = length nx ->
    dx_origin Rops lower width = bin_centers Rops lower width (new_index nx).
  Proof.
    revert width nx; induction lower as [|l ls IH]; intros [|w ws] [|n ns] H1 H2; try discriminate; [reflexivity|].
    cbn [dx_origin bin_centers new_index map]. f_equal.
    - unfold bin_to_value, nhalf; cbn. lra.
    - apply IH; cbn in *; lia.
  Qed.
  Lemma dx_point_centre (l w : R) (k : Z) :
    nadd Rops l (nmul Rops (nhalf Rops) w) + IZR k * w = bin_to_value Rops l w k.
  Proof. unfold bin_to_value, nhalf; cbn. lra. Qed.
End DX.

(* ------------------------------------------------------------------ statements as they appear in Properties_C15.v *)
Lemma write_order_is_address_order mult nx : (0 < mult)%Z -> all_pos nx -> nx <> [] ->
  map (fun ix => Z.to_nat (address mult nx ix)) (all_indices nx) = arange 0 (Z.to_nat mult) (npoints nx) /\
  Forall (in_range nx) (all_indices nx) /\
  forall extra, walk (npoints nx + extra) nx (new_index nx) = all_indices nx.
Proof.
  intros Hm Hp Hne. split; [apply all_addresses; auto|]. split.
  - apply (all_indices_spec nx Hp Hne).
  - intros extra. apply walk_fuel_irrelevant; auto.
Qed.

Lemma raw_roundtrip_full (T : Type) (O : NumOps T) (buf : nat) (g g0 : grid T) (rest : list (tok T)) :
  grid_wf g -> grid_wf g0 -> same_shape g0 g ->
  strip (write_raw buf g) = map TNum (gr_data g) /\
  read_raw O g0 (write_raw buf g ++ rest) = Some (set_data g0 (gr_data g), strip rest).
Proof. intros H H0 Hs. split; [apply strip_write_raw; auto | apply raw_roundtrip; auto]. Qed.

Lemma state_malformed_rejected (T : Type) (O : NumOps T) (cvs : list (cvinfo (T := T))) (g0 : grid T) :
  (forall toks, ~ In TClose toks -> read_restart O cvs g0 toks = None) /\
  (forall conf vals, lookup KLower conf = Some vals -> (lead O vals < length (gr_lower g0))%nat ->
     parse_params O cvs g0 conf = None) /\
  (forall toks conf s g1, read_block toks = Some (conf, s) -> parse_params O cvs g0 conf = Some g1 ->
     grid_wf g1 -> (lead O (strip s) < length (gr_data g1))%nat -> read_restart O cvs g0 toks = None).
Proof.
  split; [|split].
  - intros toks. apply unterminated_block_rejected.
  - intros conf vals. apply short_boundaries_rejected.
  - intros toks conf s g1 Hb Hp Hwf Hlt. unfold read_restart. rewrite Hb, Hp. apply raw_short_rejected; auto.
Qed.

Lemma opendx_origin (lower width : list R) (nx : list Z) :
  length lower = length nx -> length width = length nx ->
  dx_origin Rops lower width = bin_centers Rops lower width (new_index nx) /\
  forall l w k, (nadd Rops l (nmul Rops (nhalf Rops) w) + IZR k * w = bin_to_value Rops l w k)%R.
Proof. intros H1 H2. split; [apply dx_origin_first_centre; auto | exact dx_point_centre]. Qed.

Lemma multicol_add (g g0 : grid R) :
  grid_wf g -> geom_wf g -> grid_wf g0 -> same_geom g0 g ->
  exists data', read_multicol Rops true g0 (write_multicol Rops g) = Some (set_data g0 data', []) /\
    length data' = length (gr_data g) /\
    forall j, (j < length (gr_data g))%nat -> nth j data' 0%R = (nth j (gr_data g0) 0 + nth j (gr_data g) 0)%R.
Proof. apply (multicol_read_written true). Qed.

(* ------------------------------------------------------------------ the re-gridding loop of read_multicol, mult = 1, add = false,
   is the record-by-record re-mapping of GridModel.v (to which C15_remap_periodic_target and C15_remap_lossless apply) *)
Section Regrid.
  Context {T : Type} (O : NumOps T).

  Definition geom_of (g : grid T) : grid_geom (T := T) := mkGeom (gr_lower g) (gr_width g) (gr_nx g) (gr_per g).
  Definition record_toks (rc : list T * T) : list (tok T) := map TNum (fst rc) ++ [TNum (snd rc)].

  Lemma remap_rows_is_fold (g : grid T) : gr_mult g = 1%Z -> (0 < gnd g)%nat ->
    forall recs data fuel,
    Forall (fun rc => length (fst rc) = gnd g) recs -> (length recs < fuel)%nat ->
    remap_rows O fuel false g (flat_map record_toks recs) data
    = Some (fold_left (remap_record O (geom_of g)) recs data, []).
  Proof.
    intros Hm Hnd recs; induction recs as [|rc recs IH]; intros data fuel Hf Hfuel.
    - destruct fuel as [|f]; [lia|]. cbn [flat_map remap_rows fold_left].
      destruct (gnd g) as [|n]; [lia|]. reflexivity.
    - destruct fuel as [|f]; [cbn in Hfuel; lia|].
      inversion Hf as [|? ? Hrc Hrest]; subst.
      cbn [flat_map remap_rows fold_left]. unfold record_toks at 1. rewrite <- app_assoc.
      rewrite <- Hrc, take_nums_app. cbn [app].
      unfold gmult. rewrite Hm.
      change (Z.to_nat 1) with 1%nat. cbn [take_nums tok_num].
      rewrite IH by (auto; cbn in Hfuel; lia).
      f_equal. f_equal. f_equal.
      unfold remap_record, remap_target, geom_of, gaddr. cbn [g_lower g_width g_nx g_per]. rewrite Hm.
      destruct (index_ok (gr_nx g) (wrap_index (gr_per g) (gr_nx g) (bins O (gr_lower g) (gr_width g) (fst rc)))); reflexivity.
  Qed.
End Regrid.

(* ------------------------------------------------------------------ unformatted raw form: exact for every carrier, no assumption on numbers *)
Lemma raw_bin_roundtrip (T : Type) (O : NumOps T) (g g0 : grid T) (rest : list (tok T)) :
  grid_wf g -> grid_wf g0 -> same_shape g0 g ->
  write_raw_bin g = map TNum (gr_data g) /\
  read_raw_bin O g0 (write_raw_bin g ++ rest) = Some (set_data g0 (gr_data g), rest) /\
  (forall s, (lead O s < length (gr_data g0))%nat -> read_raw_bin O g0 s = None).
Proof.
  intros Hwf Hwf0 Hs. unfold write_raw_bin, read_raw_bin. rewrite raw_values_data by auto.
  split; [reflexivity|]. split; [apply read_raw_s_roundtrip; auto|].
  intros s Hlt. unfold read_raw_s.
  destruct (read_points O 0 (gmult g0) false (gr_mult g0) (gr_nx g0) (all_indices (gr_nx g0)) s (gr_data g0))
    as [[d' r]|] eqn:E; [|reflexivity].
  apply read_points_lead in E. rewrite (wf_data_length g0 Hwf0) in Hlt.
  destruct Hwf0 as (_ & Hp & Hne & _). rewrite all_indices_length in E by auto. cbn in E. lia.
Qed.

(* ------------------------------------------------------------------ grids normalised by a sample-count grid *)
Section Norm.
  Local Open Scope R_scope.

  (* no samples => nothing accumulated (the invariant of the accumulators: acc_value/acc_force add the datum and
     increment the count together) *)
  Fixpoint zero_where_unsampled (m : nat) (counts data : list R) : Prop :=
    match counts with
    | [] => True
    | c :: cs => (c = 0 -> Forall (fun v => v = 0) (firstn m data)) /\ zero_where_unsampled m cs (skipn m data)
    end.

  Lemma scale_chunks_length (f : R -> R -> R) m : forall counts data,
    length data = (length counts * m)%nat -> length (scale_chunks f m counts data) = length data.
  Proof.
    induction counts as [|c cs IH]; intros data H; cbn [scale_chunks length] in *; [lia|].
    rewrite app_length, map_length, firstn_length, IH by (rewrite skipn_length; lia).
    rewrite skipn_length. lia.
  Qed.

  Lemma denorm_norm m : forall counts data,
    Forall (fun c => 0 <= c) counts -> length data = (length counts * m)%nat ->
    zero_where_unsampled m counts data ->
    denormalise Rops m counts (normalise Rops m counts data) = data.
  Proof.
    unfold denormalise, normalise.
    induction counts as [|c cs IH]; intros data Hc Hl Hz; cbn [scale_chunks length] in *.
    - destruct data; [reflexivity | cbn in Hl; lia].
    - inversion Hc as [|? ? Hc0 Hcs]; subst. destruct Hz as [Hz0 Hzs].
      assert (Hf : length (firstn m data) = m) by (rewrite firstn_length; lia).
      rewrite firstn_app, firstn_all2 by (rewrite map_length; lia).
      rewrite map_length, Hf, Nat.sub_diag. cbn [firstn]. rewrite app_nil_r.
      rewrite skipn_app, skipn_all2 by (rewrite map_length; lia).
      rewrite map_length, Hf, Nat.sub_diag. cbn [skipn app].
      rewrite IH by (auto; rewrite skipn_length; lia).
      rewrite <- (firstn_skipn m data) at 3. f_equal.
      rewrite map_map. rewrite <- (map_id (firstn m data)) at 2.
      apply map_ext_in. intros v Hv. unfold in_norm, out_norm; cbn. unfold Rltb.
      destruct (Rlt_dec 0 c) as [Hpos|Hn].
      + field. lra.
      + assert (c = 0) by lra. specialize (Hz0 H). rewrite Forall_forall in Hz0. rewrite (Hz0 v Hv). lra.
  Qed.

  (* what is read back where a bin has data but no samples: zero *)
  Lemma denorm_norm_unsampled (v : R) : v <> 0 ->
    denormalise Rops 1 [0] (normalise Rops 1 [0] [v]) = [0] /\ [0] <> [v].
  Proof.
    intros Hv. unfold denormalise, normalise, in_norm, out_norm; cbn. unfold Rltb.
    destruct (Rlt_dec 0 0); [lra|]. split; [f_equal; lra|]. intros H; injection H as H; lra.
  Qed.

  Lemma multicol_norm_roundtrip (counts : list R) (g g0 : grid R) :
    grid_wf g -> geom_wf g -> grid_wf g0 -> same_geom g0 g ->
    Forall (fun c => 0 <= c) counts -> length counts = npoints (gr_nx g) ->
    zero_where_unsampled (gmult g) counts (gr_data g) ->
    read_multicol_norm Rops counts g0 (write_multicol_norm Rops counts g) = Some (set_data g0 (gr_data g), []).
  Proof.
    intros Hwf Hg Hwf0 Hs Hc Hlc Hz. unfold read_multicol_norm, write_multicol_norm.
    pose proof (wf_data_length g Hwf) as Hl.
    assert (Hln : length (normalise Rops (gmult g) counts (gr_data g)) = length (gr_data g)).
    { apply scale_chunks_length. lia. }
    rewrite multicol_roundtrip.
    - cbn [set_data gr_data gr_mult]. unfold set_data; cbn [gr_mult gr_nx gr_lower gr_upper gr_width gr_per].
      destruct Hs as ((Hsm & _) & _). unfold gmult. rewrite Hsm. fold (gmult g).
      rewrite denorm_norm; auto. lia.
    - destruct Hwf as (A & B & C & D). repeat split; auto. cbn [set_data gr_mult gr_nx gr_data]. rewrite Hln. exact D.
    - exact Hg.
    - exact Hwf0.
    - exact Hs.
  Qed.
End Norm.

(* ------------------------------------------------------------------ decimal formatting: error bound over R *)
Section Decimal.
  Local Open Scope R_scope.

  Lemma p10_R n : p10 Rops n = 10 ^ n.
  Proof. induction n as [|n IH]; cbn [p10 pow]; [reflexivity|]. rewrite IH. reflexivity. Qed.

  Lemma scale10_R e x : scale10 Rops e x = x * powerRZ 10 e.
  Proof.
    destruct e as [|q|q]; cbn [scale10 powerRZ].
    - lra.
    - rewrite p10_R. reflexivity.
    - rewrite p10_R. reflexivity.
  Qed.

  Lemma p10pos e : 0 < powerRZ 10 e.
  Proof. apply powerRZ_lt. lra. Qed.

  Lemma round_at_err k x : Rabs (round_at Rops k x - x) <= / 2 * powerRZ 10 (- k).
  Proof.
    unfold round_at. rewrite !scale10_R. unfold nhalf; cbn.
    set (y := x * powerRZ 10 k).
    pose proof (Zfloor_lb (y + 1 / 2)) as H1. pose proof (Zfloor_ub (y + 1 / 2)) as H2.
    set (z := IZR (Zfloor (y + 1 / 2))) in *.
    assert (Hx : x = y * powerRZ 10 (- k)).
    { unfold y. rewrite Rmult_assoc, <- powerRZ_add by lra. replace (k + - k)%Z with 0%Z by lia. cbn. lra. }
    clearbody z. clearbody y. subst x.
    rewrite <- Rmult_minus_distr_r, Rabs_mult.
    rewrite (Rabs_right (powerRZ 10 (- k))) by (left; apply p10pos).
    apply Rmult_le_compat_r; [left; apply p10pos|].
    apply Rabs_le. lra.
  Qed.

  Lemma exp_up_lb a : forall fuel e, powerRZ 10 e <= a -> powerRZ 10 (exp_up Rops fuel e a) <= a.
  Proof.
    induction fuel as [|f IH]; intros e H; cbn [exp_up]; auto.
    rewrite scale10_R. cbn. unfold Rleb'. destruct (Rle_dec (1 * powerRZ 10 (e + 1)) a); auto.
    apply IH. lra.
  Qed.

  Lemma exp_down_lb a : forall fuel e, powerRZ 10 (e - Z.of_nat fuel) <= a -> powerRZ 10 (exp_down Rops fuel e a) <= a.
  Proof.
    induction fuel as [|f IH]; intros e H; cbn [exp_down].
    - replace (e - Z.of_nat 0)%Z with e in H by lia. exact H.
    - rewrite scale10_R. cbn. unfold Rltb. destruct (Rlt_dec a (1 * powerRZ 10 e)); [|lra].
      apply IH. replace (e - 1 - Z.of_nat f)%Z with (e - Z.of_nat (S f))%Z by lia. exact H.
  Qed.

  Lemma dec_exp_lb fuel a : powerRZ 10 (- Z.of_nat fuel) <= a -> powerRZ 10 (dec_exp Rops fuel a) <= a.
  Proof.
    intros H. unfold dec_exp. cbn. unfold Rleb'. destruct (Rle_dec 1 a).
    - apply exp_up_lb. cbn. exact r.
    - apply exp_down_lb. exact H.
  Qed.

  (* |read(write x) - x| <= 1/2 * 10^(1-p) * |x| *)
  Lemma dec_round_err p fuel x : powerRZ 10 (- Z.of_nat fuel) <= Rabs x \/ x = 0 ->
    Rabs (dec_round Rops p fuel x - x) <= / 2 * powerRZ 10 (1 - Z.of_nat p) * Rabs x.
  Proof.
    intros H. unfold dec_round. cbn. unfold Reqb'. destruct (Req_EM_T x 0) as [->|Hx].
    - replace (0 - 0) with 0 by ring. rewrite Rabs_R0. lra.
    - destruct H as [H|H]; [|contradiction].
      rewrite nabs_R. set (e := dec_exp Rops fuel (Rabs x)).
      assert (He : powerRZ 10 e <= Rabs x) by (apply dec_exp_lb; exact H).
      eapply Rle_trans; [apply round_at_err|].
      replace (- (Z.of_nat p - 1 - e))%Z with ((1 - Z.of_nat p) + e)%Z by lia.
      rewrite powerRZ_add by lra. rewrite Rmult_assoc.
      apply Rmult_le_compat_l; [lra|]. apply Rmult_le_compat_l; [left; apply p10pos | exact He].
  Qed.

  (* the raw form with its numbers formatted at p digits: every element comes back rounded, nothing else changes *)
  Lemma fmt_nums p fuel (xs : list R) : fmt_toks Rops p fuel (map TNum xs) = map TNum (map (dec_round Rops p fuel) xs).
  Proof. unfold fmt_toks. rewrite !map_map. reflexivity. Qed.

  Lemma strip_fmt p fuel (s : list (tok R)) : strip (fmt_toks Rops p fuel s) = fmt_toks Rops p fuel (strip s).
  Proof.
    induction s as [|t s IH]; [reflexivity|]. unfold fmt_toks, strip in *. cbn [map filter].
    destruct t; cbn [fmt_tok is_nl negb filter map]; rewrite ?IH; reflexivity.
  Qed.

  Lemma raw_formatted_roundtrip p fuel buf (g g0 : grid R) :
    grid_wf g -> grid_wf g0 -> same_shape g0 g ->
    read_raw Rops g0 (fmt_toks Rops p fuel (write_raw buf g))
    = Some (set_data g0 (map (dec_round Rops p fuel) (gr_data g)), []).
  Proof.
    intros Hwf Hwf0 Hs. unfold read_raw. rewrite strip_fmt, strip_write_raw, fmt_nums by auto.
    pose proof (read_raw_s_roundtrip Rops (set_data g (map (dec_round Rops p fuel) (gr_data g))) g0 []) as H.
    cbn [set_data gr_data] in H. rewrite app_nil_r in H. apply H; auto.
    destruct Hwf as (A & B & C & D). unfold grid_wf, set_data. cbn [gr_data gr_mult gr_nx]. rewrite map_length. repeat split; auto.
  Qed.
End Decimal.

(* ------------------------------------------------------------------ multicolumn form with formatted numbers *)
Section MulticolFormatted.
  Local Open Scope R_scope.

  Definition close_lists (a b : list R) : Prop := Forall2 (fun x y => Rabs (x - y) <= tol10 Rops) a b.

  Lemma not_far_close x y : Rabs (x - y) <= tol10 Rops -> nltb Rops (tol10 Rops) (nabs Rops (nsub Rops x y)) = false.
  Proof. intros H. rewrite nabs_R. cbn. apply Rltb_false. exact H. Qed.

  Lemma need_remap_close : forall (l' w' l w : list R) (nx : list Z) (per : list bool),
    close_lists l' l -> close_lists w' w -> need_remap Rops (header_vals l' w' nx per) l w nx = false.
  Proof.
    intros l' w' l w nx per Hl; revert w' w nx per.
    induction Hl as [|a b l' l Hab _ IH]; intros w' w nx per Hw.
    - destruct w', nx, per; reflexivity.
    - destruct Hw as [|c e w' w Hce Hw]; [destruct nx, per; reflexivity|].
      destruct nx as [|n ns]; [reflexivity|]. destruct per as [|p ps]; [reflexivity|].
      cbn [header_vals need_remap]. rewrite (not_far_close _ _ Hab), (not_far_close _ _ Hce), Z.eqb_refl, IH by auto. reflexivity.
  Qed.

  Lemma fmt_header p fuel : forall (l w : list R) (nx : list Z) (per : list bool),
    fmt_toks Rops p fuel (header_toks l w nx per) = header_toks (map (dec_round Rops p fuel) l) (map (dec_round Rops p fuel) w) nx per.
  Proof.
    induction l as [|a l IH]; intros [|b w] [|n nx] [|q per]; try reflexivity.
    unfold fmt_toks in *. cbn [header_toks map fmt_tok]. rewrite IH. reflexivity.
  Qed.

  Lemma slice_map {A B} (f : A -> B) (l : list A) a n : slice (map f l) a n = map f (slice l a n).
  Proof. unfold slice. rewrite skipn_map, firstn_map. reflexivity. Qed.

  Lemma fmt_rows p fuel (g : grid R) :
    fmt_toks Rops p fuel (multicol_rows Rops g) =
    flat_map (fun ix => map TNum (map (dec_round Rops p fuel) (bin_centers Rops (gr_lower g) (gr_width g) ix)) ++
                        map TNum (slice (map (dec_round Rops p fuel) (gr_data g)) (Z.to_nat (address (gr_mult g) (gr_nx g) ix)) (gmult g)))
             (all_indices (gr_nx g)).
  Proof.
    unfold multicol_rows, fmt_toks. induction (all_indices (gr_nx g)) as [|ix l IH]; [reflexivity|].
    cbn [flat_map]. rewrite !map_app, IH. f_equal. rewrite slice_map, !map_map. reflexivity.
  Qed.

  (* a multicolumn file as it is read back (every number rounded to p digits): as long as the rounded lower boundaries and
     widths stay within the reader's tolerance (1e-10) of the receiving grid's, the file is read on the same-grid path and
     every element comes back as its rounded value, in its own place *)
  Lemma multicol_formatted_roundtrip p fuel (g g0 : grid R) :
    grid_wf g -> geom_wf g -> grid_wf g0 -> same_geom g0 g ->
    close_lists (map (dec_round Rops p fuel) (gr_lower g)) (gr_lower g) ->
    close_lists (map (dec_round Rops p fuel) (gr_width g)) (gr_width g) ->
    read_multicol Rops false g0 (fmt_toks Rops p fuel (write_multicol Rops g))
    = Some (set_data g0 (map (dec_round Rops p fuel) (gr_data g)), []).
  Proof.
    intros Hwf (Hg1 & Hg2 & Hg3) Hwf0 ((Hsm & Hsn) & Hsl & Hsw) Hcl Hcw.
    pose proof (wf_data_length g Hwf) as Hl. pose proof (wf_data_length g0 Hwf0) as Hl0.
    pose proof Hwf as (Hm & Hp & Hne & _).
    set (dr := dec_round Rops p fuel) in *.
    unfold read_multicol. rewrite strip_fmt, strip_write_multicol.
    pose proof (fmt_header p fuel (gr_lower g) (gr_width g) (gr_nx g) (gr_per g)) as FH.
    pose proof (fmt_rows p fuel g) as FR.
    change (THash :: TInt (Z.of_nat (gnd g)) :: ?x) with ([@THash R; TInt (Z.of_nat (gnd g))] ++ x).
    unfold fmt_toks in FH, FR |- *. rewrite !map_app, FH, FR. cbn [map fmt_tok app]. fold dr.
    unfold read_multicol_s.
    assert (Hnd : gnd g0 = gnd g) by (unfold gnd; rewrite Hsn; reflexivity).
    assert (Hpos0 : (0 <? Z.of_nat (gnd g))%Z = true).
    { unfold gnd. destruct (gr_nx g); [congruence|]. reflexivity. }
    rewrite Hnd, Z.eqb_refl, Hpos0. cbn [andb].
    rewrite read_header_ok by (rewrite ?map_length; unfold gnd in *; lia).
    rewrite Hsl, Hsw, Hsn, need_remap_close by auto.
    unfold gmult, gnd in *. rewrite Hsm, Hsn in *.
    assert (Hlen : length (all_indices (gr_nx g)) = npoints (gr_nx g)) by (apply all_indices_length; auto).
    assert (A1 : map (fun ix => Z.to_nat (address (gr_mult g) (gr_nx g) ix)) (all_indices (gr_nx g))
                 = arange 0 (Z.to_nat (gr_mult g)) (length (all_indices (gr_nx g)))).
    { rewrite Hlen. apply all_addresses; auto. }
    assert (Hld : length (map dr (gr_data g)) = length (gr_data g)) by apply map_length.
    assert (A2 : (0 + length (all_indices (gr_nx g)) * Z.to_nat (gr_mult g) <= length (map dr (gr_data g)))%nat) by (rewrite Hlen, Hld; lia).
    assert (A4 : forall ix, In ix (all_indices (gr_nx g)) ->
                 length (map dr (bin_centers Rops (gr_lower g) (gr_width g) ix)) = length (gr_nx g)).
    { intros ix Hin. destruct (all_indices_spec (gr_nx g) Hp Hne) as [_ Hall].
      rewrite Forall_forall in Hall. pose proof (in_range_length _ _ (Hall ix Hin)) as Hix.
      rewrite map_length, bin_centers_length; lia. }
    destruct (read_points_ok Rops (length (gr_nx g)) (Z.to_nat (gr_mult g)) false (gr_mult g) (gr_nx g) (map dr (gr_data g)) (gr_data g0)
                (fun ix => map dr (bin_centers Rops (gr_lower g) (gr_width g) ix))
                (all_indices (gr_nx g)) 0%nat (gr_data g0) [] A1 ltac:(lia) ltac:(lia) A2 A4 ltac:(intros j Hj; lia)
                ltac:(intros; reflexivity)) as (data' & H1 & H2 & H3 & _).
    rewrite app_nil_r in H1. rewrite H1. f_equal. f_equal. f_equal.
    apply (nth_eq_lists data' (map dr (gr_data g)) 0); auto.
    intros j Hj. rewrite H3; [reflexivity|]. rewrite Hlen. lia.
  Qed.

  (* the premise holds for boundaries and widths whose rounding error bound is below the reader's tolerance *)
  Lemma close_when_small p fuel (xs : list R) :
    Forall (fun x => (powerRZ 10 (- Z.of_nat fuel) <= Rabs x \/ x = 0) /\ / 2 * powerRZ 10 (1 - Z.of_nat p) * Rabs x <= tol10 Rops) xs ->
    close_lists (map (dec_round Rops p fuel) xs) xs.
  Proof.
    intros H. induction H as [|x xs [Hx Hb] _ IH]; cbn [map]; constructor; auto.
    eapply Rle_trans; [apply dec_round_err; exact Hx | exact Hb].
  Qed.
End MulticolFormatted.
