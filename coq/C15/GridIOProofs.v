(* Lemmas about the grid file model (GridIOModel.v). *)
From Coq Require Import ZArith List Bool Reals Lra Lia Psatz Arith.
From CV Require Import Base.Num Base.RNum C15.GridModel C15.GridProofs C15.GridIOModel.
Import ListNotations.

(* ------------------------------------------------------------------ the index loop visits the points in address order *)
Local Open Scope Z_scope.

Fixpoint Zrange (a : Z) (n : nat) : list Z := match n with O => [] | S n' => a :: Zrange (a + 1) n' end.
Fixpoint arange (a m : nat) (n : nat) : list nat := match n with O => [] | S n' => a :: arange (a + m) m n' end.

Lemma Zrange_length a n : length (Zrange a n) = n.
Proof. revert a; induction n as [|n IH]; intros a; cbn [Zrange length]; auto. Qed.
Lemma arange_length a m n : length (arange a m n) = n.
Proof. revert a; induction n as [|n IH]; intros a; cbn [arange length]; auto. Qed.

Lemma ntot_scale m nx : ntot m nx = m * ntot 1 nx.
Proof.
  induction nx as [|n ns IH].
  - unfold ntot; cbn. lia.
  - rewrite !ntot_cons, IH. ring.
Qed.

Lemma address_scale m nx ix : address m nx ix = m * address 1 nx ix.
Proof.
  revert ix; induction nx as [|n ns IH]; intros ix.
  - rewrite !address_nil. lia.
  - destruct ix as [|i is_].
    + unfold address, nxc. cbn [strides]. destruct (strides m ns), (strides 1 ns). cbn. lia.
    + rewrite !address_cons, IH, (ntot_scale m ns). ring.
Qed.

Lemma new_index_in_range nx : all_pos nx -> in_range nx (new_index nx).
Proof. intros H; induction H as [|n ns Hn _ IH]; cbn [new_index map]; constructor; auto; lia. Qed.

Lemma new_index_address m nx : address m nx (new_index nx) = 0.
Proof.
  induction nx as [|n ns IH]; [reflexivity|].
  cbn [new_index map]. rewrite address_cons. fold (new_index ns). rewrite IH. lia.
Qed.

Lemma npoints_Z nx : all_pos nx -> Z.of_nat (npoints nx) = ntot 1 nx.
Proof. intros H. unfold npoints. pose proof (strides_nt_pos 1 nx ltac:(lia) H). lia. Qed.

Lemma walk_from nx : all_pos nx -> nx <> [] -> forall fuel ix a,
  in_range nx ix -> address 1 nx ix = a -> a + Z.of_nat fuel = ntot 1 nx ->
  map (address 1 nx) (walk fuel nx ix) = Zrange a fuel /\ Forall (in_range nx) (walk fuel nx ix).
Proof.
  intros Hp Hne fuel; induction fuel as [|f IH]; intros ix a Hr Ha Hf.
  - cbn. split; constructor.
  - cbn [walk Zrange].
    assert (Hok : index_ok nx ix = true) by (apply index_ok_iff; auto). rewrite Hok.
    destruct (incr_spec 1 nx ix ltac:(lia) Hp Hr Hne) as [[Hi Hai]|[Hi Hai]].
    + apply index_ok_iff in Hi.
      destruct (IH (incr nx ix) (a + 1)) as [H1 H2]; auto; try lia.
      cbn [map]. rewrite H1, Ha. split; auto.
    + assert (f = 0%nat) by lia. subst f. cbn [walk map Zrange]. rewrite Ha. split; auto.
Qed.

(* write order = incr order = address order *)
Lemma all_indices_spec nx : all_pos nx -> nx <> [] ->
  map (address 1 nx) (all_indices nx) = Zrange 0 (npoints nx) /\ Forall (in_range nx) (all_indices nx).
Proof.
  intros Hp Hne. unfold all_indices. apply walk_from; auto.
  - apply new_index_in_range; auto.
  - apply new_index_address.
  - rewrite npoints_Z; auto.
Qed.

Lemma all_indices_length nx : all_pos nx -> nx <> [] -> length (all_indices nx) = npoints nx.
Proof.
  intros Hp Hne. destruct (all_indices_spec nx Hp Hne) as [H _].
  rewrite <- (map_length (address 1 nx)), H. apply Zrange_length.
Qed.

(* the loop is left by index_ok exactly after the last point: more fuel changes nothing *)
Lemma walk_more nx : all_pos nx -> nx <> [] -> forall fuel ix extra,
  in_range nx ix -> address 1 nx ix + Z.of_nat fuel = ntot 1 nx ->
  walk (fuel + extra) nx ix = walk fuel nx ix.
Proof.
  intros Hp Hne fuel; induction fuel as [|f IH]; intros ix extra Hr Hf.
  - pose proof (address_bounds 1 nx ix ltac:(lia) Hp Hr). lia.
  - cbn [walk Nat.add].
    assert (Hok : index_ok nx ix = true) by (apply index_ok_iff; auto). rewrite Hok.
    destruct (incr_spec 1 nx ix ltac:(lia) Hp Hr Hne) as [[Hi Hai]|[Hi Hai]].
    + apply index_ok_iff in Hi. rewrite IH; auto. lia.
    + assert (f = 0%nat) by lia. subst f. cbn [Nat.add walk].
      destruct extra; cbn [walk]; [reflexivity|]. rewrite Hi. reflexivity.
Qed.

Lemma walk_fuel_irrelevant nx extra : all_pos nx -> nx <> [] ->
  walk (npoints nx + extra) nx (new_index nx) = all_indices nx.
Proof.
  intros Hp Hne. unfold all_indices. apply walk_more; auto.
  - apply new_index_in_range; auto.
  - rewrite new_index_address, npoints_Z; auto.
Qed.

Lemma Zrange_to_arange mz a n : 0 < mz -> 0 <= a ->
  map (fun z => Z.to_nat (mz * z)) (Zrange a n) = arange (Z.to_nat (mz * a)) (Z.to_nat mz) n.
Proof.
  intros Hm; revert a; induction n as [|n IH]; intros a Ha; cbn [Zrange map arange]; [reflexivity|].
  f_equal. rewrite IH by lia. f_equal.
  rewrite Z.mul_add_distr_l, Z.mul_1_r. apply Z2Nat.inj_add; nia.
Qed.

Lemma all_addresses mz nx : 0 < mz -> all_pos nx -> nx <> [] ->
  map (fun ix => Z.to_nat (address mz nx ix)) (all_indices nx) = arange 0 (Z.to_nat mz) (npoints nx).
Proof.
  intros Hm Hp Hne. destruct (all_indices_spec nx Hp Hne) as [H _].
  transitivity (map (fun z => Z.to_nat (mz * z)) (map (address 1 nx) (all_indices nx))).
  - rewrite map_map. apply map_ext. intros ix. rewrite (address_scale mz). reflexivity.
  - rewrite H, Zrange_to_arange by lia. rewrite Z.mul_0_r. reflexivity.
Qed.

Local Close Scope Z_scope.

(* ------------------------------------------------------------------ lists *)
Section Lists.
  Context {A : Type}.

  Lemma upd_len (l : list A) k f : length (upd l k f) = length l.
  Proof. revert k; induction l; destruct k; cbn; auto. Qed.
  Lemma upd_same (l : list A) k f d : k < length l -> nth k (upd l k f) d = f (nth k l d).
  Proof. revert k; induction l; destruct k; cbn; intros; try lia; auto. apply IHl; lia. Qed.
  Lemma upd_other (l : list A) k j f d : k <> j -> nth j (upd l k f) d = nth j l d.
  Proof. revert k j; induction l; destruct k, j; cbn; intros; try congruence; auto. Qed.

  Lemma slice_length (l : list A) a n : a + n <= length l -> length (slice l a n) = n.
  Proof. intros H. unfold slice. rewrite firstn_length, skipn_length. lia. Qed.
  Lemma nth_firstn_lt (l : list A) n j d : j < n -> nth j (firstn n l) d = nth j l d.
  Proof.
    revert n j; induction l as [|x l IH]; intros n j H.
    - rewrite firstn_nil. reflexivity.
    - destruct n; [lia|]. destruct j; cbn; auto. apply IH; lia.
  Qed.
  Lemma nth_skipn_add (l : list A) a j d : nth j (skipn a l) d = nth (a + j) l d.
  Proof.
    revert l; induction a as [|a IH]; intros l; [reflexivity|].
    destruct l; cbn [skipn Nat.add nth]; [destruct j; reflexivity|]. apply IH.
  Qed.
  Lemma slice_nth (l : list A) a n j d : j < n -> nth j (slice l a n) d = nth (a + j) l d.
  Proof. intros H. unfold slice. rewrite nth_firstn_lt by auto. apply nth_skipn_add. Qed.

  Lemma nth_eq_lists (l1 l2 : list A) d : length l1 = length l2 ->
    (forall j, j < length l1 -> nth j l1 d = nth j l2 d) -> l1 = l2.
  Proof. intros H1 H2. apply (nth_ext l1 l2 d d); auto. Qed.

  Lemma skipn_add (l : list A) a b : skipn b (skipn a l) = skipn (a + b) l.
  Proof.
    revert l; induction a as [|a IH]; intros l; [reflexivity|].
    destruct l; cbn [skipn Nat.add]; [apply skipn_nil|]. apply IH.
  Qed.
  Lemma firstn_add (l : list A) a b : firstn (a + b) l = firstn a l ++ firstn b (skipn a l).
  Proof.
    revert l; induction a as [|a IH]; intros l; [reflexivity|].
    destruct l; cbn [skipn Nat.add firstn app]; [rewrite firstn_nil; reflexivity|]. f_equal. apply IH.
  Qed.

  (* consecutive slices of step m make up the list *)
  Lemma slices_concat (l : list A) m : forall n a,
    flat_map (fun k => slice l k m) (arange a m n) = slice l a (n * m).
  Proof.
    induction n as [|n IH]; intros a; cbn [arange flat_map]; [reflexivity|].
    rewrite IH. unfold slice.
    replace (S n * m) with (m + n * m) by lia.
    rewrite firstn_add, skipn_add. reflexivity.
  Qed.
End Lists.
