From Coq Require Import ZArith List Bool Reals Lra Lia.
From CV Require Import Base.Num Base.RNum C15.GridModel C15.GridProofs C15.GridIOModel C15.GridIOProofs C15.TiModel.
Import ListNotations.

Section TiR.
  Local Open Scope R_scope.
  Variable c : hist_cfg (T := R).
  Hypothesis Hpos : all_pos (h_nx c).

  (* ti_bin always holds the bin of the values of the last step, collected or not, inside the grid or not *)
  Lemma ti_bin_tracks same st h i :
    ts_bin (ti_run Rops same c st (h ++ [i])) = bins Rops (h_lower c) (h_width c) (ti_x i).
  Proof. unfold ti_run. rewrite fold_left_app. reflexivity. Qed.

  Definition count_at (a : nat) (s : (list Z * list R)%type) : R :=
    if index_ok (h_nx c) (fst s) && Nat.eqb (Z.to_nat (address 1 (h_nx c) (fst s))) a then 1 else 0.
  Definition count_in (s : (list Z * list R)%type) : R := if index_ok (h_nx c) (fst s) then 1 else 0.

  Lemma ti_step_count (same : bool) (st : ti_state (T := R)) (i : ti_in (T := R)) (a : nat) : length (ts_count st) = Z.to_nat (ntot 1 (h_nx c)) ->
    let sb := if same then bins Rops (h_lower c) (h_width c) (ti_x i) else ts_bin st in
    nth a (ts_count (ti_step Rops same c st i)) 0
    = nth a (ts_count st) 0 + (if ti_elig same c i then count_at a (sb, ti_f i) else 0)
    /\ length (ts_count (ti_step Rops same c st i)) = length (ts_count st)
    /\ ts_bin (ti_step Rops same c st i) = bins Rops (h_lower c) (h_width c) (ti_x i).
  Proof.
    intros Hl sb. unfold ti_step, ti_elig, count_at. fold sb. cbn [ts_count ts_bin fst].
    destruct ((0 <? ti_rel i)%Z || same) eqn:E1; cbn [andb];
      [|split; [lra | split; reflexivity]].
    destruct (index_ok (h_nx c) sb) eqn:E2; cbn [andb].
    - destruct (ti_can c i) eqn:E3; [|split; [lra | split; reflexivity]].
      unfold ti_acc. cbn [ts_count]. rewrite upd_length. split; [|split; reflexivity].
      apply index_ok_iff in E2. pose proof (address_bounds 1 (h_nx c) sb ltac:(lia) Hpos E2) as Hb.
      destruct (Nat.eqb_spec (Z.to_nat (address 1 (h_nx c) sb)) a) as [<-|Hne].
      + rewrite upd_nth_same by (rewrite Hl; lia). cbn. lra.
      + rewrite upd_nth_other by auto. lra.
    - destruct (ti_can c i); split; try lra; split; reflexivity.
  Qed.

  (* every element of ti_count holds exactly the number of collected samples whose bin -- the bin of the values of the step
     the force belongs to -- is in the grid and has that address; a step whose bin is off the grid collects nothing and
     does not disturb the samples that follow *)
  Lemma ti_counts same : forall h st a, length (ts_count st) = Z.to_nat (ntot 1 (h_nx c)) ->
    nth a (ts_count (ti_run Rops same c st h)) 0
    = nth a (ts_count st) 0 + lsum (map (count_at a) (ti_samples Rops same c (ts_bin st) h)).
  Proof.
    induction h as [|i h IH]; intros st a Hl; cbn [ti_run fold_left ti_samples map lsum]; [lra|].
    destruct (ti_step_count same st i a Hl) as (H1 & H2 & H3).
    fold (ti_run Rops same c (ti_step Rops same c st i) h).
    rewrite IH by congruence. rewrite H1, H3, map_app, lsum_app.
    destruct (ti_elig same c i); cbn [map lsum]; lra.
  Qed.
End TiR.
