
(** val negb : bool -> bool **)

let negb = function
| true -> false
| false -> true

type nat =
| O
| S of nat

(** val fst : ('a1 * 'a2) -> 'a1 **)

let fst = function
| (x, _) -> x

(** val snd : ('a1 * 'a2) -> 'a2 **)

let snd = function
| (_, y) -> y

type comparison =
| Eq
| Lt
| Gt

(** val compOpp : comparison -> comparison **)

let compOpp = function
| Eq -> Eq
| Lt -> Gt
| Gt -> Lt

module Coq__1 = struct
 (** val add : nat -> nat -> nat **)
 let rec add n2 m =
   match n2 with
   | O -> m
   | S p -> S (add p m)
end
include Coq__1

type positive =
| XI of positive
| XO of positive
| XH

type n =
| N0
| Npos of positive

type z =
| Z0
| Zpos of positive
| Zneg of positive

module Pos =
 struct
  type mask =
  | IsNul
  | IsPos of positive
  | IsNeg
 end

module Coq_Pos =
 struct
  (** val succ : positive -> positive **)

  let rec succ = function
  | XI p -> XO (succ p)
  | XO p -> XI p
  | XH -> XO XH

  (** val add : positive -> positive -> positive **)

  let rec add x y =
    match x with
    | XI p ->
      (match y with
       | XI q -> XO (add_carry p q)
       | XO q -> XI (add p q)
       | XH -> XO (succ p))
    | XO p ->
      (match y with
       | XI q -> XI (add p q)
       | XO q -> XO (add p q)
       | XH -> XI p)
    | XH -> (match y with
             | XI q -> XO (succ q)
             | XO q -> XI q
             | XH -> XO XH)

  (** val add_carry : positive -> positive -> positive **)

  and add_carry x y =
    match x with
    | XI p ->
      (match y with
       | XI q -> XI (add_carry p q)
       | XO q -> XO (add_carry p q)
       | XH -> XI (succ p))
    | XO p ->
      (match y with
       | XI q -> XO (add_carry p q)
       | XO q -> XI (add p q)
       | XH -> XO (succ p))
    | XH ->
      (match y with
       | XI q -> XI (succ q)
       | XO q -> XO (succ q)
       | XH -> XI XH)

  (** val pred_double : positive -> positive **)

  let rec pred_double = function
  | XI p -> XI (XO p)
  | XO p -> XI (pred_double p)
  | XH -> XH

  type mask = Pos.mask =
  | IsNul
  | IsPos of positive
  | IsNeg

  (** val succ_double_mask : mask -> mask **)

  let succ_double_mask = function
  | IsNul -> IsPos XH
  | IsPos p -> IsPos (XI p)
  | IsNeg -> IsNeg

  (** val double_mask : mask -> mask **)

  let double_mask = function
  | IsPos p -> IsPos (XO p)
  | x0 -> x0

  (** val double_pred_mask : positive -> mask **)

  let double_pred_mask = function
  | XI p -> IsPos (XO (XO p))
  | XO p -> IsPos (XO (pred_double p))
  | XH -> IsNul

  (** val sub_mask : positive -> positive -> mask **)

  let rec sub_mask x y =
    match x with
    | XI p ->
      (match y with
       | XI q -> double_mask (sub_mask p q)
       | XO q -> succ_double_mask (sub_mask p q)
       | XH -> IsPos (XO p))
    | XO p ->
      (match y with
       | XI q -> succ_double_mask (sub_mask_carry p q)
       | XO q -> double_mask (sub_mask p q)
       | XH -> IsPos (pred_double p))
    | XH -> (match y with
             | XH -> IsNul
             | _ -> IsNeg)

  (** val sub_mask_carry : positive -> positive -> mask **)

  and sub_mask_carry x y =
    match x with
    | XI p ->
      (match y with
       | XI q -> succ_double_mask (sub_mask_carry p q)
       | XO q -> double_mask (sub_mask p q)
       | XH -> IsPos (pred_double p))
    | XO p ->
      (match y with
       | XI q -> double_mask (sub_mask_carry p q)
       | XO q -> succ_double_mask (sub_mask_carry p q)
       | XH -> double_pred_mask p)
    | XH -> IsNeg

  (** val mul : positive -> positive -> positive **)

  let rec mul x y =
    match x with
    | XI p -> add y (XO (mul p y))
    | XO p -> XO (mul p y)
    | XH -> y

  (** val compare_cont : comparison -> positive -> positive -> comparison **)

  let rec compare_cont r x y =
    match x with
    | XI p ->
      (match y with
       | XI q -> compare_cont r p q
       | XO q -> compare_cont Gt p q
       | XH -> Gt)
    | XO p ->
      (match y with
       | XI q -> compare_cont Lt p q
       | XO q -> compare_cont r p q
       | XH -> Gt)
    | XH -> (match y with
             | XH -> r
             | _ -> Lt)

  (** val compare : positive -> positive -> comparison **)

  let compare =
    compare_cont Eq

  (** val iter_op : ('a1 -> 'a1 -> 'a1) -> positive -> 'a1 -> 'a1 **)

  let rec iter_op op p a =
    match p with
    | XI p0 -> op a (iter_op op p0 (op a a))
    | XO p0 -> iter_op op p0 (op a a)
    | XH -> a

  (** val to_nat : positive -> nat **)

  let to_nat x =
    iter_op Coq__1.add x (S O)
 end

module N =
 struct
  (** val succ_double : n -> n **)

  let succ_double = function
  | N0 -> Npos XH
  | Npos p -> Npos (XI p)

  (** val double : n -> n **)

  let double = function
  | N0 -> N0
  | Npos p -> Npos (XO p)

  (** val sub : n -> n -> n **)

  let sub n2 m =
    match n2 with
    | N0 -> N0
    | Npos n' ->
      (match m with
       | N0 -> n2
       | Npos m' ->
         (match Coq_Pos.sub_mask n' m' with
          | Coq_Pos.IsPos p -> Npos p
          | _ -> N0))

  (** val compare : n -> n -> comparison **)

  let compare n2 m =
    match n2 with
    | N0 -> (match m with
             | N0 -> Eq
             | Npos _ -> Lt)
    | Npos n' -> (match m with
                  | N0 -> Gt
                  | Npos m' -> Coq_Pos.compare n' m')

  (** val leb : n -> n -> bool **)

  let leb x y =
    match compare x y with
    | Gt -> false
    | _ -> true

  (** val pos_div_eucl : positive -> n -> n * n **)

  let rec pos_div_eucl a b =
    match a with
    | XI a' ->
      let (q, r) = pos_div_eucl a' b in
      let r' = succ_double r in
      if leb b r' then ((succ_double q), (sub r' b)) else ((double q), r')
    | XO a' ->
      let (q, r) = pos_div_eucl a' b in
      let r' = double r in
      if leb b r' then ((succ_double q), (sub r' b)) else ((double q), r')
    | XH ->
      (match b with
       | N0 -> (N0, (Npos XH))
       | Npos p -> (match p with
                    | XH -> ((Npos XH), N0)
                    | _ -> (N0, (Npos XH))))
 end

module Z =
 struct
  (** val double : z -> z **)

  let double = function
  | Z0 -> Z0
  | Zpos p -> Zpos (XO p)
  | Zneg p -> Zneg (XO p)

  (** val succ_double : z -> z **)

  let succ_double = function
  | Z0 -> Zpos XH
  | Zpos p -> Zpos (XI p)
  | Zneg p -> Zneg (Coq_Pos.pred_double p)

  (** val pred_double : z -> z **)

  let pred_double = function
  | Z0 -> Zneg XH
  | Zpos p -> Zpos (Coq_Pos.pred_double p)
  | Zneg p -> Zneg (XI p)

  (** val pos_sub : positive -> positive -> z **)

  let rec pos_sub x y =
    match x with
    | XI p ->
      (match y with
       | XI q -> double (pos_sub p q)
       | XO q -> succ_double (pos_sub p q)
       | XH -> Zpos (XO p))
    | XO p ->
      (match y with
       | XI q -> pred_double (pos_sub p q)
       | XO q -> double (pos_sub p q)
       | XH -> Zpos (Coq_Pos.pred_double p))
    | XH ->
      (match y with
       | XI q -> Zneg (XO q)
       | XO q -> Zneg (Coq_Pos.pred_double q)
       | XH -> Z0)

  (** val add : z -> z -> z **)

  let add x y =
    match x with
    | Z0 -> y
    | Zpos x' ->
      (match y with
       | Z0 -> x
       | Zpos y' -> Zpos (Coq_Pos.add x' y')
       | Zneg y' -> pos_sub x' y')
    | Zneg x' ->
      (match y with
       | Z0 -> x
       | Zpos y' -> pos_sub y' x'
       | Zneg y' -> Zneg (Coq_Pos.add x' y'))

  (** val opp : z -> z **)

  let opp = function
  | Z0 -> Z0
  | Zpos x0 -> Zneg x0
  | Zneg x0 -> Zpos x0

  (** val mul : z -> z -> z **)

  let mul x y =
    match x with
    | Z0 -> Z0
    | Zpos x' ->
      (match y with
       | Z0 -> Z0
       | Zpos y' -> Zpos (Coq_Pos.mul x' y')
       | Zneg y' -> Zneg (Coq_Pos.mul x' y'))
    | Zneg x' ->
      (match y with
       | Z0 -> Z0
       | Zpos y' -> Zneg (Coq_Pos.mul x' y')
       | Zneg y' -> Zpos (Coq_Pos.mul x' y'))

  (** val compare : z -> z -> comparison **)

  let compare x y =
    match x with
    | Z0 -> (match y with
             | Z0 -> Eq
             | Zpos _ -> Lt
             | Zneg _ -> Gt)
    | Zpos x' -> (match y with
                  | Zpos y' -> Coq_Pos.compare x' y'
                  | _ -> Gt)
    | Zneg x' ->
      (match y with
       | Zneg y' -> compOpp (Coq_Pos.compare x' y')
       | _ -> Lt)

  (** val leb : z -> z -> bool **)

  let leb x y =
    match compare x y with
    | Gt -> false
    | _ -> true

  (** val ltb : z -> z -> bool **)

  let ltb x y =
    match compare x y with
    | Lt -> true
    | _ -> false

  (** val geb : z -> z -> bool **)

  let geb x y =
    match compare x y with
    | Lt -> false
    | _ -> true

  (** val to_nat : z -> nat **)

  let to_nat = function
  | Zpos p -> Coq_Pos.to_nat p
  | _ -> O

  (** val of_N : n -> z **)

  let of_N = function
  | N0 -> Z0
  | Npos p -> Zpos p

  (** val quotrem : z -> z -> z * z **)

  let quotrem a b =
    match a with
    | Z0 -> (Z0, Z0)
    | Zpos a0 ->
      (match b with
       | Z0 -> (Z0, a)
       | Zpos b0 ->
         let (q, r) = N.pos_div_eucl a0 (Npos b0) in ((of_N q), (of_N r))
       | Zneg b0 ->
         let (q, r) = N.pos_div_eucl a0 (Npos b0) in
         ((opp (of_N q)), (of_N r)))
    | Zneg a0 ->
      (match b with
       | Z0 -> (Z0, a)
       | Zpos b0 ->
         let (q, r) = N.pos_div_eucl a0 (Npos b0) in
         ((opp (of_N q)), (opp (of_N r)))
       | Zneg b0 ->
         let (q, r) = N.pos_div_eucl a0 (Npos b0) in
         ((of_N q), (opp (of_N r))))

  (** val rem : z -> z -> z **)

  let rem a b =
    snd (quotrem a b)
 end

(** val fold_left : ('a1 -> 'a2 -> 'a1) -> 'a2 list -> 'a1 -> 'a1 **)

let rec fold_left f l a0 =
  match l with
  | [] -> a0
  | b :: t -> fold_left f t (f a0 b)

(** val repeat : 'a1 -> nat -> 'a1 list **)

let rec repeat x = function
| O -> []
| S k -> x :: (repeat x k)

type 't numOps = { n0 : 't; n1 : 't; nadd : ('t -> 't -> 't);
                   nsub : ('t -> 't -> 't); nmul : ('t -> 't -> 't);
                   ndiv : ('t -> 't -> 't); nneg : ('t -> 't);
                   nsqrt : ('t -> 't); nexp : ('t -> 't); nlog : ('t -> 't);
                   ncos : ('t -> 't); nsin : ('t -> 't); nacos : ('t -> 't);
                   natan2 : ('t -> 't -> 't); npow : ('t -> 't -> 't);
                   nofZ : (z -> 't); nfloor : ('t -> z);
                   nltb : ('t -> 't -> bool); nleb : ('t -> 't -> bool);
                   neqb : ('t -> 't -> bool) }

(** val nhalf : 'a1 numOps -> 'a1 **)

let nhalf o =
  o.ndiv o.n1 (o.nofZ (Zpos (XO XH)))

(** val wrap_shift : 'a1 numOps -> 'a1 -> 'a1 -> 'a1 -> z **)

let wrap_shift o center period x =
  o.nfloor (o.nadd (o.ndiv (o.nsub x center) period) (nhalf o))

(** val wrap : 'a1 numOps -> bool -> 'a1 -> 'a1 -> 'a1 -> 'a1 **)

let wrap o periodic center period x =
  if periodic
  then o.nsub x (o.nmul (o.nofZ (wrap_shift o center period x)) period)
  else x

(** val value_to_bin : 'a1 numOps -> 'a1 -> 'a1 -> 'a1 -> z **)

let value_to_bin o lower w x =
  o.nfloor (o.ndiv (o.nsub x lower) w)

(** val bin_to_value : 'a1 numOps -> 'a1 -> 'a1 -> z -> 'a1 **)

let bin_to_value o lower w i =
  o.nadd lower (o.nmul w (o.nadd (nhalf o) (o.nofZ i)))

(** val bins : 'a1 numOps -> 'a1 list -> 'a1 list -> 'a1 list -> z list **)

let rec bins o lower w x =
  match lower with
  | [] -> []
  | l :: ls ->
    (match w with
     | [] -> []
     | wi :: ws ->
       (match x with
        | [] -> []
        | xi :: xs -> (value_to_bin o l wi xi) :: (bins o ls ws xs)))

(** val index_ok : z list -> z list -> bool **)

let rec index_ok nx ix =
  match nx with
  | [] -> (match ix with
           | [] -> true
           | _ :: _ -> false)
  | n2 :: ns ->
    (match ix with
     | [] -> false
     | i :: is_ -> (&&) ((&&) (Z.leb Z0 i) (Z.ltb i n2)) (index_ok ns is_))

(** val strides : z -> z list -> z list * z **)

let rec strides mult = function
| [] -> ([], mult)
| n2 :: ns -> let (c, t) = strides mult ns in ((t :: c), (Z.mul t n2))

(** val nxc : z -> z list -> z list **)

let nxc mult nx =
  fst (strides mult nx)

(** val ntot : z -> z list -> z **)

let ntot mult nx =
  snd (strides mult nx)

(** val address_c : z list -> z list -> z **)

let rec address_c c ix =
  match c with
  | [] -> Z0
  | ci :: cs ->
    (match ix with
     | [] -> Z0
     | i :: is_ -> Z.add (Z.mul i ci) (address_c cs is_))

(** val address : z -> z list -> z list -> z **)

let address mult nx ix =
  address_c (nxc mult nx) ix

(** val incr_aux : z list -> z list -> z list * bool **)

let rec incr_aux nx ix =
  match nx with
  | [] -> (ix, false)
  | n2 :: ns ->
    (match ix with
     | [] -> (ix, false)
     | i :: is_ ->
       (match ns with
        | [] ->
          if Z.geb (Z.add i (Zpos XH)) n2
          then ((Z0 :: []), true)
          else (((Z.add i (Zpos XH)) :: []), false)
        | _ :: _ ->
          let (t, carry) = incr_aux ns is_ in
          if carry
          then if Z.geb (Z.add i (Zpos XH)) n2
               then ((Z0 :: t), true)
               else (((Z.add i (Zpos XH)) :: t), false)
          else ((i :: t), false)))

(** val incr : z list -> z list -> z list **)

let incr nx ix =
  match nx with
  | [] -> let (r, _) = incr_aux [] ix in r
  | n2 :: l ->
    let (r, b) = incr_aux (n2 :: l) ix in
    (match r with
     | [] -> r
     | _ :: t -> if b then n2 :: t else r)

(** val wrap_index : bool list -> z list -> z list -> z list **)

let rec wrap_index periodic nx ix =
  match periodic with
  | [] -> []
  | p :: ps ->
    (match nx with
     | [] -> []
     | n2 :: ns ->
       (match ix with
        | [] -> []
        | i :: is_ ->
          (if p then Z.rem (Z.add (Z.rem i n2) n2) n2 else i) :: (wrap_index
                                                                   ps ns is_)))

(** val nbins_round : 'a1 numOps -> 'a1 -> 'a1 -> 'a1 -> z **)

let nbins_round o lower upper w =
  o.nfloor (o.nadd (o.ndiv (o.nsub upper lower) w) (nhalf o))

(** val upd : 'a1 list -> nat -> ('a1 -> 'a1) -> 'a1 list **)

let rec upd l k f =
  match l with
  | [] -> []
  | a :: r -> (match k with
               | O -> (f a) :: r
               | S k' -> a :: (upd r k' f))

type 't hist_cfg = { h_lower : 't list; h_width : 't list; h_nx : z list;
                     h_step_zero_data : bool }

type 't hist_in = { hi_rel : z; hi_cont : bool; hi_vals : ('t list * 't) list }

(** val can_accumulate : 'a1 hist_cfg -> 'a1 hist_in -> bool **)

let can_accumulate c i =
  (||) ((&&) (Z.ltb Z0 i.hi_rel) (negb i.hi_cont)) c.h_step_zero_data

(** val acc_sample :
    'a1 numOps -> 'a1 hist_cfg -> 'a1 list -> ('a1 list * 'a1) -> 'a1 list **)

let acc_sample o c data s =
  let ix = bins o c.h_lower c.h_width (fst s) in
  if index_ok c.h_nx ix
  then upd data (Z.to_nat (address (Zpos XH) c.h_nx ix)) (fun v ->
         o.nadd v (snd s))
  else data

(** val hist_step :
    'a1 numOps -> bool -> 'a1 hist_cfg -> 'a1 list -> 'a1 hist_in -> 'a1 list **)

let hist_step o vector_mode c data i =
  if (||) vector_mode (can_accumulate c i)
  then fold_left (acc_sample o c) i.hi_vals data
  else data

(** val hist_init : 'a1 numOps -> 'a1 hist_cfg -> 'a1 list **)

let hist_init o c =
  repeat o.n0 (Z.to_nat (ntot (Zpos XH) c.h_nx))

(** val hist_run :
    'a1 numOps -> bool -> 'a1 hist_cfg -> 'a1 hist_in list -> 'a1 list **)

let hist_run o vector_mode c h =
  fold_left (hist_step o vector_mode c) h (hist_init o c)

type 't grid_geom = { g_lower : 't list; g_width : 't list; g_nx : z list;
                      g_per : bool list }

(** val remap_target : 'a1 numOps -> 'a1 grid_geom -> 'a1 list -> z option **)

let remap_target o g x =
  let ix = wrap_index g.g_per g.g_nx (bins o g.g_lower g.g_width x) in
  if index_ok g.g_nx ix then Some (address (Zpos XH) g.g_nx ix) else None

(** val remap_record :
    'a1 numOps -> 'a1 grid_geom -> 'a1 list -> ('a1 list * 'a1) -> 'a1 list **)

let remap_record o g data rc =
  match remap_target o g (fst rc) with
  | Some a -> upd data (Z.to_nat a) (fun _ -> snd rc)
  | None -> data

(** val remap :
    'a1 numOps -> 'a1 grid_geom -> ('a1 list * 'a1) list -> 'a1 list **)

let remap o g recs =
  fold_left (remap_record o g) recs
    (repeat o.n0 (Z.to_nat (ntot (Zpos XH) g.g_nx)))
