From Coq Require Import Extraction ExtrOcamlBasic.
From CV Require Import Base.Num C16.IntegrateModel.
Extraction Language OCaml.
Extraction "model.ml" mkNumOps nhalf mkSmooth integrate1 closing1 ti_integral1 integrate2 integrate3
  mkShape2 mkState2 init2 preload2 set_div2 run2 dump2 atimes2 all_ix2
  mkShape3 mkState3 init3 preload3 set_div3 run3 dump3 atimes3 all_ix3.
