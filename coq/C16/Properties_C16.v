(* C16: PMF integration solves the stated discrete problem; incremental divergence = batch.
   Statements only; proofs in IntegrateProofs.v (any numeric carrier) and IntegrateRProofs.v (reals). *)
From Coq Require Import ZArith List Bool Reals Lia.
From CV Require Import Base.Num Base.RNum C16.IntegrateModel C16.IntegrateProofs C16.IntegrateRProofs.
Import ListNotations.

(* ---------------------------------------------------------------------------------------------
   One dimension.  ghat sc sm gd gc j is the value of bin j that integrate() reads
   (value_output_smoothed: accumulated sum times 1/count, or times the smoothing ramp). *)

(* The PMF array has one point per gradient bin (+1 if not periodic) and entry i is exactly the
   cumulative sum over the bins before i of (bin value - corr) * width, corr = average() if periodic. *)
Theorem C16_1d_cumsum : forall (sc : smooth_cfg) (per sm : bool) (w : R) (gd : list R) (gc : list Z),
  let corr := if per then average1 Rops sc gd gc else 0%R in
  let pmf := integrate1 Rops sc per sm w gd gc in
  length pmf = (if per then length gd else S (length gd)) /\
  forall i, (i < length pmf)%nat -> nth i pmf 0%R = psum (fun j => ((ghat sc sm gd gc j - corr) * w)%R) i.
Proof. exact integrate1_spec. Qed.
Print Assumptions C16_1d_cumsum.

(* the unsmoothed bin value is the bin average: accumulated sum / count (0 for an empty bin) ... *)
Theorem C16_1d_bin_average : forall (sc : smooth_cfg) (gd : list R) (gc : list Z) (j : nat),
  s_has_samples sc = true -> (j < length gd)%nat -> length gc = length gd ->
  ghat sc false gd gc j = if (0 <? nth j gc 0%Z)%Z then (nth j gd 0 / IZR (nth j gc 0%Z))%R else 0%R.
Proof. exact bin_average. Qed.
Print Assumptions C16_1d_bin_average.

(* ... the smoothed one is the bin average times the ramp (count-min)/(full-min), 0 up to minSamples *)
Theorem C16_1d_smoothed_value : forall (sc : smooth_cfg) (gd : list R) (gc : list Z) (j : nat),
  s_has_samples sc = true -> (j < length gd)%nat -> length gc = length gd ->
  let c := nth j gc 0%Z in
  ghat sc true gd gc j =
    if Z_le_dec c (s_min sc) then 0%R
    else if Z_lt_dec c (s_full sc)
         then (IZR (c - s_min sc) / IZR (s_full sc - s_min sc) * (nth j gd 0 / IZR c))%R
         else (nth j gd 0 / IZR c)%R.
Proof. exact smoothed_value. Qed.
Print Assumptions C16_1d_smoothed_value.

(* ... and the periodic correction is the mean of the UNsmoothed bin averages *)
Theorem C16_1d_correction_is_mean : forall (sc : smooth_cfg) (gd : list R) (gc : list Z), gd <> [] ->
  average1 Rops sc gd gc = (psum (ghat sc false gd gc) (length gd) / INR (length gd))%R.
Proof. exact average1_is_mean. Qed.
Print Assumptions C16_1d_correction_is_mean.

(* FULL STATEMENT (the surface of a periodic variable is periodic: continuing the sum over the last bin
   returns to pmf[0] = 0), for smoothed and unsmoothed gradients:

     Theorem C16_1d_periodic_closes : forall sc sm w gd gc, gd <> [] ->
       closing1 Rops sc true sm w gd gc = 0%R.

   It is FALSE of the code: integrate() subtracts gradients->average(), which is always the mean of the
   unsmoothed averages, from value_output_smoothed(ix, b_smoothed).  With b_smoothed = true the two differ
   as soon as one bin has fewer than fullSamples samples. *)
Theorem C16_1d_periodic_closes_refuted : exists (sc : smooth_cfg) (sm : bool) (w : R) (gd : list R) (gc : list Z),
  gd <> [] /\ closing1 Rops sc true sm w gd gc <> 0%R.
Proof.
  exists (mkSmooth true 0 2), true, 1%R, [1%R; 0%R], [1%Z; 2%Z]. split; [discriminate|].
  rewrite periodic_smoothed_does_not_close. apply Rlt_not_eq. apply Ropp_lt_gt_0_contravar. apply Rdiv_lt_0_compat; apply IZR_lt; lia.
Qed.
Print Assumptions C16_1d_periodic_closes_refuted.

(* it holds whenever the integrated values are the averaged ones: in particular without smoothing *)
Theorem C16_1d_periodic_closes_partial : forall (sc : smooth_cfg) (sm : bool) (w : R) (gd : list R) (gc : list Z),
  gd <> [] -> vals1 Rops sc sm gd gc = vals1 Rops sc false gd gc ->
  closing1 Rops sc true sm w gd gc = 0%R.
Proof. exact periodic_closes. Qed.
Print Assumptions C16_1d_periodic_closes_partial.

Theorem C16_1d_periodic_closes_unsmoothed : forall (sc : smooth_cfg) (w : R) (gd : list R) (gc : list Z),
  gd <> [] -> closing1 Rops sc true false w gd gc = 0%R.
Proof. intros sc w gd gc H. apply periodic_closes; auto. Qed.
Print Assumptions C16_1d_periodic_closes_unsmoothed.

(* ---------------------------------------------------------------------------------------------
   Two and three dimensions: incremental divergence = batch divergence.
   run2/run3 fold "acc_force; update_div_neighbors" over a history of (bin, force) arrivals;
   set_div2/set_div3 recompute every entry from the gradient data; dump2/dump3 list the divergence
   array in storage order.  The statements hold for EVERY numeric carrier T (reals and floats alike),
   every grid shape with at least one bin per dimension, every periodicity pattern, smoothed or not,
   every history (any order, any multiplicity) of in-range bins. *)
Theorem C16_incremental_eq_batch_2d : forall (T : Type) (O : NumOps T) (sc : smooth_cfg) (sm : bool) (sh : shape2 (T:=T))
    (st0 : state2 (T:=T)) (pre h : list ((Z * Z) * (T * T))),
  (0 < nxg sh)%Z -> (0 < nyg sh)%Z -> Forall (fun e => in_grad2 sh (fst e)) h ->
  let st1 := set_div2 O sc sm sh (preload2 O st0 pre) in
  dump2 sh (dv2 (run2 O sc sm sh st1 h)) = dump2 sh (dv2 (set_div2 O sc sm sh (run2 O sc sm sh st1 h))).
Proof. intros T O sc sm sh st0 pre h. exact (incremental_eq_batch2_after_set_div O sc sm sh st0 pre h). Qed.
Print Assumptions C16_incremental_eq_batch_2d.

Theorem C16_incremental_eq_batch_3d : forall (T : Type) (O : NumOps T) (sc : smooth_cfg) (sm : bool) (sh : shape3 (T:=T))
    (st0 : state3 (T:=T)) (pre h : list ((Z * Z * Z) * (T * T * T))),
  (0 < mxg sh)%Z -> (0 < myg sh)%Z -> (0 < mzg sh)%Z -> Forall (fun e => in_grad3 sh (fst e)) h ->
  let st1 := set_div3 O sc sm sh (preload3 O st0 pre) in
  dump3 sh (dv3 (run3 O sc sm sh st1 h)) = dump3 sh (dv3 (set_div3 O sc sm sh (run3 O sc sm sh st1 h))).
Proof. intros T O sc sm sh st0 pre h. exact (incremental_eq_batch3_after_set_div O sc sm sh st0 pre h). Qed.
Print Assumptions C16_incremental_eq_batch_3d.

(* from the empty grids a new ABF bias starts with (zero gradients, zero counts, zero divergence), over the reals *)
Theorem C16_incremental_eq_batch_2d_from_empty : forall (sc : smooth_cfg) (sm : bool) (sh : shape2 (T:=R))
    (h : list ((Z * Z) * (R * R))),
  (0 < nxg sh)%Z -> (0 < nyg sh)%Z -> Forall (fun e => in_grad2 sh (fst e)) h ->
  dump2 sh (dv2 (run2 Rops sc sm sh (init2 Rops) h)) =
  dump2 sh (dv2 (set_div2 Rops sc sm sh (run2 Rops sc sm sh (init2 Rops) h))).
Proof. intros sc sm sh h Hx Hy Hh. apply incremental_eq_batch2; auto. apply init2_consistent. Qed.
Print Assumptions C16_incremental_eq_batch_2d_from_empty.

Theorem C16_incremental_eq_batch_3d_from_empty : forall (sc : smooth_cfg) (sm : bool) (sh : shape3 (T:=R))
    (h : list ((Z * Z * Z) * (R * R * R))),
  (0 < mxg sh)%Z -> (0 < myg sh)%Z -> (0 < mzg sh)%Z -> Forall (fun e => in_grad3 sh (fst e)) h ->
  dump3 sh (dv3 (run3 Rops sc sm sh (init3 Rops) h)) =
  dump3 sh (dv3 (set_div3 Rops sc sm sh (run3 Rops sc sm sh (init3 Rops) h))).
Proof. intros sc sm sh h Hx Hy Hz Hh. apply incremental_eq_batch3; auto. apply init3_consistent. Qed.
Print Assumptions C16_incremental_eq_batch_3d_from_empty.

(* what "batch" means: set_div stores at every PMF point the divergence of the current gradient data *)
Theorem C16_set_div_is_divergence_2d : forall (T : Type) (O : NumOps T) (sc : smooth_cfg) (sm : bool) (sh : shape2 (T:=T))
    (st : state2 (T:=T)) (p : Z * Z),
  (0 < nxg sh)%Z -> (0 < nyg sh)%Z -> in_pmf2 sh p ->
  dv2 (set_div2 O sc sm sh st) p = div_value2 O sc sm sh st p.
Proof. intros T O sc sm sh st p Hx Hy. exact (set_div2_spec O sc sm sh Hx Hy st p). Qed.
Print Assumptions C16_set_div_is_divergence_2d.

Theorem C16_set_div_is_divergence_3d : forall (T : Type) (O : NumOps T) (sc : smooth_cfg) (sm : bool) (sh : shape3 (T:=T))
    (st : state3 (T:=T)) (p : Z * Z * Z),
  (0 < mxg sh)%Z -> (0 < myg sh)%Z -> (0 < mzg sh)%Z -> in_pmf3 sh p ->
  dv3 (set_div3 O sc sm sh st) p = div_value3 O sc sm sh st p.
Proof. intros T O sc sm sh st p Hx Hy Hz. exact (set_div3_spec O sc sm sh Hx Hy Hz st p). Qed.
Print Assumptions C16_set_div_is_divergence_3d.

(* ---------------------------------------------------------------------------------------------
   non-vacuity: the premises are satisfiable and the objects are not trivial (integer carrier, widths 1) *)
From Coq Require Import QArith.
Example C16_example_history_2d :
  let sh := mkShape2 true false 2 1 1%Q (1#2)%Q in
  let sc := mkSmooth true 0 2 in
  let h := [((1, 0)%Z, (2#1, 4#1)%Q); ((0, 0)%Z, (-6#1, 2#1)%Q); ((1, 0)%Z, (2#1, 0#1)%Q)] in
  Forall (fun e => in_grad2 sh (fst e)) h /\
  dump2 sh (dv2 (run2 Qops sc true sh (init2 Qops) h)) = [-1 # 2; 11 # 2; -11 # 2; 1 # 2]%Q /\
  dump2 sh (dv2 (set_div2 Qops sc true sh (run2 Qops sc true sh (init2 Qops) h))) = [-1 # 2; 11 # 2; -11 # 2; 1 # 2]%Q.
Proof.
  cbv zeta. split; [|split]; [| vm_compute; reflexivity | vm_compute; reflexivity].
  repeat constructor; cbn; lia.
Qed.

Example C16_example_1d :
  integrate1 Qops (mkSmooth false 0 1) false false (1#2)%Q [1#1; 2#1; 3#1]%Q [0; 0; 0]%Z = [0; 1 # 2; 3 # 2; 3]%Q /\
  integrate1 Qops (mkSmooth false 0 1) true false (1#2)%Q [1#1; 2#1; 4#1]%Q [0; 0; 0]%Z = [0; -2 # 3; -5 # 6]%Q /\
  closing1 Qops (mkSmooth false 0 1) true false (1#2)%Q [1#1; 2#1; 4#1]%Q [0; 0; 0]%Z = 0%Q /\
  (* the refutation witness, computed: *)
  closing1 Qops (mkSmooth true 0 2) true true (1#1)%Q [1#1; 0#1]%Q [1; 2]%Z = (-1 # 2)%Q.
Proof. repeat split; vm_compute; reflexivity. Qed.
