(* C16 (placeholder while the tie is being brought up) *)
From Coq Require Import ZArith List Bool Reals Lia.
From CV Require Import Base.Num Base.RNum C16.IntegrateModel.
Import ListNotations.
Example C16_zrange : zrange 3 = [0; 1; 2]%Z.
Proof. vm_compute. reflexivity. Qed.
